/-
  C26 — protobuf encoding round-trips.

  Model: `VrlModel.Proto` (`fromValue` = `encode_message`, the case table of `convert_value` /
  `convert_value_raw`; `toValue` = `proto_to_value`; the wire format of prost-reflect is the
  parameter `WireCodec` with the law `decode (encode m) = some (normalize m)`).
  Spec: `VrlModel.ProtoSpec` (`Shaped` = no defect, `dropDefaults`, `Pool.Ok`).

  The full-strength reading of the property ("a float in a `float` field, bytes in a `string`
  field, `-0.0` in a double field are message-shaped") is false of the code: see the witnesses in
  `VrlProofs.Witness.C26`.  The theorems below are therefore `_partial`: their hypothesis
  `Shaped pool r v` is exactly "no finding class applies" (`defectMsg pool r v = none`, decidable).
-/
import VrlProofs.Lemmas.C26
import VrlProofs.Lemmas.C26Spec

namespace C26
open Proto

/-- Field by field: for a value `x` without defect for the field `f`, `convert_value` succeeds,
    `try_set_field` accepts the result, the field is visible afterwards (`has_field`) exactly when
    `x` is not the field's default, and `proto_to_value` gives back `dropDefaults x` — before the
    wire (`mode = none`) as well as after either normalisation (`mode = some w`). -/
theorem field_inverse (P : Prims) (lossy : Bool) (pool : Pool) (hok : pool.Ok = true) (f : Field)
    (x : Value) (hs : x.Sorted = true) (hd : defect pool f x = none) :
    ∃ pv, convField P lossy pool f x = some pv ∧ validFor f pv = true ∧
      hasValue pool f pv = !isDefaultValue pool f x ∧
      ∀ mode, toValue pool (some f) (normOpt pool mode pv) = some (dropDefaults pool f x) := by
  obtain ⟨pv, h1, h2, _, h3, h4⟩ := rt_field P lossy pool hok f x hs hd
  exact ⟨pv, h1, h2, h3, fun mode => h4 mode f rfl rfl⟩

/-- what `Shaped` gives about the encoder, with and without normalisation -/
theorem tables_inverse_mode (P : Prims) (lossy : Bool) (pool : Pool) (hok : pool.Ok = true) (r : Nat)
    (v : Value) (hs : v.Sorted = true) (hsh : Shaped pool r v = true) :
    ∃ fs md, pool.msg r = some md ∧ fromValue P lossy pool r v = some fs ∧
      ∀ mode, toValueMsg pool r (normFieldsOpt pool md.fields mode fs) = some (dropDefaultsMsg pool r v) := by
  have hd : defect pool ⟨[], 0, .message r, .optional⟩ v = none := by
    simpa [Shaped, defectMsg] using hsh
  cases v with
  | obj m =>
    obtain ⟨pv, h1, _, _, _, h4⟩ := rt_field P lossy pool hok _ (.obj m) hs hd
    simp only [defect] at hd
    cases hmd : pool.msg r with
    | none => simp [hmd] at hd
    | some md =>
      simp only [convField, hmd] at h1
      cases hen : encodeFields (fun f => convLookup P lossy pool m f) md.fields .nil with
      | none => simp [hen] at h1
      | some fs =>
        simp only [hen, Option.map_some, Option.some.injEq] at h1
        subst h1
        refine ⟨fs, md, rfl, by simp [fromValue, hmd, hen], ?_⟩
        intro mode
        have := h4 mode ⟨[], 0, .message r, .optional⟩ rfl rfl
        have hno : normOpt pool mode (.message r fs) = .message r (normFieldsOpt pool md.fields mode fs) := by
          cases mode <;> simp [normOpt, normFieldsOpt, normalize, hmd]
        rw [hno] at this
        simpa [toValueMsg, toValue, dropDefaultsMsg] using this
  | null => simp [defect] at hd
  | bool _ => simp [defect] at hd
  | int _ => simp [defect] at hd
  | float _ => simp [defect] at hd
  | bytes _ => simp [defect] at hd
  | ts _ => simp [defect] at hd
  | regex _ => simp [defect] at hd
  | arr _ => simp [defect] at hd

/-- **C26, the two case tables.**  For every well-formed descriptor pool, every message type `r`
    and every value shaped like it: `encode_message` accepts the value and `proto_to_value` of the
    resulting message is the value without its proto3 defaults. -/
theorem tables_inverse_partial (P : Prims) (lossy : Bool) (pool : Pool) (hok : pool.Ok = true) (r : Nat)
    (v : Value) (hs : v.Sorted = true) (hsh : Shaped pool r v = true) :
    ∃ fs, fromValue P lossy pool r v = some fs ∧ toValueMsg pool r fs = some (dropDefaultsMsg pool r v) := by
  obtain ⟨fs, md, _, h1, h2⟩ := tables_inverse_mode P lossy pool hok r v hs hsh
  exact ⟨fs, h1, h2 none⟩

/-- `encode_proto` accepts every shaped value. -/
theorem shaped_accepted (P : Prims) (pool : Pool) (hok : pool.Ok = true) (W : WireCodec pool) (r : Nat)
    (v : Value) (hs : v.Sorted = true) (hsh : Shaped pool r v = true) :
    (encodeProto P pool W r v).isSome = true := by
  obtain ⟨fs, h1, _⟩ := tables_inverse_partial P true pool hok r v hs hsh
  simp [encodeProto, h1]

/-- **C26, end to end.**  With any wire codec that satisfies the law
    `decode (encode m) = some (normalize m)`:  `parse_proto(encode_proto(v)) = dropDefaults v`
    for every shaped value. -/
theorem roundtrip_partial (P : Prims) (pool : Pool) (hok : pool.Ok = true) (W : WireCodec pool) (r : Nat)
    (v : Value) (hs : v.Sorted = true) (hsh : Shaped pool r v = true) :
    (encodeProto P pool W r v).bind (parseProto pool W r) = some (dropDefaultsMsg pool r v) := by
  obtain ⟨fs, md, hmd, h1, h2⟩ := tables_inverse_mode P true pool hok r v hs hsh
  have := h2 (some true)
  simp only [normFieldsOpt] at this
  simp [encodeProto, h1, parseProto, W.law r fs md hmd, this]

/-- `uint64` / `fixed64` fields: every `i64` comes back unchanged, although negative integers are
    sent as values above `i64::MAX` (the two wrapping casts are inverse). -/
theorem uint64_wraps_back (pool : Pool) (ctx : Option Field) (i : Int) (h : inI64 i = true) :
    toValue pool ctx (.u64 (wrapU64 i)) = some (.int i) := by
  simp [toValue, wrapI64_wrapU64 i h]

/-- `dropDefaults` is a normal form: its result is still shaped and sorted, and dropping defaults
    again changes nothing. -/
theorem dropDefaults_normal_form (pool : Pool) (r : Nat) (v : Value) (hs : v.Sorted = true)
    (hsh : Shaped pool r v = true) :
    Shaped pool r (dropDefaultsMsg pool r v) = true ∧ (dropDefaultsMsg pool r v).Sorted = true ∧
    dropDefaultsMsg pool r (dropDefaultsMsg pool r v) = dropDefaultsMsg pool r v := by
  have hd : defect pool ⟨[], 0, .message r, .optional⟩ v = none := by
    simpa [Shaped, defectMsg] using hsh
  obtain ⟨h1, h2, _, h4⟩ := dd_field pool _ v hs hd
  exact ⟨by simp [Shaped, defectMsg, dropDefaultsMsg, h1], h4, h2⟩

/-- After one round trip the value is a fixed point: sending it again gives back exactly the same
    value. -/
theorem roundtrip_fixpoint (P : Prims) (pool : Pool) (hok : pool.Ok = true) (W : WireCodec pool) (r : Nat)
    (v : Value) (hs : v.Sorted = true) (hsh : Shaped pool r v = true) :
    (encodeProto P pool W r (dropDefaultsMsg pool r v)).bind (parseProto pool W r) =
      some (dropDefaultsMsg pool r v) := by
  obtain ⟨h1, h2, h3⟩ := dropDefaults_normal_form pool r v hs hsh
  rw [roundtrip_partial P pool hok W r _ h2 h1, h3]

/-- What a `float` field loses: a double `b` is sent as the nearest binary32 value
    (`F32.ofF64`: ties to even, overflow to ±∞, underflow to ±0) and comes back as that value widened;
    it survives exactly when `F32.exact b` (then `defectScalar` raises no `f32` defect). -/
theorem float_field_narrows (P : Prims) (lossy : Bool) (pool : Pool) (ctx : Option Field) (b : Nat)
    (h : F64.isNaN b = false) :
    convScalar P lossy (.float b) .float = some (.f32 (F32.ofF64 b)) ∧
    toValue pool ctx (.f32 (F32.ofF64 b)) = some (.float (F32.toF64 (F32.ofF64 b))) := by
  refine ⟨by simp [convScalar], ?_⟩
  simp [toValue, F32.ofF64_not_nan b h]

end C26
