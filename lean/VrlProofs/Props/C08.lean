/-
  C08 — error coalescing and infallible assignment follow their definitions.

  (a) `a ?? b`: value and final state of `a` when `a` succeeds (`b` is not evaluated: it does not
      occur on the right-hand side), otherwise `b` evaluated in the state `a` left.
  (b) `ok, err = e`: on success `ok := v`, `err := null`, value `v`; on a runtime error with text `m`
      `ok := default`, `err := m`, value `m` (the text is the implementation's `error.to_string()`,
      carried by the model as an opaque token taken from the recorded list `errs`).
  (c) the stored default belongs to `ok`'s reported type — stated with the Kind model in
      `default_mem_reported` below (over the C19 Kind model); the oracle `o.c08.default`
      evaluates `Lang.defaultSpec` on the real compiler's kind for `ok`.
-/
import VrlProofs.Props.C06
import VrlProofs.Lemmas.Vars
import VrlProofs.Props.C19
import VrlModel.Lang.Default

namespace C08
open Lang

theorem coalesce_ok (a b : Expr) (s s1 : St) (v : Value) (h : eval a (C06.catchS s) = (.ok v, s1)) :
    eval (.op .err a b) s = (.ok v, s1) := by
  rw [eval, h]

theorem coalesce_err (a b : Expr) (s s1 : St) (h : eval a (C06.catchS s) = (.err, s1)) :
    eval (.op .err a b) s = eval b s1 := by
  rw [eval, h]

/-- success: both targets are written (`ok` first), the expression evaluates to `e`'s value. -/
theorem ok_err_success (okT errT : Tgt) (e : Expr) (d v : Value) (s s1 s2 s3 : St)
    (h : eval e (C06.catchS s) = (.ok v, s1)) (h1 : okT.insert v s1 = some s2)
    (h2 : errT.insert .null s2 = some s3) : eval (.iasg okT errT e d) s = (.ok v, s3) := by
  rw [eval, h]; simp [h1, h2]

/-- failure: `ok` receives the default, `err` the message, the expression evaluates to the message. -/
theorem ok_err_failure (okT errT : Tgt) (e : Expr) (d : Value) (s s1 s2 s3 : St) (msg : List Nat)
    (rest : List (List Nat)) (h : eval e (C06.catchS s) = (.err, s1)) (h1 : okT.insert d s1 = some s2)
    (hm : s2.errs = msg :: rest) (h2 : errT.insert (.bytes msg) { s2 with errs := rest } = some s3) :
    eval (.iasg okT errT e d) s = (.ok (.bytes msg), s3) := by
  rw [eval, h]; simp [h1, hm, h2]

/-- what "stores" means for a plain variable target: afterwards the variable reads that value. -/
theorem variable_target (n : String) (v : Value) (s : St) :
    ∃ s', (Tgt.internal n []).insert v s = some s' ∧ s'.getVar n = some v :=
  ⟨s.setVar n v, rfl, by simp⟩

/-- `x, err = !1` with recorded message "E" : `x = false` (default), `err = "E"`, value "E" -/
def exProg : Exprs :=
  .cons (.iasg (.internal "x" []) (.internal "err" [])
      (.not (.lit (.int 1))) (.bool false)) .nil

def exS : St :=
  { vars := [], event := .obj .nil, metadata := .null, faults := [], ops := 0, log := [], errs := [[69]] }

example :
    (run exProg exS).1 = .ok (.bytes [69]) ∧
    (run exProg exS).2.getVar "x" = some (.bool false) ∧
    (run exProg exS).2.getVar "err" = some (.bytes [69]) := by
  decide

/-! ### (c) the stored default (`DefaultValue::default_value`, model `Lang.defaultValue`) -/

/-- the nine possible defaults -/
theorem defaultValue_cases (k : Kind) :
    defaultValue k = .bytes [] ∨ defaultValue k = .int 0 ∨ defaultValue k = .float 0 ∨
    defaultValue k = .bool false ∨ defaultValue k = .ts 0 ∨ defaultValue k = .regex [] ∨
    defaultValue k = .arr .nil ∨ defaultValue k = .obj .nil ∨ defaultValue k = .null := by
  unfold defaultValue
  repeat' split
  all_goals simp

/-- **C08 (c)**: the default stored in `ok` when `e` fails belongs to the type the compiler reports
    for `ok`, which is `e`'s kind united with the kind of the default (`assignment.rs`,
    `expr_result.union(TypeDef::from(default.kind()))`) — for every kind `k` of `e`. -/
theorem default_mem_reported (k : Kind) (sk : k.SortedK = true) (ik : k.hasNonAnyInf = false) :
    Spec.mem (defaultValue k) (k.union (defaultValue k).kindOf) = true := by
  rcases defaultValue_cases k with h | h | h | h | h | h | h | h | h <;> rw [h] <;>
    exact C19.mem_union_right _ k _ sk (by decide) ik (by decide) (C19.mem_kindOf _ (by decide))

/-- an exact kind keeps its default without the union: the default of `bytes` is a string, … -/
theorem default_mem_exact_bytes (k : Kind) (h : k.isBytes = true) : defaultValue k = .bytes [] := by
  simp [defaultValue, h]

example : defaultValue Kind.bytes = .bytes [] ∧ defaultValue Kind.integer = .int 0 ∧
    defaultValue (Kind.bytes.union Kind.integer) = .null := by decide

end C08
