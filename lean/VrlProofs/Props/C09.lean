/-
  C09 — short-circuit and conditional evaluation are exact.
  Model: `Lang.eval` (VrlModel/Lang/Eval.lean), the model of `Op::resolve`, `IfStatement::resolve`,
  `Predicate::resolve`, `try_and` — tied to the code by the `lang.run` correspondence.

  Every theorem is an equation on `eval` that holds for ALL operand expressions, ALL states and ALL
  right-hand sides; the final *state* is part of the equation, so "side effects of unevaluated
  operands and branches never happen" is literally what is proved (the result does not mention
  the unevaluated expression at all).  `s.short` is `s` with the relevance flag `evShort` set.
-/
import VrlModel.Lang.Eval

namespace C09
open Lang

abbrev short (s : St) : St := { s with evShort := true }

/-- a value that makes `||` take its left operand -/
def truthy : Value → Bool
  | .null => false
  | .bool false => false
  | _ => true

/-- `a || b` yields `a`, without evaluating `b`, when `a` is neither null nor false. -/
theorem or_left (l r : Expr) (s s1 : St) (v : Value) (h : eval l (short s) = (.ok v, s1))
    (ht : truthy v = true) : eval (.op .or l r) s = (.ok v, s1) := by
  rw [eval, h]
  cases v <;> simp_all [truthy]
  rename_i b; cases b <;> simp_all [truthy]

/-- `a || b` evaluates `b` (in the state left by `a`) and yields it when `a` is null or false. -/
theorem or_right (l r : Expr) (s s1 : St) (v : Value) (h : eval l (short s) = (.ok v, s1))
    (ht : truthy v = false) : eval (.op .or l r) s = eval r s1 := by
  rw [eval, h]
  cases v <;> simp_all [truthy]
  · cases hr : eval r s1 with | mk res s2 => cases res <;> rfl
  · rename_i b; cases b <;> simp_all [truthy]
    cases hr : eval r s1 with | mk res s2 => cases res <;> rfl

/-- `a && b` is `false`, without evaluating `b`, when `a` is null or false. -/
theorem and_short (l r : Expr) (s s1 : St) (v : Value) (h : eval l (short s) = (.ok v, s1))
    (ht : truthy v = false) : eval (.op .and l r) s = (.ok (.bool false), s1) := by
  rw [eval, h]
  cases v <;> simp_all [truthy]
  rename_i b; cases b <;> simp_all [truthy]

/-- otherwise `b` is evaluated and the result is `try_and`: the boolean conjunction (boolean ∧ null is
    false; any other operand type is an error). -/
theorem and_both (l r : Expr) (s s1 s2 : St) (v w : Value) (h : eval l (short s) = (.ok v, s1))
    (ht : truthy v = true) (hr : eval r s1 = (.ok w, s2)) :
    eval (.op .and l r) s = (tryAnd v w, s2) := by
  rw [eval, h]
  cases v <;> simp_all [truthy]
  rename_i b; cases b <;> simp_all [truthy]

theorem tryAnd_bool (a b : Bool) : tryAnd (.bool a) (.bool b) = .ok (.bool (a && b)) := rfl
theorem tryAnd_null (a : Bool) : tryAnd (.bool a) .null = .ok (.bool false) := rfl

/-- `if` runs exactly the `then` block when the predicate is `true` … -/
theorem if_true (pred thn els : Exprs) (hasElse : Bool) (s s1 : St)
    (h : evalSeq pred (short s) = (.ok (.bool true), s1)) :
    eval (.ifte pred thn hasElse els) s = evalSeq thn s1 := by
  rw [eval, h]

/-- … exactly the `else` block when it is `false` … -/
theorem if_false_else (pred thn els : Exprs) (s s1 : St)
    (h : evalSeq pred (short s) = (.ok (.bool false), s1)) :
    eval (.ifte pred thn true els) s = evalSeq els s1 := by
  rw [eval, h]; rfl

/-- … and yields `null`, running nothing, when the chosen branch is a missing `else`. -/
theorem if_false_noelse (pred thn els : Exprs) (s s1 : St)
    (h : evalSeq pred (short s) = (.ok (.bool false), s1)) :
    eval (.ifte pred thn false els) s = (.ok .null, s1) := by
  rw [eval, h]; rfl

/-- a non-boolean predicate is a runtime error; no branch runs. -/
theorem if_nonbool (pred thn els : Exprs) (hasElse : Bool) (s s1 : St) (v : Value)
    (h : evalSeq pred (short s) = (.ok v, s1)) (hv : ∀ b, v ≠ .bool b) :
    eval (.ifte pred thn hasElse els) s = (.err, s1) := by
  rw [eval, h]
  cases v <;> simp_all

/-- a predicate made of several expressions evaluates all of them in order and uses the last. -/
theorem predicate_many (e : Expr) (es : Exprs) (s s1 : St) (v : Value) (hne : es ≠ .nil)
    (h : eval e s = (.ok v, s1)) : evalSeq (.cons e es) s = evalSeq es s1 := by
  cases es with
  | nil => exact absurd rfl hne
  | cons e' es' => rw [evalSeq, h]; intro hc; cases hc

/-- non-vacuity: `null || 7` takes the right operand, `true || abort` the left one. -/
example : (eval (.op .or (.lit .null) (.lit (.int 7)))
    { vars := [], event := .null, metadata := .null, faults := [], ops := 0, log := [], errs := [] }).1
    = .ok (.int 7) := by decide
example : (eval (.op .or (.lit (.bool true)) (.abort false .noop))
    { vars := [], event := .null, metadata := .null, faults := [], ops := 0, log := [], errs := [] }).1
    = .ok (.bool true) := by decide

end C09
