/-
  C32 — Grok rules match and capture faithfully.
  Property theorems only (helper lemmas: VrlProofs/Lemmas/C32.lean, C32Cycle.lean). Model:
  VrlModel/Grok.lean (parse_grok_rules.rs, grok.rs, grok_filter.rs, parse_grok.rs), reference matcher:
  VrlModel/GrokRegex.lean, Spec definitions: VrlModel/C32.lean. The regex engine (onig), Rust's
  float parsing / case mapping and the built-in pattern library are parameters (`Engine`, `Prims`,
  `lib`); "onig agrees with the reference matcher on the generated subset" is the hypothesis
  `AgreesOn E src`, sampled by the `c32.*` correspondence ops, never an axiom.
-/
import VrlProofs.Lemmas.C32
import VrlProofs.Lemmas.C32Cycle
import VrlProofs.Lemmas.C32Source
import VrlProofs.Lemmas.C32Match

namespace C32
open Grok Rx

/-! ## (i) alias resolution terminates and rejects exactly the reachable cycles

  `parse_grok_rule` expands alias definitions depth first; `alias_stack` (`Ctx.stack`) is the path
  from the rule to the definition being expanded. `Walk P aliases text w` is a walk `w` of the
  reference graph that starts at a placeholder of `text`; `HasCycleFrom` = some walk repeats a name. -/

/-- invariant of a successful expansion from the stack `c.stack`: every walk that starts in the
    expanded text avoids the stack and never repeats a name. -/
theorem expansion_ok_walks (P : Prims) (aliases : List (Str × Str)) :
    ∀ (n : Nat) (text : Str) (c c' : Ctx), parseRuleF P aliases n text c = .ok c' →
      ∀ w, Walk P aliases text w → (∀ a ∈ w, a ∉ c.stack) ∧ w.Nodup := by
  intro n
  induction n with
  | zero => intro text c c' h; simp [parseRuleF] at h
  | succ n ih =>
    intro text c c' h w hw
    simp only [parseRuleF] at h
    have hk := keepsStack_parseRuleF P aliases n
    obtain ⟨_, hrefs⟩ := resolvePieces_ok hk _ _ _ h
    cases hw with
    | one ha =>
      obtain ⟨hn, _⟩ := hrefs _ ha
      exact ⟨by simpa using hn, by simp⟩
    | @cons _ a d w' ha hd hw' =>
      obtain ⟨hn, d', cout, hd', cin, hcin, hrun⟩ := hrefs _ ha
      rw [hd] at hd'; injection hd' with hd'; subst hd'
      obtain ⟨havoid, hnodup⟩ := ih _ _ _ hrun w' hw'
      rw [hcin] at havoid
      constructor
      · intro b hb
        rcases List.mem_cons.mp hb with rfl | hb'
        · exact hn
        · have := havoid b hb'
          simp at this; exact this.1
      · refine List.nodup_cons.mpr ⟨?_, hnodup⟩
        intro hmem
        have := havoid a hmem
        simp at this

/-- invariant of a circular-dependency error: a walk from the expanded text runs into a name that
    is on the stack or earlier on the walk, and the reported name is the first of stack ++ walk. -/
theorem expansion_circular_walk (P : Prims) (aliases : List (Str × Str)) :
    ∀ (n : Nat) (text : Str) (c : Ctx) (x : Str), parseRuleF P aliases n text c = .err (.circular x) →
      ∃ w pre last, Walk P aliases text w ∧ w = pre ++ [last] ∧ last ∈ c.stack ++ pre ∧
        x = (c.stack ++ w).headD [] := by
  intro n
  induction n with
  | zero => intro text c x h; simp [parseRuleF] at h
  | succ n ih =>
    intro text c x h
    simp only [parseRuleF] at h
    have hk := keepsStack_parseRuleF P aliases n
    obtain ⟨a, ha, d, hd, hcase⟩ := resolvePieces_circular hk _ _ _ h
    rcases hcase with ⟨hmem, hx⟩ | ⟨_, cin, hcin, hrun⟩
    · refine ⟨[a], [], a, Walk.one ha, rfl, by simpa using hmem, ?_⟩
      rw [headD_append_of_mem _ _ _ a hmem]; exact hx
    · obtain ⟨w', pre', last', hw', hweq, hlast, hx⟩ := ih _ _ _ hrun
      refine ⟨a :: w', a :: pre', last', Walk.cons ha hd hw', by simp [hweq], ?_, ?_⟩
      · rw [hcin] at hlast; simpa [List.append_assoc] using hlast
      · rw [hcin] at hx; simpa [List.append_assoc] using hx

/-- the expansion never exhausts its recursion bound while fewer aliases are off the stack than
    fuel is left. -/
theorem expansion_no_fuel (P : Prims) (aliases : List (Str × Str)) :
    ∀ (n : Nat) (text : Str) (c : Ctx), remaining aliases c.stack < n →
      parseRuleF P aliases n text c ≠ .fuel := by
  intro n
  induction n with
  | zero => intro text c h; omega
  | succ n ih =>
    intro text c hlt h
    simp only [parseRuleF] at h
    have hk := keepsStack_parseRuleF P aliases n
    obtain ⟨a, _, d, hd, hn, cin, hcin, hrun⟩ := resolvePieces_fuel hk _ _ h
    have := remaining_lt hd hn
    exact ih d cin (by rw [hcin]; omega) hrun

/-- (i-a) **termination**: the recursion through alias definitions is bounded by the number of
    aliases — the model's recursion bound `aliases.length + 1` is never exhausted, whatever the
    rule and the definitions (cyclic or not). -/
theorem parseRule_terminates (P : Prims) (aliases : List (Str × Str)) (rule : Str) :
    parseRuleF P aliases (aliases.length + 1) rule Ctx.empty ≠ .fuel :=
  expansion_no_fuel P aliases _ rule Ctx.empty (by
    have := remaining_le aliases Ctx.empty.stack
    omega)

/-- (i-b) an accepted rule has no reachable cycle: **cyclic alias definitions are rejected when the
    rule is compiled** (with the circular-dependency error or with an earlier error). -/
theorem accepted_acyclic (P : Prims) (aliases : List (Str × Str)) (rule : Str)
    (r : Str × List (Nat × Field)) (h : ruleSource P aliases rule = .ok r) :
    ¬ HasCycleFrom P aliases rule := by
  unfold ruleSource at h
  obtain ⟨c, hc, _⟩ := bind_eq_ok h
  rintro ⟨w, hw, hnd⟩
  exact hnd (expansion_ok_walks P aliases _ rule _ _ hc w hw).2

/-- the same at the level of a compiled rule. -/
theorem compiled_acyclic (P : Prims) (E : Engine) (lib aliases : List (Str × Str)) (rule : Str)
    (r : Rule E) (h : compileRule P E lib aliases rule = .ok r) : ¬ HasCycleFrom P aliases rule := by
  unfold compileRule at h
  obtain ⟨sf, hsf, _⟩ := bind_eq_ok h
  exact accepted_acyclic P aliases rule sf hsf

/-- (i-c) the circular-dependency error is only raised for a reachable cycle, and the alias it
    names (`alias_stack.first()`) is the first alias of a walk into that cycle — a reference of the
    rule itself, not necessarily a member of the cycle. -/
theorem circular_has_cycle (P : Prims) (aliases : List (Str × Str)) (rule x : Str)
    (h : ruleSource P aliases rule = .err (.circular x)) :
    HasCycleFrom P aliases rule ∧ ∃ w, Walk P aliases rule w ∧ ¬ w.Nodup ∧ w.head? = some x := by
  unfold ruleSource at h
  have hc : parseRuleF P aliases (aliases.length + 1) rule Ctx.empty = .err (.circular x) := by
    cases hp : parseRuleF P aliases (aliases.length + 1) rule Ctx.empty <;> simp [hp] at h
    subst h; rfl
  obtain ⟨w, pre, last, hw, hweq, hlast, hx⟩ := expansion_circular_walk P aliases _ rule _ x hc
  have hnd : ¬ w.Nodup := by
    subst hweq
    simp only [Ctx.empty, List.nil_append] at hlast
    intro hn
    have := (List.nodup_append.mp hn).2.2 last hlast last (by simp)
    exact this rfl
  refine ⟨⟨w, hw, hnd⟩, w, hw, hnd, ?_⟩
  subst hweq
  simp only [Ctx.empty, List.nil_append] at hx
  cases pre <;> simp_all

/-- the decidable test the `o.c32.cyc` oracle evaluates (a closure computation, independent of the
    depth-first expansion) only reports real cycles … -/
theorem cycleReachable_sound (P : Prims) (aliases : List (Str × Str)) (text : Str)
    (h : cycleReachable P aliases text = true) : HasCycleFrom P aliases text := by
  unfold cycleReachable at h
  obtain ⟨a, ha, hloop⟩ := List.any_eq_true.mp h
  simp only [List.contains_eq_mem, decide_eq_true_eq] at hloop
  -- a walk from the text to `a`
  have h1 : ∃ w1, Walk P aliases text w1 ∧ w1.getLast? = some a := by
    unfold reachable at ha
    rcases closure_mem _ _ _ ha with h' | ⟨s, hs, hr⟩
    · rcases addNew_mem h' with h'' | h''
      · cases h''
      · exact ⟨[a], .one h'', rfl⟩
    · rcases addNew_mem hs with h'' | h''
      · cases h''
      · obtain ⟨d, w, hd, hw, haw⟩ := walk_of_reaches hr
        obtain ⟨w', hw', hl⟩ := walk_prefix_to hw haw
        refine ⟨s :: w', .cons h'' hd hw', ?_⟩
        cases w' with
        | nil => cases hw'
        | cons y ys => simpa [List.getLast?_cons_cons] using hl
  -- a walk from the definition of `a` back to `a`
  have h2 : Reaches P aliases a a := by
    rcases closure_mem _ _ _ hloop with h' | ⟨s, hs, hr⟩
    · rcases addNew_mem h' with h'' | h''
      · cases h''
      · exact .step h''
    · rcases addNew_mem hs with h'' | h''
      · cases h''
      · exact .trans h'' hr
  obtain ⟨w1, hw1, hl1⟩ := h1
  obtain ⟨da, w2, hda, hw2, haw2⟩ := walk_of_reaches h2
  obtain ⟨w2', hw2', hl2⟩ := walk_prefix_to hw2 haw2
  refine ⟨w1 ++ w2', walk_append hw1 hl1 hda hw2', ?_⟩
  intro hnd
  exact (List.nodup_append.mp hnd).2.2 a (getLast?_mem hl1) a (getLast?_mem hl2) rfl

/-- … and it reports every reachable cycle: the closure over `aliases.length` rounds is complete. -/
theorem cycleReachable_complete (P : Prims) (aliases : List (Str × Str)) (text : Str)
    (h : HasCycleFrom P aliases text) : cycleReachable P aliases text = true := by
  obtain ⟨w, hw, hnd⟩ := h
  obtain ⟨a, hreach, hloop⟩ := cycle_of_walk hw hnd
  unfold cycleReachable
  refine List.any_eq_true.mpr ⟨a, ?_, ?_⟩
  · unfold reachable
    apply closure_complete _ _ a (missing_le aliases _)
    rcases hreach with h' | ⟨s, hs, hr⟩
    · exact Or.inl (mem_addNew.mpr (Or.inr h'))
    · exact Or.inr ⟨s, mem_addNew.mpr (Or.inr hs), hr⟩
  · simp only [List.contains_eq_mem, decide_eq_true_eq]
    apply closure_complete _ _ a (missing_le aliases _)
    cases hloop with
    | step hb => exact Or.inl (mem_addNew.mpr (Or.inr hb))
    | trans hb hr => exact Or.inr ⟨_, mem_addNew.mpr (Or.inr hb), hr⟩

/-- the oracle's decidable test is exactly the Spec notion. -/
theorem cycleReachable_iff (P : Prims) (aliases : List (Str × Str)) (text : Str) :
    cycleReachable P aliases text = true ↔ HasCycleFrom P aliases text :=
  ⟨cycleReachable_sound P aliases text, cycleReachable_complete P aliases text⟩

/-- the Spec predicate `cycSpec` evaluated by the `o.c32.cyc` oracle holds of the model for every
    rule: accepted ⇒ no reachable cycle, circular error ⇒ a reachable cycle. -/
theorem cycSpec_holds (P : Prims) (aliases : List (Str × Str)) (rule : Str) :
    cycSpec P aliases rule
      (match ruleSource P aliases rule with
       | .ok _ => .accepted
       | .err (.circular _) => .circular
       | .panic => .panicked
       | _ => .otherError) = true := by
  cases hr : ruleSource P aliases rule with
  | ok r =>
    simp only [cycSpec, Bool.not_eq_eq_eq_not, Bool.not_true]
    cases hc : cycleReachable P aliases rule with
    | false => rfl
    | true => exact absurd (cycleReachable_sound P aliases rule hc) (accepted_acyclic P aliases rule r hr)
  | err e =>
    cases e with
    | circular x =>
      simp only [cycSpec]
      exact cycleReachable_complete P aliases rule (circular_has_cycle P aliases rule x hr).1
    | _ => rfl
  | panic => rfl
  | oom => rfl
  | fuel => rfl

/-- … hence an accepted rule passes it (the clause `cycSpec … accepted` of the oracle). -/
theorem accepted_not_cycleReachable (P : Prims) (aliases : List (Str × Str)) (rule : Str)
    (r : Str × List (Nat × Field)) (h : ruleSource P aliases rule = .ok r) :
    cycleReachable P aliases rule = false := by
  cases hc : cycleReachable P aliases rule with
  | false => rfl
  | true => exact absurd (cycleReachable_sound P aliases rule hc) (accepted_acyclic P aliases rule r h)

/-! ## (ii) the regex source of a rule: anchored concatenation, one named group per capture

  A *flat* rule is verbatim text interleaved with placeholders whose matcher is an alias with a
  placeholder-free definition (`ReadsAs` ties the rule text to its items through the model's own
  segmentation and placeholder parser). `specFrom` is the Spec: texts and definitions verbatim, in
  order, `(?<grokK>definition)` for the K-th placeholder with a destination; `fields` maps `K` to
  the declared destination and filters. Text is **not** escaped by vrl. -/

/-- (ii) the source vrl builds for a flat rule is `(?m)\A` + the ordered concatenation + `\z`, and
    the registered fields are exactly the declared destinations/filters under `grok0, grok1, …`. -/
theorem flat_rule_source (P : Prims) (aliases : List (Str × Str)) (rule : Str) (items : List SItem)
    (h : ReadsAs P aliases rule items) :
    ruleSource P aliases rule = .ok (wrap (specFrom 0 items).1, (specFrom 0 items).2) := by
  unfold ruleSource
  have := resolvePieces_flat P (expandsPlain_parseRuleF P aliases) _ _ h Ctx.empty rfl rfl
  simp only [parseRuleF, this]
  simp [Ctx.empty]

/-- the fields of a flat rule are numbered consecutively in rule order. -/
theorem specFrom_keys (items : List SItem) : ∀ k,
    (specFrom k items).2.map Prod.fst = List.range' k (specFrom k items).2.length := by
  induction items with
  | nil => intro k; simp [specFrom]
  | cons it rest ih =>
    intro k
    cases it with
    | text t => simpa [specFrom] using ih k
    | ref d => simpa [specFrom] using ih k
    | cap d path fl => simp [specFrom, ih (k + 1), List.range'_succ]

/-- (ii, matching) a compiled rule matches an input exactly when the engine finds a match of the
    compiled source; with `flat_rule_source` and a source free of `%{` (so that `Grok::compile`
    expands nothing) that source is the anchored concatenation itself. -/
theorem rule_matches_iff_source_matches (P : Prims) (E : Engine) (r : Rule E) (input : Str) :
    applyRule P E r input = .ok .noMatch ↔ E.captures r.rx input = none := by
  unfold applyRule
  cases hc : E.captures r.rx input with
  | none => simp
  | some caps =>
    simp only [reduceCtorEq, iff_false]
    intro h
    obtain ⟨x, _, hx⟩ := bind_eq_ok h
    simp at hx

theorem compileRule_flat (P : Prims) (E : Engine) (lib aliases : List (Str × Str)) (rule : Str)
    (items : List SItem) (h : ReadsAs P aliases rule items)
    (hno : noPh (wrap (specFrom 0 items).1) = true) (r : Rule E)
    (hr : compileRule P E lib aliases rule = .ok r) :
    E.compile (wrap (specFrom 0 items).1) = .ok r.rx ∧ r.fields = (specFrom 0 items).2 ∧
      r.names = patternNames [] (E.names r.rx) := by
  unfold compileRule at hr
  simp only [flat_rule_source P aliases rule items h, bind_ok, grokExpand_noPh _ _ hno] at hr
  cases hc : E.compile (wrap (specFrom 0 items).1) with
  | ok rx => simp only [hc, pure_eq_ok, Out.ok.injEq] at hr; subst hr; exact ⟨rfl, rfl, rfl⟩
  | bad => simp [hc] at hr
  | unsupported => simp [hc] at hr

/-! ## (iv) captured fields = matched substrings after the declared filters, in rule order

  `expectedFrom` (VrlModel/C32.lean) is the Spec: every non-empty captured substring goes through
  its declared filters and is stored at its destination, in the order of the rule. The
  implementation visits the captures in the `BTreeMap` order of their generated names, which is the
  rule order only up to ten captures (`grok10 < grok2`): `captures_in_rule_order_partial`, witness
  `witness_name_order`. -/

/-- (iv, partial: at most ten captures) the object built by `apply_grok_rule` is the Spec's:
    substrings, through the filters, stored in rule order. -/
theorem captures_in_rule_order_partial (P : Prims) (fields : List (Nat × Field))
    (caps : List (Str × Option Str)) (hnum : Numbered fields) (hk : fields.length ≤ 10)
    (parsed : Value) (n : Nat) :
    applyCaptures P fields caps (patternNames [] ((List.range fields.length).map grokName)) parsed n
      = expectedFrom P (capsOf fields (textOf caps)) parsed n := by
  rw [patternNames_small _ (by omega)]
  have hmap : (List.range fields.length).map (fun i => (grokName i, grokName i))
      = fields.map (fun kv => (grokName kv.1, grokName kv.1)) := by
    rw [← hnum, List.map_map]; rfl
  rw [hmap]
  apply applyCaptures_eq_expectedFrom
  intro kv hkv
  refine ⟨?_, lookupField_of_nodup fields (numbered_nodup hnum) kv hkv⟩
  have : kv.1 ∈ fields.map Prod.fst := List.mem_map_of_mem hkv
  rw [hnum] at this
  have := List.mem_range.mp this
  omega

/-- (iv) for a compiled flat rule with at most ten captures whose engine reports the group names in
    order, matching an input yields exactly the Spec object for the substrings the engine captured. -/
theorem flat_rule_captures (P : Prims) (E : Engine) (r : Rule E) (input : Str)
    (hnum : Numbered r.fields) (hk : r.fields.length ≤ 10)
    (hnames : r.names = patternNames [] ((List.range r.fields.length).map grokName))
    (caps : List (Str × Option Str)) (hc : E.captures r.rx input = some caps) :
    applyRule P E r input =
      (match expectedFrom P (capsOf r.fields (textOf caps)) (.obj .nil) 0 with
       | .ok (v, n) => .ok (.matched (pp v) n)
       | .err e => .err e
       | .panic => .panic
       | .oom => .oom
       | .fuel => .fuel) := by
  unfold applyRule
  simp only [hc, hnames, captures_in_rule_order_partial P r.fields caps hnum hk]
  cases expectedFrom P (capsOf r.fields (textOf caps)) (.obj .nil) 0 <;> rfl

/-- the fields of a flat rule satisfy the numbering hypothesis of the two theorems above. -/
theorem specFrom_numbered (items : List SItem) : Numbered (specFrom 0 items).2 := by
  unfold Numbered
  rw [specFrom_keys items 0, List.range_eq_range']

/-- (iv, reference semantics) **captured fields hold matched substrings**: every capture the
    reference matcher reports — for every expression of the subset, nested groups, greedy or lazy
    repetition, any alternative taken — is a contiguous substring of the input. -/
theorem captures_are_substrings (re : Rx.Re) (input : Str) (caps : Rx.Caps)
    (h : Rx.search re input = some caps) : ∀ nt ∈ caps, nt.2 <:+: input :=
  Rx.searchFrom_ok input none caps (List.suffix_refl _) h

/-- the text a rule stores for `grok<i>` is a substring of the input (reference engine). -/
theorem stored_text_is_substring (re : Rx.Re) (input : Str) (caps : List (Str × Option Str))
    (h : Rx.refCaptures re input = some caps) (i : Nat) : textOf caps i <:+: input := by
  unfold Rx.refCaptures at h
  split at h
  · cases h
  · rename_i rc hrc
    simp only [Option.some.injEq] at h
    subst h
    unfold textOf capText
    split
    · rename_i nm t hfind
      have hmem := List.mem_of_find?_eq_some hfind
      obtain ⟨n, _, hn⟩ := List.mem_map.mp hmem
      simp only [Prod.mk.injEq] at hn
      obtain ⟨_, hn2⟩ := hn
      cases hf : rc.find? (fun kv => kv.1 = n) with
      | none => simp [hf] at hn2
      | some kv =>
        simp only [hf, Option.map_some, Option.some.injEq] at hn2
        subst hn2
        exact captures_are_substrings re input rc hrc kv (List.mem_of_find?_eq_some hf)
    · exact List.nil_infix

/-! ### the filters' own laws -/

theorem filter_nullIf (P : Prims) (s t : Str) :
    applyFilter P (.str s) (.nullIf t) = if s = t then .val .null else .val (.str s) := rfl

theorem filter_boolean (P : Prims) (s : Str) :
    applyFilter P (.str s) .boolean = .val (.bool (s.map Char.toLower = cs!"true")) := rfl

theorem filter_lowercase (P : Prims) (s t : Str) (h : P.lower s = some t) :
    applyFilter P (.str s) .lowercase = .val (.str t) := by simp [applyFilter, h]

theorem filter_uppercase (P : Prims) (s t : Str) (h : P.upper s = some t) :
    applyFilter P (.str s) .uppercase = .val (.str t) := by simp [applyFilter, h]

/-- `integer` yields an `i64`, and only from text. -/
theorem filter_integer_range (P : Prims) (v : SV) (i : Int) (h : applyFilter P v .integer = .val (.int i)) :
    (∃ s, v = .str s) ∧ i64Min ≤ i ∧ i ≤ i64Max := by
  cases v with
  | str s =>
    refine ⟨⟨s, rfl⟩, ?_⟩
    simp only [applyFilter] at h
    split at h <;> simp at h
    rename_i j hj
    subst h
    unfold parseI64 at hj
    simp only at hj
    split at hj <;> simp at hj <;> (obtain ⟨_, hj1, hj2⟩ := hj; subst hj2; exact hj1)
  | int _ => simp [applyFilter] at h
  | float _ => simp [applyFilter] at h
  | bool _ => simp [applyFilter] at h
  | null => simp [applyFilter] at h

/-- a value dropped by a filter (null result or failed filter) stays dropped. -/
theorem applyFilters_none (P : Prims) (fs : List Filter) (n : Nat) : applyFilters P fs none n = .ok (none, n) := by
  induction fs with
  | nil => rfl
  | cons f fs ih => simpa [applyFilters] using ih

/-- a single capture stored at a fresh one-segment destination: the field holds the filtered substring. -/
theorem single_capture_field (P : Prims) (d t : Str) (fl : List Filter) (v : SV) (k : Nat) (ht : t.isEmpty = false)
    (hf : applyFilters P fl (some (.str t)) 0 = .ok (some v, k)) :
    expectedFrom P [⟨[d], fl, t⟩] (.obj .nil) 0 = .ok (.obj (.cons (utf8 d) v.toValue .nil), k) := by
  simp [expectedFrom, ht, hf, storeField, fieldPath, Value.get, Value.getOpt, VMap.get, Value.insertOpt,
    Value.asMap, VMap.insert]

/-! ## (iii) a literal-only rule matches exactly its own text -/

theorem agreesOn_ref (src : Str) : AgreesOn Rx.refEngine src := by
  intro re h
  exact ⟨re, h, rfl, fun _ => rfl⟩

/-- the regex source vrl builds for the literal-only rule `esc s` is `(?m)\A` `esc s` `\z`
    (`litSource s`), with no fields. -/
theorem ruleSource_literal (P : Prims) (aliases : List (Str × Str)) (s : Str) :
    ruleSource P aliases (esc s) = .ok (litSource s, []) := by
  unfold ruleSource
  simp only [parseRuleF, seg_noPh _ (noPh_esc s), resolvePieces, bind_ok, pure_eq_ok, Ctx.append, Ctx.empty,
    List.nil_append, wrap_esc]

/-- (iii, reference semantics) for the reference escaper `esc` (every metacharacter
    `. * + ? ( ) [ ] { } ^ $ | \ /` is protected), the reference matcher accepts the source built
    for `esc s` on exactly the input `s`. -/
theorem esc_matches_exactly (s t : Str) :
    ∃ re, Rx.refCompile (litSource s) = .ok re ∧ ((Rx.search re t).isSome ↔ t = s) := by
  refine ⟨litRe s, refCompile_litSource s, ?_⟩
  rw [search_litRe]; by_cases h : t = s <;> simp [h]

/-- (iii) a literal-only rule matches exactly its own text: for every engine that agrees with the
    reference matcher on the source of `esc s` (in particular the reference engine itself), the rule
    `esc s` compiles, and applied to `t` it matches — with an empty object — iff `t = s`.
    (At the level of `parse_grok_rules` an *empty* rule is dropped, so `s ≠ []` there.) -/
theorem literal_rule_matches_exactly_its_text (P : Prims) (E : Engine) (lib aliases : List (Str × Str))
    (s t : Str) (hE : AgreesOn E (litSource s)) :
    ∃ r, compileRule P E lib aliases (esc s) = .ok r ∧
      applyRule P E r t = .ok (if t = s then .matched (.obj .nil) 0 else .noMatch) := by
  obtain ⟨rx, hrx, hnames, hcaps⟩ := hE _ (refCompile_litSource s)
  refine ⟨⟨rx, [], []⟩, ?_, ?_⟩
  · unfold compileRule
    simp only [ruleSource_literal, bind_ok, grokExpand_noPh _ _ (noPh_litSource s), hrx, hnames,
      groupNames_litRe, patternNames, List.foldl_nil, pure_eq_ok]
  · unfold applyRule
    simp only [hcaps, Rx.refCaptures, search_litRe]
    by_cases h : t = s
    · simp [h, groupNames_litRe, applyCaptures, pp, ppM]
    · simp [h]

/-- the same for the reference engine, without hypothesis. -/
theorem literal_rule_ref (P : Prims) (lib aliases : List (Str × Str)) (s t : Str) :
    ∃ r, compileRule P Rx.refEngine lib aliases (esc s) = .ok r ∧
      applyRule P Rx.refEngine r t = .ok (if t = s then .matched (.obj .nil) 0 else .noMatch) :=
  literal_rule_matches_exactly_its_text P Rx.refEngine lib aliases s t (agreesOn_ref _)

end C32
