/-
  C32 — Grok rules match and capture faithfully.
  Property theorems only (helper lemmas: VrlProofs/Lemmas/C32.lean, C32Cycle.lean). Model:
  VrlModel/Grok.lean (parse_grok_rules.rs, grok.rs, grok_filter.rs, parse_grok.rs), reference matcher:
  VrlModel/GrokRegex.lean, Spec definitions: VrlModel/C32.lean. The regex engine (onig), Rust's
  float parsing / case mapping and the built-in pattern library are parameters (`Engine`, `Prims`,
  `lib`); "onig agrees with the reference matcher on the generated subset" is the hypothesis
  `AgreesOn E src`, sampled by the `c32.*` correspondence ops, never an axiom.
-/
import VrlProofs.Lemmas.C32

namespace C32
open Grok Rx

/-! ## (iii) a literal-only rule matches exactly its own text -/

theorem agreesOn_ref (src : Str) : AgreesOn Rx.refEngine src := by
  intro re h
  exact ⟨re, h, rfl, fun _ => rfl⟩

/-- the regex source vrl builds for the literal-only rule `esc s` is `(?m)\A` `esc s` `\z`
    (`litSource s`), with no fields. -/
theorem ruleSource_literal (P : Prims) (aliases : List (Str × Str)) (s : Str) :
    ruleSource P aliases (esc s) = .ok (litSource s, []) := by
  unfold ruleSource
  simp only [parseRuleF, seg_noPh _ (noPh_esc s), resolvePieces, bind_ok, pure_eq_ok, Ctx.append, Ctx.empty,
    List.nil_append, wrap_esc]

/-- (iii, reference semantics) for the reference escaper `esc` (every metacharacter
    `. * + ? ( ) [ ] { } ^ $ | \ /` is protected), the reference matcher accepts the source built
    for `esc s` on exactly the input `s`. -/
theorem esc_matches_exactly (s t : Str) :
    ∃ re, Rx.refCompile (litSource s) = .ok re ∧ ((Rx.search re t).isSome ↔ t = s) := by
  refine ⟨litRe s, refCompile_litSource s, ?_⟩
  rw [search_litRe]; by_cases h : t = s <;> simp [h]

/-- (iii) a literal-only rule matches exactly its own text: for every engine that agrees with the
    reference matcher on the source of `esc s` (in particular the reference engine itself), the rule
    `esc s` compiles, and applied to `t` it matches — with an empty object — iff `t = s`.
    (At the level of `parse_grok_rules` an *empty* rule is dropped, so `s ≠ []` there.) -/
theorem literal_rule_matches_exactly_its_text (P : Prims) (E : Engine) (lib aliases : List (Str × Str))
    (s t : Str) (hE : AgreesOn E (litSource s)) :
    ∃ r, compileRule P E lib aliases (esc s) = .ok r ∧
      applyRule P E r t = .ok (if t = s then .matched (.obj .nil) 0 else .noMatch) := by
  obtain ⟨rx, hrx, hnames, hcaps⟩ := hE _ (refCompile_litSource s)
  refine ⟨⟨rx, [], []⟩, ?_, ?_⟩
  · unfold compileRule
    simp only [ruleSource_literal, bind_ok, grokExpand_noPh _ _ (noPh_litSource s), hrx, hnames,
      groupNames_litRe, patternNames, List.foldl_nil, pure_eq_ok]
  · unfold applyRule
    simp only [hcaps, Rx.refCaptures, search_litRe]
    by_cases h : t = s
    · simp [h, groupNames_litRe, applyCaptures, pp, ppM]
    · simp [h]

/-- the same for the reference engine, without hypothesis. -/
theorem literal_rule_ref (P : Prims) (lib aliases : List (Str × Str)) (s t : Str) :
    ∃ r, compileRule P Rx.refEngine lib aliases (esc s) = .ok r ∧
      applyRule P Rx.refEngine r t = .ok (if t = s then .matched (.obj .nil) 0 else .noMatch) :=
  literal_rule_matches_exactly_its_text P Rx.refEngine lib aliases s t (agreesOn_ref _)

end C32
