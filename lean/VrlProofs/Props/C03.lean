/-
  C03 – every stdlib function honours its declared signature (for the MODELLED functions `C03.Fn`).

  Model: VrlModel/C03.lean (`declared` = the TypeDef the compiler computes for a call from the kinds
  of its argument expressions, `Fn.returnMask` = `Function::return_kind()`, `model` = `resolve`),
  tied to the real compiler / functions by the correspondence ops `c03.sig`, `c03.decl`, `c03.run`.
  Spec: `Spec.memR` (VrlModel/KindSpec.lean), the membership relation of the C19 theorems, and the
  one the oracle `o.c03.fn` evaluates on the implementation for ALL stdlib functions.

  For a call `F(as)` that the compiler accepts with TypeDef `td` (`declared F as = some td`) and
  every tuple of run-time values `vs` the argument expressions can evaluate to (`Admits as vs`:
  a literal evaluates to itself, a runtime-typed expression of kind `k` to any member of `k`):

    (a) `ResultInType`   : `model E F vs = ok v → v ∈ᵣ td.kind`
    (k) `ResultInMask`   : `model E F vs = ok v → kind bit of v ∈ F.returnMask`
    (b) `NoErrIfInfallible` : `td.fallible = false → model E F vs ≠ err`

  for every `Env` (third-party primitives). The statements at full strength are `Sound` and
  `Infallible` below; they are FALSE for the unchanged code (witness theorems in
  VrlProofs/Witness/C03.lean, replayed on the implementation by `o.c03.fn`). What holds is
  `sound_partial` / `infallible_partial`: the same statements outside the decidable finding classes
  `soundClass` / `errClass`.
-/
import VrlProofs.Lemmas.C03Coll
import VrlProofs.Lemmas.C03Err

namespace C03
open Spec
open Str (R)

/-- kind-bit side conditions on concrete masks -/
macro "mask_tac" : tactic =>
  `(tactic| simp [hasBit, kindBit, Fn.returnMask, mBytes, mInteger, mFloat, mBoolean, mObject, mArray,
      mTimestamp, mRegex, mNull])

/-! ### statements -/

/-- a compiled call together with run-time argument values it can see -/
structure Call (F : Fn) (as : ASlots) (vs : Slots) (td : TD) : Prop where
  /-- literal arguments are well-formed values (object keys strictly increasing: `BTreeMap`) -/
  lits : LitsSorted as = true
  /-- the compiler accepts the call and gives it the TypeDef `td` -/
  decl : declared F as = some td
  /-- each argument expression can evaluate to the corresponding value -/
  adm : Admits as vs = true

/-- clauses (a) and (k) for one call -/
def SoundAt (E : Env) (F : Fn) (as : ASlots) (vs : Slots) (td : TD) : Prop :=
  ∀ v, model E F vs = .ok v → memR v td.kind = true ∧ hasBit F.returnMask (kindBit v) = true

/-- clause (b) for one call -/
def InfallibleAt (E : Env) (F : Fn) (vs : Slots) (td : TD) : Prop :=
  td.fallible = false → model E F vs ≠ .err

/-- **C03 (a)+(k) at full strength** (false for `pop`, `slice`, `compact`, `flatten`, `merge`:
    see the witnesses). -/
def Sound (E : Env) (F : Fn) : Prop :=
  ∀ as vs td, Call F as vs td → SoundAt E F as vs td

/-- **C03 (b) at full strength** (false for `from_entries`, `unflatten`, `encode_base64`, `mod`:
    see the witnesses; `to_float` repaired in /repo 3677b5b). -/
def Infallible (E : Env) (F : Fn) : Prop :=
  ∀ as vs td, Call F as vs td → InfallibleAt E F vs td

/-! ### table lemmas (`c03.sig` ties the table to `Function::parameters()` / `return_kind()`) -/

/-- every documented return mask is non-empty and only uses value kinds. -/
theorem returnMask_wf (F : Fn) : F.returnMask ≠ 0 ∧ F.returnMask % 2 = 0 ∧ F.returnMask < 1024 := by
  cases F <;> decide

/-- every parameter accepts at least one kind; required parameters come first. -/
theorem params_wf (F : Fn) :
    (F.params.all fun p => decide (p.mask ≠ 0)) = true ∧
    (F.params.dropWhile (·.required)).all (fun p => !p.required) = true := by
  cases F <;> decide

/-! ### unpacking a call -/

theorem admits_cons {as : ASlots} {v : Value} {rest : Slots} (h : Admits as (some v :: rest) = true) :
    ∃ a as', as = some a :: as' ∧ a.admits v = true ∧ Admits as' rest = true := by
  cases as with
  | nil => simp [Admits] at h
  | cons a as' =>
    cases a with
    | none => simp [Admits] at h
    | some a =>
      simp only [Admits, Bool.and_eq_true] at h
      exact ⟨a, as', rfl, h.1, h.2⟩

theorem admits_mem {a : Arg} {v : Value} (hl : ∀ w, a = .lit w → w.Sorted = true)
    (h : a.admits v = true) : mem v a.kind = true := by
  cases a with
  | lit w =>
    simp only [Arg.admits, decide_eq_true_eq] at h
    subst h
    exact Spec.mem_kindOf v (hl v rfl)
  | dyn k => exact h

theorem litsSorted_head {a : Arg} {as : ASlots} (h : LitsSorted (some a :: as) = true) :
    (∀ w, a = .lit w → w.Sorted = true) ∧ LitsSorted as = true := by
  cases a with
  | lit w =>
    simp only [LitsSorted, Bool.and_eq_true] at h
    exact ⟨fun w' e => by cases e; exact h.1, h.2⟩
  | dyn k => exact ⟨fun w' e => (by cases e), by simpa [LitsSorted] using h⟩

/-- the first argument value is a member of the first argument kind. -/
theorem head_mem {F : Fn} {as : ASlots} {v : Value} {rest : Slots} {td : TD}
    (c : Call F as (some v :: rest) td) : mem v (akind as 0) = true := by
  obtain ⟨a, as', rfl, ha, _⟩ := admits_cons c.adm
  exact admits_mem (litsSorted_head c.lits).1 ha

theorem decl_kind {F : Fn} {as : ASlots} {td : TD} (h : declared F as = some td) :
    td.kind = (declaredFn F as).kind := by
  unfold declared at h
  split at h
  · cases h
  · cases h; rfl

/-! ### group 1: functions whose declared kind is one primitive state -/

def Tag.kind : Tag → Kind
  | .bytes => Kind.bytes | .integer => Kind.integer | .float => Kind.float
  | .boolean => Kind.boolean | .timestamp => Kind.timestamp | .regex => Kind.regex
  | .null => Kind.null | .array => anyArray | .object => anyObject

/-- the primitive state a function of group 1 declares, whatever its arguments. -/
def Fn.primTag : Fn → Option Tag
  | .string | .toString | .upcase | .downcase | .stripWhitespace | .truncate | .join | .formatInt
  | .encodeBase64 | .decodeBase64 | .encodeBase16 | .decodeBase16 | .encodeJson => some .bytes
  | .int | .length | .strlen | .toInt | .parseInt => some .integer
  | .float | .toFloat | .parseFloat => some .float
  | .bool | .toBool | .isString | .isInteger | .isFloat | .isBoolean | .isNull | .isArray | .isObject
  | .isTimestamp | .isRegex | .isNullish | .isEmpty | .startsWith | .endsWith | .contains => some .boolean
  | .timestamp => some .timestamp
  | _ => none

theorem primTag_declared {F : Fn} {t : Tag} (h : F.primTag = some t) (as : ASlots) :
    (declaredFn F as).kind = t.kind ∧ F.returnMask = t.bit := by
  cases F <;> simp only [Fn.primTag, Option.some.injEq, reduceCtorEq] at h <;> subst h <;> exact ⟨rfl, rfl⟩

/-- the value-level function of a group-1 function only returns values of its primitive state. -/
theorem primTag_model {E : Env} {F : Fn} {t : Tag} (h : F.primTag = some t) {vs : Slots} {r : Value}
    (hr : model E F vs = .ok r) : tagOf r = t := by
  cases F <;> simp only [Fn.primTag, Option.some.injEq, reduceCtorEq] at h <;> subst h <;>
    simp only [model] at hr
  case string => obtain ⟨v, rfl, hr⟩ := un_ok hr; obtain ⟨rfl, ht⟩ := assertV_ok hr; exact ht
  case int => obtain ⟨v, rfl, hr⟩ := un_ok hr; obtain ⟨rfl, ht⟩ := assertV_ok hr; exact ht
  case float => obtain ⟨v, rfl, hr⟩ := un_ok hr; obtain ⟨rfl, ht⟩ := assertV_ok hr; exact ht
  case bool => obtain ⟨v, rfl, hr⟩ := un_ok hr; obtain ⟨rfl, ht⟩ := assertV_ok hr; exact ht
  case timestamp => obtain ⟨v, rfl, hr⟩ := un_ok hr; obtain ⟨rfl, ht⟩ := assertV_ok hr; exact ht
  case isString => obtain ⟨v, rfl, hr⟩ := un_ok hr; exact isV_tag hr
  case isInteger => obtain ⟨v, rfl, hr⟩ := un_ok hr; exact isV_tag hr
  case isFloat => obtain ⟨v, rfl, hr⟩ := un_ok hr; exact isV_tag hr
  case isBoolean => obtain ⟨v, rfl, hr⟩ := un_ok hr; exact isV_tag hr
  case isNull => obtain ⟨v, rfl, hr⟩ := un_ok hr; exact isV_tag hr
  case isArray => obtain ⟨v, rfl, hr⟩ := un_ok hr; exact isV_tag hr
  case isObject => obtain ⟨v, rfl, hr⟩ := un_ok hr; exact isV_tag hr
  case isTimestamp => obtain ⟨v, rfl, hr⟩ := un_ok hr; exact isV_tag hr
  case isRegex => obtain ⟨v, rfl, hr⟩ := un_ok hr; exact isV_tag hr
  case isNullish => obtain ⟨v, rfl, hr⟩ := un_ok hr; exact boolR_tag hr
  case isEmpty => obtain ⟨v, rfl, hr⟩ := un_ok hr; exact isEmptyV_tag hr
  case length => obtain ⟨v, rfl, hr⟩ := un_ok hr; exact length_tag hr
  case strlen => obtain ⟨v, rfl, hr⟩ := un_ok hr; exact strlen_tag hr
  case toInt => obtain ⟨v, rfl, hr⟩ := un_ok hr; exact toInt_tag hr
  case toFloat => obtain ⟨v, rfl, hr⟩ := un_ok hr; exact toFloat_tag hr
  case toBool => obtain ⟨v, rfl, hr⟩ := un_ok hr; exact toBool_tag hr
  case toString => obtain ⟨v, rfl, hr⟩ := un_ok hr; exact toStringV_tag hr
  case upcase => obtain ⟨v, rfl, hr⟩ := un_ok hr; exact upcaseV_tag hr
  case downcase => obtain ⟨v, rfl, hr⟩ := un_ok hr; exact downcaseV_tag hr
  case stripWhitespace => obtain ⟨v, rfl, hr⟩ := un_ok hr; exact stripWhitespace_tag hr
  case startsWith => obtain ⟨a, b, o, rfl, hr⟩ := bin1_ok hr; exact startsWith_tag hr
  case endsWith => obtain ⟨a, b, o, rfl, hr⟩ := bin1_ok hr; exact endsWith_tag hr
  case contains => obtain ⟨a, b, o, rfl, hr⟩ := bin1_ok hr; exact contains_tag hr
  case truncate => obtain ⟨a, b, o, rfl, hr⟩ := bin1_ok hr; exact truncate_tag hr
  case join => obtain ⟨v, o, rfl, hr⟩ := un1_ok hr; exact join_tag hr
  case formatInt => obtain ⟨v, o, rfl, hr⟩ := un1_ok hr; exact formatInt_tag hr
  case parseInt => obtain ⟨v, o, rfl, hr⟩ := un1_ok hr; exact parseInt_tag hr
  case parseFloat => obtain ⟨v, rfl, hr⟩ := un_ok hr; exact parseFloat_tag hr
  case encodeBase64 => obtain ⟨v, o1, o2, rfl, hr⟩ := un2_ok hr; exact encodeBase64V_tag hr
  case decodeBase64 => obtain ⟨v, o, rfl, hr⟩ := un1_ok hr; exact decodeBase64V_tag hr
  case encodeBase16 => obtain ⟨v, rfl, hr⟩ := un_ok hr; exact encodeBase16V_tag hr
  case decodeBase16 => obtain ⟨v, rfl, hr⟩ := un_ok hr; exact decodeBase16V_tag hr
  case encodeJson => obtain ⟨v, o, rfl, hr⟩ := un1_ok hr; exact encodeJsonV_tag hr

/-- a value of a primitive state is a member of the kind with exactly that state, and its kind bit
    is the state's bit. -/
theorem mem_tag_kind {v : Value} {t : Tag} (h : tagOf v = t) (hp : t ≠ .array ∧ t ≠ .object) :
    mem v t.kind = true ∧ kindBit v = t.bit := by
  subst h
  cases v <;> first | exact ⟨rfl, rfl⟩ | (simp [tagOf] at hp)

/-- **Group 1 (38 functions: the type assertions `string int float bool timestamp`, all `is_*`
    predicates, `length strlen to_int to_float to_bool to_string upcase downcase strip_whitespace
    starts_with ends_with contains truncate join format_int parse_int parse_float
    encode/decode_base64/16 encode_json`): whatever the arguments, a returned value belongs to the
    declared kind and to the documented return kinds.** One theorem for all of them. -/
theorem prim_sound (E : Env) (F : Fn) (t : Tag) (h : F.primTag = some t) : Sound E F := by
  intro as vs td c v hr
  have ht := primTag_model h hr
  have hd := primTag_declared h as
  have hp : t ≠ .array ∧ t ≠ .object := by
    cases F <;> simp only [Fn.primTag, Option.some.injEq, reduceCtorEq] at h <;> subst h <;> decide
  have hm := mem_tag_kind ht hp
  rw [decl_kind c.decl, hd.1, hd.2, hm.2]
  exact ⟨memR_of_mem hm.1, by cases t <;> first | rfl | (simp at hp)⟩

/-! ### group 2: `abs floor ceil round` keep the numeric kind of their argument -/

theorem numKind_sound {k0 : Kind} {v r : Value} (hm : mem v k0 = true) (hn : (tagOf v).isNum = true)
    (ht : tagOf r = tagOf v) :
    memR r (if (k0.isFloat || k0.isInteger) = true then k0 else intOrFloat) = true ∧
      hasBit (mInteger + mFloat) (kindBit r) = true := by
  refine ⟨memR_of_mem ?_, num_bit (by rw [ht]; exact hn)⟩
  split
  · rw [mem_num_congr k0 hn ht]; exact hm
  · exact mem_intOrFloat (by rw [ht]; exact hn)

/-- **`abs`, `floor`, `ceil`, `round`: an integer stays an integer, a float a float; the result is in
    the argument's own kind when that is exactly `integer` or `float`, in `integer | float` otherwise.** -/
theorem num_sound (E : Env) (F : Fn) (hF : F = .abs ∨ F = .floor ∨ F = .ceil ∨ F = .round) :
    Sound E F := by
  intro as vs td c r hr
  rw [decl_kind c.decl]
  rcases hF with rfl | rfl | rfl | rfl <;> simp only [model] at hr
  · obtain ⟨v, rfl, hr⟩ := un_ok hr
    obtain ⟨hn, ht⟩ := abs_pres hr
    exact numKind_sound (head_mem c) hn ht
  · obtain ⟨v, o, rfl, hr⟩ := un1_ok hr
    obtain ⟨hn, ht⟩ := roundFn_pres hr
    exact numKind_sound (head_mem c) hn ht
  · obtain ⟨v, o, rfl, hr⟩ := un1_ok hr
    obtain ⟨hn, ht⟩ := roundFn_pres hr
    exact numKind_sound (head_mem c) hn ht
  · obtain ⟨v, o, rfl, hr⟩ := un1_ok hr
    obtain ⟨hn, ht⟩ := roundFn_pres hr
    exact numKind_sound (head_mem c) hn ht

/-! ### group 3: collections -/

/-- **`array(v)` / `object(v)`: the value itself, in the array (object) part of the argument kind.** -/
theorem array_sound (E : Env) : Sound E .array := by
  intro as vs td c r hr
  rw [decl_kind c.decl]
  simp only [model] at hr
  obtain ⟨v, rfl, hr⟩ := un_ok hr
  obtain ⟨rfl, ht⟩ := assertV_ok hr
  obtain ⟨xs, rfl⟩ := tag_array ht
  exact ⟨memR_of_mem (mem_arr_restrictArray xs _ (head_mem c)), by mask_tac⟩

theorem object_sound (E : Env) : Sound E .object := by
  intro as vs td c r hr
  rw [decl_kind c.decl]
  simp only [model] at hr
  obtain ⟨v, rfl, hr⟩ := un_ok hr
  obtain ⟨rfl, ht⟩ := assertV_ok hr
  obtain ⟨m, rfl⟩ := tag_object ht
  exact ⟨memR_of_mem (mem_obj_restrictObject m _ (head_mem c)), by mask_tac⟩

/-- **`pop`: sound when every known index of the argument's array kind may be absent** (in
    particular for `any` and for arrays without known indices). `type_def` keeps the argument kind
    unchanged although the last element is gone: `witness_pop`. -/
theorem pop_sound_partial (E : Env) (as : ASlots) (vs : Slots) (td : TD) (c : Call .pop as vs td)
    (hk : (arrayCol (akind as 0)).knownOptional = true) : SoundAt E .pop as vs td := by
  intro r hr
  rw [decl_kind c.decl]
  simp only [model] at hr
  obtain ⟨v, rfl, hr⟩ := un_ok hr
  obtain ⟨xs, rfl, rfl⟩ := popV_ok hr
  refine ⟨memR_of_mem ?_, by mask_tac⟩
  have hm := head_mem c
  rw [mem_arr_iff] at hm
  obtain ⟨col, hcol, h1, _⟩ := hm
  simp only [declaredFn]
  rw [mem_arr_iff]
  refine ⟨col, by rw [restrictArray, hcol]; rfl, ?_, ?_⟩
  · intro j x hj
    exact h1 j x (getN_popList xs j x hj)
  · intro k K' hg _
    have : arrayCol (akind as 0) = col := by rw [arrayCol, hcol]
    rw [this] at hk
    exact KList.all_of_get _ _ hk k K' hg

/-- **`split`: an array of strings** (string or regex pattern, any limit). -/
theorem split_sound (E : Env) : Sound E .split := by
  intro as vs td c r hr
  rw [decl_kind c.decl]
  simp only [model] at hr
  obtain ⟨a, b, o, rfl, hr⟩ := bin1_ok hr
  obtain ⟨ys, rfl, h⟩ := splitV_ok hr
  exact ⟨memR_of_mem (mem_arr_bytesCol ys h), by mask_tac⟩

/-- **`keys`: an array of strings.** -/
theorem keys_sound (E : Env) : Sound E .keys := by
  intro as vs td c r hr
  rw [decl_kind c.decl]
  simp only [model] at hr
  obtain ⟨v, rfl, hr⟩ := un_ok hr
  obtain ⟨ys, rfl, h⟩ := keys_ok hr
  refine ⟨memR_of_mem ?_, by mask_tac⟩
  simp only [declaredFn, keysCol_eq]
  exact mem_arr_bytesCol ys h

/-- **`unique`, `to_entries` return some array; `from_entries`, `unflatten` some object.** -/
theorem anyColl_sound (E : Env) (F : Fn)
    (hF : F = .unique ∨ F = .toEntries ∨ F = .fromEntries ∨ F = .unflatten) : Sound E F := by
  intro as vs td c r hr
  rw [decl_kind c.decl]
  rcases hF with rfl | rfl | rfl | rfl <;> simp only [model] at hr
  · obtain ⟨v, rfl, hr⟩ := un_ok hr
    have ht := unique_ok hr
    obtain ⟨xs, rfl⟩ := tag_array ht
    exact ⟨memR_of_mem (mem_arr_anyArray xs), by mask_tac⟩
  · obtain ⟨v, rfl, hr⟩ := un_ok hr
    have ht := toEntries_ok hr
    obtain ⟨xs, rfl⟩ := tag_array ht
    exact ⟨memR_of_mem (mem_arr_anyArray xs), by mask_tac⟩
  · obtain ⟨v, rfl, hr⟩ := un_ok hr
    have ht := fromEntries_ok hr
    obtain ⟨m, rfl⟩ := tag_object ht
    exact ⟨memR_of_mem (mem_obj_anyObject m), by mask_tac⟩
  · obtain ⟨v, o1, o2, rfl, hr⟩ := un2_ok hr
    have ht := unflattenV_ok hr
    obtain ⟨m, rfl⟩ := tag_object ht
    exact ⟨memR_of_mem (mem_obj_anyObject m), by mask_tac⟩

theorem not_mem_arr_of_isObjectish {xs : VList} {k : Kind} (h : k.hasArr = false) :
    mem (.arr xs) k = false := by
  cases k with
  | mk p a o => cases a <;> simp_all [mem, Kind.hasArr]

theorem tag_array_of_isArray {v : Value} {k : Kind} (hk : k.isArray = true) (hm : mem v k = true) :
    tagOf v = .array := by
  cases k with
  | mk p a o =>
    simp only [Kind.isArray, Kind.prim, Bool.and_eq_true, Bool.not_eq_true'] at hk
    obtain ⟨hp, ho⟩ := hk
    have hp' : p = {} := by
      cases p; simp only [Prim.isEmpty] at hp; simp_all
    subst hp'
    cases v <;> first | rfl | (simp [mem, Kind.prim] at hm)
    · cases o <;> simp_all [mem, Kind.hasObj]

/-- **`compact` / `flatten`: an array stays an array, an object an object; the declared kind is
    `array` only when the argument kind is exactly an array and `object` otherwise, so the result is
    in the declared kind whenever the argument kind is exactly an array or has no array state.**
    For an argument that may be an array *or* something else (`.p`): `witness_compact`,
    `witness_flatten`. -/
theorem compact_flatten_sound_partial (E : Env) (F : Fn) (hF : F = .compact ∨ F = .flatten)
    (as : ASlots) (vs : Slots) (td : TD) (c : Call F as vs td)
    (hk : (akind as 0).isArray = true ∨ (akind as 0).hasArr = false) : SoundAt E F as vs td := by
  intro r hr
  rw [decl_kind c.decl]
  have key : ∀ v, mem v (akind as 0) = true →
      ((∃ m m', v = .obj m ∧ r = .obj m') ∨ (∃ xs ys, v = .arr xs ∧ r = .arr ys)) →
      memR r (if (akind as 0).isArray = true then anyArray else anyObject) = true ∧
        hasBit (mObject + mArray) (kindBit r) = true := by
    intro v hm hs
    rcases hs with ⟨m, m', rfl, rfl⟩ | ⟨xs, ys, rfl, rfl⟩
    · refine ⟨memR_of_mem ?_, by mask_tac⟩
      split
      · rename_i hi
        have := tag_array_of_isArray hi hm
        simp [tagOf] at this
      · exact mem_obj_anyObject m'
    · refine ⟨memR_of_mem ?_, by mask_tac⟩
      rcases hk with hi | hn
      · simp only [hi, if_true]; exact mem_arr_anyArray ys
      · rw [not_mem_arr_of_isObjectish hn] at hm; cases hm
  rcases hF with rfl | rfl <;> simp only [model] at hr
  · obtain ⟨v, o1, o2, o3, o4, o5, o6, rfl, hr⟩ := un6_ok hr
    exact key v (head_mem c) (compact_ok hr)
  · obtain ⟨v, o1, o2, rfl, hr⟩ := un2_ok hr
    exact key v (head_mem c) (flattenV_ok hr)

/-- **`slice`: a string gives a string, an array an array. The declared kind is the argument kind
    itself when that is exactly `bytes` or exactly an array, so for arrays the result is in the
    declared kind when the array kind has no known index** (the elements move to other indices;
    `type_def` re-uses the input collection: `witness_slice`). Sound without condition for strings
    and for arguments that are not exactly an array (`.p`). -/
theorem slice_sound_partial (E : Env) (as : ASlots) (vs : Slots) (td : TD) (c : Call .slice as vs td)
    (hk : (akind as 0).isBytes = true ∨ (akind as 0).isArray = false ∨
      (arrayCol (akind as 0)).known = .nil) : SoundAt E .slice as vs td := by
  intro r hr
  rw [decl_kind c.decl]
  simp only [model] at hr
  obtain ⟨v, st, o, rfl, hr⟩ := bin1_ok hr
  have hm := head_mem c
  simp only [declaredFn]
  rcases slice_ok hr with ⟨b, b', rfl, rfl⟩ | ⟨xs, i, n, rfl, rfl⟩
  · -- a string
    refine ⟨memR_of_mem ?_, by mask_tac⟩
    by_cases hb : (akind as 0).isBytes = true
    · simp only [hb, if_true, mem_bytes, never_union_prim]; exact hm
    · by_cases ha : (akind as 0).isArray = true
      · have := tag_array_of_isArray ha hm
        simp [tagOf] at this
      · simp only [hb, ha, if_false, Bool.false_eq_true]; rfl
  · -- an array
    refine ⟨memR_of_mem ?_, by mask_tac⟩
    by_cases hb : (akind as 0).isBytes = true
    · rw [not_mem_arr_of_isObjectish (hasArr_false_of_isBytes hb)] at hm; cases hm
    · by_cases ha : (akind as 0).isArray = true
      · simp only [hb, ha, if_true, if_false, Bool.false_eq_true]
        have hkn : (arrayCol (akind as 0)).known = .nil := by
          rcases hk with h | h | h
          · exact absurd h hb
          · rw [ha] at h; cases h
          · exact h
        have hm' := hm
        rw [mem_arr_iff] at hm'
        obtain ⟨col, hcol, _, _⟩ := hm'
        have hac : arrayCol (akind as 0) = col := by rw [arrayCol, hcol]
        rw [hac] at hkn
        apply mem_arr_of_noKnown _ _ col (by rw [never_union_array]; exact hcol) hkn
        intro j x hj
        exact mem_elem_of_noKnown hm hcol hkn (getN_slice xs i n j x hj)
      · simp only [hb, ha, if_false, Bool.false_eq_true]
        rw [mem_arr_congr _ (K := (Kind.never.orBytes).orArray Col.any) (K' := anyArray) rfl]
        exact mem_arr_anyArray _

theorem mod_kind (as : ASlots) :
    (declaredFn .mod as).kind =
      (match aconst as 1 with
       | some (.float _) => Kind.float
       | some (.int i) => if i = 0 then Kind.integer else modDividendKind (akind as 0)
       | _ => Kind.float.orInteger) := by
  simp only [declaredFn]
  cases aconst as 1 with
  | none => split <;> rfl
  | some w =>
    cases w <;> simp only [modTD] <;> first | (split <;> rfl) | skip
    rename_i i
    by_cases hi : i = 0 <;> simp only [hi, if_true, if_false] <;> split <;> rfl

theorem mem_floatOrInt {v : Value} (hn : (tagOf v).isNum = true) : mem v Kind.float.orInteger = true := by
  cases v <;> simp [tagOf, Tag.isNum] at hn <;> rfl

/-- the remainder by a constant non-zero integer has the kind of the dividend -/
theorem mem_modDividendKind {k0 : Kind} {v r : Value} (hm : mem v k0 = true)
    (hn : (tagOf v).isNum = true) (ht : tagOf r = tagOf v) : mem r (modDividendKind k0) = true := by
  unfold modDividendKind
  split
  · rename_i hk
    have hv := tag_of_isInteger hk hm
    rw [hv] at ht
    cases r <;> simp [tagOf] at ht; rfl
  · split
    · rename_i hk
      have hv := tag_of_isFloat hk hm
      rw [hv] at ht
      cases r <;> simp [tagOf] at ht; rfl
    · exact mem_floatOrInt (by rw [ht]; exact hn)

/-- **`mod`: with a float literal as modulus the result is a float; with a non-zero integer literal
    the result has the kind of the dividend (integer, float, or `integer | float` when the dividend
    is not exactly one of them); with a runtime-typed modulus an integer or a float.** Full statement
    since /repo cbab0ba (before: `integer` for every integer literal, `fixed_mod`). -/
theorem mod_sound (E : Env) : Sound E .mod := by
  intro as vs td c r hr
  rw [decl_kind c.decl, mod_kind]
  simp only [model] at hr
  obtain ⟨v, m, rfl, hr⟩ := bin_ok hr
  obtain ⟨hmn, hvn, hf, hi, hz⟩ := tryRem_ok hr
  have hm := head_mem c
  obtain ⟨a0, as', rfl, _, hadm⟩ := admits_cons c.adm
  obtain ⟨a1, as'', rfl, ha1, _⟩ := admits_cons hadm
  have hrn : (tagOf r).isNum = true := by
    cases m <;> simp [tagOf, Tag.isNum] at hmn
    · rw [hi rfl]; exact hvn
    · rw [hf rfl]; rfl
  refine ⟨memR_of_mem ?_, num_bit hrn⟩
  cases a1 with
  | dyn k => simp only [aconst, List.getElem?_cons_succ, List.getElem?_cons_zero, Arg.const]; exact mem_floatOrInt hrn
  | lit w =>
    simp only [Arg.admits, decide_eq_true_eq] at ha1
    subst ha1
    simp only [aconst, List.getElem?_cons_succ, List.getElem?_cons_zero, Arg.const]
    cases m <;> simp [tagOf, Tag.isNum] at hmn
    · -- integer literal (non-zero: the call returned a value)
      rename_i i _
      have hi0 : i ≠ 0 := fun h => hz (by rw [h])
      simp only [hi0, if_false]
      exact mem_modDividendKind hm hvn (hi rfl)
    · have hr' := hf rfl
      cases r <;> simp [tagOf] at hr'; rfl

end C03
