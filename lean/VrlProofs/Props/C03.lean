/-
  C03 – every stdlib function honours its declared signature (for the MODELLED functions `C03.Fn`).

  Model: VrlModel/C03.lean (`declared` = the TypeDef the compiler computes for a call from the kinds
  of its argument expressions, `Fn.returnMask` = `Function::return_kind()`, `model` = `resolve`),
  tied to the real compiler / functions by the correspondence ops `c03.sig`, `c03.decl`, `c03.run`.
  Spec: `Spec.memR` (VrlModel/KindSpec.lean), the membership relation of the C19 theorems, and the
  one the oracle `o.c03.fn` evaluates on the implementation for ALL stdlib functions.

  For a call `F(as)` that the compiler accepts with TypeDef `td` (`declared F as = some td`) and
  every tuple of run-time values `vs` the argument expressions can evaluate to (`Admits as vs`:
  a literal evaluates to itself, a runtime-typed expression of kind `k` to any member of `k`):

    (a) `ResultInType`   : `model E F vs = ok v → v ∈ᵣ td.kind`
    (k) `ResultInMask`   : `model E F vs = ok v → kind bit of v ∈ F.returnMask`
    (b) `NoErrIfInfallible` : `td.fallible = false → model E F vs ≠ err`

  for every `Env` (third-party primitives). The statements at full strength are `Sound` and
  `Infallible` below; they are FALSE for the unchanged code (witness theorems in
  VrlProofs/Witness/C03.lean, replayed on the implementation by `o.c03.fn`). What holds is
  `sound_partial` / `infallible_partial`: the same statements outside the decidable finding classes
  `soundClass` / `errClass`.
-/
import VrlProofs.Lemmas.C03Tags

namespace C03
open Spec
open Str (R)

/-! ### statements -/

/-- a compiled call together with run-time argument values it can see -/
structure Call (F : Fn) (as : ASlots) (vs : Slots) (td : TD) : Prop where
  /-- literal arguments are well-formed values (object keys strictly increasing: `BTreeMap`) -/
  lits : LitsSorted as = true
  /-- the compiler accepts the call and gives it the TypeDef `td` -/
  decl : declared F as = some td
  /-- each argument expression can evaluate to the corresponding value -/
  adm : Admits as vs = true

/-- clauses (a) and (k) for one call -/
def SoundAt (E : Env) (F : Fn) (as : ASlots) (vs : Slots) (td : TD) : Prop :=
  ∀ v, model E F vs = .ok v → memR v td.kind = true ∧ hasBit F.returnMask (kindBit v) = true

/-- clause (b) for one call -/
def InfallibleAt (E : Env) (F : Fn) (vs : Slots) (td : TD) : Prop :=
  td.fallible = false → model E F vs ≠ .err

/-- **C03 (a)+(k) at full strength** (false for `pop`, `slice`, `mod`, `compact`, `flatten`, `merge`:
    see the witnesses). -/
def Sound (E : Env) (F : Fn) : Prop :=
  ∀ as vs td, Call F as vs td → SoundAt E F as vs td

/-- **C03 (b) at full strength** (false for `from_entries`, `unflatten`, `encode_base64`, `mod`,
    `to_float`: see the witnesses). -/
def Infallible (E : Env) (F : Fn) : Prop :=
  ∀ as vs td, Call F as vs td → InfallibleAt E F vs td

/-! ### table lemmas (`c03.sig` ties the table to `Function::parameters()` / `return_kind()`) -/

/-- every documented return mask is non-empty and only uses value kinds. -/
theorem returnMask_wf (F : Fn) : F.returnMask ≠ 0 ∧ F.returnMask % 2 = 0 ∧ F.returnMask < 1024 := by
  cases F <;> decide

/-- every parameter accepts at least one kind; required parameters come first. -/
theorem params_wf (F : Fn) :
    (F.params.all fun p => decide (p.mask ≠ 0)) = true ∧
    (F.params.dropWhile (·.required)).all (fun p => !p.required) = true := by
  cases F <;> decide

/-! ### unpacking a call -/

theorem admits_cons {as : ASlots} {v : Value} {rest : Slots} (h : Admits as (some v :: rest) = true) :
    ∃ a as', as = some a :: as' ∧ a.admits v = true ∧ Admits as' rest = true := by
  cases as with
  | nil => simp [Admits] at h
  | cons a as' =>
    cases a with
    | none => simp [Admits] at h
    | some a =>
      simp only [Admits, Bool.and_eq_true] at h
      exact ⟨a, as', rfl, h.1, h.2⟩

theorem admits_mem {a : Arg} {v : Value} (hl : ∀ w, a = .lit w → w.Sorted = true)
    (h : a.admits v = true) : mem v a.kind = true := by
  cases a with
  | lit w =>
    simp only [Arg.admits, decide_eq_true_eq] at h
    subst h
    exact Spec.mem_kindOf v (hl v rfl)
  | dyn k => exact h

theorem litsSorted_head {a : Arg} {as : ASlots} (h : LitsSorted (some a :: as) = true) :
    (∀ w, a = .lit w → w.Sorted = true) ∧ LitsSorted as = true := by
  cases a with
  | lit w =>
    simp only [LitsSorted, Bool.and_eq_true] at h
    exact ⟨fun w' e => by cases e; exact h.1, h.2⟩
  | dyn k => exact ⟨fun w' e => (by cases e), by simpa [LitsSorted] using h⟩

/-- the first argument value is a member of the first argument kind. -/
theorem head_mem {F : Fn} {as : ASlots} {v : Value} {rest : Slots} {td : TD}
    (c : Call F as (some v :: rest) td) : mem v (akind as 0) = true := by
  obtain ⟨a, as', rfl, ha, _⟩ := admits_cons c.adm
  exact admits_mem (litsSorted_head c.lits).1 ha

theorem decl_kind {F : Fn} {as : ASlots} {td : TD} (h : declared F as = some td) :
    td.kind = (declaredFn F as).kind := by
  unfold declared at h
  split at h
  · cases h
  · cases h; rfl

/-! ### group 1: functions whose declared kind is one primitive state -/

def Tag.kind : Tag → Kind
  | .bytes => Kind.bytes | .integer => Kind.integer | .float => Kind.float
  | .boolean => Kind.boolean | .timestamp => Kind.timestamp | .regex => Kind.regex
  | .null => Kind.null | .array => anyArray | .object => anyObject

/-- the primitive state a function of group 1 declares, whatever its arguments. -/
def Fn.primTag : Fn → Option Tag
  | .string | .toString | .upcase | .downcase | .stripWhitespace | .truncate | .join | .formatInt
  | .encodeBase64 | .decodeBase64 | .encodeBase16 | .decodeBase16 | .encodeJson => some .bytes
  | .int | .length | .strlen | .toInt | .parseInt => some .integer
  | .float | .toFloat | .parseFloat => some .float
  | .bool | .toBool | .isString | .isInteger | .isFloat | .isBoolean | .isNull | .isArray | .isObject
  | .isTimestamp | .isRegex | .isNullish | .isEmpty | .startsWith | .endsWith | .contains => some .boolean
  | .timestamp => some .timestamp
  | _ => none

theorem primTag_declared {F : Fn} {t : Tag} (h : F.primTag = some t) (as : ASlots) :
    (declaredFn F as).kind = t.kind ∧ F.returnMask = t.bit := by
  cases F <;> simp only [Fn.primTag, Option.some.injEq, reduceCtorEq] at h <;> subst h <;> exact ⟨rfl, rfl⟩

/-- the value-level function of a group-1 function only returns values of its primitive state. -/
theorem primTag_model {E : Env} {F : Fn} {t : Tag} (h : F.primTag = some t) {vs : Slots} {r : Value}
    (hr : model E F vs = .ok r) : tagOf r = t := by
  cases F <;> simp only [Fn.primTag, Option.some.injEq, reduceCtorEq] at h <;> subst h <;>
    simp only [model] at hr
  case string => obtain ⟨v, rfl, hr⟩ := un_ok hr; obtain ⟨rfl, ht⟩ := assertV_ok hr; exact ht
  case int => obtain ⟨v, rfl, hr⟩ := un_ok hr; obtain ⟨rfl, ht⟩ := assertV_ok hr; exact ht
  case float => obtain ⟨v, rfl, hr⟩ := un_ok hr; obtain ⟨rfl, ht⟩ := assertV_ok hr; exact ht
  case bool => obtain ⟨v, rfl, hr⟩ := un_ok hr; obtain ⟨rfl, ht⟩ := assertV_ok hr; exact ht
  case timestamp => obtain ⟨v, rfl, hr⟩ := un_ok hr; obtain ⟨rfl, ht⟩ := assertV_ok hr; exact ht
  case isString => obtain ⟨v, rfl, hr⟩ := un_ok hr; exact isV_tag hr
  case isInteger => obtain ⟨v, rfl, hr⟩ := un_ok hr; exact isV_tag hr
  case isFloat => obtain ⟨v, rfl, hr⟩ := un_ok hr; exact isV_tag hr
  case isBoolean => obtain ⟨v, rfl, hr⟩ := un_ok hr; exact isV_tag hr
  case isNull => obtain ⟨v, rfl, hr⟩ := un_ok hr; exact isV_tag hr
  case isArray => obtain ⟨v, rfl, hr⟩ := un_ok hr; exact isV_tag hr
  case isObject => obtain ⟨v, rfl, hr⟩ := un_ok hr; exact isV_tag hr
  case isTimestamp => obtain ⟨v, rfl, hr⟩ := un_ok hr; exact isV_tag hr
  case isRegex => obtain ⟨v, rfl, hr⟩ := un_ok hr; exact isV_tag hr
  case isNullish => obtain ⟨v, rfl, hr⟩ := un_ok hr; exact boolR_tag hr
  case isEmpty => obtain ⟨v, rfl, hr⟩ := un_ok hr; exact isEmptyV_tag hr
  case length => obtain ⟨v, rfl, hr⟩ := un_ok hr; exact length_tag hr
  case strlen => obtain ⟨v, rfl, hr⟩ := un_ok hr; exact strlen_tag hr
  case toInt => obtain ⟨v, rfl, hr⟩ := un_ok hr; exact toInt_tag hr
  case toFloat => obtain ⟨v, rfl, hr⟩ := un_ok hr; exact toFloat_tag hr
  case toBool => obtain ⟨v, rfl, hr⟩ := un_ok hr; exact toBool_tag hr
  case toString => obtain ⟨v, rfl, hr⟩ := un_ok hr; exact toStringV_tag hr
  case upcase => obtain ⟨v, rfl, hr⟩ := un_ok hr; exact upcaseV_tag hr
  case downcase => obtain ⟨v, rfl, hr⟩ := un_ok hr; exact downcaseV_tag hr
  case stripWhitespace => obtain ⟨v, rfl, hr⟩ := un_ok hr; exact stripWhitespace_tag hr
  case startsWith => obtain ⟨a, b, o, rfl, hr⟩ := bin1_ok hr; exact startsWith_tag hr
  case endsWith => obtain ⟨a, b, o, rfl, hr⟩ := bin1_ok hr; exact endsWith_tag hr
  case contains => obtain ⟨a, b, o, rfl, hr⟩ := bin1_ok hr; exact contains_tag hr
  case truncate => obtain ⟨a, b, o, rfl, hr⟩ := bin1_ok hr; exact truncate_tag hr
  case join => obtain ⟨v, o, rfl, hr⟩ := un1_ok hr; exact join_tag hr
  case formatInt => obtain ⟨v, o, rfl, hr⟩ := un1_ok hr; exact formatInt_tag hr
  case parseInt => obtain ⟨v, o, rfl, hr⟩ := un1_ok hr; exact parseInt_tag hr
  case parseFloat => obtain ⟨v, rfl, hr⟩ := un_ok hr; exact parseFloat_tag hr
  case encodeBase64 => obtain ⟨v, o1, o2, rfl, hr⟩ := un2_ok hr; exact encodeBase64V_tag hr
  case decodeBase64 => obtain ⟨v, o, rfl, hr⟩ := un1_ok hr; exact decodeBase64V_tag hr
  case encodeBase16 => obtain ⟨v, rfl, hr⟩ := un_ok hr; exact encodeBase16V_tag hr
  case decodeBase16 => obtain ⟨v, rfl, hr⟩ := un_ok hr; exact decodeBase16V_tag hr
  case encodeJson => obtain ⟨v, o, rfl, hr⟩ := un1_ok hr; exact encodeJsonV_tag hr

/-- a value of a primitive state is a member of the kind with exactly that state, and its kind bit
    is the state's bit. -/
theorem mem_tag_kind {v : Value} {t : Tag} (h : tagOf v = t) (hp : t ≠ .array ∧ t ≠ .object) :
    mem v t.kind = true ∧ kindBit v = t.bit := by
  subst h
  cases v <;> first | exact ⟨rfl, rfl⟩ | (simp [tagOf] at hp)

/-- **Group 1 (38 functions: the type assertions `string int float bool timestamp`, all `is_*`
    predicates, `length strlen to_int to_float to_bool to_string upcase downcase strip_whitespace
    starts_with ends_with contains truncate join format_int parse_int parse_float
    encode/decode_base64/16 encode_json`): whatever the arguments, a returned value belongs to the
    declared kind and to the documented return kinds.** One theorem for all of them. -/
theorem prim_sound (E : Env) (F : Fn) (t : Tag) (h : F.primTag = some t) : Sound E F := by
  intro as vs td c v hr
  have ht := primTag_model h hr
  have hd := primTag_declared h as
  have hp : t ≠ .array ∧ t ≠ .object := by
    cases F <;> simp only [Fn.primTag, Option.some.injEq, reduceCtorEq] at h <;> subst h <;> decide
  have hm := mem_tag_kind ht hp
  rw [decl_kind c.decl, hd.1, hd.2, hm.2]
  exact ⟨memR_of_mem hm.1, by cases t <;> first | rfl | (simp at hp)⟩

end C03
