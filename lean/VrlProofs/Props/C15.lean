/-
  C15 — read-only paths are never modified.

  Acceptance logic (`is_read_only_path`), the value-level frame laws it relies on, and the
  program-level theorem:
  * `accepted_diverges`: a write path the compiler accepts and a read-only path, both made of field
    segments only, either diverge (neither contains the other) or the write lies strictly below a
    NON-recursive read-only path;
  * `insert_preserves`: an insert at a field path leaves every diverging field path unchanged — for
    EVERY value, with no condition on the shape of the value (unlike C18's frame law, coercion
    cannot hurt a field-only location);
  * `remove_preserves` / `value_remove_preserves`: a removal at a field path, with or without
    `compact`, leaves every diverging field path unchanged. Compaction deletes the parents the
    removal emptied; a deleted parent was empty, so nothing was stored below it on the way to the
    diverging path either. The law needs the objects along the preserved path to have unique keys
    (`spineOK`, implied by the `BTreeMap` invariant `Value.Sorted`): the model's association-list
    `remove` would otherwise uncover a shadowed duplicate (`witness_remove_unsorted_model`, a fact
    about ill-formed model values only). With index segments the law is false of the code:
    `del(.a[0])` shifts `.a[1]` (`witness_remove_index_shift`);
  * `run_preserves_readonly` (+ `_event`, `_metadata`, `_below`): for EVERY compiled program all of
    whose static write targets — external assignment targets (`assignsS`) and `del` paths (`delsS`) —
    pass the read-only check of `cfg` and are field-only (`acceptsFieldProg`, decidable), every
    well-formed initial state, every fault schedule and every outcome (value, error, abort, return,
    panic; closures and iteration functions included): every recursive field-only read-only entry
    of `cfg` holds after the run exactly what it held before, and so does every location below it.
    Proved by instantiating the abstract invariant induction (Lemmas/Inv.lean, Lemmas/InvEval.lean)
    with `Prot cfg s0`.
  The full statement is false of the code in these classes (witnesses below): index segments are
  compared as written (`.a[-1]` vs `.a[1]`), a write through a container of the other type
  replaces an ancestor (`.a[0] = 1` destroys `.a.b`), a removal shifts later array elements, and a
  non-recursive read-only path does not protect its children although they are part of its value.
-/
import VrlModel.ReadOnly
import VrlProofs.Props.C18
import VrlProofs.Lemmas.C15Frame
import VrlProofs.Lemmas.InvEval
import VrlProofs.Lemmas.InvLog

namespace C15
open ReadOnly Value

theorem startsWith_refl : (p : Path) → startsWith p p = true
  | [] => rfl
  | s :: p => by simp [startsWith, startsWith_refl p]

/-- field-only paths that are not prefix-related diverge (in C18's sense). -/
theorem diverge_of_not_prefix : (w r : Path) → fieldOnly w = true → fieldOnly r = true →
    startsWith r w = false → startsWith w r = false → C18.diverge w r = true
  | [], _, _, _, h, _ => by cases ‹Path› <;> simp [startsWith] at h
  | _ :: _, [], _, _, _, h => by simp [startsWith] at h
  | s :: w, t :: r, hw, hr, h1, h2 => by
    cases s with
    | index _ => simp [fieldOnly] at hw
    | field f =>
      cases t with
      | index _ => simp [fieldOnly] at hr
      | field g =>
        by_cases hfg : f = g
        · subst hfg
          simp only [startsWith, decide_true, Bool.true_and] at h1 h2
          simp only [C18.diverge, ↓reduceIte]
          exact diverge_of_not_prefix w r (by simpa [fieldOnly] using hw) (by simpa [fieldOnly] using hr) h1 h2
        · have : Seg.field f ≠ Seg.field g := by intro e; cases e; exact hfg rfl
          simp [C18.diverge, this, C18.noAlias]

/-- what acceptance by `is_read_only_path` gives for one read-only entry of the same target. -/
theorem accepted_diverges (cfg : List RO) (ro : RO) (m : Bool) (w : Path) (hmem : ro ∈ cfg)
    (hm : ro.isMeta = m) (hacc : isReadOnly cfg m w = false)
    (hw : fieldOnly w = true) (hr : fieldOnly ro.path = true) :
    C18.diverge w ro.path = true ∨ (ro.recursive = false ∧ startsWith w ro.path = true ∧ w ≠ ro.path) := by
  have hh : hits ro m w = false := by
    unfold isReadOnly at hacc
    rw [List.any_eq_false] at hacc
    simpa using hacc ro hmem
  unfold hits at hh
  simp only [hm, beq_self_eq_true, Bool.true_and, Bool.or_eq_false_iff] at hh
  obtain ⟨h1, h2⟩ := hh
  cases hrec : ro.recursive with
  | true =>
    simp only [hrec, ↓reduceIte] at h2
    exact .inl (diverge_of_not_prefix w ro.path hw hr h1 h2)
  | false =>
    simp only [hrec, Bool.false_eq_true, ↓reduceIte, decide_eq_false_iff_not] at h2
    by_cases h3 : startsWith w ro.path = true
    · exact .inr ⟨rfl, h3, h2⟩
    · exact .inl (diverge_of_not_prefix w ro.path hw hr h1 (by simpa using h3))

/-- frame law for field-only paths: unconditional in the value. -/
theorem insert_preserves (p : Path) : ∀ (c : Option Value) (q : Path) (x : Value),
    C18.diverge p q = true → fieldOnly p = true → fieldOnly q = true →
    getOpt (some (insertOpt c p x)) q = getOpt c q := by
  induction p with
  | nil => intro c q x hd; simp [C18.diverge] at hd
  | cons s rest ih =>
    intro c q x hd hp hq
    cases q with
    | nil => simp [C18.diverge] at hd
    | cons t q' =>
      cases s with
      | index _ => simp [fieldOnly] at hp
      | field f =>
        cases t with
        | index _ => simp [fieldOnly] at hq
        | field g =>
          simp only [C18.diverge] at hd
          have hp' : fieldOnly rest = true := by simpa [fieldOnly] using hp
          have hq' : fieldOnly q' = true := by simpa [fieldOnly] using hq
          by_cases hfg : f = g
          · subst hfg
            simp only [↓reduceIte] at hd
            simp only [insertOpt, getOpt, VMap.get_insert_same]
            rw [ih _ q' x hd hp' hq']
            cases c with
            | none => simp [asMap, getOpt, C18.getOpt_none]
            | some cv => cases cv <;> simp [asMap, getOpt, C18.getOpt_none]
          · simp only [insertOpt, getOpt, VMap.get_insert_other _ _ _ _ hfg]
            cases c with
            | none => simp [asMap, getOpt, C18.getOpt_none]
            | some cv => cases cv <;> simp [asMap, getOpt, C18.getOpt_none]

theorem value_insert_preserves (v : Value) (p q : Path) (x : Value) (v' : Value) (prev : Option Value)
    (hd : C18.diverge p q = true) (hp : fieldOnly p = true) (hq : fieldOnly q = true)
    (h : v.insert p x = .ok (v', prev)) : v'.get q = v.get q := by
  unfold Value.insert at h
  split at h
  · cases h
  · cases h; exact insert_preserves p (some v) q x hd hp hq

/-- D_negative_index: read-only `.a[1]`; `.a[-1] = 99` is accepted and changes `.a[1]` on `{"a":[0,1]}`. -/
theorem witness_negative_index :
    let cfg := [RO.mk false [.field [97], .index 1] false]
    let v := Value.obj (.cons [97] (.arr (.cons (.int 0) (.cons (.int 1) .nil))) .nil)
    isReadOnly cfg false [.field [97], .index (-1)] = false ∧
    (insertOpt (some v) [.field [97], .index (-1)] (.int 99)).get [.field [97], .index 1] ≠ v.get [.field [97], .index 1] := by
  decide

/-- D_container_coercion: read-only recursive `.a.b`; `.a[0] = 99` is accepted and destroys `.a.b`. -/
theorem witness_coercion :
    let cfg := [RO.mk false [.field [97], .field [98]] true]
    let v := Value.obj (.cons [97] (.obj (.cons [98] (.int 1) .nil)) .nil)
    isReadOnly cfg false [.field [97], .index 0] = false ∧
    (insertOpt (some v) [.field [97], .index 0] (.int 99)).get [.field [97], .field [98]] ≠ v.get [.field [97], .field [98]] := by
  decide

/-- D_nonrecursive_child: non-recursive read-only `.a`; `.a.b = 2` is accepted and changes the value at `.a`. -/
theorem witness_nonrecursive_child :
    let cfg := [RO.mk false [.field [97]] false]
    let v := Value.obj (.cons [97] (.obj (.cons [98] (.int 1) .nil)) .nil)
    isReadOnly cfg false [.field [97], .field [98]] = false ∧
    (insertOpt (some v) [.field [97], .field [98]] (.int 2)).get [.field [97]] ≠ v.get [.field [97]] := by
  decide

/-- removal frame law for field-only paths, any `compact` flag: the value at a diverging path is
    unchanged (and its spine stays well-formed). -/
theorem remove_preserves (v : Value) (p q : Path) (prune : Bool)
    (hd : C18.diverge p q = true) (hp : fieldOnly p = true) (hq : fieldOnly q = true)
    (hs : spineOK (some v) q = true) :
    (v.remove p prune).2.get q = v.get q ∧ spineOK (some (v.remove p prune).2) q = true := by
  unfold Value.remove Value.get
  cases hr : removeOpt (some v) p prune with
  | none => exact ⟨rfl, hs⟩
  | some r =>
    obtain ⟨prev, new, gone⟩ := r
    have := removeOpt_frame p (some v) q prune _ hd hp hq hs hr
    exact ⟨this.1, this.2.1⟩

/-- the same for well-formed values (`Sorted` is the `BTreeMap` invariant of every real `Value`). -/
theorem value_remove_preserves (v : Value) (p q : Path) (prune : Bool)
    (hd : C18.diverge p q = true) (hp : fieldOnly p = true) (hq : fieldOnly q = true)
    (hv : v.Sorted = true) : (v.remove p prune).2.get q = v.get q :=
  (remove_preserves v p q prune hd hp hq
    (spineOK_of_sorted q (some v) (by intro w hw; cases hw; exact hv))).1

/-- D_remove_index_shift (why removals need `fieldOnly`): read-only recursive `.a[1]`; `del(.a[0])` is
    accepted and moves another element into `.a[1]` on `{"a":[0,1]}` (observed on the implementation:
    `val.remove`, and the program `del(.a[0])` under the configuration). -/
theorem witness_remove_index_shift :
    let cfg := [RO.mk false [.field [97], .index 1] true]
    let v := Value.obj (.cons [97] (.arr (.cons (.int 0) (.cons (.int 1) .nil))) .nil)
    isReadOnly cfg false [.field [97], .index 0] = false ∧
    C18.diverge [.field [97], .index 0] [.field [97], .index 1] = true ∧
    (v.remove [.field [97], .index 0] false).2.get [.field [97], .index 1] ≠ v.get [.field [97], .index 1] := by
  decide

/-- D_remove_index_shift through compaction: read-only recursive `.a[0].y`; `del(.a[0].x, compact: true)`
    is accepted, empties element 0, compaction drops it and element 1 moves into `.a[0]`
    (`[{"x":1},{"y":2}]`: `.a[0].y` was absent and is `2` afterwards; observed on the implementation). -/
theorem witness_remove_compact_shift :
    let cfg := [RO.mk false [.field [97], .index 0, .field [121]] true]
    let v := Value.obj (.cons [97] (.arr (.cons (.obj (.cons [120] (.int 1) .nil))
      (.cons (.obj (.cons [121] (.int 2) .nil)) .nil))) .nil)
    isReadOnly cfg false [.field [97], .index 0, .field [120]] = false ∧
    C18.diverge [.field [97], .index 0, .field [120]] [.field [97], .index 0, .field [121]] = true ∧
    (v.remove [.field [97], .index 0, .field [120]] true).2.get [.field [97], .index 0, .field [121]]
      ≠ v.get [.field [97], .index 0, .field [121]] := by
  decide

/-- why `remove_preserves` asks for unique keys along the preserved path: on the ill-formed model value
    `{a: {b: 1}, a: {c: 2}}` (duplicate key — no `BTreeMap` looks like this, `Sorted` is false)
    the compacting removal of `.a.b` uncovers the second `a`. -/
theorem witness_remove_unsorted_model :
    let v := Value.obj (.cons [97] (.obj (.cons [98] (.int 1) .nil)) (.cons [97] (.obj (.cons [99] (.int 2) .nil)) .nil))
    v.Sorted = false ∧
    (v.remove [.field [97], .field [98]] true).2.get [.field [97], .field [99]] ≠ v.get [.field [97], .field [99]] := by
  decide

/-! ### the program-level theorem -/

open Lang

/-- the target value a prefix addresses -/
def tgtOf (s : St) (isMeta : Bool) : Value := if isMeta then s.metadata else s.event

/-- invariant: every recursive field-only read-only location holds what it held in `s0` (and the
    objects on the way to it have unique keys) -/
def Prot (cfg : List RO) (s0 s : St) : Prop :=
  ∀ ro ∈ cfg, ro.recursive = true → fieldOnly ro.path = true →
    (tgtOf s ro.isMeta).get ro.path = (tgtOf s0 ro.isMeta).get ro.path ∧
    spineOK (some (tgtOf s ro.isMeta)) ro.path = true

theorem tgtOf_congr {s t : St} (he : t.event = s.event) (hm : t.metadata = s.metadata) (m : Bool) :
    tgtOf t m = tgtOf s m := by
  unfold tgtOf; rw [he, hm]

theorem prot_congr {cfg : List RO} {s0 s t : St} (he : t.event = s.event)
    (hm : t.metadata = s.metadata) (hs : Prot cfg s0 s) : Prot cfg s0 t := by
  intro ro hro hrec hf
  rw [tgtOf_congr he hm]
  exact hs ro hro hrec hf

theorem targetGet_target (s : St) (m : Bool) (p : Path) :
    (s.targetGet m p).2.event = s.event ∧ (s.targetGet m p).2.metadata = s.metadata := by
  unfold St.targetGet St.tick
  simp only
  split <;> exact ⟨rfl, rfl⟩

/-- what a target insert does to the two target values -/
theorem targetInsert_spec (s s' : St) (m : Bool) (p : Path) (v : Value)
    (h : s.targetInsert m p v = some s') :
    (s'.event = s.event ∧ s'.metadata = s.metadata) ∨
    (tgtOf s' m = insertOpt (some (tgtOf s m)) p v ∧ tgtOf s' (!m) = tgtOf s (!m)) := by
  unfold St.targetInsert St.tick at h
  simp only at h
  split at h
  · cases h; exact .inl ⟨rfl, rfl⟩
  · split at h
    · cases h
    · rename_i v' prev hins
      cases h
      right
      unfold Value.insert at hins
      split at hins
      · cases hins
      · cases hins
        cases m <;> simp [tgtOf]

/-- what a target removal does to the two target values -/
theorem targetRemove_spec (s : St) (m : Bool) (p : Path) (c : Bool) :
    ((s.targetRemove m p c).2.event = s.event ∧ (s.targetRemove m p c).2.metadata = s.metadata) ∨
    (tgtOf (s.targetRemove m p c).2 m = ((tgtOf s m).remove p c).2 ∧
      tgtOf (s.targetRemove m p c).2 (!m) = tgtOf s (!m)) := by
  unfold St.targetRemove St.tick
  simp only
  split
  · exact .inl ⟨rfl, rfl⟩
  · right
    cases m <;> simp [tgtOf]

theorem okTarget_iff (cfg : List RO) (x : Bool × Path) :
    okTarget cfg x = true ↔ isReadOnly cfg x.1 x.2 = false ∧ fieldOnly x.2 = true := by
  simp [okTarget]

/-- `Prot cfg s0` as an abstract invariant: reads are always harmless, inserts and removals are
    harmless at accepted field-only paths. -/
def protInv (cfg : List RO) (s0 : St) : Inv where
  J := Prot cfg s0
  G := fun _ => True
  W := fun x => okTarget cfg x = true
  D := fun x => okTarget cfg x = true
  stable := fun _ _ he hm _ hs => prot_congr he hm hs
  get := fun s m p _ hs => prot_congr (targetGet_target s m p).1 (targetGet_target s m p).2 hs
  ins := by
    intro s s' m p v hw hs hi
    obtain ⟨hacc, hp⟩ := (okTarget_iff cfg (m, p)).mp hw
    rcases targetInsert_spec s s' m p v hi with ⟨he, hm⟩ | ⟨h1, h2⟩
    · exact prot_congr he hm hs
    · intro ro hro hrec hf
      obtain ⟨g, sp⟩ := hs ro hro hrec hf
      by_cases hmm : ro.isMeta = m
      · rcases accepted_diverges cfg ro m p hro hmm hacc hp hf with hd | ⟨hnr, _, _⟩
        · rw [hmm, h1]
          rw [hmm] at g sp
          refine ⟨?_, insert_spine p _ _ v hd hp hf sp⟩
          rw [← g]
          exact insert_preserves p _ _ v hd hp hf
        · rw [hrec] at hnr; cases hnr
      · have : ro.isMeta = !m := by cases m <;> cases h : ro.isMeta <;> simp_all
        rw [this, h2]
        rw [this] at g sp
        exact ⟨g, sp⟩
  rem := by
    intro s m p c hd hs
    obtain ⟨hacc, hp⟩ := (okTarget_iff cfg (m, p)).mp hd
    rcases targetRemove_spec s m p c with ⟨he, hm⟩ | ⟨h1, h2⟩
    · exact prot_congr he hm hs
    · intro ro hro hrec hf
      obtain ⟨g, sp⟩ := hs ro hro hrec hf
      by_cases hmm : ro.isMeta = m
      · rcases accepted_diverges cfg ro m p hro hmm hacc hp hf with hdv | ⟨hnr, _, _⟩
        · rw [hmm, h1]
          rw [hmm] at g sp
          obtain ⟨r1, r2⟩ := remove_preserves (tgtOf s m) p ro.path c hdv hp hf sp
          exact ⟨r1.trans g, r2⟩
        · rw [hrec] at hnr; cases hnr
      · have : ro.isMeta = !m := by cases m <;> cases h : ro.isMeta <;> simp_all
        rw [this, h2]
        rw [this] at g sp
        exact ⟨g, sp⟩

theorem prot_init (cfg : List RO) (s : St) (hev : s.event.Sorted = true)
    (hmd : s.metadata.Sorted = true) : Prot cfg s s := by
  intro ro _ _ _
  refine ⟨rfl, spineOK_of_sorted _ _ ?_⟩
  intro w hw
  cases hw
  unfold tgtOf
  split
  · exact hmd
  · exact hev

theorem cov_of_accepts (cfg : List RO) (s0 : St) (prog : Exprs)
    (hacc : acceptsFieldProg cfg prog = true) : CovS (protInv cfg s0) prog := by
  unfold acceptsFieldProg writeTargets at hacc
  rw [List.all_eq_true] at hacc
  exact ⟨fun _ _ => trivial, fun x hx => hacc x (List.mem_append_left _ hx),
    fun x hx => hacc x (List.mem_append_right _ hx)⟩

/-- **Read-only paths are never modified** (field-only fragment, recursive entries): for every
    compiled program whose static write targets all pass the read-only check of `cfg` and are
    field-only, every well-formed initial state (any variables, any fault schedule) and every
    recursive field-only read-only entry `ro` of `cfg`, the value at `ro.path` in `ro`'s target after
    the run is the value before — whatever the outcome of the run. -/
theorem run_preserves_readonly (cfg : List RO) (prog : Exprs) (s : St)
    (hacc : acceptsFieldProg cfg prog = true)
    (hev : s.event.Sorted = true) (hmd : s.metadata.Sorted = true)
    (ro : RO) (hro : ro ∈ cfg) (hrec : ro.recursive = true) (hf : fieldOnly ro.path = true) :
    (tgtOf (run prog s).2 ro.isMeta).get ro.path = (tgtOf s ro.isMeta).get ro.path :=
  (run_inv (protInv cfg s) prog (cov_of_accepts cfg s prog hacc) trivial s (prot_init cfg s hev hmd)
    ro hro hrec hf).1

theorem run_preserves_readonly_event (cfg : List RO) (prog : Exprs) (s : St)
    (hacc : acceptsFieldProg cfg prog = true)
    (hev : s.event.Sorted = true) (hmd : s.metadata.Sorted = true)
    (p : Path) (hro : RO.mk false p true ∈ cfg) (hf : fieldOnly p = true) :
    (run prog s).2.event.get p = s.event.get p :=
  run_preserves_readonly cfg prog s hacc hev hmd _ hro rfl hf

theorem run_preserves_readonly_metadata (cfg : List RO) (prog : Exprs) (s : St)
    (hacc : acceptsFieldProg cfg prog = true)
    (hev : s.event.Sorted = true) (hmd : s.metadata.Sorted = true)
    (p : Path) (hro : RO.mk true p true ∈ cfg) (hf : fieldOnly p = true) :
    (run prog s).2.metadata.get p = s.metadata.get p :=
  run_preserves_readonly cfg prog s hacc hev hmd _ hro rfl hf

theorem getOpt_append (p : Path) : ∀ (c : Option Value) (q : Path),
    getOpt c (p ++ q) = getOpt (getOpt c p) q := by
  induction p with
  | nil => intro c q; rfl
  | cons t rest ih =>
    intro c q
    cases c with
    | none => simp only [List.cons_append, C18.getOpt_none]
    | some v =>
      cases t with
      | field f =>
        cases v with
        | obj m => simp only [List.cons_append, getOpt]; exact ih _ q
        | _ => simp only [List.cons_append, getOpt, C18.getOpt_none]
      | index i =>
        cases v with
        | arr a => simp only [List.cons_append, getOpt]; exact ih _ q
        | _ => simp only [List.cons_append, getOpt, C18.getOpt_none]

/-- … and so is every location below a recursive read-only path (any segments below it). -/
theorem run_preserves_readonly_below (cfg : List RO) (prog : Exprs) (s : St)
    (hacc : acceptsFieldProg cfg prog = true)
    (hev : s.event.Sorted = true) (hmd : s.metadata.Sorted = true)
    (ro : RO) (hro : ro ∈ cfg) (hrec : ro.recursive = true) (hf : fieldOnly ro.path = true) (q : Path) :
    (tgtOf (run prog s).2 ro.isMeta).get (ro.path ++ q) = (tgtOf s ro.isMeta).get (ro.path ++ q) := by
  have h := run_preserves_readonly cfg prog s hacc hev hmd ro hro hrec hf
  unfold Value.get at h ⊢
  rw [getOpt_append, getOpt_append, h]

/-! non-vacuity of `run_preserves_readonly`: `.a.b` read-only (recursive); the program
    `.a.c = 1; del(.a.d, compact: true); del(.x.y, compact: true)` passes the check, runs on
    `{"a": {"b": 7, "d": 8}, "x": {"y": 1}}` to `{"a": {"b": 7, "c": 1}}` — it writes and removes
    siblings of the read-only location and compaction deletes the emptied `.x`. -/

def exCfg : List RO := [⟨false, [.field [97], .field [98]], true⟩]

def exProg : Exprs :=
  .cons (.asg (.external false [.field [97], .field [99]]) (.lit (.int 1)))
    (.cons (.delExt false [.field [97], .field [100]] true (.lit (.bool true)))
      (.cons (.delExt false [.field [120], .field [121]] true (.lit (.bool true))) .nil))

def exS : St :=
  { vars := [],
    event := .obj (.cons [97] (.obj (.cons [98] (.int 7) (.cons [100] (.int 8) .nil)))
      (.cons [120] (.obj (.cons [121] (.int 1) .nil)) .nil)),
    metadata := .obj .nil, faults := [], ops := 0, log := [], errs := [] }

example : acceptsFieldProg exCfg exProg = true ∧ exS.event.Sorted = true ∧ exS.metadata.Sorted = true ∧
    (run exProg exS).2.event =
      .obj (.cons [97] (.obj (.cons [98] (.int 7) (.cons [99] (.int 1) .nil))) .nil) ∧
    (run exProg exS).2.event.get [.field [97], .field [98]] = some (.int 7) := by decide

/-- non-vacuity of `accepted_diverges` / `value_insert_preserves` -/
example : isReadOnly [RO.mk false [.field [97], .field [98]] true] false [.field [97], .field [99]] = false ∧
    C18.diverge [.field [97], .field [99]] [.field [97], .field [98]] = true := by decide

end C15
