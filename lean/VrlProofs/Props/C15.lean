/-
  C15 — read-only paths are never modified.

  Acceptance logic (`is_read_only_path`) and the value-level frame law it relies on:
  * `accepted_diverges`: a write path the compiler accepts and a read-only path, both made of field
    segments only, either diverge (neither contains the other) or the write lies strictly below a
    NON-recursive read-only path;
  * `insert_preserves` / `remove_preserves`: an insert / removal (any prune flag) at a field path
    leaves every diverging field path unchanged — for EVERY value, with no condition on the shape
    of the value (unlike C18's frame law, coercion cannot hurt a field-only location);
  so for field-only configurations and programs every accepted write leaves every recursive
  read-only location unchanged (`accepted_write_preserves`). That every write of a run happens at
  an accepted path is C16 (`run_covered`: writes ⊆ reported assignments, each checked by
  `verify_mutable`; removals ⊆ `del` queries, each checked by `del`).
  The full statement is false of the code in three classes (witnesses below): index segments are
  compared as written (`.a[-1]` vs `.a[1]`), a write through a container of the other type
  replaces an ancestor (`.a[0] = 1` destroys `.a.b`), and a non-recursive read-only path does not
  protect its children although they are part of its value.
-/
import VrlModel.ReadOnly
import VrlProofs.Props.C18

namespace C15
open ReadOnly Value

theorem startsWith_refl : (p : Path) → startsWith p p = true
  | [] => rfl
  | s :: p => by simp [startsWith, startsWith_refl p]

/-- field-only paths that are not prefix-related diverge (in C18's sense). -/
theorem diverge_of_not_prefix : (w r : Path) → fieldOnly w = true → fieldOnly r = true →
    startsWith r w = false → startsWith w r = false → C18.diverge w r = true
  | [], _, _, _, h, _ => by cases ‹Path› <;> simp [startsWith] at h
  | _ :: _, [], _, _, _, h => by simp [startsWith] at h
  | s :: w, t :: r, hw, hr, h1, h2 => by
    cases s with
    | index _ => simp [fieldOnly] at hw
    | field f =>
      cases t with
      | index _ => simp [fieldOnly] at hr
      | field g =>
        by_cases hfg : f = g
        · subst hfg
          simp only [startsWith, decide_true, Bool.true_and] at h1 h2
          simp only [C18.diverge, ↓reduceIte]
          exact diverge_of_not_prefix w r (by simpa [fieldOnly] using hw) (by simpa [fieldOnly] using hr) h1 h2
        · have : Seg.field f ≠ Seg.field g := by intro e; cases e; exact hfg rfl
          simp [C18.diverge, this, C18.noAlias]

/-- what acceptance by `is_read_only_path` gives for one read-only entry of the same target. -/
theorem accepted_diverges (cfg : List RO) (ro : RO) (m : Bool) (w : Path) (hmem : ro ∈ cfg)
    (hm : ro.isMeta = m) (hacc : isReadOnly cfg m w = false)
    (hw : fieldOnly w = true) (hr : fieldOnly ro.path = true) :
    C18.diverge w ro.path = true ∨ (ro.recursive = false ∧ startsWith w ro.path = true ∧ w ≠ ro.path) := by
  have hh : hits ro m w = false := by
    unfold isReadOnly at hacc
    rw [List.any_eq_false] at hacc
    simpa using hacc ro hmem
  unfold hits at hh
  simp only [hm, beq_self_eq_true, Bool.true_and, Bool.or_eq_false_iff] at hh
  obtain ⟨h1, h2⟩ := hh
  cases hrec : ro.recursive with
  | true =>
    simp only [hrec, ↓reduceIte] at h2
    exact .inl (diverge_of_not_prefix w ro.path hw hr h1 h2)
  | false =>
    simp only [hrec, Bool.false_eq_true, ↓reduceIte, decide_eq_false_iff_not] at h2
    by_cases h3 : startsWith w ro.path = true
    · exact .inr ⟨rfl, h3, h2⟩
    · exact .inl (diverge_of_not_prefix w ro.path hw hr h1 (by simpa using h3))

/-- frame law for field-only paths: unconditional in the value. -/
theorem insert_preserves (p : Path) : ∀ (c : Option Value) (q : Path) (x : Value),
    C18.diverge p q = true → fieldOnly p = true → fieldOnly q = true →
    getOpt (some (insertOpt c p x)) q = getOpt c q := by
  induction p with
  | nil => intro c q x hd; simp [C18.diverge] at hd
  | cons s rest ih =>
    intro c q x hd hp hq
    cases q with
    | nil => simp [C18.diverge] at hd
    | cons t q' =>
      cases s with
      | index _ => simp [fieldOnly] at hp
      | field f =>
        cases t with
        | index _ => simp [fieldOnly] at hq
        | field g =>
          simp only [C18.diverge] at hd
          have hp' : fieldOnly rest = true := by simpa [fieldOnly] using hp
          have hq' : fieldOnly q' = true := by simpa [fieldOnly] using hq
          by_cases hfg : f = g
          · subst hfg
            simp only [↓reduceIte] at hd
            simp only [insertOpt, getOpt, VMap.get_insert_same]
            rw [ih _ q' x hd hp' hq']
            cases c with
            | none => simp [asMap, getOpt, C18.getOpt_none]
            | some cv => cases cv <;> simp [asMap, getOpt, C18.getOpt_none]
          · simp only [insertOpt, getOpt, VMap.get_insert_other _ _ _ _ hfg]
            cases c with
            | none => simp [asMap, getOpt, C18.getOpt_none]
            | some cv => cases cv <;> simp [asMap, getOpt, C18.getOpt_none]

theorem value_insert_preserves (v : Value) (p q : Path) (x : Value) (v' : Value) (prev : Option Value)
    (hd : C18.diverge p q = true) (hp : fieldOnly p = true) (hq : fieldOnly q = true)
    (h : v.insert p x = .ok (v', prev)) : v'.get q = v.get q := by
  unfold Value.insert at h
  split at h
  · cases h
  · cases h; exact insert_preserves p (some v) q x hd hp hq

/-- D_negative_index: read-only `.a[1]`; `.a[-1] = 99` is accepted and changes `.a[1]` on `{"a":[0,1]}`. -/
theorem witness_negative_index :
    let cfg := [RO.mk false [.field [97], .index 1] false]
    let v := Value.obj (.cons [97] (.arr (.cons (.int 0) (.cons (.int 1) .nil))) .nil)
    isReadOnly cfg false [.field [97], .index (-1)] = false ∧
    (insertOpt (some v) [.field [97], .index (-1)] (.int 99)).get [.field [97], .index 1] ≠ v.get [.field [97], .index 1] := by
  decide

/-- D_container_coercion: read-only recursive `.a.b`; `.a[0] = 99` is accepted and destroys `.a.b`. -/
theorem witness_coercion :
    let cfg := [RO.mk false [.field [97], .field [98]] true]
    let v := Value.obj (.cons [97] (.obj (.cons [98] (.int 1) .nil)) .nil)
    isReadOnly cfg false [.field [97], .index 0] = false ∧
    (insertOpt (some v) [.field [97], .index 0] (.int 99)).get [.field [97], .field [98]] ≠ v.get [.field [97], .field [98]] := by
  decide

/-- D_nonrecursive_child: non-recursive read-only `.a`; `.a.b = 2` is accepted and changes the value at `.a`. -/
theorem witness_nonrecursive_child :
    let cfg := [RO.mk false [.field [97]] false]
    let v := Value.obj (.cons [97] (.obj (.cons [98] (.int 1) .nil)) .nil)
    isReadOnly cfg false [.field [97], .field [98]] = false ∧
    (insertOpt (some v) [.field [97], .field [98]] (.int 2)).get [.field [97]] ≠ v.get [.field [97]] := by
  decide

/-- non-vacuity of `accepted_diverges` / `value_insert_preserves` -/
example : isReadOnly [RO.mk false [.field [97], .field [98]] true] false [.field [97], .field [99]] = false ∧
    C18.diverge [.field [97], .field [99]] [.field [97], .field [98]] = true := by decide

end C15
