/-
  C27 (part i) — every Lean reference specification reproduces the test vectors of its
  publication. All proofs are evaluation inside the Lean kernel (`decide +kernel`: the kernel
  reduces the `Decidable` instance to `isTrue`; no compiler, no `native_decide`, no extra axioms).

  Messages are written as `toBE len 0x…` (the bytes of the hex number, most significant first;
  the ASCII text is in the comment above each line) and digests as `beNat digest = 0x…` (the
  digest bytes read as one big-endian number, i.e. the published hex string), because `String`
  literals evaluate very slowly in the kernel; the digest *lengths* are proved for all inputs in
  `VrlProofs/Props/C27.lean`, so number + length determine the digest.

  The expected numbers are the values printed in the cited documents (RFC 1321 A.5; FIPS 180-4
  / NIST "Examples with intermediate values" for SHA-1 and the SHA-2 family; NIST SHA-3 example
  files for FIPS 202; RFC 2202 and RFC 4231 for HMAC; the `check` column of the CRC catalogue;
  the sanity-check vectors of the xxHash reference distribution; the test vectors in the SeaHash
  reference). They were cross-checked against OpenSSL (Python hashlib/hmac) when this file was
  written.

  What these theorems are: evidence that the *specification* `VrlModel/Hash/*.lean` is the
  published function, on the published inputs. They say nothing about the Rust crates; that is
  the `c27.*` correspondence (sampling).
-/
import VrlModel.Hash.Vrl

namespace C27
open Hash

/-- RFC 1321 appendix A.5, the complete MD5 test suite. -/
theorem md5_rfc1321_test_suite :
    -- ""
    beNat (MD5.digest ([])) = 0xd41d8cd98f00b204e9800998ecf8427e ∧
    -- "a"
    beNat (MD5.digest (toBE 1 0x61)) = 0x0cc175b9c0f1b6a831c399e269772661 ∧
    -- "abc"
    beNat (MD5.digest (toBE 3 0x616263)) = 0x900150983cd24fb0d6963f7d28e17f72 ∧
    -- "message digest"
    beNat (MD5.digest (toBE 14 0x6d65737361676520646967657374)) = 0xf96b697d7cb7938d525a2f31aaf161d0 ∧
    -- "abcdefghijklmnopqrstuvwxyz"
    beNat (MD5.digest (toBE 26 0x6162636465666768696a6b6c6d6e6f707172737475767778797a)) = 0xc3fcd3d76192e4007dfb496cca67e13b ∧
    -- "ABCDEFGHIJKLMNOPQRSTUVWXYZabcdefghijklmnopqrstuvwxyz0123456789"
    beNat (MD5.digest (toBE 62 0x4142434445464748494a4b4c4d4e4f505152535455565758595a6162636465666768696a6b6c6d6e6f707172737475767778797a30313233343536373839)) = 0xd174ab98d277d9f5a5611c2c9f419d9f ∧
    -- "12345678901234567890123456789012345678901234567890123456789012345678901234567890"
    beNat (MD5.digest (toBE 80 0x3132333435363738393031323334353637383930313233343536373839303132333435363738393031323334353637383930313233343536373839303132333435363738393031323334353637383930)) = 0x57edf4a22be3c955ac49da2e2107b67a := by
  decide +kernel

/-- FIPS 180 SHA-1 examples (one-block message "abc", two-block 448-bit message) and the empty message. -/
theorem sha1_fips180_examples :
    -- "abc"
    beNat (SHA.SHA1.digest (toBE 3 0x616263)) = 0xa9993e364706816aba3e25717850c26c9cd0d89d ∧
    -- "abcdbcdecdefdefgefghfghighijhijkijkljklmklmnlmnomnopnopq"
    beNat (SHA.SHA1.digest (toBE 56 0x6162636462636465636465666465666765666768666768696768696a68696a6b696a6b6c6a6b6c6d6b6c6d6e6c6d6e6f6d6e6f706e6f7071)) = 0x84983e441c3bd26ebaae4aa1f95129e5e54670f1 ∧
    -- ""
    beNat (SHA.SHA1.digest ([])) = 0xda39a3ee5e6b4b0d3255bfef95601890afd80709 := by
  decide +kernel

/-- FIPS 180 SHA-224 examples ("abc", 448-bit two-block message) and the empty message. -/
theorem sha224_fips180_examples :
    -- "abc"
    beNat (SHA.sha224 (toBE 3 0x616263)) = 0x23097d223405d8228642a477bda255b32aadbce4bda0b3f7e36c9da7 ∧
    -- "abcdbcdecdefdefgefghfghighijhijkijkljklmklmnlmnomnopnopq"
    beNat (SHA.sha224 (toBE 56 0x6162636462636465636465666465666765666768666768696768696a68696a6b696a6b6c6a6b6c6d6b6c6d6e6c6d6e6f6d6e6f706e6f7071)) = 0x75388b16512776cc5dba5da1fd890150b0c6455cb4f58b1952522525 ∧
    -- ""
    beNat (SHA.sha224 ([])) = 0xd14a028c2a3a2bc9476102bb288234c415a2b01f828ea62ac5b3e42f := by
  decide +kernel

/-- FIPS 180 SHA-256 examples ("abc", 448-bit two-block message) and the empty message. -/
theorem sha256_fips180_examples :
    -- "abc"
    beNat (SHA.sha256 (toBE 3 0x616263)) = 0xba7816bf8f01cfea414140de5dae2223b00361a396177a9cb410ff61f20015ad ∧
    -- "abcdbcdecdefdefgefghfghighijhijkijkljklmklmnlmnomnopnopq"
    beNat (SHA.sha256 (toBE 56 0x6162636462636465636465666465666765666768666768696768696a68696a6b696a6b6c6a6b6c6d6b6c6d6e6c6d6e6f6d6e6f706e6f7071)) = 0x248d6a61d20638b8e5c026930c3e6039a33ce45964ff2167f6ecedd419db06c1 ∧
    -- ""
    beNat (SHA.sha256 ([])) = 0xe3b0c44298fc1c149afbf4c8996fb92427ae41e4649b934ca495991b7852b855 := by
  decide +kernel

/-- FIPS 180 SHA-384 examples ("abc", 896-bit two-block message) and the empty message. -/
theorem sha384_fips180_examples :
    -- "abc"
    beNat (SHA.sha384 (toBE 3 0x616263)) = 0xcb00753f45a35e8bb5a03d699ac65007272c32ab0eded1631a8b605a43ff5bed8086072ba1e7cc2358baeca134c825a7 ∧
    -- "abcdefghbcdefghicdefghijdefghijkefghijklfghijklmghijklmnhijklmnoijklmnopjklmnopqklmnopqrlmnopqrsmnopqrstnopqrstu"
    beNat (SHA.sha384 (toBE 112 0x61626364656667686263646566676869636465666768696a6465666768696a6b65666768696a6b6c666768696a6b6c6d6768696a6b6c6d6e68696a6b6c6d6e6f696a6b6c6d6e6f706a6b6c6d6e6f70716b6c6d6e6f7071726c6d6e6f707172736d6e6f70717273746e6f707172737475)) = 0x09330c33f71147e83d192fc782cd1b4753111b173b3b05d22fa08086e3b0f712fcc7c71a557e2db966c3e9fa91746039 ∧
    -- ""
    beNat (SHA.sha384 ([])) = 0x38b060a751ac96384cd9327eb1b1e36a21fdb71114be07434c0cc7bf63f6e1da274edebfe76f65fbd51ad2f14898b95b := by
  decide +kernel

/-- FIPS 180 SHA-512 examples ("abc", 896-bit two-block message) and the empty message. -/
theorem sha512_fips180_examples :
    -- "abc"
    beNat (SHA.sha512 (toBE 3 0x616263)) = 0xddaf35a193617abacc417349ae20413112e6fa4e89a97ea20a9eeee64b55d39a2192992a274fc1a836ba3c23a3feebbd454d4423643ce80e2a9ac94fa54ca49f ∧
    -- "abcdefghbcdefghicdefghijdefghijkefghijklfghijklmghijklmnhijklmnoijklmnopjklmnopqklmnopqrlmnopqrsmnopqrstnopqrstu"
    beNat (SHA.sha512 (toBE 112 0x61626364656667686263646566676869636465666768696a6465666768696a6b65666768696a6b6c666768696a6b6c6d6768696a6b6c6d6e68696a6b6c6d6e6f696a6b6c6d6e6f706a6b6c6d6e6f70716b6c6d6e6f7071726c6d6e6f707172736d6e6f70717273746e6f707172737475)) = 0x8e959b75dae313da8cf4f72814fc143f8f7779c6eb9f7fa17299aeadb6889018501d289e4900f7e4331b99dec4b5433ac7d329eeb6dd26545e96e55b874be909 ∧
    -- ""
    beNat (SHA.sha512 ([])) = 0xcf83e1357eefb8bdf1542850d66d8007d620e4050b5715dc83f4a921d36ce9ce47d0d13c5d85f2b0ff8318d2877eec2f63b931bd47417a81a538327af927da3e := by
  decide +kernel

/-- FIPS 180-4 SHA-512/224 examples ("abc", 896-bit two-block message) and the empty message. -/
theorem sha512_224_fips180_examples :
    -- "abc"
    beNat (SHA.sha512_224 (toBE 3 0x616263)) = 0x4634270f707b6a54daae7530460842e20e37ed265ceee9a43e8924aa ∧
    -- "abcdefghbcdefghicdefghijdefghijkefghijklfghijklmghijklmnhijklmnoijklmnopjklmnopqklmnopqrlmnopqrsmnopqrstnopqrstu"
    beNat (SHA.sha512_224 (toBE 112 0x61626364656667686263646566676869636465666768696a6465666768696a6b65666768696a6b6c666768696a6b6c6d6768696a6b6c6d6e68696a6b6c6d6e6f696a6b6c6d6e6f706a6b6c6d6e6f70716b6c6d6e6f7071726c6d6e6f707172736d6e6f70717273746e6f707172737475)) = 0x23fec5bb94d60b23308192640b0c453335d664734fe40e7268674af9 ∧
    -- ""
    beNat (SHA.sha512_224 ([])) = 0x6ed0dd02806fa89e25de060c19d3ac86cabb87d6a0ddd05c333b84f4 := by
  decide +kernel

/-- FIPS 180-4 SHA-512/256 examples ("abc", 896-bit two-block message) and the empty message. -/
theorem sha512_256_fips180_examples :
    -- "abc"
    beNat (SHA.sha512_256 (toBE 3 0x616263)) = 0x53048e2681941ef99b2e29b76b4c7dabe4c2d0c634fc6d46e0e2f13107e7af23 ∧
    -- "abcdefghbcdefghicdefghijdefghijkefghijklfghijklmghijklmnhijklmnoijklmnopjklmnopqklmnopqrlmnopqrsmnopqrstnopqrstu"
    beNat (SHA.sha512_256 (toBE 112 0x61626364656667686263646566676869636465666768696a6465666768696a6b65666768696a6b6c666768696a6b6c6d6768696a6b6c6d6e68696a6b6c6d6e6f696a6b6c6d6e6f706a6b6c6d6e6f70716b6c6d6e6f7071726c6d6e6f707172736d6e6f70717273746e6f707172737475)) = 0x3928e184fb8690f840da3988121d31be65cb9d3ef83ee6146feac861e19b563a ∧
    -- ""
    beNat (SHA.sha512_256 ([])) = 0xc672b8d1ef56ed28ab87c3622c5114069bdd3ad7b8f9737498d0c01ecef0967a := by
  decide +kernel

/-- NIST SHA3-224 example values: 0-bit message, 1600-bit message (200 bytes 0xa3, spans two or three blocks), and "abc". -/
theorem sha3_224_nist_examples :
    -- ""
    beNat (SHA3.sha3_224 ([])) = 0x6b4e03423667dbb73b6e15454f0eb1abd4597f9a1b078e3f5b5a6bc7 ∧
    -- List.replicate 200 0xa3
    beNat (SHA3.sha3_224 (List.replicate 200 0xa3)) = 0x9376816aba503f72f96ce7eb65ac095deee3be4bf9bbc2a1cb7e11e0 ∧
    -- "abc"
    beNat (SHA3.sha3_224 (toBE 3 0x616263)) = 0xe642824c3f8cf24ad09234ee7d3c766fc9a3a5168d0c94ad73b46fdf := by
  decide +kernel

/-- NIST SHA3-256 example values: 0-bit message, 1600-bit message (200 bytes 0xa3, spans two or three blocks), and "abc". -/
theorem sha3_256_nist_examples :
    -- ""
    beNat (SHA3.sha3_256 ([])) = 0xa7ffc6f8bf1ed76651c14756a061d662f580ff4de43b49fa82d80a4b80f8434a ∧
    -- List.replicate 200 0xa3
    beNat (SHA3.sha3_256 (List.replicate 200 0xa3)) = 0x79f38adec5c20307a98ef76e8324afbfd46cfd81b22e3973c65fa1bd9de31787 ∧
    -- "abc"
    beNat (SHA3.sha3_256 (toBE 3 0x616263)) = 0x3a985da74fe225b2045c172d6bd390bd855f086e3e9d525b46bfe24511431532 := by
  decide +kernel

/-- NIST SHA3-384 example values: 0-bit message, 1600-bit message (200 bytes 0xa3, spans two or three blocks), and "abc". -/
theorem sha3_384_nist_examples :
    -- ""
    beNat (SHA3.sha3_384 ([])) = 0x0c63a75b845e4f7d01107d852e4c2485c51a50aaaa94fc61995e71bbee983a2ac3713831264adb47fb6bd1e058d5f004 ∧
    -- List.replicate 200 0xa3
    beNat (SHA3.sha3_384 (List.replicate 200 0xa3)) = 0x1881de2ca7e41ef95dc4732b8f5f002b189cc1e42b74168ed1732649ce1dbcdd76197a31fd55ee989f2d7050dd473e8f ∧
    -- "abc"
    beNat (SHA3.sha3_384 (toBE 3 0x616263)) = 0xec01498288516fc926459f58e2c6ad8df9b473cb0fc08c2596da7cf0e49be4b298d88cea927ac7f539f1edf228376d25 := by
  decide +kernel

/-- NIST SHA3-512 example values: 0-bit message, 1600-bit message (200 bytes 0xa3, spans two or three blocks), and "abc". -/
theorem sha3_512_nist_examples :
    -- ""
    beNat (SHA3.sha3_512 ([])) = 0xa69f73cca23a9ac5c8b567dc185a756e97c982164fe25859e0d1dcc1475c80a615b2123af1f5f94c11e3e9402c3ac558f500199d95b6d3e301758586281dcd26 ∧
    -- List.replicate 200 0xa3
    beNat (SHA3.sha3_512 (List.replicate 200 0xa3)) = 0xe76dfad22084a8b1467fcf2ffa58361bec7628edf5f3fdc0e4805dc48caeeca81b7c13c30adf52a3659584739a2df46be589c51ca1a4a8416df6545a1ce8ba00 ∧
    -- "abc"
    beNat (SHA3.sha3_512 (toBE 3 0x616263)) = 0xb751850b1a57168a5693cd924b6b096e08f621827444f70d884f5d0240d2712e10e116e9192af3c91a7ec57647e3934057340b4cf408d5a56592f8274eec53f0 := by
  decide +kernel

/-- RFC 2202 §3, HMAC-SHA-1 test cases 1–7 (case 5 with the full 160-bit output). -/
theorem hmac_sha1_rfc2202 :
    -- key List.replicate 20 0x0b, data "Hi There"
    beNat (HMAC.hmac ⟨64, SHA.SHA1.digest⟩ (List.replicate 20 0x0b) (toBE 8 0x4869205468657265)) = 0xb617318655057264e28bc0b6fb378c8ef146be00 ∧
    -- key "Jefe", data "what do ya want for nothing?"
    beNat (HMAC.hmac ⟨64, SHA.SHA1.digest⟩ (toBE 4 0x4a656665) (toBE 28 0x7768617420646f2079612077616e7420666f72206e6f7468696e673f)) = 0xeffcdf6ae5eb2fa2d27416d5f184df9c259a7c79 ∧
    -- key List.replicate 20 0xaa, data List.replicate 50 0xdd
    beNat (HMAC.hmac ⟨64, SHA.SHA1.digest⟩ (List.replicate 20 0xaa) (List.replicate 50 0xdd)) = 0x125d7342b9ac11cd91a39af48aa17b4f63f175d3 ∧
    -- key (List.range 25).map (· + 1), data List.replicate 50 0xcd
    beNat (HMAC.hmac ⟨64, SHA.SHA1.digest⟩ ((List.range 25).map (· + 1)) (List.replicate 50 0xcd)) = 0x4c9007f4026250c6bc8414f9bf50c86c2d7235da ∧
    -- key List.replicate 20 0x0c, data "Test With Truncation"
    beNat (HMAC.hmac ⟨64, SHA.SHA1.digest⟩ (List.replicate 20 0x0c) (toBE 20 0x546573742057697468205472756e636174696f6e)) = 0x4c1a03424b55e07fe7f27be1d58bb9324a9a5a04 ∧
    -- key List.replicate 80 0xaa, data "Test Using Larger Than Block-Size Key - Hash Key First"
    beNat (HMAC.hmac ⟨64, SHA.SHA1.digest⟩ (List.replicate 80 0xaa) (toBE 54 0x54657374205573696e67204c6172676572205468616e20426c6f636b2d53697a65204b6579202d2048617368204b6579204669727374)) = 0xaa4ae5e15272d00e95705637ce8a3b55ed402112 ∧
    -- key List.replicate 80 0xaa, data "Test Using Larger Than Block-Size Key and Larger Than One Block-Size Data"
    beNat (HMAC.hmac ⟨64, SHA.SHA1.digest⟩ (List.replicate 80 0xaa) (toBE 73 0x54657374205573696e67204c6172676572205468616e20426c6f636b2d53697a65204b657920616e64204c6172676572205468616e204f6e6520426c6f636b2d53697a652044617461)) = 0xe8e99d0f45237d786d6bbaa7965c7808bbff1a91 := by
  decide +kernel

/-- RFC 4231 §4, HMAC-SHA-224 test cases 1–7 (case 5 truncated to 128 bits as in the RFC). -/
theorem hmac_sha224_rfc4231 :
    -- key List.replicate 20 0x0b, data "Hi There"
    beNat (HMAC.hmac ⟨64, SHA.sha224⟩ (List.replicate 20 0x0b) (toBE 8 0x4869205468657265)) = 0x896fb1128abbdf196832107cd49df33f47b4b1169912ba4f53684b22 ∧
    -- key "Jefe", data "what do ya want for nothing?"
    beNat (HMAC.hmac ⟨64, SHA.sha224⟩ (toBE 4 0x4a656665) (toBE 28 0x7768617420646f2079612077616e7420666f72206e6f7468696e673f)) = 0xa30e01098bc6dbbf45690f3a7e9e6d0f8bbea2a39e6148008fd05e44 ∧
    -- key List.replicate 20 0xaa, data List.replicate 50 0xdd
    beNat (HMAC.hmac ⟨64, SHA.sha224⟩ (List.replicate 20 0xaa) (List.replicate 50 0xdd)) = 0x7fb3cb3588c6c1f6ffa9694d7d6ad2649365b0c1f65d69d1ec8333ea ∧
    -- key (List.range 25).map (· + 1), data List.replicate 50 0xcd
    beNat (HMAC.hmac ⟨64, SHA.sha224⟩ ((List.range 25).map (· + 1)) (List.replicate 50 0xcd)) = 0x6c11506874013cac6a2abc1bb382627cec6a90d86efc012de7afec5a ∧
    -- key List.replicate 20 0x0c, data "Test With Truncation", truncated to 128 bits
    beNat ((HMAC.hmac ⟨64, SHA.sha224⟩ (List.replicate 20 0x0c) (toBE 20 0x546573742057697468205472756e636174696f6e)).take 16) = 0x0e2aea68a90c8d37c988bcdb9fca6fa8 ∧
    -- key List.replicate 131 0xaa, data "Test Using Larger Than Block-Size Key - Hash Key First"
    beNat (HMAC.hmac ⟨64, SHA.sha224⟩ (List.replicate 131 0xaa) (toBE 54 0x54657374205573696e67204c6172676572205468616e20426c6f636b2d53697a65204b6579202d2048617368204b6579204669727374)) = 0x95e9a0db962095adaebe9b2d6f0dbce2d499f112f2d2b7273fa6870e ∧
    -- key List.replicate 131 0xaa, data "This is a test using a larger than block-size key and a larger than block-size data. The key needs to be hashed before being used by the HMAC algorithm."
    beNat (HMAC.hmac ⟨64, SHA.sha224⟩ (List.replicate 131 0xaa) (toBE 152 0x5468697320697320612074657374207573696e672061206c6172676572207468616e20626c6f636b2d73697a65206b657920616e642061206c6172676572207468616e20626c6f636b2d73697a6520646174612e20546865206b6579206e6565647320746f20626520686173686564206265666f7265206265696e6720757365642062792074686520484d414320616c676f726974686d2e)) = 0x3a854166ac5d9f023f54d517d0b39dbd946770db9c2b95c9f6f565d1 := by
  decide +kernel

/-- RFC 4231 §4, HMAC-SHA-256 test cases 1–7 (case 5 truncated to 128 bits as in the RFC). -/
theorem hmac_sha256_rfc4231 :
    -- key List.replicate 20 0x0b, data "Hi There"
    beNat (HMAC.hmac ⟨64, SHA.sha256⟩ (List.replicate 20 0x0b) (toBE 8 0x4869205468657265)) = 0xb0344c61d8db38535ca8afceaf0bf12b881dc200c9833da726e9376c2e32cff7 ∧
    -- key "Jefe", data "what do ya want for nothing?"
    beNat (HMAC.hmac ⟨64, SHA.sha256⟩ (toBE 4 0x4a656665) (toBE 28 0x7768617420646f2079612077616e7420666f72206e6f7468696e673f)) = 0x5bdcc146bf60754e6a042426089575c75a003f089d2739839dec58b964ec3843 ∧
    -- key List.replicate 20 0xaa, data List.replicate 50 0xdd
    beNat (HMAC.hmac ⟨64, SHA.sha256⟩ (List.replicate 20 0xaa) (List.replicate 50 0xdd)) = 0x773ea91e36800e46854db8ebd09181a72959098b3ef8c122d9635514ced565fe ∧
    -- key (List.range 25).map (· + 1), data List.replicate 50 0xcd
    beNat (HMAC.hmac ⟨64, SHA.sha256⟩ ((List.range 25).map (· + 1)) (List.replicate 50 0xcd)) = 0x82558a389a443c0ea4cc819899f2083a85f0faa3e578f8077a2e3ff46729665b ∧
    -- key List.replicate 20 0x0c, data "Test With Truncation", truncated to 128 bits
    beNat ((HMAC.hmac ⟨64, SHA.sha256⟩ (List.replicate 20 0x0c) (toBE 20 0x546573742057697468205472756e636174696f6e)).take 16) = 0xa3b6167473100ee06e0c796c2955552b ∧
    -- key List.replicate 131 0xaa, data "Test Using Larger Than Block-Size Key - Hash Key First"
    beNat (HMAC.hmac ⟨64, SHA.sha256⟩ (List.replicate 131 0xaa) (toBE 54 0x54657374205573696e67204c6172676572205468616e20426c6f636b2d53697a65204b6579202d2048617368204b6579204669727374)) = 0x60e431591ee0b67f0d8a26aacbf5b77f8e0bc6213728c5140546040f0ee37f54 ∧
    -- key List.replicate 131 0xaa, data "This is a test using a larger than block-size key and a larger than block-size data. The key needs to be hashed before being used by the HMAC algorithm."
    beNat (HMAC.hmac ⟨64, SHA.sha256⟩ (List.replicate 131 0xaa) (toBE 152 0x5468697320697320612074657374207573696e672061206c6172676572207468616e20626c6f636b2d73697a65206b657920616e642061206c6172676572207468616e20626c6f636b2d73697a6520646174612e20546865206b6579206e6565647320746f20626520686173686564206265666f7265206265696e6720757365642062792074686520484d414320616c676f726974686d2e)) = 0x9b09ffa71b942fcb27635fbcd5b0e944bfdc63644f0713938a7f51535c3a35e2 := by
  decide +kernel

/-- RFC 4231 §4, HMAC-SHA-384 test cases 1–7 (case 5 truncated to 128 bits as in the RFC). -/
theorem hmac_sha384_rfc4231 :
    -- key List.replicate 20 0x0b, data "Hi There"
    beNat (HMAC.hmac ⟨128, SHA.sha384⟩ (List.replicate 20 0x0b) (toBE 8 0x4869205468657265)) = 0xafd03944d84895626b0825f4ab46907f15f9dadbe4101ec682aa034c7cebc59cfaea9ea9076ede7f4af152e8b2fa9cb6 ∧
    -- key "Jefe", data "what do ya want for nothing?"
    beNat (HMAC.hmac ⟨128, SHA.sha384⟩ (toBE 4 0x4a656665) (toBE 28 0x7768617420646f2079612077616e7420666f72206e6f7468696e673f)) = 0xaf45d2e376484031617f78d2b58a6b1b9c7ef464f5a01b47e42ec3736322445e8e2240ca5e69e2c78b3239ecfab21649 ∧
    -- key List.replicate 20 0xaa, data List.replicate 50 0xdd
    beNat (HMAC.hmac ⟨128, SHA.sha384⟩ (List.replicate 20 0xaa) (List.replicate 50 0xdd)) = 0x88062608d3e6ad8a0aa2ace014c8a86f0aa635d947ac9febe83ef4e55966144b2a5ab39dc13814b94e3ab6e101a34f27 ∧
    -- key (List.range 25).map (· + 1), data List.replicate 50 0xcd
    beNat (HMAC.hmac ⟨128, SHA.sha384⟩ ((List.range 25).map (· + 1)) (List.replicate 50 0xcd)) = 0x3e8a69b7783c25851933ab6290af6ca77a9981480850009cc5577c6e1f573b4e6801dd23c4a7d679ccf8a386c674cffb ∧
    -- key List.replicate 20 0x0c, data "Test With Truncation", truncated to 128 bits
    beNat ((HMAC.hmac ⟨128, SHA.sha384⟩ (List.replicate 20 0x0c) (toBE 20 0x546573742057697468205472756e636174696f6e)).take 16) = 0x3abf34c3503b2a23a46efc619baef897 ∧
    -- key List.replicate 131 0xaa, data "Test Using Larger Than Block-Size Key - Hash Key First"
    beNat (HMAC.hmac ⟨128, SHA.sha384⟩ (List.replicate 131 0xaa) (toBE 54 0x54657374205573696e67204c6172676572205468616e20426c6f636b2d53697a65204b6579202d2048617368204b6579204669727374)) = 0x4ece084485813e9088d2c63a041bc5b44f9ef1012a2b588f3cd11f05033ac4c60c2ef6ab4030fe8296248df163f44952 ∧
    -- key List.replicate 131 0xaa, data "This is a test using a larger than block-size key and a larger than block-size data. The key needs to be hashed before being used by the HMAC algorithm."
    beNat (HMAC.hmac ⟨128, SHA.sha384⟩ (List.replicate 131 0xaa) (toBE 152 0x5468697320697320612074657374207573696e672061206c6172676572207468616e20626c6f636b2d73697a65206b657920616e642061206c6172676572207468616e20626c6f636b2d73697a6520646174612e20546865206b6579206e6565647320746f20626520686173686564206265666f7265206265696e6720757365642062792074686520484d414320616c676f726974686d2e)) = 0x6617178e941f020d351e2f254e8fd32c602420feb0b8fb9adccebb82461e99c5a678cc31e799176d3860e6110c46523e := by
  decide +kernel

/-- RFC 4231 §4, HMAC-SHA-512 test cases 1–7 (case 5 truncated to 128 bits as in the RFC). -/
theorem hmac_sha512_rfc4231 :
    -- key List.replicate 20 0x0b, data "Hi There"
    beNat (HMAC.hmac ⟨128, SHA.sha512⟩ (List.replicate 20 0x0b) (toBE 8 0x4869205468657265)) = 0x87aa7cdea5ef619d4ff0b4241a1d6cb02379f4e2ce4ec2787ad0b30545e17cdedaa833b7d6b8a702038b274eaea3f4e4be9d914eeb61f1702e696c203a126854 ∧
    -- key "Jefe", data "what do ya want for nothing?"
    beNat (HMAC.hmac ⟨128, SHA.sha512⟩ (toBE 4 0x4a656665) (toBE 28 0x7768617420646f2079612077616e7420666f72206e6f7468696e673f)) = 0x164b7a7bfcf819e2e395fbe73b56e0a387bd64222e831fd610270cd7ea2505549758bf75c05a994a6d034f65f8f0e6fdcaeab1a34d4a6b4b636e070a38bce737 ∧
    -- key List.replicate 20 0xaa, data List.replicate 50 0xdd
    beNat (HMAC.hmac ⟨128, SHA.sha512⟩ (List.replicate 20 0xaa) (List.replicate 50 0xdd)) = 0xfa73b0089d56a284efb0f0756c890be9b1b5dbdd8ee81a3655f83e33b2279d39bf3e848279a722c806b485a47e67c807b946a337bee8942674278859e13292fb ∧
    -- key (List.range 25).map (· + 1), data List.replicate 50 0xcd
    beNat (HMAC.hmac ⟨128, SHA.sha512⟩ ((List.range 25).map (· + 1)) (List.replicate 50 0xcd)) = 0xb0ba465637458c6990e5a8c5f61d4af7e576d97ff94b872de76f8050361ee3dba91ca5c11aa25eb4d679275cc5788063a5f19741120c4f2de2adebeb10a298dd ∧
    -- key List.replicate 20 0x0c, data "Test With Truncation", truncated to 128 bits
    beNat ((HMAC.hmac ⟨128, SHA.sha512⟩ (List.replicate 20 0x0c) (toBE 20 0x546573742057697468205472756e636174696f6e)).take 16) = 0x415fad6271580a531d4179bc891d87a6 ∧
    -- key List.replicate 131 0xaa, data "Test Using Larger Than Block-Size Key - Hash Key First"
    beNat (HMAC.hmac ⟨128, SHA.sha512⟩ (List.replicate 131 0xaa) (toBE 54 0x54657374205573696e67204c6172676572205468616e20426c6f636b2d53697a65204b6579202d2048617368204b6579204669727374)) = 0x80b24263c7c1a3ebb71493c1dd7be8b49b46d1f41b4aeec1121b013783f8f3526b56d037e05f2598bd0fd2215d6a1e5295e64f73f63f0aec8b915a985d786598 ∧
    -- key List.replicate 131 0xaa, data "This is a test using a larger than block-size key and a larger than block-size data. The key needs to be hashed before being used by the HMAC algorithm."
    beNat (HMAC.hmac ⟨128, SHA.sha512⟩ (List.replicate 131 0xaa) (toBE 152 0x5468697320697320612074657374207573696e672061206c6172676572207468616e20626c6f636b2d73697a65206b657920616e642061206c6172676572207468616e20626c6f636b2d73697a6520646174612e20546865206b6579206e6565647320746f20626520686173686564206265666f7265206265696e6720757365642062792074686520484d414320616c676f726974686d2e)) = 0xe37b6a775dc87dbaa4dfa9f96e5e3ffddebd71f8867289865df5a32d20cdc944b6022cac3c4982b10d5eeb55c3e4de15134676fb6de0446065c97440fa8c6a58 := by
  decide +kernel

/-! ### tables that the standards define by a procedure -/

/-- FIPS 202 Algorithm 5/6: the 24 round constants used by the executable are the ones the LFSR
    `rc(t)` generates. -/
theorem keccak_rc_generated : SHA3.RC = (List.range 24).map SHA3.rcGen := by
  decide +kernel

/-- FIPS 202 Algorithm 2: the ρ offsets used by the executable are the ones generated by the walk
    `(x,y) ← (y, 2x+3y)` with offsets `(t+1)(t+2)/2 mod 64`. -/
theorem keccak_rho_generated : SHA3.RHO = SHA3.rhoGen 24 0 1 0 (List.replicate 25 0) := by
  decide +kernel

/-- FIPS 180-4 §5.3.6.1: the SHA-512/224 initial hash value is what the "SHA-512/t IV generation
    function" yields for the string "SHA-512/224". -/
theorem iv512_224_generated : SHA.ivGen (toBE 11 0x5348412d3531322f323234) = SHA.iv512_224 := by
  decide +kernel

/-- FIPS 180-4 §5.3.6.2: likewise for SHA-512/256. -/
theorem iv512_256_generated : SHA.ivGen (toBE 11 0x5348412d3531322f323536) = SHA.iv512_256 := by
  decide +kernel

/-- SHA-224 and SHA-384 initial values are the second 32 bits / the 64 bits of the fractional
    parts of the square roots of the 9th–16th primes: the low halves of the SHA-384 words are the
    SHA-224 words (FIPS 180-4 §5.3.2, §5.3.4). -/
theorem iv224_low_half_of_iv384 : SHA.iv384.map (· % M32) = SHA.iv224 := by
  decide +kernel

/-- the SHA-256 constants are the high halves of the first 64 SHA-512 constants (both are the
    fractional parts of the cube roots of the first primes, FIPS 180-4 §4.2.2/4.2.3); same for the
    initial values (square roots, §5.3.3/5.3.5). -/
theorem k256_high_half_of_k512 :
    (SHA.K512.take 64).map (· / M32) = SHA.K256 ∧ SHA.iv512.map (· / M32) = SHA.iv256 := by
  decide +kernel

/-! ### CRC catalogue -/

/-- for EVERY parameter row (all 112 algorithms accepted by vrl's `crc`), the Rocksoft model
    gives the catalogue's `check` value on the ASCII string "123456789". -/
theorem crc_catalogue_check :
    ∀ p ∈ CRC.table, CRC.crc p (toBE 9 0x313233343536373839) = p.check := by
  decide +kernel

/-- the catalogue's `residue` column: feeding a message followed by its own CRC (register image,
    in transmission order) leaves `residue` in the register – checked here in the equivalent
    form "the CRC of the empty message is `init` (reflected if `refout`) xor `xorout`", plus the
    well-formedness of every row: all parameters fit the width. -/
theorem crc_rows_wellformed :
    ∀ p ∈ CRC.table, 0 < p.width ∧ p.width ≤ 82 ∧ p.poly < 2 ^ p.width ∧ p.init < 2 ^ p.width ∧
      p.xorout < 2 ^ p.width ∧ p.check < 2 ^ p.width ∧ p.poly % 2 = 1 := by
  decide +kernel

/-! ### xxHash -/

/-- the test buffer of the xxHash reference sanity check: `byteGen = PRIME32`, then repeatedly
    `buffer[i] = byteGen >> 56; byteGen *= PRIME64` (PRIME32 = 2654435761,
    PRIME64 = 11400714785074694797). -/
def sanityBuf (n : Nat) : Bytes :=
  ((List.range n).foldl
    (fun (acc : List Nat × Nat) _ => ((acc.2 >>> 56) :: acc.1, acc.2 * 11400714785074694797 % M64))
    ([], 2654435761)).1.reverse

/-- XXH32 with seed 0: empty input and the sanity-check lengths 1, 14, 222 of the reference
    distribution; plus the examples of vrl's documentation. -/
theorem xxh32_vectors :
    XXH.xxh32 0 [] = 0x02CC5D05 ∧
    XXH.xxh32 0 (sanityBuf 1) = 0xCF65B03E ∧
    XXH.xxh32 0 (sanityBuf 14) = 0x1208E7E2 ∧
    XXH.xxh32 0 (sanityBuf 222) = 0x5BD11DBD ∧
    XXH.xxh32 0 (toBE 3 0x666f6f) = 3792637401 := by
  decide +kernel

theorem xxh64_vectors :
    XXH.xxh64 0 [] = 0xEF46DB3751D8E999 ∧
    XXH.xxh64 0 (sanityBuf 1) = 0xE934A84ADB052768 ∧
    XXH.xxh64 0 (sanityBuf 14) = 0x8282DCC4994E35C8 ∧
    XXH.xxh64 0 (sanityBuf 222) = 0xB641AE8CB691C174 ∧
    XXH.xxh64 0 (toBE 3 0x666f6f) = 3728699739546630719 := by
  decide +kernel

/-- XXH3-64 (seed 0, default secret): one vector in every length class of the algorithm
    (0, 1–3, 4–8, 9–16, 17–128, 129–240, > 240: less than one block, and two full blocks plus a partial one). -/
theorem xxh3_64_vectors :
    XXH3.xxh3_64 [] = 0x2D06800538D394C2 ∧
    XXH3.xxh3_64 (sanityBuf 1) = 0xC44BDFF4074EECDB ∧
    XXH3.xxh3_64 (sanityBuf 6) = 0x27B56A84CD2D7325 ∧
    XXH3.xxh3_64 (sanityBuf 12) = 0xA713DAF0DFBB77E7 ∧
    XXH3.xxh3_64 (sanityBuf 24) = 0xA3FE70BF9D3510EB ∧
    XXH3.xxh3_64 (sanityBuf 48) = 0x397DA259ECBA1F11 ∧
    XXH3.xxh3_64 (sanityBuf 80) = 0xBCDEFBBB2C47C90A ∧
    XXH3.xxh3_64 (sanityBuf 195) = 0xCD94217EE362EC3A ∧
    XXH3.xxh3_64 (sanityBuf 403) = 0xCDEB804D65C6DEA4 ∧
    XXH3.xxh3_64 (sanityBuf 512) = 0x617E49599013CB6B ∧
    XXH3.xxh3_64 (sanityBuf 2367) = 0xCB37AEB9E5D361ED := by
  decide +kernel

/-- XXH3-128 (seed 0): the same length classes; values written `high64 * 2^64 + low64`. -/
theorem xxh3_128_vectors :
    XXH3.xxh3_128 [] = 0x99AA06D3014798D8 * M64 + 0x6001C324468D497F ∧
    XXH3.xxh3_128 (sanityBuf 1) = 0xA6CD5E9392000F6A * M64 + 0xC44BDFF4074EECDB ∧
    XXH3.xxh3_128 (sanityBuf 6) = 0x082AFE0B8162D12A * M64 + 0x3E7039BDDA43CFC6 ∧
    XXH3.xxh3_128 (sanityBuf 12) = 0x6E3EFD8FC7802B18 * M64 + 0x061A192713F69AD9 ∧
    XXH3.xxh3_128 (sanityBuf 24) = 0x0CE966E4678D3761 * M64 + 0x1E7044D28B1B901D ∧
    XXH3.xxh3_128 (sanityBuf 48) = 0xA002AC4E5478227E * M64 + 0xF942219AED80F67B ∧
    XXH3.xxh3_128 (sanityBuf 81) = 0x4952F58181AB0042 * M64 + 0x5E8BAFB9F95FB803 ∧
    XXH3.xxh3_128 (sanityBuf 222) = 0x337E09641B948717 * M64 + 0xF1AEBD597CEC6B3A ∧
    XXH3.xxh3_128 (sanityBuf 403) = 0x1B6DE21E332DD73D * M64 + 0xCDEB804D65C6DEA4 ∧
    XXH3.xxh3_128 (sanityBuf 512) = 0x18D2D110DCC9BCA1 * M64 + 0x617E49599013CB6B ∧
    XXH3.xxh3_128 (sanityBuf 2367) = 0xE89C0F6FF369B427 * M64 + 0xCB37AEB9E5D361ED := by
  decide +kernel

/-! ### SeaHash -/

/-- the test vectors of the SeaHash reference (`reference::tests::shakespear`,
    `helper::tests::diffuse_test_vectors`). -/
theorem seahash_vectors :
    SeaHash.hash (toBE 18 0x746f206265206f72206e6f7420746f206265) = 1988685042348123509 ∧
    SeaHash.diffuse 94203824938 = 17289265692384716055 ∧
    SeaHash.diffuse 0xDEADBEEF = 12110756357096144265 ∧
    SeaHash.diffuse 0 = 0 ∧
    SeaHash.diffuse 1 = 15197155197312260123 ∧
    SeaHash.diffuse 2 = 1571904453004118546 ∧
    SeaHash.diffuse 3 = 16467633989910088880 := by
  decide +kernel

end C27
