/-
  C35 — Embedder type conversions round-trip canonical text.
  Model: VrlModel/Conversion.lean (`Conversion::parse/convert`, `parse_bool`, `i64` text,
  `format_has_zone`, `parse_timestamp`, `TimeZone::datetime_from_str`, `datetime_to_utc`);
  Spec predicates and finding classes: VrlModel/C35.lean. Helper lemmas: Lemmas/C35.lean.

  (1) names      parse_documented, parse_timestamp_format, parse_eq_some_iff, parse_unknown
                 every documented name parses to its variant (under every zone), `timestamp|F` to
                 `Conversion::timestamp(trim F)`, and NOTHING else parses
  (2) integers   parseI64_showI64 (every i64), convert_integer_roundtrip, parseI64_range, parseI64_shape
  (3) booleans   parseBool_true_spellings / _false_spellings (every letter case), parseBool_numbers,
                 parseBool_complete (nothing else is accepted), convert_bool_roundtrip
  (4) floats     convert_float_roundtrip          from the law `parseF (showF x) = x` (HYPOTHESIS on core)
  (5) timestamps convert_tzfmt_of_law, convert_fmt_of_law, convert_auto_rfc3339, roundtrip_zoned_every_tz
                 from chrono's laws (HYPOTHESES on chrono: pointwise equations on the rendered text);
                 since 83f4a4b for EVERY instant chrono hands out (no `validInst` side condition:
                 `datetime_to_utc` is the identity on the pair). instNs_leap_fold,
                 convert_auto_rfc3339_leap: a leap-second representation `(s, 10⁹+f)` is observed as the
                 nanosecond count of `(s+1, f)`, so the value returned for a leap second round-trips
                 through RFC 3339 text that chrono reads as the following second
  (6) zones      convert_tz_irrelevant, zoned_format_ignores_tz, parseTimestamp_tz_only_local:
                 STRUCTURAL non-interference — the `TimestampTzFmt` branch of the model
                 (`convertTzFmt`) has no `Tz` among its inputs; it is tied to the code only by the
                 `c35.convert` correspondence (which supplies results for six zones and lets the model pick)
  (7) format_has_zone   hasOffsetSpec_imp_formatHasZone: every format with a real offset specifier is
                 classified zone-explicit; the converse is FALSE (Witness/C35.lean: `%%z`, `%Z`)
  (8) panics     datetimeToUtc_no_panic, convert_no_panic, convertNamed_no_panic: NO conversion panics,
                 for every text, name, zone and every behaviour of chrono / core float text (FULL
                 statement; it was `convert_no_panic_partial` under the hypothesis `ChronoSafe`, false of
                 the real chrono, until 83f4a4b repaired finding `nopanic:D_leap_offset`).
                 timestampOptOk_iff: the class `D_leap_offset` is exactly what `Utc.timestamp_opt`
                 refuses inside chrono's range (the instants the old code panicked on; Witness/C35.lean
                 `fixed_leap_offset…`).
-/
import VrlProofs.Lemmas.C35
import VrlModel.C35

namespace C35
open Cnv

/-! ### (1) names -/

/-- the documented name table (doc comment of `Conversion::parse`) -/
def documented (tz : Tz) : List (List Char × Conversion) := [
  (nAsis, .bytes), (nBytes, .bytes), (nString, .bytes),
  (nInt, .integer), (nInteger, .integer),
  (nFloat, .float),
  (nBool, .boolean), (nBoolean, .boolean),
  (nTimestamp, .timestamp tz)]

theorem parseName_documented (tz : Tz) (a : List Char) (c : Conversion) :
    parseName a tz = some c ↔ (a, c) ∈ documented tz := by
  constructor
  · intro h
    unfold parseName at h
    split at h
    · rename_i h1; injection h with h; subst h
      rcases h1 with rfl | rfl | rfl <;> simp [documented]
    · split at h
      · rename_i h1; injection h with h; subst h
        rcases h1 with rfl | rfl <;> simp [documented]
      · split at h
        · rename_i h1; injection h with h; subst h; subst h1; simp [documented]
        · split at h
          · rename_i h1; injection h with h; subst h
            rcases h1 with rfl | rfl <;> simp [documented]
          · split at h
            · rename_i h1; injection h with h; subst h; subst h1; simp [documented]
            · simp at h
  · intro h
    simp only [documented, List.mem_cons, Prod.mk.injEq, List.mem_nil_iff, or_false] at h
    rcases h with ⟨rfl, rfl⟩ | ⟨rfl, rfl⟩ | ⟨rfl, rfl⟩ | ⟨rfl, rfl⟩ | ⟨rfl, rfl⟩ | ⟨rfl, rfl⟩ |
      ⟨rfl, rfl⟩ | ⟨rfl, rfl⟩ | ⟨rfl, rfl⟩ <;> rfl

/-- every documented name parses to the documented variant, under every configured zone -/
theorem parse_documented (tz : Tz) : ∀ p ∈ documented tz, Conversion.parse p.1 tz = some p.2 := by
  intro p hp
  simp only [documented, List.mem_cons, List.mem_nil_iff, or_false] at hp
  rcases hp with rfl | rfl | rfl | rfl | rfl | rfl | rfl | rfl | rfl <;> rfl

theorem split2_timestamp_bar (fmt : List Char) : split2 (nTimestamp ++ '|' :: fmt) = (nTimestamp, some fmt) := by
  simp [nTimestamp, split2]

/-- `timestamp|FORMAT` parses to `Conversion::timestamp(trim FORMAT, tz)` -/
theorem parse_timestamp_format (fmt : List Char) (tz : Tz) :
    Conversion.parse (nTimestamp ++ '|' :: fmt) tz = some (Conversion.ofTimestampFmt (trim fmt) tz) := by
  have ht : trim nTimestamp = nTimestamp := by decide
  simp [Conversion.parse, split2_timestamp_bar, ht]

/-- the default case, lifted to ALL strings: a name parses iff, after splitting at the first `|` and
    trimming, it is in the table (no `|` part) or is `timestamp` with a format part. -/
theorem parse_eq_some_iff (s : List Char) (tz : Tz) (c : Conversion) :
    Conversion.parse s tz = some c ↔
      ((split2 s).2 = none ∧ (trim (split2 s).1, c) ∈ documented tz) ∨
      (∃ f, (split2 s).2 = some f ∧ trim (split2 s).1 = nTimestamp ∧
        c = Conversion.ofTimestampFmt (trim f) tz) := by
  unfold Conversion.parse
  simp only []
  generalize (split2 s).2 = o
  cases o with
  | none => simp [parseName_documented]
  | some f =>
    simp only [reduceCtorEq, false_and, Option.some.injEq, exists_eq_left', false_or]
    split
    · rename_i ht; simp [ht, eq_comm]
    · rename_i ht; simp [ht]

/-- unknown names are errors -/
theorem parse_unknown (s : List Char) (tz : Tz)
    (h1 : (split2 s).2 = none → ∀ c, (trim (split2 s).1, c) ∉ documented tz)
    (h2 : (split2 s).2 ≠ none → trim (split2 s).1 ≠ nTimestamp) :
    Conversion.parse s tz = none := by
  cases hp : Conversion.parse s tz with
  | none => rfl
  | some c =>
    rcases (parse_eq_some_iff s tz c).1 hp with ⟨hn, hm⟩ | ⟨f, hf, ht, _⟩
    · exact absurd hm (h1 hn c)
    · exact absurd ht (h2 (by simp [hf]))

/-! ### (2) integers -/

/-- `str::parse::<i64>` reads back `Display for i64`, for EVERY `i64`. -/
theorem parseI64_showI64 (n : Int) (h1 : i64Min ≤ n) (h2 : n ≤ i64Max) : parseI64 (showI64 n) = some n := by
  unfold showI64
  split
  · rename_i hneg
    have e : -((n.natAbs : Nat) : Int) = n := by omega
    rw [parseI64_neg_natDigits, accNeg_natDigits _ (by omega), e]
  · rename_i hpos
    have e : ((n.natAbs : Nat) : Int) = n := by omega
    rw [parseI64_natDigits, accPos_natDigits _ (by omega), e]

theorem convert_integer_roundtrip {P : Type} (ft : FloatText) (ch : Chrono P) (n : Int)
    (h1 : i64Min ≤ n) (h2 : n ≤ i64Max) :
    convert ft ch .integer (showI64 n) = .ok (.int n) := by
  simp [convert, parseI64_showI64 n h1 h2]

/-- whatever is accepted is an `i64` -/
theorem parseI64_range (s : List Nat) (v : Int) (h : parseI64 s = some v) : i64Min ≤ v ∧ v ≤ i64Max := by
  have hM : i64Max = 9223372036854775807 := rfl
  have hm : i64Min = -9223372036854775808 := rfl
  rcases parseI64_cases s v h with ⟨ds, _, _, ha⟩ | ⟨ds, _, _, ha⟩ | ⟨_, ha⟩
  · have := accPos_range 0 ds v (by omega) ha; omega
  · have := accNeg_range 0 ds v (by omega) ha; omega
  · have := accPos_range 0 s v (by omega) ha; omega

/-- accepted texts are: one optional sign, then at least one ASCII digit, nothing else -/
theorem parseI64_shape (s : List Nat) (v : Int) (h : parseI64 s = some v) :
    ∃ sign ds, s = sign ++ ds ∧ (sign = [] ∨ sign = [43] ∨ sign = [45]) ∧ ds ≠ [] ∧
      ∀ d ∈ ds, 48 ≤ d ∧ d ≤ 57 := by
  rcases parseI64_cases s v h with ⟨ds, rfl, hne, ha⟩ | ⟨ds, rfl, hne, ha⟩ | ⟨hne, ha⟩
  · exact ⟨[43], ds, rfl, by simp, hne, accPos_all_digits 0 ds v ha⟩
  · exact ⟨[45], ds, rfl, by simp, hne, accNeg_all_digits 0 ds v ha⟩
  · exact ⟨[], s, rfl, by simp, hne, accPos_all_digits 0 s v ha⟩

/-- a text containing a byte that is neither a sign nor a digit is not an integer -/
theorem parseI64_none_of_mem (s : List Nat) (b : Nat) (hb : b ∈ s) (h1 : b ≠ 43) (h2 : b ≠ 45)
    (h3 : b < 48 ∨ 57 < b) : parseI64 s = none := by
  cases hp : parseI64 s with
  | none => rfl
  | some v =>
    obtain ⟨sign, ds, rfl, hs, _, hd⟩ := parseI64_shape s v hp
    simp only [List.mem_append] at hb
    rcases hb with hb | hb
    · rcases hs with rfl | rfl | rfl <;> simp at hb <;> omega
    · have := hd b hb; omega

/-! ### (3) booleans -/

theorem isTrueWord_lower_head (s : List Nat) (h : isTrueWord (lowerAscii s) = true) :
    ∃ b r, s = b :: r ∧ 65 ≤ b := by
  simp only [isTrueWord, Bool.or_eq_true, beq_iff_eq, wTrue, wT, wYes, wY] at h
  rcases h with ((h | h) | h) | h <;>
  · obtain ⟨b, r, rfl, hb, _⟩ := lowerAscii_cons s _ _ h
    have := lowerByte_eq b _ hb
    exact ⟨b, r, rfl, by omega⟩

theorem isFalseWord_lower_head (s : List Nat) (h : isFalseWord (lowerAscii s) = true) :
    ∃ b r, s = b :: r ∧ 65 ≤ b := by
  simp only [isFalseWord, Bool.or_eq_true, beq_iff_eq, wFalse, wF, wNo, wN] at h
  rcases h with ((h | h) | h) | h <;>
  · obtain ⟨b, r, rfl, hb, _⟩ := lowerAscii_cons s _ _ h
    have := lowerByte_eq b _ hb
    exact ⟨b, r, rfl, by omega⟩

/-- a word is not both (used for the exact-match shortcuts of `parse_bool`) -/
theorem not_true_and_false_word (s : List Nat) (h1 : isTrueWord (lowerAscii s) = true)
    (h2 : isFalseWord s = true ∨ s = wZero) : False := by
  rcases h2 with h2 | h2
  · simp only [isFalseWord, Bool.or_eq_true, beq_iff_eq] at h2
    rcases h2 with ((rfl | rfl) | rfl) | rfl <;> revert h1 <;> decide
  · subst h2; revert h1; decide

theorem not_false_and_true_word (s : List Nat) (h1 : isFalseWord (lowerAscii s) = true)
    (h2 : isTrueWord s = true) : False := by
  simp only [isTrueWord, Bool.or_eq_true, beq_iff_eq] at h2
  rcases h2 with ((rfl | rfl) | rfl) | rfl <;> revert h1 <;> decide

/-- `true`, `t`, `yes`, `y` in EVERY letter case convert to `true` -/
theorem parseBool_true_spellings (s : List Nat) (h : isTrueWord (lowerAscii s) = true) :
    parseBool s = some true := by
  unfold parseBool
  split
  · rfl
  · split
    · rename_i hf
      simp only [Bool.or_eq_true, beq_iff_eq] at hf
      exact (not_true_and_false_word s h hf).elim
    · obtain ⟨b, r, rfl, hb⟩ := isTrueWord_lower_head s h
      rw [parseI64_none_of_letter b r hb]
      try simp [h]

/-- `false`, `f`, `no`, `n` in EVERY letter case convert to `false` -/
theorem parseBool_false_spellings (s : List Nat) (h : isFalseWord (lowerAscii s) = true) :
    parseBool s = some false := by
  unfold parseBool
  split
  · rename_i ht
    exact (not_false_and_true_word s h ht).elim
  · split
    · rfl
    · obtain ⟨b, r, rfl, hb⟩ := isFalseWord_lower_head s h
      rw [parseI64_none_of_letter b r hb]
      have hnt : isTrueWord (lowerAscii (b :: r)) = false := by
        cases ht : isTrueWord (lowerAscii (b :: r)) with
        | false => rfl
        | true =>
          exfalso
          simp only [isTrueWord, Bool.or_eq_true, beq_iff_eq] at ht
          simp only [isFalseWord, Bool.or_eq_true, beq_iff_eq] at h
          rcases ht with ((ht | ht) | ht) | ht <;> rw [ht] at h <;> revert h <;> decide
      simp [hnt, h]

/-- integers (`isize` syntax): zero is `false`, everything else `true` -/
theorem parseI64_words : parseI64 wTrue = none ∧ parseI64 wT = none ∧ parseI64 wYes = none ∧
    parseI64 wY = none ∧ parseI64 wFalse = none ∧ parseI64 wF = none ∧ parseI64 wNo = none ∧
    parseI64 wN = none ∧ parseI64 wZero = some 0 := by decide

theorem parseBool_numbers (s : List Nat) (n : Int) (h : parseI64 s = some n) :
    parseBool s = some (n != 0) := by
  obtain ⟨w1, w2, w3, w4, w5, w6, w7, w8, w9⟩ := parseI64_words
  unfold parseBool
  split
  · rename_i ht
    simp only [isTrueWord, Bool.or_eq_true, beq_iff_eq] at ht
    rcases ht with ((rfl | rfl) | rfl) | rfl <;> simp_all
  · split
    · rename_i hf
      simp only [isFalseWord, Bool.or_eq_true, beq_iff_eq] at hf
      rcases hf with (((rfl | rfl) | rfl) | rfl) | rfl
      · simp_all
      · simp_all
      · simp_all
      · simp_all
      · rw [w9] at h; injection h with h; subst h; rfl
    · simp [h]

/-- nothing else is accepted -/
theorem parseBool_complete (s : List Nat) (b : Bool) (h : parseBool s = some b) :
    (isTrueWord (lowerAscii s) = true ∧ b = true) ∨ (isFalseWord (lowerAscii s) = true ∧ b = false) ∨
    (∃ n, parseI64 s = some n ∧ b = (n != 0)) := by
  unfold parseBool at h
  split at h
  · rename_i ht
    injection h with h; subst h
    left
    refine ⟨?_, rfl⟩
    simp only [isTrueWord, Bool.or_eq_true, beq_iff_eq] at ht
    rcases ht with ((rfl | rfl) | rfl) | rfl <;> decide
  · split at h
    · rename_i hf
      injection h with h; subst h
      simp only [Bool.or_eq_true, beq_iff_eq, isFalseWord] at hf
      rcases hf with (((rfl | rfl) | rfl) | rfl) | rfl
      · right; left; exact ⟨by decide, rfl⟩
      · right; left; exact ⟨by decide, rfl⟩
      · right; left; exact ⟨by decide, rfl⟩
      · right; left; exact ⟨by decide, rfl⟩
      · right; right; exact ⟨0, by decide, rfl⟩
    · split at h
      · rename_i n hn
        injection h with h
        right; right; exact ⟨n, hn, h.symm⟩
      · split at h
        · injection h with h; subst h; left; exact ⟨by assumption, rfl⟩
        · split at h
          · injection h with h; subst h; right; left; exact ⟨by assumption, rfl⟩
          · simp at h

theorem convert_bool_roundtrip {P : Type} (ft : FloatText) (ch : Chrono P) (b : Bool) :
    convert ft ch .boolean (showBool b) = .ok (.bool b) := by
  cases b <;> rfl

/-! ### (4) floats: from the text law of core (hypothesis) -/

/-- assumed law of `str::parse::<f64>` ∘ `Display for f64` on non-NaN bit patterns -/
def FloatLaw (ft : FloatText) : Prop :=
  ∀ x : Nat, x < 2 ^ 64 → isNaN x = false → ft.parseF (ft.showF x) = some x

theorem convert_float_roundtrip {P : Type} (ft : FloatText) (ch : Chrono P) (law : FloatLaw ft)
    (x : Nat) (hx : x < 2 ^ 64) (hn : isNaN x = false) :
    convert ft ch .float (ft.showF x) = .ok (.float x) := by
  simp [convert, law x hx hn, hn]

/-- NaN texts are rejected, never stored -/
theorem convert_float_never_nan {P : Type} (ft : FloatText) (ch : Chrono P) (s : List Nat) (x : Nat)
    (h : convert ft ch .float s = .ok (.float x)) : isNaN x = false := by
  simp only [convert] at h
  split at h
  · simp at h
  · split at h
    · simp at h
    · rename_i hn
      injection h with h; injection h with h; subst h
      simpa using hn

/-! ### (5) timestamps: from chrono's laws (hypotheses, pointwise on the rendered text) -/

/-- zone resolution as `datetime_from_str` dispatches it -/
def resolve {P : Type} (ch : Chrono P) : Tz → P → Option Inst
  | .local, p => ch.resolveLocal p
  | .named n, p => ch.resolveNamed n p

/-- zone-explicit format: if chrono reads the text back as `i`, so does the conversion -/
theorem convert_tzfmt_of_law {P : Type} (ft : FloatText) (ch : Chrono P) (fmt : List Char)
    (text : List Nat) (i : Inst) (hp : ch.parseFromStr text fmt = some i) :
    convert ft ch (.timestampTzFmt fmt) text = .ok (.ts (instNs i)) := by
  simp [convert, convertTzFmt, hp, datetimeToUtc, tsResult]

/-- zone-less format: if chrono parses the text and resolves it in the configured zone to `i` -/
theorem convert_fmt_of_law {P : Type} (ft : FloatText) (ch : Chrono P) (fmt : List Char) (tz : Tz)
    (text : List Nat) (p : P) (i : Inst) (hp : ch.parse text fmt = some p)
    (hr : resolve ch tz p = some i) :
    convert ft ch (.timestampFmt fmt tz) text = .ok (.ts (instNs i)) := by
  cases tz with
  | «local» =>
    have hr' : ch.resolveLocal p = some i := hr
    simp [convert, datetimeFromStr, hp, hr', datetimeToUtc, tsResult]
  | named n =>
    have hr' : ch.resolveNamed n p = some i := hr
    simp [convert, datetimeFromStr, hp, hr', datetimeToUtc, tsResult]

theorem tryLocal_none {P : Type} (ch : Chrono P) (tz : Tz) (s : List Nat) (fs : List (List Char))
    (h : ∀ f ∈ fs, ch.parse s f = none) : tryLocal ch tz s fs = none := by
  induction fs with
  | nil => rfl
  | cons f fs ih =>
    have hf := h f (by simp)
    simp only [tryLocal, datetimeFromStr, hf]
    exact ih (fun g hg => h g (by simp [hg]))

/-- the automatic conversion on RFC 3339 text (the canonical rendering of a timestamp value):
    no zone-less format matches it, it is not a number (it contains `:`), RFC 3339 reads it. -/
theorem convert_auto_rfc3339 {P : Type} (ft : FloatText) (ch : Chrono P) (tz : Tz) (text : List Nat)
    (i : Inst) (hloc : ∀ f ∈ localFormats, ch.parse text f = none) (hcolon : 58 ∈ text)
    (h3 : ch.parseRfc3339 text = some i) :
    convert ft ch (.timestamp tz) text = .ok (.ts (instNs i)) := by
  have hn : parseI64 text = none := parseI64_none_of_mem text 58 hcolon (by decide) (by decide) (by omega)
  simp [convert, parseTimestamp, tryLocal_none ch tz text localFormats hloc, parseUnixTimestamp, hn, h3,
    datetimeToUtc, tsResult]

/-- the observable of a timestamp value is its nanosecond count: chrono's leap-second representation
    `(s, 10⁹ + f)` and the ordinary pair `(s + 1, f)` are the same value of the model (and the same
    `ts:<ns>` on the wire, the same `timestamp_nanos_opt()`), although chrono's `==` tells them apart. -/
theorem instNs_leap_fold (s : Int) (f : Nat) : instNs (s, 1000000000 + f) = instNs (s + 1, f) := by
  simp only [instNs]; omega

/-- round trip of the value RETURNED for a leap second (in particular the one `datetime_to_utc` keeps
    on a UTC second that is not :59 since 83f4a4b): its RFC 3339 text shows the following second
    (observed on the implementation by `o.c35.reconv`: `1900-01-01 23:59:60` in America/St_Johns →
    `(−2208889749, 10⁹)` → `1900-01-02T03:30:52Z`); if chrono reads that text as `(s + 1, f)`, the
    automatic conversion yields the value again. -/
theorem convert_auto_rfc3339_leap {P : Type} (ft : FloatText) (ch : Chrono P) (tz : Tz) (text : List Nat)
    (s : Int) (f : Nat) (hloc : ∀ g ∈ localFormats, ch.parse text g = none) (hcolon : 58 ∈ text)
    (h3 : ch.parseRfc3339 text = some (s + 1, f)) :
    convert ft ch (.timestamp tz) text = .ok (.ts (instNs (s, 1000000000 + f))) := by
  rw [instNs_leap_fold]
  exact convert_auto_rfc3339 ft ch tz text (s + 1, f) hloc hcolon h3

/-- formats with an explicit zone give the same instant under EVERY configured zone
    (named form: through `Conversion::parse`) -/
theorem roundtrip_zoned_every_tz {P : Type} (ft : FloatText) (ch : Chrono P) (fmt : List Char)
    (text : List Nat) (i : Inst) (hz : formatHasZone (trim fmt) = true)
    (hp : ch.parseFromStr text (trim fmt) = some i) (tz : Tz) :
    convertNamed ft ch (nTimestamp ++ '|' :: fmt) tz text = some (.ok (.ts (instNs i))) := by
  simp [convertNamed, parse_timestamp_format, Conversion.ofTimestampFmt, hz,
    convert_tzfmt_of_law ft ch (trim fmt) text i hp]

/-! ### (6) the configured zone: structural non-interference -/

/-- does the variant carry the configured zone? -/
def usesTz : Conversion → Bool
  | .timestamp _ => true
  | .timestampFmt _ _ => true
  | _ => false

def withTz (tz : Tz) : Conversion → Conversion
  | .timestamp _ => .timestamp tz
  | .timestampFmt f _ => .timestampFmt f tz
  | c => c

/-- the zone passed to `Conversion::parse` only ends up in the zone slot of the variant -/
theorem parse_tz_shape (s : List Char) (tz₁ tz₂ : Tz) :
    Conversion.parse s tz₂ = (Conversion.parse s tz₁).map (withTz tz₂) := by
  unfold Conversion.parse
  simp only []
  generalize (split2 s).2 = o
  generalize trim (split2 s).1 = a
  cases o with
  | none =>
    simp only [parseName]
    by_cases h1 : a = nAsis ∨ a = nBytes ∨ a = nString
    · simp only [if_pos h1, Option.map_some, withTz]
    · by_cases h2 : a = nInteger ∨ a = nInt
      · simp only [if_neg h1, if_pos h2, Option.map_some, withTz]
      · by_cases h3 : a = nFloat
        · simp only [if_neg h1, if_neg h2, if_pos h3, Option.map_some, withTz]
        · by_cases h4 : a = nBool ∨ a = nBoolean
          · simp only [if_neg h1, if_neg h2, if_neg h3, if_pos h4, Option.map_some, withTz]
          · by_cases h5 : a = nTimestamp
            · simp only [if_neg h1, if_neg h2, if_neg h3, if_neg h4, if_pos h5, Option.map_some, withTz]
            · simp only [if_neg h1, if_neg h2, if_neg h3, if_neg h4, if_neg h5, Option.map_none]
  | some f =>
    simp only []
    by_cases h : a = nTimestamp
    · simp only [h, if_true, Option.map_some, Conversion.ofTimestampFmt]
      by_cases hz : formatHasZone (trim f) = true
      · simp [hz, withTz]
      · simp [hz, withTz]
    · simp [h]

/-- conversions whose variant does not carry the zone give the same result under any two zones:
    `Bytes`, `Integer`, `Float`, `Boolean` and the zone-explicit `TimestampTzFmt` — whose model
    (`convertTzFmt`) does not take a `Tz` at all. -/
theorem convert_tz_irrelevant {P : Type} (ft : FloatText) (ch : Chrono P) (name : List Char)
    (s : List Nat) (tz₁ tz₂ : Tz) (c : Conversion) (h : Conversion.parse name tz₁ = some c)
    (hu : usesTz c = false) :
    convertNamed ft ch name tz₁ s = convertNamed ft ch name tz₂ s := by
  have h2 : Conversion.parse name tz₂ = some c := by
    rw [parse_tz_shape name tz₁ tz₂, h]
    cases c <;> simp_all [withTz, usesTz]
  simp [convertNamed, h, h2]

/-- `timestamp|F` with a zone-explicit `F`: the configured zone is irrelevant, for EVERY text
    (no hypothesis on chrono) -/
theorem zoned_format_ignores_tz {P : Type} (ft : FloatText) (ch : Chrono P) (fmt : List Char)
    (s : List Nat) (tz₁ tz₂ : Tz) (hz : formatHasZone (trim fmt) = true) :
    convertNamed ft ch (nTimestamp ++ '|' :: fmt) tz₁ s = convertNamed ft ch (nTimestamp ++ '|' :: fmt) tz₂ s := by
  apply convert_tz_irrelevant ft ch _ s tz₁ tz₂ (.timestampTzFmt (trim fmt))
  · simp [parse_timestamp_format, Conversion.ofTimestampFmt, hz]
  · rfl

/-- the automatic conversion consults the configured zone only in the zone-less format loop -/
theorem parseTimestamp_tz_only_local {P : Type} (ch : Chrono P) (s : List Nat) (tz₁ tz₂ : Tz)
    (h1 : tryLocal ch tz₁ s localFormats = none) (h2 : tryLocal ch tz₂ s localFormats = none) :
    parseTimestamp ch tz₁ s = parseTimestamp ch tz₂ s := by
  simp [parseTimestamp, h1, h2]

/-! ### (7) `format_has_zone` against a strftime-aware scan -/

theorem hasSub_cons (n : List Char) (c : Char) (r : List Char) (h : hasSub n r = true) :
    hasSub n (c :: r) = true := by
  simp [hasSub, h]

theorem formatHasZone_cons (c : Char) (r : List Char) (h : formatHasZone r = true) :
    formatHasZone (c :: r) = true := by
  simp only [formatHasZone, Bool.or_eq_true] at *
  rcases h with (((h | h) | h) | h) | h
  · exact .inl (.inl (.inl (.inl (hasSub_cons _ c r h))))
  · exact .inl (.inl (.inl (.inr (hasSub_cons _ c r h))))
  · exact .inl (.inl (.inr (hasSub_cons _ c r h)))
  · exact .inl (.inr (hasSub_cons _ c r h))
  · exact .inr (hasSub_cons _ c r h)

theorem offsetScan_sound : ∀ (r : List Char),
    (offsetScan 0 r = true → formatHasZone r = true) ∧
    (offsetScan 1 r = true → formatHasZone ('%' :: r) = true) ∧
    (∀ x, (x = ':' ∨ x = '#') → offsetScan 2 r = true → formatHasZone ('%' :: x :: r) = true) := by
  intro r
  induction r with
  | nil => simp [offsetScan]
  | cons c r ih =>
    obtain ⟨ih0, ih1, ih2⟩ := ih
    refine ⟨?_, ?_, ?_⟩
    · intro h
      simp only [offsetScan] at h
      split at h
      · rename_i hc; subst hc; exact ih1 h
      · exact formatHasZone_cons c r (ih0 h)
    · intro h
      simp only [offsetScan] at h
      split at h
      · exact formatHasZone_cons _ _ (formatHasZone_cons _ _ (ih0 h))
      · split at h
        · rename_i hz
          rcases hz with rfl | rfl
          · simp [formatHasZone, hasSub, isPrefix]
          · simp [formatHasZone, hasSub, isPrefix]
        · split at h
          · rename_i hx
            exact ih2 c hx h
          · exact formatHasZone_cons _ _ (formatHasZone_cons _ _ (ih0 h))
    · intro x hx h
      simp only [offsetScan] at h
      split at h
      · rename_i hz; subst hz
        rcases hx with rfl | rfl
        · simp [formatHasZone, hasSub, isPrefix]
        · simp [formatHasZone, hasSub, isPrefix]
      · split at h
        · rename_i hc; subst hc
          exact formatHasZone_cons _ _ (formatHasZone_cons _ _ (ih1 h))
        · exact formatHasZone_cons _ _ (formatHasZone_cons _ _ (formatHasZone_cons _ _ (ih0 h)))

/-- a format with a real offset specifier is always classified zone-explicit -/
theorem hasOffsetSpec_imp_formatHasZone (f : List Char) (h : hasOffsetSpec f = true) :
    formatHasZone f = true := (offsetScan_sound f).1 h

/-- hence: a conversion in a round-trip finding class never had an offset specifier, and a
    zone-less classification (`TimestampFmt`, consults the configured zone) never hides one -/
theorem zoneless_has_no_offset (f : List Char) (tz : Tz)
    (h : Conversion.ofTimestampFmt f tz = .timestampFmt f tz) : hasOffsetSpec f = false := by
  cases ho : hasOffsetSpec f with
  | false => rfl
  | true =>
    have := hasOffsetSpec_imp_formatHasZone f ho
    simp [Conversion.ofTimestampFmt, this] at h

/-! ### (8) panics -/

/-- `datetime_to_utc` is the identity on the `(secs, nanos)` pair … -/
theorem datetimeToUtc_eq (i : Inst) : datetimeToUtc i = .ok i := rfl

/-- … so it never panics — for EVERY pair, the leap-second representations that `Utc.timestamp_opt`
    refuses included (it used to panic exactly when `timestampOptOk i.1 i.2 = false`). -/
theorem datetimeToUtc_no_panic (i : Inst) : datetimeToUtc i ≠ .panic := by
  simp [datetimeToUtc]

/-- inside chrono's range and with a nanosecond field below 2·10⁹, the only instants
    `Utc.timestamp_opt` refuses are the class `D_leap_offset` (the fixed finding's class: what the
    pre-83f4a4b `datetime_to_utc` panicked on) -/
theorem timestampOptOk_iff (i : Inst) (hr : chronoMinSecs ≤ i.1 ∧ i.1 ≤ chronoMaxSecs) (hn : i.2 < 2000000000) :
    timestampOptOk i.1 i.2 = true ↔ D_leap_offset i = false := by
  simp only [timestampOptOk, D_leap_offset, hr.1, hr.2, hn, decide_true, Bool.true_and]
  by_cases h : i.2 < 1000000000
  · have : ¬ (1000000000 ≤ i.2) := by omega
    simp [h, this]
  · have : 1000000000 ≤ i.2 := by omega
    simp [h, this]

theorem datetimeFromStr_no_panic {P : Type} (ch : Chrono P) (tz : Tz) (s : List Nat) (f : List Char) :
    datetimeFromStr ch tz s f ≠ .panic := by
  unfold datetimeFromStr
  split
  · simp
  · cases tz with
    | «local» => simp only; split <;> simp [datetimeToUtc]
    | named n => simp only; split <;> simp [datetimeToUtc]

theorem tryLocal_no_panic {P : Type} (ch : Chrono P) (tz : Tz) (s : List Nat) (fs : List (List Char)) :
    tryLocal ch tz s fs ≠ some .panic := by
  induction fs with
  | nil => simp [tryLocal]
  | cons f fs ih =>
    have := datetimeFromStr_no_panic ch tz s f
    simp only [tryLocal]
    split
    · simp
    · rename_i hp; exact absurd hp this
    · exact ih

theorem tryZoned_no_panic {P : Type} (ch : Chrono P) (s : List Nat) (fs : List (List Char)) :
    tryZoned ch s fs ≠ some .panic := by
  induction fs with
  | nil => simp [tryZoned]
  | cons f fs ih =>
    simp only [tryZoned]
    split
    · simp [datetimeToUtc]
    · exact ih

theorem parseTimestamp_no_panic {P : Type} (ch : Chrono P) (tz : Tz) (s : List Nat) :
    parseTimestamp ch tz s ≠ .panic := by
  unfold parseTimestamp
  split
  · rename_i r hr
    intro h; subst h
    exact tryLocal_no_panic ch tz s localFormats hr
  · split
    · simp
    · split
      · simp [datetimeToUtc]
      · split
        · simp [datetimeToUtc]
        · split
          · rename_i r hr
            intro h; subst h
            exact tryZoned_no_panic ch s tzFormats hr
          · simp

/-- FULL statement: no conversion panics — every variant, every text, every zone, and EVERY behaviour
    of the third-party parameters (no hypothesis on `ft`, `ch`). Until 83f4a4b this needed
    `ChronoSafe` (chrono hands out only instants `Utc.timestamp_opt` accepts), which the real chrono
    violates for a leap second in a zone whose UTC offset has seconds (fixed finding
    `nopanic:D_leap_offset`). -/
theorem convert_no_panic {P : Type} (ft : FloatText) (ch : Chrono P) (conv : Conversion) (s : List Nat) :
    convert ft ch conv s ≠ .panic := by
  cases conv with
  | bytes => simp [convert]
  | integer => simp only [convert]; split <;> simp
  | float =>
    simp only [convert]
    split
    · simp
    · split <;> simp
  | boolean => simp only [convert]; split <;> simp
  | timestamp tz =>
    have := parseTimestamp_no_panic ch tz s
    simp only [convert]
    cases h : parseTimestamp ch tz s <;> simp_all [tsResult]
  | timestampFmt f tz =>
    have := datetimeFromStr_no_panic ch tz s f
    simp only [convert]
    cases h : datetimeFromStr ch tz s f <;> simp_all [tsResult]
  | timestampTzFmt f =>
    simp only [convert, convertTzFmt]
    split <;> simp [datetimeToUtc, tsResult]

/-- the embedder entry point `Conversion::parse(name, tz)?.convert(bytes)` never panics
    (the Spec predicate `noPanic` of the oracle `o.c35.nopanic` holds of every model result) -/
theorem convertNamed_no_panic {P : Type} (ft : FloatText) (ch : Chrono P) (name : List Char) (tz : Tz)
    (s : List Nat) (r : ConvResult) (h : convertNamed ft ch name tz s = some r) : noPanic r = true := by
  simp only [convertNamed, Option.map_eq_some_iff] at h
  obtain ⟨cv, _, rfl⟩ := h
  simp [noPanic, convert_no_panic]

end C35
