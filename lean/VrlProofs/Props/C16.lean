/-
  C16 — reported target queries and assignments are complete.

  `queriesE` / `assignsE` (VrlModel/Lang/Info.lean) compute from the compiled tree what `compiler.rs`
  records in `ProgramInfo.target_queries` / `target_assignments` (correspondence op `lang.info`: the
  model's lists are contained in the implementation's).  Main theorem `run_covered`: for EVERY
  program, event, metadata, fault schedule and variable state, every operation the run performs on
  the target (the model's `Target` interface logs each one) is a read/removal at a path listed
  under the queries or an insert at a path listed under the assignments — *equal* paths, which is
  stronger than the "equal, ancestor or descendant" the property asks for — the only exception
  being the root check of `Runtime::resolve`, a read of the event root (an ancestor of everything).
-/
import VrlProofs.Lemmas.LogCall

namespace C16
open Lang

variable {Q A : PL}

def CovE (Q A : PL) (e : Expr) : Prop := (∀ x ∈ queriesE e, x ∈ Q) ∧ (∀ x ∈ assignsE e, x ∈ A)
def CovS (Q A : PL) (es : Exprs) : Prop := (∀ x ∈ queriesS es, x ∈ Q) ∧ (∀ x ∈ assignsS es, x ∈ A)
def CovK (Q A : PL) (k : KExprs) : Prop := (∀ x ∈ queriesK k, x ∈ Q) ∧ (∀ x ∈ assignsK k, x ∈ A)
def CovA (Q A : PL) (a : Args) : Prop := (∀ x ∈ queriesA a, x ∈ Q) ∧ (∀ x ∈ assignsA a, x ∈ A)

theorem flagged {s t : St} (h : t.log = s.log) (hs : LogOK Q A s) : LogOK Q A t := logOK_of_log_eq h hs

mutual
  theorem eval_logOK : (e : Expr) → CovE Q A e → (s : St) → LogOK Q A s → LogOK Q A (eval e s).2
    | .lit _, _, s, hs => by rw [eval]; exact hs
    | .noop, _, s, hs => by rw [eval]; exact hs
    | .var _, _, s, hs => by rw [eval]; exact hs
    | .qvar _ _, _, s, hs => by rw [eval]; exact hs
    | .grp e, h, s, hs => by
      rw [eval]; exact eval_logOK e ⟨fun x hx => h.1 x (by simpa [queriesE] using hx), fun x hx => h.2 x (by simpa [assignsE] using hx)⟩ s hs
    | .blk es, h, s, hs => by
      rw [eval]; exact evalSeq_logOK es ⟨fun x hx => h.1 x (by simpa [queriesE] using hx), fun x hx => h.2 x (by simpa [assignsE] using hx)⟩ s hs
    | .arr es, h, s, hs => by
      have := evalList_logOK es ⟨fun x hx => h.1 x (by simpa [queriesE] using hx), fun x hx => h.2 x (by simpa [assignsE] using hx)⟩ s hs
      rw [eval]
      cases hr : evalList es s with | mk r s1 => rw [hr] at this; cases r <;> exact this
    | .obj kvs, h, s, hs => by
      have := evalKVs_logOK kvs ⟨fun x hx => h.1 x (by simpa [queriesE] using hx), fun x hx => h.2 x (by simpa [assignsE] using hx)⟩ s hs
      rw [eval]
      cases hr : evalKVs kvs s with | mk r s1 => rw [hr] at this; cases r <;> exact this
    | .ifte pred thn hasElse els, h, s, hs => by
      have hp : CovS Q A pred := ⟨fun x hx => h.1 x (by simp [queriesE, hx]), fun x hx => h.2 x (by simp [assignsE, hx])⟩
      have ht : CovS Q A thn := ⟨fun x hx => h.1 x (by simp [queriesE, hx]), fun x hx => h.2 x (by simp [assignsE, hx])⟩
      have he : CovS Q A els := ⟨fun x hx => h.1 x (by simp [queriesE, hx]), fun x hx => h.2 x (by simp [assignsE, hx])⟩
      have h1 := evalSeq_logOK pred hp { s with evShort := true } (flagged rfl hs)
      rw [eval]
      cases hr : evalSeq pred { s with evShort := true } with
      | mk r s1 =>
        rw [hr] at h1
        cases r with
        | ok v =>
          cases v with
          | bool b =>
            cases b with
            | true => exact evalSeq_logOK thn ht s1 h1
            | false =>
              simp only
              split
              · exact evalSeq_logOK els he s1 h1
              · exact h1
          | _ => exact h1
        | _ => exact h1
    | .op o l r, h, s, hs => by
      have hl : CovE Q A l := ⟨fun x hx => h.1 x (by simp [queriesE, hx]), fun x hx => h.2 x (by simp [assignsE, hx])⟩
      have hr : CovE Q A r := ⟨fun x hx => h.1 x (by simp [queriesE, hx]), fun x hx => h.2 x (by simp [assignsE, hx])⟩
      cases o with
      | err =>
        have h1 := eval_logOK l hl { s with evCatch := true } (flagged rfl hs)
        rw [eval]
        cases hq : eval l { s with evCatch := true } with
        | mk r1 s1 =>
          rw [hq] at h1
          cases r1 with
          | err => exact eval_logOK r hr s1 h1
          | _ => exact h1
      | or =>
        have h1 := eval_logOK l hl { s with evShort := true } (flagged rfl hs)
        rw [eval]
        cases hq : eval l { s with evShort := true } with
        | mk r1 s1 =>
          rw [hq] at h1
          cases r1 with
          | ok v =>
            have h2 := eval_logOK r hr s1 h1
            cases v with
            | null =>
              simp only
              cases hq2 : eval r s1 with | mk r2 s2 => rw [hq2] at h2; cases r2 <;> exact h2
            | bool b =>
              cases b with
              | false =>
                simp only
                cases hq2 : eval r s1 with | mk r2 s2 => rw [hq2] at h2; cases r2 <;> exact h2
              | true => exact h1
            | _ => exact h1
          | _ => exact h1
      | and =>
        have h1 := eval_logOK l hl { s with evShort := true } (flagged rfl hs)
        rw [eval]
        cases hq : eval l { s with evShort := true } with
        | mk r1 s1 =>
          rw [hq] at h1
          cases r1 with
          | ok v =>
            have h2 := eval_logOK r hr s1 h1
            cases v with
            | null => exact h1
            | bool b =>
              cases b with
              | false => exact h1
              | true =>
                simp only
                cases hq2 : eval r s1 with | mk r2 s2 => rw [hq2] at h2; cases r2 <;> exact h2
            | _ =>
              simp only
              cases hq2 : eval r s1 with | mk r2 s2 => rw [hq2] at h2; cases r2 <;> exact h2
          | _ => exact h1
      | _ =>
        have h1 := eval_logOK l hl s hs
        rw [eval]
        · cases hq : eval l s with
          | mk r1 s1 =>
            rw [hq] at h1
            cases r1 with
            | ok v =>
              have h2 := eval_logOK r hr s1 h1
              simp only
              cases hq2 : eval r s1 with | mk r2 s2 => rw [hq2] at h2; cases r2 <;> exact h2
            | _ => exact h1
        all_goals (intro hc; cases hc)
    | .asg t e, h, s, hs => by
      have he : CovE Q A e := ⟨fun x hx => h.1 x (by simpa [queriesE] using hx), fun x hx => h.2 x (by simp [assignsE, hx])⟩
      have ht : ∀ x ∈ tgtAssign t, x ∈ A := fun x hx => h.2 x (by simp [assignsE, hx])
      have h1 := eval_logOK e he s hs
      rw [eval]
      cases hq : eval e s with
      | mk r1 s1 =>
        rw [hq] at h1
        cases r1 with
        | ok v =>
          simp only
          cases hi : t.insert v s1 with
          | none => exact h1
          | some s2 => exact logOK_tgtInsert t v s1 s2 h1 ht hi
        | _ => exact h1
    | .iasg okT errT e d, h, s, hs => by
      have he : CovE Q A e := ⟨fun x hx => h.1 x (by simpa [queriesE] using hx), fun x hx => h.2 x (by simp [assignsE, hx])⟩
      have hok : ∀ x ∈ tgtAssign okT, x ∈ A := fun x hx => h.2 x (by simp [assignsE, hx])
      have herr : ∀ x ∈ tgtAssign errT, x ∈ A := fun x hx => h.2 x (by simp [assignsE, hx])
      have h1 := eval_logOK e he { s with evCatch := true } (flagged rfl hs)
      rw [eval]
      cases hq : eval e { s with evCatch := true } with
      | mk r1 s1 =>
        rw [hq] at h1
        cases r1 with
        | ok v =>
          simp only
          cases hi : okT.insert v s1 with
          | none => exact h1
          | some s2 =>
            have h2 := logOK_tgtInsert okT v s1 s2 h1 hok hi
            simp only
            cases hi2 : errT.insert .null s2 with
            | none => exact h2
            | some s3 => exact logOK_tgtInsert errT .null s2 s3 h2 herr hi2
        | err =>
          simp only
          cases hi : okT.insert d s1 with
          | none => exact h1
          | some s2 =>
            have h2 := logOK_tgtInsert okT d s1 s2 h1 hok hi
            simp only
            cases hm : s2.errs with
            | nil => exact h2
            | cons msg rest =>
              simp only
              cases hi2 : errT.insert (.bytes msg) { s2 with errs := rest } with
              | none => exact flagged rfl h2
              | some s3 => exact logOK_tgtInsert errT _ { s2 with errs := rest } s3 (flagged (s := s2) rfl h2) herr hi2
        | _ => exact h1
    | .qext m p, h, s, hs => by
      have := logOK_targetGet (Q := Q) (A := A) s m p hs (h.1 _ (by simp [queriesE]))
      rw [eval]
      cases hq : s.targetGet m p with | mk r s1 => rw [hq] at this; exact this
    | .qexpr e p, h, s, hs => by
      have h1 := eval_logOK e ⟨fun x hx => h.1 x (by simpa [queriesE] using hx), fun x hx => h.2 x (by simpa [assignsE] using hx)⟩ s hs
      rw [eval]
      cases hq : eval e s with | mk r1 s1 => rw [hq] at h1; cases r1 <;> exact h1
    | .not e, h, s, hs => by
      have h1 := eval_logOK e ⟨fun x hx => h.1 x (by simpa [queriesE] using hx), fun x hx => h.2 x (by simpa [assignsE] using hx)⟩ s hs
      rw [eval]
      cases hq : eval e s with
      | mk r1 s1 =>
        rw [hq] at h1
        cases r1 with
        | ok v => cases v <;> exact h1
        | _ => exact h1
    | .abort hasMsg e, h, s, hs => by
      have h1 := eval_logOK e ⟨fun x hx => h.1 x (by simpa [queriesE] using hx), fun x hx => h.2 x (by simpa [assignsE] using hx)⟩ s hs
      rw [eval]
      split
      · cases hq : eval e s with
        | mk r1 s1 =>
          rw [hq] at h1
          cases r1 with
          | ok v =>
            cases v with
            | bytes b => simp only; split <;> first | exact h1 | exact flagged rfl h1
            | _ => exact h1
          | _ => exact h1
      · exact flagged rfl hs
    | .ret e, h, s, hs => by
      have h1 := eval_logOK e ⟨fun x hx => h.1 x (by simpa [queriesE] using hx), fun x hx => h.2 x (by simpa [assignsE] using hx)⟩ s hs
      rw [eval]
      cases hq : eval e s with
      | mk r1 s1 =>
        rw [hq] at h1
        cases r1 with
        | ok v => exact flagged rfl h1
        | _ => exact h1
    | .delExt m p hasC c, h, s, hs => by
      have hc : CovE Q A c := ⟨fun x hx => h.1 x (by simp [queriesE, hx]), fun x hx => h.2 x (by simpa [assignsE] using hx)⟩
      have hq : (m, p) ∈ Q := h.1 _ (by simp [queriesE])
      have h1 : LogOK Q A (if hasC then eval c s else (.ok (.bool false), s)).2 := by
        split
        · exact eval_logOK c hc s hs
        · exact hs
      rw [eval]
      cases hx : (if hasC then eval c s else (.ok (.bool false), s)) with
      | mk r1 s1 =>
        rw [hx] at h1
        cases r1 with
        | ok v =>
          cases v with
          | bool b =>
            simp only
            have := logOK_targetRemove (Q := Q) (A := A) s1 m p b h1 hq
            cases hy : s1.targetRemove m p b with | mk r2 s2 => rw [hy] at this; exact this
          | _ => exact h1
        | _ => exact h1
    | .delVar n p hasC c, h, s, hs => by
      have hc : CovE Q A c := ⟨fun x hx => h.1 x (by simpa [queriesE] using hx), fun x hx => h.2 x (by simpa [assignsE] using hx)⟩
      have h1 : LogOK Q A (if hasC then eval c s else (.ok (.bool false), s)).2 := by
        split
        · exact eval_logOK c hc s hs
        · exact hs
      rw [eval]
      cases hx : (if hasC then eval c s else (.ok (.bool false), s)) with
      | mk r1 s1 =>
        rw [hx] at h1
        cases r1 with
        | ok v =>
          cases v with
          | bool b =>
            simp only
            cases hv : s1.getVar n with
            | none => exact h1
            | some w => exact flagged rfl h1
          | _ => exact h1
        | _ => exact h1
    | .delExpr e p hasC c, h, s, hs => by
      have hc : CovE Q A c := ⟨fun x hx => h.1 x (by simp [queriesE, hx]), fun x hx => h.2 x (by simp [assignsE, hx])⟩
      have he : CovE Q A e := ⟨fun x hx => h.1 x (by simp [queriesE, hx]), fun x hx => h.2 x (by simp [assignsE, hx])⟩
      have h1 : LogOK Q A (if hasC then eval c s else (.ok (.bool false), s)).2 := by
        split
        · exact eval_logOK c hc s hs
        · exact hs
      rw [eval]
      cases hx : (if hasC then eval c s else (.ok (.bool false), s)) with
      | mk r1 s1 =>
        rw [hx] at h1
        cases r1 with
        | ok v =>
          cases v with
          | bool b =>
            simp only
            have h2 := eval_logOK e he s1 h1
            cases hy : eval e s1 with | mk r2 s2 => rw [hy] at h2; cases r2 <;> exact h2
          | _ => exact h1
        | _ => exact h1
    | .existsExt m p, h, s, hs => by
      have := logOK_targetGet (Q := Q) (A := A) s m p hs (h.1 _ (by simp [queriesE]))
      rw [eval]
      cases hq : s.targetGet m p with | mk r s1 => rw [hq] at this; exact this
    | .existsVar n p, _, s, hs => by
      rw [eval]; cases s.getVar n <;> exact hs
    | .existsExpr e p, h, s, hs => by
      have h1 := eval_logOK e ⟨fun x hx => h.1 x (by simpa [queriesE] using hx), fun x hx => h.2 x (by simpa [assignsE] using hx)⟩ s hs
      rw [eval]
      cases hq : eval e s with | mk r1 s1 => rw [hq] at h1; cases r1 <;> exact h1
    | .call name _ _ args hasClosure cvars cbody, h, s, hs => by
      have ha : CovA Q A args := ⟨fun x hx => h.1 x (by simp [queriesE, hx]), fun x hx => h.2 x (by simp [assignsE, hx])⟩
      have hb : CovS Q A cbody := ⟨fun x hx => h.1 x (by simp [queriesE, hx]), fun x hx => h.2 x (by simp [assignsE, hx])⟩
      rw [eval]
      apply logOK_callFn name _ _ (thunks_ok args ha)
      · intro vars body hcl
        split at hcl
        · cases hcl
          intro s' hs'
          exact evalSeq_logOK cbody hb s' hs'
        · cases hcl
      · split
        · exact flagged rfl hs
        · exact hs

  theorem evalSeq_logOK : (es : Exprs) → CovS Q A es → (s : St) → LogOK Q A s → LogOK Q A (evalSeq es s).2
    | .nil, _, s, hs => by rw [evalSeq]; exact hs
    | .cons e .nil, h, s, hs => by
      rw [evalSeq]
      exact eval_logOK e ⟨fun x hx => h.1 x (by simp [queriesS, hx]), fun x hx => h.2 x (by simp [assignsS, hx])⟩ s hs
    | .cons e (.cons e2 es), h, s, hs => by
      have h1 := eval_logOK e ⟨fun x hx => h.1 x (by simp [queriesS, hx]), fun x hx => h.2 x (by simp [assignsS, hx])⟩ s hs
      have ht : CovS Q A (.cons e2 es) := ⟨fun x hx => h.1 x (by simp only [queriesS] at hx ⊢; simp [hx]), fun x hx => h.2 x (by simp only [assignsS] at hx ⊢; simp [hx])⟩
      rw [evalSeq]
      · cases hq : eval e s with
        | mk r1 s1 =>
          rw [hq] at h1
          cases r1 with
          | ok v => exact evalSeq_logOK (.cons e2 es) ht s1 h1
          | _ => exact h1
      · intro hc; cases hc

  theorem evalList_logOK : (es : Exprs) → CovS Q A es → (s : St) → LogOK Q A s → LogOK Q A (evalList es s).2
    | .nil, _, s, hs => by rw [evalList]; exact hs
    | .cons e es, h, s, hs => by
      have h1 := eval_logOK e ⟨fun x hx => h.1 x (by simp [queriesS, hx]), fun x hx => h.2 x (by simp [assignsS, hx])⟩ s hs
      have ht : CovS Q A es := ⟨fun x hx => h.1 x (by simp [queriesS, hx]), fun x hx => h.2 x (by simp [assignsS, hx])⟩
      rw [evalList]
      cases hq : eval e s with
      | mk r1 s1 =>
        rw [hq] at h1
        cases r1 with
        | ok v =>
          have h2 := evalList_logOK es ht s1 h1
          simp only
          cases hq2 : evalList es s1 with | mk r2 s2 => rw [hq2] at h2; cases r2 <;> exact h2
        | _ => exact h1

  theorem evalKVs_logOK : (k : KExprs) → CovK Q A k → (s : St) → LogOK Q A s → LogOK Q A (evalKVs k s).2
    | .nil, _, s, hs => by rw [evalKVs]; exact hs
    | .cons key e kes, h, s, hs => by
      have h1 := eval_logOK e ⟨fun x hx => h.1 x (by simp [queriesK, hx]), fun x hx => h.2 x (by simp [assignsK, hx])⟩ s hs
      have ht : CovK Q A kes := ⟨fun x hx => h.1 x (by simp [queriesK, hx]), fun x hx => h.2 x (by simp [assignsK, hx])⟩
      rw [evalKVs]
      cases hq : eval e s with
      | mk r1 s1 =>
        rw [hq] at h1
        cases r1 with
        | ok v =>
          have h2 := evalKVs_logOK kes ht s1 h1
          simp only
          cases hq2 : evalKVs kes s1 with | mk r2 s2 => rw [hq2] at h2; cases r2 <;> exact h2
        | _ => exact h1

  theorem thunks_ok : (as : Args) → CovA Q A as → ArgsOK Q A (thunks as)
    | .nil, _ => by intro k t hm; simp [thunks] at hm
    | .cons kw e as, h => by
      intro k t hm
      rw [thunks] at hm
      rcases List.mem_cons.mp hm with e1 | e1
      · cases e1
        intro s hs
        exact eval_logOK e ⟨fun x hx => h.1 x (by simp [queriesA, hx]), fun x hx => h.2 x (by simp [assignsA, hx])⟩ s hs
      · exact thunks_ok as ⟨fun x hx => h.1 x (by simp [queriesA, hx]), fun x hx => h.2 x (by simp [assignsA, hx])⟩ k t e1
end

/-- Main theorem: every target operation of a run is covered — reads and removals by the reported
    queries (plus the event root for the root check of `Runtime::resolve`), inserts by the
    reported assignments — for every program, state and fault schedule. -/
theorem run_covered (prog : Exprs) (s : St) (hlog : s.log = []) :
    LogOK ((false, []) :: queriesS prog) (assignsS prog) (run prog s).2 := by
  have h0 : LogOK ((false, []) :: queriesS prog) (assignsS prog) s := by
    intro a ha; rw [hlog] at ha; cases ha
  have h1 := logOK_tick (Q := (false, []) :: queriesS prog) (A := assignsS prog) s 0 false [] h0
    (by intro rej; simp [accIn])
  unfold run
  cases ht : s.tick 0 false [] with
  | mk rej s1 =>
    rw [ht] at h1
    simp only
    split
    · exact h1
    · have h2 := evalSeq_logOK (Q := (false, []) :: queriesS prog) (A := assignsS prog) prog
        ⟨fun x hx => List.mem_cons_of_mem _ hx, fun x hx => hx⟩ s1 h1
      cases hr : evalSeq prog s1 with | mk r s2 => rw [hr] at h2; cases r <;> exact h2

end C16
