/-
  C34 — unused-expression warnings only flag removable code.

  Semantic core (all programs, all states): an expression of the syntactically effect-free,
  target-free fragment `pureE` (literals, variable reads, strict operators, `!`, array/object
  literals and calls of pure functions over such expressions) leaves the WHOLE state untouched
  whatever it evaluates to (`pure_state`), so a discarded statement of that fragment can be deleted
  from a block without changing outcome, event, metadata or variables (`delete_statement`), and if
  it can fail, deleting it can only turn a failing run into the run of the rest
  (`delete_failing_statement`).  That the real checker (`unused_expression_checker.rs`, on the
  parser's AST) only flags removable code is checked on the implementation: every flagged span
  is replaced by `null`, the program recompiled and both versions run (`o.c34`).  Known finding
  `D_effect_in_flagged`: an unused object literal or call is flagged although its members /
  arguments assign or delete.
-/
import VrlProofs.Lemmas.Pure
import VrlProofs.Lemmas.PureRet
import VrlModel.C34

namespace C34
open Lang

mutual
  theorem pure_state : (e : Expr) → pureE e = true → ∀ s, (eval e s).2 = s
    | .lit _, _, s => by rw [eval]
    | .noop, _, s => by rw [eval]
    | .var _, _, s => by rw [eval]
    | .qvar _ _, _, s => by rw [eval]
    | .existsVar n _, _, s => by rw [eval]; cases s.getVar n <;> rfl
    | .grp e, h, s => by rw [eval]; exact pure_state e (by simpa [pureE] using h) s
    | .not e, h, s => by
      have h1 := pure_state e (by simpa [pureE] using h) s
      rw [eval]
      cases hq : eval e s with
      | mk r s1 =>
        rw [hq] at h1
        cases r with
        | ok v => cases v <;> exact h1
        | _ => exact h1
    | .qexpr e _, h, s => by
      have h1 := pure_state e (by simpa [pureE] using h) s
      rw [eval]
      cases hq : eval e s with | mk r s1 => rw [hq] at h1; cases r <;> exact h1
    | .existsExpr e _, h, s => by
      have h1 := pure_state e (by simpa [pureE] using h) s
      rw [eval]
      cases hq : eval e s with | mk r s1 => rw [hq] at h1; cases r <;> exact h1
    | .arr es, h, s => by
      have h1 := pureList_state es (by simpa [pureE] using h) s
      rw [eval]
      cases hq : evalList es s with | mk r s1 => rw [hq] at h1; cases r <;> exact h1
    | .obj kvs, h, s => by
      have h1 := pureKVs_state kvs (by simpa [pureE] using h) s
      rw [eval]
      cases hq : evalKVs kvs s with | mk r s1 => rw [hq] at h1; cases r <;> exact h1
    | .op o l r, h, s => by
      simp only [pureE, Bool.and_eq_true] at h
      obtain ⟨⟨ho, hl⟩, hr⟩ := h
      have h1 := pure_state l hl s
      cases o <;> simp [plainOp] at ho
      all_goals
        rw [eval]
        · cases hq : eval l s with
          | mk r1 s1 =>
            rw [hq] at h1
            simp only at h1
            subst h1
            cases r1 with
            | ok v =>
              have h2 := pure_state r hr s1
              simp only
              cases hq2 : eval r s1 with | mk r2 s2 => rw [hq2] at h2; cases r2 <;> exact h2
            | _ => rfl
        all_goals (intro hc; cases hc)
    | .call name _ _ args hasClosure _ _, h, s => by
      simp only [pureE, Bool.and_eq_true, Bool.not_eq_true'] at h
      obtain ⟨⟨_, hc⟩, ha⟩ := h
      subst hc
      rw [eval]
      simp only [Bool.false_eq_true, ↓reduceIte]
      exact callFn_stable name _ (pureArgs_stable args ha) s
    | .blk _, h, _ => by simp [pureE] at h
    | .ifte _ _ _ _, h, _ => by simp [pureE] at h
    | .asg _ _, h, _ => by simp [pureE] at h
    | .iasg _ _ _ _, h, _ => by simp [pureE] at h
    | .qext _ _, h, _ => by simp [pureE] at h
    | .abort _ _, h, _ => by simp [pureE] at h
    | .ret _, h, _ => by simp [pureE] at h
    | .delExt _ _ _ _, h, _ => by simp [pureE] at h
    | .delVar _ _ _ _, h, _ => by simp [pureE] at h
    | .delExpr _ _ _ _, h, _ => by simp [pureE] at h
    | .existsExt _ _, h, _ => by simp [pureE] at h

  theorem pureList_state : (es : Exprs) → pureS es = true → ∀ s, (evalList es s).2 = s
    | .nil, _, s => by rw [evalList]
    | .cons e es, h, s => by
      simp only [pureS, Bool.and_eq_true] at h
      have h1 := pure_state e h.1 s
      rw [evalList]
      cases hq : eval e s with
      | mk r1 s1 =>
        rw [hq] at h1
        simp only at h1
        subst h1
        cases r1 with
        | ok v =>
          have h2 := pureList_state es h.2 s1
          simp only
          cases hq2 : evalList es s1 with | mk r2 s2 => rw [hq2] at h2; cases r2 <;> exact h2
        | _ => rfl

  theorem pureKVs_state : (k : KExprs) → pureK k = true → ∀ s, (evalKVs k s).2 = s
    | .nil, _, s => by rw [evalKVs]
    | .cons key e kes, h, s => by
      simp only [pureK, Bool.and_eq_true] at h
      have h1 := pure_state e h.1 s
      rw [evalKVs]
      cases hq : eval e s with
      | mk r1 s1 =>
        rw [hq] at h1
        simp only at h1
        subst h1
        cases r1 with
        | ok v =>
          have h2 := pureKVs_state kes h.2 s1
          simp only
          cases hq2 : evalKVs kes s1 with | mk r2 s2 => rw [hq2] at h2; cases r2 <;> exact h2
        | _ => rfl

  theorem pureArgs_stable : (as : Args) → pureA as = true → ∀ k t, (k, t) ∈ thunks as → Stable t
    | .nil, _, k, t, hm => by simp [thunks] at hm
    | .cons kw e as, h, k, t, hm => by
      simp only [pureA, Bool.and_eq_true] at h
      rw [thunks] at hm
      rcases List.mem_cons.mp hm with e1 | e1
      · cases e1
        intro s
        exact pure_state e h.1 s
      · exact pureArgs_stable as h.2 k t e1
end

/-- a discarded effect-free statement that succeeds can be deleted: the rest of the block gives the
    same outcome, event, metadata and variables (the states are literally equal). -/
theorem delete_statement (e : Expr) (es : Exprs) (s : St) (v : Value) (hp : pureE e = true)
    (hne : es ≠ .nil) (hok : (eval e s).1 = .ok v) : evalSeq (.cons e es) s = evalSeq es s := by
  have hs := pure_state e hp s
  cases es with
  | nil => exact absurd rfl hne
  | cons e2 es2 =>
    rw [evalSeq]
    · cases hq : eval e s with
      | mk r s1 => rw [hq] at hs hok; simp only at hs hok; subst hs; subst hok; rfl
    · intro hc; cases hc

/-- if it fails instead, the block ends there with the state unchanged: deleting the statement can
    only replace that failure by the run of the rest — on runs where the original succeeds the
    final event is the same. -/
theorem delete_failing_statement (e : Expr) (es : Exprs) (s : St) (hp : pureE e = true)
    (hne : es ≠ .nil) (hf : ∀ v, (eval e s).1 ≠ .ok v) :
    evalSeq (.cons e es) s = ((eval e s).1, s) := by
  have hs := pure_state e hp s
  cases es with
  | nil => exact absurd rfl hne
  | cons e2 es2 =>
    rw [evalSeq]
    · cases hq : eval e s with
      | mk r s1 =>
        rw [hq] at hs hf; simp only at hs hf; subst hs
        cases r with
        | ok v => exact absurd rfl (hf v)
        | _ => rfl
    · intro hc; cases hc

/-- non-vacuity: `[x, 1 + 2]` is in the fragment; `{ "a": (.x = 1) }` is not. -/
example : pureE (.arr (.cons (.var "x") (.cons (.op .add (.lit (.int 1)) (.lit (.int 2))) .nil))) = true := by decide
example : pureE (.obj (.cons [97] (.asg (.external false [.field [120]]) (.lit (.int 1))) .nil)) = false := by decide

/-! ### the Spec predicate of the oracle (`VrlModel/C34.lean`) holds of the model for the proved fragment -/

def obsOfRun (r : RunOutcome × St) : Obs :=
  ⟨(match r.1 with | .ok _ => true | _ => false), r.2.event, r.2.metadata⟩

theorem removable_refl (b : Bool) (o : Obs) : removable b o o = true := by
  unfold removable; cases o.ok <;> simp

/-- deleting a discarded effect-free statement that succeeds: the two runs satisfy the Spec with
    `mayFail = false`, whatever state (event, metadata, variables, faults) it is reached in. -/
theorem head_removable (e : Expr) (es : Exprs) (s : St) (v : Value) (hp : pureE e = true)
    (hne : es ≠ .nil) (hok : (eval e (s.tick 0 false []).2).1 = .ok v) :
    removable false (obsOfRun (run (.cons e es) s)) (obsOfRun (run es s)) = true := by
  have h := delete_statement e es (s.tick 0 false []).2 v hp hne hok
  have : run (.cons e es) s = run es s := by
    unfold run
    simp only [h]
  rw [this]
  exact removable_refl _ _

/-- … and for one that may fail the Spec holds with `mayFail = true`: a successful original run is
    reproduced (a pure statement never `return`s, `pure_no_ret`, so a successful original run is a
    run in which the statement succeeded). -/
theorem head_removable_mayfail (e : Expr) (es : Exprs) (s : St) (hp : pureE e = true) (hne : es ≠ .nil) :
    removable true (obsOfRun (run (.cons e es) s)) (obsOfRun (run es s)) = true := by
  by_cases hok : ∃ v, (eval e (s.tick 0 false []).2).1 = .ok v
  · obtain ⟨v, hv⟩ := hok
    have h := delete_statement e es (s.tick 0 false []).2 v hp hne hv
    have : run (.cons e es) s = run es s := by
      unfold run
      simp only [h]
    rw [this]
    exact removable_refl _ _
  · have hf : ∀ v, (eval e (s.tick 0 false []).2).1 ≠ .ok v := fun v hv => hok ⟨v, hv⟩
    have h := delete_failing_statement e es (s.tick 0 false []).2 hp hne hf
    have hnr := pure_no_ret e hp (s.tick 0 false []).2
    unfold removable obsOfRun run
    simp only [h]
    cases hr : (s.tick 0 false []).1 <;> simp
    cases hq : (eval e (s.tick 0 false []).2).1 with
    | ok v => exact absurd hq (hf v)
    | ret v => exact absurd hq (hnr v)
    | _ => simp

end C34
