/-
  C30 — Datadog search queries round-trip through their text form.
  Model: VrlModel/Search/{Node,Lucene,Grammar,Visitor,NF}.lean — `QueryNode::to_lucene`,
  `lucene_escape`, `quoted_escape`, `unescape`, `ComparisonValue::{from, to_lucene}`, the pest grammar
  (as a recursive-descent parser with pest's semantics) and the `QueryVisitor`; tied to the code by
  the `c30.parse` / `c30.lucene` / `c30.f64` correspondence ops.

  (1) parse_toLucene_of_NF     for every tree in normal form (any shape, any depth, any strings),
                               parsing its printed text gives the tree back        — all `t`, all `F`
  (2) roundtrip_partial        the property: if the parser accepts `q` and the tree it builds is in
                               normal form, printing and re-parsing yields the same tree
      The unrestricted statement is false of the code (witnesses in VrlProofs/Witness/C30.lean);
      the hypothesis is exactly "no listed defect": `nf_iff_noDefect`.
  (3) nf_iff_noDefect          `NFRoot t ↔ rootDefect t = none` — the finding classes are the
                               complement of the normal form
  (4) unescape_luceneEscape / unescape_quotedEscape     `unescape` inverts both escapes — all strings
  (5) parse_never_panics       since /repo 21ebbb7 no query text makes the parser/visitor panic
                               (before, `f:[1 TO 2}` did)                           — all `q`, all `F`

  `F` (float parsing/printing of Rust `core`) is a parameter; no law about it is assumed: the normal
  form asks, per numeric leaf, that the printed number is a `NUMERIC_TERM` / `RANGE_VALUE` converting
  back to the same value (`numTextOK`, `rangeBoundOK` are decidable checks that run `F`).
-/
import VrlProofs.Lemmas.SearchWildcard

namespace C30
open Search

/-- (1) Normal-form trees are fixed points of `parse ∘ to_lucene`. Proved by structural recursion on
    the tree (Boolean skeleton: Lemmas/SearchSkeleton.lean; leaves: SearchLeaves / SearchWildcard). -/
theorem parse_toLucene_of_NF (F : FloatLib) (t : QNode) (h : NFRoot F t = true) :
    parse F (t.toLucene F) = .ok t :=
  roundtrip_of_leaves F (leafGood_of_NF F) t h

/-- (2) The round-trip property on the normal-form fragment. -/
theorem roundtrip_partial (F : FloatLib) (q : Str) (t : QNode) (hq : parse F q = .ok t)
    (hnf : NFRoot F t = true) : parse F (t.toLucene F) = parse F q := by
  rw [hq]; exact parse_toLucene_of_NF F t hnf

/-- (4) `unescape` inverts `lucene_escape` … -/
theorem unescape_luceneEscape (s : Str) : unescape (luceneEscape s) = s := Search.unescape_luceneEscape s

/-- … and `quoted_escape`. -/
theorem unescape_quotedEscape (s : Str) : unescape (quotedEscape s) = s := Search.unescape_quotedEscape s

/-! ### (5) no panic -/

theorem visitValue_ok (F : FloatLib) (f : Str) (v : Grammar.PValue) : ∃ n, visitValue F f v = .ok n := by
  cases v <;> simp only [visitValue] <;> (try split) <;> (try split) <;> exact ⟨_, rfl⟩

mutual
  theorem visitClause_ok (F : FloatLib) : (c : Grammar.PClause) → (df : Str) → ∃ n, visitClause F c df = .ok n
    | .matchall, _ => ⟨_, rfl⟩
    | .value fld v, df => by rw [visitClause]; exact visitValue_ok F _ v
    | .group fld q, df => by rw [visitClause]; exact visitItems_ok F q _ _ _
  theorem visitItems_ok (F : FloatLib) : (q : Grammar.PItems) → (df : Str) → (st : VState) → (b : Bool) →
      ∃ n, visitItems F q df st b = .ok n
    | .nil, _, _, _ => ⟨_, rfl⟩
    | .multiterm ts rest, df, st, b => by rw [visitItems]; exact visitItems_ok F rest _ _ _
    | .clause cj md c rest, df, st, b => by
      rw [visitItems]
      obtain ⟨n, hn⟩ := visitClause_ok F c df
      simp only [hn]
      exact visitItems_ok F rest _ _ _
end

/-- (5) The parser never panics (the mixed-bracket panic of `visit_clause` is repaired). -/
theorem parse_never_panics (F : FloatLib) (q : Str) : parse F q ≠ .panic := by
  unfold parse
  split
  · simp
  · split
    · simp
    · simp
    · rename_i items _ _
      obtain ⟨n, hn⟩ := visitItems_ok F items defaultField ⟨[], []⟩ false
      simp [visitQuery, hn]

/-! ### (3) the defects are the complement of the normal form -/

/-- no flag of the list is raised -/
def clear (l : List (Bool × Defect)) : Bool := l.all (fun p => !p.1)

theorem firstDefect_none_iff (l : List (Bool × Defect)) : firstDefect l = none ↔ clear l = true := by
  induction l with
  | nil => simp [firstDefect, clear]
  | cons p l ih =>
    obtain ⟨b, d⟩ := p
    cases b <;> simp_all [firstDefect, clear]

theorem clear_nil : clear [] = true := rfl
theorem clear_cons (b : Bool) (d : Defect) (l : List (Bool × Defect)) : clear ((b, d) :: l) = (!b && clear l) := rfl
theorem clear_append (l1 l2 : List (Bool × Defect)) : clear (l1 ++ l2) = (clear l1 && clear l2) := by
  simp [clear, List.all_append]

theorem clear_raw (a : Str) :
    clear [(a.isEmpty, Defect.emptyString), (!rawTermChars a || kwStart a, .attrUnescaped)] =
      rawTermOK a := by
  simp only [clear_cons, clear_nil, rawTermOK]
  cases a.isEmpty <;> cases rawTermChars a <;> cases kwStart a <;> rfl

theorem clear_attr (a : Str) : clear (attrDefects a) = attrOK a := by
  by_cases h : a = defaultField
  · simp [attrDefects, attrOK, h, clear_nil]
  · simp only [attrDefects, h, if_false, attrOK, clear_raw, decide_false, Bool.false_or]

theorem clear_esc (v : Str) : clear (escTermDefects v) = escTermOK v := by
  simp only [escTermDefects, clear_cons, clear_nil, escTermOK]
  cases v.isEmpty <;> cases hasBlank v <;> rfl

theorem clear_cmp (F : FloatLib) (cv : CV) : clear (cvDefectsCmp F cv) = cmpValueOK F cv := by
  cases cv with
  | unbounded => rfl
  | str s =>
    simp only [cvDefectsCmp, cmpValueOK, clear_append, clear_esc, clear_cons, clear_nil]
    cases escTermOK s <;> cases kwStart s <;> cases numStart s <;> rfl
  | int i => simp [cvDefectsCmp, cmpValueOK, clear_cons, clear_nil]
  | float b => simp [cvDefectsCmp, cmpValueOK, clear_cons, clear_nil]

theorem clear_range (F : FloatLib) (cv : CV) : clear (cvDefectsRange F cv) = rangeValueOK F cv := by
  cases cv with
  | unbounded => rfl
  | str s =>
    simp only [cvDefectsRange, rangeValueOK, clear_cons, clear_nil]
    cases s.isEmpty <;> cases hasWs s <;> cases rangeBoundOK F (.str s) <;> rfl
  | int i => simp [cvDefectsRange, rangeValueOK, clear_cons, clear_nil]
  | float b => simp [cvDefectsRange, rangeValueOK, clear_cons, clear_nil]

theorem clear_leaf (F : FloatLib) (l : Leaf) : clear (leafDefects F l) = NFLeaf F l := by
  cases l with
  | matchAll => rfl
  | matchNone => rfl
  | exists_ a => simp only [leafDefects, NFLeaf, clear_raw]
  | missing a => simp only [leafDefects, NFLeaf, clear_raw]
  | range a lo li hi ui =>
    simp only [leafDefects, NFLeaf, clear_append, clear_attr, clear_range, Bool.and_assoc]
  | comparison a c v =>
    simp only [leafDefects, NFLeaf, clear_append, clear_attr, clear_cmp]
  | term a v =>
    simp only [leafDefects, NFLeaf, clear_append, clear_attr, clear_esc, clear_cons, clear_nil, notReserved]
    cases attrOK a <;> cases escTermOK v <;> cases kwStart v <;>
      cases (decide (a = existsField) || decide (a = missingField)) <;> rfl
  | quoted a p =>
    simp only [leafDefects, NFLeaf, clear_append, clear_attr, clear_cons, clear_nil, notReserved]
    cases attrOK a <;> cases (decide (a = existsField) || decide (a = missingField)) <;> rfl
  | pfx a p =>
    simp only [leafDefects, NFLeaf, clear_append, clear_attr, clear_esc, clear_cons, clear_nil]
    cases attrOK a <;> cases escTermOK p <;> cases (decide (a = defaultField) && kwStart p) <;> rfl
  | wildcard a w =>
    simp only [leafDefects, NFLeaf, wildcardOK, clear_append, clear_attr, clear_cons, clear_nil]
    cases attrOK a <;> cases w.isEmpty <;> cases rawGlobChars w <;>
      cases (w.any isGlobChar || kwStart w) <;> cases prefixShape w <;>
      cases (decide (a = defaultField) && (w == ['*'] || kwStart w || qmarkAfterPlain w)) <;> rfl

theorem leafDefect_none_iff (F : FloatLib) (l : Leaf) : leafDefect F l = none ↔ NFLeaf F l = true := by
  rw [leafDefect, firstDefect_none_iff, clear_leaf]

theorem orElse_none (a b : Option Defect) : orElse a b = none ↔ a = none ∧ b = none := by
  cases a <;> simp [orElse]

mutual
  theorem defectOf_none_iff (F : FloatLib) : (t : QNode) → (defectOf F t = none ↔ NF F t = true)
    | .leaf l => by simpa [defectOf, NF] using leafDefect_none_iff F l
    | .neg n => by
      have ih := defectOf_none_iff F n
      simp only [defectOf, NF, orElse_none, Bool.and_eq_true, Bool.not_eq_true', ih]
      cases isMatchAll n <;> simp
    | .bool op ns => by
      have ih := defectOfList_none_iff F op ns
      simp only [defectOf, NF, orElse_none, Bool.and_eq_true, decide_eq_true_eq, ih]
      by_cases h : ns.length < 2
      · simp [h]; omega
      · simp [h]; omega
  theorem defectOfList_none_iff (F : FloatLib) (op : BoolOp) :
      (ns : QList) → (defectOfList F op ns = none ↔ NFList F op ns = true)
    | .nil => by simp [defectOfList, NFList]
    | .cons n ns => by
      have ih1 := defectOfItem_none_iff F op n
      have ih2 := defectOfList_none_iff F op ns
      simp only [defectOfList, NFList, orElse_none, Bool.and_eq_true, ih1, ih2]
  theorem defectOfItem_none_iff (F : FloatLib) (op : BoolOp) :
      (n : QNode) → (defectOfItem F op n = none ↔ NFItem F op n = true)
    | .leaf l => by simpa [defectOfItem, NFItem] using leafDefect_none_iff F l
    | .neg n => by
      have ih := defectOf_none_iff F n
      simp only [defectOfItem, NFItem, orElse_none, Bool.and_eq_true, Bool.not_eq_true', ih]
      cases op <;> cases h : n.isNeg <;> simp [h]
    | .bool op' ns => by
      have ih := defectOfList_none_iff F op' ns
      simp only [defectOfItem, NFItem, orElse_none, Bool.and_eq_true, decide_eq_true_eq, ih]
      by_cases h : ns.length < 2
      · simp [h]; omega
      · simp [h]; omega
end

/-- (3) a query tree is in normal form exactly when it has none of the listed defects: the finding
    classes of C30 are the complement of the fragment `parse_toLucene_of_NF` covers. -/
theorem nf_iff_noDefect (F : FloatLib) (t : QNode) : NFRoot F t = true ↔ rootDefect F t = none := by
  unfold NFRoot rootDefect
  by_cases h : t = .leaf .matchNone
  · simp [h]
  · simp only [h, decide_false, Bool.false_or, if_false, orElse_none, Bool.and_eq_true, Bool.not_eq_true',
      defectOf_none_iff]
    cases ((t.toLucene F).all isUnicodeWs) <;> simp

end C30
