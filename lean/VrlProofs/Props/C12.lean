/-
  C12 – compile-time constant knowledge matches run-time values.

  `Lang.constOf` models `Expression::resolve_constant` (literals, variables with a recorded constant
  `Details.value`, paths into them, groups, array/object literals of constants, `+ - * /` on numeric
  constants); `Lang.typeInfo` models how `Details.value` flows (assignment, `Details::merge`,
  `apply_child_scope`). `Lang.Conforms s T` says every variable with a recorded constant holds it.

  (1) `constant_value` — NO side condition: in every run-time state that inhabits the type state, an
      expression with a constant evaluates to exactly that constant and leaves the state alone.
  (2) That `Conforms` (in particular "recorded constants are right") is preserved by evaluation is
      part of C01's induction (`C01.sound_partial`); it needs the side conditions: the code records
      constants that are wrong after a half-executed operand (`D_err_partial_effects`), and
      `Details::merge` keeps `0.0` for `-0.0` (`D_const_signed_zero`): VrlProofs/Witness/C12.lean.
      A constant that survived `del(x…)` (`D_const_after_del`) is repaired (6af54e3: `DelFn::type_info`
      re-inserts the variable without a constant; `Lang.delVarUpdate`, `C12.W.fixed_const_after_del`).
  (3) The decisions taken from constants are valid: `divisor_constant_sound` (the divisor of a `/`
      typed infallible is the non-zero constant), `or_and_constant_sound` (a boolean constant lhs).
-/
import VrlProofs.Lemmas.TypeSound

namespace C12
open Lang Spec

/-- **constants are values**: `resolve_constant(e) = Some(c)` ⇒ `e` evaluates to `c` (bit for bit),
    changing nothing, in every state that inhabits the type state. -/
theorem constant_value (e : Expr) (T : TState) (c : Value) (h : constOf e T = some c) (s : St)
    (hc : Conforms s T) : ∃ s', eval e s = (.ok c, s') ∧ s'.vars = s.vars ∧ s'.event = s.event ∧
      s'.metadata = s.metadata := by
  obtain ⟨s', h1, h2⟩ := const_eval e T c h s hc
  exact ⟨s', h1, h2.1, h2.2.1, h2.2.2.1⟩

/-- the full statement for programs: after evaluating `e`, every recorded constant of the new type
    state is the value of its variable (part of `Conforms`). Proved under `safe`. -/
theorem constants_preserved_partial (e : Expr) (T : TState) (h : safe e T = true) (s s' : St) (v : Value)
    (hc : Conforms s T) (he : eval e s = (.ok v, s')) (n : String) (d : Details) (c : Value)
    (hd : (typeInfo e T).2.getVar n = some d) (hv : d.value = some c) : s'.getVar n = some c := by
  have := eval_sound e T s (allNan_of_all h) hc
  rw [he] at this
  obtain ⟨w, h1, _, _, h4⟩ := this.2.2.vars n d hd
  rw [h1, h4 c hv]

/-- the constant recorded by an assignment (taken in the state *after* the right-hand side) is the
    value assigned -/
theorem assignment_constant (e : Expr) (T : TState) (s s1 : St) (v c : Value) (hc : Conforms s T)
    (he : eval e s = (.ok v, s1)) (h : constOf e (typeInfo e T).2 = some c) : v = c :=
  asg_const hc he c h

/-- **the constant-divisor rule**: when `/` is typed infallible the divisor evaluates to the non-zero
    constant the compiler saw, so the division cannot fail with "divide by zero". -/
theorem divisor_constant_sound (r : Expr) (T : TState) (l : TypeDef) (s s' : St) (w : Value)
    (hc : Conforms s T) (hd : divInfallible l (constOf r T) = true) (he : eval r s = (.ok w, s')) :
    (∃ i, w = .int i ∧ i ≠ 0) ∨ (∃ b, w = .float b ∧ F64.eq b 0 = false) := by
  unfold divInfallible at hd
  simp only [Bool.and_eq_true] at hd
  cases hcst : constOf r T with
  | none => rw [hcst] at hd; simp at hd
  | some c =>
    obtain ⟨s1, h1, _⟩ := const_eval r T c hcst s hc
    rw [he] at h1
    cases h1
    rw [hcst] at hd
    cases w <;> simp at hd
    · exact Or.inl ⟨_, rfl, hd.2⟩
    · exact Or.inr ⟨_, rfl, isNormal_ne_zero _ hd.2⟩

/-- **the constant-lhs shortcut of `||` / `&&`**: a boolean constant lhs is the run-time value -/
theorem or_and_constant_sound (l : Expr) (T : TState) (b : Bool) (s : St) (hc : Conforms s T)
    (h : optValueEq (constOf l T) (some (.bool b)) = true) : ∃ s', eval l s = (.ok (.bool b), s') := by
  obtain ⟨s', h1, _⟩ := const_eval l T _ (optValueEq_some_bool h) s hc
  exact ⟨s', h1⟩

end C12
