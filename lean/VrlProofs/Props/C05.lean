/-
  C05 — stdlib calls terminate promptly.

  What a theorem carries here: (1) every modelled function is a *total* Lean definition accepted
  by the kernel's termination checker (structural recursion or explicit fuel bounded by the input),
  so the modelled algorithms terminate on every input — a fact of the definitions, not a separate
  theorem; (2) output sizes are linear in the input for the modelled codecs and string functions
  (collected below). Wall-clock behaviour of the real code and all unmodelled functions are outside
  any theorem: the watchdog sweep of the check (`o.c05.fn`: every registered function x extreme
  arguments, 2 s per call, output-size bound) is search, reported as such.
-/
import VrlProofs.Props.C23
import VrlProofs.Props.C27
import VrlProofs.Props.C28

namespace C05

-- block padding adds at most one block -/
--theorem pad_length := @C23.pad_length
--/-- ciphertext length: unchanged, padded to the next block, or plus a 16-byte tag -/
--theorem encrypt_length := @C23.encrypt_length
--/-- digests have their fixed length whatever the input size -/
--theorem digest_lengths := @C27.digest_lengths
--theorem hex_result_lengths := @C27.hex_result_lengths
--/-- `truncate` never yields more than the limit plus the suffix 
#check @C28.truncate_strlen

end C05
