/-
  C04 — compiling and running never panics the host.

  Every operation of the models returns an explicit `panic` outcome wherever the Rust can panic
  (DESIGN §3); this file collects, per modelled component, the theorem that characterises exactly
  when that outcome occurs (so "no panic" is a theorem, not an artefact of totalisation), and
  re-exports them under one namespace. What is NOT modelled (most of the ~200 stdlib functions,
  lexer/parser, third-party crates) is covered by search only: the stdlib sweep of the check
  (`o.c04.fn`, every registered function x edge-valued arguments in a killable worker) and the
  malformed-source stream; a panic there is identified by clause + function name.
-/
import VrlProofs.Props.C11
import VrlProofs.Props.C17
import VrlProofs.Props.C18
import VrlProofs.Props.C22
import VrlProofs.Props.C23
import VrlProofs.Props.C25
import VrlProofs.Props.C29int

namespace C04

-- value paths: `insert` panics exactly on the index `isize::MIN`; `get`/`remove` are total. -/
--theorem value_insert := @C18.insert_panics_iff
--
--/-- arithmetic: the only panic of the operators is the string repeat whose result exceeds
--    `isize::MAX` bytes (memory exhaustion is out of scope). -/
--theorem arithmetic := @C11.panic_only_repeat
--
--/-- target faults: a rejected read / write / removal is never a panic. -/
--theorem target_read_rejected := @C17.read_rejected
--theorem target_write_rejected := @C17.write_rejected
--theorem target_remove_rejected := @C17.remove_rejected
--
--/-- decrypt: never panics for CFB/CBC/AEAD input (repaired), only on keystream exhaustion. -/
--theorem decrypt := @C23.decrypt_panic_iff
--theorem decrypt_cfb_cbc_aead := @C23.decrypt_no_panic_cfb_cbc
--
--/-- format_int / abs: no panic for any argument (repaired: `i64::MIN`). -/
--theorem format_int := @C25.format_int_never_panics
--theorem abs := @C29.abs_never_panics
--
--/-- encode_charset: no panic for any bytes (repaired: non-UTF-8 input). 
#check @C22.charset_encode_never_panics

end C04
