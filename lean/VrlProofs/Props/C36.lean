/-
  C36 — Results are independent of the configured timezone where they should be.

  What is proved here and what is not (read this first):

  * The language model `Lang.run` (Lang/Eval.lean) takes NO timezone. `TzModel.runTz` is that model
    with the zone parameter of `Runtime::resolve`; `run_tz_independent` is therefore true by
    construction (`rfl`). It is a STRUCTURAL fact about the model, not evidence about the code.
  * What makes the structural fact honest is that the modelled stdlib subset contains no function
    that reads `ctx.timezone()`: `modelled_functions_not_readers` (every function `Lang.fnParams`
    knows is outside the hand-written list `TzModel.tzReaders`) and `reader_call_oom` (a call to a
    listed reader makes the model answer `oom` = "outside the model", never a guessed value).
  * The decidable syntactic statement: `inModel_tzFree` — a program all of whose calls are modelled
    calls no reader (is in the tz-free fragment `tzFree`), and `tzFree_callStd`: for calls outside
    the list, stdlib dispatch with the zone (`callStd`, readers as arbitrary parameters) does not
    depend on the zone or on the readers' behaviour.
  * For the main reader, `parse_timestamp`, the glue of stdlib/parse_timestamp.rs is modelled over
    the C35 conversion model and the two documented escape conditions are proved:
    `parseTimestampFn_timezone_arg` (explicit `timezone:` argument) and
    `parseTimestampFn_zoned_format` (zone-explicit format ⇒ the text's own offset decides).
  * The CONTENT of C36 — that no function outside `tzReaders` depends on the configured zone, and
    that explicit offsets / `timezone:` arguments win for the listed ones — is the BEHAVIOURAL check
    `o.c36` on the real implementation (every stdlib function's examples and synthesised calls, and
    generated programs, under pairs of configured zones): sampling, not proof. Its verdict function
    `TzModel.verdict` is the one characterised by `verdict_auto`.
-/
import VrlModel.Tz

namespace C36
open Lang TzModel

/-- the hand-written list, pinned (an edit of `tzReaders` must be made here too) -/
theorem tzReaderNames_eq : tzReaderNames =
    ["parse_timestamp", "parse_syslog", "parse_linux_authorization", "parse_apache_log", "parse_common_log", "parse_nginx_log",
     "get_timezone_name"] := by
  simp [tzReaderNames, tzReaders]

/-- the modelled stdlib subset contains no tz reader -/
theorem modelled_functions_not_readers (f : String) (h : (fnParams f).isSome = true) :
    isTzReader f = false := by
  unfold fnParams at h
  split at h <;> simp_all [isTzReader, tzReaderNames, tzReaders]

/-- a call to a listed reader is outside the model (`oom`), whatever its arguments -/
theorem reader_call_oom (f : String) (h : isTzReader f = true) (args : List (Option String × Thunk))
    (cl : Option (List String × Thunk)) (s : St) : callFn f args cl s = (.oom, s) := by
  cases hp : fnParams f with
  | none => unfold callFn; simp [hp]
  | some ps =>
    have := modelled_functions_not_readers f (by simp [hp])
    simp [this] at h

/-- SYNTACTIC: a program whose calls are all modelled is in the tz-free fragment -/
theorem inModel_tzFree (prog : Exprs) (h : inModel prog = true) : tzFree prog = true := by
  simp only [inModel, tzFree, List.all_eq_true] at *
  intro f hf
  simp [modelled_functions_not_readers f (h f hf)]

/-- STRUCTURAL (by construction): the language model does not take the zone -/
theorem run_tz_independent (tz₁ tz₂ : Cnv.Tz) (prog : Exprs) (s : St) :
    runTz tz₁ prog s = runTz tz₂ prog s := rfl

/-- stdlib dispatch with the zone: outside `tzReaders` neither the zone nor the (arbitrary)
    behaviour of the readers can influence the result -/
theorem tzFree_callStd (rd₁ rd₂ : ReaderImpl) (tz₁ tz₂ : Cnv.Tz) (name : String)
    (args : List (Option Value)) (h : isTzReader name = false) :
    callStd rd₁ tz₁ name args = callStd rd₂ tz₂ name args := by
  simp [callStd, h]

/-- on the modelled subset the dispatch with the zone IS the model's dispatch -/
theorem callStd_modelled (rd : ReaderImpl) (tz : Cnv.Tz) (name : String) (args : List (Option Value))
    (h : (fnParams name).isSome = true) : callStd rd tz name args = purFn name args := by
  simp [callStd, modelled_functions_not_readers name h]

/-! ### `parse_timestamp`: the two documented escape conditions -/

/-- an explicit `timezone:` argument replaces the configured zone -/
theorem parseTimestampFn_timezone_arg {P : Type} (ft : Cnv.FloatText) (ch : Cnv.Chrono P)
    (ctx₁ ctx₂ z : Cnv.Tz) (v : List Nat) (f : List Char) :
    parseTimestampFn ft ch ctx₁ v f (some z) = parseTimestampFn ft ch ctx₂ v f (some z) := rfl

/-- a zone-explicit format: the configured zone (and the `timezone:` argument) are not consulted -/
theorem parseTimestampFn_zoned_format {P : Type} (ft : Cnv.FloatText) (ch : Cnv.Chrono P)
    (ctx₁ ctx₂ : Cnv.Tz) (a₁ a₂ : Option Cnv.Tz) (v : List Nat) (f : List Char)
    (h : Cnv.formatHasZone f = true) :
    parseTimestampFn ft ch ctx₁ v f a₁ = parseTimestampFn ft ch ctx₂ v f a₂ := by
  simp [parseTimestampFn, Cnv.Conversion.ofTimestampFmt, h]

/-- otherwise the wall-clock text is interpreted in the effective zone (argument, else configured) -/
theorem parseTimestampFn_zoneless {P : Type} (ft : Cnv.FloatText) (ch : Cnv.Chrono P)
    (ctx : Cnv.Tz) (a : Option Cnv.Tz) (v : List Nat) (f : List Char)
    (h : Cnv.formatHasZone f = false) :
    parseTimestampFn ft ch ctx v f a =
      Cnv.tsResult .timestampParse (Cnv.datetimeFromStr ch (a.getD ctx) v f) := by
  simp [parseTimestampFn, Cnv.Conversion.ofTimestampFmt, h, Cnv.convert]

/-! ### the oracle's verdict -/

/-- mode `auto` on deterministic cases: a difference between two configured zones is a failure
    exactly when the program calls no listed reader -/
theorem verdict_auto (calls : List String) (equal : Bool) :
    verdict "auto" calls true equal = .failsTz ↔ (equal = false ∧ calls.all (fun f => !isTzReader f) = true) := by
  have h1 : ("auto" == "explicit") = false := by decide
  have h2 : ("auto" == "sensitive") = false := by decide
  cases equal <;> simp [verdict, h1, h2]

theorem verdict_explicit (calls : List String) (equal : Bool) :
    verdict "explicit" calls true equal = .holds ↔ equal = true := by
  cases equal <;> simp [verdict]

end C36
