/-
  C31 — Datadog search matching follows the query semantics.
  Model: VrlModel/Search/Match.lean (`build_matcher`, `Filter::range`, `VrlFilter`, `normalize_fields`,
  the JIT path parser, `string_value`), tied to the real `match_datadog_query` by the `c31.match` /
  `c31.path` correspondence ops.  Reference semantics: VrlModel/Search/MatchSpec.lean.
  All theorems are for every environment `E` (regex engine, float printing, … are parameters),
  every query tree and every event — no vocabulary or size bound.

  (1) match_not / match_and / match_or     Boolean nodes are the logical operations on the outcomes
                                           of their children (errors: the first failing child wins)
  (2) match_formula                        any Boolean skeleton evaluates as its truth function
  (3) range_*                              a range = lower comparison ∧ upper comparison per field;
                                           unbounded sides drop out; both unbounded = existence
  (4) matches_spec_partial                 `match_datadog_query` = the reference semantics on every
                                           leaf kind (existence, term, phrase, prefix, wildcard,
                                           comparison, range) and every field kind (tag, attribute,
                                           reserved, default) — for queries without an existence test
                                           of the reserved field `tags`, the one remaining deviating
                                           leaf shape (witness in VrlProofs/Witness/C31.lean);
                                           comparisons and ranges on tags are covered since the repair
                                           /repo d99b562 (`comparison_spec`)
  (5) wildcard_is_glob / word_is_glob      with the law "the regex engine decides the two compiled
                                           shapes like the reference glob matcher" as hypothesis
-/
import VrlProofs.Lemmas.SearchMatch

namespace C31
open Search Search.Spec

/-! ### outcome algebra -/

def notOut : MatchOut → MatchOut
  | .ok b => .ok (!b)
  | .err => .err
  | .panic => .panic

/-- the outcomes of the children, left to right: the first failure wins -/
def seqOut : List MatchOut → Build (List Bool)
  | [] => .ok []
  | .ok b :: r => (match seqOut r with
    | .ok bs => .ok (b :: bs)
    | .err => .err
    | .panic => .panic)
  | .err :: _ => .err
  | .panic :: _ => .panic

def outOf : Build Bool → MatchOut
  | .ok b => .ok b
  | .err => .err
  | .panic => .panic

def allOut (l : List MatchOut) : MatchOut := outOf ((seqOut l).map fun bs => bs.all id)
def anyOut (l : List MatchOut) : MatchOut := outOf ((seqOut l).map fun bs => bs.any id)

def andOut (a b : MatchOut) : MatchOut := allOut [a, b]

/-- outcomes of the children of a Boolean node on an event -/
def childOutcomes (E : Env) (qs : QList) (e : Value) : List MatchOut :=
  qs.toList.map fun q => matchQuery E q e

theorem matchQuery_eq (E : Env) (q : QNode) (e : Value) :
    matchQuery E q e = outOf ((build E q).map fun m => m e) := by
  unfold matchQuery
  cases build E q <;> rfl

theorem seqOut_children (E : Env) (e : Value) : (qs : QList) →
    seqOut (childOutcomes E qs e) = (buildList E qs).map fun ms => ms.map fun m => m e
  | .nil => rfl
  | .cons q qs => by
    have ih := seqOut_children E e qs
    simp only [childOutcomes, QList.toList, List.map] at ih ⊢
    rw [buildList]
    cases hb : build E q with
    | ok m =>
      have hq : matchQuery E q e = .ok (m e) := by simp [matchQuery, hb]
      simp only [hq, seqOut]
      rw [ih]
      cases buildList E qs <;> rfl
    | err =>
      have hq : matchQuery E q e = .err := by simp [matchQuery, hb]
      simp only [hq, seqOut]
      rfl
    | panic =>
      have hq : matchQuery E q e = .panic := by simp [matchQuery, hb]
      simp only [hq, seqOut]
      rfl

/-- (1a) negation is logical negation of the child's verdict -/
theorem match_not (E : Env) (q : QNode) (e : Value) :
    matchQuery E (.neg q) e = notOut (matchQuery E q e) := by
  unfold matchQuery
  rw [build]
  cases build E q <;> rfl

/-- (1b) `AND` holds exactly when every child holds -/
theorem match_and (E : Env) (qs : QList) (e : Value) :
    matchQuery E (.bool .and qs) e = allOut (childOutcomes E qs e) := by
  unfold allOut
  rw [seqOut_children, matchQuery_eq, build]
  cases buildList E qs with
  | ok ms => simp [Build.map, outOf, allM, List.all_map]
  | err => rfl
  | panic => rfl

/-- (1c) `OR` holds exactly when some child holds -/
theorem match_or (E : Env) (qs : QList) (e : Value) :
    matchQuery E (.bool .or qs) e = anyOut (childOutcomes E qs e) := by
  unfold anyOut
  rw [seqOut_children, matchQuery_eq, build]
  cases buildList E qs with
  | ok ms => simp [Build.map, outOf, anyM, List.any_map]
  | err => rfl
  | panic => rfl

/-- (1b') in Boolean terms: when every child builds, `AND` = `∀ child` -/
theorem match_and_ok (E : Env) (qs : QList) (e : Value) (bs : List Bool)
    (h : childOutcomes E qs e = bs.map MatchOut.ok) :
    matchQuery E (.bool .and qs) e = .ok (bs.all id) := by
  rw [match_and, h]
  have : ∀ l : List Bool, seqOut (l.map MatchOut.ok) = .ok l := by
    intro l; induction l with
    | nil => rfl
    | cons b l ih => simp [seqOut, ih]
  simp [allOut, this, outOf]

theorem match_or_ok (E : Env) (qs : QList) (e : Value) (bs : List Bool)
    (h : childOutcomes E qs e = bs.map MatchOut.ok) :
    matchQuery E (.bool .or qs) e = .ok (bs.any id) := by
  rw [match_or, h]
  have : ∀ l : List Bool, seqOut (l.map MatchOut.ok) = .ok l := by
    intro l; induction l with
    | nil => rfl
    | cons b l ih => simp [seqOut, ih]
  simp [anyOut, this, outOf]

/-- (2) every Boolean skeleton (NOT / AND / OR / juxtaposition, any nesting) evaluates as its truth
    function of the verdicts of its atoms — the identity `o.c31 skel` checks on the implementation. -/
theorem match_formula (E : Env) (atoms : Nat → QNode) (val : Nat → Bool) (e : Value)
    (h : ∀ i, matchQuery E (atoms i) e = .ok (val i)) :
    (fm : Fm) → matchQuery E (fm.toQuery atoms) e = .ok (fm.eval val)
  | .atom i => h i
  | .not f => by
    rw [Fm.toQuery, match_not, match_formula E atoms val e h f]; rfl
  | .and f g => by
    rw [Fm.toQuery, match_and_ok E _ e [f.eval val, g.eval val]]
    · simp [Fm.eval]
    · simp [childOutcomes, QList.toList, match_formula E atoms val e h f, match_formula E atoms val e h g]
  | .juxt f g => by
    rw [Fm.toQuery, match_and_ok E _ e [f.eval val, g.eval val]]
    · simp [Fm.eval]
    · simp [childOutcomes, QList.toList, match_formula E atoms val e h f, match_formula E atoms val e h g]
  | .or f g => by
    rw [Fm.toQuery, match_or_ok E _ e [f.eval val, g.eval val]]
    · simp [Fm.eval]
    · simp [childOutcomes, QList.toList, match_formula E atoms val e h f, match_formula E atoms val e h g]

/-! ### (3) ranges -/

/-- a range with two bounds is built from exactly two comparisons, conjoined -/
theorem range_two_compares (E : Env) (f : Field) (lo : CV) (li : Bool) (hi : CV) (ui : Bool)
    (h1 : lo ≠ .unbounded) (h2 : hi ≠ .unbounded) (m : Matcher)
    (h : filterRange E f lo li hi ui = .ok m) :
    ∃ lower upper, filterCompare E f (lowerOp li) lo = .ok lower ∧
      filterCompare E f (upperOp ui) hi = .ok upper ∧ ∀ e, m e = (lower e && upper e) := by
  rw [filterRange_bounded E f lo li hi ui h1 h2] at h
  unfold bothM at h
  cases hl : filterCompare E f (lowerOp li) lo with
  | ok lower =>
    cases hu : filterCompare E f (upperOp ui) hi with
    | ok upper =>
      simp only [hl, hu] at h
      cases h
      exact ⟨lower, upper, rfl, rfl, fun _ => rfl⟩
    | err => simp [hl, hu] at h
    | panic => simp [hl, hu] at h
  | err => simp [hl] at h
  | panic => simp [hl] at h

/-- an unbounded lower side drops out … -/
theorem range_lower_unbounded (E : Env) (f : Field) (li : Bool) (hi : CV) (ui : Bool) (h2 : hi ≠ .unbounded) :
    filterRange E f .unbounded li hi ui = filterCompare E f (upperOp ui) hi :=
  filterRange_lower_unbounded E f li hi ui h2

/-- … and so does an unbounded upper side; … -/
theorem range_upper_unbounded (E : Env) (f : Field) (lo : CV) (li : Bool) (ui : Bool) (h1 : lo ≠ .unbounded) :
    filterRange E f lo li .unbounded ui = filterCompare E f (lowerOp li) lo :=
  filterRange_upper_unbounded E f lo li ui h1

/-- … `[* TO *]` is existence. -/
theorem range_unbounded (E : Env) (a : Str) (li ui : Bool) (e : Value) :
    matchQuery E (.leaf (.range a .unbounded li .unbounded ui)) e = matchQuery E (.leaf (.exists_ a)) e := rfl

/-- For an attribute that resolves to a single field (everything but the default field), the range
    node is the conjunction of the two comparison nodes — the identity `o.c31 range` checks. -/
theorem match_range_single (E : Env) (a : Str) (f : Field) (lo : CV) (li : Bool) (hi : CV) (ui : Bool)
    (e : Value) (hf : normalizeFields a = [f]) (h1 : lo ≠ .unbounded) (h2 : hi ≠ .unbounded) :
    matchQuery E (.leaf (.range a lo li hi ui)) e =
      andOut (matchQuery E (.leaf (.comparison a (lowerOp li) lo)) e)
             (matchQuery E (.leaf (.comparison a (upperOp ui) hi)) e) := by
  unfold matchQuery
  simp only [build, buildLeaf, hf, Build.mapM]
  rw [filterRange_bounded E f lo li hi ui h1 h2]
  unfold bothM
  cases filterCompare E f (lowerOp li) lo with
  | ok l =>
    cases filterCompare E f (upperOp ui) hi with
    | ok u => simp [andOut, allOut, seqOut, outOf, Build.map, anyM]
    | err => rfl
    | panic => rfl
  | err => rfl
  | panic => rfl

/-! ### (4) the implementation against the reference semantics -/

theorem leaf_refines (E : Env) (l : Leaf) (h2 : leafExistsTags l = false) :
    Refines (buildLeaf E l) (checkLeaf l) (leafHolds E l) := by
  cases l with
  | matchAll => exact ⟨_, rfl, fun _ => rfl⟩
  | matchNone => exact ⟨_, rfl, fun _ => rfl⟩
  | exists_ a =>
    have hx : ∀ f ∈ normalizeFields a, isTagsReserved f = false := by
      intro f hf
      simp only [leafExistsTags, List.any_eq_false] at h2
      simpa using h2 f hf
    exact anyFields_refines _ _ _ (fun f hf => exists_refines E f (hx f hf))
  | missing a =>
    have hx : ∀ f ∈ normalizeFields a, isTagsReserved f = false := by
      intro f hf
      simp only [leafExistsTags, List.any_eq_false] at h2
      simpa using h2 f hf
    have hm := mapM_refines (fun f => (filterExists E f).map Search.notM) (fun f e => !existsRef E f e)
      (normalizeFields a) (fun f hf => by
        have := exists_refines E f (hx f hf)
        unfold FieldRefines at this ⊢
        cases hl : lookupField f with
        | ok p =>
          simp only [hl] at this ⊢
          obtain ⟨m, em, rm⟩ := this
          exact ⟨Search.notM m, by simp [em], fun e => by simp [Search.notM, rm]⟩
        | err => simp only [hl] at this ⊢; simp [this]
        | panic => simp only [hl] at this ⊢; simp [this])
    show Refines ((Build.mapM _ (normalizeFields a)).map allM) (checkFields (normalizeFields a)) _
    unfold Refines
    cases hc : checkFields (normalizeFields a) with
    | ok u =>
      simp only [hc] at hm
      obtain ⟨ms, ems, rms⟩ := hm
      exact ⟨allM ms, by simp [ems], fun e => by
        simp only [leafHolds]
        exact all_map_eq ms _ _ e (rms e)⟩
    | err => simp only [hc] at hm; simp [hm]
    | panic => simp only [hc] at hm; simp [hm]
  | term a v => exact anyFields_refines _ _ _ (fun f _ => equals_refines E f v)
  | quoted a v => exact anyFields_refines _ _ _ (fun f _ => equals_refines E f v)
  | pfx a p => exact anyFields_refines _ _ _ (fun f _ => prefix_refines E f p)
  | wildcard a w => exact anyFields_refines _ _ _ (fun f _ => wildcard_refines E f w)
  | comparison a c v => exact anyFields_refines _ _ _ (fun f _ => compare_refines E f c v)
  | range a lo li hi ui =>
    apply anyFields_refines
    intro f hf
    apply range_refines
    · by_cases hb : lo = .unbounded ∧ hi = .unbounded
      · left
        simp only [leafExistsTags] at h2
        have : (normalizeFields a).any isTagsReserved = false := by
          obtain ⟨hlo, hhi⟩ := hb
          simp_all
        simp only [List.any_eq_false] at this
        simpa using this f hf
      · exact Or.inr hb

/-- no deviating leaf in a list of children -/
def noDevL (ns : QList) : Bool := !anyLeafL leafExistsTags ns

mutual
  /-- the node-level refinement, by structural recursion on the query tree -/
  theorem build_refines (E : Env) : (q : QNode) → noDev q = true →
      Refines (build E q) (check q) (holds E q)
    | .leaf l, h => by
      have h' : leafExistsTags l = false := by
        simpa [noDev, devExistsTags, anyLeaf] using h
      simpa [build, check, holds] using leaf_refines E l h'
    | .neg n, h => by
      have hn : noDev n = true := by simpa [noDev, devExistsTags, anyLeaf] using h
      have ih := build_refines E n hn
      unfold Refines at ih ⊢
      simp only [check, build]
      cases hc : check n with
      | ok u =>
        simp only [hc] at ih
        obtain ⟨m, em, rm⟩ := ih
        exact ⟨Search.notM m, by simp [em], fun e => by simp [Search.notM, rm, holds]⟩
      | err => simp only [hc] at ih; simp [ih]
      | panic => simp only [hc] at ih; simp [ih]
    | .bool op ns, h => by
      have hn : noDevL ns = true := by simpa [noDev, noDevL, devExistsTags, anyLeaf] using h
      have ih := buildList_refines E ns hn
      unfold Refines
      simp only [check]
      cases hc : checkList ns with
      | ok u =>
        simp only [hc] at ih
        obtain ⟨ms, ems, rall, rany⟩ := ih
        cases op with
        | and => exact ⟨allM ms, by simp [build, ems], fun e => by simp [allM, rall, holds]⟩
        | or => exact ⟨anyM ms, by simp [build, ems], fun e => by simp [anyM, rany, holds]⟩
      | err => simp only [hc] at ih; cases op <;> simp [build, ih]
      | panic => simp only [hc] at ih; cases op <;> simp [build, ih]
  theorem buildList_refines (E : Env) : (ns : QList) → noDevL ns = true →
      match checkList ns with
      | .ok _ => ∃ ms, buildList E ns = .ok ms ∧ (∀ e, ms.all (fun m => m e) = holdsAll E ns e) ∧
          (∀ e, ms.any (fun m => m e) = holdsAny E ns e)
      | .err => buildList E ns = .err
      | .panic => buildList E ns = .panic
    | .nil, _ => ⟨[], rfl, fun _ => rfl, fun _ => rfl⟩
    | .cons n ns, h => by
      have hh : noDev n = true ∧ noDevL ns = true := by
        simp only [noDevL, anyLeafL, noDev, devExistsTags] at h ⊢
        cases h2 : anyLeaf leafExistsTags n <;> simp_all
      have ih1 := build_refines E n hh.1
      have ih2 := buildList_refines E ns hh.2
      unfold Refines at ih1
      simp only [checkList]
      cases hc : check n with
      | ok u =>
        simp only [hc] at ih1 ⊢
        obtain ⟨m, em, rm⟩ := ih1
        cases hcl : checkList ns with
        | ok u2 =>
          simp only [hcl] at ih2 ⊢
          obtain ⟨ms, ems, rall, rany⟩ := ih2
          exact ⟨m :: ms, by simp [buildList, em, ems],
            fun e => by simp [rm, rall, holdsAll], fun e => by simp [rm, rany, holdsAny]⟩
        | err => simp only [hcl] at ih2 ⊢; simp [buildList, em, ih2]
        | panic => simp only [hcl] at ih2 ⊢; simp [buildList, em, ih2]
      | err => simp only [hc] at ih1 ⊢; simp [buildList, ih1]
      | panic => simp only [hc] at ih1 ⊢; simp [buildList, ih1]
end

/-- (4) `match_datadog_query` decides a query on an event exactly as the reference semantics does
    (same verdict, same compile-time rejection), for every query without an existence test of the
    reserved field `tags`.  Without that hypothesis the statement is false of the code:
    `witness_exists_tags`.  (Comparisons on tags were a second exclusion until /repo d99b562.) -/
theorem matches_spec_partial (E : Env) (q : QNode) (e : Value) (h : noDev q = true) :
    matchQuery E q e = Spec.run E q e := by
  have := build_refines E q h
  unfold Refines at this
  unfold matchQuery Spec.run
  cases hc : check q with
  | ok u =>
    simp only [hc] at this
    obtain ⟨m, em, rm⟩ := this
    simp [em, rm]
  | err => simp only [hc] at this; simp [this]
  | panic => simp only [hc] at this; simp [this]

/-- every comparison — on a tag, attribute, reserved or default field — is decided as the reference
    semantics says; on a tag `k` only the values of the elements `k:value` are compared
    (`Spec.tagValues`).  Unconditional since /repo d99b562. -/
theorem comparison_spec (E : Env) (a : Str) (c : Cmp) (v : CV) (e : Value) :
    matchQuery E (.leaf (.comparison a c v)) e = Spec.run E (.leaf (.comparison a c v)) e :=
  matches_spec_partial E _ e rfl

/-- a range with at least one bound, on any field, likewise -/
theorem range_spec (E : Env) (a : Str) (lo : CV) (li : Bool) (hi : CV) (ui : Bool) (e : Value)
    (h : ¬ (lo = .unbounded ∧ hi = .unbounded)) :
    matchQuery E (.leaf (.range a lo li hi ui)) e = Spec.run E (.leaf (.range a lo li hi ui)) e := by
  apply matches_spec_partial
  simp only [noDev, devExistsTags, anyLeaf, leafExistsTags, Bool.not_eq_true', Bool.and_eq_false_iff,
    decide_eq_false_iff_not]
  by_cases h1 : lo = .unbounded
  · right; intro h2; exact h ⟨h1, h2⟩
  · left; right; exact h1

theorem holdsAll_eq (E : Env) (e : Value) : (ns : QList) →
    holdsAll E ns e = ns.toList.all (fun n => holds E n e)
  | .nil => rfl
  | .cons n ns => by simp [holdsAll, QList.toList, holdsAll_eq E e ns]

theorem holdsAny_eq (E : Env) (e : Value) : (ns : QList) →
    holdsAny E ns e = ns.toList.any (fun n => holds E n e)
  | .nil => rfl
  | .cons n ns => by simp [holdsAny, QList.toList, holdsAny_eq E e ns]

/-- the reference semantics is compositional by definition; stated for the record -/
theorem spec_and (E : Env) (ns : QList) (e : Value) :
    holds E (.bool .and ns) e = ns.toList.all (fun n => holds E n e) := by
  rw [holds]; exact holdsAll_eq E e ns

theorem spec_or (E : Env) (ns : QList) (e : Value) :
    holds E (.bool .or ns) e = ns.toList.any (fun n => holds E n e) := by
  rw [holds]; exact holdsAny_eq E e ns

theorem spec_not (E : Env) (n : QNode) (e : Value) : holds E (.neg n) e = !holds E n e := by
  rw [holds]

/-! ### (5) the regex engine law -/

/-- the law assumed of the regex engine for the two shapes vrl compiles -/
structure EngineLaw (E : Env) : Prop where
  wild : ∀ p h, E.R.wild p h = Glob.wild p h
  word : ∀ p h, E.R.word p h = Glob.word p h

/-- under the engine law a wildcard on an attribute is the reference glob match of the wildcard
    against the attribute's text -/
theorem wildcard_is_glob (E : Env) (hE : EngineLaw E) (p : Str) (w : Str) (e : Value) :
    wildcardRef E (.attr p) w e =
      match valueAt (.attr p) e with
      | some x => Glob.wild (utf8 w) (stringValue E x)
      | none => false := by
  simp only [wildcardRef, hE.wild]
  cases valueAt (.attr p) e <;> rfl

/-- under the engine law a term on a default field is a word-boundary match (`*` is a wildcard) -/
theorem word_is_glob (E : Env) (hE : EngineLaw E) (p : Str) (v : Str) (e : Value) :
    equalsRef E (.default p) v e =
      match valueAt (.default p) e with
      | some (.bytes b) => Glob.word (utf8 v) (E.lossy b)
      | _ => false := by
  simp only [equalsRef, hE.word]
  cases valueAt (.default p) e with
  | none => rfl
  | some x => cases x <;> rfl

end C31
