/-
  C23 — encryption round-trips for every algorithm.

  The theorems are about `VrlModel.Crypt` (vrl's glue in encrypt.rs / decrypt.rs / encrypt_ip.rs /
  decrypt_ip.rs); the ciphers themselves are parameters (`Prims`, `IpPrims`) and their round-trip
  laws are the explicit hypotheses `Prims.Lawful` / `IpPrims.Lawful` (sampled on the real crates by
  the `o.c23*` ops). Everything vrl owns is proved for all inputs:

    * the algorithm tables of `encrypt`, `decrypt` and `is_valid_algorithm` agree on every byte string;
    * the key/IV size checks are the same on both sides and come before any cipher runs;
    * the four block paddings are reversible for every message length and every ISO 10126 filler;
    * hence `decrypt (encrypt p) = p` for every algorithm, with the predicted ciphertext length;
    * `decrypt` panics exactly when an AEAD rejects its input (finding `D_aead_reject`);
    * `decrypt_ip (encrypt_ip a) = a` outside three decidable finding classes, each of which is a
      real counterexample (VrlProofs/Witness/C23.lean).
-/
import VrlProofs.Lemmas.Crypt

namespace Crypt

/-! ## Hypotheses on the primitives -/

/-- Round-trip and length laws of the third-party ciphers, for keys and IVs of the required sizes. -/
structure Prims.Lawful (P : Prims) : Prop where
  cfb_rt : ∀ ks k iv p, k.length = ks.bytes → iv.length = 16 →
    P.cfbDec ks k iv (P.cfbEnc ks k iv p) = p
  cfb_len : ∀ ks k iv p, k.length = ks.bytes → iv.length = 16 →
    (P.cfbEnc ks k iv p).length = p.length
  /-- applying the same keystream twice is the identity -/
  keystream_rt : ∀ a k iv p c, a.isKeystream = true → k.length = keyLen a → iv.length = ivLen a →
    P.keystream a k iv p = some c → P.keystream a k iv c = some p
  keystream_len : ∀ a k iv p c, a.isKeystream = true → k.length = keyLen a → iv.length = ivLen a →
    P.keystream a k iv p = some c → c.length = p.length
  /-- raw CBC over whole blocks -/
  cbc_rt : ∀ ks k iv b, k.length = ks.bytes → iv.length = 16 → b.length % 16 = 0 →
    P.cbcDec ks k iv (P.cbcEnc ks k iv b) = b
  cbc_len : ∀ ks k iv b, k.length = ks.bytes → iv.length = 16 → b.length % 16 = 0 →
    (P.cbcEnc ks k iv b).length = b.length
  aead_rt : ∀ a k iv p c, a.isAead = true → k.length = keyLen a → iv.length = ivLen a →
    P.aeadEnc a k iv p = some c → P.aeadDec a k iv c = some p
  /-- every AEAD here appends a 16-byte tag -/
  aead_len : ∀ a k iv p c, a.isAead = true → k.length = keyLen a → iv.length = ivLen a →
    P.aeadEnc a k iv p = some c → c.length = p.length + 16

/-- The ciphers do not fail on *encryption* (true of the real crates below their message-length
    limits of 2^36 bytes and more; the failure is an `expect`/`unwrap` panic in vrl). -/
structure Prims.EncTotal (P : Prims) : Prop where
  keystream_some : ∀ a k iv p, a.isKeystream = true → k.length = keyLen a → iv.length = ivLen a →
    P.keystream a k iv p ≠ none
  aead_some : ∀ a k iv p, a.isAead = true → k.length = keyLen a → iv.length = ivLen a →
    P.aeadEnc a k iv p ≠ none

end Crypt

namespace C23
open Crypt

/-! ## The name tables -/

/-- `encrypt` and `decrypt` map every byte string to the same cipher (or both reject it). -/
theorem tables_agree (name : Bytes) : algOfEncrypt name = algOfDecrypt name := by
  unfold algOfEncrypt algOfDecrypt
  rw [encryptArms_eq_decryptArms]

/-- the compile-time check `is_valid_algorithm` accepts exactly the names the run-time `match`es know. -/
theorem valid_iff_listed (name : Bytes) : isValidAlgorithm name = (algOfEncrypt name).isSome := by
  rw [Bool.eq_iff_iff]
  unfold isValidAlgorithm algOfEncrypt
  rw [lookupArms_isSome, List.contains_iff_mem]
  exact ⟨validNames_sub name, validNames_sup name⟩

/-- 32 accepted names, no name listed twice (so no arm is shadowed). -/
theorem names_nodup : (encryptArms.flatMap (·.1)).Nodup ∧ (encryptArms.flatMap (·.1)).length = 32 := by
  decide

/-- the names are ASCII upper case / digits / `-`: the upper-casing of `resolve` is idempotent on them. -/
theorem names_upper_ascii :
    ∀ n ∈ encryptArms.flatMap (·.1), ∀ b ∈ n, (65 ≤ b ∧ b ≤ 90) ∨ (48 ≤ b ∧ b ≤ 57) ∨ b = 45 := by
  decide

/-! ## Key / IV checks -/

/-- `encrypt` fails with an error exactly when the shared pre-check does, with that error. -/
theorem encrypt_err_iff (P : Prims) (name key iv pt : Bytes) (e : Err) :
    encrypt P name key iv pt = .err e ↔ precheck name key iv = some e := by
  unfold encrypt precheck
  cases h : algOfEncrypt name with
  | none => simp
  | some a =>
    cases hs : checkSizes a key iv with
    | some e' => simp [hs]
    | none =>
      simp only [hs]
      cases a <;> simp [encryptWith, orPanic_ne_err]

/-- `decrypt` reports the same pre-check error as `encrypt`, whatever the ciphertext. -/
theorem decrypt_err_of_precheck (P : Prims) (name key iv ct : Bytes) (e : Err)
    (h : precheck name key iv = some e) : decrypt P name key iv ct = .err e := by
  unfold precheck at h
  unfold decrypt
  rw [← tables_agree]
  cases ha : algOfEncrypt name with
  | none => simp [ha] at h; simp [h]
  | some a =>
    simp only [ha] at h
    simp [h]

/-- …and any other error of `decrypt` is "Invalid input" from a CBC algorithm. -/
theorem decrypt_err_cases (P : Prims) (name key iv ct : Bytes) (e : Err)
    (h : decrypt P name key iv ct = .err e) :
    precheck name key iv = some e ∨
      (precheck name key iv = none ∧ e = .invalidInput ∧ ∃ ks s, algOfDecrypt name = some (.cbc ks s)) := by
  unfold decrypt at h
  unfold precheck
  rw [tables_agree]
  cases ha : algOfDecrypt name with
  | none => simp [ha] at h; simp [h]
  | some a =>
    simp only [ha] at h
    cases hs : checkSizes a key iv with
    | some e' => simp [hs] at h; simp [hs, h]
    | none =>
      simp only [hs] at h
      right
      cases a <;> simp [decryptWith, orPanic_ne_err] at h
      case cbc ks s =>
        refine ⟨hs, ?_, ks, s, rfl⟩
        split at h
        · split at h
          · simp at h
          · simp at h; exact h.symm
        · simp at h; exact h.symm

/-! ## Padding -/

/-- **Padding round trip**: every scheme, every filler, every message (all lengths, all residues
    modulo 16; no enumeration). -/
theorem unpad_pad (s : Pad) (fill : Filler) (msg : Bytes) :
    unpadBlocks s (pad s fill msg) = some msg :=
  unpadBlocks_pad s fill msg

/-- the padded buffer is the next multiple of 16 strictly above the message length. -/
theorem pad_length (s : Pad) (fill : Filler) (msg : Bytes) :
    (pad s fill msg).length = (msg.length / 16 + 1) * 16 :=
  Crypt.pad_length s fill msg

/-- with the pinned crate's filler, ISO 10126 padding is byte-for-byte PKCS#7 padding. -/
theorem iso10126_impl_is_pkcs7 (fill : Filler) (msg : Bytes) :
    pad .iso10126 implFill msg = pad .pkcs7 fill msg := by
  have h : msg.length % 16 < 16 := Nat.mod_lt _ (by decide)
  rw [pad_eq, pad_eq]
  congr 1
  simp only [padBytes]
  have : ∀ n, 0 < n → (List.range (n - 1)).map (fun _ => n) ++ [n] = List.replicate n n := by
    intro n hn
    obtain ⟨m, rfl⟩ : ∃ m, n = m + 1 := ⟨n - 1, by omega⟩
    simp [List.replicate_succ', List.map_const']
  have hn : 0 < 16 - msg.length % 16 := by omega
  exact this _ hn

/-! ## The round trip -/

/-- **C23 (symmetric ciphers)**: whenever `encrypt` returns a ciphertext, `decrypt` with the same
    algorithm name, key and IV returns the plaintext. No assumption on the name, the sizes or the
    plaintext; the only hypotheses are the primitives' own round-trip laws. -/
theorem decrypt_encrypt (P : Prims) (hL : P.Lawful) (name key iv pt c : Bytes)
    (h : encrypt P name key iv pt = .ok c) : decrypt P name key iv c = .ok pt := by
  unfold encrypt at h
  unfold decrypt
  rw [← tables_agree]
  cases ha : algOfEncrypt name with
  | none => simp [ha] at h
  | some a =>
    simp only [ha] at h ⊢
    cases hs : checkSizes a key iv with
    | some e => simp [hs] at h
    | none =>
      simp only [hs] at h ⊢
      obtain ⟨hk, hi⟩ := (checkSizes_none_iff a key iv).mp hs
      cases a with
      | cfb ks =>
        simp only [encryptWith, Res.ok.injEq] at h
        subst h
        simp only [decryptWith]
        rw [hL.cfb_rt ks key iv pt hk hi]
      | ofb ks =>
        simp only [encryptWith, orPanic_eq_ok] at h
        simp only [decryptWith, orPanic_eq_ok]
        exact hL.keystream_rt _ key iv pt c rfl hk hi h
      | ctrLE ks =>
        simp only [encryptWith, orPanic_eq_ok] at h
        simp only [decryptWith, orPanic_eq_ok]
        exact hL.keystream_rt _ key iv pt c rfl hk hi h
      | ctrBE ks =>
        simp only [encryptWith, orPanic_eq_ok] at h
        simp only [decryptWith, orPanic_eq_ok]
        exact hL.keystream_rt _ key iv pt c rfl hk hi h
      | cbc ks s =>
        simp only [encryptWith, Res.ok.injEq] at h
        subst h
        have hp : (pad s P.fill pt).length % 16 = 0 := by rw [Crypt.pad_length]; omega
        have hl := hL.cbc_len ks key iv _ hk hi hp
        simp only [decryptWith]
        rw [if_neg (by rw [hl, hp]; simp), hL.cbc_rt ks key iv _ hk hi hp, unpadBlocks_pad]
      | siv128 =>
        simp only [encryptWith, orPanic_eq_ok] at h
        simp only [decryptWith, orPanic_eq_ok]
        exact hL.aead_rt _ key iv pt c rfl hk hi h
      | siv256 =>
        simp only [encryptWith, orPanic_eq_ok] at h
        simp only [decryptWith, orPanic_eq_ok]
        exact hL.aead_rt _ key iv pt c rfl hk hi h
      | chacha =>
        simp only [encryptWith, orPanic_eq_ok] at h
        simp only [decryptWith, orPanic_eq_ok]
        exact hL.aead_rt _ key iv pt c rfl hk hi h
      | xchacha =>
        simp only [encryptWith, orPanic_eq_ok] at h
        simp only [decryptWith, orPanic_eq_ok]
        exact hL.aead_rt _ key iv pt c rfl hk hi h
      | xsalsa =>
        simp only [encryptWith, orPanic_eq_ok] at h
        simp only [decryptWith, orPanic_eq_ok]
        exact hL.aead_rt _ key iv pt c rfl hk hi h

/-- the same through `resolve` (algorithm name as written by the user, upper-cased on both sides). -/
theorem decryptFn_encryptFn (P : Prims) (hL : P.Lawful) (algorithm key iv pt c : Bytes)
    (h : encryptFn P algorithm key iv pt = .ok c) : decryptFn P algorithm key iv c = .ok pt :=
  decrypt_encrypt P hL _ key iv pt c h

/-- ciphertext length: same length for CFB/OFB/CTR, next block boundary for CBC, +16 for the AEADs. -/
theorem encrypt_length (P : Prims) (hL : P.Lawful) (name key iv pt c : Bytes) (a : Alg)
    (ha : algOfEncrypt name = some a) (h : encrypt P name key iv pt = .ok c) :
    c.length = ctLen a pt.length := by
  unfold encrypt at h
  simp only [ha] at h
  cases hs : checkSizes a key iv with
  | some e => simp [hs] at h
  | none =>
    simp only [hs] at h
    obtain ⟨hk, hi⟩ := (checkSizes_none_iff a key iv).mp hs
    cases a with
    | cfb ks =>
      simp only [encryptWith, Res.ok.injEq] at h
      subst h
      exact hL.cfb_len ks key iv pt hk hi
    | ofb ks => simp only [encryptWith, orPanic_eq_ok] at h; exact hL.keystream_len _ key iv pt c rfl hk hi h
    | ctrLE ks => simp only [encryptWith, orPanic_eq_ok] at h; exact hL.keystream_len _ key iv pt c rfl hk hi h
    | ctrBE ks => simp only [encryptWith, orPanic_eq_ok] at h; exact hL.keystream_len _ key iv pt c rfl hk hi h
    | cbc ks s =>
      simp only [encryptWith, Res.ok.injEq] at h
      subst h
      have hp : (pad s P.fill pt).length % 16 = 0 := by rw [Crypt.pad_length]; omega
      rw [hL.cbc_len ks key iv _ hk hi hp, Crypt.pad_length]
      rfl
    | siv128 => simp only [encryptWith, orPanic_eq_ok] at h; exact hL.aead_len _ key iv pt c rfl hk hi h
    | siv256 => simp only [encryptWith, orPanic_eq_ok] at h; exact hL.aead_len _ key iv pt c rfl hk hi h
    | chacha => simp only [encryptWith, orPanic_eq_ok] at h; exact hL.aead_len _ key iv pt c rfl hk hi h
    | xchacha => simp only [encryptWith, orPanic_eq_ok] at h; exact hL.aead_len _ key iv pt c rfl hk hi h
    | xsalsa => simp only [encryptWith, orPanic_eq_ok] at h; exact hL.aead_len _ key iv pt c rfl hk hi h

/-- with key and IV of the required sizes `encrypt` does not fail (given that the cipher itself
    does not: `EncTotal`). -/
theorem encrypt_ok_of_sizes (P : Prims) (hT : P.EncTotal) (name key iv pt : Bytes) (a : Alg)
    (ha : algOfEncrypt name = some a) (hk : key.length = keyLen a) (hi : iv.length = ivLen a) :
    ∃ c, encrypt P name key iv pt = .ok c := by
  have hs := (checkSizes_none_iff a key iv).mpr ⟨hk, hi⟩
  unfold encrypt
  simp only [ha, hs]
  cases a with
  | cfb ks => exact ⟨_, rfl⟩
  | cbc ks s => exact ⟨_, rfl⟩
  | ofb ks =>
    cases h : P.keystream (.ofb ks) key iv pt with
    | none => exact absurd h (hT.keystream_some _ key iv pt rfl hk hi)
    | some c => exact ⟨c, by simp [encryptWith, orPanic, h]⟩
  | ctrLE ks =>
    cases h : P.keystream (.ctrLE ks) key iv pt with
    | none => exact absurd h (hT.keystream_some _ key iv pt rfl hk hi)
    | some c => exact ⟨c, by simp [encryptWith, orPanic, h]⟩
  | ctrBE ks =>
    cases h : P.keystream (.ctrBE ks) key iv pt with
    | none => exact absurd h (hT.keystream_some _ key iv pt rfl hk hi)
    | some c => exact ⟨c, by simp [encryptWith, orPanic, h]⟩
  | siv128 =>
    cases h : P.aeadEnc .siv128 key iv pt with
    | none => exact absurd h (hT.aead_some _ key iv pt rfl hk hi)
    | some c => exact ⟨c, by simp [encryptWith, orPanic, h]⟩
  | siv256 =>
    cases h : P.aeadEnc .siv256 key iv pt with
    | none => exact absurd h (hT.aead_some _ key iv pt rfl hk hi)
    | some c => exact ⟨c, by simp [encryptWith, orPanic, h]⟩
  | chacha =>
    cases h : P.aeadEnc .chacha key iv pt with
    | none => exact absurd h (hT.aead_some _ key iv pt rfl hk hi)
    | some c => exact ⟨c, by simp [encryptWith, orPanic, h]⟩
  | xchacha =>
    cases h : P.aeadEnc .xchacha key iv pt with
    | none => exact absurd h (hT.aead_some _ key iv pt rfl hk hi)
    | some c => exact ⟨c, by simp [encryptWith, orPanic, h]⟩
  | xsalsa =>
    cases h : P.aeadEnc .xsalsa key iv pt with
    | none => exact absurd h (hT.aead_some _ key iv pt rfl hk hi)
    | some c => exact ⟨c, by simp [encryptWith, orPanic, h]⟩

/-- **C23 as stated**: for every supported algorithm, any plaintext, and any key and IV of the sizes
    the algorithm requires, `encrypt` produces a ciphertext of the predicted length and `decrypt`
    of it with the same key and IV returns the plaintext. -/
theorem roundtrip (P : Prims) (hL : P.Lawful) (hT : P.EncTotal) (name key iv pt : Bytes) (a : Alg)
    (ha : algOfEncrypt name = some a) (hk : key.length = keyLen a) (hi : iv.length = ivLen a) :
    ∃ c, encrypt P name key iv pt = .ok c ∧ c.length = ctLen a pt.length ∧
      decrypt P name key iv c = .ok pt := by
  obtain ⟨c, hc⟩ := encrypt_ok_of_sizes P hT name key iv pt a ha hk hi
  exact ⟨c, hc, encrypt_length P hL name key iv pt c a ha hc, decrypt_encrypt P hL name key iv pt c hc⟩

/-- The Spec predicate the `o.c23` oracle evaluates on the implementation holds of the model for
    *every* input: unknown names and wrong sizes are rejected alike by both functions, everything
    else round-trips with the predicted length. -/
theorem roundTripObs_model (P : Prims) (hL : P.Lawful) (hT : P.EncTotal) (alg key iv pt : Bytes) :
    RoundTripObs P.upper alg key iv pt (encryptFn P alg key iv pt)
      (match encryptFn P alg key iv pt with
       | .ok c => decryptFn P alg key iv c
       | _ => decryptFn P alg key iv pt) = true := by
  unfold RoundTripObs encryptFn decryptFn
  cases ha : algOfEncrypt (P.upper alg) with
  | none =>
    have he : encrypt P (P.upper alg) key iv pt = .err .invalidAlgorithm :=
      (encrypt_err_iff P _ key iv pt _).mpr (by simp [precheck, ha])
    have hd : decrypt P (P.upper alg) key iv pt = .err .invalidAlgorithm :=
      decrypt_err_of_precheck P _ key iv pt _ (by simp [precheck, ha])
    simp [he, hd]
  | some a =>
    cases hs : checkSizes a key iv with
    | some e =>
      have he : encrypt P (P.upper alg) key iv pt = .err e :=
        (encrypt_err_iff P _ key iv pt _).mpr (by simp [precheck, ha, hs])
      have hd : decrypt P (P.upper alg) key iv pt = .err e :=
        decrypt_err_of_precheck P _ key iv pt _ (by simp [precheck, ha, hs])
      simp [hs, he, hd]
    | none =>
      obtain ⟨hk, hi⟩ := (checkSizes_none_iff a key iv).mp hs
      obtain ⟨c, hc, hlen, hdec⟩ := roundtrip P hL hT (P.upper alg) key iv pt a ha hk hi
      simp [hs, hc, hdec, hlen]

/-! ## Panics of `decrypt` -/

/-- `decrypt` panics exactly when, with a known name and right sizes, the AEAD rejects the
    ciphertext (`.expect("key/iv sizes were already checked")`) or a keystream is exhausted. -/
theorem decrypt_panic_iff (P : Prims) (name key iv ct : Bytes) :
    decrypt P name key iv ct = .panic ↔
      ∃ a, algOfDecrypt name = some a ∧ checkSizes a key iv = none ∧
        ((a.isAead = true ∧ P.aeadDec a key iv ct = none) ∨
         (a.isKeystream = true ∧ P.keystream a key iv ct = none)) := by
  unfold decrypt
  cases ha : algOfDecrypt name with
  | none => simp
  | some a =>
    cases hs : checkSizes a key iv with
    | some e => simp [hs]
    | none =>
      simp only [hs]
      cases a <;> simp [decryptWith, orPanic_eq_panic, Alg.isAead, Alg.isKeystream, hs]
      case cbc ks s =>
        split
        · split <;> simp
        · simp

/-- CFB and CBC decryption of arbitrary bytes never panics (CBC: `ok` or "Invalid input"). -/
theorem decrypt_no_panic_cfb_cbc (P : Prims) (name key iv ct : Bytes) (a : Alg)
    (ha : algOfDecrypt name = some a) (hne : a.isAead = false) (hnk : a.isKeystream = false) :
    decrypt P name key iv ct ≠ .panic := by
  intro h
  obtain ⟨a', ha', _, h' | h'⟩ := (decrypt_panic_iff P name key iv ct).mp h
  · rw [ha] at ha'; cases ha'; simp [hne] at h'
  · rw [ha] at ha'; cases ha'; simp [hnk] at h'

/-- "decrypting never panics", proved outside the finding class `D_aead_reject` (and with
    keystreams that are not exhausted). -/
theorem noPanic_partial (P : Prims) (alg key iv ct : Bytes)
    (hks : ∀ a, a.isKeystream = true → P.keystream a key iv ct ≠ none)
    (hD : D_aead_reject P.upper alg key iv = false) :
    NoPanicObs (decryptFn P alg key iv ct) = true := by
  unfold NoPanicObs decryptFn
  simp only [bne_iff_ne, ne_eq]
  intro h
  obtain ⟨a, ha, hs, h' | h'⟩ := (decrypt_panic_iff P _ key iv ct).mp h
  · simp [D_aead_reject, ha, hs, h'.1] at hD
  · exact hks a h'.1 h'.2

end C23
