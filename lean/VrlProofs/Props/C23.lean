/-
  C23 — encryption round-trips for every algorithm.

  The theorems are about `VrlModel.Crypt` (vrl's glue in encrypt.rs / decrypt.rs / encrypt_ip.rs /
  decrypt_ip.rs); the ciphers themselves are parameters (`Prims`, `IpPrims`) and their round-trip
  laws are the explicit hypotheses `Prims.Lawful` / `IpPrims.Lawful` (sampled on the real crates by
  the `o.c23*` ops). Everything vrl owns is proved for all inputs:

    * the algorithm tables of `encrypt`, `decrypt` and `is_valid_algorithm` agree on every byte string;
    * the key/IV size checks are the same on both sides and come before any cipher runs;
    * the four block paddings are reversible for every message length and every ISO 10126 filler;
    * hence `decrypt (encrypt p) = p` for every algorithm, with the predicted ciphertext length;
    * `decrypt` panics exactly when an AEAD rejects its input (finding `D_aead_reject`);
    * `decrypt_ip (encrypt_ip a) = a` outside three decidable finding classes, each of which is a
      real counterexample (VrlProofs/Witness/C23.lean).
-/
import VrlProofs.Lemmas.Crypt

namespace Crypt

/-! ## Hypotheses on the primitives -/

/-- Round-trip and length laws of the third-party ciphers, for keys and IVs of the required sizes. -/
structure Prims.Lawful (P : Prims) : Prop where
  cfb_rt : ∀ ks k iv p, k.length = ks.bytes → iv.length = 16 →
    P.cfbDec ks k iv (P.cfbEnc ks k iv p) = p
  cfb_len : ∀ ks k iv p, k.length = ks.bytes → iv.length = 16 →
    (P.cfbEnc ks k iv p).length = p.length
  /-- applying the same keystream twice is the identity -/
  keystream_rt : ∀ a k iv p c, a.isKeystream = true → k.length = keyLen a → iv.length = ivLen a →
    P.keystream a k iv p = some c → P.keystream a k iv c = some p
  keystream_len : ∀ a k iv p c, a.isKeystream = true → k.length = keyLen a → iv.length = ivLen a →
    P.keystream a k iv p = some c → c.length = p.length
  /-- raw CBC over whole blocks -/
  cbc_rt : ∀ ks k iv b, k.length = ks.bytes → iv.length = 16 → b.length % 16 = 0 →
    P.cbcDec ks k iv (P.cbcEnc ks k iv b) = b
  cbc_len : ∀ ks k iv b, k.length = ks.bytes → iv.length = 16 → b.length % 16 = 0 →
    (P.cbcEnc ks k iv b).length = b.length
  aead_rt : ∀ a k iv p c, a.isAead = true → k.length = keyLen a → iv.length = ivLen a →
    P.aeadEnc a k iv p = some c → P.aeadDec a k iv c = some p
  /-- every AEAD here appends a 16-byte tag -/
  aead_len : ∀ a k iv p c, a.isAead = true → k.length = keyLen a → iv.length = ivLen a →
    P.aeadEnc a k iv p = some c → c.length = p.length + 16

/-- The ciphers do not fail on *encryption* (true of the real crates below their message-length
    limits of 2^36 bytes and more; the failure is an `expect`/`unwrap` panic in vrl). -/
structure Prims.EncTotal (P : Prims) : Prop where
  keystream_some : ∀ a k iv p, a.isKeystream = true → k.length = keyLen a → iv.length = ivLen a →
    P.keystream a k iv p ≠ none
  aead_some : ∀ a k iv p, a.isAead = true → k.length = keyLen a → iv.length = ivLen a →
    P.aeadEnc a k iv p ≠ none

/-- Laws of the std address parser/printer and of the two ipcrypt ciphers (16-byte key for the AES
    block, 32-byte key for the prefix-preserving cipher). -/
structure IpPrims.Lawful (P : IpPrims) : Prop where
  parse_show : ∀ ip, ip.WF → P.parseIp (P.showIp ip) = some ip
  aes_rt : ∀ k b, k.length = 16 → b.length = 16 → P.aesDec k (P.aesEnc k b) = b
  aes_len : ∀ k b, k.length = 16 → b.length = 16 → (P.aesEnc k b).length = 16
  /-- the prefix-preserving cipher inverts itself when told the same address family;
      in IPv4 mode it is only ever applied to IPv4-mapped blocks -/
  pfx_rt : ∀ k v b, k.length = 32 → b.length = 16 → (v = true → isV4Form b = true) →
    P.pfxDec k v (P.pfxEnc k v b) = b
  pfx_len : ∀ k v b, k.length = 32 → b.length = 16 → (P.pfxEnc k v b).length = 16
  /-- in IPv4 mode the first 96 bits are copied -/
  pfx_keep4 : ∀ k b, k.length = 32 → b.length = 16 → isV4Form b = true →
    isV4Form (P.pfxEnc k true b) = true

end Crypt

namespace C23
open Crypt

/-! ## The name tables -/

/-- `encrypt` and `decrypt` map every byte string to the same cipher (or both reject it). -/
theorem tables_agree (name : Bytes) : algOfEncrypt name = algOfDecrypt name := by
  unfold algOfEncrypt algOfDecrypt
  rw [encryptArms_eq_decryptArms]

/-- the compile-time check `is_valid_algorithm` accepts exactly the names the run-time `match`es know. -/
theorem valid_iff_listed (name : Bytes) : isValidAlgorithm name = (algOfEncrypt name).isSome := by
  rw [Bool.eq_iff_iff]
  unfold isValidAlgorithm algOfEncrypt
  rw [lookupArms_isSome, List.contains_iff_mem]
  exact ⟨validNames_sub name, validNames_sup name⟩

/-- 32 accepted names, no name listed twice (so no arm is shadowed). -/
theorem names_nodup : (encryptArms.flatMap (·.1)).Nodup ∧ (encryptArms.flatMap (·.1)).length = 32 := by
  decide

/-- the names are ASCII upper case / digits / `-`: the upper-casing of `resolve` is idempotent on them. -/
theorem names_upper_ascii :
    ∀ n ∈ encryptArms.flatMap (·.1), ∀ b ∈ n, (65 ≤ b ∧ b ≤ 90) ∨ (48 ≤ b ∧ b ≤ 57) ∨ b = 45 := by
  decide

/-! ## Key / IV checks -/

/-- `encrypt` fails with an error exactly when the shared pre-check does, with that error. -/
theorem encrypt_err_iff (P : Prims) (name key iv pt : Bytes) (e : Err) :
    encrypt P name key iv pt = .err e ↔ precheck name key iv = some e := by
  unfold encrypt precheck
  cases h : algOfEncrypt name with
  | none => simp
  | some a =>
    cases hs : checkSizes a key iv with
    | some e' => simp [hs]
    | none =>
      simp only [hs]
      cases a <;> simp [encryptWith, orPanic_ne_err]

/-- `decrypt` reports the same pre-check error as `encrypt`, whatever the ciphertext. -/
theorem decrypt_err_of_precheck (P : Prims) (name key iv ct : Bytes) (e : Err)
    (h : precheck name key iv = some e) : decrypt P name key iv ct = .err e := by
  unfold precheck at h
  unfold decrypt
  rw [← tables_agree]
  cases ha : algOfEncrypt name with
  | none => simp [ha] at h; simp [h]
  | some a =>
    simp only [ha] at h
    simp [h]

/-- …and any other error of `decrypt` is "Invalid input": a CBC input that is not a padded
    multiple of the block size, or an AEAD input that does not authenticate. -/
theorem decrypt_err_cases (P : Prims) (name key iv ct : Bytes) (e : Err)
    (h : decrypt P name key iv ct = .err e) :
    precheck name key iv = some e ∨
      (precheck name key iv = none ∧ e = .invalidInput ∧
        ∃ a, algOfDecrypt name = some a ∧ (a.isAead = true ∨ ∃ ks s, a = .cbc ks s)) := by
  unfold decrypt at h
  unfold precheck
  rw [tables_agree]
  cases ha : algOfDecrypt name with
  | none => simp [ha] at h; simp [h]
  | some a =>
    simp only [ha] at h
    cases hs : checkSizes a key iv with
    | some e' => simp [hs] at h; simp [hs, h]
    | none =>
      simp only [hs] at h
      right
      cases a <;> simp [decryptWith, orPanic_ne_err, orInvalid_eq_err] at h
      case cbc ks s =>
        refine ⟨hs, ?_, _, rfl, Or.inr ⟨ks, s, rfl⟩⟩
        split at h
        · split at h
          · simp at h
          · simp at h; exact h.symm
        · simp at h; exact h.symm
      all_goals exact ⟨hs, h.2, _, rfl, Or.inl rfl⟩

/-! ## Padding -/

/-- **Padding round trip**: every scheme, every filler, every message (all lengths, all residues
    modulo 16; no enumeration). -/
theorem unpad_pad (s : Pad) (fill : Filler) (msg : Bytes) :
    unpadBlocks s (pad s fill msg) = some msg :=
  unpadBlocks_pad s fill msg

/-- the padded buffer is the next multiple of 16 strictly above the message length. -/
theorem pad_length (s : Pad) (fill : Filler) (msg : Bytes) :
    (pad s fill msg).length = (msg.length / 16 + 1) * 16 :=
  Crypt.pad_length s fill msg

/-- with the pinned crate's filler, ISO 10126 padding is byte-for-byte PKCS#7 padding. -/
theorem iso10126_impl_is_pkcs7 (fill : Filler) (msg : Bytes) :
    pad .iso10126 implFill msg = pad .pkcs7 fill msg := by
  have h : msg.length % 16 < 16 := Nat.mod_lt _ (by decide)
  rw [pad_eq, pad_eq]
  congr 1
  simp only [padBytes]
  have : ∀ n, 0 < n → (List.range (n - 1)).map (fun _ => n) ++ [n] = List.replicate n n := by
    intro n hn
    obtain ⟨m, rfl⟩ : ∃ m, n = m + 1 := ⟨n - 1, by omega⟩
    simp [List.replicate_succ', List.map_const']
  have hn : 0 < 16 - msg.length % 16 := by omega
  exact this _ hn

/-! ## The round trip -/

/-- **C23 (symmetric ciphers)**: whenever `encrypt` returns a ciphertext, `decrypt` with the same
    algorithm name, key and IV returns the plaintext. No assumption on the name, the sizes or the
    plaintext; the only hypotheses are the primitives' own round-trip laws. -/
theorem decrypt_encrypt (P : Prims) (hL : P.Lawful) (name key iv pt c : Bytes)
    (h : encrypt P name key iv pt = .ok c) : decrypt P name key iv c = .ok pt := by
  unfold encrypt at h
  unfold decrypt
  rw [← tables_agree]
  cases ha : algOfEncrypt name with
  | none => simp [ha] at h
  | some a =>
    simp only [ha] at h ⊢
    cases hs : checkSizes a key iv with
    | some e => simp [hs] at h
    | none =>
      simp only [hs] at h ⊢
      obtain ⟨hk, hi⟩ := (checkSizes_none_iff a key iv).mp hs
      cases a with
      | cfb ks =>
        simp only [encryptWith, Res.ok.injEq] at h
        subst h
        simp only [decryptWith]
        rw [hL.cfb_rt ks key iv pt hk hi]
      | ofb ks =>
        simp only [encryptWith, orPanic_eq_ok] at h
        simp only [decryptWith, orPanic_eq_ok]
        exact hL.keystream_rt _ key iv pt c rfl hk hi h
      | ctrLE ks =>
        simp only [encryptWith, orPanic_eq_ok] at h
        simp only [decryptWith, orPanic_eq_ok]
        exact hL.keystream_rt _ key iv pt c rfl hk hi h
      | ctrBE ks =>
        simp only [encryptWith, orPanic_eq_ok] at h
        simp only [decryptWith, orPanic_eq_ok]
        exact hL.keystream_rt _ key iv pt c rfl hk hi h
      | cbc ks s =>
        simp only [encryptWith, Res.ok.injEq] at h
        subst h
        have hp : (pad s P.fill pt).length % 16 = 0 := by rw [Crypt.pad_length]; omega
        have hl := hL.cbc_len ks key iv _ hk hi hp
        simp only [decryptWith]
        rw [if_neg (by rw [hl, hp]; simp), hL.cbc_rt ks key iv _ hk hi hp, unpadBlocks_pad]
      | siv128 =>
        simp only [encryptWith, orPanic_eq_ok] at h
        simp only [decryptWith, orInvalid_eq_ok]
        exact hL.aead_rt _ key iv pt c rfl hk hi h
      | siv256 =>
        simp only [encryptWith, orPanic_eq_ok] at h
        simp only [decryptWith, orInvalid_eq_ok]
        exact hL.aead_rt _ key iv pt c rfl hk hi h
      | chacha =>
        simp only [encryptWith, orPanic_eq_ok] at h
        simp only [decryptWith, orInvalid_eq_ok]
        exact hL.aead_rt _ key iv pt c rfl hk hi h
      | xchacha =>
        simp only [encryptWith, orPanic_eq_ok] at h
        simp only [decryptWith, orInvalid_eq_ok]
        exact hL.aead_rt _ key iv pt c rfl hk hi h
      | xsalsa =>
        simp only [encryptWith, orPanic_eq_ok] at h
        simp only [decryptWith, orInvalid_eq_ok]
        exact hL.aead_rt _ key iv pt c rfl hk hi h

/-- the same through `resolve` (algorithm name as written by the user, upper-cased on both sides). -/
theorem decryptFn_encryptFn (P : Prims) (hL : P.Lawful) (algorithm key iv pt c : Bytes)
    (h : encryptFn P algorithm key iv pt = .ok c) : decryptFn P algorithm key iv c = .ok pt :=
  decrypt_encrypt P hL _ key iv pt c h

/-- ciphertext length: same length for CFB/OFB/CTR, next block boundary for CBC, +16 for the AEADs. -/
theorem encrypt_length (P : Prims) (hL : P.Lawful) (name key iv pt c : Bytes) (a : Alg)
    (ha : algOfEncrypt name = some a) (h : encrypt P name key iv pt = .ok c) :
    c.length = ctLen a pt.length := by
  unfold encrypt at h
  simp only [ha] at h
  cases hs : checkSizes a key iv with
  | some e => simp [hs] at h
  | none =>
    simp only [hs] at h
    obtain ⟨hk, hi⟩ := (checkSizes_none_iff a key iv).mp hs
    cases a with
    | cfb ks =>
      simp only [encryptWith, Res.ok.injEq] at h
      subst h
      exact hL.cfb_len ks key iv pt hk hi
    | ofb ks => simp only [encryptWith, orPanic_eq_ok] at h; exact hL.keystream_len _ key iv pt c rfl hk hi h
    | ctrLE ks => simp only [encryptWith, orPanic_eq_ok] at h; exact hL.keystream_len _ key iv pt c rfl hk hi h
    | ctrBE ks => simp only [encryptWith, orPanic_eq_ok] at h; exact hL.keystream_len _ key iv pt c rfl hk hi h
    | cbc ks s =>
      simp only [encryptWith, Res.ok.injEq] at h
      subst h
      have hp : (pad s P.fill pt).length % 16 = 0 := by rw [Crypt.pad_length]; omega
      rw [hL.cbc_len ks key iv _ hk hi hp, Crypt.pad_length]
      rfl
    | siv128 => simp only [encryptWith, orPanic_eq_ok] at h; exact hL.aead_len _ key iv pt c rfl hk hi h
    | siv256 => simp only [encryptWith, orPanic_eq_ok] at h; exact hL.aead_len _ key iv pt c rfl hk hi h
    | chacha => simp only [encryptWith, orPanic_eq_ok] at h; exact hL.aead_len _ key iv pt c rfl hk hi h
    | xchacha => simp only [encryptWith, orPanic_eq_ok] at h; exact hL.aead_len _ key iv pt c rfl hk hi h
    | xsalsa => simp only [encryptWith, orPanic_eq_ok] at h; exact hL.aead_len _ key iv pt c rfl hk hi h

/-- with key and IV of the required sizes `encrypt` does not fail (given that the cipher itself
    does not: `EncTotal`). -/
theorem encrypt_ok_of_sizes (P : Prims) (hT : P.EncTotal) (name key iv pt : Bytes) (a : Alg)
    (ha : algOfEncrypt name = some a) (hk : key.length = keyLen a) (hi : iv.length = ivLen a) :
    ∃ c, encrypt P name key iv pt = .ok c := by
  have hs := (checkSizes_none_iff a key iv).mpr ⟨hk, hi⟩
  unfold encrypt
  simp only [ha, hs]
  cases a with
  | cfb ks => exact ⟨_, rfl⟩
  | cbc ks s => exact ⟨_, rfl⟩
  | ofb ks =>
    cases h : P.keystream (.ofb ks) key iv pt with
    | none => exact absurd h (hT.keystream_some _ key iv pt rfl hk hi)
    | some c => exact ⟨c, by simp [encryptWith, orPanic, h]⟩
  | ctrLE ks =>
    cases h : P.keystream (.ctrLE ks) key iv pt with
    | none => exact absurd h (hT.keystream_some _ key iv pt rfl hk hi)
    | some c => exact ⟨c, by simp [encryptWith, orPanic, h]⟩
  | ctrBE ks =>
    cases h : P.keystream (.ctrBE ks) key iv pt with
    | none => exact absurd h (hT.keystream_some _ key iv pt rfl hk hi)
    | some c => exact ⟨c, by simp [encryptWith, orPanic, h]⟩
  | siv128 =>
    cases h : P.aeadEnc .siv128 key iv pt with
    | none => exact absurd h (hT.aead_some _ key iv pt rfl hk hi)
    | some c => exact ⟨c, by simp [encryptWith, orPanic, h]⟩
  | siv256 =>
    cases h : P.aeadEnc .siv256 key iv pt with
    | none => exact absurd h (hT.aead_some _ key iv pt rfl hk hi)
    | some c => exact ⟨c, by simp [encryptWith, orPanic, h]⟩
  | chacha =>
    cases h : P.aeadEnc .chacha key iv pt with
    | none => exact absurd h (hT.aead_some _ key iv pt rfl hk hi)
    | some c => exact ⟨c, by simp [encryptWith, orPanic, h]⟩
  | xchacha =>
    cases h : P.aeadEnc .xchacha key iv pt with
    | none => exact absurd h (hT.aead_some _ key iv pt rfl hk hi)
    | some c => exact ⟨c, by simp [encryptWith, orPanic, h]⟩
  | xsalsa =>
    cases h : P.aeadEnc .xsalsa key iv pt with
    | none => exact absurd h (hT.aead_some _ key iv pt rfl hk hi)
    | some c => exact ⟨c, by simp [encryptWith, orPanic, h]⟩

/-- **C23 as stated**: for every supported algorithm, any plaintext, and any key and IV of the sizes
    the algorithm requires, `encrypt` produces a ciphertext of the predicted length and `decrypt`
    of it with the same key and IV returns the plaintext. -/
theorem roundtrip (P : Prims) (hL : P.Lawful) (hT : P.EncTotal) (name key iv pt : Bytes) (a : Alg)
    (ha : algOfEncrypt name = some a) (hk : key.length = keyLen a) (hi : iv.length = ivLen a) :
    ∃ c, encrypt P name key iv pt = .ok c ∧ c.length = ctLen a pt.length ∧
      decrypt P name key iv c = .ok pt := by
  obtain ⟨c, hc⟩ := encrypt_ok_of_sizes P hT name key iv pt a ha hk hi
  exact ⟨c, hc, encrypt_length P hL name key iv pt c a ha hc, decrypt_encrypt P hL name key iv pt c hc⟩

/-- The Spec predicate the `o.c23` oracle evaluates on the implementation holds of the model for
    *every* input: unknown names and wrong sizes are rejected alike by both functions, everything
    else round-trips with the predicted length. -/
theorem roundTripObs_model (P : Prims) (hL : P.Lawful) (hT : P.EncTotal) (alg key iv pt : Bytes) :
    RoundTripObs P.upper alg key iv pt (encryptFn P alg key iv pt)
      (match encryptFn P alg key iv pt with
       | .ok c => decryptFn P alg key iv c
       | _ => decryptFn P alg key iv pt) = true := by
  unfold RoundTripObs encryptFn decryptFn
  cases ha : algOfEncrypt (P.upper alg) with
  | none =>
    have he : encrypt P (P.upper alg) key iv pt = .err .invalidAlgorithm :=
      (encrypt_err_iff P _ key iv pt _).mpr (by simp [precheck, ha])
    have hd : decrypt P (P.upper alg) key iv pt = .err .invalidAlgorithm :=
      decrypt_err_of_precheck P _ key iv pt _ (by simp [precheck, ha])
    simp [he, hd]
  | some a =>
    cases hs : checkSizes a key iv with
    | some e =>
      have he : encrypt P (P.upper alg) key iv pt = .err e :=
        (encrypt_err_iff P _ key iv pt _).mpr (by simp [precheck, ha, hs])
      have hd : decrypt P (P.upper alg) key iv pt = .err e :=
        decrypt_err_of_precheck P _ key iv pt _ (by simp [precheck, ha, hs])
      simp [hs, he, hd]
    | none =>
      obtain ⟨hk, hi⟩ := (checkSizes_none_iff a key iv).mp hs
      obtain ⟨c, hc, hlen, hdec⟩ := roundtrip P hL hT (P.upper alg) key iv pt a ha hk hi
      simp [hs, hc, hdec, hlen]

/-! ## Panics of `decrypt` -/

/-- `decrypt` panics exactly when, with a known name and right sizes, a keystream is exhausted
    (not reachable with in-memory inputs); an input the AEAD rejects is an error, not a panic. -/
theorem decrypt_panic_iff (P : Prims) (name key iv ct : Bytes) :
    decrypt P name key iv ct = .panic ↔
      ∃ a, algOfDecrypt name = some a ∧ checkSizes a key iv = none ∧
         (a.isKeystream = true ∧ P.keystream a key iv ct = none) := by
  unfold decrypt
  cases ha : algOfDecrypt name with
  | none => simp
  | some a =>
    cases hs : checkSizes a key iv with
    | some e => simp [hs]
    | none =>
      simp only [hs]
      cases a <;> simp [decryptWith, orPanic_eq_panic, orInvalid_ne_panic, Alg.isAead, Alg.isKeystream, hs]
      case cbc ks s =>
        split
        · split <;> simp
        · simp

/-- CFB, CBC and AEAD decryption of arbitrary bytes never panics. -/
theorem decrypt_no_panic_cfb_cbc (P : Prims) (name key iv ct : Bytes) (a : Alg)
    (ha : algOfDecrypt name = some a) (hnk : a.isKeystream = false) :
    decrypt P name key iv ct ≠ .panic := by
  intro h
  obtain ⟨a', ha', _, h'⟩ := (decrypt_panic_iff P name key iv ct).mp h
  rw [ha] at ha'; cases ha'; simp [hnk] at h'

/-- an AEAD algorithm with right-sized key and IV and an input it rejects: the error "Invalid input". -/
theorem aead_reject_is_error (P : Prims) (name key iv ct : Bytes) (a : Alg)
    (ha : algOfDecrypt name = some a) (haead : a.isAead = true)
    (hs : checkSizes a key iv = none) (hrej : P.aeadDec a key iv ct = none) :
    decrypt P name key iv ct = .err .invalidInput := by
  unfold decrypt
  simp only [ha, hs]
  cases a <;> simp_all [decryptWith, orInvalid, Alg.isAead]

/-- "decrypting never panics" (with keystreams that are not exhausted). The hypothesis on the AEAD
    finding class of the pinned tree is gone: the defect was repaired. -/
theorem noPanic_partial (P : Prims) (alg key iv ct : Bytes)
    (hks : ∀ a, a.isKeystream = true → P.keystream a key iv ct ≠ none) :
    NoPanicObs (decryptFn P alg key iv ct) = true := by
  unfold NoPanicObs decryptFn
  simp only [bne_iff_ne, ne_eq]
  intro h
  obtain ⟨a, ha, hs, h'⟩ := (decrypt_panic_iff P _ key iv ct).mp h
  exact hks a h'.1 h'.2

/-! ## IP addresses -/

/-- `decrypt_ip` written without the duplicated IPv4/IPv6 arms. -/
def decryptIpFlat (P : IpPrims) (ipText key mode : Bytes) : Res IpErr :=
  match P.parseIp ipText with
  | none => .err .parse
  | some ip =>
    match modeOf mode with
    | none => .err .mode
    | some .aes128 =>
      if key.length ≠ 16 then .err (.key .aes128 ip.isV4)
      else .ok (P.showIp (ipcryptDec P key ip))
    | some .pfx =>
      if key.length ≠ 32 then .err (.key .pfx ip.isV4)
      else if pfxKeyPanics key then .err .pfxHalves
      else .ok (P.showIp (pfxIpDec P key ip))

/-- the IPv4 and IPv6 arms of `decrypt_ip` do the same thing. -/
theorem decryptIp_flat (P : IpPrims) (t k m : Bytes) : decryptIp P t k m = decryptIpFlat P t k m := by
  unfold decryptIp decryptIpFlat
  cases P.parseIp t with
  | none => rfl
  | some ip =>
    cases modeOf m with
    | none => rfl
    | some md => cases md <;> cases ip <;> rfl

/-- mode dispatch, address parsing and key-size checks are the same in both directions: the two
    functions reject the same (text, key, mode) with the same error, and panic on the same keys. -/
theorem ip_checks_agree (P : IpPrims) (t k m : Bytes) :
    (∀ e, encryptIp P t k m = .err e ↔ decryptIp P t k m = .err e) ∧
    (encryptIp P t k m = .panic ↔ decryptIp P t k m = .panic) := by
  rw [decryptIp_flat]
  unfold encryptIp decryptIpFlat
  cases P.parseIp t with
  | none => simp
  | some ip =>
    cases modeOf m with
    | none => simp
    | some md =>
      cases md
      · by_cases hk : k.length = 16 <;> simp [hk]
      · by_cases hk : k.length = 32 <;> by_cases hp : pfxKeyPanics k = true <;> simp [hk, hp]

/-- AES-128 mode on addresses. -/
theorem ipcrypt_roundtrip (P : IpPrims) (hL : P.Lawful) (k : Bytes) (ip : Ip) (hw : ip.WF)
    (hk : k.length = 16) (h1 : D_v4mapped ip = false) :
    ipcryptDec P k (ipcryptEnc P k ip) = ip := by
  unfold ipcryptDec ipcryptEnc
  rw [ipToBytes_bytesToIp, hL.aes_rt k _ hk (ipToBytes_length ip hw), bytesToIp_ipToBytes ip h1]

/-- prefix-preserving mode on addresses. -/
theorem pfx_roundtrip (P : IpPrims) (hL : P.Lawful) (k : Bytes) (ip : Ip) (hw : ip.WF)
    (hk : k.length = 32) (h1 : D_v4mapped ip = false)
    (h3 : D_pfx_v4form .pfx ip (pfxIpEnc P k ip) = false) :
    pfxIpDec P k (pfxIpEnc P k ip) = ip := by
  have hb := ipToBytes_length ip hw
  -- the ciphertext is printed in the family of the plaintext
  have hfam : (pfxIpEnc P k ip).isV4 = ip.isV4 := by
    cases ip with
    | v4 o =>
      unfold pfxIpEnc
      rw [bytesToIp_isV4]
      exact hL.pfx_keep4 k _ hk hb (isV4Form_v4 o)
    | v6 o =>
      simpa [D_pfx_v4form, Ip.isV4] using h3
  have hv : ip.isV4 = true → isV4Form (ipToBytes ip) = true := by
    cases ip with
    | v4 o => intro _; exact isV4Form_v4 o
    | v6 o => intro h; simp [Ip.isV4] at h
  unfold pfxIpDec
  rw [hfam]
  unfold pfxIpEnc
  rw [ipToBytes_bytesToIp, hL.pfx_rt k _ _ hk hb hv, bytesToIp_ipToBytes ip h1]

/-- **C23 (IP addresses), partial**: `decrypt_ip (encrypt_ip a) = a` for every parsable address
    text, either mode and every key of the mode's size — outside the three decidable finding classes
    `D_v4mapped` (IPv4-mapped IPv6 input), `D_pfx_equal_halves` (pfx key with equal halves: panic)
    and `D_pfx_v4form` (pfx ciphertext of an IPv6 address falls into `::ffff:0:0/96`). Each class is
    a real counterexample: `VrlProofs/Witness/C23.lean`. -/
theorem ip_roundtrip_partial (P : IpPrims) (hL : P.Lawful) (t k m : Bytes) (ip : Ip) (md : Mode)
    (hp : P.parseIp t = some ip) (hw : ip.WF) (hm : modeOf m = some md) (hk : k.length = md.keyLen)
    (h1 : D_v4mapped ip = false)
    (h2 : D_pfx_equal_halves md k = false)
    (h3 : D_pfx_v4form md ip (pfxIpEnc P k ip) = false) :
    ∃ c, encryptIp P t k m = .ok c ∧ decryptIp P c k m = .ok (P.showIp ip) := by
  rw [show decryptIp P = decryptIpFlat P from funext fun a => funext fun b => funext fun c =>
    decryptIp_flat P a b c]
  cases md with
  | aes128 =>
    have hk' : k.length = 16 := hk
    have hbl : (P.aesEnc k (ipToBytes ip)).length = 16 := hL.aes_len k _ hk' (ipToBytes_length ip hw)
    refine ⟨P.showIp (ipcryptEnc P k ip), by simp [encryptIp, hp, hm, hk'], ?_⟩
    unfold decryptIpFlat
    rw [show P.parseIp (P.showIp (ipcryptEnc P k ip)) = some (ipcryptEnc P k ip) from
      hL.parse_show _ (bytesToIp_WF _ hbl)]
    simp [hm, hk', ipcrypt_roundtrip P hL k ip hw hk' h1]
  | pfx =>
    have hk' : k.length = 32 := hk
    have hnp : pfxKeyPanics k = false := by simpa [D_pfx_equal_halves, hk'] using h2
    have hbl : (P.pfxEnc k ip.isV4 (ipToBytes ip)).length = 16 :=
      hL.pfx_len k _ _ hk' (ipToBytes_length ip hw)
    refine ⟨P.showIp (pfxIpEnc P k ip), by simp [encryptIp, hp, hm, hk', hnp], ?_⟩
    unfold decryptIpFlat
    rw [show P.parseIp (P.showIp (pfxIpEnc P k ip)) = some (pfxIpEnc P k ip) from
      hL.parse_show _ (bytesToIp_WF _ hbl)]
    simp [hm, hk', hnp, pfx_roundtrip P hL k ip hw hk' h1 h3]

/-- IPv4 addresses always round-trip (both modes): none of the address-dependent classes applies. -/
theorem ip_roundtrip_v4 (P : IpPrims) (hL : P.Lawful) (t k m o : Bytes) (md : Mode)
    (hp : P.parseIp t = some (.v4 o)) (hw : o.length = 4) (hm : modeOf m = some md)
    (hk : k.length = md.keyLen) (h2 : D_pfx_equal_halves md k = false) :
    ∃ c, encryptIp P t k m = .ok c ∧ decryptIp P c k m = .ok (P.showIp (.v4 o)) :=
  ip_roundtrip_partial P hL t k m (.v4 o) md hp hw hm hk rfl h2 (by simp [D_pfx_v4form, Ip.isV4])

end C23
