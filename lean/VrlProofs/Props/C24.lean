/-
  C24 — Key-value, logfmt and CSV encoders round-trip.
  Property theorems only (helper lemmas: VrlProofs/Lemmas/{KeyValue,Csv}.lean; witnesses and
  non-vacuity examples: VrlProofs/Witness/C24.lean).  Models: VrlModel/KeyValue.lean
  (`encode_key_value`/`encode_logfmt`, the nom parser of `parse_key_value`/`parse_logfmt`) and
  VrlModel/Csv.lean (`encode_csv`/`parse_csv` with the csv-core writer and the csv-core NFA),
  tied to the code by the `kv.*` / `csv.*` correspondence ops.

  Full-strength statements (`KvRoundTrip`, `LogfmtRoundTrip`, `CsvRoundTrip`) are FALSE of the
  pinned code (`kv_roundtrip_false`, `logfmt_roundtrip_false`, `csv_roundtrip_false`, from the
  witnesses).  What is proved instead, for every object / list, every whitespace mode and both
  values of `accept_standalone_key`:

  (1) kv_roundtrip_partial      parse_key_value ∘ encode_key_value = id on flat string objects whose
                                keys and values are in the safe class `safeObject` (decidable),
                                single-character delimiters, the key-value delimiter not a space or tab (`delimOK`)
  (2) logfmt_roundtrip_partial  the same for encode_logfmt / parse_logfmt
      encodeValue_flat          on a flat string object `flatten` is the identity, i.e. the stdlib
                                entry point (the function under the `kv.encode` op) is `encodeKV`
  (3) kv_safe_iff_no_class      `safeObject` is exactly "the oracle's classifier finds no finding
                                class": a round-trip failure outside the listed classes would
                                contradict (1)
  (4) csv_roundtrip_partial     parse_csv ∘ encode_csv = id for every list of byte strings and every
                                delimiter other than `"`, CR, LF, unless the output starts with a
                                UTF-8 byte-order mark
  (5) csv_ok_iff_no_class       the hypotheses of (4) are exactly "no CSV finding class"
-/
import VrlProofs.Lemmas.KeyValue
import VrlProofs.Lemmas.Csv

namespace C24
open KV

/-! ## Full-strength statements -/

/-- flat object whose keys and values are non-empty strings, entries in `BTreeMap` order. -/
def flatStr (o : List (List Char × List Char)) : Prop :=
  keysSorted o = true ∧ ∀ kv ∈ o, kv.1 ≠ [] ∧ kv.2 ≠ []

/-- C24, key-value clause, as stated in the property (matching single-character delimiters, the
    default `whitespace`/`accept_standalone_key` arguments). -/
def KvRoundTrip : Prop :=
  ∀ (kd fd : Char) (o : List (List Char × List Char)), delimOK kd = true → flatStr o →
    parseKV (defaultCfg [kd] [fd]) (encodeKV [kd] [fd] o) = .ok (expected o)

/-- C24, logfmt clause. -/
def LogfmtRoundTrip : Prop :=
  ∀ (o : List (List Char × List Char)), flatStr o → parseLogfmt (encodeLogfmt o) = .ok (expected o)

/-- C24, CSV clause (default delimiter `,`). -/
def CsvRoundTrip : Prop :=
  ∀ (l : List (List Nat)), Csv.parseCsv 44 (Csv.encodeCsv 44 l) = l

/-! ## Key-value and logfmt -/

/-- (1) For every flat object with keys and values of the safe class, every pair of admissible
    single-character delimiters, both whitespace modes and both `accept_standalone_key` settings,
    parsing what the encoder wrote returns the object. -/
theorem kv_roundtrip_partial (kd fd : Char) (ws : Whitespace) (sk : Bool)
    (o : List (List Char × List Char))
    (hd : delimOK kd = true) (hsorted : keysSorted o = true)
    (hsafe : safeObject kd fd o = true) :
    parseKV { kd := [kd], fd := [fd], ws := ws, standalone := sk } (encodeKV [kd] [fd] o)
      = .ok (expected o) := by
  simp only [safeObject, Bool.and_eq_true, Bool.not_eq_true', List.all_eq_true] at hsafe
  obtain ⟨hne, hall⟩ := hsafe
  cases o with
  | nil => simp at hne
  | cons kv r =>
    have htok : ∀ p ∈ kv :: r, Tok [kd, fd] p.1 ∧ Tok [fd] p.2 := by
      intro p hp
      have := hall p hp
      exact ⟨tok_key this.1, tok_val this.2⟩
    have hp := parsePairs_enc { kd := [kd], fd := [fd], ws := ws, standalone := sk } rfl rfl hd kv r htok
    unfold parseKV
    rw [encodeKV_cons, hp]
    simp only
    rw [group_sorted _ hsorted]

theorem encodeLoop_flatten_irrelevant (kd fd : List Char) (o : List (List Char × List Char)) :
    encodeLoop kd fd true (strFields o) = encodeLoop kd fd false (strFields o) := by
  induction o with
  | nil => rfl
  | cons kv r ih =>
    simp only [strFields, List.map_cons] at ih ⊢
    simp [encodeLoop, ih]

/-- `encode_logfmt` is `encode_key_value` with `=` and space on string objects. -/
theorem encodeLogfmt_eq (o : List (List Char × List Char)) :
    encodeLogfmt o = encodeKV ['='] [' '] o := by
  simp [encodeLogfmt, encodeKV, encodeFlat, encodeLoop_flatten_irrelevant]

/-- (2) the logfmt instance. -/
theorem logfmt_roundtrip_partial (o : List (List Char × List Char))
    (hsorted : keysSorted o = true) (hsafe : safeObject '=' ' ' o = true) :
    parseLogfmt (encodeLogfmt o) = .ok (expected o) := by
  rw [encodeLogfmt_eq]
  exact kv_roundtrip_partial '=' ' ' .lenient true o (by decide) hsorted hsafe

/-- On the `vrl::Value` of a flat string object (`vmapOf`, keys in `BTreeMap` order) the stdlib entry
    point `encode_key_value` (model `encodeValue`: `flatten` + `to_string`; the function compared
    with the implementation by the `kv.encode` op) is `encodeKV`, for every UTF-8 codec
    `dec ∘ enc = some` (the codec is a parameter, its law a hypothesis). -/
theorem encodeValue_flat (dec : List Nat → Option (List Char)) (enc : List Char → List Nat)
    (hde : ∀ s, dec (enc s) = some s) (kd fd : List Char) (o : List (List Char × List Char))
    (hsorted : keysSorted o = true) :
    encodeValue dec kd fd false (vmapOf enc o) = some (encodeKV kd fd o) := by
  unfold encodeValue
  rw [flattenTop_flat dec enc hde o [] hsorted (by simp)]
  simp [encodeKV]

/-- (3) the hypotheses of (1) are exactly "the oracle's classifier reports no finding class". -/
theorem kv_safe_iff_no_class (kd fd : Char) (o : List (List Char × List Char)) :
    (delimOK kd = true ∧ safeObject kd fd o = true) ↔ objectClass [kd] [fd] o = none := by
  unfold objectClass
  by_cases hk : kd = ' ' ∨ kd = '\t'
  · have : delimOK kd = false := by rcases hk with rfl | rfl <;> decide
    rcases hk with rfl | rfl <;> simp [this]
  · have hk' : delimOK kd = true := by
      simp only [not_or] at hk; exact delimOK_iff.mpr hk
    simp only [not_or] at hk
    simp only [hk', true_and, List.cons.injEq, and_true, hk.1, hk.2, decide_false, Bool.or_self,
      Bool.false_eq_true, if_false]
    unfold safeObject
    cases o with
    | nil => simp
    | cons kv r =>
      simp only [List.isEmpty_cons, Bool.not_false, Bool.true_and, Bool.false_eq_true, if_false]
      generalize kv :: r = l
      induction l with
      | nil => simp [firstSome]
      | cons a l ih =>
        simp only [List.all_cons, Bool.and_eq_true, firstSome, safeKey, safeVal] at ih ⊢
        cases h1 : tokenClass [kd] [fd] true a.1 <;> cases h2 : tokenClass [kd] [fd] false a.2 <;>
          simp_all

/-! ## CSV -/

/-- (4) every list of byte strings survives `parse_csv(encode_csv(l, d), d)` for every delimiter
    other than `"`, `\r`, `\n`, unless the encoded text starts with a byte-order mark. -/
theorem csv_roundtrip_partial (d : Nat) (l : List (List Nat)) (hd : Csv.delimOK d = true)
    (hb : Csv.startsWithBom (Csv.encodeCsv d l) = false) :
    Csv.parseCsv d (Csv.encodeCsv d l) = l := by
  unfold Csv.parseCsv
  rw [Csv.stripBom_of_not_bom _ hb]
  cases l with
  | nil => simp [Csv.encodeCsv, Csv.readRecord]
  | cons f r =>
    have henc : Csv.encodeCsv d (f :: r)
        = if (Csv.joinFields d (f :: r)).isEmpty then [Csv.QUOTE, Csv.QUOTE]
          else Csv.joinFields d (f :: r) := by
      simp [Csv.encodeCsv, Csv.writeRecord]
    rw [henc]
    cases hj : Csv.joinFields d (f :: r) with
    | nil =>
      have := Csv.joinFields_eq_nil d (f :: r) (by simp) hj
      rw [this]
      simp [Csv.readRecord, Csv.isTerm, Csv.QUOTE, Csv.CR, Csv.LF, Csv.readFields]
    | cons b t =>
      have hterm := Csv.joinFields_head d hd (f :: r) b t hj
      have hread := Csv.read_joinFields d hd r f
      rw [hj] at hread
      simp [Csv.readRecord, hterm, hread]

/-- (5) the hypotheses of (4) are exactly "the classifier finds no CSV finding class". -/
theorem csv_ok_iff_no_class (d : Nat) (l : List (List Nat)) :
    (Csv.delimOK d = true ∧ Csv.startsWithBom (Csv.encodeCsv d l) = false)
      ↔ Csv.listClass d l = none := by
  unfold Csv.listClass
  cases Csv.delimOK d <;> cases Csv.startsWithBom (Csv.encodeCsv d l) <;> simp

end C24
