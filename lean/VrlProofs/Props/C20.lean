/-
  C20 — Paths round-trip through text and all path parsers agree.
  Property theorems only (lemmas per state of the JIT machine: VrlProofs/Lemmas/PathText.lean,
  UTF-8: VrlProofs/Lemmas/Utf8.lean). Models: VrlModel/PathText.lean (`serialize_field`,
  `Display`, the JIT parser, `parse_value_path`, `parse_target_path`), VrlModel/PathVrl.lean (VRL-source
  path sub-grammar); tied to the code by the `c20.*` correspondence ops.

  A path is quantified over as `CPath`: every segment is an arbitrary list of Unicode scalar
  values (= every Rust `String`: empty, quotes, backslashes, dots, brackets, any Unicode) or an
  index; `CPath.inRange` says the indices are `isize` values. `p.toPath` is its byte view (UTF-8).

  Clause (1), rendering then parsing gives the path back:
    roundtrip_value        every `OwnedValuePath` with ≥ 1 segment
    roundtrip_event        every event target path, the root `.` included
    roundtrip_metadata     every metadata target path with ≥ 1 segment
    roundtrip_bytes_partial   the same for every byte-view `Path` whose fields are valid UTF-8
    roundtrip_partial      the three above as one statement over `C20.Kind`, hypothesis = complement
                           of the finding classes `rtClass`; the full statement (no hypothesis) is
                           false of the code: `OwnedValuePath::root()` ↦ "" and
                           `OwnedTargetPath::metadata_root()` ↦ "%" do not parse
                           (witnesses in VrlProofs/Witness/C20.lean)
    roundtrip_segment_partial   `Display for OwnedSegment` round-trips when the field contains
                           neither `"` nor `\` (it quotes without escaping: witness)

  Clause (2), a path written in VRL source denotes the location the string parser assigns to the
  same text:
    agree_partial          for every text `t` (any characters, any length): if the VRL-source path
                           syntax (model `PathVrl.vrlPath`) accepts `t` as `tp₁` and `parse_target_path`
                           accepts it as `tp₂`, then `tp₁ = tp₂` — provided `t` contains neither `{{`
                           nor `\}}` (hypothesis = complement of the finding class `hasTemplate`).
                           Without the hypothesis the statement is false of the code: a quoted field
                           goes through the template-string machinery in VRL source (witnesses).
    Partial in a second sense (stated, DESIGN §7 C20): `vrlPath` models the path sub-grammar only;
    which texts the real lexer/parser accept as one external query is established by the `c20.vrl`
    correspondence (exhaustive over the path alphabet up to length 5/6), not by proof.
-/
import VrlProofs.Lemmas.PathText
import VrlProofs.Lemmas.PathVrl
import VrlModel.C20

namespace C20
open PathText

/-- (1a) `parse_value_path(String::from(&p)) == Ok(p)` for every owned value path with at least
    one segment: arbitrary field strings, any `isize` indices, any length. -/
theorem roundtrip_value (p : CPath) (hne : p ≠ []) (hr : p.inRange = true) :
    render p.toPath = some (renderC p) ∧ parseValuePath (renderC p) = .ok p.toPath := by
  constructor
  · simp [render, toC_toPath]
  · cases p with
    | nil => exact absurd rfl hne
    | cons s r =>
      exact jit_first_render .start s r (fun c hc => step_start_ser hc) step_start_quote
        step_start_lbr hr

/-- (1b) event target paths round-trip, the event root `.` included. -/
theorem roundtrip_event (p : CPath) (hr : p.inRange = true) :
    renderTarget ⟨.event, p.toPath⟩ = some (renderTargetC .event p) ∧
    parseTargetPath (renderTargetC .event p) = .ok ⟨.event, p.toPath⟩ := by
  constructor
  · simp [renderTarget, toC_toPath]
  · have hv : parseValuePath ('.' :: renderC p) = .ok p.toPath := by
      unfold parseValuePath
      rw [jit_go _ step_start_dot]
      cases p with
      | nil => rfl
      | cons s r =>
        exact jit_first_render .eventRoot s r (fun c hc => step_eventRoot_ser hc)
          step_eventRoot_quote step_eventRoot_lbr hr
    have hp : getTargetPrefix ('.' :: renderC p) = (.event, '.' :: renderC p) := by
      have : ('.' == '%') = false := by decide
      simp [getTargetPrefix, this]
    simp only [parseTargetPath, renderTargetC, prefixChar, hp, hv, TResult.ofPResult]

/-- (1c) metadata target paths with at least one segment round-trip. -/
theorem roundtrip_metadata (p : CPath) (hne : p ≠ []) (hr : p.inRange = true) :
    renderTarget ⟨.metadata, p.toPath⟩ = some (renderTargetC .metadata p) ∧
    parseTargetPath (renderTargetC .metadata p) = .ok ⟨.metadata, p.toPath⟩ := by
  constructor
  · simp [renderTarget, toC_toPath]
  · have hp : getTargetPrefix ('%' :: renderC p) = (.metadata, renderC p) := by
      simp [getTargetPrefix]
    simp only [parseTargetPath, renderTargetC, prefixChar, hp, (roundtrip_value p hne hr).2,
      TResult.ofPResult]

theorem toPath_eq_nil {p : CPath} : p.toPath = [] ↔ p = [] := by
  cases p <;> simp [CPath.toPath]

/-- (1) as one statement: for every kind of path (value / event / metadata) outside the two
    finding classes, the Spec predicate `roundTripHolds` (the one the oracle evaluates on the
    implementation) holds of `parse (render p)`. -/
theorem roundtrip_partial (k : Kind) (p : CPath) (hr : p.inRange = true)
    (hclass : rtClass k p.toPath = .none) :
    ∃ t, renderKind k p.toPath = some t ∧ roundTripHolds k p.toPath (parseKind k t) = true := by
  cases k with
  | value =>
    have hne : p ≠ [] := by
      intro h; subst h; simp [rtClass, CPath.toPath] at hclass
    have ⟨h1, h2⟩ := roundtrip_value p hne hr
    exact ⟨_, h1, by simp [roundTripHolds, parseKind, h2, ofPResult, expected]⟩
  | target pfx =>
    cases pfx with
    | event =>
      have ⟨h1, h2⟩ := roundtrip_event p hr
      exact ⟨_, h1, by simp [roundTripHolds, parseKind, h2, ofTResult, expected]⟩
    | metadata =>
      have hne : p ≠ [] := by
        intro h; subst h; simp [rtClass, CPath.toPath] at hclass
      have ⟨h1, h2⟩ := roundtrip_metadata p hne hr
      exact ⟨_, h1, by simp [roundTripHolds, parseKind, h2, ofTResult, expected]⟩

theorem inRange_of_pathInRange (cp : CPath) (h : pathInRange cp.toPath = true) :
    cp.inRange = true := by
  induction cp with
  | nil => rfl
  | cons s r ih =>
    simp only [pathInRange, CPath.toPath, List.map_cons, List.all_cons, Bool.and_eq_true] at h
    have ih' := ih (by simpa [pathInRange, CPath.toPath] using h.2)
    cases s with
    | field cs => simpa [CPath.inRange, CSeg.inRange] using ih'
    | index i =>
      have hi : inIsize i = true := by simpa [CSeg.toSeg] using h.1
      simp only [CPath.inRange, List.all_cons, Bool.and_eq_true]
      exact ⟨hi, ih'⟩

/-- (1) on the byte view: for every `Path` (fields = UTF-8 byte strings as stored in `KeyString`,
    indices in `isize`) outside the finding classes, whatever `render` produces parses back to
    exactly that path. Uses both directions of the UTF-8 correspondence. -/
theorem roundtrip_bytes_partial (k : Kind) (p : Path) (t : List Char)
    (hr : pathInRange p = true) (hclass : rtClass k p = .none)
    (hrender : renderKind k p = some t) : roundTripHolds k p (parseKind k t) = true := by
  have hc : ∃ cp, Path.toC p = some cp := by
    cases h : Path.toC p with
    | some cp => exact ⟨cp, rfl⟩
    | none => cases k <;> simp [renderKind, render, renderTarget, h] at hrender
  obtain ⟨cp, hcp⟩ := hc
  have hp := toPath_of_toC p cp hcp
  subst hp
  obtain ⟨t', h1, h2⟩ := roundtrip_partial k cp (inRange_of_pathInRange cp hr) hclass
  rw [hrender] at h1
  cases h1
  exact h2

/-! ### `Display for OwnedSegment` -/

theorem escapeField_id (cs : List Char) (h : ∀ c ∈ cs, (c == '"' || c == '\\') = false) :
    escapeField cs = cs := by
  induction cs with
  | nil => rfl
  | cons c cs ih =>
    have hc := h c (by simp)
    simp only [escapeField, hc, Bool.false_eq_true, if_false]
    rw [ih (fun d hd => h d (by simp [hd]))]

theorem mem_encode {c : Char} {cs : List Char} (hc : c ∈ cs) {b : Nat}
    (hb : b ∈ Utf8.encodeChar c) : b ∈ Utf8.encode cs := by
  induction cs with
  | nil => simp at hc
  | cons d ds ih =>
    simp only [Utf8.encode, List.mem_append]
    rcases List.mem_cons.mp hc with h | h
    · subst h; exact Or.inl hb
    · exact Or.inr (ih h)

theorem no_special_of_bytes {cs : List Char}
    (h : (Utf8.encode cs).any (fun b => b == 34 || b == 92) = false) :
    ∀ c ∈ cs, (c == '"' || c == '\\') = false := by
  intro c hc
  cases hq : (c == '"' || c == '\\') with
  | false => rfl
  | true =>
    exfalso
    have hall : ∀ b ∈ Utf8.encode cs, (b == 34 || b == 92) = false := by
      simpa [List.any_eq_false] using h
    rcases Bool.or_eq_true _ _ |>.mp hq with h1 | h1
    · have := eq_of_beq h1; subst this
      have := hall 34 (mem_encode hc (by decide))
      simp at this
    · have := eq_of_beq h1; subst this
      have := hall 92 (mem_encode hc (by decide))
      simp at this

/-- (1d, partial) `Display for OwnedSegment` followed by `parse_value_path` gives the one-segment
    path back when the field contains neither `"` nor `\` (hypothesis = complement of the
    finding class `segUnescaped`). -/
theorem roundtrip_segment_partial (s : CSeg) (hr : s.inRange = true)
    (hclass : segUnescaped s.toSeg = false) :
    renderSegment s.toSeg = some (renderSegmentC s) ∧
    segRoundTripHolds s.toSeg (ofPResult (parseValuePath (renderSegmentC s))) = true := by
  have hrender : renderSegment s.toSeg = some (renderSegmentC s) := by
    cases s with
    | field cs => simp [renderSegment, CSeg.toSeg, Seg.toC, Utf8.decode_encode]
    | index i => rfl
  refine ⟨hrender, ?_⟩
  have key : parseValuePath (renderSegmentC s) = .ok [s.toSeg] := by
    cases s with
    | index i =>
      show jit .start ('[' :: (intText i ++ [']'])) = _
      rw [jit_go _ step_start_lbr, jit_indexStart_int i [] hr]
      rfl
    | field cs =>
      have hno := no_special_of_bytes (cs := cs) hclass
      unfold parseValuePath renderSegmentC
      by_cases hv : validField cs = true
      · simp only [hv, if_true]
        have hall : ∀ d ∈ cs, isSerChar d = true := by
          have := (Bool.and_eq_true _ _ |>.mp hv).1
          simpa [List.all_eq_true] using this
        cases cs with
        | nil => simp [validField] at hv
        | cons c cs' =>
          have := jit_field_run cs' [c] [] (fun d hd => jit_of_ser (hall d (by simp [hd])))
          rw [List.append_nil] at this
          rw [jit_go _ (step_start_ser (hall c (by simp))), this]
          rfl
      · simp only [hv]
        have h2 := jit_quote cs [] []
        rw [escapeField_id cs hno] at h2
        rw [if_neg (by simp), jit_go _ step_start_quote, h2]
        rfl
  simp [segRoundTripHolds, key, ofPResult]

/-! ### clause (2) -/

open PathVrl in
/-- (2, partial) the Spec predicate `agreeHolds` (the one the oracle evaluates on the
    implementation's two answers) holds of the two models for every text without `{{` / `\\}}`:
    whenever the VRL-source syntax and the string parser both accept, they denote the same path. -/
theorem agree_partial (t : List Char) (ht : hasTemplate t = false) :
    agreeHolds (vrlPath t) (parseTargetPath t) = true := by
  -- it suffices to show equality of the two target paths when both accept
  suffices h : ∀ tp₁ tp₂, vrlPath t = .path tp₁ → parseTargetPath t = .ok tp₂ → tp₁ = tp₂ by
    unfold agreeHolds
    split
    · next tp₁ tp₂ h1 h2 => simp [h tp₁ tp₂ h1 h2]
    · rfl
  intro tp₁ tp₂ hv hs
  cases t with
  | nil => simp [vrlPath] at hv
  | cons c rest =>
    have htr := (hasTemplate_cons ht).2
    by_cases hb : isBlank c = true
    · -- a leading blank: the string parser rejects
      exfalso
      have hne : (c == '%') = false := beq_false_of_blank hb (by decide)
      have : parseTargetPath (c :: rest) = .err := by
        simp [parseTargetPath, getTargetPrefix, hne, parseValuePath,
          jit_invalid rest (step_blank_start hb), TResult.ofPResult]
      rw [this] at hs
      cases hs
    · have hb' : isBlank c = false := by simpa using hb
      by_cases hd : (c == '.') = true
      · have := eq_of_beq hd; subst this
        have hv' : vrlPath ('.' :: rest) = VTarget.ofVResult .event (vrun .afterPrefix rest) := by
          simp [vrlPath, hb']
        have hne : ('.' == '%') = false := by decide
        have hs' : parseTargetPath ('.' :: rest) = TResult.ofPResult .event (jit .eventRoot rest) := by
          simp [parseTargetPath, getTargetPrefix, hne, parseValuePath, jit_go rest step_start_dot]
        rw [hv'] at hv
        rw [hs'] at hs
        have hsim := sim rest _ _ Rel.preEvent (by simpa [pending] using htr)
        cases h1 : vrun .afterPrefix rest with
        | path p₁ =>
          cases h2 : jit .eventRoot rest with
          | ok p₂ =>
            rw [h1] at hv; rw [h2] at hs
            cases hv; cases hs
            rw [hsim p₁ p₂ h1 h2]
          | err => rw [h2] at hs; cases hs
          | panic => rw [h2] at hs; cases hs
        | nopath => rw [h1] at hv; cases hv
        | panic => rw [h1] at hv; cases hv
      · have hd' : (c == '.') = false := by simpa using hd
        by_cases hp : (c == '%') = true
        · have := eq_of_beq hp; subst this
          have hv' : vrlPath ('%' :: rest) = VTarget.ofVResult .metadata (vrun .afterPrefix rest) := by
            simp [vrlPath, hb', hd']
          have hs' : parseTargetPath ('%' :: rest) = TResult.ofPResult .metadata (jit .start rest) := by
            simp [parseTargetPath, getTargetPrefix, parseValuePath]
          rw [hv'] at hv
          rw [hs'] at hs
          have hsim := sim rest _ _ Rel.preMeta (by simpa [pending] using htr)
          cases h1 : vrun .afterPrefix rest with
          | path p₁ =>
            cases h2 : jit .start rest with
            | ok p₂ =>
              rw [h1] at hv; rw [h2] at hs
              cases hv; cases hs
              rw [hsim p₁ p₂ h1 h2]
            | err => rw [h2] at hs; cases hs
            | panic => rw [h2] at hs; cases hs
          | nopath => rw [h1] at hv; cases hv
          | panic => rw [h1] at hv; cases hv
        · have hp' : (c == '%') = false := by simpa using hp
          simp [vrlPath, hb', hd', hp'] at hv

/-- (2, partial) in words: both accept ⇒ same target path. -/
theorem agree_both_accept (t : List Char) (tp₁ tp₂ : TargetPath) (ht : hasTemplate t = false)
    (hv : PathVrl.vrlPath t = .path tp₁) (hs : parseTargetPath t = .ok tp₂) : tp₁ = tp₂ := by
  have := agree_partial t ht
  rw [hv, hs] at this
  simpa [agreeHolds] using this

end C20
