/-
  C02 – expressions typed infallible never raise a run-time error (float arithmetic whose result
  would be NaN excepted); programs that are typed infallible and contain no `abort` never fail.

  Same model and proof as C01 (`Lang.eval_sound`, VrlProofs/Lemmas/TypeSound.lean): the induction
  carries "a run-time error only if typed fallible, or float arithmetic is involved". `Chk.nan` marks
  every `+ - * /` whose reported kind contains `float` (`Lang.nanFree`: there is none).
  The exception is exactly NaN: `nan_only` (value level, `Op::type_info` vs `Op::resolve`).
  Full strength (every call-free expression, no side condition) is false of the unchanged code:
  VrlProofs/Witness/C02.lean.
-/
import VrlProofs.Lemmas.TypeSound
import VrlProofs.Lemmas.TypeAbort

namespace C02
open Lang Spec

/-- **C02 for one expression** typed in `T`: if it is typed infallible, evaluating it in a state that
    inhabits `T` does not raise a run-time error, unless it contains float arithmetic. -/
def Infallible (e : Expr) (T : TState) : Prop :=
  ∀ s, Conforms s T → (typeInfo e T).1.fallible = false → (eval e s).1 = .err → Chk.nan ∈ checks e T

/-- the property at full strength for the modelled fragment. Not a theorem: `C02.W.not_full`. -/
def Full : Prop := ∀ e T, (checks e T).all (· != .outOfModel) = true → Infallible e T

theorem infallible_partial (e : Expr) (T : TState) (h : safe e T = true) : Infallible e T := by
  intro s hc hf he
  have := eval_sound e T s (allNan_of_all h) hc
  cases hq : eval e s with
  | mk r s' =>
    rw [hq] at this he
    simp only at he
    subst he
    rcases this with h1 | h1
    · rw [hf] at h1; cases h1
    · exact h1

/-- without float arithmetic: never an error -/
theorem infallible_no_float (e : Expr) (T : TState) (h : safe e T = true) (hn : nanFree e T = true)
    (s : St) (hc : Conforms s T) (hf : (typeInfo e T).1.fallible = false) : (eval e s).1 ≠ .err := by
  intro he
  have := infallible_partial e T h s hc hf he
  simp only [nanFree, Bool.not_eq_true', List.contains_eq_mem, decide_eq_false_iff_not] at hn
  exact hn this

/-- **the exception is exactly NaN**: when `+`, `-`, `*` on operands inside their reported kinds is typed
    infallible and fails, the error is `ValueError::NanFloat` (and the reported kind is `float`). -/
theorem nan_only (o : Opcode) (ho : o = .add ∨ o = .sub ∨ o = .mul) (v w : Value) (l r : TypeDef)
    (nf : Bool) (hv : memR v l.kind = true) (hw : memR w r.kind = true) (e : Arith.Err)
    (he : arithFn o v w = .err e) (hinf : (arithDef o l r nf).fallible = false) :
    e = .nanFloat ∧ (arithDef o l r nf).kind.prim.float = true := by
  rcases (arith_sound o ho v w l r nf hv hw).2 e he with h | h
  · rw [hinf] at h; cases h
  · exact h

/-- … and `/` typed infallible (constant non-zero divisor, numeric dividend) fails only with NaN -/
theorem nan_only_div (v w : Value) (l : TypeDef) (rv : Option Value) (hv : memR v l.kind = true)
    (hrv : ∀ c, rv = some c → w = c) (e : Arith.Err) (he : Arith.tryDiv v w = .err e)
    (hinf : divInfallible l rv = true) : e = .nanFloat :=
  (div_sound v w l rv hv hrv).2 e he hinf

/-- **C02 for a program**: typed infallible, no float arithmetic, no `abort` ⇒ the run ends with a
    value (possibly through `return`), neither with an error nor with an abort. -/
theorem program_never_fails (prog : Exprs) (T : TState) (hne : prog ≠ .nil) (h : safeSeq prog T = true)
    (hn : nanFreeSeq prog T = true) (ha : noAbortS prog = true)
    (hf : (typeSeq prog T {}).1.finish.fallible = false) (s : St) (hc : Conforms s T) :
    (run prog s).1 ≠ .error ∧ ∀ m, (run prog s).1 ≠ .abort m := by
  have hc' : Conforms (s.tick 0 false []).2 T := Conforms.of_same (s := s) ⟨rfl, rfl, rfl, rfl⟩ hc
  have hrej : (s.tick 0 false []).1 = false := by simp [St.tick, hc.faults]
  have hs := evalSeq_sound prog T (s.tick 0 false []).2 {} hne rfl (allNan_of_all h) hc'
  have hab := evalSeq_noAbort prog ha (s.tick 0 false []).2
  simp only [nanFreeSeq, Bool.not_eq_true', List.contains_eq_mem, decide_eq_false_iff_not] at hn
  unfold run
  cases ht : s.tick 0 false [] with
  | mk rej s0 =>
    rw [ht] at hrej hs hab
    simp only at hrej hs hab
    subst hrej
    simp only [Bool.false_eq_true, if_false]
    cases hq : evalSeq prog s0 with
    | mk r s1 =>
      rw [hq] at hs hab
      cases r with
      | err =>
        exfalso
        simp only [SeqSound, BlockAcc.finish_fallible] at hs hf
        rcases hs with h1 | h1
        · rw [hf] at h1; cases h1
        · exact hn h1
      | abort m => simp [Res.isAbort] at hab
      | _ => simp

end C02
