/-
  C25 — paired conversion functions are mutually inverse.
  Property theorems only (helper lemmas live in VrlProofs/Lemmas/C25*.lean). Models:
  VrlModel/Conv/{Int,Entries,Flatten,Ip,Time}.lean, tied to src/stdlib/*.rs by the `c25.*`
  correspondence ops; Spec predicates: VrlModel/C25.lean (also evaluated by the `o.c25.*` oracles
  on the implementation).
-/
import VrlModel.C25
import VrlProofs.Lemmas.C25Int
import VrlProofs.Lemmas.C25Entries
import VrlProofs.Lemmas.C25Time
import VrlProofs.Lemmas.C25Ip
import VrlProofs.Lemmas.C25IpInv
import VrlProofs.Lemmas.C25Unflatten
import VrlProofs.Lemmas.C25Total

namespace C25
open Conv

/-! ### format_int / parse_int -/

/-- `format_radix` never panics (the magnitude is taken with `unsigned_abs`; before the repair
    6983af4 `-x` overflowed at `i64::MIN`). -/
theorem formatRadix_never_panics (n : Int) (b : Nat) : formatRadix n b ≠ .panic := by
  rw [formatRadix_eq_signedText]; intro h; cases h

/-- the text `format_int` produces parses back to `n` in the same base:
    every base 2–36, every `i64`, `i64::MIN` included. -/
theorem fromStrRadix_formatRadix (n : Int) (b : Nat) (hb2 : 2 ≤ b) (hb36 : b ≤ 36)
    (hn : inI64 n = true) :
    ∃ s, formatRadix n b = .ok s ∧ fromStrRadix s b = some n :=
  ⟨_, formatRadix_eq_signedText n b, fromStrRadix_signedText n b hb2 hb36 hn⟩

/-- C25 (int): `parse_int(format_int(n, b), b) = n` for every base 2–36 and every `i64`
    (full statement; `i64::MIN` included since the repair 6983af4). -/
theorem parse_format_int (n b : Int) (hd : intDomain n b = true) :
    ∃ s, formatInt (.int n) (.int b) = .ok (.bytes s) ∧
      parseInt (.bytes s) (some (.int b)) = .ok (.int n) := by
  simp only [intDomain, Bool.and_eq_true, decide_eq_true_eq] at hd
  obtain ⟨⟨hn, hb2⟩, hb36⟩ := hd
  obtain ⟨s, hf, hp⟩ := fromStrRadix_formatRadix n b.toNat (by omega) (by omega) hn
  refine ⟨s, ?_, ?_⟩
  · simp [formatInt, hb2, hb36, hf, Res.map]
  · simp [parseInt, hb2, hb36, hp, optToRes, Res.map]

/-- with both `base` arguments absent (`format_int` defaults to 10, `parse_int` detects the base
    from the prefix) the round trip holds as well, for every `i64`. -/
theorem parse_format_int_default (n : Int) (hn : inI64 n = true) :
    ∃ s, formatInt (.int n) (.int 10) = .ok (.bytes s) ∧ parseInt (.bytes s) none = .ok (.int n) := by
  refine ⟨signedText 10 n, ?_, parseInt_auto_signedText n hn⟩
  simp [formatInt, formatRadix_eq_signedText n 10, Res.map]

/-- the same statement through the Spec predicate the oracle evaluates: no exception left. -/
theorem specInt_model (n b : Int) :
    specInt n b (formatInt (.int n) (.int b))
      ((formatInt (.int n) (.int b)).bind fun s => parseInt s (some (.int b))) = true := by
  unfold specInt
  by_cases hd : intDomain n b = true
  · obtain ⟨s, hf, hp⟩ := parse_format_int n b hd
    simp [hf, Res.bind, hp, restores]
  · simp [hd]

/-- `format_int` never panics, whatever its arguments are. -/
theorem format_int_never_panics (v base : Value) : formatInt v base ≠ .panic := by
  unfold formatInt
  cases v <;> try (intro h; cases h)
  cases base <;> try (intro h; cases h)
  simp only
  split
  · rw [formatRadix_eq_signedText]; intro h; cases h
  · intro h; cases h

/-- at `i64::MIN` (the input that used to panic): the full magnitude 2⁶³ is printed. -/
theorem format_int_min :
    formatInt (.int i64Min) (.int 10) = .ok (.bytes
      [45, 57, 50, 50, 51, 51, 55, 50, 48, 51, 54, 56, 53, 52, 55, 55, 53, 56, 48, 56]) ∧
    formatInt (.int i64Min) (.int 16) = .ok (.bytes
      [45, 56, 48, 48, 48, 48, 48, 48, 48, 48, 48, 48, 48, 48, 48, 48, 48]) := by decide

/-- bases outside 2..=36 are an error, never a panic (even for `i64::MIN`). -/
theorem format_int_bad_base (n b : Int) (hb : ¬ (2 ≤ b ∧ b ≤ 36)) :
    formatInt (.int n) (.int b) = .err := by
  simp [formatInt, hb]

/-! ### to_entries / from_entries -/

/-- C25 (entries): `from_entries(to_entries(o)) = o` for every object (keys sorted and valid
    UTF-8, as the implementation holds them), whatever the values. -/
theorem from_to_entries (m : VMap) (hd : entriesDomain m = true) :
    ∃ a, toEntries (.obj m) = .ok a ∧ fromEntries a = .ok (.obj m) := by
  simp only [entriesDomain, Bool.and_eq_true] at hd
  refine ⟨_, rfl, ?_⟩
  have h := fromEntriesLoop_entriesOfMap m .nil hd.1 hd.2 (by cases m <;> rfl)
  simpa [fromEntries, mapAppend] using h

theorem specEntries_model (m : VMap) :
    specEntries m ((toEntries (.obj m)).bind fromEntries) = true := by
  unfold specEntries
  by_cases hd : entriesDomain m = true
  · obtain ⟨a, ha, hb⟩ := from_to_entries m hd
    simp [ha, Res.bind, hb, restores]
  · simp [hd]

/-- `to_entries` also accepts arrays (keys = indices), but `from_entries` rejects what it then
    produces (keys must be strings): the pair is inverse on objects only. -/
theorem to_entries_array_not_invertible (v : Value) (vs : VList) :
    (toEntries (.arr (.cons v vs))).bind fromEntries = .err := by
  simp [toEntries, Res.bind, fromEntries, entriesOfList, buildEntry, fromEntriesLoop, selectKey,
    VMap.get, kKey, kKeyU, kName, kNameU, kValue, List.filterMap, List.find?, keyUsable]

/-! ### to_unix_timestamp / from_unix_timestamp -/

open Time in
/-- C25 (unix, direction 1): `to_unix_timestamp(from_unix_timestamp(n, u), u) = n` for every
    unit and every `i64` that `from_unix_timestamp` accepts. -/
theorem to_from_unix (u : TUnit) (n : Int) (hn : inI64 n = true) (t : Value)
    (h : fromUnix u (.int n) = .ok t) : toUnix u t = .ok (.int n) := by
  by_cases hu : u = .nanoseconds
  · subst hu
    simp only [fromUnix, Res.ok.injEq] at h
    subst h
    simp [toUnix, hn]
  · by_cases hr : tsInRange (n * u.ns) = true
    · rw [fromUnix_of_inRange u n hu hr] at h
      cases h
      rw [toUnix_of_ne_ns u _ hu]
      congr 2
      rcases ns_of_ne u hu with h | h | h <;> rw [h] <;> omega
    · rw [fromUnix_of_not_inRange u n hu hr] at h
      cases h

open Time in
/-- C25 (unix, direction 2): for a timestamp in range, `from(to(t))` is `t` rounded down to a
    multiple of the unit (`to` is a floor division, also for negative `t`); the only failure is
    `to` in nanoseconds outside the `i64` range. -/
theorem from_to_unix_floor (u : TUnit) (t : Int) (ht : tsInRange t = true)
    (hns : u = .nanoseconds → inI64 t = true) :
    ∃ n, toUnix u (.ts t) = .ok (.int n) ∧ fromUnix u (.int n) = .ok (.ts (t - t % u.ns)) := by
  by_cases hu : u = .nanoseconds
  · subst hu
    refine ⟨t, ?_, ?_⟩
    · simp [toUnix, hns rfl]
    · simp [fromUnix, TUnit.ns]
  · refine ⟨_, toUnix_of_ne_ns u t hu, ?_⟩
    rw [tsInRange_iff] at ht
    have hval : t / u.ns * u.ns = t - t % u.ns := by
      rcases ns_of_ne u hu with h | h | h <;> rw [h] <;> omega
    have hr : tsInRange (t / u.ns * u.ns) = true := by
      rw [tsInRange_iff, hval]
      rcases ns_of_ne u hu with h | h | h <;> rw [h] <;> omega
    rw [fromUnix_of_inRange u _ hu hr, hval]

open Time in
/-- … hence `from(to(t)) = t` exactly for the timestamps that are multiples of the unit. -/
theorem from_to_unix_iff (u : TUnit) (t : Int) (ht : tsInRange t = true)
    (hns : u = .nanoseconds → inI64 t = true) :
    ((toUnix u (.ts t)).bind (fromUnix u) = .ok (.ts t)) ↔ t % u.ns = 0 := by
  obtain ⟨n, h1, h2⟩ := from_to_unix_floor u t ht hns
  simp only [h1, Res.bind, h2, Res.ok.injEq, Value.ts.injEq]
  omega

open Time in
theorem specUnix_model (u : TUnit) (t : Int) :
    specUnix u t (toUnix u (.ts t)) ((toUnix u (.ts t)).bind (fromUnix u)) = true := by
  unfold specUnix
  by_cases ht : tsInRange t = true
  · by_cases hns : u = .nanoseconds → inI64 t = true
    · obtain ⟨n, h1, h2⟩ := from_to_unix_floor u t ht hns
      simp [h1, Res.bind, h2, restores]
    · have hu : u = .nanoseconds := by
        cases u <;> simp_all
      subst hu
      have hi : inI64 t = false := by simpa using hns
      simp [toUnix, hi]
  · simp [ht]

open Time in
theorem specUnixInv_model (u : TUnit) (n : Int) :
    specUnixInv n (fromUnix u (.int n)) ((fromUnix u (.int n)).bind (toUnix u)) = true := by
  unfold specUnixInv
  by_cases hn : inI64 n = true
  · cases hf : fromUnix u (.int n) with
    | ok t => simp [Res.bind, to_from_unix u n hn t hf, restores]
    | err => simp
    | panic => simp
  · simp [hn]

/-! ### flatten / unflatten -/

open Flat in
/-- C25 (flatten): `unflatten(flatten(o, sep), sep, recursive) = o` for every non-empty valid
    separator, either value of `recursive`, and every object `o` of the domain `flatOKM`:
    along the object spine keys are `sepFree` (do not contain the separator, and no occurrence
    straddles the join) and sorted, and nested objects are non-empty. Arrays — with whatever
    they contain — are leaves for both functions and come back unchanged. No depth bound. -/
theorem unflatten_flatten (sep : Key) (m : VMap) (r : Bool) (hne : sep ≠ [])
    (hfix : Utf8.fixed sep = true) (hok : flatOKM sep m = true) :
    ∃ f, flatten (.obj m) (.bytes sep) [] = .ok f ∧
      unflatten f (.bytes sep) (.bool r) = .ok (.obj m) := by
  simp only [Utf8.fixed, beq_iff_eq] at hfix
  refine ⟨.obj (ofList (F sep m)), by simp [flatten, bytesLossy, hfix], ?_⟩
  have hperm := toList_ofList_perm (F sep m) (F_nodup sep hne m hok)
  have hlen : ∀ e ∈ toList (ofList (F sep m)), e.1.length < weight (.obj (ofList (F sep m))) + 1 := by
    intro e he
    have := key_lt_weightM _ e he
    simp only [weight]
    omega
  have h := unflattenStep_spec sep hne r (weight (.obj (ofList (F sep m))))
    (fun es' => unflattenEntries (weight (.obj (ofList (F sep m)))) sep r es')
    (fun m' es' h1 h2 h3 h4 => unflattenEntries_spec sep hne r _ m' es' h1 h2 h3 h4)
    m _ hok hperm hlen
  simp only [unflatten, bytesLossy, hfix, hne, ↓reduceIte, unflattenEntries, h]

open Flat in
/-- with a non-empty (valid UTF-8) separator `unflatten` never exhausts its depth bound: the
    model's `.panic` outcome — the stack overflow of the real function — needs `separator: ""`
    (witness `witness_empty_separator_overflow`). For every object, any `recursive`. -/
theorem unflatten_no_overflow (sep : Key) (m : VMap) (r : Bool) (hne : sep ≠ [])
    (hfix : Utf8.fixed sep = true) :
    ∃ m', unflatten (.obj m) (.bytes sep) (.bool r) = .ok (.obj m') := by
  simp only [Utf8.fixed, beq_iff_eq] at hfix
  have h := unflattenEntries_isSome sep hne r (weight (.obj m) + 1) (toList m) (by
    rw [mu_toList]; simp only [weight]; omega)
  obtain ⟨m', hm'⟩ := Option.isSome_iff_exists.mp h
  exact ⟨m', by simp [unflatten, bytesLossy, hfix, hne, hm']⟩

/-- the domain as the property words it ("keys contain no separator, no empty containers"),
    minus the finding class `D_sep_overlap`, is inside the domain of the theorem. -/
theorem flatOKM_of_stated (sep : Key) : (m : VMap) → VMap.Sorted m = true → statedOKM sep m = true →
    D_sep_overlapM sep m = false → flatOKM sep m = true
  | .nil, _, _, _ => rfl
  | .cons k v rest, hs, hst, hd => by
    simp only [VMap.Sorted, Bool.and_eq_true] at hs
    simp only [statedOKM, Bool.and_eq_true] at hst
    simp only [D_sep_overlapM, Bool.or_eq_false_iff, Bool.and_eq_false_iff, Bool.not_eq_false'] at hd
    have hk : sepFree sep k = true := by
      rcases hd.1.1 with h | h
      · rw [hst.1.1] at h; cases h
      · exact h
    have hv : flatOKV sep v = true := by
      cases v with
      | obj m' =>
        simp only [statedOK, Bool.and_eq_true] at hst
        simp only [Value.Sorted] at hs
        simp only [D_sep_overlapV] at hd
        simp only [flatOKV, Bool.and_eq_true]
        exact ⟨hst.1.2.1, flatOKM_of_stated sep m' hs.1.1 hst.1.2.2 hd.1.2⟩
      | _ => rfl
    simp only [flatOKM, Bool.and_eq_true]
    exact ⟨⟨⟨hk, hv⟩, hs.1.2⟩, flatOKM_of_stated sep rest hs.2 hst.2 hd.2⟩

theorem specFlatten_partial (sep : Key) (m : VMap) (r : Bool) (hfix : Utf8.fixed sep = true)
    (hd : D_sep_overlapM sep m = false) :
    specFlatten sep m ((Flat.flatten (.obj m) (.bytes sep) []).bind fun f =>
      Flat.unflatten f (.bytes sep) (.bool r)) = true := by
  unfold specFlatten
  by_cases hne : sep = []
  · simp [hne]
  · have hdom : ∀ (h : flatOKM sep m = true), restores
        ((Flat.flatten (.obj m) (.bytes sep) []).bind fun f =>
          Flat.unflatten f (.bytes sep) (.bool r)) (.obj m) = true := by
      intro h
      obtain ⟨f, h1, h2⟩ := unflatten_flatten sep m r hne hfix h
      simp [h1, Res.bind, h2, restores]
    by_cases h1 : flatOKM sep m = true
    · simp [hdom h1]
    · by_cases h2 : VMap.Sorted m = true ∧ statedOKM sep m = true
      · exact absurd (flatOKM_of_stated sep m h2.1 h2.2 hd) h1
      · have : (VMap.Sorted m && statedOKM sep m) = false := by
          cases hs : VMap.Sorted m <;> cases ht : statedOKM sep m <;> simp_all
        simp [h1, this]

/-! ### ip_aton / ip_ntoa, ip_pton / ip_ntop, mapped addresses -/

open Ip in
/-- C25 (aton): `ip_aton(ip_ntoa(n)) = n` for every `u32`. -/
theorem aton_ntoa (n : Int) (h0 : 0 ≤ n) (h1 : n ≤ 4294967295) :
    ∃ s, ipNtoa (.int n) = .ok (.bytes s) ∧ ipAton (.bytes s) = .ok (.int n) := by
  refine ⟨showV4 (octetsOfU32 n.toNat), by simp [ipNtoa, h0, h1], ?_⟩
  have hlt := octetsOfU32_lt n.toNat
  have hu := u32_octets n.toNat (by omega)
  simp only [octetsOfU32] at hlt hu ⊢
  have ha := hlt (n.toNat / 16777216 % 256) (by simp)
  have hb := hlt (n.toNat / 65536 % 256) (by simp)
  have hc := hlt (n.toNat / 256 % 256) (by simp)
  have hd := hlt (n.toNat % 256) (by simp)
  have hl := lossy_ascii _ (showV4_ascii _ _ _ _ ha hb hc hd)
  simp only [ipAton, bytesLossy, hl, parseV4_showV4 _ _ _ _ ha hb hc hd, hu]
  congr 2
  omega

open Ip in
/-- C25 (aton, other direction): `ip_ntoa(ip_aton(s)) = s` for every byte string `s` that
    `ip_aton` accepts — std's parser admits only the canonical dotted quad (no leading zeros,
    no octet above 255, nothing else around), which is what `Display` prints. -/
theorem ntoa_aton (s : List Nat) (n : Int) (h : ipAton (.bytes s) = .ok (.int n)) :
    ipNtoa (.int n) = .ok (.bytes s) := by
  simp only [ipAton, bytesLossy] at h
  cases hp : parseV4 (Utf8.lossy s) with
  | none => simp [hp] at h
  | some o =>
    simp only [hp, Res.ok.injEq, Value.int.injEq] at h
    obtain ⟨a, b, c, d, ho, ha, hb, hc, hd, hs⟩ := parseV4_inv _ o hp
    have hascii : ∀ x ∈ Utf8.lossy s, x < 128 := by
      rw [hs]; exact showV4_ascii a b c d ha hb hc hd
    have hss : s = showV4 [a, b, c, d] := by
      rw [← lossy_ascii_out s hascii]; exact hs
    obtain ⟨h1, h2⟩ := octets_u32 a b c d ha hb hc hd
    subst ho
    rw [← h]
    have hnn : (0 : Int) ≤ (u32OfOctets [a, b, c, d] : Nat) := by omega
    have hle : ((u32OfOctets [a, b, c, d] : Nat) : Int) ≤ 4294967295 := by omega
    simp only [ipNtoa, hnn, hle, and_self, ↓reduceIte, Int.toNat_natCast, h1, hss]

open Ip in
/-- C25 (pton, text direction, IPv4): `ip_ntop(ip_pton(s)) = s` for every text that parses as an
    IPv4 address. -/
theorem ntop_pton_v4 (t : V6Text) (s o : List Nat) (hp : parseV4 (Utf8.lossy s) = some o) :
    ∃ b, ipPton t (.bytes s) = .ok (.bytes b) ∧ ipNtop t (.bytes b) = .ok (.bytes s) := by
  obtain ⟨a, b, c, d, ho, ha, hb, hc, hd, hs⟩ := parseV4_inv _ o hp
  have hascii : ∀ x ∈ Utf8.lossy s, x < 128 := by
    rw [hs]; exact showV4_ascii a b c d ha hb hc hd
  have hss : s = showV4 [a, b, c, d] := by
    rw [← lossy_ascii_out s hascii]; exact hs
  refine ⟨[a, b, c, d], ?_, ?_⟩
  · simp only [ipPton, bytesLossy, hs, parseIp_showV4 t a b c d ha hb hc hd]
  · simp [ipNtop, hss]

theorem specNtoa_model (s : List Nat) :
    specNtoa s (Ip.ipAton (.bytes s)) ((Ip.ipAton (.bytes s)).bind Ip.ipNtoa) = true := by
  unfold specNtoa
  cases h : Ip.ipAton (.bytes s) with
  | ok v =>
    have hv : ∃ n, v = .int n := by
      simp only [Ip.ipAton] at h
      split at h
      · split at h
        · cases h; exact ⟨_, rfl⟩
        · cases h
      · cases h
    obtain ⟨n, rfl⟩ := hv
    simp [Res.bind, ntoa_aton s n h, restores]
  | err => rfl
  | panic => rfl

theorem specAton_model (n : Int) :
    specAton n ((Ip.ipNtoa (.int n)).bind Ip.ipAton) = true := by
  unfold specAton
  by_cases h0 : 0 ≤ n <;> by_cases h1 : n ≤ 4294967295 <;> simp only [h0, h1, decide_true,
    decide_false, Bool.and_self, Bool.and_false, Bool.false_and, Bool.not_true, Bool.not_false,
    Bool.true_or, Bool.false_or]
  obtain ⟨s, h1, h2⟩ := aton_ntoa n h0 h1
  simp [h1, Res.bind, h2, restores]

open Ip in
/-- C25 (pton, 4 bytes): `ip_pton(ip_ntop(b)) = b` for every 4-byte string — whatever the IPv6
    text parameter is. -/
theorem pton_ntop_v4 (t : V6Text) (a b c d : Nat) (ha : a < 256) (hb : b < 256) (hc : c < 256)
    (hd : d < 256) :
    ∃ s, ipNtop t (.bytes [a, b, c, d]) = .ok (.bytes s) ∧ ipPton t (.bytes s) = .ok (.bytes [a, b, c, d]) := by
  refine ⟨showV4 [a, b, c, d], by simp [ipNtop], ?_⟩
  have hl := lossy_ascii _ (showV4_ascii _ _ _ _ ha hb hc hd)
  simp [ipPton, bytesLossy, hl, parseIp_showV4 t a b c d ha hb hc hd]

open Ip in
/-- C25 (pton, 16 bytes): `ip_pton(ip_ntop(b)) = b` for every 16-byte string on whose address
    std's IPv6 `Display`/parser pair satisfies its law (`v6ok`: the parameter's assumption). -/
theorem pton_ntop_v6 (t : V6Text) (b : List Nat) (hl : b.length = 16) (ho : octets b = true)
    (hlaw : v6ok t (segsOfBytes b) = true) :
    ∃ s, ipNtop t (.bytes b) = .ok (.bytes s) ∧ ipPton t (.bytes s) = .ok (.bytes b) := by
  simp only [v6ok, Bool.and_eq_true, List.all_eq_true, decide_eq_true_eq, Option.isNone_iff_eq_none,
    beq_iff_eq] at hlaw
  obtain ⟨⟨hascii, hv4⟩, hrt⟩ := hlaw
  simp only [octets, List.all_eq_true, decide_eq_true_eq] at ho
  refine ⟨t.show6 (segsOfBytes b), by simp [ipNtop, hl], ?_⟩
  have hls := lossy_ascii _ hascii
  simp [ipPton, bytesLossy, hls, parseIp, hv4, hrt, bytesOfSegs_segsOfBytes b (by omega) ho]

open Ip in
/-- C25 (mapped): `ipv6_to_ipv4(ip_to_ipv6(s)) = s` for the text `s` of every IPv4 address,
    under the law of the IPv6 text parameter at the mapped address `::ffff:a.b.c.d`. -/
theorem mapped_roundtrip (t : V6Text) (a b c d : Nat) (ha : a < 256) (hb : b < 256) (hc : c < 256)
    (hd : d < 256) (hlaw : v6ok t (mapped [a, b, c, d]) = true) :
    ∃ s, ipToIpv6 t (.bytes (showV4 [a, b, c, d])) = .ok (.bytes s) ∧
      ipv6ToIpv4 t (.bytes s) = .ok (.bytes (showV4 [a, b, c, d])) := by
  have h1 : (a * 256 + b) / 256 = a := by omega
  have h2 : (a * 256 + b) % 256 = b := by omega
  have h3 : (c * 256 + d) / 256 = c := by clear h1 h2; omega
  have h4 : (c * 256 + d) % 256 = d := by clear h1 h2 h3; omega
  simp only [v6ok, Bool.and_eq_true, List.all_eq_true, decide_eq_true_eq, Option.isNone_iff_eq_none,
    beq_iff_eq] at hlaw
  obtain ⟨⟨hascii, hv4⟩, hrt⟩ := hlaw
  have hl := lossy_ascii _ (showV4_ascii _ _ _ _ ha hb hc hd)
  refine ⟨t.show6 (mapped [a, b, c, d]), ?_, ?_⟩
  · simp [ipToIpv6, bytesLossy, hl, parseIp_showV4 t a b c d ha hb hc hd]
  · have hls := lossy_ascii _ hascii
    simp only [ipv6ToIpv4, bytesLossy, hls, parseIp, hv4, hrt, Option.map_some]
    simp [mapped, toIpv4, h1, h2, h3, h4]

/-! ### format_timestamp / parse_timestamp (vrl's glue over the chrono parameter) -/

open Time in
/-- C25 (timestamp): for a format that carries a UTC offset (`format_has_zone`), any timezone
    argument on either side and any configured zone, `parse_timestamp(format_timestamp(t, f, tz), f, tz')`
    is `t` whenever chrono's formatter/parser pair satisfies its law at `(zone, t, f)` — the
    glue neither loses the sub-second part nor re-interprets the instant in `tz'`/the configured
    zone, and does not panic. -/
theorem parse_format_timestamp (c : Chrono) (ctx z : Zone) (t : Int) (f : List Nat)
    (tz tz' : Option Value) (ht : tsInRange t = true) (hf : Utf8.fixed f = true)
    (hz : formatHasZone f = true) (hzone : zoneOfArg c tz = some z)
    (hacc : tzAccepted c tz' = true) (hlaw : tsLaw c z t f = true) :
    ∃ s, formatTimestamp c (.ts t) (.bytes f) tz = .ok (.bytes s) ∧
      parseTimestamp c ctx (.bytes s) (.bytes f) tz' = .ok (.ts t) := by
  rw [tsInRange_iff] at ht
  simp only [Utf8.fixed, beq_iff_eq] at hf
  unfold tsLaw at hlaw
  cases hfm : c.format z t f with
  | none => simp [hfm] at hlaw
  | some txt =>
    simp only [hfm, Bool.and_eq_true, Utf8.fixed, beq_iff_eq] at hlaw
    obtain ⟨⟨hvalid, htxt⟩, hparse⟩ := hlaw
    refine ⟨txt, ?_, ?_⟩
    · -- format side
      cases tz with
      | none =>
        simp only [zoneOfArg, Option.some.injEq] at hzone
        subst hzone
        simp [formatTimestamp, bytesLossy, hf, tzArg, hvalid, hfm, toStringOrPanic]
      | some v =>
        cases v <;> simp only [zoneOfArg, reduceCtorEq] at hzone
        simp [formatTimestamp, bytesLossy, hf, tzArg, hvalid, hzone, hfm, toStringOrPanic]
    · -- parse side
      have hdt : datetimeToUtc (t / 1000000000, (t % 1000000000).toNat) = .ok (.ts t) := by
        unfold datetimeToUtc
        simp only [Res.ok.injEq, Value.ts.injEq]
        omega
      cases tz' with
      | none =>
        simp [parseTimestamp, bytesLossy, hf, tzArg, hz, htxt, hparse, hdt]
      | some v =>
        simp only [tzAccepted, Option.isNone_some, Bool.false_or, Option.isSome_iff_exists] at hacc
        obtain ⟨z', hz'⟩ := hacc
        cases v <;> simp only [zoneOfArg, reduceCtorEq] at hz'
        simp [parseTimestamp, bytesLossy, hf, tzArg, hz', hz, htxt, hparse, hdt]

end C25
