/-
  C11 — Arithmetic follows the documented numeric semantics.
  Property theorems only (helper lemmas: VrlProofs/Lemmas/{F64,Arith}.lean).
  Model: VrlModel/Arith.lean (`try_add/sub/mul/div/rem`, `float_result`) over the soft-float
  VrlModel/F64.lean.  Spec: VrlModel/C11.lean (`expected`: integers through `BitVec 64`, strings
  through `List`, floats through the IEEE operations of `F64`; `model op` = the code's model).

  (1) int_add / int_sub / int_mul     = the `BitVec 64` operation, all `Int` pairs;
      wrap64_range / wrap64_congr / wrap64_id : the result is THE i64 congruent mod 2^64
  (2) div_by_zero_iff, div_yields_float, int_div_int : `/` fails with DivideByZero iff the divisor is
      0 / ±0.0, any other result is a (non-NaN) float, two integers always divide to a float
  (3) mixed_is_float_op               int ⊙ float = float ⊙ float on the converted integer, 5 operators
  (4) add_strings                     `+` concatenates, `null` acting as the empty string
  (5) mul_repeat_partial / mul_repeat_panics_iff   `s * n` = `s` repeated max(n,0) times unless the
      result exceeds isize::MAX bytes, where the code panics (FALSE without the hypothesis:
      Witness/C11.lean `repeat_capacity_witness`, class `D_capacity`)
  (6) never_nan, float_*_fails_iff    an ok float result is never NaN; the NaN-producing operand
      pairs (∞−∞, 0·∞, ∞/∞, ∞ mod y) are exactly the ones that fail with NanFloat
  (7) int_rem, int_rem_sign, int_rem_min_neg_one, float_rem_sign    truncated remainder
  (8) expected_sound_partial          the model meets the whole Spec `expected`, every operator and
      operand pair outside `D_capacity`
-/
import VrlProofs.Lemmas.Arith

namespace C11
open Arith

/-! ### (1) integers wrap -/

theorem int_add (a b : Int) : tryAdd (.int a) (.int b) = .ok (.int (bv a + bv b).toInt) := by
  simp [tryAdd, wrap64, bv, BitVec.toInt_add, BitVec.toInt_ofInt, Int.bmod_add_bmod, Int.add_bmod_bmod]

theorem int_sub (a b : Int) : trySub (.int a) (.int b) = .ok (.int (bv a - bv b).toInt) := by
  simp [trySub, wrap64, bv, BitVec.toInt_sub, BitVec.toInt_ofInt, Int.bmod_sub_bmod, Int.sub_bmod_bmod]

theorem int_mul (a b : Int) : tryMul (.int a) (.int b) = .ok (.int (bv a * bv b).toInt) := by
  simp [tryMul, wrap64, bv, BitVec.toInt_mul, BitVec.toInt_ofInt, Int.bmod_mul_bmod, Int.mul_bmod_bmod]

/-- the wrapped result is an `i64` … -/
theorem wrap64_range (x : Int) : inI64 (wrap64 x) = true := by
  rw [inI64_iff]
  simp only [wrap64, Int.bmod_def]
  split <;> omega

/-- … congruent to the exact result modulo 2^64 … -/
theorem wrap64_congr (x : Int) : (wrap64 x - x) % 18446744073709551616 = 0 := by
  simp only [wrap64, Int.bmod_def]
  split <;> omega

/-- … hence the exact result whenever that fits. -/
theorem wrap64_id (x : Int) (h : inI64 x = true) : wrap64 x = x := by
  rw [inI64_iff] at h
  simp only [wrap64, Int.bmod_def]
  split <;> omega

/-- the `Int`-level reading of (1): `+ - *` are exact arithmetic followed by `wrap64`. -/
theorem int_ops_wrap (a b : Int) :
    tryAdd (.int a) (.int b) = .ok (.int (wrap64 (a + b))) ∧
    trySub (.int a) (.int b) = .ok (.int (wrap64 (a - b))) ∧
    tryMul (.int a) (.int b) = .ok (.int (wrap64 (a * b))) := by
  simp [tryAdd, trySub, tryMul]

/-! ### (2) division -/

/-- is `b` a numeric zero (`0`, `0.0`, `-0.0`)? -/
def numZero : Value → Bool
  | .int i => decide (i = 0)
  | .float r => F64.isZero r
  | _ => false

/-- `/` fails with DivideByZero exactly when the divisor is a numeric zero (whatever the dividend). -/
theorem div_by_zero_iff (a b : Value) (hb : C10.floatsOK b = true) :
    tryDiv a b = .err .divideByZero ↔ numZero b = true := by
  cases b
  case int r =>
    simp only [tryDiv, numZero, decide_eq_true_eq]
    by_cases h : r = 0
    · simp [h]
    · simp only [h, if_false, iff_false]
      cases a <;> simp [floatResult] <;> (try split) <;> (try split) <;> simp
  case float r =>
    simp only [C10.floatsOK, Bool.and_eq_true, Bool.not_eq_true'] at hb
    simp only [tryDiv, numZero, eq_zero_iff r hb.2]
    cases h : F64.isZero r
    · simp only [Bool.false_eq_true, if_false, iff_false]
      cases a <;> simp [floatResult] <;> (try split) <;> (try split) <;> simp
    · simp
  all_goals (cases a <;> simp [tryDiv, numZero])

/-- whatever `/` returns successfully is a float, and not NaN. -/
theorem div_yields_float (a b v : Value) (h : tryDiv a b = .ok v) :
    ∃ r, v = .float r ∧ F64.isNaN r = false := by
  cases b <;> cases a <;> simp only [tryDiv] at h <;> (try split at h) <;>
    first
      | exact floatResult_ok_float _ _ h
      | cases h

/-- two integers with a non-zero divisor always divide to a float (no NaN, no error). -/
theorem int_div_int (a b : Int) (ha : inI64 a = true) (hb : inI64 b = true) (h0 : b ≠ 0) :
    ∃ r, tryDiv (.int a) (.int b) = .ok (.float r) ∧ F64.div (F64.ofInt a) (F64.ofInt b) = some r := by
  have na := inI64_natAbs a ha
  have nb := inI64_natAbs b hb
  cases hd : F64.div (F64.ofInt a) (F64.ofInt b) with
  | none =>
    rw [F64.div_none_iff _ _ (F64.ofInt_notNaN a) (F64.ofInt_notNaN b)] at hd
    rw [F64.ofInt_isInf a na, F64.ofInt_isZero b nb] at hd
    simp [h0] at hd
  | some r =>
    refine ⟨r, ?_, rfl⟩
    simp [tryDiv, h0, hd, floatResult_some r (F64.div_notNaN _ _ _ hd)]

/-! ### (3) mixed operands -/

/-- any operation mixing an integer and a float equals the float operation on the converted integer. -/
theorem mixed_is_float_op (op : Op5) (a : Int) (y : Nat) (ha : inI64 a = true) :
    model op (.int a) (.float y) = model op (.float (F64.ofInt a)) (.float y) ∧
    model op (.float y) (.int a) = model op (.float y) (.float (F64.ofInt a)) := by
  have hz : F64.eq (F64.ofInt a) 0 = decide (a = 0) := by
    rw [eq_zero_iff _ (F64.ofInt_notNaN a), F64.ofInt_isZero a (inI64_natAbs a ha)]
  cases op <;> simp [model, tryAdd, trySub, tryMul, tryDiv, tryRem, hz]

/-! ### (4) strings -/

theorem add_strings (s t : List Nat) :
    tryAdd (.bytes s) (.bytes t) = .ok (.bytes (s ++ t)) ∧
    tryAdd (.bytes s) .null = .ok (.bytes (s ++ [])) ∧
    tryAdd .null (.bytes t) = .ok (.bytes ([] ++ t)) := by
  simp [tryAdd]

/-! ### (5) repetition -/

theorem replicateBytes_eq (s : List Nat) (n : Int) :
    replicateBytes s n = (List.replicate (max n 0).toNat s).flatten := by
  unfold replicateBytes
  split
  · rename_i h
    have : s = [] := by simpa using h
    subst this; simp
  · rfl

theorem repeatBytes_spec (s : List Nat) (n : Int) :
    repeatBytes s n = if D_capacity s n then .panic else .ok (.bytes (replicateBytes s n)) := by
  unfold repeatBytes D_capacity replicateBytes i64Max
  by_cases hn : n < 0
  · have hm : max n 0 = 0 := by omega
    simp [hn, hm]
  · have hm : max n 0 = (n.toNat : Int) := by omega
    simp only [hn, if_false, hm, Int.toNat_natCast]
    by_cases hk : n.toNat = 0
    · simp [hk]
    · by_cases hs : s.isEmpty = true
      · have : s = [] := by simpa using hs
        subst this; simp
      · simp only [hk, hs, decide_false, Bool.or_self, Bool.false_eq_true, if_false, Int.natCast_mul,
          decide_eq_true_eq, concatN_eq]

/-- `s * n` and `n * s` are `s` repeated `max n 0` times, unless the result would exceed
    `isize::MAX` bytes. -/
theorem mul_repeat_partial (s : List Nat) (n : Int) (h : D_capacity s n = false) :
    tryMul (.bytes s) (.int n) = .ok (.bytes (replicateBytes s n)) ∧
    tryMul (.int n) (.bytes s) = .ok (.bytes (replicateBytes s n)) := by
  simp [tryMul, repeatBytes_spec, h]

/-- the code panics exactly on the class `D_capacity`. -/
theorem mul_repeat_panics_iff (s : List Nat) (n : Int) :
    (tryMul (.bytes s) (.int n) = .panic ↔ D_capacity s n = true) ∧
    (tryMul (.int n) (.bytes s) = .panic ↔ D_capacity s n = true) := by
  simp only [tryMul, repeatBytes_spec]
  cases D_capacity s n <;> simp

/-- nothing else in the arithmetic panics. -/
theorem panic_only_repeat (op : Op5) (a b : Value) (h : model op a b = .panic) :
    op = .mul ∧ D_capacityV a b = true := by
  cases op <;> cases a <;> cases b <;>
    simp only [model, tryAdd, trySub, tryMul, tryDiv, tryRem, floatResult] at h <;>
    (try split at h) <;> (try split at h) <;> (try split at h) <;> (try cases h) <;>
    (try (simp only [repeatBytes_spec] at h; split at h <;> simp_all [D_capacityV]))

/-! ### (6) a float result is never NaN -/

theorem never_nan (op : Op5) (a b : Value) (r : Nat) (h : model op a b = .ok (.float r)) :
    F64.isNaN r = false := by
  cases op <;> cases a <;> cases b <;>
    simp only [model, tryAdd, trySub, tryMul, tryDiv, tryRem] at h <;>
    (try split at h) <;>
    first
      | exact floatResult_ok _ _ h
      | (simp only [repeatBytes_spec] at h; split at h <;> cases h)
      | cases h

/-- `x + y` fails with NanFloat exactly for `∞ + −∞` (either order). -/
theorem float_add_fails_iff (x y : Nat) (hx : F64.isNaN x = false) (hy : F64.isNaN y = false) :
    tryAdd (.float x) (.float y) = .err .nanFloat ↔
      (F64.isInf x = true ∧ F64.isInf y = true ∧ F64.signBit x ≠ F64.signBit y) := by
  rw [← F64.add_none_iff x y hx hy]
  cases h : F64.add x y with
  | none => simp [tryAdd, floatResult, h]
  | some r => simp [tryAdd, floatResult_some r (F64.add_notNaN _ _ _ h), h]

/-- `x * y` fails with NanFloat exactly for `0 · ∞`. -/
theorem float_mul_fails_iff (x y : Nat) (hx : F64.isNaN x = false) (hy : F64.isNaN y = false) :
    tryMul (.float x) (.float y) = .err .nanFloat ↔
      ((F64.isInf x = true ∧ F64.isZero y = true) ∨ (F64.isZero x = true ∧ F64.isInf y = true)) := by
  rw [← F64.mul_none_iff x y hx hy]
  cases h : F64.mul x y with
  | none => simp [tryMul, floatResult, h]
  | some r => simp [tryMul, floatResult_some r (F64.mul_notNaN _ _ _ h), h]

/-- `x / y` (y not a zero) fails with NanFloat exactly for `∞ / ∞`. -/
theorem float_div_fails_iff (x y : Nat) (hx : F64.isNaN x = false) (hy : F64.isNaN y = false)
    (hz : F64.isZero y = false) :
    tryDiv (.float x) (.float y) = .err .nanFloat ↔ (F64.isInf x = true ∧ F64.isInf y = true) := by
  have hd := F64.div_none_iff x y hx hy
  simp only [hz, Bool.false_eq_true, and_false, or_false] at hd
  rw [← hd]
  have he : F64.eq y 0 = false := by rw [eq_zero_iff y hy]; exact hz
  cases h : F64.div x y with
  | none => simp [tryDiv, floatResult, h, he]
  | some r => simp [tryDiv, floatResult_some r (F64.div_notNaN _ _ _ h), h, he]

/-- `mod(x, y)` (y not a zero) fails with NanFloat exactly for an infinite dividend. -/
theorem float_rem_fails_iff (x y : Nat) (hx : F64.isNaN x = false) (hy : F64.isNaN y = false)
    (hz : F64.isZero y = false) :
    tryRem (.float x) (.float y) = .err .nanFloat ↔ F64.isInf x = true := by
  have hd := F64.rem_none_iff x y hx hy
  simp only [hz, Bool.false_eq_true, or_false] at hd
  rw [← hd]
  have he : F64.eq y 0 = false := by rw [eq_zero_iff y hy]; exact hz
  cases h : F64.rem x y with
  | none => simp [tryRem, floatResult, h, he]
  | some r => simp [tryRem, floatResult_some r (F64.rem_notNaN _ _ _ h), h, he]

/-! ### (7) remainder -/

theorem int_rem (a b : Int) :
    tryRem (.int a) (.int b) = if b = 0 then .err .divideByZero else .ok (.int (Int.tmod a b)) := by
  simp only [tryRem]

/-- truncated remainder: `a = b·q + r` with `q` the quotient rounded towards zero, `|r| < |b|`,
    and `r` has the sign of the dividend (or is zero); the result is an `i64`. -/
theorem int_rem_sign (a b : Int) (hb : b ≠ 0) :
    b * Int.tdiv a b + Int.tmod a b = a ∧ (Int.tmod a b).natAbs < b.natAbs ∧
    (0 ≤ a → 0 ≤ Int.tmod a b) ∧ (a ≤ 0 → Int.tmod a b ≤ 0) ∧
    (inI64 a = true → inI64 (Int.tmod a b) = true) := by
  have h2 : (Int.tmod a b).natAbs < b.natAbs := by
    rw [Int.natAbs_tmod]; exact Nat.mod_lt _ (by omega)
  have h3 : 0 ≤ a → 0 ≤ Int.tmod a b := fun h => Int.tmod_nonneg b h
  have h4 : a ≤ 0 → Int.tmod a b ≤ 0 := by
    intro h
    have := Int.tmod_nonneg (a := -a) b (by omega)
    rw [Int.neg_tmod] at this; omega
  have h5 : (Int.tmod a b).natAbs ≤ a.natAbs := by
    rw [Int.natAbs_tmod]; exact Nat.mod_le _ _
  refine ⟨Int.mul_tdiv_add_tmod a b, h2, h3, h4, ?_⟩
  intro ha
  rw [inI64_iff] at ha ⊢
  by_cases hs : 0 ≤ a
  · have := h3 hs; omega
  · have := h4 (by omega); omega

/-- `i64::MIN % -1` is `0` (no overflow, no panic). -/
theorem int_rem_min_neg_one :
    tryRem (.int (-9223372036854775808)) (.int (-1)) = .ok (.int 0) := by decide

/-- float remainder carries the sign of the dividend. -/
theorem float_rem_sign (x y r : Nat) (h : tryRem (.float x) (.float y) = .ok (.float r)) :
    F64.signBit r = F64.signBit x := by
  simp only [tryRem] at h
  split at h
  · cases h
  · exact F64.rem_sign _ _ _ (floatResult_ok_eq _ _ h)

/-! ### (8) the model meets the Spec -/

theorem ofFloat_eq (o : Option Nat) : ofFloat o = floatResult o := rfl

theorem floatSpec_model (op : Op5) (x y : Nat) (hy : F64.isNaN y = false) :
    model op (.float x) (.float y) = floatSpec op x y := by
  have he := eq_zero_iff y hy
  cases op <;> simp [model, floatSpec, f64op, ofFloat_eq, tryAdd, trySub, tryMul, tryDiv, tryRem, he] <;>
    split <;> rfl

/-- The model (hence, through the correspondence, the code) meets the documented semantics on every
    operand pair the property speaks about, except the repeat sizes of class `D_capacity`. -/
theorem expected_sound_partial (op : Op5) (a b : Value) (e : Res Value)
    (ha : scalarOK a = true) (hb : scalarOK b = true)
    (hD : op = .mul → D_capacityV a b = false)
    (he : expected op a b = some e) : model op a b = e := by
  cases a <;> cases b
  case int.int x y =>
    simp only [scalarOK] at ha hb
    cases op <;> simp only [expected, Option.some.injEq] at he <;> subst he
    · exact int_add x y
    · exact int_sub x y
    · exact int_mul x y
    · by_cases h0 : y = 0
      · simp [model, tryDiv, h0]
      · have h1 := (mixed_is_float_op .div y (F64.ofInt x) hb).2
        simp only [h0, if_false]
        rw [← floatSpec_model .div _ _ (F64.ofInt_notNaN y), ← h1]
        simp [model, tryDiv, h0]
    · simp [model, int_rem]
  case int.float x y =>
    simp only [scalarOK, Bool.and_eq_true, Bool.not_eq_true'] at ha hb
    have he' : e = floatSpec op (F64.ofInt x) y := by
      cases op <;> simp only [expected, Option.some.injEq] at he <;> exact he.symm
    subst he'
    rw [(mixed_is_float_op op x y ha).1]; exact floatSpec_model op _ _ hb.2
  case float.int x y =>
    simp only [scalarOK, Bool.and_eq_true, Bool.not_eq_true'] at ha hb
    have he' : e = floatSpec op x (F64.ofInt y) := by
      cases op <;> simp only [expected, Option.some.injEq] at he <;> exact he.symm
    subst he'
    rw [(mixed_is_float_op op y x hb).2]; exact floatSpec_model op _ _ (F64.ofInt_notNaN y)
  case float.float x y =>
    simp only [scalarOK, Bool.and_eq_true, Bool.not_eq_true'] at ha hb
    have he' : e = floatSpec op x y := by
      cases op <;> simp only [expected, Option.some.injEq] at he <;> exact he.symm
    subst he'
    exact floatSpec_model op _ _ hb.2
  case int.bytes n s =>
    cases op <;> simp only [expected, Option.some.injEq, reduceCtorEq] at he
    subst he
    exact (mul_repeat_partial s n (by simpa [D_capacityV] using hD rfl)).2
  case bytes.int s n =>
    cases op <;> simp only [expected, Option.some.injEq, reduceCtorEq] at he
    subst he
    exact (mul_repeat_partial s n (by simpa [D_capacityV] using hD rfl)).1
  case bytes.bytes s t =>
    cases op <;> simp only [expected, Option.some.injEq, reduceCtorEq] at he
    subst he; exact (add_strings s t).1
  case bytes.null s =>
    cases op <;> simp only [expected, Option.some.injEq, reduceCtorEq] at he
    subst he; exact (add_strings s []).2.1
  case null.bytes t =>
    cases op <;> simp only [expected, Option.some.injEq, reduceCtorEq] at he
    subst he; exact (add_strings [] t).2.2
  all_goals (cases op <;> simp [expected] at he)

end C11
