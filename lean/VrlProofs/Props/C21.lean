/-
  C21 — JSON encoding round-trips.

  Model: `VrlModel/Json.lean` (`encodeJson` = `encode_json`, `parseJson` = `parse_json` without
  `max_depth`, `serToString`/`deFromSlice` = `serde_json::to_string{,_pretty}(&Value)` /
  `serde_json::from_slice::<Value>`).  Float printing and number → float conversion are the
  parameters `P.showF`, `P.parseF` (`zmij`, `serde_json`); their laws are hypotheses.

  Full-strength statement (`Roundtrip`): for every JSON-representable value, both printer modes and
  both `lossy` settings, `parse_json(encode_json(v))` is `v` up to one ulp in each float.  On the
  pinned tree it is false for two reasons, both witnessed in `Witness/C21.lean` and re-observed on
  the implementation: `serde_json` refuses documents nested 128 deep or more (`D_json_recursion_limit`),
  and its default float conversion is off by 2 ulp on ~0.2 % of doubles (`D_json_float_2ulp`).
  The `_partial` theorems carry exactly these two restrictions: `depth v ≤ 127`, and the float law
  as a hypothesis on the primitives.
-/
import VrlProofs.Lemmas.JsonValid

namespace C21
open Json

/-- precise float parsing: the printed text is a float token and converts back to the same double -/
def FloatLawExact (P : Prims) : Prop :=
  ∀ x, x < F64.p64 → F64.isFinite x = true → FloatTextOK P x ∧ P.parseF (P.showF x) = some x

/-- default float parsing as the property allows it: back within `k` units in the last place -/
def FloatLawUlp (k : Nat) (P : Prims) : Prop :=
  ∀ x, x < F64.p64 → F64.isFinite x = true → FloatTextOK P x ∧ ulpDist x (readBack P x) ≤ k

/-- the property at full strength (false of the pinned tree, see the header) -/
def Roundtrip (P : Prims) : Prop :=
  ∀ (pretty lossy : Bool) (v : Value), jsonRepr v = true →
    ∃ w, parseJson P lossy (encodeJson P pretty v) = some w ∧ approx 1 v w = true

/-- the same through serde directly -/
def SerdeRoundtrip (P : Prims) : Prop :=
  ∀ (pretty : Bool) (v : Value), jsonRepr v = true →
    ∃ w, deFromSlice P (serToString P pretty v) = some w ∧ approx 1 v w = true

/-! ### general form: what comes back is the value with every float printed and converted -/

/-- serde path: `from_slice(to_string(v))` is `v` with each float replaced by its read-back. -/
theorem serde_roundtrip_general (P : Prims) (pretty : Bool) (v : Value)
    (hr : jsonRepr v = true) (hf : AllFloats (FloatTextOK P) v) (hd : depth v ≤ 127) :
    deFromSlice P (serToString P pretty v) = some (mapFloats (readBack P) v) := by
  have h := parse_pv P false pretty v 0 (fuelFor (pv P pretty 0 v)) 128 [] hr hf (by omega) rfl
    (by simp only [fuelFor, List.append_nil]; omega)
  rw [List.append_nil] at h
  simp [deFromSlice, deFrom, serToString, h, skipWs]

/-- `parse_json(encode_json(v, pretty), lossy)`: the lossy conversion and the BOM stripping leave the
    printer's output alone, then as the serde path. -/
theorem parse_encode_general (P : Prims) (pretty lossy : Bool) (v : Value)
    (hr : jsonRepr v = true) (hf : AllFloats (FloatTextOK P) v) (hd : depth v ≤ 127) :
    parseJson P lossy (encodeJson P pretty v) = some (mapFloats (readBack P) v) := by
  obtain ⟨c, r, hcr, hc⟩ := pv_head P pretty 0 v hr hf
  have hs := serde_roundtrip_general P pretty v hr hf hd
  unfold serToString at hs
  cases lossy
  · simp only [parseJson, encodeJson, serToString, Bool.false_eq_true, ↓reduceIte]
    rw [hcr, stripBomBytes_start c r hc, ← hcr]; exact hs
  · simp only [parseJson, encodeJson, serToString, ↓reduceIte]
    rw [utf8Lossy_valid _ (valid_pv P pretty v 0 hr hf), hcr, stripBomStr_start c r hc, ← hcr]; exact hs

/-! ### float-free values: exact round trip, no assumption on the float primitives -/

theorem roundtrip_floatfree_partial (P : Prims) (pretty lossy : Bool) (v : Value)
    (hr : jsonRepr v = true) (hff : floatFree v = true) (hd : depth v ≤ 127) :
    parseJson P lossy (encodeJson P pretty v) = some v := by
  rw [parse_encode_general P pretty lossy v hr (allFloats_of_floatFree _ v hff) hd,
    mapFloats_id _ v (allFloats_of_floatFree _ v hff)]

theorem serde_roundtrip_floatfree_partial (P : Prims) (pretty : Bool) (v : Value)
    (hr : jsonRepr v = true) (hff : floatFree v = true) (hd : depth v ≤ 127) :
    deFromSlice P (serToString P pretty v) = some v := by
  rw [serde_roundtrip_general P pretty v hr (allFloats_of_floatFree _ v hff) hd,
    mapFloats_id _ v (allFloats_of_floatFree _ v hff)]

/-! ### values with floats, precise float parsing -/

theorem roundtrip_precise_partial (P : Prims) (hlaw : FloatLawExact P) (pretty lossy : Bool) (v : Value)
    (hr : jsonRepr v = true) (hd : depth v ≤ 127) :
    parseJson P lossy (encodeJson P pretty v) = some v := by
  have hf := allFloats_of_repr (FloatTextOK P) (fun x h1 h2 => (hlaw x h1 h2).1) v hr
  have hid := allFloats_of_repr (fun x => readBack P x = x)
    (fun x h1 h2 => by simp [readBack, (hlaw x h1 h2).2]) v hr
  rw [parse_encode_general P pretty lossy v hr hf hd, mapFloats_id _ v hid]

theorem serde_roundtrip_precise_partial (P : Prims) (hlaw : FloatLawExact P) (pretty : Bool) (v : Value)
    (hr : jsonRepr v = true) (hd : depth v ≤ 127) :
    deFromSlice P (serToString P pretty v) = some v := by
  have hf := allFloats_of_repr (FloatTextOK P) (fun x h1 h2 => (hlaw x h1 h2).1) v hr
  have hid := allFloats_of_repr (fun x => readBack P x = x)
    (fun x h1 h2 => by simp [readBack, (hlaw x h1 h2).2]) v hr
  rw [serde_roundtrip_general P pretty v hr hf hd, mapFloats_id _ v hid]

/-! ### values with floats, float parsing good to `k` ulp (the property allows `k = 1`) -/

theorem roundtrip_ulp_partial (P : Prims) (k : Nat) (hlaw : FloatLawUlp k P) (pretty lossy : Bool) (v : Value)
    (hr : jsonRepr v = true) (hd : depth v ≤ 127) :
    ∃ w, parseJson P lossy (encodeJson P pretty v) = some w ∧ approx k v w = true := by
  have hf := allFloats_of_repr (FloatTextOK P) (fun x h1 h2 => (hlaw x h1 h2).1) v hr
  have hu := allFloats_of_repr (fun x => ulpDist x (readBack P x) ≤ k) (fun x h1 h2 => (hlaw x h1 h2).2) v hr
  exact ⟨_, parse_encode_general P pretty lossy v hr hf hd, approx_mapFloats k _ v hu⟩

theorem serde_roundtrip_ulp_partial (P : Prims) (k : Nat) (hlaw : FloatLawUlp k P) (pretty : Bool) (v : Value)
    (hr : jsonRepr v = true) (hd : depth v ≤ 127) :
    ∃ w, deFromSlice P (serToString P pretty v) = some w ∧ approx k v w = true := by
  have hf := allFloats_of_repr (FloatTextOK P) (fun x h1 h2 => (hlaw x h1 h2).1) v hr
  have hu := allFloats_of_repr (fun x => ulpDist x (readBack P x) ≤ k) (fun x h1 h2 => (hlaw x h1 h2).2) v hr
  exact ⟨_, serde_roundtrip_general P pretty v hr hf hd, approx_mapFloats k _ v hu⟩

/-- the oracle evaluated by the check (`roundTripClass`) reports nothing where the theorems apply -/
theorem oracle_silent (P : Prims) (hlaw : FloatLawUlp 1 P) (pretty lossy : Bool) (v : Value)
    (hd : depth v ≤ 127) :
    roundTripClass v (parseJson P lossy (encodeJson P pretty v)) = none := by
  unfold roundTripClass
  by_cases hr : jsonRepr v = true
  · obtain ⟨w, hw, ha⟩ := roundtrip_ulp_partial P 1 hlaw pretty lossy v hr hd
    simp [hr, hw, ha]
  · simp [hr]

/-- the serde path and `parse_json ∘ encode_json` agree wherever the theorems apply -/
theorem serde_same (P : Prims) (pretty lossy : Bool) (v : Value)
    (hr : jsonRepr v = true) (hf : AllFloats (FloatTextOK P) v) (hd : depth v ≤ 127) :
    parseJson P lossy (encodeJson P pretty v) = deFromSlice P (serToString P pretty v) := by
  rw [parse_encode_general P pretty lossy v hr hf hd, serde_roundtrip_general P pretty v hr hf hd]

/-- a document that opens 128 brackets in a row is rejected, whatever follows (recursion limit) -/
theorem deep_rejected (P : Prims) (X : List Nat) :
    deFromSlice P (List.replicate 128 91 ++ X) = none := by
  unfold deFromSlice deFrom
  rw [parseValue_deep P.parseF false 128 128 _ X (by omega) (by omega)]

end C21
