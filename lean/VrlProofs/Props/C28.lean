import VrlModel.C28
namespace C28
theorem placeholder : True := trivial
end C28
