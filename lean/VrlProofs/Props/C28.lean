/-
  C28 — string and collection functions obey their algebraic laws.

  Every theorem is about the executable models of `VrlModel/Str/*.lean` and `VrlModel/Coll.lean`
  (tied to src/stdlib/*.rs by the `c28.*` correspondence ops) and holds for ALL inputs.  The laws
  are the decidable Spec predicates of `VrlModel/C28.lean`, the same the oracle `o.c28.*` evaluates
  on the real functions.  Unicode case mapping is a parameter (`CaseMap`); its laws are the
  hypotheses `LawfulUpper` / `LawfulLower`, satisfied by the ASCII instance (non-vacuity) and
  sampled exhaustively on the implementation.
-/
import VrlProofs.Lemmas.C28Str
import VrlProofs.Lemmas.C28Ci
import VrlProofs.Lemmas.C28Coll

namespace C28
open Str Coll

/-! ### upcase / downcase are idempotent -/

theorem upcase_idempotent (cm : CaseMap) (h : LawfulUpper cm) (v r : Value)
    (hr : upcaseV cm v = .ok r) : upcaseV cm r = .ok r := by
  cases v <;> simp [upcaseV] at hr
  subst hr
  rename_i b
  simp only [upcaseV, upcase, R.ok.injEq, Value.bytes.injEq]
  rw [decode_encode _ (upcaseCp_scalar cm h _ (decode_scalar b)), upcaseCp_idem cm h]

theorem downcase_idempotent (cm : CaseMap) (h : LawfulLower cm) (v r : Value)
    (hr : downcaseV cm v = .ok r) : downcaseV cm r = .ok r := by
  cases v <;> simp [downcaseV] at hr
  subst hr
  rename_i b
  simp only [downcaseV, downcase, R.ok.injEq, Value.bytes.injEq]
  have hsc : ∀ d ∈ downcaseCp cm (decodeLossy b), isScalar d = true :=
    downcaseGo_scalar cm h _ [] (decode_scalar b)
  rw [decode_encode _ hsc, downcaseCp_idem cm h]

/-- the laws are satisfiable: ASCII case mapping (identity elsewhere) meets both. -/
theorem ascii_lawful : LawfulUpper CaseMap.ascii ∧ LawfulLower CaseMap.ascii :=
  ⟨ascii_lawfulUpper, ascii_lawfulLower⟩

/-! ### strip_whitespace removes exactly the leading and trailing whitespace -/

theorem strip_whitespace_spec (b : List Nat) :
    ∃ r, stripWhitespace (.bytes b) = .ok (.bytes r) ∧ specTrim (decodeLossy b) (decodeLossy r) = true := by
  refine ⟨_, rfl, ?_⟩
  have hsc : ∀ c ∈ trimCp (decodeLossy b), isScalar c = true := by
    intro c hc
    apply decode_scalar b
    unfold trimCp dropWs at hc
    rw [List.mem_reverse] at hc
    have := (List.dropWhile_sublist _).subset hc
    rw [List.mem_reverse] at this
    exact (List.dropWhile_sublist _).subset this
  rw [decode_encode _ hsc]
  exact specTrim_trimCp _

/-! ### join(split(s, d), d) = s -/

/-- for every delimiter (the empty one included) and every limit ≥ 1 (absent = 999 999 999):
    joining the pieces with the delimiter gives back the string (`from_utf8_lossy` of the bytes). -/
theorem join_split (s d : List Nat) (limit : Option Value)
    (hl : limit = none ∨ ∃ n : Int, 1 ≤ n ∧ limit = some (.int n)) :
    ∃ arr, split (.bytes s) (.bytes d) limit = some (.ok arr) ∧
      join arr (some (.bytes d)) = .ok (.bytes (lossy s)) := by
  obtain ⟨n, hn, hlim⟩ : ∃ n : Nat, 1 ≤ n ∧
      split (.bytes s) (.bytes d) limit = some (.ok (.arr (bytesArr (splitCp n (decodeLossy d) (decodeLossy s))))) := by
    rcases hl with rfl | ⟨n, hn, rfl⟩
    · exact ⟨999999999, by omega, rfl⟩
    · refine ⟨n.toNat, by omega, ?_⟩
      have : ¬ n < 0 := by omega
      simp [split, this]
  refine ⟨_, hlim, ?_⟩
  have hj := join_splitCp n hn (decodeLossy d) (decodeLossy s)
  have hsc : ∀ p ∈ splitCp n (decodeLossy d) (decodeLossy s), ∀ c ∈ p, isScalar c = true := by
    intro p hp c hc
    apply decode_scalar s
    rw [← hj]
    exact mem_joinCp _ _ p hp c hc
  simp only [join, itemsCp_bytesArr _ hsc, hj, lossy]

/-- on valid UTF-8 the law is literally `join(split(s, d), d) == s`. -/
theorem join_split_valid (s d : List Nat) (hs : isValid s = true) :
    ∃ arr, split (.bytes s) (.bytes d) none = some (.ok arr) ∧
      join arr (some (.bytes d)) = .ok (.bytes s) := by
  obtain ⟨arr, h1, h2⟩ := join_split s d none (Or.inl rfl)
  refine ⟨arr, h1, ?_⟩
  have : lossy s = s := by simpa [isValid] using hs
  rw [h2, this]

/-! ### starts_with / ends_with / contains agree with substring position: case-sensitive mode -/

theorem caseArg_sensitive (cs : Option Value) (h : cs = none ∨ cs = some (.bool true)) : caseArg cs = some true := by
  rcases h with rfl | rfl <;> rfl

/-- `ends_with`: the substring occurs at position `len(value) − len(substring)` (chars view). -/
theorem ends_with_spec (cm : CaseMap) (v s : List Nat) (cs : Option Value)
    (h : cs = none ∨ cs = some (.bool true)) :
    ∃ b, endsWith cm (.bytes v) (.bytes s) cs = .ok (.bool b) ∧
      specEndsWith (decodeLossy v) (decodeLossy s) b = true := by
  refine ⟨_, by simp [endsWith, caseArg_sensitive cs h, convertToString]; rfl, ?_⟩
  simp [specEndsWith, isSuffixOf_eq_subAt]

/-- `contains`: the substring occurs at some position. -/
theorem contains_spec (cm : CaseMap) (v s : List Nat) (cs : Option Value)
    (h : cs = none ∨ cs = some (.bool true)) :
    ∃ b, contains cm (.bytes v) (.bytes s) cs = .ok (.bool b) ∧
      specContains (decodeLossy v) (decodeLossy s) b = true := by
  refine ⟨_, by simp [contains, caseArg_sensitive cs h, convertToString]; rfl, ?_⟩
  simp [specContains, containsCp_eq]

/-- `starts_with` compares the raw bytes: the substring occurs at byte position 0. -/
theorem starts_with_spec_bytes (cm : CaseMap) (v s : List Nat) (cs : Option Value)
    (h : cs = none ∨ cs = some (.bool true)) :
    ∃ b, startsWith cm (.bytes v) (.bytes s) cs = .ok (.bool b) ∧ specStartsWith v s b = true := by
  simp only [startsWith, caseArg_sensitive cs h, startsWithBytes, if_true]
  refine ⟨_, rfl, ?_⟩
  rw [isPrefixOf_eq_subAt]
  simp only [specStartsWith, subAt, Nat.zero_add, beq_iff_eq]
  cases decide (s.length ≤ v.length) <;> simp

theorem decode_append_valid (s t : List Nat) (hs : isValid s = true) :
    decodeLossy (s ++ t) = decodeLossy s ++ decodeLossy t := by
  have hv : encode (decodeLossy s) = s := by simpa [isValid, lossy] using hs
  have key : ∀ (cs : List Nat), (∀ c ∈ cs, isScalar c = true) → ∀ rest,
      decodeGo none (encode cs ++ rest) = cs ++ decodeGo none rest := by
    intro cs
    induction cs with
    | nil => intros; rfl
    | cons c cs ih =>
      intro h rest
      rw [encode, List.append_assoc, decodeGo_encodeCp c (h c (by simp)), ih (fun d hd => h d (by simp [hd]))]
      rfl
  conv => lhs; rw [← hv]
  exact key _ (decode_scalar s) t

/-- on valid UTF-8 (where the three functions look at the same string) `starts_with` agrees
    with position 0 of the chars view, like `ends_with` / `contains`.  Outside: `witness_starts_with_raw`. -/
theorem starts_with_spec_partial (cm : CaseMap) (v s : List Nat) (cs : Option Value)
    (h : cs = none ∨ cs = some (.bool true)) (hv : isValid v = true) (hs : isValid s = true) :
    ∃ b, startsWith cm (.bytes v) (.bytes s) cs = .ok (.bool b) ∧
      specStartsWith (decodeLossy v) (decodeLossy s) b = true := by
  obtain ⟨b, hb, hspec⟩ := starts_with_spec_bytes cm v s cs h
  refine ⟨b, hb, ?_⟩
  have ev : encode (decodeLossy v) = v := by simpa [isValid, lossy] using hv
  have es : encode (decodeLossy s) = s := by simpa [isValid, lossy] using hs
  simp only [specStartsWith, beq_iff_eq] at hspec ⊢
  rw [hspec, ← isPrefixOf_eq_subAt, ← isPrefixOf_eq_subAt, Bool.eq_iff_iff,
    List.isPrefixOf_iff_prefix, List.isPrefixOf_iff_prefix]
  constructor
  · rintro ⟨t, rfl⟩
    exact ⟨decodeLossy t, (decode_append_valid s t hs).symm⟩
  · rintro ⟨u, hu⟩
    refine ⟨encode u, ?_⟩
    rw [← ev, ← hu, encode_append, es]

/-! ### case-insensitive mode (`case_sensitive: false`)

  `ends_with` / `contains` lower-case both strings and look for the position there.  Since 2b95bd7
  `starts_with` requires, char by char, a partner with the same lower-case expansion
  (`starts_with_ci_charwise`); on valid UTF-8 that is the position-0 law of the lower-cased strings
  whenever lower-casing is char-wise, one char each (`starts_with_ci_spec_partial`), and it never
  reports a prefix the lower-cased strings do not have unless a `Σ` is involved
  (`starts_with_ci_sound_partial`).  Outside: `witness_starts_with_ci_{invalid,sigma,expansion}`. -/

theorem ends_with_ci_spec (cm : CaseMap) (v s : List Nat) :
    ∃ b, endsWith cm (.bytes v) (.bytes s) (some (.bool false)) = .ok (.bool b) ∧
      specEndsWith (downcaseCp cm (decodeLossy v)) (downcaseCp cm (decodeLossy s)) b = true := by
  refine ⟨_, by simp [endsWith, caseArg, convertToString]; rfl, ?_⟩
  simp [specEndsWith, isSuffixOf_eq_subAt]

theorem contains_ci_spec (cm : CaseMap) (v s : List Nat) :
    ∃ b, contains cm (.bytes v) (.bytes s) (some (.bool false)) = .ok (.bool b) ∧
      specContains (downcaseCp cm (decodeLossy v)) (downcaseCp cm (decodeLossy s)) b = true := by
  refine ⟨_, by simp [contains, caseArg, convertToString]; rfl, ?_⟩
  simp [specContains, containsCp_eq]

/-- on valid UTF-8, case-insensitive `starts_with` is exactly the char-wise comparison: every char
    of the substring has, at the same index of the value, a char with the same complete lower-case
    expansion (in particular the value has at least as many chars). -/
theorem starts_with_ci_charwise (cm : CaseMap) (hcm : AsciiLower cm) (v s : List Nat)
    (hv : isValid v = true) (hs : isValid s = true) :
    startsWith cm (.bytes v) (.bytes s) (some (.bool false)) =
      .ok (.bool (ciPrefix cm (decodeLossy s) (decodeLossy v))) := by
  have ev : encode (decodeLossy v) = v := by simpa [isValid, lossy] using hv
  have es : encode (decodeLossy s) = s := by simpa [isValid, lossy] using hs
  have hl : (decodeLossy s).length < s.length + 1 := by
    have := length_le_encode (decodeLossy s)
    rw [es] at this; omega
  have := ciAll_encode cm hcm (decodeLossy s) (decodeLossy v) (s.length + 1)
    (decode_scalar s) (decode_scalar v) hl
  rw [ev, es] at this
  simp [startsWith, caseArg, startsWithBytes, this]

/-- where lower-casing is char-wise and one char each (no `Σ`, no `İ`) `starts_with` obeys the
    same law as `ends_with_ci_spec` / `contains_ci_spec`: position 0 of the lower-cased strings. -/
theorem starts_with_ci_spec_partial (cm : CaseMap) (hcm : AsciiLower cm) (v s : List Nat)
    (hv : isValid v = true) (hs : isValid s = true)
    (lv : simpleLower cm (decodeLossy v) = true) (ls : simpleLower cm (decodeLossy s) = true) :
    ∃ b, startsWith cm (.bytes v) (.bytes s) (some (.bool false)) = .ok (.bool b) ∧
      specStartsWith (downcaseCp cm (decodeLossy v)) (downcaseCp cm (decodeLossy s)) b = true := by
  refine ⟨_, starts_with_ci_charwise cm hcm v s hv hs, ?_⟩
  simp only [simpleLower, Bool.and_eq_true] at lv ls
  rw [specStartsWith, ← isPrefixOf_eq_subAt, downcaseCp_noSigma cm _ lv.1, downcaseCp_noSigma cm _ ls.1,
    beq_iff_eq, Bool.eq_iff_iff, List.isPrefixOf_iff_prefix]
  exact ⟨ciPrefix_sound cm _ _, ciPrefix_complete cm _ _ ls.2 lv.2⟩

/-- without `Σ` a `true` of `starts_with` is a `true` of the law, multi-char lower-case
    expansions included: the only deviation left there is a missed match (`witness_starts_with_ci_expansion`). -/
theorem starts_with_ci_sound_partial (cm : CaseMap) (hcm : AsciiLower cm) (v s : List Nat)
    (hv : isValid v = true) (hs : isValid s = true)
    (nv : noSigma (decodeLossy v) = true) (ns : noSigma (decodeLossy s) = true)
    (h : startsWith cm (.bytes v) (.bytes s) (some (.bool false)) = .ok (.bool true)) :
    specStartsWith (downcaseCp cm (decodeLossy v)) (downcaseCp cm (decodeLossy s)) true = true := by
  rw [starts_with_ci_charwise cm hcm v s hv hs] at h
  simp only [R.ok.injEq, Value.bool.injEq] at h
  rw [specStartsWith, ← isPrefixOf_eq_subAt, downcaseCp_noSigma cm _ nv, downcaseCp_noSigma cm _ ns,
    beq_iff_eq, eq_comm, List.isPrefixOf_iff_prefix]
  exact ciPrefix_sound cm _ _ h

/-! ### truncate never yields more characters than the limit plus the suffix -/

theorem truncate_strlen (s : List Nat) (l : Int) (suffix : Option Value) (sfx : List Nat)
    (hs : suffix = none ∧ sfx = [] ∨ suffix = some (.bytes sfx)) :
    ∃ r n m, truncate (.bytes s) (.int l) suffix = .ok (.bytes r) ∧
      strlen (.bytes r) = .ok (.int n) ∧ strlen (.bytes sfx) = .ok (.int m) ∧
      specTruncate l n m = true := by
  have ht : truncate (.bytes s) (.int l) suffix =
      .ok (.bytes (encode (truncateCp (limitNat l) (decodeLossy sfx) (decodeLossy s)))) := by
    rcases hs with ⟨rfl, rfl⟩ | rfl <;> rfl
  refine ⟨_, _, _, ht, rfl, rfl, ?_⟩
  have hsc : ∀ c ∈ truncateCp (limitNat l) (decodeLossy sfx) (decodeLossy s), isScalar c = true := by
    intro c hc
    unfold truncateCp at hc
    split at hc
    · rcases List.mem_append.mp hc with h | h
      · exact decode_scalar s c (List.mem_of_mem_take h)
      · exact decode_scalar sfx c h
    · exact decode_scalar s c hc
  rw [decode_encode _ hsc]
  simp only [specTruncate, decide_eq_true_eq]
  unfold truncateCp limitNat
  split <;> split <;> simp <;> omega

/-! ### strlen counts Unicode scalar values -/

theorem countLeads_encodeCp (c : Nat) (h : isScalar c = true) : countLeads (encodeCp c) = 1 := by
  rw [isScalar_iff] at h
  unfold encodeCp countLeads
  split
  · have h1 : (c / 64 != 2) = true := by simp; omega
    simp [List.filter, h1]
  · split
    · have h1 : (192 + c / 64) / 64 = 3 := by omega
      have h2 : (128 + c % 64) / 64 = 2 := by omega
      simp [List.filter, h1, h2]
    · split
      · have h1 : (224 + c / 4096) / 64 = 3 := by omega
        have h2 : (128 + c / 64 % 64) / 64 = 2 := by omega
        have h3 : (128 + c % 64) / 64 = 2 := by omega
        simp [List.filter, h1, h2, h3]
      · have h1 : (240 + c / 262144) / 64 = 3 := by omega
        have h2 : (128 + c / 4096 % 64) / 64 = 2 := by omega
        have h3 : (128 + c / 64 % 64) / 64 = 2 := by omega
        have h4 : (128 + c % 64) / 64 = 2 := by omega
        simp [List.filter, h1, h2, h3, h4]

theorem countLeads_encode : (cs : List Nat) → (∀ c ∈ cs, isScalar c = true) → countLeads (encode cs) = cs.length
  | [], _ => rfl
  | c :: cs, h => by
    have h1 := countLeads_encodeCp c (h c (by simp))
    have h2 := countLeads_encode cs (fun d hd => h d (by simp [hd]))
    unfold countLeads at *
    simp only [encode, List.filter_append, List.length_append, h1, h2, List.length_cons]
    omega

/-- `strlen` = number of scalar values of the string = number of non-continuation bytes of its UTF-8. -/
theorem strlen_spec (s : List Nat) : ∃ n, strlen (.bytes s) = .ok (.int n) ∧ specStrlen s n = true := by
  refine ⟨_, rfl, ?_⟩
  simp [specStrlen, lossy, countLeads_encode _ (decode_scalar s)]

theorem strlen_scalars (cs : List Nat) (h : ∀ c ∈ cs, isScalar c = true) :
    strlen (.bytes (encode cs)) = .ok (.int cs.length) := by
  simp [strlen, decode_encode cs h]

/-! ### slice agrees with positional indexing (both signs) -/

def endArg (e : Option Int) : Option Value := e.map Value.int

theorem slice_bytes_spec (b : List Nat) (start : Int) (e : Option Int) :
    ∃ w : Option (List Nat), slice (.bytes b) (.int start) (endArg e) =
        (match w with | some w => .ok (.bytes w) | none => .err) ∧
      specSliceL b start e w = true := by
  refine ⟨(sliceRange start e b.length).map fun p => (b.drop p.1).take (p.2 - p.1), ?_, specSliceL_ok b start e⟩
  cases e <;> simp only [slice, endArg, Option.map] <;> cases sliceRange start _ b.length <;> rfl

theorem slice_array_spec (xs : VList) (start : Int) (e : Option Int) :
    ∃ w : Option (List Value), slice (.arr xs) (.int start) (endArg e) =
        (match w with | some w => .ok (.arr (ofList w)) | none => .err) ∧
      specSliceL (toList xs) start e w = true := by
  refine ⟨(sliceRange start e (toList xs).length).map fun p => ((toList xs).drop p.1).take (p.2 - p.1), ?_,
    specSliceL_ok (toList xs) start e⟩
  rw [length_toList]
  cases e <;> simp only [slice, endArg, Option.map] <;> cases sliceRange start _ xs.length <;> rfl

/-! ### unique: no duplicates, first occurrences, in order -/

theorem unique_spec (xs : VList) :
    ∃ out, unique (.arr xs) = .ok (.arr (ofList out)) ∧ specUnique (toList xs) out = true :=
  ⟨_, rfl, specUnique_ok _⟩

/-- what `specUnique` says, spelled out: the output has no two equal elements … -/
theorem unique_nodup (xs : List Value) : distinct (uniqueL xs) = true := distinct_uniqueGo xs []

/-! ### compact removes exactly the empty items it is configured to -/

/-- for every combination of the six options (`recursive null string object array nullish`). -/
theorem compact_spec (o : CompactOptions) (v : Value) (hv : (∃ xs, v = .arr xs) ∨ (∃ m, v = .obj m)) :
    ∃ w, compact v (some (.bool o.recursive)) (some (.bool o.null)) (some (.bool o.string))
        (some (.bool o.object)) (some (.bool o.array)) (some (.bool o.nullish)) = .ok w ∧
      specCompact o v w = true := by
  rcases hv with ⟨xs, rfl⟩ | ⟨m, rfl⟩
  · exact ⟨_, rfl, specCompact_list o xs⟩
  · exact ⟨_, rfl, specCompact_map o m⟩

/-- absent options take their defaults (`true` except `nullish`). -/
theorem compact_defaults (v : Value) :
    compact v none none none none none none =
      compact v (some (.bool true)) (some (.bool true)) (some (.bool true)) (some (.bool true))
        (some (.bool true)) (some (.bool false)) := rfl

/-! ### keys / values / length agree with the object -/

theorem keys_values_length_spec (m : VMap) (h : m.Sorted = true) :
    ∃ ks vs n, keys (.obj m) = .ok (.arr (ofList ks)) ∧ values (.obj m) = .ok (.arr (ofList vs)) ∧
      length (.obj m) = .ok (.int n) ∧ specKVL m ks vs n = true :=
  ⟨_, _, _, rfl, rfl, rfl, specKVL_ok m h⟩

/-! ### merge(a, b) has b's values on shared keys -/

theorem merge_spec (a b : VMap) (hb : b.Sorted = true) (deep : Option Value) (d : Bool)
    (hd : optBool false deep = some d) :
    ∃ r, merge (.obj a) (.obj b) deep = .ok (.obj r) ∧ specMerge d a b r = true := by
  refine ⟨mergeMaps d a b, by simp [merge, hd], specMerge_ok d a b hb⟩

/-- the key-wise law, shallow merge: `b`'s value where `b` has the key, else `a`'s. -/
theorem merge_get_shallow (a b : VMap) (hb : b.Sorted = true) (k : List Nat) :
    (mergeMaps false a b).get k = (match b.get k with | some v => some v | none => a.get k) := by
  rw [get_mergeMaps false b a hb k]
  cases b.get k with
  | none => rfl
  | some v => cases v <;> simp [mergeField]

/-- deep merge: two objects under a shared key are merged recursively, anything else is `b`'s. -/
theorem merge_get_deep (a b : VMap) (hb : b.Sorted = true) (k : List Nat) :
    (mergeMaps true a b).get k =
      (match a.get k, b.get k with
       | some (.obj c1), some (.obj c2) => some (.obj (mergeMaps true c1 c2))
       | _, some v => some v
       | x, none => x) := by
  rw [get_mergeMaps true b a hb k]
  cases hbk : b.get k with
  | none => cases a.get k <;> simp
  | some v =>
    cases v <;> cases hak : a.get k <;> simp [mergeField]
    rename_i c2 o
    cases o <;> simp

/-! ### what the Spec predicates mean (soundness of the decidable forms) -/

/-- `specTrim s r`: `s = pre ++ r ++ post` with `pre`, `post` whitespace only, and `r` neither
    starts nor ends with whitespace. -/
theorem specTrim_sound (s r : List Nat) (h : specTrim s r = true) :
    ∃ pre post, s = pre ++ r ++ post ∧ (∀ c ∈ pre, isWhitespace c = true) ∧
      (∀ c ∈ post, isWhitespace c = true) ∧
      (∀ c, r.head? = some c → isWhitespace c = false) ∧
      (∀ c, r.getLast? = some c → isWhitespace c = false) := by
  simp only [specTrim, drop_takeWhile_length, Bool.and_eq_true] at h
  obtain ⟨⟨⟨hp, hpost⟩, hh⟩, hl⟩ := h
  obtain ⟨post, hpost'⟩ := List.isPrefixOf_iff_prefix.mp hp
  refine ⟨s.takeWhile isWhitespace, post, ?_, ?_, ?_, ?_, ?_⟩
  · rw [List.append_assoc, hpost', List.takeWhile_append_dropWhile]
  · intro c hc
    have := all_takeWhile isWhitespace s
    rw [List.all_eq_true] at this
    exact this c hc
  · rw [← hpost', List.drop_left, List.all_eq_true] at hpost
    exact hpost
  · intro c hc; simp [hc] at hh; exact hh
  · intro c hc; simp [hc] at hl; exact hl

/-- `subAt v sub i`: `sub` occurs in `v` at offset `i`. -/
theorem subAt_iff (v sub : List Nat) (i : Nat) :
    subAt v sub i = true ↔ ∃ pre post, v = pre ++ sub ++ post ∧ pre.length = i := by
  simp only [subAt, Bool.and_eq_true, decide_eq_true_eq, beq_iff_eq]
  constructor
  · rintro ⟨hl, he⟩
    refine ⟨v.take i, (v.drop i).drop sub.length, ?_, by simp; omega⟩
    conv => lhs; rw [← List.take_append_drop i v, ← List.take_append_drop sub.length (v.drop i), he]
    simp
  · rintro ⟨pre, post, rfl, rfl⟩
    simp

theorem uniqueGo_sublist : (xs seen : List Value) → (uniqueGo seen xs).Sublist xs
  | [], _ => by simp [uniqueGo]
  | x :: xs, seen => by
    simp only [uniqueGo]
    split
    · exact (uniqueGo_sublist xs seen).cons x
    · exact (uniqueGo_sublist xs (x :: seen)).cons_cons x

/-- the output of `unique` is a subsequence of the input (order kept, nothing invented) … -/
theorem unique_sublist (xs : List Value) : (uniqueL xs).Sublist xs := uniqueGo_sublist xs []

theorem uniqueGo_covers : (xs seen : List Value) → ∀ x ∈ xs,
    seen.any (veq x) = true ∨ ∃ y ∈ uniqueGo seen xs, veq y x = true
  | [], _ => by simp
  | a :: xs, seen => by
    intro x hx
    simp only [uniqueGo]
    rcases List.mem_cons.mp hx with rfl | hx
    · split
      · rename_i h; exact Or.inl h
      · exact Or.inr ⟨x, by simp, veq_refl x⟩
    · split
      · exact uniqueGo_covers xs seen x hx
      · rcases uniqueGo_covers xs (a :: seen) x hx with h | ⟨y, hy, hv⟩
        · simp only [List.any_cons, Bool.or_eq_true] at h
          rcases h with h | h
          · exact Or.inr ⟨a, by simp, by rw [veq_symm]; exact h⟩
          · exact Or.inl h
        · exact Or.inr ⟨y, List.mem_cons_of_mem _ hy, hv⟩

/-- … and every input element has an equal element in the output. -/
theorem unique_covers (xs : List Value) (x : Value) (hx : x ∈ xs) : ∃ y ∈ uniqueL xs, veq y x = true := by
  rcases uniqueGo_covers xs [] x hx with h | h
  · simp at h
  · exact h

/-! ### unique is idempotent (session 4) -/

/-- a list with pairwise different elements, none of them equal to a kept value, passes through. -/
theorem uniqueGo_fix : (out seen : List Value) → distinct out = true →
    (∀ y ∈ out, seen.any (veq y) = false) → uniqueGo seen out = out
  | [], _, _, _ => rfl
  | x :: xs, seen, hd, hf => by
    simp only [distinct, Bool.and_eq_true, Bool.not_eq_true'] at hd
    have hx : seen.any (veq x) = false := hf x (by simp)
    simp only [uniqueGo, hx, Bool.false_eq_true, if_false]
    congr 1
    apply uniqueGo_fix xs (x :: seen) hd.2
    intro y hy
    have h1 := hf y (List.mem_cons_of_mem _ hy)
    have h2 : veq y x = false := by
      have := hd.1
      rw [← Bool.not_eq_true, List.any_eq_true] at this
      rw [← Bool.not_eq_true]
      intro h
      exact this ⟨y, hy, by rw [veq_symm]; exact h⟩
    simp [List.any_cons, h1, h2]

/-- `unique` is idempotent: a second application changes nothing. -/
theorem unique_idempotent (xs : List Value) : uniqueL (uniqueL xs) = uniqueL xs :=
  uniqueGo_fix _ [] (unique_nodup xs) (by intro y _; rfl)

/-- … at the level of the stdlib function: `unique(unique(a)) == unique(a)` for every array. -/
theorem unique_unique (xs : VList) :
    ∃ out, unique (.arr xs) = .ok (.arr out) ∧ unique (.arr out) = .ok (.arr out) := by
  refine ⟨_, rfl, ?_⟩
  simp only [unique, toList_ofList, unique_idempotent]

/-! ### merge: identity, idempotence and associativity read key by key (session 4) -/

/-- merging an empty object in changes nothing (any `deep`). -/
theorem merge_empty_right (d : Bool) (a : VMap) : mergeMaps d a .nil = a := by
  simp [mergeMaps]

/-- shallow `merge(a, a)` reads like `a` at every key. -/
theorem merge_self_get_shallow (a : VMap) (ha : a.Sorted = true) (k : List Nat) :
    (mergeMaps false a a).get k = a.get k := by
  rw [merge_get_shallow a a ha k]
  cases a.get k <;> rfl

theorem mergeField_false (old : Option Value) (v : Value) : mergeField false old v = v := by
  cases v <;> simp [mergeField]

/-- shallow merge keeps the object invariant. -/
theorem sorted_mergeMaps_shallow : (b to : VMap) → to.Sorted = true → b.Sorted = true →
    (mergeMaps false to b).Sorted = true
  | .nil, to, ht, _ => by simpa [mergeMaps] using ht
  | .cons k v rest, to, ht, hb => by
    simp only [VMap.Sorted, Bool.and_eq_true] at hb
    simp only [mergeMaps, mergeField_false]
    exact sorted_mergeMaps_shallow rest _ (VMap.sorted_insert to k v ht hb.1.1) hb.2

/-- shallow merge is associative, key by key. -/
theorem merge_assoc_get_shallow (a b c : VMap) (hb : b.Sorted = true) (hc : c.Sorted = true) (k : List Nat) :
    (mergeMaps false (mergeMaps false a b) c).get k = (mergeMaps false a (mergeMaps false b c)).get k := by
  rw [merge_get_shallow _ c hc k, merge_get_shallow a _ (sorted_mergeMaps_shallow c b hb hc) k, merge_get_shallow b c hc k,
    merge_get_shallow a b hb k]
  cases c.get k <;> cases b.get k <;> rfl

end C28
