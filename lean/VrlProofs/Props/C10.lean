/-
  C10 — Comparisons are consistent; integer equality is exact.
  Property theorems only (helper lemmas: VrlProofs/Lemmas/{F64,Arith}.lean).
  Model: VrlModel/Arith.lean (`try_gt/ge/lt/le`, `eq_lossy`, `Op::resolve` dispatch) over the
  soft-float VrlModel/F64.lean; Spec predicates: VrlModel/C10.lean (`consistent`, `structEq`, …).
  `observe a b` are the six answers of the pinned code's model, `observeFixed` those of the model
  with the candidate fix of `eq_lossy` (`eqFixed`: Integer/Integer compared exactly).

  full statement (what the property demands, for every operand pair of one comparable kind):
      consistent (observe a b)    — exactly one of < == >, != = ¬ ==, <= = (< ∨ ==), >= = (> ∨ ==)
      (observe (int a) (int b)).eq = some (a = b)

  (1) float_consistent, bytes_consistent, ts_consistent, mixed_consistent      — all pairs, pinned code
  (2) int_order_consistent      `<`, `<=`, `>`, `>=` on integers are the exact `Int` order — all pairs
  (3) int_consistent_partial / int_eq_exact_partial   — under ¬ D_eq_lossy a b (FALSE without it:
      Witness/C10.lean `int_eq_lossy_witness`); `D_eq_lossy_large`: the class only contains pairs
      with a magnitude above 2^53, hence `int_eq_exact_small`, `int_consistent_small`
  (4) int_consistent_fixed / int_eq_exact_fixed / fixed_agrees_elsewhere — the full statement for the
      fixed model, all 2^128 (indeed all `Int`) pairs; everything else is unchanged by the fix
  (5) ne_negates_eq             `!=` is the negation of `==`, every pair of values whatsoever
  (6) container_eq_structural   `==` on arrays/objects is structural equality (up to -0.0 = +0.0)
  (7) comparable_consistent_fixed   the whole property for the fixed model in one statement
-/
import VrlProofs.Lemmas.Arith

namespace C10
open Arith

/-- well-formed operands: floats are non-NaN patterns (`NotNan<f64>`). -/
abbrev floatOK (x : Nat) : Prop := F64.isNaN x = false

/-- (1a) two floats, every non-NaN bit pattern incl. ±0, subnormals, ±∞. -/
theorem float_consistent (x y : Nat) (hx : floatOK x) (hy : floatOK y) :
    consistent (observe (.float x) (.float y)) = true := by
  have := consistent_of_keys (F64.key x) (F64.key y)
  simpa [observe, observeWith, evalOpWith, tryCmp, cmpF, eqLossy, tryIntoF64, resBool, F64.gt, F64.ge,
    F64.lt_iff_key, F64.le_iff_key, F64.eq_iff_key, hx, hy] using this

/-- (1b) two byte strings, bytewise lexicographic order. -/
theorem bytes_consistent (a b : List Nat) : consistent (observe (.bytes a) (.bytes b)) = true := by
  have := consistent_of_bytes a b
  simpa [observe, observeWith, evalOpWith, tryCmp, cmpBytes, eqLossy, veq, resBool] using this

theorem int_beq (a b : Int) : (a == b) = decide (a = b) := by
  by_cases h : a = b <;> simp [h]

/-- (1c) two timestamps. -/
theorem ts_consistent (a b : Int) : consistent (observe (.ts a) (.ts b)) = true := by
  have := consistent_of_keys a b
  rw [← int_beq] at this
  simpa [observe, observeWith, evalOpWith, tryCmp, cmpInt, eqLossy, veq, resBool] using this

/-- (1d) mixed integer/float pairs: all six operators compare the converted integer, consistently. -/
theorem mixed_consistent (a : Int) (y : Nat) (hy : floatOK y) :
    consistent (observe (.int a) (.float y)) = true ∧ consistent (observe (.float y) (.int a)) = true := by
  have hx := F64.ofInt_notNaN a
  constructor
  · have := consistent_of_keys (F64.key (F64.ofInt a)) (F64.key y)
    simpa [observe, observeWith, evalOpWith, tryCmp, cmpF, eqLossy, tryIntoF64, resBool, F64.gt, F64.ge,
      F64.lt_iff_key, F64.le_iff_key, F64.eq_iff_key, hx, hy] using this
  · have := consistent_of_keys (F64.key y) (F64.key (F64.ofInt a))
    simpa [observe, observeWith, evalOpWith, tryCmp, cmpF, eqLossy, tryIntoF64, resBool, F64.gt, F64.ge,
      F64.lt_iff_key, F64.le_iff_key, F64.eq_iff_key, hx, hy] using this

/-- mixed `==` is float equality on the converted integer (what the property asks of mixed pairs). -/
theorem mixed_eq (a : Int) (y : Nat) :
    eqLossy (.int a) (.float y) = F64.eq (F64.ofInt a) y ∧
    eqLossy (.float y) (.int a) = F64.eq y (F64.ofInt a) := by
  simp [eqLossy, tryIntoF64]

/-- (2) the four order operators on two integers are the exact integer order (no conversion). -/
theorem int_order_consistent (a b : Int) :
    (observe (.int a) (.int b)).lt = some (decide (a < b)) ∧
    (observe (.int a) (.int b)).le = some (decide (a ≤ b)) ∧
    (observe (.int a) (.int b)).gt = some (decide (b < a)) ∧
    (observe (.int a) (.int b)).ge = some (decide (b ≤ a)) := by
  simp [observe, observeWith, evalOpWith, tryCmp, cmpInt, resBool]

/-- `==` on two integers, as the pinned code computes it. -/
theorem int_eq_is_float_eq (a b : Int) :
    (observe (.int a) (.int b)).eq = some (F64.eq (F64.ofInt a) (F64.ofInt b)) := by
  simp [observe, observeWith, evalOpWith, eqLossy, tryIntoF64, resBool]

theorem eqLossy_int_partial (a b : Int) (h : D_eq_lossy a b = false) :
    eqLossy (.int a) (.int b) = decide (a = b) := by
  simp only [eqLossy, tryIntoF64]
  by_cases hab : a = b
  · subst hab; simp [F64.eq_self _ (F64.ofInt_notNaN a)]
  · simp [D_eq_lossy, hab] at h
    simp [hab, h]

/-- (3, partial) integer equality is exact outside the finding class `D_eq_lossy`. -/
theorem int_eq_exact_partial (a b : Int) (h : D_eq_lossy a b = false) :
    (observe (.int a) (.int b)).eq = some (decide (a = b)) := by
  simp [observe, observeWith, evalOpWith, resBool, eqLossy_int_partial a b h]

/-- (3, partial) trichotomy etc. for two integers outside the finding class. -/
theorem int_consistent_partial (a b : Int) (h : D_eq_lossy a b = false) :
    consistent (observe (.int a) (.int b)) = true := by
  have := consistent_of_keys a b
  simpa [observe, observeWith, evalOpWith, tryCmp, cmpInt, resBool, eqLossy_int_partial a b h] using this

/-- the finding class contains only pairs with a magnitude above 2^53 = 9007199254740992. -/
theorem D_eq_lossy_large (a b : Int) (h : D_eq_lossy a b = true) :
    9007199254740992 < a.natAbs ∨ 9007199254740992 < b.natAbs := by
  false_or_by_contra
  rename_i hn
  have ha : a.natAbs ≤ F64.p53 := by unfold F64.p53; omega
  have hb : b.natAbs ≤ F64.p53 := by unfold F64.p53; omega
  simp only [D_eq_lossy, Bool.and_eq_true, decide_eq_true_eq] at h
  exact h.1 ((F64.ofInt_eq_iff a b ha hb).1 h.2)

/-- hence: exact equality and full consistency for all integers of magnitude ≤ 2^53. -/
theorem int_eq_exact_small (a b : Int) (ha : a.natAbs ≤ 9007199254740992) (hb : b.natAbs ≤ 9007199254740992) :
    (observe (.int a) (.int b)).eq = some (decide (a = b)) ∧
    consistent (observe (.int a) (.int b)) = true := by
  have h : D_eq_lossy a b = false := by
    cases hd : D_eq_lossy a b
    · rfl
    · have := D_eq_lossy_large a b hd; omega
  exact ⟨int_eq_exact_partial a b h, int_consistent_partial a b h⟩

/-- (4) with the candidate fix, integer equality is exact for every pair. -/
theorem int_eq_exact_fixed (a b : Int) :
    (observeFixed (.int a) (.int b)).eq = some (decide (a = b)) := by
  simp [observeFixed, observeWith, evalOpWith, eqFixed, resBool, int_beq]

/-- (4) with the candidate fix, the full consistency statement holds for every pair of integers. -/
theorem int_consistent_fixed (a b : Int) : consistent (observeFixed (.int a) (.int b)) = true := by
  have := consistent_of_keys a b
  rw [← int_beq] at this
  simpa [observeFixed, observeWith, evalOpWith, tryCmp, cmpInt, eqFixed, resBool] using this

/-- (4) the fix changes nothing but Integer/Integer equality. -/
theorem fixed_agrees_elsewhere (a b : Value) (h : ¬ ∃ x y, a = .int x ∧ b = .int y) :
    observeFixed a b = observe a b := by
  have : eqFixed a b = eqLossy a b := by
    unfold eqFixed
    split
    · exact absurd ⟨_, _, rfl, rfl⟩ h
    · rfl
  simp [observeFixed, observe, observeWith, evalOpWith, this]

/-- (5) `!=` is the negation of `==`, whatever the operands (and both always answer). -/
theorem ne_negates_eq (a b : Value) :
    eqNeConsistent (observe a b) = true ∧ eqNeConsistent (observeFixed a b) = true := by
  simp [eqNeConsistent, observe, observeFixed, observeWith, evalOpWith, resBool]

/-- (6) `==` on two arrays / objects is structural equality (`structEq`: identical structure and
    leaves, `-0.0` identified with `+0.0`; integers inside containers are compared exactly). -/
theorem container_eq_structural (a b : Value) (ha : isContainer a = true) (hb : isContainer b = true)
    (fa : floatsOK a = true) (fb : floatsOK b = true) :
    (observe a b).eq = some (structEq a b) ∧ (observeFixed a b).eq = some (structEq a b) := by
  have hv : veq a b = structEq a b := by
    have := veq_iff a b fa fb
    unfold structEq
    cases h : veq a b
    · simp [h] at this; simp [this]
    · simp [h] at this; simp [this]
  cases a <;> simp [isContainer] at ha <;> cases b <;> simp [isContainer] at hb <;>
    simp [observe, observeFixed, observeWith, evalOpWith, eqFixed, eqLossy, resBool, hv]

/-- structural equality of any two values of the same non-numeric shape also goes through `veq`. -/
theorem veq_structural (a b : Value) (fa : floatsOK a = true) (fb : floatsOK b = true) :
    veq a b = structEq a b := by
  have := veq_iff a b fa fb
  unfold structEq
  cases h : veq a b
  · simp [h] at this; simp [this]
  · simp [h] at this; simp [this]

/-- (7) the property for the fixed model, every comparable pair (floats non-NaN). -/
theorem comparable_consistent_fixed (a b : Value) (hc : comparable a b = true)
    (ha : floatsOK a = true) (hb : floatsOK b = true) :
    consistent (observeFixed a b) = true := by
  cases a <;> cases b <;> simp [comparable] at hc
  case int.int x y => exact int_consistent_fixed x y
  case int.float x y =>
    rw [fixed_agrees_elsewhere _ _ (by simp)]
    simp [floatsOK] at hb
    exact (mixed_consistent x y hb.2).1
  case float.int y x =>
    rw [fixed_agrees_elsewhere _ _ (by simp)]
    simp [floatsOK] at ha
    exact (mixed_consistent x y ha.2).2
  case float.float x y =>
    rw [fixed_agrees_elsewhere _ _ (by simp)]
    simp [floatsOK] at ha hb
    exact float_consistent x y ha.2 hb.2
  case bytes.bytes x y =>
    rw [fixed_agrees_elsewhere _ _ (by simp)]; exact bytes_consistent x y
  case ts.ts x y =>
    rw [fixed_agrees_elsewhere _ _ (by simp)]; exact ts_consistent x y

/-- (7') the property for the pinned code: every comparable pair outside the finding class. -/
theorem comparable_consistent_partial (a b : Value) (hc : comparable a b = true)
    (ha : floatsOK a = true) (hb : floatsOK b = true)
    (hD : ∀ x y, a = .int x → b = .int y → D_eq_lossy x y = false) :
    consistent (observe a b) = true := by
  cases a <;> cases b <;> simp [comparable] at hc
  case int.int x y => exact int_consistent_partial x y (hD x y rfl rfl)
  case int.float x y =>
    simp [floatsOK] at hb
    exact (mixed_consistent x y hb.2).1
  case float.int y x =>
    simp [floatsOK] at ha
    exact (mixed_consistent x y ha.2).2
  case float.float x y =>
    simp [floatsOK] at ha hb
    exact float_consistent x y ha.2 hb.2
  case bytes.bytes x y => exact bytes_consistent x y
  case ts.ts x y => exact ts_consistent x y

end C10
