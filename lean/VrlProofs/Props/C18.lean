/-
  C18 — Value path operations obey get/insert/remove laws.
  Property theorems only (helper lemmas live in VrlProofs/Lemmas). Model: VrlModel/Value.lean
  (`crud::{get,insert,remove}` of src/value/value/crud, tied to the code by the `val.*`
  correspondence ops).

  (1) get_insert            after inserting x at p, reading p returns x           — all v p x
  (1b) insert_returns_get  insert hands back exactly what get returned before       — all v p x
  (2) frame_partial         locations that diverge from p are unchanged            — under `frameOK`
      (the full statement is false of the code: witnesses in VrlProofs/Witness/C18.lean)
  (3) remove_returns_get    remove returns exactly what get returned               — all v p prune
  (3b) get_after_remove_partial  a removed field path reads as absent             — field paths (index: witness)
  (4) get_through_scalar / remove_absent_unchanged                                 — all v p
  (5) insert_sorted / remove_sorted   object keys stay strictly sorted             — all v p x
  (6) insert_panics_iff     the only panic is `-isize::MIN`                        — all v p x
-/
import VrlProofs.Lemmas.C18
import VrlProofs.Lemmas.Sorted

namespace C18
open Value

theorem getOpt_none (q : Path) : getOpt none q = none := by
  cases q with
  | nil => rfl
  | cons s _ => cases s <;> rfl

/-- (1) read-your-write, for every value, every path (any index sign, any depth) and every `x`. -/
theorem getOpt_insertOpt (p : Path) : ∀ (c : Option Value) (x : Value),
    getOpt (some (insertOpt c p x)) p = some x := by
  induction p with
  | nil => intro c x; rfl
  | cons s rest ih =>
    intro c x
    cases s with
    | field f =>
      simp only [insertOpt, asMap, asList, getOpt]
      rw [VMap.get_insert_same]
      exact ih _ x
    | index i =>
      simp only [insertOpt, asMap, asList, getOpt]
      rw [VList.getIdx_insertIdx_same]
      exact ih _ x

theorem get_insert (v : Value) (p : Path) (x : Value) (v' : Value) (prev : Option Value)
    (h : v.insert p x = .ok (v', prev)) : v'.get p = some x := by
  unfold Value.insert at h
  split at h
  · cases h
  · cases h
    exact getOpt_insertOpt p (some v) x

/-- (6) `insert` panics exactly when the path holds the index `isize::MIN` (`-index` overflows). -/
theorem insert_panics_iff (v : Value) (p : Path) (x : Value) :
    v.insert p x = .panic ↔ pathPanics p = true := by
  unfold Value.insert
  split <;> simp_all

/-- (2, partial) frame law under the frame condition the implementation offers. -/
theorem getOpt_insertOpt_frame (p : Path) : ∀ (c : Option Value) (q : Path) (x : Value),
    diverge p q = true → frameOK c p = true →
    getOpt (some (insertOpt c p x)) q = getOpt c q := by
  induction p with
  | nil => intro c q x hd; simp [diverge] at hd
  | cons s rest ih =>
    intro c q x hd hok
    cases q with
    | nil => simp [diverge] at hd
    | cons t q' =>
      simp only [diverge] at hd
      cases s with
      | field f =>
        cases t with
        | index j =>
          -- q asks for an index of what is now an object
          cases c with
          | none => simp [insertOpt, asMap, asList, getOpt]
          | some cv =>
            cases cv <;> simp_all [insertOpt, asMap, asList, getOpt, frameOK]
        | field g =>
          by_cases hfg : f = g
          · subst hfg
            simp only [↓reduceIte] at hd
            cases c with
            | none =>
              simp only [insertOpt, asMap, asList, getOpt, VMap.get_insert_same]
              simp only [frameOK] at hok
              have := ih none q' x hd hok
              simp only [VMap.get_nil] at this ⊢
              rw [this]
              exact getOpt_none _
            | some cv =>
              cases cv with
              | obj m =>
                simp only [insertOpt, asMap, asList, getOpt, VMap.get_insert_same]
                simp only [frameOK] at hok
                exact ih _ q' x hd hok
              | arr a => simp [frameOK] at hok
              | _ =>
                simp only [insertOpt, asMap, asList, getOpt, VMap.get_insert_same]
                simp only [frameOK] at hok
                have := ih none q' x hd hok
                simp only [VMap.get_nil] at this ⊢
                rw [this]
                exact getOpt_none _
          · have hne : Seg.field f ≠ Seg.field g := by intro e; cases e; exact hfg rfl
            cases c with
            | none => simp [insertOpt, asMap, asList, getOpt, VMap.get_insert_other _ _ _ _ hfg, VMap.get, getOpt_none]
            | some cv =>
              cases cv with
              | obj m => simp [insertOpt, asMap, asList, getOpt, VMap.get_insert_other _ _ _ _ hfg]
              | arr a => simp [frameOK] at hok
              | _ => simp [insertOpt, asMap, asList, getOpt, VMap.get_insert_other _ _ _ _ hfg, VMap.get, getOpt_none]
      | index i =>
        cases t with
        | field g =>
          cases c with
          | none => simp [insertOpt, asMap, asList, getOpt]
          | some cv =>
            cases cv <;> simp_all [insertOpt, asMap, asList, getOpt, frameOK]
        | index j =>
          by_cases hij : i = j
          · subst hij
            simp only [↓reduceIte] at hd
            cases c with
            | none =>
              simp only [insertOpt, asMap, asList, getOpt, VList.getIdx_insertIdx_same]
              simp only [frameOK, Bool.and_eq_true] at hok
              have := ih none q' x hd hok.2
              have hnil : VList.nil.getIdx i = none := by
                simp [VList.getIdx, VList.arrayIndex, VList.getN]; split <;> rfl
              simp only [hnil] at this ⊢
              rw [this]
              exact getOpt_none _
            | some cv =>
              cases cv with
              | arr a =>
                simp only [insertOpt, asMap, asList, getOpt, VList.getIdx_insertIdx_same]
                simp only [frameOK, Bool.and_eq_true] at hok
                exact ih _ q' x hd hok.2
              | obj m => simp [frameOK] at hok
              | _ =>
                simp only [insertOpt, asMap, asList, getOpt, VList.getIdx_insertIdx_same]
                simp only [frameOK, Bool.and_eq_true] at hok
                have := ih none q' x hd hok.2
                have hnil : VList.nil.getIdx i = none := by
                  simp [VList.getIdx, VList.arrayIndex, VList.getN]; split <;> rfl
                simp only [hnil] at this ⊢
                rw [this]
                exact getOpt_none _
          · have hne : Seg.index i ≠ Seg.index j := by intro e; cases e; exact hij rfl
            simp only [hne, ↓reduceIte, noAlias, beq_iff_eq] at hd
            have hnilj : ∀ k : Int, VList.nil.getIdx k = none := by
              intro k; simp [VList.getIdx, VList.arrayIndex, VList.getN]; split <;> rfl
            cases c with
            | none =>
              simp only [frameOK, Bool.and_eq_true] at hok
              simp only [insertOpt, asMap, asList, getOpt]
              rw [VList.getIdx_insertIdx_other _ i j _ (by simpa using hok.1) hij hd, hnilj]
              exact getOpt_none _
            | some cv =>
              cases cv with
              | arr a =>
                simp only [frameOK, Bool.and_eq_true] at hok
                simp only [insertOpt, asMap, asList, getOpt]
                rw [VList.getIdx_insertIdx_other _ i j _ hok.1 hij hd]
              | obj m => simp [frameOK] at hok
              | _ =>
                simp only [frameOK, Bool.and_eq_true] at hok
                simp only [insertOpt, asMap, asList, getOpt]
                rw [VList.getIdx_insertIdx_other _ i j _ (by simpa using hok.1) hij hd, hnilj]
                exact getOpt_none _

theorem frame_partial (v : Value) (p q : Path) (x : Value) (v' : Value) (prev : Option Value)
    (hd : diverge p q = true) (hok : frameOK (some v) p = true)
    (h : v.insert p x = .ok (v', prev)) : v'.get q = v.get q := by
  unfold Value.insert at h
  split at h
  · cases h
  · cases h
    exact getOpt_insertOpt_frame p (some v) q x hd hok

/-- (3) `remove` returns exactly what `get` returned before, with and without pruning. -/
theorem removeOpt_fst (p : Path) : ∀ (c : Option Value) (prune : Bool),
    (removeOpt c p prune).map (·.1) = getOpt c p := by
  induction p with
  | nil => intro c prune; cases c <;> rfl
  | cons s rest ih =>
    intro c prune
    cases c with
    | none => cases s <;> rfl
    | some cv =>
      cases s with
      | field f =>
        cases cv with
        | obj m =>
          simp only [removeOpt, getOpt]
          rw [← ih (m.get f) prune]
          cases removeOpt (m.get f) rest prune <;> rfl
        | _ => rfl
      | index i =>
        cases cv with
        | arr a =>
          simp only [removeOpt, getOpt]
          rw [← ih (a.getIdx i) prune]
          cases removeOpt (a.getIdx i) rest prune <;> rfl
        | _ => rfl

theorem remove_returns_get (v : Value) (p : Path) (prune : Bool) :
    (v.remove p prune).1 = v.get p := by
  have h := removeOpt_fst p (some v) prune
  unfold Value.remove Value.get
  cases hr : removeOpt (some v) p prune with
  | none => rw [hr] at h; simpa using h
  | some r => rw [hr] at h; obtain ⟨a, b, c⟩ := r; simpa using h

/-- (4a) reading through a non-container finds nothing. -/
theorem get_through_scalar (v : Value) (s : Seg) (rest : Path)
    (hs : (∀ m, v ≠ .obj m) ∧ (∀ a, v ≠ .arr a)) : v.get (s :: rest) = none := by
  unfold Value.get
  cases v <;> cases s <;> simp_all [getOpt]

/-- (4b) removing a location that `get` does not find returns nothing and changes nothing
    (in particular every path through a non-container). -/
theorem remove_absent_unchanged (v : Value) (p : Path) (prune : Bool) (h : v.get p = none) :
    v.remove p prune = (none, v) := by
  have h1 := removeOpt_fst p (some v) prune
  unfold Value.get at h
  rw [h] at h1
  unfold Value.remove
  cases hr : removeOpt (some v) p prune with
  | none => rfl
  | some r => rw [hr] at h1; simp at h1

/-- (5a) `insert` preserves the object invariant (strictly sorted, hence unique, keys). -/
theorem insertOpt_sorted (p : Path) : ∀ (c : Option Value) (x : Value),
    (∀ v, c = some v → v.Sorted = true) → x.Sorted = true → (insertOpt c p x).Sorted = true := by
  induction p with
  | nil => intro c x _ hx; exact hx
  | cons s rest ih =>
    intro c x hc hx
    cases s with
    | field f =>
      simp only [insertOpt, Value.Sorted]
      have hm : (asMap c).Sorted = true := by
        cases c with
        | none => rfl
        | some cv =>
          cases cv with
          | obj m' => simpa [Value.Sorted, asMap] using hc _ rfl
          | _ => rfl
      apply VMap.sorted_insert _ _ _ hm
      apply ih _ x _ hx
      intro v hv
      exact VMap.sorted_get _ _ _ hm hv
    | index i =>
      simp only [insertOpt, Value.Sorted]
      have ha : (asList c).Sorted = true := by
        cases c with
        | none => rfl
        | some cv =>
          cases cv with
          | arr a' => simpa [Value.Sorted, asList] using hc _ rfl
          | _ => rfl
      apply VList.sorted_insertIdx _ _ _ ha
      apply ih _ x _ hx
      intro v hv
      exact VList.sorted_getIdx _ _ _ ha hv

theorem insert_sorted (v : Value) (p : Path) (x : Value) (v' : Value) (prev : Option Value)
    (hv : v.Sorted = true) (hx : x.Sorted = true) (h : v.insert p x = .ok (v', prev)) :
    v'.Sorted = true := by
  unfold Value.insert at h
  split at h
  · cases h
  · cases h
    exact insertOpt_sorted p (some v) x (by intro w hw; cases hw; exact hv) hx

theorem emptied_sorted (v : Value) : (emptied v).Sorted = true := by
  cases v <;> rfl

/-- (5b) `remove` preserves the object invariant. -/
theorem removeOpt_sorted (p : Path) : ∀ (c : Option Value) (prune : Bool) (r : Value × Value × Bool),
    (∀ v, c = some v → v.Sorted = true) → removeOpt c p prune = some r → r.2.1.Sorted = true := by
  induction p with
  | nil =>
    intro c prune r _ h
    cases c with
    | none => simp [removeOpt] at h
    | some v => simp [removeOpt] at h; subst h; exact emptied_sorted v
  | cons s rest ih =>
    intro c prune r hc h
    cases c with
    | none => cases s <;> simp [removeOpt] at h
    | some cv =>
      cases s with
      | field f =>
        cases cv with
        | obj m =>
          have hm : m.Sorted = true := by simpa [Value.Sorted] using hc _ rfl
          simp only [removeOpt] at h
          cases hr : removeOpt (m.get f) rest prune with
          | none => rw [hr] at h; simp at h
          | some r' =>
            rw [hr] at h
            obtain ⟨prev, new, gone⟩ := r'
            simp only [Option.some.injEq] at h
            subst h
            simp only [Value.Sorted]
            have hnew := ih (m.get f) prune _ (fun v hv => VMap.sorted_get m f v hm hv) hr
            split
            · exact VMap.sorted_remove m f hm
            · exact VMap.sorted_insert m f new hm hnew
        | _ => simp [removeOpt] at h
      | index i =>
        cases cv with
        | arr a =>
          have ha : a.Sorted = true := by simpa [Value.Sorted] using hc _ rfl
          simp only [removeOpt] at h
          cases hr : removeOpt (a.getIdx i) rest prune with
          | none => rw [hr] at h; simp at h
          | some r' =>
            rw [hr] at h
            obtain ⟨prev, new, gone⟩ := r'
            simp only [Option.some.injEq] at h
            subst h
            simp only [Value.Sorted]
            have hnew := ih (a.getIdx i) prune _ (fun v hv => VList.sorted_getIdx a i v ha hv) hr
            split
            · split
              · exact VList.sorted_removeN a _ ha
              · exact VList.sorted_setN a _ new ha hnew
            · exact ha
        | _ => simp [removeOpt] at h

theorem remove_sorted (v : Value) (p : Path) (prune : Bool) (hv : v.Sorted = true) :
    (v.remove p prune).2.Sorted = true := by
  unfold Value.remove
  cases hr : removeOpt (some v) p prune with
  | none => exact hv
  | some r =>
    obtain ⟨prev, new, gone⟩ := r
    exact removeOpt_sorted p (some v) prune _ (by intro w hw; cases hw; exact hv) hr

/-! (1b) the value returned by `insert` -/

theorem insertPrev_none (p : Path) : insertPrev none p = none := by
  induction p with
  | nil => rfl
  | cons s rest ih =>
    cases s with
    | field f => simp [insertPrev, asMap, ih]
    | index i =>
      cases rest with
      | nil => simp [insertPrev, asList, VList.insertIdxPrev, VList.getN]
      | cons t r =>
        have hg : VList.nil.getIdx i = none := by
          unfold VList.getIdx; cases VList.nil.arrayIndex i <;> rfl
        simp only [insertPrev, asList, hg]; exact ih


/-- the value handed back by `crud::insert` is what `crud::get` finds at the same location. -/
theorem insertPrev_eq_getOpt (p : Path) : ∀ (c : Option Value), insertPrev c p = getOpt c p := by
  induction p with
  | nil => intro c; rfl
  | cons s rest ih =>
    intro c
    cases s with
    | field f =>
      rcases c with _ | v
      · rw [insertPrev_none, getOpt_none]
      · cases v <;> simp [insertPrev, asMap, getOpt, ih, getOpt_none]
    | index i =>
      rcases c with _ | v
      · rw [insertPrev_none, getOpt_none]
      · cases rest with
        | nil =>
          cases v with
          | arr a => simp only [insertPrev, asList, getOpt]; exact VList.insertIdxPrev_eq_getIdx a i
          | _ => simp [insertPrev, asList, getOpt, VList.insertIdxPrev, VList.getN]
        | cons t r =>
          have hg : VList.nil.getIdx i = none := by
            unfold VList.getIdx; cases VList.nil.arrayIndex i <;> rfl
          cases v <;> simp [insertPrev, asList, getOpt, ih, hg, getOpt_none]

/-- (1b) `insert` returns exactly what reading the path returned before (all index signs, coercions
    and paddings included). -/
theorem insert_returns_get (v : Value) (p : Path) (x : Value) (v' : Value) (prev : Option Value)
    (h : v.insert p x = .ok (v', prev)) : prev = v.get p := by
  unfold Value.insert at h
  split at h
  · cases h
  · cases h; exact insertPrev_eq_getOpt p (some v)

/-! (3b) reading a removed location -/

theorem removeOpt_gone_nil (c : Option Value) (prune : Bool) (r : Value × Value × Bool)
    (h : removeOpt c [] prune = some r) : r.2.2 = true := by
  cases c with
  | none => simp [removeOpt] at h
  | some v => simp [removeOpt] at h; subst h; rfl

theorem getOpt_removeOpt (p : Path) : ∀ (c : Option Value) (prune : Bool) (r : Value × Value × Bool),
    fieldsOnly p = true → p ≠ [] → (∀ v, c = some v → v.Sorted = true) →
    removeOpt c p prune = some r → getOpt (some r.2.1) p = none := by
  induction p with
  | nil => intro _ _ _ _ h; exact absurd rfl h
  | cons s rest ih =>
    intro c prune r hf _ hs h
    cases s with
    | index i => simp [fieldsOnly] at hf
    | field f =>
      simp only [fieldsOnly] at hf
      cases c with
      | none => simp [removeOpt] at h
      | some v =>
        cases v with
        | obj m =>
          have hm : m.Sorted = true := by have := hs _ rfl; simpa [Value.Sorted] using this
          simp only [removeOpt] at h
          cases hr : removeOpt (m.get f) rest prune with
          | none => simp [hr] at h
          | some r' =>
            obtain ⟨prev, new, gone⟩ := r'
            simp only [hr, Option.some.injEq] at h
            subst h
            cases gone with
            | true =>
              simp only [if_true, getOpt, VMap.get_remove_same m f hm]
              exact getOpt_none rest
            | false =>
              simp only [Bool.false_eq_true, if_false, getOpt, VMap.get_insert_same]
              have hne : rest ≠ [] := by
                intro e; subst e
                have := removeOpt_gone_nil _ _ _ hr
                simp at this
              exact ih (m.get f) prune (prev, new, false) hf hne
                (fun w hw => VMap.sorted_get m f w hm hw) hr
        | _ => simp [removeOpt] at h

/-- (3b) after removing at a non-root path of field segments the path reads as absent
    (with and without pruning). `_partial`: for index segments the statement is false of code and
    model alike, because the later elements move down (`remove_then_get_index_witness`). -/
theorem get_after_remove_partial (v : Value) (p : Path) (prune : Bool) (hv : v.Sorted = true)
    (hf : fieldsOnly p = true) (hne : p ≠ []) : (v.remove p prune).2.get p = none := by
  have h1 := removeOpt_fst p (some v) prune
  unfold Value.remove Value.get
  cases hr : removeOpt (some v) p prune with
  | none => rw [hr] at h1; simpa using h1.symm
  | some r =>
    obtain ⟨prev, new, gone⟩ := r
    exact getOpt_removeOpt p (some v) prune (prev, new, gone) hf hne
      (by intro w hw; cases hw; exact hv) hr

/-- `[1, 2]`: remove `[0]`, then `[0]` reads `2`. -/
theorem remove_then_get_index_witness :
    ((Value.arr (.cons (.int 1) (.cons (.int 2) .nil))).remove [.index 0] false).2.get [.index 0]
      = some (.int 2) := by decide

/-- non-vacuity: `{"a": {"b": 1}}`, `.a.b`, pruning. -/
example : ((Value.obj (.cons [97] (.obj (.cons [98] (.int 1) .nil)) .nil)).remove
    [.field [97], .field [98]] true).2 = .obj .nil := by decide

/-! (2b) the shifting insert keeps negative positions -/

open VList in
/-- when a negative index before the start prepends (class `D_shift`), every existing element keeps
    its NEGATIVE position. -/
theorem shift_keeps_negative (a : VList) (k j : Nat) (x : Value) (hk : a.length < k)
    (hj : 0 < j) (hjl : j ≤ a.length) :
    (a.insertIdx (-(k : Int)) x).getIdx (-(j : Int)) = a.getIdx (-(j : Int)) := by
  have hk0 : 0 < k := by omega
  rw [insertIdx_neg_gt a k x hk0 hk, getIdx_neg_in a j hj hjl]
  have hlen : (VList.cons x ((nulls (k - 1 - a.length)).append a)).length = k := by
    simp only [VList.length, length_append, length_nulls]; omega
  rw [getIdx_neg_in _ j hj (by omega), hlen]
  obtain ⟨m, hm⟩ : ∃ m, k - j = m + 1 := ⟨k - j - 1, by omega⟩
  rw [hm]
  simp only [VList.getN]
  rw [getN_append_right _ _ _ (by rw [length_nulls]; omega), length_nulls]
  congr 1
  omega

/-- (2b) frame law inside the class `D_shift`: on a top-level array a prepending insert at `[-k]`
    leaves every existing `[-j]` (`j ≤ len`) unchanged. -/
theorem frame_shift_negative (v : Value) (p q : Path) (x : Value) (h : shiftNeg v p q = true) :
    (insertOpt (some v) p x).get q = v.get q := by
  unfold shiftNeg at h
  split at h
  · rename_i a i j
    simp only [Bool.and_eq_true, decide_eq_true_eq] at h
    obtain ⟨⟨⟨hi, hlen⟩, hj⟩, hjl⟩ := h
    obtain ⟨k, rfl⟩ : ∃ k : Nat, i = -(k : Int) := ⟨(-i).toNat, by omega⟩
    obtain ⟨l, rfl⟩ : ∃ l : Nat, j = -(l : Int) := ⟨(-j).toNat, by omega⟩
    simp only [insertOpt, asList, Value.get, getOpt]
    exact shift_keeps_negative a k l x (by omega) (by omega) (by omega)
  · cases h

end C18
