/-
  C01 – compiled programs are type-sound (result, `return`, event, metadata, variables).

  Model: `Lang.typeInfo` / `Lang.constOf` (VrlModel/Lang/Type.lean: `Expression::type_info`,
  `resolve_constant`, `TypeState`, `LocalEnv`, `ExternalEnv` of the real compiler, tied to it by the
  `c01.typeinfo` correspondence) and `Lang.eval` (VrlModel/Lang/Eval.lean, `lang.run`).
  Spec: `Spec.mem` / `Spec.memR` (VrlModel/KindSpec.lean) and `Lang.Conforms` (VrlModel/Lang/TypeSpec.lean).

  The statement at full strength (`TypeSound e T` for every call-free expression) is FALSE of the
  unchanged code: VrlProofs/Witness/C01.lean has one witness per finding class. What is proved is
  `sound_partial`: `TypeSound e T` whenever `Lang.safe e T` — a decidable predicate over the compiled
  tree and the type state (no function calls; the constructor checks hold in the state `type_info`
  uses; every `Kind` operation met is inside the fragment of its C19 theorem; none of the typing
  quirks `D_…` is met). The proof is by structural recursion over the mutual `Expr`/`Exprs`/`KExprs`
  (VrlProofs/Lemmas/TypeSound.lean) on top of the C19 membership theorems.
-/
import VrlProofs.Lemmas.TypeSound

namespace C01
open Lang Spec

/-- **C01 for one expression** typed in `T`: in every run-time state that inhabits `T`,
    a value it evaluates to is a result (`memR`) of the reported kind and the new run-time state
    inhabits the reported type state (event ∈ target kind, metadata ∈ metadata kind, every variable
    ∈ its kind); a value it `return`s is a result of the reported `returns` kind. -/
def TypeSound (e : Expr) (T : TState) : Prop :=
  ∀ s, Conforms s T →
    match eval e s with
    | (.ok v, s') => memR v (typeInfo e T).1.kind = true ∧ Conforms s' (typeInfo e T).2
    | (.ret v, _) => memR v (typeInfo e T).1.returns = true
    | _ => True

/-- the property at full strength for the modelled (call-free) fragment. Not a theorem: see
    `C01.W.not_full`. -/
def Full : Prop := ∀ e T, (checks e T).all (· != .outOfModel) = true → TypeSound e T

/-- **Type soundness** of every expression that passes the side conditions. -/
theorem sound_partial (e : Expr) (T : TState) (h : safe e T = true) : TypeSound e T := by
  intro s hc
  have := eval_sound e T s (allNan_of_all h) hc
  cases hq : eval e s with
  | mk r s' =>
    rw [hq] at this
    cases r with
    | ok v => exact ⟨this.1, this.2.2⟩
    | ret v => exact this
    | _ => trivial

/-- a value produced under the side conditions has strictly sorted object keys (the invariant the
    C19 theorems need; `BTreeMap` in the implementation) -/
theorem result_sorted (e : Expr) (T : TState) (h : safe e T = true) (s s' : St) (v : Value)
    (hc : Conforms s T) (he : eval e s = (.ok v, s')) : v.Sorted = true := by
  have := eval_sound e T s (allNan_of_all h) hc
  rw [he] at this
  exact this.2.1

/-- **Every variable read** yields a value of the kind the compiler assigned to the variable at that
    point (no side condition beyond the variable being in scope). -/
theorem var_read_sound (n : String) (T : TState) (d : Details) (hd : T.getVar n = some d) (s : St)
    (hc : Conforms s T) : ∃ v, eval (.var n) s = (.ok v, s) ∧ mem v d.td.kind = true ∧
      (typeInfo (.var n) T).1.kind = d.td.kind := by
  obtain ⟨v, h1, h2, _, _⟩ := hc.vars n d hd
  refine ⟨v, ?_, h2, ?_⟩
  · rw [eval, h1]; rfl
  · rw [typeInfo]; simp [varDef, hd]

/-- **C01 for a program** (`Program::final_type_info` = `Block::type_info` of the root block against
    `Block::resolve`): result ∈ result kind and final state ∈ final type state when the last expression
    is reached; `return`ed value ∈ `returns`. (When the run ends by `return` nothing is claimed about
    the final event: `D_return_skips_effects`.) -/
def ProgramSound (prog : Exprs) (T : TState) : Prop :=
  ∀ s, Conforms s T →
    match evalSeq prog s with
    | (.ok v, s') =>
      memR v (typeSeq prog T {}).1.finish.kind = true ∧ Conforms s' (typeSeq prog T {}).2
    | (.ret v, _) => memR v (typeSeq prog T {}).1.finish.returns = true
    | _ => True

theorem program_sound_partial (prog : Exprs) (T : TState) (h : safeSeq prog T = true) :
    ProgramSound prog T := by
  intro s hc
  cases prog with
  | nil => rw [evalSeq]; trivial
  | cons e es =>
    have := evalSeq_sound (.cons e es) T s {} (by simp) rfl (allNan_of_all h) hc
    cases hq : evalSeq (.cons e es) s with
    | mk r s' =>
      rw [hq] at this
      cases r with
      | ok v => exact ⟨this.1, this.2.2⟩
      | ret v => exact this
      | _ => trivial

/-- `Runtime::resolve`: the value a run ends with belongs to the reported result kind or to the
    reported `returns` kind. -/
theorem run_sound_partial (prog : Exprs) (T : TState) (h : safeSeq prog T = true) (s s' : St) (v : Value)
    (hc : Conforms s T) (hr : run prog s = (.ok v, s')) :
    memR v (typeSeq prog T {}).1.finish.kind = true ∨ memR v (typeSeq prog T {}).1.finish.returns = true := by
  have hc' : Conforms (s.tick 0 false []).2 T := Conforms.of_same (s := s) ⟨rfl, rfl, rfl, rfl⟩ hc
  have hrej : (s.tick 0 false []).1 = false := by simp [St.tick, hc.faults]
  have := program_sound_partial prog T h _ hc'
  unfold run at hr
  cases ht : s.tick 0 false [] with
  | mk rej s0 =>
    rw [ht] at hrej this hr
    simp only at hrej this hr
    subst hrej
    simp only [Bool.false_eq_true, if_false] at hr
    cases hq : evalSeq prog s0 with
    | mk r s1 =>
      rw [hq] at this hr
      cases r <;> simp at hr
      · obtain ⟨rfl, _⟩ := hr; exact Or.inl this.1
      · obtain ⟨rfl, _⟩ := hr; exact Or.inr this

end C01
