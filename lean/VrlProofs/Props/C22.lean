/-
  C22 — Binary codecs round-trip: decoding what the matching encoder produced returns the
  original bytes, for every byte string and every option combination.
  Property theorems only (helper lemmas: VrlProofs/Lemmas/C22*.lean). Models: VrlModel/Codec/*.lean,
  Spec predicate `C22.RoundTrip` in VrlModel/C22.lean (the predicate the oracle evaluates on the
  implementation). Bytes are `List Nat` with the explicit hypothesis `∀ x ∈ b, x < 256`.

  Fully modelled (no parameters):
  (1) base16_roundtrip        decode_base16 ∘ encode_base16 = id               — all byte strings
      base16_roundtrip_upper  … also when the hex digits are upper-cased        — all byte strings
  (2) base64_roundtrip        all byte strings × {standard,url_safe} × padding {true,false}
      base64_unknown_charset  any other charset name is an error on both sides
  (3) percent_roundtrip_iff   for UTF-8 text: round trip ⇔ the set escapes `%` or the text has no
                              `%` followed by two hex digits (exact domain of validity)
      percent_roundtrip       the three sets that escape `%` round-trip all UTF-8 text
      percent_roundtrip_partial  the six WHATWG sets round-trip text outside class D_percent_literal
      (witness that the full statement is false of the code: VrlProofs/Witness/C22.lean)
      percent_raw_roundtrip_iff  the same without the two `from_utf8_lossy` conversions, all bytes
  Option dispatch modelled, primitive = structure parameter carrying its assumed law
  (level **partial**: the law is a hypothesis, sampled on the real crate by `o.c22`):
  (4) gzip_roundtrip, zlib_roundtrip   every level the glue hands over as 0..9 (incl. `as u32` wrap)
  (5) zstd_roundtrip          every i64 level (`as i32` wrap)
  (6) snappy_roundtrip
  (7) lz4_roundtrip_prepended / lz4_roundtrip_block   matching prepend flags; every buf_size
      lz4_roundtrip_prepended is partial: false when the length equals the frame magic
      (lz4_magic_collision), class D_lz4_size_is_magic; lz4_frame_dispatch: frames are recognised
  (8) charset_roundtrip       every label: both directions resolve the label with the same function
  (9) punycode_roundtrip_*    validate true/true, false/false and the mixed combinations
-/
import VrlModel.C22
import VrlProofs.Lemmas.C22Utf8
import VrlProofs.Lemmas.C22Base
import VrlProofs.Lemmas.C22Percent
import VrlProofs.Lemmas.C22Puny

namespace C22
open Codec

/-! ### (1) base16 -/

/-- `decode_base16(encode_base16(b)) = Ok(b)` for every byte string. -/
theorem base16_roundtrip (b : Bytes) (hb : ∀ x ∈ b, x < 256) : RoundTrip b (base16 b) := by
  unfold RoundTrip base16 Base16.decode Base16.encode
  rw [Utf8.lossy_ascii _ (Base16.enc_ascii b hb), Base16.dec_enc b hb]
  rfl

/-- the decoder accepts upper-case digits as well: `decode_base16(upper(encode_base16(b))) = Ok(b)`. -/
theorem base16_roundtrip_upper (b : Bytes) (hb : ∀ x ∈ b, x < 256) :
    RoundTrip b (resOfOption (Base16.decode (Base16.encUpper b))) := by
  unfold RoundTrip Base16.decode
  rw [Utf8.lossy_ascii _ (Base16.encUpper_ascii b hb), Base16.dec_encUpper b hb]
  rfl

/-! ### (2) base64 -/

def standardName : Bytes := [115, 116, 97, 110, 100, 97, 114, 100]
def urlSafeName : Bytes := [117, 114, 108, 95, 115, 97, 102, 101]

/-- the two names `Base64Charset::from_slice` accepts. -/
theorem charset_ofName_some (n : Bytes) (cs : Base64.Charset) :
    Base64.Charset.ofName n = some cs ↔
      (n = standardName ∧ cs = .standard) ∨ (n = urlSafeName ∧ cs = .urlSafe) := by
  unfold Base64.Charset.ofName standardName urlSafeName
  constructor
  · intro h
    split at h
    · left; cases h; exact ⟨by assumption, rfl⟩
    · split at h
      · right; cases h; exact ⟨by assumption, rfl⟩
      · cases h
  · rintro (⟨rfl, rfl⟩ | ⟨rfl, rfl⟩) <;> decide

/-- `decode_base64(encode_base64(b, padding, charset), charset) = Ok(b)` for every byte string,
    both alphabets and both padding modes (the decoder has no padding option: it strips `=`). -/
theorem base64_roundtrip (b : Bytes) (hb : ∀ x ∈ b, x < 256) (padding : Bool) (charset : Bytes)
    (hcs : charset = standardName ∨ charset = urlSafeName) :
    RoundTrip b (base64 b padding charset) := by
  have key : ∀ cs, Base64.Charset.ofName charset = some cs → RoundTrip b (base64 b padding charset) := by
    intro cs h
    unfold RoundTrip base64 Base64.encode Base64.decode
    simp only [h, Option.map_some]
    rw [Base64.stripPad_enc cs padding b hb, Base64.dec_enc cs b hb]
    rfl
  rcases hcs with h | h
  · exact key .standard ((charset_ofName_some _ _).mpr (Or.inl ⟨h, rfl⟩))
  · exact key .urlSafe ((charset_ofName_some _ _).mpr (Or.inr ⟨h, rfl⟩))

/-- every other charset name is rejected by the encoder and by the decoder. -/
theorem base64_unknown_charset (b v : Bytes) (padding : Bool) (charset : Bytes)
    (h1 : charset ≠ standardName) (h2 : charset ≠ urlSafeName) :
    Base64.encode b padding charset = none ∧ Base64.decode v charset = .badCharset := by
  have : Base64.Charset.ofName charset = none := by
    cases h : Base64.Charset.ofName charset with
    | none => rfl
    | some cs =>
      rcases (charset_ofName_some _ _).mp h with ⟨h, _⟩ | ⟨h, _⟩
      · exact absurd h h1
      · exact absurd h h2
  simp [Base64.encode, Base64.decode, this]

/-! ### (3) percent-encoding -/

/-- Without the UTF-8 conversions (`percent_decode` ∘ `percent_encode`), for every byte string and
    every set: the round trip holds exactly on `roundTripOK`. -/
theorem percent_raw_roundtrip_iff (set : Percent.AsciiSet) (s : Bytes) (hs : ∀ x ∈ s, x < 256) :
    Percent.decRaw (Percent.encRaw set s) = s ↔ Percent.roundTripOK set s = true := by
  constructor
  · intro h
    cases hok : Percent.roundTripOK set s with
    | true => rfl
    | false =>
      have := (Percent.ascii_decRaw_encRaw set s hs).2 hok
      rw [h] at this
      omega
  · exact Percent.decRaw_encRaw set s hs

/-- `decode_percent(encode_percent(s, set)) = s` for UTF-8 text `s` **iff** the set escapes `%` or
    `s` contains no `%` followed by two hex digits. -/
theorem percent_roundtrip_iff (set : Percent.AsciiSet) (s : Bytes) (hs : Utf8.lossy s = s) :
    RoundTrip s (percent set s) ↔ Percent.roundTripOK set s = true := by
  have hb := Utf8.bytes_of_lossy_fixed hs
  unfold RoundTrip percent Percent.encode Percent.decode
  rw [hs]
  constructor
  · intro h
    have h : Utf8.lossy (Percent.decRaw (Percent.encRaw set s)) = s := by
      injection h
    cases hok : Percent.roundTripOK set s with
    | true => rfl
    | false =>
      have hlt := (Percent.ascii_decRaw_encRaw set s hb).2 hok
      rw [← Utf8.ascii_lossy, h] at hlt
      omega
  · intro hok
    rw [Percent.decRaw_encRaw set s hb hok, hs]

/-- the sets that escape `%` (NON_ALPHANUMERIC, COMPONENT, WWW_FORM_URLENCODED) round-trip every
    UTF-8 text. -/
theorem percent_roundtrip (set : Percent.AsciiSet) (s : Bytes) (hs : Utf8.lossy s = s)
    (hset : set = .nonAlphanumeric ∨ set = .component ∨ set = .wwwFormUrlencoded) :
    RoundTrip s (percent set s) := by
  apply (percent_roundtrip_iff set s hs).mpr
  rcases hset with h | h | h <;> subst h <;> simp [Percent.roundTripOK] <;> left <;> decide

/-- (partial) every set round-trips UTF-8 text outside the finding class `D_percent_literal`. -/
theorem percent_roundtrip_partial (set : Percent.AsciiSet) (s : Bytes) (hs : Utf8.lossy s = s)
    (hD : D_percent_literal set s = false) : RoundTrip s (percent set s) := by
  apply (percent_roundtrip_iff set s hs).mpr
  simpa [D_percent_literal] using hD

/-- the same for well-formed UTF-8 in the sense of the Unicode standard (Table 3-7). -/
theorem percent_roundtrip_valid (set : Percent.AsciiSet) (s : Bytes) (hs : Utf8.Valid s) :
    RoundTrip s (percent set s) ↔ Percent.roundTripOK set s = true :=
  percent_roundtrip_iff set s (Utf8.lossy_valid hs)

/-! ### (4) gzip / zlib -/

/-- every accepted `compression_level` (0..10 after the `as u32` cast; 10 is clamped to 9). -/
theorem gzip_roundtrip (P : Gzip.Prim) (b : Bytes) (level : Int) (hl : asU32 level ≤ 10) :
    RoundTrip b (andThen (Gzip.encode P b level) (Gzip.decode P)) := by
  obtain ⟨c, hc, hd⟩ := P.rt (min (asU32 level) 9) b (Nat.min_le_right _ _)
  have : Gzip.level? level = some (asU32 level) := by
    have hnot : ¬ asU32 level > Gzip.maxLevel := by simp only [Gzip.maxLevel]; omega
    simp [Gzip.level?, hnot]
  simp [RoundTrip, Gzip.encode, this, hc, andThen, Gzip.decode, hd]

theorem zlib_roundtrip (P : Zlib.Prim) (b : Bytes) (level : Int) (hl : asU32 level ≤ 10) :
    RoundTrip b (andThen (Zlib.encode P b level) (Zlib.decode P)) := by
  obtain ⟨c, hc, hd⟩ := P.rt (min (asU32 level) 9) b (Nat.min_le_right _ _)
  have : Zlib.level? level = some (asU32 level) := by
    have hnot : ¬ asU32 level > Zlib.maxLevel := by simp only [Zlib.maxLevel]; omega
    simp [Zlib.level?, hnot]
  simp [RoundTrip, Zlib.encode, this, hc, andThen, Zlib.decode, hd]

/-- levels above 10 (after the cast; e.g. every negative level) are rejected, never compressed. -/
theorem gzip_level_rejected (P : Gzip.Prim) (b : Bytes) (level : Int) (hl : 10 < asU32 level) :
    Gzip.encode P b level = .err := by
  simp [Gzip.encode, Gzip.level?, Gzip.maxLevel, hl]

/-! ### (5) zstd -/

theorem asI32_range (n : Int) : -2147483648 ≤ asI32 n ∧ asI32 n ≤ 2147483647 := by
  unfold asI32; omega

/-- every `compression_level` (any i64; the glue casts with `as i32`). -/
theorem zstd_roundtrip (P : Zstd.Prim) (b : Bytes) (level : Int) :
    RoundTrip b (andThen (Zstd.encode P b level) (Zstd.decode P)) := by
  obtain ⟨c, hc, hd⟩ := P.rt (asI32 level) b (asI32_range level).1 (asI32_range level).2
  simp [RoundTrip, Zstd.encode, hc, andThen, Zstd.decode, hd]

/-! ### (6) snappy -/

theorem snappy_roundtrip (P : Snappy.Prim) (b : Bytes) (hlen : b.length < 4294967296) :
    RoundTrip b (andThen (Snappy.encode P b) (Snappy.decode P)) := by
  obtain ⟨c, hc, hd⟩ := P.rt b hlen
  simp [RoundTrip, Snappy.encode, hc, andThen, Snappy.decode, hd]

/-! ### (7) lz4 -/

theorem le32_isPrefix_magic (n : Nat) (hn : n ≤ Lz4.u32Max) (rest : Bytes) :
    Lz4.magic.isPrefixOf (Lz4.le32 n ++ rest) = true ↔ n = Lz4.magicAsSize := by
  simp only [Lz4.magic, Lz4.le32, Lz4.magicAsSize, Lz4.u32Max, List.cons_append, List.nil_append,
    List.isPrefixOf, Bool.and_eq_true, beq_iff_eq, Bool.and_true] at *
  omega

/-- block format without size prefix (`prepend_size: false` / `prepended_size: false`): every
    `buf_size` that is at least the length (and a `u32`). -/
theorem lz4_roundtrip_block (P : Lz4.Prim) (b : Bytes) (bufSize : Int)
    (h0 : 0 ≤ bufSize) (h1 : bufSize ≤ 4294967295) (hlen : (b.length : Int) ≤ bufSize) :
    RoundTrip b (Lz4.decode P (Lz4.encode P b false) bufSize false) := by
  have hn : Lz4.bufferSize bufSize = bufSize.toNat := by simp [Lz4.bufferSize, h0, h1]
  simp only [RoundTrip, Lz4.encode, Lz4.decode, hn, P.blockNoMagic b, Bool.false_eq_true, ↓reduceIte]
  exact P.rtBlock b bufSize.toNat (by omega) (by simp only [Lz4.u32Max]; omega)

/-- (partial) size-prefixed block format (`prepend_size: true` / `prepended_size: true`), every
    `buf_size`: holds unless the length equals the frame magic read as a little-endian `u32`. -/
theorem lz4_roundtrip_prepended_partial (P : Lz4.Prim) (b : Bytes) (bufSize : Int)
    (hlen : b.length ≤ Lz4.u32Max) (hD : D_lz4_size_is_magic b.length = false) :
    RoundTrip b (Lz4.decode P (Lz4.encode P b true) bufSize true) := by
  have hne : b.length ≠ Lz4.magicAsSize := by
    intro h
    simp only [D_lz4_size_is_magic, Lz4.u32Max] at hD hlen
    rw [Nat.mod_eq_of_lt (by omega)] at hD
    simp [h] at hD
  have hm : Lz4.magic.isPrefixOf (P.compressPrepend b) = false := by
    rw [P.prependShape b hlen]
    cases h : Lz4.magic.isPrefixOf (Lz4.le32 b.length ++ P.compress b) with
    | false => rfl
    | true => exact absurd ((le32_isPrefix_magic _ hlen _).mp h) hne
  simp only [RoundTrip, Lz4.encode, Lz4.decode, hm, Bool.false_eq_true, ↓reduceIte]
  exact P.rtPrepend b hlen

/-- in the excluded class the decoder dispatches to the *frame* decoder, not to the inverse of the
    encoder that ran (the defect behind finding class `D_size_is_frame_magic`). -/
theorem lz4_magic_collision (P : Lz4.Prim) (b : Bytes) (bufSize : Int) (pre : Bool)
    (hlen : b.length = Lz4.magicAsSize) :
    Lz4.decode P (Lz4.encode P b true) bufSize pre =
      P.frameDecode (P.compressPrepend b) (Lz4.bufferSize bufSize) := by
  have hle : b.length ≤ Lz4.u32Max := by rw [hlen]; decide
  have hm : Lz4.magic.isPrefixOf (P.compressPrepend b) = true := by
    rw [P.prependShape b hle]
    exact (le32_isPrefix_magic _ hle _).mpr hlen
  simp [Lz4.encode, Lz4.decode, hm]

/-- data that starts with the frame magic always goes to the frame decoder (whatever
    `prepended_size` says); vrl has no frame *encoder*, so there is no frame round trip to state —
    the oracle samples `decode_lz4` on frames made by lz4_flex's `FrameEncoder` (`o.c22 lz4frame`). -/
theorem lz4_frame_dispatch (P : Lz4.Prim) (rest : Bytes) (bufSize : Int) (pre : Bool) :
    Lz4.decode P (Lz4.magic ++ rest) bufSize pre =
      P.frameDecode (Lz4.magic ++ rest) (Lz4.bufferSize bufSize) := by
  simp [Lz4.decode, Lz4.magic, List.isPrefixOf]

/-! ### (8) charset -/

/-- every label (known to encoding_rs), text representable in that encoding: both functions
    resolve the label with the same `Encoding::for_label`, so the decoder is the encoder's inverse. -/
theorem charset_roundtrip (P : Charset.Prim) (t label : Bytes) (e : P.Enc)
    (hl : P.forLabel label = some e) (ht : Utf8.lossy t = t) (hr : P.representable e t) :
    RoundTrip t (andThen (Charset.encodeCharset P t label) (fun x => Charset.decodeCharset P x label)) := by
  simp [RoundTrip, Charset.encodeCharset, Charset.decodeCharset, ht, hl, andThen, P.rt e t ht hr]

/-- an unknown label is an error on both sides; ill-formed UTF-8 makes `encode_charset` panic. -/
theorem charset_unknown_label (P : Charset.Prim) (t label : Bytes) (hl : P.forLabel label = none) :
    Charset.decodeCharset P t label = .err ∧
    (Utf8.lossy t = t → Charset.encodeCharset P t label = .err) := by
  simp [Charset.encodeCharset, Charset.decodeCharset, hl]

theorem charset_encode_never_panics (P : Charset.Prim) (t label : Bytes) :
    Charset.encodeCharset P t label ≠ .panic := by
  unfold Charset.encodeCharset
  split
  · simp
  · split <;> simp

/-! ### (9) punycode -/

/-- a label the `validate: false` pair handles faithfully: already lower-case, not itself starting
    with "xn--", and (when not ASCII) encodable by the raw punycode primitive. -/
def PunyLabelOK (P : Punycode.Prim) (l : Bytes) : Prop :=
  P.lower l = l ∧ Punycode.prefix_.isPrefixOf l = false ∧
    (Punycode.isAscii l = false → ∃ e, P.punyEnc l = some e)

theorem puny_encLabel_props (P : Punycode.Prim) (l : Bytes) (hl : PunyLabelOK P l)
    (hdot : Punycode.dot ∉ l) :
    Punycode.isAscii (Punycode.encLabel P l) = true ∧ Punycode.dot ∉ Punycode.encLabel P l ∧
    Punycode.decLabel P (Punycode.encLabel P l) = l ∧
    (Punycode.prefix_.isPrefixOf (Punycode.encLabel P l) = false → Punycode.encLabel P l = l) := by
  obtain ⟨hlow, hpre, henc⟩ := hl
  cases ha : Punycode.isAscii l with
  | true =>
    have he : Punycode.encLabel P l = l := by simp [Punycode.encLabel, ha, hlow]
    rw [he]
    refine ⟨ha, hdot, ?_, fun _ => rfl⟩
    simp [Punycode.decLabel, hpre]
  | false =>
    obtain ⟨e, he⟩ := henc ha
    obtain ⟨hdec, hea, hed⟩ := P.rtPuny l e he
    have hE : Punycode.encLabel P l = Punycode.prefix_ ++ e := by
      simp [Punycode.encLabel, ha, hpre, hlow, he]
    rw [hE]
    refine ⟨?_, ?_, ?_, ?_⟩
    · simp only [Punycode.isAscii, List.all_append, Bool.and_eq_true] at hea ⊢
      exact ⟨by decide, hea⟩
    · intro h
      rcases List.mem_append.mp h with h | h
      · exact Punycode.dot_not_in_prefix h
      · exact hed h
    · simp [Punycode.decLabel, Punycode.prefix_isPrefixOf_append, Punycode.drop_prefix_append, hdec]
    · intro h
      rw [Punycode.prefix_isPrefixOf_append] at h
      cases h

/-- `validate: false` on both sides: every domain (UTF-8 text) whose labels are `PunyLabelOK`. -/
theorem punycode_roundtrip_novalidate (P : Punycode.Prim) (d : Bytes) (hd : Utf8.lossy d = d)
    (hl : ∀ l ∈ Punycode.splitDot d, PunyLabelOK P l) :
    RoundTrip d (andThen (Punycode.encode P d false) (fun e => Punycode.decode P e false)) := by
  have hnodot := Punycode.splitDot_no_dot d
  have hprops := fun l hm => puny_encLabel_props P l (hl l hm) (hnodot l hm)
  -- decoding a text whose labels are all fixed by `decLabel`
  have decode_fixed : ∀ (x : Bytes), Utf8.lossy x = x →
      (Punycode.splitDot x).map (Punycode.decLabel P) = Punycode.splitDot x →
      Punycode.decode P x false = .ok x := by
    intro x hx hfix
    simp only [Punycode.decode, hx, Bool.false_eq_true, ↓reduceIte]
    split
    · rfl
    · rw [hfix, Punycode.joinDot_splitDot]
  unfold RoundTrip
  simp only [Punycode.encode, hd, Bool.false_eq_true, ↓reduceIte]
  split
  · -- only `a-z0-9.`: returned unchanged
    simp only [andThen]
    apply decode_fixed d hd
    apply Punycode.map_id_of_mem
    intro l hm
    simp [Punycode.decLabel, (hl l hm).2.1]
  · simp only [andThen]
    -- the encoded text
    have hascii : Punycode.isAscii (Punycode.joinDot ((Punycode.splitDot d).map (Punycode.encLabel P))) = true := by
      apply Punycode.isAscii_joinDot
      intro l hm
      obtain ⟨l0, hm0, rfl⟩ := List.mem_map.mp hm
      exact (hprops l0 hm0).1
    have hlossy := Utf8.lossy_ascii _ ((Punycode.isAscii_iff _).mp hascii)
    have hsplit : Punycode.splitDot (Punycode.joinDot ((Punycode.splitDot d).map (Punycode.encLabel P))) =
        (Punycode.splitDot d).map (Punycode.encLabel P) := by
      apply Punycode.splitDot_joinDot
      · simpa using Punycode.splitDot_ne_nil d
      · intro l hm
        obtain ⟨l0, hm0, rfl⟩ := List.mem_map.mp hm
        exact (hprops l0 hm0).2.1
    simp only [Punycode.decode, hlossy, Bool.false_eq_true, ↓reduceIte]
    split
    · -- no "xn--" anywhere in the output: no label was changed
      rename_i hno
      have hno' : Punycode.hasPrefixAnywhere
          (Punycode.joinDot ((Punycode.splitDot d).map (Punycode.encLabel P))) = false := by
        simpa using hno
      have hall := Punycode.no_prefix_of_join _ hno'
      have hid : (Punycode.splitDot d).map (Punycode.encLabel P) = Punycode.splitDot d := by
        apply Punycode.map_id_of_mem
        intro l hm
        exact (hprops l hm).2.2.2 (hall _ (List.mem_map_of_mem hm))
      rw [hid, Punycode.joinDot_splitDot]
    · rw [hsplit, List.map_map]
      have hid : (Punycode.splitDot d).map (Punycode.decLabel P ∘ Punycode.encLabel P) = Punycode.splitDot d := by
        apply Punycode.map_id_of_mem
        intro l hm
        exact (hprops l hm).2.2.1
      rw [hid, Punycode.joinDot_splitDot]

/-- `validate: true` on both sides: every domain valid in the primitive's sense. -/
theorem punycode_roundtrip_validate (P : Punycode.Prim) (d : Bytes) (hd : Utf8.lossy d = d)
    (hv : P.validDomain d) :
    RoundTrip d (andThen (Punycode.encode P d true) (fun e => Punycode.decode P e true)) := by
  obtain ⟨a, ha, hascii, hu⟩ := P.rtIdna d hv
  have hlossy := Utf8.lossy_ascii a ((Punycode.isAscii_iff a).mp hascii)
  unfold RoundTrip
  simp only [Punycode.encode, hd, ↓reduceIte, ha, andThen, Punycode.decode, hlossy]
  split
  · rename_i hno
    have hno' : Punycode.hasPrefixAnywhere a = false := by simpa using hno
    rw [P.asciiFixed d a hv ha hno']
  · simp [hu]

/-- mixed combinations, under the compatibility law "on this domain ToASCII is label-wise raw
    punycode" (i.e. both encoders produce the same text): the decoder with either `validate`
    inverts the encoder with the other. -/
theorem punycode_roundtrip_mixed (P : Punycode.Prim) (d : Bytes) (hd : Utf8.lossy d = d)
    (hv : P.validDomain d) (hl : ∀ l ∈ Punycode.splitDot d, PunyLabelOK P l)
    (hcompat : Punycode.encode P d true = Punycode.encode P d false) :
    RoundTrip d (andThen (Punycode.encode P d true) (fun e => Punycode.decode P e false)) ∧
    RoundTrip d (andThen (Punycode.encode P d false) (fun e => Punycode.decode P e true)) := by
  constructor
  · rw [hcompat]; exact punycode_roundtrip_novalidate P d hd hl
  · rw [← hcompat]; exact punycode_roundtrip_validate P d hd hv

end C22
