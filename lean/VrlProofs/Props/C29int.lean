/-
  C29 (integer / conversion part) — `abs` returns the magnitude (and wraps only at the minimum
  integer, never panics), `mod` follows truncated-remainder sign rules, `to_string`/`parse_int`/`to_int` agree
  on integers. Model: VrlModel/Conv/Num.lean (+ Conv/Int.lean), tied to src/stdlib/{abs,mod_func,
  to_int,to_string,parse_int}.rs by the `c29.*` correspondence ops. Spec predicates:
  VrlModel/C29int.lean. The float part of C29 lives elsewhere.
-/
import VrlModel.C29int
import VrlProofs.Lemmas.C25Int
import VrlProofs.Lemmas.C25Ip

namespace C29
open Conv Conv.Num

/-! ### abs -/

/-- `abs(n)` is the magnitude of `n` for every `i64` except `i64::MIN`. -/
theorem abs_magnitude (n : Int) (hmin : n ≠ i64Min) :
    Num.abs (.int n) = .ok (.int (n.natAbs : Int)) := by
  simp only [Num.abs, hmin, ↓reduceIte]
  congr 2
  split <;> omega

/-- … and that magnitude is again an `i64` (no wrap). -/
theorem abs_in_range (n : Int) (hn : inI64 n = true) (hmin : n ≠ i64Min) :
    inI64 (n.natAbs : Int) = true ∧ 0 ≤ (n.natAbs : Int) := by
  rw [inI64_iff] at hn ⊢
  have : n ≠ -9223372036854775808 := hmin
  omega

/-- integers wrap only at the minimum integer: `abs(i64::MIN) = i64::MIN` (`wrapping_abs`;
    before the repair 6983af4 `i64::abs` panicked there under overflow checks). -/
theorem abs_min_wraps : Num.abs (.int i64Min) = .ok (.int i64Min) := by
  simp [Num.abs]

/-- the result is negative only at the minimum integer -/
theorem abs_nonneg_iff (n r : Int) (h : Num.abs (.int n) = .ok (.int r)) : r < 0 ↔ n = i64Min := by
  by_cases hn : n = i64Min
  · subst hn
    rw [abs_min_wraps] at h
    cases h
    simp [i64Min]
  · rw [abs_magnitude n hn] at h
    cases h
    simp only [hn, iff_false]
    omega

/-- `abs` never panics, whatever its argument is. -/
theorem abs_never_panics (v : Value) : Num.abs v ≠ .panic := by
  cases v <;> simp only [Num.abs] <;> try (intro h; cases h)
  split <;> (intro h; cases h)

/-- the full statement through the Spec predicate the oracle evaluates: every `i64`. -/
theorem specAbs_model (n : Int) : specAbs n (Num.abs (.int n)) = true := by
  by_cases hmin : n = i64Min
  · subst hmin; simp [specAbs, abs_min_wraps]
  · simp [specAbs, abs_magnitude n hmin, hmin]

/-- `abs` of a float clears the sign bit and nothing else. -/
theorem abs_float (bits : Nat) (h : bits < 2 ^ 64) :
    ∃ r, Num.abs (.float bits) = .ok (.float r) ∧ r < 2 ^ 63 ∧ (r = bits ∨ r + 2 ^ 63 = bits) := by
  refine ⟨bits % 9223372036854775808, rfl, ?_, ?_⟩ <;> omega

/-! ### mod -/

/-- `mod(a, b)` on integers is the truncated remainder: `|r| < |b|`, `r` is zero or has the sign
    of the dividend `a`, and `b` divides `a - r` — for all `i64` `a` and `b ≠ 0`, including
    `i64::MIN % -1 = 0` (`wrapping_rem`). -/
theorem mod_truncated (a b : Int) (hb : b ≠ 0) :
    ∃ r, Num.mod (.int a) (.int b) = some (.ok (.int r)) ∧
      r.natAbs < b.natAbs ∧ (0 ≤ a → 0 ≤ r) ∧ (a ≤ 0 → r ≤ 0) ∧ b ∣ a - r := by
  refine ⟨a.tmod b, ?_, ?_, ?_, ?_, ?_⟩
  · cases b with
    | ofNat k =>
      cases k with
      | zero => exact absurd rfl hb
      | succ k => rfl
    | negSucc k => rfl
  · rw [Int.natAbs_tmod]
    exact Nat.mod_lt _ (by omega)
  · intro h; exact Int.tmod_nonneg b h
  · intro h
    have h1 : a = -(-a) := by omega
    rw [h1, Int.neg_tmod]
    have := Int.tmod_nonneg b (show 0 ≤ -a by omega)
    omega
  · exact Int.dvd_self_sub_tmod

/-- the remainder fits an `i64`, so the `wrapping_` of `wrapping_rem` never wraps a value -/
theorem mod_in_range (a b : Int) (hb : b ≠ 0) (hbr : inI64 b = true) :
    inI64 (a.tmod b) = true := by
  rw [inI64_iff] at hbr ⊢
  have h := Int.natAbs_tmod a b
  have h2 : a.natAbs % b.natAbs < b.natAbs := Nat.mod_lt _ (by omega)
  omega

theorem mod_zero_errors (v : Value) : Num.mod v (.int 0) = some .err := rfl

theorem specMod_model (a b : Int) :
    ∀ r, Num.mod (.int a) (.int b) = some r → specMod a b r = true := by
  intro r hr
  unfold specMod
  by_cases hb : b = 0
  · simp [hb]
  · obtain ⟨x, hx, h1, h2, h3, h4⟩ := mod_truncated a b hb
    rw [hx] at hr
    cases hr
    have h5 : (a - x) % b = 0 := Int.emod_eq_zero_of_dvd h4
    have hsign : (decide (0 ≤ a) && decide (0 ≤ x) || decide (a ≤ 0) && decide (x ≤ 0)) = true := by
      by_cases ha : 0 ≤ a
      · simp [ha, h2 ha]
      · have : a ≤ 0 := by omega
        simp [this, h3 this]
    simp [h1, hsign, h5]

/-! ### to_string / parse_int / to_int on integers -/

theorem intText_eq (n : Int) : intText n = signedText 10 n := rfl

theorem intText_ascii (n : Int) : ∀ c ∈ intText n, c < 128 := by
  intro c hc
  unfold intText at hc
  split at hc
  · rcases List.mem_cons.mp hc with h | h
    · omega
    · exact magText_ascii 10 _ (by omega) (by omega) c h
  · exact magText_ascii 10 _ (by omega) (by omega) c hc

/-- `parse_int(to_string(i), 10) = i` for every `i64` (also `i64::MIN`). -/
theorem parse_to_string_base10 (i : Int) (hi : inI64 i = true) :
    Num.toString (.int i) = some (.ok (.bytes (intText i))) ∧
    parseInt (.bytes (intText i)) (some (.int 10)) = .ok (.int i) := by
  refine ⟨rfl, ?_⟩
  have h := fromStrRadix_signedText i 10 (by omega) (by omega) hi
  simp [parseInt, intText_eq, h, optToRes, Res.map]

/-- `parse_int(to_string(i)) = i` without a base argument: the prefix detection of `parse_int`
    never misreads a decimal integer (`"0"` is read as octal zero; no other text starts with `0`). -/
theorem parse_to_string_auto (i : Int) (hi : inI64 i = true) :
    parseInt (.bytes (intText i)) none = .ok (.int i) := by
  rw [intText_eq]; exact parseInt_auto_signedText i hi

/-- `to_int(to_string(i)) = i` for every `i64`. -/
theorem to_int_to_string (i : Int) (hi : inI64 i = true) :
    toInt (.bytes (intText i)) = .ok (.int i) := by
  have h := fromStrRadix_signedText i 10 (by omega) (by omega) hi
  rw [← intText_eq] at h
  simp [toInt, lossy_ascii _ (intText_ascii i), h, optToRes, Res.map]

theorem specText_model (i : Int) :
    specText i (parseInt (.bytes (intText i)) none) (parseInt (.bytes (intText i)) (some (.int 10)))
      (toInt (.bytes (intText i))) = true := by
  unfold specText
  by_cases hi : inI64 i = true
  · simp [parse_to_string_auto i hi, (parse_to_string_base10 i hi).2, to_int_to_string i hi]
  · simp [hi]

/-- `to_int` is the identity on integers, `0`/`1` on booleans, `0` on null, and the floor of the
    seconds on timestamps. -/
theorem to_int_simple (i : Int) (t : Int) :
    toInt (.int i) = .ok (.int i) ∧ toInt (.bool true) = .ok (.int 1) ∧
    toInt (.bool false) = .ok (.int 0) ∧ toInt .null = .ok (.int 0) ∧
    toInt (.ts t) = .ok (.int (t / 1000000000)) := ⟨rfl, rfl, rfl, rfl, rfl⟩

/-- the `as i64` cast of `to_int` on floats: exact on small integers, truncating toward zero,
    saturating at the ends (examples by bit pattern: 2.5, -2.5, 2^68, -inf, 2^63, -0.0). -/
theorem witness_float_cast :
    f64ToI64 0x4004000000000000 = 2 ∧ f64ToI64 0xC004000000000000 = -2 ∧
    f64ToI64 0x4430000000000000 = i64Max ∧ f64ToI64 0xFFF0000000000000 = i64Min ∧
    f64ToI64 0x43E0000000000000 = i64Max ∧ f64ToI64 0x8000000000000000 = 0 := by decide

end C29
