/-
  C33 — Diagnostics are always renderable and point into the source.

  Property (full strength): for every source text, every label of every diagnostic satisfies
      WF src (a, b) := a ≤ b ∧ b ≤ |src| ∧ boundary a ∧ boundary b
  and rendering succeeds. The lexer, the LALRPOP parser and the compiler's span plumbing as a whole
  are NOT modelled (DESIGN §3): for them the property is only evaluated by the `o.c33` oracle on the
  real compiler. Modelled (lean/VrlModel/Spans.lean, tied to the code by the `c33.*` correspondence
  ops) are the span producers that do arithmetic; for those this file states `ProducersSpec` (the
  full statement, FALSE of the code in its first two clauses — witnesses in
  VrlProofs/Witness/C33.lean) and proves what holds:

  verify_overwritable (assignment.rs)
    overwritable_bounds            all inputs: segment_span is ordered and inside the source,
                                   parent_span ends inside the source and starts at the target start
    overwritable_ordered_partial   parent_span is ordered too, IF the Display lengths of the popped
                                   segments (+ a dot per field) fit into the target text (`fitsB`)
    fits_of_spelling               … which holds when every segment is spelled at least as long as
                                   its Display text + dot (false for template strings, no-dot fields)
    overwritable_wf_partial        both spans are fully WF (boundaries included) IF the target text
                                   is the canonical spelling (`canonAtB`: dot + Display text)
  Assignment::new (assignment.rs)
    assignmentSpan_no_panic        `expr.start − 1` cannot underflow when a target precedes the expr
    assignmentSpan_range           the span is ordered and inside the source
    assignmentSpan_wf_partial      fully WF IF the byte before the expression is ASCII
  lexer literal errors (lex.rs)
    lex_string_label_range         all sources: a top-level string-literal error label is
                                   non-empty, ordered and inside the source
    lex_string_wf_partial          ASCII-only sources: that label is fully WF
    lex_string_wf_utf8             every UTF-8 source: fully WF, no exception (since /repo 45c5794;
                                   before, class D_lexer_char_span had to be excluded)
    lex_nested_wf                  nested lexer of the query look-ahead: fully WF, no exception (since
                                   /repo 694e815 + 45c5794; before: D_eof_span, D_lexer_char_span)
    lex_quoted_wf                  all sources: the label of an unterminated s'/r'/t' literal is WF
    lexSpec_holds                  the lexer clause of `ProducersSpec` is now a theorem
-/
import VrlProofs.Lemmas.C33

namespace C33
open Spans

/-- The property restricted to the modelled producers, at full strength: whatever the kind check
    answers and whatever the path is, the spans reported by `verify_overwritable` for a
    well-formed target span are well-formed; same for `assignment_span` and the lexer labels (of
    UTF-8 sources). The first two clauses are FALSE of the code (`Witness/C33.lean`:
    `not_overwritableSpec`, `not_assignmentSpec`); the lexer clause was false too and HOLDS since
    the repairs /repo 45c5794 + 694e815 (`lexSpec_holds`). -/
def OverwritableSpec : Prop :=
  ∀ (src : List Nat) (valid : Nat → Bool) (target : Span) (segs : List Seg) (x : Span × Span),
    WF src target → verifyOverwritable valid target segs = some x → WF src x.1 ∧ WF src x.2

def AssignmentSpec : Prop :=
  ∀ (src : List Nat) (target expr s : Span),
    WF src target → WF src expr → target.stop ≤ expr.start → target.start < target.stop →
    assignmentSpan target expr = .ok s → WF src s

def LexSpec : Prop :=
  ∀ (src : List Nat) (e : LexErr), wfUtf8 src = true → lexFirst src = some (.error e) → WF src e.label

def ProducersSpec : Prop := OverwritableSpec ∧ AssignmentSpec ∧ LexSpec

/-! ### verify_overwritable -/

/-- all inputs (any kind check, any path, any Display/spelling mismatch): `saturating_sub` keeps
    `segment_span` ordered and inside the source, `parent_span` ends inside the source. -/
theorem overwritable_bounds (src : List Nat) (valid : Nat → Bool) (target : Span) (segs : List Seg)
    (x : Span × Span) (ht : target.stop ≤ src.length)
    (h : verifyOverwritable valid target segs = some x) :
    x.1.start ≤ x.1.stop ∧ x.1.stop ≤ src.length ∧ x.2.stop ≤ src.length ∧
    x.2.start = target.start := by
  have hm := overwritableLoop_mem valid _ _ _ h
  have := walk_bounds _ _ _ hm
  omega

/-- `parent_span` is ordered (and `segment_span` stays right of the target start) when the
    Display lengths fit into the target text. Without `fitsB` this is false: `witness_reversed`. -/
theorem overwritable_ordered_partial (valid : Nat → Bool) (target : Span) (segs : List Seg)
    (x : Span × Span) (hf : fitsB target.start target.stop segs.reverse = true)
    (h : verifyOverwritable valid target segs = some x) :
    x.2.start ≤ x.2.stop ∧ target.start ≤ x.1.start := by
  have hm := overwritableLoop_mem valid _ _ _ h
  exact walk_ordered _ _ hf _ hm

/-- "the target text is the path spelled in the source": `spell` lists, from the back, every
    segment with the number of source bytes it occupies (its dot included); when no segment is
    spelled shorter than its Display text + dot, the lengths fit. -/
theorem fits_of_spelling (start : Nat) : ∀ (spell : List (Seg × Nat)) (stop : Nat),
    (∀ p ∈ spell, displayLen p.1 + dotLen p.1 ≤ p.2) →
    start + (spell.map Prod.snd).sum ≤ stop →
    fitsB start stop (spell.map Prod.fst) = true := by
  intro spell
  induction spell with
  | nil => intro stop _ h; simpa [fitsB] using h
  | cons p rest ih =>
    intro stop hall hsum
    have hp := hall p (List.mem_cons_self)
    simp only [List.map_cons, List.sum_cons] at hsum
    simp only [List.map_cons, fitsB, Bool.and_eq_true, decide_eq_true_eq]
    refine ⟨by omega, ih _ (fun q hq => hall q (List.mem_cons_of_mem _ hq)) (by omega)⟩

/-- full well-formedness (order, range, character boundaries) of both reported spans when the
    source really holds the canonical spelling `.` + Display text of every popped segment.
    Without `canonAtB` this is false: `witness_split_char`, `witness_reversed`. -/
theorem overwritable_wf_partial (src : List Nat) (valid : Nat → Bool) (target : Span)
    (segs : List Seg) (x : Span × Span) (ht : WF src target)
    (hc : canonAtB src target.start target.stop segs.reverse = true)
    (h : verifyOverwritable valid target segs = some x) :
    WF src x.1 ∧ WF src x.2 := by
  have hm := overwritableLoop_mem valid _ _ _ h
  exact walk_wf src _ target ht.2.1 ht.2.2.1 ht.2.2.2 hc _ hm

/-! ### Assignment::new -/

/-- C04 clause for `expr_span.start() - 1`: a non-empty target in front of the expression rules
    the underflow out. -/
theorem assignmentSpan_no_panic (target expr : Span) (h1 : target.start < target.stop)
    (h2 : target.stop ≤ expr.start) : assignmentSpan target expr ≠ .panic := by
  unfold assignmentSpan
  split
  · omega
  · simp

theorem assignmentSpan_range (src : List Nat) (target expr s : Span) (h1 : target.start < target.stop)
    (h2 : target.stop ≤ expr.start) (he : expr.start ≤ src.length)
    (h : assignmentSpan target expr = .ok s) : s.start ≤ s.stop ∧ s.stop ≤ src.length := by
  unfold assignmentSpan at h
  split at h
  · cases h
  · cases h; simp; omega

/-- fully WF when the byte in front of the expression is ASCII (in a well-formed program it is
    the `=`, a space, a newline …). A multi-byte white-space character there is the counterexample
    `witness_assignment_split_char`. -/
theorem assignmentSpan_wf_partial (src : List Nat) (target expr s : Span) (b : Nat)
    (ht : WF src target) (h1 : target.start < target.stop) (h2 : target.stop ≤ expr.start)
    (he : expr.start ≤ src.length) (hb : src[expr.start - 1]? = some b) (hb' : b < 128)
    (h : assignmentSpan target expr = .ok s) : WF src s := by
  have hr := assignmentSpan_range src target expr s h1 h2 he h
  unfold assignmentSpan at h
  split at h
  · cases h
  · cases h
    exact ⟨hr.1, hr.2, ht.2.2.1, boundary_of_ascii hb hb'⟩

/-! ### lexer: literal errors -/

/-- all sources: the label of a top-level string-literal error (E207, E209, E211) is non-empty,
    ordered and inside the source; in particular `(len, len + 1)` cannot come from here. -/
theorem lex_string_label_range (src : List Nat) (e : LexErr) (hne : src ≠ [])
    (h : lexStringAt0 src = .error e) :
    e.label.start < e.label.stop ∧ e.label.stop ≤ src.length := by
  have hlen : 0 < src.length := List.length_pos_iff.mpr hne
  have hp : PosOK src.length 0 (charIndices src) := by
    have := posOK_charIndicesFrom 0 src
    simpa [charIndices] using this
  exact scanString_label_range src.length 0 hlen _ .normal 0 e (PosOK_tail hp) (Nat.zero_le _)
    (by simp [StOK]) h

/-- ASCII-only sources: that label is well-formed (special case of `lex_string_wf_utf8`, kept
    because it needs no UTF-8 reasoning). -/
theorem lex_string_wf_partial (src : List Nat) (e : LexErr) (hne : src ≠ [])
    (ha : ∀ b ∈ src, b < 128) (h : lexStringAt0 src = .error e) : WF src e.label := by
  have hr := lex_string_label_range src e hne h
  exact ⟨by omega, hr.2, ascii_boundary ha (by omega), ascii_boundary ha hr.2⟩

/-- every UTF-8 source (since /repo 45c5794, without exception): the label of a top-level
    string-literal error (E207, E209, E211) is well-formed. Before the repair the class
    D_lexer_char_span (invalid escape with a non-ASCII character, label one byte wide) had to be
    excluded; the label is now `(start, start + len_utf8(ch))`. -/
theorem lex_string_wf_utf8 (tl : List Nat) (e : LexErr) (hu : wfUtf8 (34 :: tl) = true)
    (h : lexStringAt0 (34 :: tl) = .error e) : WF (34 :: tl) e.label := by
  have hu' : wfUtf8 tl = true := by
    unfold wfUtf8 at hu; simpa using hu
  have hc : Chain (34 :: tl) 1 (charIndicesFrom 1 tl) := by
    have := chain_charIndicesFrom 1 tl [34] rfl hu'
    simpa using this
  have hs := chain_start hc
  have hdrop : (charIndices (34 :: tl)).drop 1 = charIndicesFrom 1 tl := by
    unfold charIndices
    rw [charIndicesFrom_ascii 0 34 tl (by omega)]
    rfl
  unfold lexStringAt0 at h
  rw [hdrop] at h
  exact scanString_label_wf (34 :: tl) 0 rfl hs.2.1 (by simp) _ .normal 1 e hc (by simp [StB]) h

theorem offsetBy_label (e : LexErr) (o : Nat) :
    (e.offsetBy o).label = ⟨e.label.start + o, e.label.stop + o⟩ := by
  cases e with
  | escapeChar s ch => cases ch <;> simp [LexErr.offsetBy, LexErr.label] <;> omega
  | _ => simp [LexErr.offsetBy, LexErr.label] <;> omega

/-- the nested lexer of `query_start` (string whose opening quote is byte `pos`, inside a
    delimited region; since /repo 694e815 and 45c5794, without exception): every error label is
    well-formed. Before the repairs "unterminated string" was reported at `(pos + 1, pos + 2)`,
    one past the quote (D_eof_span), and D_lexer_char_span applied here too. -/
theorem lex_nested_wf (src : List Nat) (pos : Nat) (e : LexErr)
    (hq : src[pos]? = some 34) (hu : wfUtf8 (src.drop (pos + 1)) = true)
    (h : lexNestedString src pos = .error e) : WF src e.label := by
  have hpos : pos + 1 ≤ src.length := by
    have := (List.getElem?_eq_some_iff.mp hq).1; omega
  unfold lexNestedString at h
  generalize hsub : src.drop (pos + 1) = sub at h hu
  have hsrc : src.take (pos + 1) ++ sub = src := by rw [← hsub]; exact List.take_append_drop _ _
  have hlen : (src.take (pos + 1)).length = pos + 1 := by simp; omega
  have hb1 : isCharBoundary src (pos + 1) = true := by
    have := (chain_start (chain_charIndicesFrom (pos + 1) sub (src.take (pos + 1)) hlen hu)).2.1
    rwa [hsrc] at this
  have hstr : WF src (LexErr.stringLiteral pos).label :=
    ⟨by simp [LexErr.label], by simpa [LexErr.label] using hpos, boundary_of_ascii hq (by omega), hb1⟩
  have hc : Chain sub 0 (charIndices sub) := by
    have := chain_charIndicesFrom 0 sub [] rfl hu
    simpa [charIndices] using this
  have gen : ∀ e0, scanString sub.length 0 .normal (charIndices sub) = .error e0 →
      (∀ s, e0 ≠ .stringLiteral s) → WF src (e0.offsetBy (pos + 1)).label := by
    intro e0 hscan hs
    rcases scanString_label_wf' sub 0 _ .normal 0 e0 hc (by simp [StB]) hscan with h1 | h1
    · exact absurd h1 (hs _)
    · have hne : sub ≠ [] := by
        intro hnil; subst hnil
        simp [charIndices, charIndicesFrom, scanString] at hscan
        exact absurd hscan.symm (hs _)
      have hpos' : 0 < sub.length := List.length_pos_iff.mpr hne
      have hp : PosOK sub.length 0 (charIndices sub) := by
        have := posOK_charIndicesFrom 0 sub
        simpa [charIndices] using this
      have hr := scanString_label_range sub.length 0 hpos' _ .normal 0 e0 hp (Nat.zero_le _)
        (by simp [StOK]) hscan
      have := WF_shift (src.take (pos + 1)) sub hu e0.label h1 hr.1
      rw [hsrc, hlen] at this
      rw [offsetBy_label]; exact this
  cases hscan : scanString sub.length 0 .normal (charIndices sub) with
  | ok v => simp [hscan] at h
  | error e0 =>
    simp only [hscan] at h
    cases e0 with
    | stringLiteral s => simp only [LexErr.offsetBy] at h; cases h; exact hstr
    | literal s =>
      simp only [LexErr.offsetBy] at h; cases h
      exact gen _ hscan (by intro s hh; cases hh)
    | escapeChar s ch =>
      simp only [LexErr.offsetBy] at h; cases h
      exact gen _ hscan (by intro s hh; cases hh)
    | unicodeEscape s t =>
      simp only [LexErr.offsetBy] at h; cases h
      exact gen _ hscan (by intro s hh; cases hh)

/-- all sources: an unterminated `s'…`, `r'…`, `t'…` literal at the start of the source is
    reported at `(0, 1)`, which is well-formed. -/
theorem lex_quoted_wf (c : Nat) (rest : List Nat) (e : LexErr)
    (h : scanQuoted (c :: 39 :: rest).length 0 false ((charIndices (c :: 39 :: rest)).drop 2) = .error e) :
    WF (c :: 39 :: rest) e.label := by
  have := scanQuoted_error _ _ _ _ _ h
  subst this
  refine ⟨by simp [LexErr.label], by simp [LexErr.label], rfl, ?_⟩
  simp [LexErr.label, isCharBoundary, isCont]

theorem wfUtf8_cons_ascii {b : Nat} {tl : List Nat} (hb : b < 128) (h : wfUtf8 (b :: tl) = true) :
    wfUtf8 tl = true := by
  unfold wfUtf8 at h; simpa [hb] using h

/-- the lexer clause of `ProducersSpec` now HOLDS (for every UTF-8 source and every entry shape
    of `lexFirst`): after the two repairs no modelled lexer error has an ill-formed label. -/
theorem lexSpec_holds : LexSpec := by
  intro src e hu h
  unfold lexFirst at h
  split at h
  · simp only [Option.some.injEq] at h
    exact lex_string_wf_utf8 _ e hu h
  · split at h
    · simp only [Option.some.injEq] at h
      exact lex_quoted_wf _ _ e h
    · cases h
  · simp only [Option.some.injEq] at h
    exact lex_nested_wf _ 2 e rfl
      (wfUtf8_cons_ascii (by omega) (wfUtf8_cons_ascii (by omega) (wfUtf8_cons_ascii (by omega) hu))) h
  · simp only [Option.some.injEq] at h
    exact lex_nested_wf _ 2 e rfl
      (wfUtf8_cons_ascii (by omega) (wfUtf8_cons_ascii (by omega) (wfUtf8_cons_ascii (by omega) hu))) h
  · simp only [Option.some.injEq] at h
    exact lex_nested_wf _ 3 e rfl
      (wfUtf8_cons_ascii (by omega) (wfUtf8_cons_ascii (by omega)
        (wfUtf8_cons_ascii (by omega) (wfUtf8_cons_ascii (by omega) hu)))) h
  · cases h

end C33
