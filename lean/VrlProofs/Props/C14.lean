/-
  C14 — evaluation is deterministic and thread-safe.

  In the model a run is a *function* `Lang.run : Exprs → St → RunOutcome × St` of the compiled
  program and of the complete input state (event, metadata, runtime variables, fault schedule):
  equal inputs give equal results by `rfl`. The content is therefore (a) what `Runtime::clear`
  must reset for a reused runtime to behave like a fresh one — the runtime state is exactly the
  variable store, `clear` empties it (`run_after_clear`: whatever the history of earlier events,
  including failed runs that left variables behind); (b) schedule independence of threads that
  share only the immutable program and own their runtime and target (`interleaving`: under every
  interleaving each thread's state is the result of its own steps, in its own order). That the real
  `Program` has no hidden shared mutable state (regex caches, lazily initialised tables, …) cannot
  be exhibited by the model: it is exercised by the check (compile twice; fresh vs cleared runtime
  after k earlier events; 8 threads x repeated runs on one shared `Program`) and stated as partial.
-/
import VrlModel.Lang.Eval

namespace C14
open Lang

/-- the part of the state a `Runtime` keeps between events -/
abbrev Vars := List (String × Value)

/-- one event processed by a runtime whose variable store is `vars` -/
def process (prog : Exprs) (vars : Vars) (event metadata : Value) : RunOutcome × Value × Value × Vars :=
  let r := run prog { vars, event, metadata, faults := [], ops := 0, log := [], errs := [] }
  (r.1, r.2.event, r.2.metadata, r.2.vars)

/-- `Runtime::clear` -/
def clear (_ : Vars) : Vars := []

/-- the variable store after a history of events, each followed or not by `clear` -/
def after (vars : Vars) : List (Exprs × Value × Value × Bool) → Vars
  | [] => vars
  | (p, e, m, c) :: rest =>
    let v' := (process p vars e m).2.2.2
    after (if c then clear v' else v') rest

/-- a cleared runtime behaves like a fresh one, whatever it processed before (and whether or not
    it was cleared in between). -/
theorem run_after_clear (hist : List (Exprs × Value × Value × Bool)) (v0 : Vars) (prog : Exprs)
    (event metadata : Value) :
    process prog (clear (after v0 hist)) event metadata = process prog [] event metadata := rfl

/-- determinism: the result is a function of program and inputs. -/
theorem deterministic (prog : Exprs) (s t : St) (h : s = t) : run prog s = run prog t := by rw [h]

/-! ### share-nothing threads under an arbitrary interleaving -/

/-- apply thread `i`'s step to its own component -/
def stepAt {S : Type} (f : Nat → S → S) (σ : Nat → S) (i : Nat) : Nat → S :=
  fun j => if j = i then f i (σ j) else σ j

/-- run a schedule (the sequence of thread ids in the order the scheduler picked them) -/
def exec {S : Type} (f : Nat → S → S) : List Nat → (Nat → S) → (Nat → S)
  | [], σ => σ
  | i :: rest, σ => exec f rest (stepAt f σ i)

def iter {S : Type} (g : S → S) : Nat → S → S
  | 0, x => x
  | n + 1, x => iter g n (g x)

/-- under EVERY interleaving, thread `i` ends in the state its own steps produce from its own
    initial state: as many applications of its step as it was scheduled, nothing else. -/
theorem interleaving {S : Type} (f : Nat → S → S) (sched : List Nat) : ∀ (σ : Nat → S) (i : Nat),
    exec f sched σ i = iter (f i) (sched.count i) (σ i) := by
  induction sched with
  | nil => intro σ i; rfl
  | cons k rest ih =>
    intro σ i
    rw [exec, ih]
    by_cases h : k = i
    · subst h
      simp [stepAt, List.count_cons_self, iter]
    · have h' : i ≠ k := fun e => h e.symm
      simp [stepAt, h', List.count_cons_of_ne h]

/-- two schedules that give thread `i` the same number of steps leave it in the same state. -/
theorem schedule_independent {S : Type} (f : Nat → S → S) (s1 s2 : List Nat) (σ : Nat → S) (i : Nat)
    (h : s1.count i = s2.count i) : exec f s1 σ i = exec f s2 σ i := by
  rw [interleaving, interleaving, h]

/-- non-vacuity: two threads, schedule 0 1 0; thread 0 stepped twice, thread 1 once. -/
example : exec (fun i (x : Nat) => x + i + 1) [0, 1, 0] (fun _ => 0) 0 = 2 ∧
          exec (fun i (x : Nat) => x + i + 1) [0, 1, 0] (fun _ => 0) 1 = 2 := by decide

end C14
