/-
  C13 — closure parameters are scoped to the closure.

  For every closure runner of function/closure.rs (`run_key_value`, `run_index_value`, `map_key`,
  `map_value`), every closure body (an arbitrary state transformer: it may assign the parameter,
  fail, abort or return), every state and every outcome: a variable named like a closure parameter
  holds afterwards exactly what it held before (unset stays unset).  Lifted to whole iterations
  (`for_each`, `filter`, `map_keys`, `map_values` over objects and arrays of any size), stopping
  early or not.  Holds also when both parameters have the same name.

  Model: `Lang.runKeyValue` … `Lang.mapValuesList` (VrlModel/Lang/Eval.lean), tied to the code by the
  `lang.run` correspondence; the two defects this property exposed on the pinned tree (early `?`
  before `cleanup`; restoration order with duplicate names) are repaired (`fix:` commits), so the
  model describes the repaired code.
-/
import VrlProofs.Lemmas.Vars

namespace C13
open Lang

/-- `p` is (the non-empty name of) parameter 0 or parameter 1. -/
def isParam (vars : List String) (p : String) : Prop :=
  cIdent vars 0 = some p ∨ cIdent vars 1 = some p

theorem runKeyValue_restores (vars : List String) (body : Thunk) (k : List Nat) (v : Value) (s : St)
    (p : String) (hp : isParam vars p) :
    (runKeyValue vars body k v s).2.getVar p = s.getVar p := by
  unfold runKeyValue
  simp only []
  by_cases h0 : cIdent vars 0 = some p
  · rw [h0]; exact cleanup_restores _ _ _ _
  · have h1 : cIdent vars 1 = some p := by
      rcases hp with h | h
      · exact absurd h h0
      · exact h
    rw [cleanup_other _ _ _ _ h0, h1, cleanup_restores, insert_other _ _ _ _ h0]

theorem runIndexValue_restores (vars : List String) (body : Thunk) (i : Nat) (v : Value) (s : St)
    (p : String) (hp : isParam vars p) :
    (runIndexValue vars body i v s).2.getVar p = s.getVar p := by
  unfold runIndexValue
  simp only []
  by_cases h0 : cIdent vars 0 = some p
  · rw [h0]; exact cleanup_restores _ _ _ _
  · have h1 : cIdent vars 1 = some p := by
      rcases hp with h | h
      · exact absurd h h0
      · exact h
    rw [cleanup_other _ _ _ _ h0, h1, cleanup_restores, insert_other _ _ _ _ h0]

theorem mapKey_restores (vars : List String) (body : Thunk) (k : List Nat) (s : St)
    (p : String) (hp : cIdent vars 0 = some p) :
    (mapKey vars body k s).2.getVar p = s.getVar p := by
  unfold mapKey
  simp only []
  rw [hp]
  split <;> exact cleanup_restores _ _ _ _

theorem mapValue_restores (vars : List String) (body : Thunk) (v : Value) (s : St)
    (p : String) (hp : cIdent vars 0 = some p) :
    (mapValue vars body v s).2.getVar p = s.getVar p := by
  unfold mapValue
  simp only []
  rw [hp]; exact cleanup_restores _ _ _ _

/-! whole iterations (`VMap`/`VList` are mutual inductives: structural recursion) -/

theorem forEachMap_restores (vars : List String) (body : Thunk) (p : String) (hp : isParam vars p) :
    (m : VMap) → (s : St) → (forEachMap vars body m s).2.getVar p = s.getVar p
  | .nil, _ => rfl
  | .cons k v m, s => by
    have h1 := runKeyValue_restores vars body k v s p hp
    rw [forEachMap]
    cases hr : runKeyValue vars body k v s with
    | mk r s1 =>
      rw [hr] at h1
      cases r with
      | ok _ => simp only []; rw [forEachMap_restores vars body p hp m s1]; exact h1
      | _ => exact h1

theorem forEachList_restores (vars : List String) (body : Thunk) (p : String) (hp : isParam vars p) :
    (a : VList) → (i : Nat) → (s : St) → (forEachList vars body a i s).2.getVar p = s.getVar p
  | .nil, _, _ => rfl
  | .cons v vs, i, s => by
    have h1 := runIndexValue_restores vars body i v s p hp
    rw [forEachList]
    cases hr : runIndexValue vars body i v s with
    | mk r s1 =>
      rw [hr] at h1
      cases r with
      | ok _ => simp only []; rw [forEachList_restores vars body p hp vs (i + 1) s1]; exact h1
      | _ => exact h1

theorem filterMap_restores (vars : List String) (body : Thunk) (p : String) (hp : isParam vars p) :
    (m : VMap) → (s : St) → (filterMap vars body m s).2.getVar p = s.getVar p
  | .nil, _ => rfl
  | .cons k v m, s => by
    have h1 := runKeyValue_restores vars body k v s p hp
    rw [filterMap]
    cases hr : runKeyValue vars body k v s with
    | mk r s1 =>
      rw [hr] at h1
      cases r with
      | ok w =>
        cases w with
        | bool b =>
          simp only []
          have ih := filterMap_restores vars body p hp m s1
          cases hf : filterMap vars body m s1 with
          | mk r2 s2 => rw [hf] at ih; cases r2 <;> simp_all
        | _ => exact h1
      | _ => exact h1

theorem filterList_restores (vars : List String) (body : Thunk) (p : String) (hp : isParam vars p) :
    (a : VList) → (i : Nat) → (s : St) → (filterList vars body a i s).2.getVar p = s.getVar p
  | .nil, _, _ => rfl
  | .cons v vs, i, s => by
    have h1 := runIndexValue_restores vars body i v s p hp
    rw [filterList]
    cases hr : runIndexValue vars body i v s with
    | mk r s1 =>
      rw [hr] at h1
      cases r with
      | ok w =>
        cases w with
        | bool b =>
          simp only []
          have ih := filterList_restores vars body p hp vs (i + 1) s1
          cases hf : filterList vars body vs (i + 1) s1 with
          | mk r2 s2 => rw [hf] at ih; cases r2 <;> simp_all
        | _ => exact h1
      | _ => exact h1

theorem mapKeysMap_restores (vars : List String) (body : Thunk) (p : String)
    (hp : cIdent vars 0 = some p) :
    (m : VMap) → (s : St) → (mapKeysMap vars body m s).2.getVar p = s.getVar p
  | .nil, _ => rfl
  | .cons k v m, s => by
    have h1 := mapKey_restores vars body k s p hp
    rw [mapKeysMap]
    cases hr : mapKey vars body k s with
    | mk r s1 =>
      rw [hr] at h1
      cases r with
      | ok k' =>
        simp only []
        have ih := mapKeysMap_restores vars body p hp m s1
        cases hf : mapKeysMap vars body m s1 with
        | mk r2 s2 => rw [hf] at ih; cases r2 <;> simp_all
      | error _ => exact h1

theorem mapValuesMap_restores (vars : List String) (body : Thunk) (p : String)
    (hp : cIdent vars 0 = some p) :
    (m : VMap) → (s : St) → (mapValuesMap vars body m s).2.getVar p = s.getVar p
  | .nil, _ => rfl
  | .cons k v m, s => by
    have h1 := mapValue_restores vars body v s p hp
    rw [mapValuesMap]
    cases hr : mapValue vars body v s with
    | mk r s1 =>
      rw [hr] at h1
      cases r with
      | ok w =>
        simp only []
        have ih := mapValuesMap_restores vars body p hp m s1
        cases hf : mapValuesMap vars body m s1 with
        | mk r2 s2 => rw [hf] at ih; cases r2 <;> simp_all
      | _ => exact h1

theorem mapValuesList_restores (vars : List String) (body : Thunk) (p : String)
    (hp : cIdent vars 0 = some p) :
    (a : VList) → (s : St) → (mapValuesList vars body a s).2.getVar p = s.getVar p
  | .nil, _ => rfl
  | .cons v vs, s => by
    have h1 := mapValue_restores vars body v s p hp
    rw [mapValuesList]
    cases hr : mapValue vars body v s with
    | mk r s1 =>
      rw [hr] at h1
      cases r with
      | ok w =>
        simp only []
        have ih := mapValuesList_restores vars body p hp vs s1
        cases hf : mapValuesList vars body vs s1 with
        | mk r2 s2 => rw [hf] at ih; cases r2 <;> simp_all
      | _ => exact h1

/-- non-vacuity: parameters `k`, `v`; also the duplicate-name case `|x, x|`. -/
example : isParam ["k", "v"] "v" := Or.inr (by decide)
example : isParam ["x", "x"] "x" := Or.inl (by decide)

end C13
