/-
  C06 / C07 (shared core) — `return` and `abort` are never intercepted.

  `Res.isEscape x` : `x` is `ret v` or `abort m`.  For every expression form and every position in
  which a sub-expression is evaluated, if that sub-expression ends with an escape `x` in state `s1`
  then the whole expression ends with the same `x` in the same state `s1` — nothing else runs
  (the right-hand sides do not mention the remaining sub-expressions, and the state is the one the
  escape left).  The two boundaries are: a closure body (`return` becomes the value of the
  iteration, `abort` still propagates) and the program (`return v` is success with `v`).

  All statements hold for all expressions, states and values.
-/
import VrlModel.Lang.Eval

namespace Lang

def Res.isEscape : Res → Bool
  | .ret _ => true
  | .abort _ => true
  | _ => false

end Lang

namespace C06
open Lang

abbrev catchS (s : St) : St := { s with evCatch := true }
abbrev shortS (s : St) : St := { s with evShort := true }

/-- blocks, programs, predicates: nothing after the escaping expression runs. -/
theorem seq_head (e : Expr) (es : Exprs) (s s1 : St) (x : Res) (hx : x.isEscape = true)
    (h : eval e s = (x, s1)) : evalSeq (.cons e es) s = (x, s1) := by
  cases es with
  | nil => rw [evalSeq, h]
  | cons e' es' =>
    rw [evalSeq, h]
    · cases x <;> simp_all [Res.isEscape]
    · intro hc; cases hc

theorem seq_tail (e : Expr) (es : Exprs) (s s1 : St) (v : Value) (hne : es ≠ .nil)
    (h : eval e s = (.ok v, s1)) : evalSeq (.cons e es) s = evalSeq es s1 := by
  cases es with
  | nil => exact absurd rfl hne
  | cons e' es' => rw [evalSeq, h]; intro hc; cases hc

theorem group (e : Expr) (s : St) : eval (.grp e) s = eval e s := by rw [eval]
theorem block (es : Exprs) (s : St) : eval (.blk es) s = evalSeq es s := by rw [eval]

/-- error coalescing does not catch it (lhs) … -/
theorem coalesce_lhs (l r : Expr) (s s1 : St) (x : Res) (hx : x.isEscape = true)
    (h : eval l (catchS s) = (x, s1)) : eval (.op .err l r) s = (x, s1) := by
  rw [eval, h]; cases x <;> simp_all [Res.isEscape]

/-- … nor when it comes from the rhs. -/
theorem coalesce_rhs (l r : Expr) (s s1 : St) (h : eval l (catchS s) = (.err, s1)) :
    eval (.op .err l r) s = eval r s1 := by
  rw [eval, h]

/-- infallible assignment does not catch it, and assigns nothing. -/
theorem ok_err_assign (okT errT : Tgt) (e : Expr) (d : Value) (s s1 : St) (x : Res)
    (hx : x.isEscape = true) (h : eval e (catchS s) = (x, s1)) :
    eval (.iasg okT errT e d) s = (x, s1) := by
  rw [eval, h]; cases x <;> simp_all [Res.isEscape]

theorem assign (t : Tgt) (e : Expr) (s s1 : St) (x : Res) (hx : x.isEscape = true)
    (h : eval e s = (x, s1)) : eval (.asg t e) s = (x, s1) := by
  rw [eval, h]; cases x <;> simp_all [Res.isEscape]

theorem or_lhs (l r : Expr) (s s1 : St) (x : Res) (hx : x.isEscape = true)
    (h : eval l (shortS s) = (x, s1)) : eval (.op .or l r) s = (x, s1) := by
  rw [eval, h]; cases x <;> simp_all [Res.isEscape]

/-- the rhs of `||` (evaluated because the lhs was null/false) is not rewritten into an error. -/
theorem or_rhs (l r : Expr) (s s1 s2 : St) (v : Value) (x : Res) (hx : x.isEscape = true)
    (hv : v = .null ∨ v = .bool false) (h : eval l (shortS s) = (.ok v, s1))
    (hr : eval r s1 = (x, s2)) : eval (.op .or l r) s = (x, s2) := by
  rw [eval, h]
  rcases hv with rfl | rfl <;> simp only [hr] <;> cases x <;> simp_all [Res.isEscape]

theorem and_lhs (l r : Expr) (s s1 : St) (x : Res) (hx : x.isEscape = true)
    (h : eval l (shortS s) = (x, s1)) : eval (.op .and l r) s = (x, s1) := by
  rw [eval, h]; cases x <;> simp_all [Res.isEscape]

theorem not_arg (e : Expr) (s s1 : St) (x : Res) (hx : x.isEscape = true)
    (h : eval e s = (x, s1)) : eval (.not e) s = (x, s1) := by
  rw [eval, h]; cases x <;> simp_all [Res.isEscape]

theorem return_arg (e : Expr) (s s1 : St) (x : Res) (hx : x.isEscape = true)
    (h : eval e s = (x, s1)) : eval (.ret e) s = (x, s1) := by
  rw [eval, h]; cases x <;> simp_all [Res.isEscape]

theorem abort_arg (e : Expr) (s s1 : St) (x : Res) (hx : x.isEscape = true)
    (h : eval e s = (x, s1)) : eval (.abort true e) s = (x, s1) := by
  rw [eval]; simp only [↓reduceIte, h]; cases x <;> simp_all [Res.isEscape]

/-- conditions: an escape in the predicate runs neither branch. -/
theorem predicate (pred thn els : Exprs) (b : Bool) (s s1 : St) (x : Res) (hx : x.isEscape = true)
    (h : evalSeq pred (shortS s) = (x, s1)) : eval (.ifte pred thn b els) s = (x, s1) := by
  rw [eval, h]; cases x <;> simp_all [Res.isEscape]

/-- arrays: the remaining elements are not evaluated. -/
theorem array_elem (e : Expr) (es : Exprs) (s s1 : St) (x : Res) (hx : x.isEscape = true)
    (h : eval e s = (x, s1)) : evalList (.cons e es) s = (.error x, s1) := by
  rw [evalList, h]; cases x <;> simp_all [Res.isEscape]

theorem array_lit (es : Exprs) (s s1 : St) (x : Res) (h : evalList es s = (.error x, s1)) :
    eval (.arr es) s = (x, s1) := by
  rw [eval, h]

theorem array_rest (e : Expr) (es : Exprs) (s s1 s2 : St) (v : Value) (x : Res)
    (h : eval e s = (.ok v, s1)) (hr : evalList es s1 = (.error x, s2)) :
    evalList (.cons e es) s = (.error x, s2) := by
  rw [evalList, h]; simp only [hr]

/-- objects: the remaining members are not evaluated. -/
theorem object_member (k : List Nat) (e : Expr) (kes : KExprs) (s s1 : St) (x : Res)
    (hx : x.isEscape = true) (h : eval e s = (x, s1)) :
    evalKVs (.cons k e kes) s = (.error x, s1) := by
  rw [evalKVs, h]; cases x <;> simp_all [Res.isEscape]

theorem object_lit (kvs : KExprs) (s s1 : St) (x : Res) (h : evalKVs kvs s = (.error x, s1)) :
    eval (.obj kvs) s = (x, s1) := by
  rw [eval, h]

theorem object_rest (k : List Nat) (e : Expr) (kes : KExprs) (s s1 s2 : St) (v : Value) (x : Res)
    (h : eval e s = (.ok v, s1)) (hr : evalKVs kes s1 = (.error x, s2)) :
    evalKVs (.cons k e kes) s = (.error x, s2) := by
  rw [evalKVs, h]; simp only [hr]

theorem query_target (e : Expr) (p : Path) (s s1 : St) (x : Res) (hx : x.isEscape = true)
    (h : eval e s = (x, s1)) : eval (.qexpr e p) s = (x, s1) := by
  rw [eval, h]; cases x <;> simp_all [Res.isEscape]

/-- function arguments: the first argument that escapes ends the call; the function is not run
    and later arguments are not evaluated. -/
theorem slots_escape (t : Thunk) (rest : List (Option Thunk)) (s s1 : St) (x : Res)
    (hx : x.isEscape = true) (h : t s = (x, s1)) :
    evalSlots (some t :: rest) s = (.error x, s1) := by
  rw [evalSlots, h]; cases x <;> simp_all [Res.isEscape]

theorem slots_later (t : Thunk) (rest : List (Option Thunk)) (s s1 s2 : St) (v : Value) (x : Res)
    (h : t s = (.ok v, s1)) (hr : evalSlots rest s1 = (.error x, s2)) :
    evalSlots (some t :: rest) s = (.error x, s2) := by
  rw [evalSlots, h]; simp only [hr]

/-- the program boundary: `return v` is success with `v`; `abort m` is an abort with `m`. -/
theorem program_return (prog : Exprs) (s : St) (s1 : St) (v : Value)
    (hroot : (s.tick 0 false []).1 = false) (h : evalSeq prog (s.tick 0 false []).2 = (.ret v, s1)) :
    run prog s = (.ok v, s1) := by
  unfold run
  cases ht : s.tick 0 false [] with | mk rej s' =>
  simp only [ht] at hroot h
  subst hroot
  simp [h]

theorem program_abort (prog : Exprs) (s : St) (s1 : St) (m : Option (List Nat))
    (hroot : (s.tick 0 false []).1 = false)
    (h : evalSeq prog (s.tick 0 false []).2 = (.abort m, s1)) :
    run prog s = (.abort m, s1) := by
  unfold run
  cases ht : s.tick 0 false [] with | mk rej s' =>
  simp only [ht] at hroot h
  subst hroot
  simp [h]

/-- the closure boundary: a `return` in the body is the value of the iteration — for every runner
    (objects and arrays, `for_each`/`filter`/`map_keys`/`map_values`) — while `abort` passes. -/
theorem closure_return (body : Thunk) (s s1 : St) (v : Value) (h : body s = (.ret v, s1)) :
    runBody body s = (.ok v, s1) := by
  unfold runBody; rw [h]

theorem closure_abort (body : Thunk) (s s1 : St) (m : Option (List Nat)) (h : body s = (.abort m, s1)) :
    runBody body s = (.abort m, s1) := by
  unfold runBody; rw [h]

def exS0 : St :=
  { vars := [], event := .obj .nil, metadata := .null, faults := [], ops := 0, log := [], errs := [] }

/-- `x = 1; ({ return 7 } ?? 2); x = 3` -/
def exProg : Exprs :=
  .cons (.asg (.internal "x" []) (.lit (.int 1)))
    (.cons (.op .err (.blk (.cons (.ret (.lit (.int 7))) .nil)) (.lit (.int 2)))
    (.cons (.asg (.internal "x" []) (.lit (.int 3))) .nil))

/-- non-vacuity / end-to-end: the program above ends with 7 and `x = 1`. -/
example : (run exProg exS0).1 = .ok (.int 7) ∧ (run exProg exS0).2.getVar "x" = some (.int 1) := by
  decide

end C06
