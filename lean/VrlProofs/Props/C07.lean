/-
  C07 — `abort` terminates the program and cannot be intercepted.

  `abort` (with or without message) evaluates to the outcome `abort m`; the generic propagation
  theorems of C06 (`Res.isEscape` covers `abort`) show that no enclosing expression intercepts it;
  here they are instantiated for the three catchers the property names — error coalescing,
  infallible assignment, closures — and for the program boundary, where the run ends with
  `RunOutcome.abort m` carrying the message.
-/
import VrlProofs.Props.C06
import VrlProofs.Props.C13

namespace C07
open Lang

/-- `abort` without message -/
theorem abort_plain (e : Expr) (s : St) :
    eval (.abort false e) s = (.abort none, { s with evAbort := true }) := by
  rw [eval]; rfl

/-- `abort "msg"`: the message is the (valid UTF-8) string the expression evaluates to. -/
theorem abort_message (e : Expr) (s s1 : St) (b : List Nat) (h : eval e s = (.ok (.bytes b), s1))
    (hu : validUtf8 b = true) : eval (.abort true e) s = (.abort (some b), { s1 with evAbort := true }) := by
  rw [eval]; simp [h, hu]

/-- a non-string message is a runtime error, not an abort. -/
theorem abort_message_nonstring (e : Expr) (s s1 : St) (v : Value) (h : eval e s = (.ok v, s1))
    (hv : ∀ b, v ≠ .bytes b) : eval (.abort true e) s = (.err, s1) := by
  rw [eval]; simp only [↓reduceIte, h]

/-- `??` does not catch it. -/
theorem not_caught_by_coalesce (l r : Expr) (s s1 : St) (m : Option (List Nat))
    (h : eval l (C06.catchS s) = (.abort m, s1)) : eval (.op .err l r) s = (.abort m, s1) :=
  C06.coalesce_lhs l r s s1 _ rfl h

/-- `ok, err = …` does not catch it and assigns neither target. -/
theorem not_caught_by_ok_err (okT errT : Tgt) (e : Expr) (d : Value) (s s1 : St) (m : Option (List Nat))
    (h : eval e (C06.catchS s) = (.abort m, s1)) : eval (.iasg okT errT e d) s = (.abort m, s1) :=
  C06.ok_err_assign okT errT e d s s1 _ rfl h

/-- closures do not catch it: the iteration stops with the abort (parameters restored, C13). -/
theorem not_caught_by_closure_kv (vars : List String) (body : Thunk) (k : List Nat) (v : Value)
    (s s1 : St) (m : Option (List Nat))
    (h : body (cInsert (cInsert s (cIdent vars 0) (.bytes k)).2 (cIdent vars 1) v).2 = (.abort m, s1)) :
    (runKeyValue vars body k v s).1 = .abort m := by
  unfold runKeyValue runBody
  simp only [h]

theorem not_caught_by_closure_iv (vars : List String) (body : Thunk) (i : Nat) (v : Value)
    (s s1 : St) (m : Option (List Nat))
    (h : body (cInsert (cInsert s (cIdent vars 0) (.int i)).2 (cIdent vars 1) v).2 = (.abort m, s1)) :
    (runIndexValue vars body i v s).1 = .abort m := by
  unfold runIndexValue runBody
  simp only [h]

/-- … and an aborting iteration stops `for_each` (no later element is visited). -/
theorem for_each_stops (vars : List String) (body : Thunk) (k : List Nat) (v : Value) (m' : VMap)
    (s s1 : St) (m : Option (List Nat)) (h : runKeyValue vars body k v s = (.abort m, s1)) :
    forEachMap vars body (.cons k v m') s = (.abort m, s1) := by
  rw [forEachMap, h]

/-- at the program boundary the run ends with the abort outcome carrying the message. -/
theorem program_outcome (prog : Exprs) (s s1 : St) (m : Option (List Nat))
    (hroot : (s.tick 0 false []).1 = false)
    (h : evalSeq prog (s.tick 0 false []).2 = (.abort m, s1)) : run prog s = (.abort m, s1) :=
  C06.program_abort prog s s1 m hroot h

/-- `x = 1; y, err = ![{ abort "m" }] ; x = 3` -/
def exProg : Exprs :=
  .cons (.asg (.internal "x" []) (.lit (.int 1)))
    (.cons (.iasg (.internal "y" []) (.internal "err" [])
        (.not (.arr (.cons (.blk (.cons (.abort true (.lit (.bytes [109]))) .nil)) .nil)))
        (.int 0))
    (.cons (.asg (.internal "x" []) (.lit (.int 3))) .nil))

/-- non-vacuity / end-to-end: the abort inside an array inside a negation inside an infallible
    assignment ends the program with message "m"; `x` keeps 1 and `y`, `err` stay unset. -/
example : (run exProg C06.exS0).1 = .abort (some [109]) ∧ (run exProg C06.exS0).2.getVar "x" = some (.int 1)
    ∧ (run exProg C06.exS0).2.getVar "y" = none := by
  decide

end C07
