/-
  C17 — target faults are contained.

  The target is an interface (`St.targetGet/targetInsert/targetRemove`) that consults a fault
  schedule (`faults` = the indices of the target operations that are rejected); the theorems
  quantify over ALL schedules, programs and states:
  * a rejected read behaves as a missing field (queries yield `null`, `exists` yields `false`);
  * a rejected write or deletion leaves the target unchanged (and is not an error, not a panic);
  * a target whose root cannot be read makes the run end with an error;
  * no rejected operation produces a panic.
  That the real wrapper rejects without mutating is part of the harness' `FaultyTarget` (stated in
  the trusted base); `lang.run` compares model and implementation under the same schedule.
-/
import VrlModel.Lang.Eval

namespace C17
open Lang

/-- the next target operation is rejected -/
def rejectedNext (s : St) : Prop := s.ops ∈ s.faults

theorem read_rejected (s : St) (m : Bool) (p : Path) (h : rejectedNext s) :
    (s.targetGet m p).1 = none ∧ (s.targetGet m p).2.event = s.event ∧
    (s.targetGet m p).2.metadata = s.metadata := by
  unfold rejectedNext at h
  simp [St.targetGet, St.tick, h]

theorem write_rejected (s : St) (m : Bool) (p : Path) (v : Value) (h : rejectedNext s) :
    ∃ s', s.targetInsert m p v = some s' ∧ s'.event = s.event ∧ s'.metadata = s.metadata ∧
      s'.vars = s.vars := by
  unfold rejectedNext at h
  simp [St.targetInsert, St.tick, h]

theorem remove_rejected (s : St) (m : Bool) (p : Path) (c : Bool) (h : rejectedNext s) :
    (s.targetRemove m p c).1 = none ∧ (s.targetRemove m p c).2.event = s.event ∧
    (s.targetRemove m p c).2.metadata = s.metadata := by
  unfold rejectedNext at h
  simp [St.targetRemove, St.tick, h]

/-- a query whose read is rejected evaluates to `null`, exactly like a missing field. -/
theorem query_rejected (s : St) (m : Bool) (p : Path) (h : rejectedNext s) :
    (eval (.qext m p) s).1 = .ok .null := by
  rw [eval]
  have := (read_rejected s m p h).1
  cases hr : s.targetGet m p with | mk r s' => rw [hr] at this; simp_all

theorem query_missing (s : St) (m : Bool) (p : Path) (h : ¬ rejectedNext s)
    (hm : (if m then s.metadata else s.event).get p = none) : (eval (.qext m p) s).1 = .ok .null := by
  unfold rejectedNext at h
  rw [eval]
  simp [St.targetGet, St.tick, h, hm]

theorem exists_rejected (s : St) (m : Bool) (p : Path) (h : rejectedNext s) :
    (eval (.existsExt m p) s).1 = .ok (.bool false) := by
  rw [eval]
  have := (read_rejected s m p h).1
  cases hr : s.targetGet m p with | mk r s' => rw [hr] at this; simp_all

/-- `del(.p)` whose removal is rejected returns `null` and leaves event and metadata unchanged. -/
theorem del_rejected (s : St) (m : Bool) (p : Path) (h : rejectedNext s) :
    (eval (.delExt m p false .noop) s).1 = .ok .null ∧
    (eval (.delExt m p false .noop) s).2.event = s.event ∧
    (eval (.delExt m p false .noop) s).2.metadata = s.metadata := by
  rw [eval]
  have hr := remove_rejected s m p false h
  simp only [Bool.false_eq_true, ↓reduceIte]
  cases hx : s.targetRemove m p false with | mk r s' => rw [hx] at hr; simp_all

/-- an assignment to the target whose write is rejected still evaluates to the value and leaves
    event and metadata unchanged. -/
theorem assign_rejected (e : Expr) (m : Bool) (p : Path) (s s1 : St) (v : Value)
    (he : eval e s = (.ok v, s1)) (h : rejectedNext s1) :
    (eval (.asg (.external m p) e) s).1 = .ok v ∧
    (eval (.asg (.external m p) e) s).2.event = s1.event ∧
    (eval (.asg (.external m p) e) s).2.metadata = s1.metadata := by
  rw [eval, he]
  obtain ⟨s', h1, h2, h3, _⟩ := write_rejected s1 m p v h
  simp [Tgt.insert, h1, h2, h3]

/-- the root check of `Runtime::resolve`: an unreadable root ends the run with an error, nothing
    of the program is evaluated. -/
theorem root_rejected (prog : Exprs) (s : St) (h : rejectedNext s) :
    (run prog s).1 = .error ∧ (run prog s).2.event = s.event ∧ (run prog s).2.vars = s.vars := by
  unfold rejectedNext at h
  simp [run, St.tick, h]

/-- non-vacuity: the schedule [1] rejects the first read after the root check of `.a`. -/
example :
    let s : St := { vars := [], event := .obj (.cons [97] (.int 1) .nil), metadata := .null,
                    faults := [1], ops := 0, log := [], errs := [] }
    (run (.cons (.qext false [.field [97]]) .nil) s).1 = .ok .null := by decide
example :
    let s : St := { vars := [], event := .obj (.cons [97] (.int 1) .nil), metadata := .null,
                    faults := [], ops := 0, log := [], errs := [] }
    (run (.cons (.qext false [.field [97]]) .nil) s).1 = .ok (.int 1) := by decide

end C17
