/-
  C03 clause (b): a call the compiler types infallible never returns an error — for the modelled
  functions, outside the finding classes `errClass` (witnessed in VrlProofs/Witness/C03.lean).
-/
import VrlProofs.Props.C03
import VrlProofs.Lemmas.C03Err

namespace C03
open Spec
open Str (R)

/-- **finding classes of clause (b)**, decidable on the run-time argument values:
    * `from_entries`: an entry that is not an object with a usable string key;
    * `unflatten`: the empty separator;
    * `encode_base64`: a charset other than `standard` / `url_safe`;
    * `mod`: an infinite float dividend (NaN patterns do not occur in a `NotNan`); mixed
      integer/float operands are not covered by the theorem (they go through `i64 as f64`);
    * `flatten`: an `except` argument that is not a literal array of strings is rejected by the
      function's own `compile` (not a finding: such a call does not exist). -/
def errClass (F : Fn) (vs : Slots) : Bool :=
  match F, vs with
  | .fromEntries, [some (.arr xs)] => !allEntriesOk xs
  | .unflatten, [_, some (.bytes s), _] => (Conv.Utf8.lossy s).isEmpty
  | .encodeBase64, [_, _, some (.bytes c)] => (Codec.Base64.Charset.ofName c).isNone
  | .mod, [some (.int _), some (.int _)] => false
  | .mod, [some (.float a), some (.float b)] => F64.isNaN a || F64.isInf a || F64.isNaN b
  | .mod, _ => true
  | .flatten, [_, _, some e] => (exceptKeys (some e)).isNone
  | _, _ => false

theorem decl_infallible {F : Fn} {as : ASlots} {td : TD} (h : declared F as = some td)
    (hf : td.fallible = false) :
    checkArgs F.params as = some false ∧ (declaredFn F as).fallible = false := by
  unfold declared at h
  split at h
  · cases h
  · rename_i unk hc
    cases h
    simp only [Bool.or_eq_false_iff] at hf
    rw [hf.2] at hc
    exact ⟨hc, hf.1⟩

theorem normal_nonzero {b : Nat} (h : F64.isNormal b = true) :
    F64.isZero b = false ∧ F64.eq b 0 = false := by
  simp only [F64.isNormal, F64.expField, F64.p52, Bool.and_eq_true] at h
  have h1 := of_decide_eq_true h.1
  have hm : F64.mag b ≠ 0 := by
    simp only [F64.mag, F64.p63]; omega
  refine ⟨by simp [F64.isZero, hm], ?_⟩
  have h0 : F64.key 0 = 0 := by decide
  have hk : F64.key b ≠ 0 := by
    unfold F64.key; split <;> omega
  simp [F64.eq, h0, hk]

theorem mod_infallible_const {as : ASlots} (h : (declaredFn .mod as).fallible = false) :
    (∃ b, aconst as 1 = some (.float b) ∧ F64.isNormal b = true) ∨
    (∃ i, aconst as 1 = some (.int i) ∧ i ≠ 0) := by
  simp only [declaredFn] at h
  split at h
  · cases h
  · cases hc : aconst as 1 with
    | none => simp [hc, modTD] at h
    | some w =>
      cases w <;> simp [hc, modTD] at h
      · rename_i i
        by_cases hi : i = 0
        · simp [hi] at h
        · exact Or.inr ⟨_, rfl, hi⟩
      · exact Or.inl ⟨_, rfl, h⟩

theorem tryRem_float_ne_err {a b : Nat} (ha : F64.isNaN a = false) (hi : F64.isInf a = false)
    (hb : F64.isNaN b = false) (hn : F64.isNormal b = true) :
    ofArith (Arith.tryRem (.float a) (.float b)) ≠ .err := by
  obtain ⟨hz, he⟩ := normal_nonzero hn
  simp only [Arith.tryRem, he, Bool.false_eq_true, if_false]
  cases hr : F64.rem a b with
  | none =>
    have := (F64.rem_none_iff a b ha hb).mp hr
    simp [hi, hz] at this
  | some r => simp [Arith.floatResult, F64.rem_notNaN a b r hr, ofArith]

/-- **C03 (b), what holds: for every modelled function and every call the compiler types infallible,
    no argument values the argument expressions can evaluate to make the call return an error —
    outside the classes of `errClass`.** -/
theorem infallible_partial (E : Env) (F : Fn) (as : ASlots) (vs : Slots) (td : TD)
    (c : Call F as vs td) (hc : errClass F vs = false) : InfallibleAt E F vs td := by
  intro hf
  obtain ⟨hchk, hfn⟩ := decl_infallible c.decl hf
  have ht := typesOk_of_checkArgs _ _ _ c.lits hchk c.adm
  cases F <;> simp only [Fn.params] at ht
  case string =>
    obtain ⟨v, rest, rfl, hv, hr⟩ := typesOk_req ht; cases typesOk_nil hr
    simp only [declaredFn, Bool.not_eq_false'] at hfn
    have := tag_of_isBytes hfn (head_mem c)
    cases v <;> simp [tagOf] at this
    simp [model, un, assertV, tagOf]
  case int =>
    obtain ⟨v, rest, rfl, hv, hr⟩ := typesOk_req ht; cases typesOk_nil hr
    simp only [declaredFn, Bool.not_eq_false'] at hfn
    have := tag_of_isInteger hfn (head_mem c)
    cases v <;> simp [tagOf] at this
    simp [model, un, assertV, tagOf]
  case float =>
    obtain ⟨v, rest, rfl, hv, hr⟩ := typesOk_req ht; cases typesOk_nil hr
    simp only [declaredFn, Bool.not_eq_false'] at hfn
    have := tag_of_isFloat hfn (head_mem c)
    cases v <;> simp [tagOf] at this
    simp [model, un, assertV, tagOf]
  case bool =>
    obtain ⟨v, rest, rfl, hv, hr⟩ := typesOk_req ht; cases typesOk_nil hr
    simp only [declaredFn, Bool.not_eq_false'] at hfn
    have := tag_of_isBoolean hfn (head_mem c)
    cases v <;> simp [tagOf] at this
    simp [model, un, assertV, tagOf]
  case timestamp =>
    obtain ⟨v, rest, rfl, hv, hr⟩ := typesOk_req ht; cases typesOk_nil hr
    simp only [declaredFn, Bool.not_eq_false'] at hfn
    have := tag_of_isTimestamp hfn (head_mem c)
    cases v <;> simp [tagOf] at this
    simp [model, un, assertV, tagOf]
  case array =>
    obtain ⟨v, rest, rfl, hv, hr⟩ := typesOk_req ht; cases typesOk_nil hr
    simp only [declaredFn, Bool.not_eq_false'] at hfn
    have := tag_array_of_superset hfn (head_mem c)
    cases v <;> simp [tagOf] at this
    simp [model, un, assertV, tagOf]
  case pop =>
    obtain ⟨v, rest, rfl, hv, hr⟩ := typesOk_req ht; cases typesOk_nil hr
    simp only [declaredFn, Bool.not_eq_false'] at hfn
    have := tag_array_of_superset hfn (head_mem c)
    cases v <;> simp [tagOf] at this
    simp [model, un, popV]
  case object =>
    obtain ⟨v, rest, rfl, hv, hr⟩ := typesOk_req ht; cases typesOk_nil hr
    simp only [declaredFn, Bool.not_eq_false'] at hfn
    have := tag_object_of_superset hfn (head_mem c)
    cases v <;> simp [tagOf] at this
    simp [model, un, assertV, tagOf]
  case isString => obtain ⟨v, rest, rfl, hv, hr⟩ := typesOk_req ht; cases typesOk_nil hr; simp [model, un, isV, boolR]
  case isInteger => obtain ⟨v, rest, rfl, hv, hr⟩ := typesOk_req ht; cases typesOk_nil hr; simp [model, un, isV, boolR]
  case isFloat => obtain ⟨v, rest, rfl, hv, hr⟩ := typesOk_req ht; cases typesOk_nil hr; simp [model, un, isV, boolR]
  case isBoolean => obtain ⟨v, rest, rfl, hv, hr⟩ := typesOk_req ht; cases typesOk_nil hr; simp [model, un, isV, boolR]
  case isNull => obtain ⟨v, rest, rfl, hv, hr⟩ := typesOk_req ht; cases typesOk_nil hr; simp [model, un, isV, boolR]
  case isArray => obtain ⟨v, rest, rfl, hv, hr⟩ := typesOk_req ht; cases typesOk_nil hr; simp [model, un, isV, boolR]
  case isObject => obtain ⟨v, rest, rfl, hv, hr⟩ := typesOk_req ht; cases typesOk_nil hr; simp [model, un, isV, boolR]
  case isTimestamp => obtain ⟨v, rest, rfl, hv, hr⟩ := typesOk_req ht; cases typesOk_nil hr; simp [model, un, isV, boolR]
  case isRegex => obtain ⟨v, rest, rfl, hv, hr⟩ := typesOk_req ht; cases typesOk_nil hr; simp [model, un, isV, boolR]
  case isNullish => obtain ⟨v, rest, rfl, hv, hr⟩ := typesOk_req ht; cases typesOk_nil hr; simp [model, un, boolR]
  case isEmpty =>
    obtain ⟨v, rest, rfl, hv, hr⟩ := typesOk_req ht; cases typesOk_nil hr
    cases v <;> kill_bits hv <;> simp [model, un, isEmptyV, boolR]
  case length =>
    obtain ⟨v, rest, rfl, hv, hr⟩ := typesOk_req ht; cases typesOk_nil hr
    cases v <;> kill_bits hv <;> simp [model, un, Coll.length]
  case strlen =>
    obtain ⟨v, rest, rfl, hv, hr⟩ := typesOk_req ht; cases typesOk_nil hr
    cases v <;> kill_bits hv <;> simp [model, un, Str.strlen]
  case push =>
    obtain ⟨v, rest, rfl, hv, hr⟩ := typesOk_req ht
    obtain ⟨x, rest, rfl, hx, hr⟩ := typesOk_req hr; cases typesOk_nil hr
    cases v <;> kill_bits hv <;> simp [model, bin, pushV]
  case append =>
    obtain ⟨v, rest, rfl, hv, hr⟩ := typesOk_req ht
    obtain ⟨x, rest, rfl, hx, hr⟩ := typesOk_req hr; cases typesOk_nil hr
    cases v <;> kill_bits hv <;> cases x <;> kill_bits hx <;> simp [model, bin, appendV]
  case toInt =>
    obtain ⟨v, rest, rfl, hv, hr⟩ := typesOk_req ht; cases typesOk_nil hr
    simp only [declaredFn, Bool.or_eq_false_iff] at hfn
    obtain ⟨⟨⟨hb, ha⟩, ho⟩, hre⟩ := hfn
    obtain ⟨nb, nt, nr, na, no⟩ := not_contains (head_mem c)
    cases v <;> try (first | (exact absurd rfl (nb hb)) | (exact absurd rfl (na ha)) | (exact absurd rfl (no ho)) | (exact absurd rfl (nr hre)))
    all_goals simp [model, un, ofRes, Conv.Num.toInt]
  case toFloat =>
    obtain ⟨v, rest, rfl, hv, hr⟩ := typesOk_req ht; cases typesOk_nil hr
    simp only [declaredFn, Bool.or_eq_false_iff] at hfn
    obtain ⟨⟨⟨hb, ha⟩, ho⟩, hre⟩ := hfn
    obtain ⟨nb, nt, nr, na, no⟩ := not_contains (head_mem c)
    cases v <;> try (first | (exact absurd rfl (nb hb)) | (exact absurd rfl (na ha)) | (exact absurd rfl (no ho)) | (exact absurd rfl (nr hre)))
    case ts ns => simp only [model, un, Round.toFloat]; split <;> simp
    all_goals simp [model, un, Round.toFloat]
  case toBool =>
    obtain ⟨v, rest, rfl, hv, hr⟩ := typesOk_req ht; cases typesOk_nil hr
    simp only [declaredFn, Bool.or_eq_false_iff] at hfn
    obtain ⟨⟨⟨⟨hb, hts⟩, ha⟩, ho⟩, hre⟩ := hfn
    obtain ⟨nb, nt, nr, na, no⟩ := not_contains (head_mem c)
    cases v <;> try (first | (exact absurd rfl (nb hb)) | (exact absurd rfl (na ha)) | (exact absurd rfl (no ho)) | (exact absurd rfl (nr hre)) | (exact absurd rfl (nt hts)))
    all_goals simp [model, un, toBool]
  case toString =>
    obtain ⟨v, rest, rfl, hv, hr⟩ := typesOk_req ht; cases typesOk_nil hr
    simp only [declaredFn, Bool.or_eq_false_iff] at hfn
    obtain ⟨⟨ha, ho⟩, hre⟩ := hfn
    obtain ⟨nb, nt, nr, na, no⟩ := not_contains (head_mem c)
    cases v <;> try (first | (exact absurd rfl (na ha)) | (exact absurd rfl (no ho)) | (exact absurd rfl (nr hre)))
    case bool b => cases b <;> simp [model, un, toStringV]
    all_goals simp [model, un, toStringV]
  case upcase =>
    obtain ⟨v, rest, rfl, hv, hr⟩ := typesOk_req ht; cases typesOk_nil hr
    cases v <;> kill_bits hv <;> simp [model, un, Str.upcaseV]
  case downcase =>
    obtain ⟨v, rest, rfl, hv, hr⟩ := typesOk_req ht; cases typesOk_nil hr
    cases v <;> kill_bits hv <;> simp [model, un, Str.downcaseV]
  case stripWhitespace =>
    obtain ⟨v, rest, rfl, hv, hr⟩ := typesOk_req ht; cases typesOk_nil hr
    cases v <;> kill_bits hv <;> simp [model, un, Str.stripWhitespace]
  case startsWith =>
    obtain ⟨v, rest, rfl, hv, hr⟩ := typesOk_req ht
    obtain ⟨s, rest, rfl, hs, hr⟩ := typesOk_req hr
    obtain ⟨o, rest, rfl, ho, hr⟩ := typesOk_opt hr; cases typesOk_nil hr
    obtain ⟨b, hb⟩ := opt_bool (.bool true) ⟨_, rfl⟩ ho
    cases v <;> kill_bits hv <;> cases s <;> kill_bits hs
    simp [model, bin1, Str.startsWith, Str.caseArg, hb]
  case endsWith =>
    obtain ⟨v, rest, rfl, hv, hr⟩ := typesOk_req ht
    obtain ⟨s, rest, rfl, hs, hr⟩ := typesOk_req hr
    obtain ⟨o, rest, rfl, ho, hr⟩ := typesOk_opt hr; cases typesOk_nil hr
    obtain ⟨b, hb⟩ := opt_bool (.bool true) ⟨_, rfl⟩ ho
    cases v <;> kill_bits hv <;> cases s <;> kill_bits hs
    simp [model, bin1, Str.endsWith, Str.caseArg, hb]
  case contains =>
    obtain ⟨v, rest, rfl, hv, hr⟩ := typesOk_req ht
    obtain ⟨s, rest, rfl, hs, hr⟩ := typesOk_req hr
    obtain ⟨o, rest, rfl, ho, hr⟩ := typesOk_opt hr; cases typesOk_nil hr
    obtain ⟨b, hb⟩ := opt_bool (.bool true) ⟨_, rfl⟩ ho
    cases v <;> kill_bits hv <;> cases s <;> kill_bits hs
    simp [model, bin1, Str.contains, Str.caseArg, hb]
  case truncate =>
    obtain ⟨v, rest, rfl, hv, hr⟩ := typesOk_req ht
    obtain ⟨l, rest, rfl, hl, hr⟩ := typesOk_req hr
    obtain ⟨o, rest, rfl, ho, hr⟩ := typesOk_opt hr; cases typesOk_nil hr
    obtain ⟨sb, hsb⟩ := opt_bytes (.bytes []) ⟨_, rfl⟩ ho
    cases v <;> kill_bits hv <;> cases l <;> kill_bits hl
    simp [model, bin1, Str.truncate, hsb]
  case slice =>
    exfalso; simp only [declaredFn] at hfn
    repeat' (split at hfn)
    all_goals simp at hfn
  case split =>
    obtain ⟨v, rest, rfl, hv, hr⟩ := typesOk_req ht
    obtain ⟨p, rest, rfl, hp, hr⟩ := typesOk_req hr
    obtain ⟨o, rest, rfl, ho, hr⟩ := typesOk_opt hr; cases typesOk_nil hr
    obtain ⟨l, hl⟩ := opt_int (.int Str.defaultLimit) ⟨_, rfl⟩ ho
    cases v <;> kill_bits hv <;> cases p <;> kill_bits hp <;>
      simp [model, bin1, splitV, Str.split, hl]
  case join => simp [declaredFn] at hfn
  case abs =>
    obtain ⟨v, rest, rfl, hv, hr⟩ := typesOk_req ht; cases typesOk_nil hr
    cases v <;> kill_bits hv
    · simp only [model, un, Conv.Num.abs]; split <;> simp [ofRes]
    · simp [model, un, Conv.Num.abs, ofRes]
  case mod =>
    obtain ⟨v, rest, rfl, hv, hr⟩ := typesOk_req ht
    obtain ⟨m, rest, rfl, hm, hr⟩ := typesOk_req hr; cases typesOk_nil hr
    obtain ⟨a0, as', rfl, _, hadm⟩ := admits_cons c.adm
    obtain ⟨a1, as'', rfl, ha1, _⟩ := admits_cons hadm
    have hconst := mod_infallible_const hfn
    simp only [aconst, List.getElem?_cons_succ, List.getElem?_cons_zero] at hconst
    cases a1 with
    | dyn k => simp [Arg.const] at hconst
    | lit w =>
      simp only [Arg.admits, decide_eq_true_eq] at ha1
      subst ha1
      simp only [Arg.const, Option.some.injEq] at hconst
      rcases hconst with ⟨b, rfl, hn⟩ | ⟨i, rfl, hi⟩
      · -- float literal modulus
        cases v <;> kill_bits hv <;> try (simp [errClass] at hc; done)
        rename_i a
        simp only [errClass, Bool.or_eq_false_iff] at hc
        simp only [model, bin]
        exact tryRem_float_ne_err hc.1.1 hc.1.2 hc.2 hn
      · -- integer literal modulus
        cases v <;> kill_bits hv <;> try (simp [errClass] at hc; done)
        simp [model, bin, Arith.tryRem, hi, ofArith]
  case floor =>
    obtain ⟨v, rest, rfl, hv, hr⟩ := typesOk_req ht
    obtain ⟨o, rest, rfl, ho, hr⟩ := typesOk_opt hr; cases typesOk_nil hr
    obtain ⟨p, hp⟩ := opt_int (.int 0) ⟨_, rfl⟩ ho
    cases v <;> kill_bits hv <;> simp [model, un1, Round.roundFn, hp]
  case ceil =>
    obtain ⟨v, rest, rfl, hv, hr⟩ := typesOk_req ht
    obtain ⟨o, rest, rfl, ho, hr⟩ := typesOk_opt hr; cases typesOk_nil hr
    obtain ⟨p, hp⟩ := opt_int (.int 0) ⟨_, rfl⟩ ho
    cases v <;> kill_bits hv <;> simp [model, un1, Round.roundFn, hp]
  case round =>
    obtain ⟨v, rest, rfl, hv, hr⟩ := typesOk_req ht
    obtain ⟨o, rest, rfl, ho, hr⟩ := typesOk_opt hr; cases typesOk_nil hr
    obtain ⟨p, hp⟩ := opt_int (.int 0) ⟨_, rfl⟩ ho
    cases v <;> kill_bits hv <;> simp [model, un1, Round.roundFn, hp]
  case formatInt => simp [declaredFn] at hfn
  case parseInt => simp [declaredFn] at hfn
  case parseFloat => simp [declaredFn] at hfn
  case decodeBase64 => simp [declaredFn] at hfn
  case decodeBase16 => simp [declaredFn] at hfn
  case encodeBase64 =>
    obtain ⟨v, rest, rfl, hv, hr⟩ := typesOk_req ht
    obtain ⟨o1, rest, rfl, ho1, hr⟩ := typesOk_opt hr
    obtain ⟨o2, rest, rfl, ho2, hr⟩ := typesOk_opt hr; cases typesOk_nil hr
    obtain ⟨p, hp⟩ := opt_bool (.bool true) ⟨_, rfl⟩ ho1
    cases v <;> kill_bits hv
    cases o2 with
    | none =>
      have : Codec.Base64.Charset.ofName [115, 116, 97, 110, 100, 97, 114, 100] = some .standard := by decide
      simp [model, un2, encodeBase64V, hp, stdCharset, Codec.Base64.encode, this, ofOpt]
    | some w =>
      obtain ⟨cs, rfl⟩ := bytes_of_bit (ho2 w rfl)
      simp only [errClass] at hc
      cases hn : Codec.Base64.Charset.ofName cs with
      | none => simp [hn] at hc
      | some ch => simp [model, un2, encodeBase64V, hp, Codec.Base64.encode, hn, ofOpt]
  case encodeBase16 =>
    obtain ⟨v, rest, rfl, hv, hr⟩ := typesOk_req ht; cases typesOk_nil hr
    cases v <;> kill_bits hv <;> simp [model, un, encodeBase16V]
  case encodeJson =>
    obtain ⟨v, rest, rfl, hv, hr⟩ := typesOk_req ht
    obtain ⟨o, rest, rfl, ho, hr⟩ := typesOk_opt hr; cases typesOk_nil hr
    obtain ⟨p, hp⟩ := opt_bool (.bool false) ⟨_, rfl⟩ ho
    simp [model, un1, encodeJsonV, hp]
  case keys =>
    obtain ⟨v, rest, rfl, hv, hr⟩ := typesOk_req ht; cases typesOk_nil hr
    cases v <;> kill_bits hv <;> simp [model, un, Coll.keys]
  case values =>
    obtain ⟨v, rest, rfl, hv, hr⟩ := typesOk_req ht; cases typesOk_nil hr
    cases v <;> kill_bits hv <;> simp [model, un, Coll.values]
  case flatten =>
    obtain ⟨v, rest, rfl, hv, hr⟩ := typesOk_req ht
    obtain ⟨o1, rest, rfl, ho1, hr⟩ := typesOk_opt hr
    obtain ⟨o2, rest, rfl, ho2, hr⟩ := typesOk_opt hr; cases typesOk_nil hr
    obtain ⟨sb, hsb⟩ := opt_bytes (.bytes [46]) ⟨_, rfl⟩ ho1
    have hex : ∃ ks, exceptKeys o2 = some ks := by
      cases o2 with
      | none => exact ⟨[], rfl⟩
      | some e =>
        simp only [errClass] at hc
        cases hk : exceptKeys (some e) with
        | none => simp [hk] at hc
        | some ks => exact ⟨ks, rfl⟩
    obtain ⟨ks, hks⟩ := hex
    cases v <;> kill_bits hv <;>
      simp [model, un2, flattenV, hks, hsb, Conv.Flat.flatten, Conv.bytesLossy, ofRes]
  case compact =>
    obtain ⟨v, rest, rfl, hv, hr⟩ := typesOk_req ht
    obtain ⟨o1, rest, rfl, ho1, hr⟩ := typesOk_opt hr
    obtain ⟨o2, rest, rfl, ho2, hr⟩ := typesOk_opt hr
    obtain ⟨o3, rest, rfl, ho3, hr⟩ := typesOk_opt hr
    obtain ⟨o4, rest, rfl, ho4, hr⟩ := typesOk_opt hr
    obtain ⟨o5, rest, rfl, ho5, hr⟩ := typesOk_opt hr
    obtain ⟨o6, rest, rfl, ho6, hr⟩ := typesOk_opt hr; cases typesOk_nil hr
    obtain ⟨b1, h1⟩ := optBool_some (d := true) ho1
    obtain ⟨b2, h2⟩ := optBool_some (d := true) ho2
    obtain ⟨b3, h3⟩ := optBool_some (d := true) ho3
    obtain ⟨b4, h4⟩ := optBool_some (d := true) ho4
    obtain ⟨b5, h5⟩ := optBool_some (d := true) ho5
    obtain ⟨b6, h6⟩ := optBool_some (d := false) ho6
    cases v <;> kill_bits hv <;> simp [model, un6, Coll.compact, h1, h2, h3, h4, h5, h6]
  case unique =>
    obtain ⟨v, rest, rfl, hv, hr⟩ := typesOk_req ht; cases typesOk_nil hr
    cases v <;> kill_bits hv <;> simp [model, un, Coll.unique]
  case toEntries =>
    obtain ⟨v, rest, rfl, hv, hr⟩ := typesOk_req ht; cases typesOk_nil hr
    cases v <;> kill_bits hv <;> simp [model, un, Conv.toEntries, ofRes]
  case fromEntries =>
    obtain ⟨v, rest, rfl, hv, hr⟩ := typesOk_req ht; cases typesOk_nil hr
    cases v <;> kill_bits hv
    rename_i xs
    simp only [errClass, Bool.not_eq_false'] at hc
    have := fromEntriesLoop_ne_err xs .nil hc
    simp only [model, un, Conv.fromEntries]
    cases hx : Conv.fromEntriesLoop xs .nil <;> simp_all [ofRes]
  case unflatten =>
    obtain ⟨v, rest, rfl, hv, hr⟩ := typesOk_req ht
    obtain ⟨o1, rest, rfl, ho1, hr⟩ := typesOk_opt hr
    obtain ⟨o2, rest, rfl, ho2, hr⟩ := typesOk_opt hr; cases typesOk_nil hr
    obtain ⟨rb, hrb⟩ := opt_bool (.bool true) ⟨_, rfl⟩ ho2
    cases v <;> kill_bits hv
    rename_i m
    have hsep : ∃ s, o1.getD (.bytes [46]) = .bytes s ∧ Conv.Utf8.lossy s ≠ [] := by
      cases o1 with
      | none => exact ⟨[46], rfl, by decide⟩
      | some w =>
        have hw := ho1 w rfl
        cases w <;> kill_bits hw
        rename_i s
        simp only [errClass] at hc
        exact ⟨s, rfl, by intro h; simp [h] at hc⟩
    obtain ⟨s, hs, hne⟩ := hsep
    simp only [model, un2, unflattenV, hs, hrb, Conv.Flat.unflatten, Conv.bytesLossy, hne, if_false]
    split <;> simp [ofRes]
  case merge =>
    obtain ⟨a, rest, rfl, ha, hr⟩ := typesOk_req ht
    obtain ⟨b, rest, rfl, hb, hr⟩ := typesOk_req hr
    obtain ⟨o, rest, rfl, ho, hr⟩ := typesOk_opt hr; cases typesOk_nil hr
    obtain ⟨d, hd⟩ := optBool_some (d := false) ho
    cases a <;> kill_bits ha <;> cases b <;> kill_bits hb
    simp [model, bin1, Coll.merge, hd]

end C03
