/-
  C19 – the type abstraction (`Kind`) is sound for path operations and merging.

  Spec: `Spec.mem v K` (`v ∈ₖ K`, VrlModel/KindSpec.lean), defined by recursion on the value and
  independently of the operations; laws as decidable predicates in VrlModel/C19.lean (`atLawM`, …),
  the same predicates the oracle evaluates on the implementation's observations.
  Model: VrlModel/{Kind,KindOps,KindCrud}.lean. Helper lemmas: VrlProofs/Lemmas/Kind*.lean.
-/
import VrlProofs.Lemmas.KindGet
import VrlProofs.Lemmas.KindUnion
import VrlProofs.Lemmas.KindSuperset
import VrlProofs.Lemmas.KindInsert
import VrlProofs.Lemmas.KindGetNeg
import VrlProofs.Lemmas.KindRemove
import VrlProofs.Lemmas.KindSupConv
import VrlProofs.Lemmas.KindMerge
import VrlProofs.Lemmas.KindCanon

namespace C19
open Spec

/-- `Kind::from(&v)` contains `v` (for every value whose objects have strictly increasing keys,
    which is what a `BTreeMap` holds; `C18.insert_sorted`/`remove_sorted` preserve it). -/
theorem mem_kindOf (v : Value) (h : v.Sorted = true) : mem v v.kindOf = true :=
  Spec.mem_kindOf v h

/-- **Reading is sound** (`at_path` and `get`), for every value, kind and path such that the path
    does not meet an array kind with a known index that may be absent (class
    `D_minlen_counts_optional`, witnessed) nor, at a negative index, an array kind of unknown length
    (that case unions known kinds with `merge_keep`; see `union_sound_partial`).
    Field segments, non-negative indices and negative indices into arrays of exactly known length are
    covered without further condition, through any mixture of kinds (unions, unknown fields, json/any). -/
theorem at_sound_partial (v : Value) (K : Kind) (p : Path) (hs : v.Sorted = true)
    (h1 : anyOnPath optionalIdx K p = false) (h2 : anyOnPath negUnknown K p = false) :
    atLawM v K p = true := by
  unfold atLawM atLaw getLaw
  cases hm : mem v K with
  | false => rfl
  | true =>
    have h := Spec.atPath_sound p (some v) K hs hm h1 h2
    have hg := Spec.mem_upgradeUndefined _ _ h
    simp only [Value.get, Kind.get, Bool.not_true, Bool.false_or, Bool.and_eq_true]
    exact ⟨h, hg⟩

/-- paths made of fields and non-negative indices never meet `negUnknown`. -/
theorem negUnknown_false_of_nonNeg : (p : Path) → (K : Kind) → Spec.nonNegPath p = true →
    anyOnPath negUnknown K p = false
  | [], _, _ => rfl
  | s :: rest, K, h => by
    simp only [Spec.nonNegPath, List.all_cons, Bool.and_eq_true] at h
    simp only [anyOnPath, Bool.or_eq_false_iff]
    refine ⟨?_, negUnknown_false_of_nonNeg rest _ h.2⟩
    cases s with
    | field f => simp [negUnknown]
    | index i =>
      have hi : ¬ i < 0 := by
        have := h.1; simp [Spec.nonNegSeg] at this; omega
      simp only [negUnknown]
      cases K.array with
      | none => rfl
      | some c => simp [hi]

/-- **A union contains every member of its operands**, for kinds whose known maps are key-sorted
    (`BTreeMap`) and whose `Infinite` unknowns are all `any` (`unionClass = none`). Outside that class
    `Unknown::merge` lets an `Infinite` (json) unknown overwrite an `Exact` one and the law is false
    (`W.witness_union_inf_over_exact`). -/
theorem union_sound_partial (v : Value) (A B : Kind) (sA : A.SortedK = true) (sB : B.SortedK = true)
    (hc : unionClass A B = .none) : unionLawM v A B = true := by
  have hi : A.hasNonAnyInf = false ∧ B.hasNonAnyInf = false := by
    unfold unionClass at hc
    split at hc
    · cases hc
    · rename_i h; simpa using h
  unfold unionLawM unionLaw Kind.union Kind.mergeKeep
  have hs := Spec.mergeKeepF_sound (Kind.fuel A B)
  cases hA : mem v A with
  | true => simp [hs.left A B v sA sB hi.1 hi.2 hA]
  | false =>
    cases hB : mem v B with
    | true => simp [hs.right A B v sA sB hi.1 hi.2 hB]
    | false => rfl

theorem mem_union_left (v : Value) (A B : Kind) (sA : A.SortedK = true) (sB : B.SortedK = true)
    (iA : A.hasNonAnyInf = false) (iB : B.hasNonAnyInf = false) (h : mem v A = true) :
    mem v (A.union B) = true :=
  (Spec.mergeKeepF_sound _).left A B v sA sB iA iB h

theorem mem_union_right (v : Value) (A B : Kind) (sA : A.SortedK = true) (sB : B.SortedK = true)
    (iA : A.hasNonAnyInf = false) (iB : B.hasNonAnyInf = false) (h : mem v B = true) :
    mem v (A.union B) = true :=
  (Spec.mergeKeepF_sound _).right A B v sA sB iA iB h

/-- **The subtype test is sound**: if `A.is_superset(B)` answers `Ok` then every member of `B` is a
    member of `A` – for every `A` without an `Exact(k)` unknown whose `k.is_any()` holds
    (`Unknown::from` never builds one; see `W.witness_superset_exact_isAny` for why it is excluded). -/
theorem superset_sound_partial (v : Value) (A B : Kind)
    (hA : A.anyUnknown Unknown.exactIsAny = false) : supersetLawM v A B = true := by
  unfold supersetLawM supersetLaw
  cases hr : A.isSuperset B with
  | false => rfl
  | true =>
    cases hB : mem v B with
    | false => rfl
    | true =>
      have := (Spec.isSupersetF_sound _).mem A B v hA hr hB
      simp [this]

/-- `mem_iff_superset`, the direction that holds for every kind in the fragment above:
    the maintainers' oracle `K.is_superset(Kind::from(v))` never accepts a non-member. -/
theorem mem_of_superset_kindOf (v : Value) (K : Kind) (hs : v.Sorted = true)
    (hK : K.anyUnknown Unknown.exactIsAny = false) (h : K.isSuperset v.kindOf = true) :
    mem v K = true :=
  (Spec.isSupersetF_sound _).mem K v.kindOf v hK h (Spec.mem_kindOf v hs)

/-- **Insertion is sound** for every path made of field segments and non-negative indices, every
    value/kind pair and every inserted value/kind, outside the finding classes: on the walk
    `insert_recursive` makes, no array kind has a known index that may be absent
    (`D_minlen_counts_optional`) and no kind is a union whose collection state for the segment has a
    known entry that must be present (`D_insert_union_alt`); both classes are witnessed. In
    particular every insertion of field/non-negative-index paths into `any`, `json`, unions without
    required fields and exact object/array kinds is covered. (`insertClass … = none` implies both
    hypotheses. Negative indices are not covered: `D_neg_insert_exact_noshift` is a witnessed defect,
    the unknown-length branch goes through `Collection::merge`.) -/
theorem insert_sound_partial (v : Value) (K : Kind) (p : Path) (x : Value) (X : Kind)
    (hs : v.Sorted = true) (hp : Spec.nonNegPath p = true)
    (h1 : anyOnInsertPath optionalIdx K p = false) (h2 : anyOnInsertPath unionAltReq K p = false) :
    insertLawM v K p x X = true := by
  unfold insertLawM Value.insert
  split
  · rfl
  · rename_i v' prev heq
    split at heq
    · cases heq
    · cases heq
      unfold insertLaw
      cases hm : mem v K with
      | false => rfl
      | true =>
        cases hx : mem x X with
        | false => rfl
        | true =>
          have := Spec.insertRec_sound p (some v) K x X.upgradeUndefined hs hm
            (Spec.mem_upgradeUndefined_of_mem x X hx) hp h1 h2
          simpa [Kind.insert] using this

theorem insertClass_none (K : Kind) (p : Path) (X : Kind) (h : insertClass K p X = .none) :
    anyOnInsertPath optionalIdx K p = false ∧ anyOnInsertPath unionAltReq K p = false := by
  unfold insertClass at h
  split at h
  · cases h
  · split at h
    · cases h
    · split at h
      · cases h
      · rename_i h1 _ h3
        exact ⟨by simpa using h1, by simpa using h3⟩

/-- **Reading is sound outside the finding classes**: for every value with key-sorted objects, every
    key-sorted kind (`BTreeMap`s) and every path (fields, indices of either sign, any depth) with
    `atClass K p = none`, i.e. the path meets no array kind with a known index that may be absent
    (`D_minlen_counts_optional`) and, if it meets an array kind of unknown length at a negative index,
    every `Infinite` unknown of `K` is `any` (`D_inf_over_exact`). -/
theorem at_sound_class (v : Value) (K : Kind) (p : Path) (hs : v.Sorted = true)
    (sK : K.SortedK = true) (hc : atClass K p = .none) : atLawM v K p = true := by
  unfold atClass at hc
  split at hc
  · cases hc
  · rename_i h1
    have h1 : anyOnPath optionalIdx K p = false := by simpa using h1
    split at hc
    · cases hc
    · rename_i h2
      simp only [Bool.and_eq_true, not_and, Bool.not_eq_true] at h2
      cases hn : anyOnPath negUnknown K p with
      | false => exact at_sound_partial v K p hs h1 hn
      | true =>
        have iK := h2 hn
        unfold atLawM atLaw getLaw
        cases hm : mem v K with
        | false => rfl
        | true =>
          have h := Spec.atPath_sound_full p (some v) K hs hm sK iK h1
          have hg := Spec.mem_upgradeUndefined _ _ h
          simp only [Value.get, Kind.get, Bool.not_true, Bool.false_or, Bool.and_eq_true]
          exact ⟨h, hg⟩

/-- **Removal at the root is sound** (every value, kind and compaction flag): the emptied value
    belongs to the kind left behind, the removed value to the returned kind. Removal at non-root
    paths is unsound in the witnessed classes `D_remove_neg_gap`, `D_remove_through_unknown`,
    `D_compact_union_alt`, `D_compact_optional_known`, `D_minlen_counts_optional`; no general theorem
    is claimed there (one field of an exact object kind: `Spec.remove_field_obj_sound`).
    `D_remove_shift` (ff94317) and `D_remove_neg_underflow` (e3023e2, a panic) are repaired in the
    implementation: `C19.W.fixed_remove_shift`, `C19.W.fixed_remove_neg_underflow`. -/
theorem remove_root_sound (v : Value) (K : Kind) (c : Bool) : removeLawM v K [] c = true := by
  unfold removeLawM
  rw [Spec.remove_root_eq]
  simp only [Value.remove, Value.removeOpt, removeLaw, removedLaw, Option.getD_some]
  cases hm : mem v K with
  | false => rfl
  | true =>
    have h1 := Spec.mem_emptied v K hm
    have h2 := Spec.mem_upgradeUndefined_of_mem v K hm
    simp only [Bool.not_true, Bool.false_or, Bool.and_eq_true]
    exact ⟨h1, h2⟩

/-- the converse direction: a member passes the subtype test, for well-formed kinds (array slots hold
    index keys, keys strictly increasing) whose `Infinite` unknowns are all `any`. With a non-`any`
    `Infinite` (json) unknown it is false of the code (`W.witness_memsup_inf_vs_exact`). -/
theorem superset_kindOf_of_mem (v : Value) (K : Kind) (hi : K.hasNonAnyInf = false)
    (hw : K.WF = true) (h : mem v K = true) : K.isSuperset v.kindOf = true := by
  unfold Kind.isSuperset
  apply Spec.superset_of_mem v _ K _ h ⟨hi, hw⟩
  unfold Kind.fuel; omega

/-- **`mem_iff_superset`** (the maintainers' fuzz oracle `K.is_superset(Kind::from(v))` coincides with
    membership) on the fragment where it holds. -/
theorem mem_iff_superset_partial (v : Value) (K : Kind) (hs : v.Sorted = true)
    (hi : K.hasNonAnyInf = false) (hw : K.WF = true)
    (he : K.anyUnknown Unknown.exactIsAny = false) :
    mem v K = true ↔ K.isSuperset v.kindOf = true :=
  ⟨superset_kindOf_of_mem v K hi hw, mem_of_superset_kindOf v K hs he⟩

/-- under the hypotheses of `mem_iff_superset_partial` the oracle clause `memsup` holds. -/
theorem memsup_partial (v : Value) (K : Kind) (hs : v.Sorted = true)
    (hi : K.hasNonAnyInf = false) (hw : K.WF = true)
    (he : K.anyUnknown Unknown.exactIsAny = false) : memsupLawM v K = true := by
  unfold memsupLawM memsupLaw
  have := mem_iff_superset_partial v K hs hi hw he
  cases h1 : mem v K <;> cases h2 : K.isSuperset v.kindOf <;> simp_all

/-- **`merge(Strategy::Overwrite)` describes the run-time `a | b`** for every pair of objects
    `a ∈ₖ A`, `b ∈ₖ B` with `mergeClass A B = none`: no known field of `B` may be absent
    (`D_merge_overwrite_maybe_absent`), not both object unknowns are `Exact` with defined states
    (`D_merge_unknown_overwrite`), every `Infinite` unknown is `any` (`D_inf_over_exact`); all three
    classes are witnessed. Kinds key-sorted (`BTreeMap`). -/
theorem merge_sound_partial (a b : Value) (A B : Kind) (sa : a.Sorted = true) (sb : b.Sorted = true)
    (sA : A.SortedK = true) (sB : B.SortedK = true) (hc : mergeClass A B = .none) :
    mergeLawM a A b B = true := by
  unfold mergeLawM
  split
  · rename_i ma mb
    unfold mergeLaw
    cases hA : mem (.obj ma) A with
    | false => rfl
    | true =>
    cases hB : mem (.obj mb) B with
    | false => rfl
    | true =>
    simp only [Bool.and_self, Bool.not_true, Bool.false_or]
    simp only [Value.Sorted] at sa sb
    have hsa := VMap.sortedKeys_of_sorted ma sa
    have hsb := VMap.sortedKeys_of_sorted mb sb
    obtain ⟨c1, hc1, ha1, ha2⟩ := (Spec.mem_obj_iff ma A hsa).mp hA
    obtain ⟨c2, hc2, hb1, hb2⟩ := (Spec.mem_obj_iff mb B hsb).mp hB
    -- the class hypotheses
    unfold mergeClass at hc
    split at hc
    · cases hc
    · rename_i h1
      split at hc
      · cases hc
      · rename_i h2
        split at hc
        · cases hc
        · rename_i h3
          have hopt : c2.known.any (fun _ v => v.prim.undefined) = false := by
            simpa [overwriteMaybeAbsent, hc2] using h1
          have hunk : (c1.unknown.isExact && c1.unknownKind.containsAnyDefined &&
              c2.unknown.isExact && c2.unknownKind.containsAnyDefined) = false := by
            simpa [unknownOverwrite, hc1, hc2] using h2
          have hi : A.hasNonAnyInf = false ∧ B.hasNonAnyInf = false := by simpa using h3
          cases A with
          | mk pA aA oA =>
          cases B with
          | mk pB aB oB =>
          cases oA with
          | none => simp [Kind.object] at hc1
          | some c1' =>
          cases oB with
          | none => simp [Kind.object] at hc2
          | some c2' =>
          simp only [Kind.object, Option.some.injEq] at hc1 hc2
          subst hc1; subst hc2
          obtain ⟨_, so1⟩ := Spec.kind_sortedK sA
          obtain ⟨_, so2⟩ := Spec.kind_sortedK sB
          obtain ⟨_, io1⟩ := Spec.kind_infAny hi.1
          obtain ⟨_, io2⟩ := Spec.kind_infAny hi.2
          have hfuel : ∃ n, Kind.fuel (Kind.mk pA aA (.some c1')) (Kind.mk pB aB (.some c2')) = n + 1 :=
            ⟨_, rfl⟩
          obtain ⟨n, hn⟩ := hfuel
          simp only [Kind.merge, Kind.mergeKeep, Kind.Strategy.isShallow, hn, Kind.mergeKeepF,
            OCol.mergeWith]
          obtain ⟨hs1, hs2⟩ := Spec.col_merge_overwrite_sound n c1' c2' ma mb hsb so1 so2 io1 io2 hopt hunk
            ha1 ha2 hb1 hb2
          rw [Spec.mem_obj_iff _ _ (VMap.mergeInto_sortedKeys mb ma hsa)]
          exact ⟨_, rfl, hs1, hs2⟩
  · rfl

/-- **`canonicalize` preserves membership** (exactly: same members before and after) for key-sorted
    kinds with `canonClass K = none`, i.e. without an `Exact` unknown that `Unknown::canonicalize`
    turns into an `Infinite` one. Outside that class it provably loses members
    (`W.witness_canon_loses_member`) and `k.canonicalize() == k` fails
    (`W.witness_canon_exact_to_infinite`). -/
theorem canonicalize_mem (v : Value) (K : Kind) (sK : K.SortedK = true)
    (hc : canonClass K = .none) : mem v K.canonicalize = mem v K := by
  have he : K.hasExactToInf = false := by
    unfold canonClass at hc
    split at hc
    · cases hc
    · rename_i h; simpa using h
  exact Spec.kind_canon_mem _ (Spec.eqF_sound _) K ⟨he, sK⟩ v

theorem canon_sound_partial (v : Value) (K : Kind) (sK : K.SortedK = true)
    (hc : canonClass K = .none) : canonLawM v K = true := by
  unfold canonLawM canonLaw
  rw [canonicalize_mem v K sK hc]
  cases mem v K <;> rfl

/-- **`PartialEq for Kind` only identifies kinds with the same members** (same fragment). -/
theorem eq_sound_partial (A B : Kind) (sA : A.SortedK = true) (sB : B.SortedK = true)
    (hA : canonClass A = .none) (hB : canonClass B = .none) (h : A.eq B = true) (v : Value) :
    mem v A = mem v B := by
  have heA : A.hasExactToInf = false := by
    unfold canonClass at hA
    split at hA
    · cases hA
    · rename_i h; simpa using h
  have heB : B.hasExactToInf = false := by
    unfold canonClass at hB
    split at hB
    · cases hB
    · rename_i h; simpa using h
  exact (Spec.eqF_sound _).mem A B ⟨heA, sA⟩ ⟨heB, sB⟩ h v

end C19
