/-
  C19 – the type abstraction (`Kind`) is sound for path operations and merging.

  Spec: `Spec.mem v K` (`v ∈ₖ K`, VrlModel/KindSpec.lean), defined by recursion on the value and
  independently of the operations; laws as decidable predicates in VrlModel/C19.lean (`atLawM`, …),
  the same predicates the oracle evaluates on the implementation's observations.
  Model: VrlModel/{Kind,KindOps,KindCrud}.lean. Helper lemmas: VrlProofs/Lemmas/Kind*.lean.
-/
import VrlProofs.Lemmas.KindMem

namespace C19
open Spec

/-- `Kind::from(&v)` contains `v` (for every value whose objects have strictly increasing keys,
    which is what a `BTreeMap` holds; `C18.insert_sorted`/`remove_sorted` preserve it). -/
theorem mem_kindOf (v : Value) (h : v.Sorted = true) : mem v v.kindOf = true :=
  Spec.mem_kindOf v h

end C19
