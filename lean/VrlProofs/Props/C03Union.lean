/-
  C03 – the functions whose type_def is computed with `Kind::union` / `exact_length` (`values`,
  `push`), and the claim for all modelled functions at once (`sound_partial`).
-/
import VrlProofs.Props.C03
import VrlProofs.Lemmas.C03Union
import VrlProofs.Lemmas.C03KindOf

namespace C03
open Spec
open Str (R)

theorem values_ok {v r : Value} (h : Coll.values v = .ok r) :
    ∃ m, v = .obj m ∧ r = .arr (Coll.ofList (Coll.valuesL m)) := by
  cases v <;> simp only [Coll.values] at h <;> try (cases h)
  exact ⟨_, rfl, rfl⟩

theorem pushV_ok {v x r : Value} (h : pushV v x = .ok r) :
    ∃ a, v = .arr a ∧ r = .arr (a.append (.cons x .nil)) := by
  cases v <;> simp only [pushV] at h <;> try (cases h)
  exact ⟨_, rfl, rfl⟩

/-- hypotheses of `values_sound_partial` on the object collection of the argument kind: C19's union
    hypotheses, and `Unknown::from(reduced_kind)` must not turn into `json`. -/
def valuesOk (k0 : Kind) : Bool :=
  let c := objectCol k0
  c.SortedK && !c.hasNonAnyInf && ofKindOk c.reducedKind

/-- **`values`: an array whose elements are in the union of all field kinds (`reduced_kind`) of the
    argument's object kind** — for object kinds satisfying the C19 union hypotheses (`any`, every
    literal, every kind without `json` unknowns). -/
theorem values_sound_partial (E : Env) (as : ASlots) (vs : Slots) (td : TD) (c : Call .values as vs td)
    (hk : valuesOk (akind as 0) = true) : SoundAt E .values as vs td := by
  intro r hr
  rw [decl_kind c.decl]
  simp only [model] at hr
  obtain ⟨v, rfl, hr⟩ := un_ok hr
  obtain ⟨m, rfl, rfl⟩ := values_ok hr
  refine ⟨memR_of_mem ?_, by mask_tac⟩
  have hm := head_mem c
  simp only [valuesOk, Bool.and_eq_true, Bool.not_eq_true'] at hk
  obtain ⟨⟨hs, hi⟩, hok⟩ := hk
  cases hk0 : akind as 0 with
  | mk p a o =>
    rw [hk0] at hm hs hi hok
    cases o with
    | none => simp [mem, Kind.hasObj] at hm
    | some col =>
      have hmm : memMap m col = true := by
        simp only [mem, Kind.hasObj, objectD, Kind.object, Option.getD_some, Bool.true_and,
          Bool.and_eq_true] at hm
        exact hm.1
      have hoc : objectCol (Kind.mk p a (.some col)) = col := rfl
      rw [hoc] at hs hi hok
      simp only [declaredFn, hk0, hoc]
      apply mem_arr_unknownOnly _ _ hok
      intro j x hj
      obtain ⟨q, hq⟩ := getN_valuesL m j x hj col hmm
      exact mem_reducedKind hs hi hq

/-- the hypotheses of `values_sound_partial` hold for every literal object. -/
theorem valuesOk_lit (m : VMap) (hs : m.Sorted = true) : valuesOk (Value.kindOf (.obj m)) = true := by
  have hg := kindOf_good (.obj m) (by simpa [Value.Sorted] using hs)
  have hc : objectCol (Value.kindOf (.obj m)) = Col.ofKnown (VMap.kinds m) := rfl
  unfold valuesOk
  simp only [hc, Bool.and_eq_true, Bool.not_eq_true']
  have hcs : (Col.ofKnown (VMap.kinds m)).SortedK = true := by
    have := hg.1; simpa [Value.kindOf, Kind.ofObject, Kind.SortedK, OCol.SortedK] using this
  have hci : (Col.ofKnown (VMap.kinds m)).hasNonAnyInf = false := by
    have := hg.2; simpa [Value.kindOf, Kind.ofObject, Kind.hasNonAnyInf, OCol.hasNonAnyInf] using this
  refine ⟨⟨hcs, hci⟩, ofKindOk_of_noUndef ?_⟩
  have hU : NoUndef (Col.ofKnown (VMap.kinds m)).unknownKind.withoutUndefined :=
    noUndef_withoutUndefined _
  simp only [Col.reducedKind, Col.ofKnown, Col.known]
  cases hk : VMap.kinds m with
  | nil => exact noUndef_union rfl (by simpa [Col.ofKnown, hk] using hU)
  | cons k v rest =>
    have hall := all_noUndef_kinds m
    rw [hk] at hall
    simp only [KList.all, Bool.and_eq_true, Bool.not_eq_true'] at hall
    have : NoUndef (unionAll v rest) := noUndef_unionAll rest v hall.1
      (fun q K hq => by
        have := KList.all_of_get _ rest hall.2 q K hq
        simpa [NoUndef] using this) hall.2
    exact noUndef_union this (by simpa [Col.ofKnown, hk] using hU)


/-- **`values({…literal…})`: every literal object satisfies the hypotheses.** -/
theorem values_lit_sound (E : Env) (m : VMap) (vs : Slots) (td : TD)
    (c : Call .values [some (.lit (.obj m))] vs td) : SoundAt E .values [some (.lit (.obj m))] vs td := by
  apply values_sound_partial E _ vs td c
  have hs : m.Sorted = true := by
    have := (litsSorted_head c.lits).1 _ rfl
    simpa [Value.Sorted] using this
  exact valuesOk_lit m hs

/-- hypotheses of `push_dyn_sound`: the array kind has no known index and no exact length, the
    kinds satisfy the C19 union hypotheses, `Unknown::from` does not turn the union into `json`. -/
def pushDynOk (k0 item : Kind) : Bool :=
  let c := arrayCol k0
  let i := item.upgradeUndefined
  c.known.isEmpty && c.exactLength.isNone && c.SortedK && !c.hasNonAnyInf && i.SortedK &&
    !i.hasNonAnyInf && ofKindOk (c.unknownKind.union i)

theorem tail_mem {F : Fn} {as : ASlots} {v w : Value} {rest : Slots} {td : TD}
    (c : Call F as (some v :: some w :: rest) td) : mem w (akind as 1) = true := by
  obtain ⟨a0, as', rfl, _, hadm⟩ := admits_cons c.adm
  obtain ⟨a1, as'', rfl, ha1, _⟩ := admits_cons hadm
  have hl := (litsSorted_head c.lits).2
  exact admits_mem (litsSorted_head hl).1 ha1

/-- **`push(value, item)` onto an array kind without known indices (`.p`, `any`): the item kind is
    merged into the unknown element kind.** -/
theorem push_dyn_sound (E : Env) (as : ASlots) (vs : Slots) (td : TD) (c : Call .push as vs td)
    (hk : pushDynOk (akind as 0) (akind as 1) = true) : SoundAt E .push as vs td := by
  intro r hr
  rw [decl_kind c.decl]
  simp only [model] at hr
  obtain ⟨v, x, rfl, hr⟩ := bin_ok hr
  obtain ⟨a, rfl, rfl⟩ := pushV_ok hr
  refine ⟨memR_of_mem ?_, by mask_tac⟩
  have hm := head_mem c
  have hx := Spec.mem_upgradeUndefined_of_mem x _ (tail_mem c)
  simp only [pushDynOk, Bool.and_eq_true, Bool.not_eq_true'] at hk
  obtain ⟨⟨⟨⟨⟨⟨hkn, hex⟩, hs⟩, hi⟩, his⟩, hii⟩, hok⟩ := hk
  have hm' := hm
  rw [mem_arr_iff] at hm'
  obtain ⟨col, hcol, _, _⟩ := hm'
  have hac : arrayCol (akind as 0) = col := by rw [arrayCol, hcol]
  rw [hac] at hkn hex hs hi hok
  have hknil : col.known = .nil := by
    cases hkk : col.known with
    | nil => rfl
    | cons _ _ _ => simp [hkk, KList.isEmpty] at hkn
  have hexn : col.exactLength = none := by
    cases he : col.exactLength with
    | none => rfl
    | some _ => simp [he] at hex
  have hU : Good col.unknownKind := good_unknownKind hs hi
  have hI : Good (akind as 1).upgradeUndefined := ⟨his, hii⟩
  simp only [declaredFn, hac, pushCol, hexn, Col.setUnknown, hknil]
  apply mem_arr_unknownOnly _ _ hok
  intro j y hj
  rcases getN_append_single a x j y hj with ⟨_, hg⟩ | ⟨_, rfl⟩
  · have he := mem_elem_of_noKnown hm hcol hknil hg
    apply mem_union_l hU hI
    simp only [Col.unknownKind, mem_unknown_toKind]; exact he
  · exact mem_union_r hU hI hx

/-- **`push([…literal…], item)`: the exact length of a literal array is known, the item kind is
    recorded at that index.** -/
theorem push_lit_sound (E : Env) (a : VList) (a1 : Arg) (vs : Slots) (td : TD)
    (c : Call .push [some (.lit (.arr a)), some a1] vs td) :
    SoundAt E .push [some (.lit (.arr a)), some a1] vs td := by
  intro r hr
  rw [decl_kind c.decl]
  simp only [model] at hr
  obtain ⟨v, x, rfl, hr⟩ := bin_ok hr
  obtain ⟨a', rfl, rfl⟩ := pushV_ok hr
  refine ⟨memR_of_mem ?_, by mask_tac⟩
  have hx := Spec.mem_upgradeUndefined_of_mem x _ (tail_mem c)
  have hsa : a.Sorted = true := by
    have := (litsSorted_head c.lits).1 _ rfl
    simpa [Value.Sorted] using this
  have hva : a' = a := by
    have := c.adm
    simp only [Admits, Arg.admits, Bool.and_eq_true, decide_eq_true_eq] at this
    have h0 := this.1
    cases h0; rfl
  subst hva
  have hk0 : akind [some (Arg.lit (.arr a')), some a1] 0 = Kind.ofArray (Col.ofKnown (VList.kindsFrom a' 0)) := rfl
  have hk1 : akind [some (Arg.lit (.arr a')), some a1] 1 = a1.kind := rfl
  rw [hk1] at hx
  simp only [declaredFn, hk0, hk1, arrayCol, Kind.array, Kind.ofArray, pushCol, exactLength_lit]
  rw [mem_arr_iff]
  refine ⟨_, rfl, ?_, ?_⟩
  · intro j y hj
    rcases getN_append_single a' x j y hj with ⟨hl, hg⟩ | ⟨hl, rfl⟩
    · have hne : Key.ofIdx a'.length ≠ Key.ofIdx j := by simp [Key.ofIdx]; omega
      have hget : (VList.kindsFrom a' 0).get (Key.ofIdx j) = some y.kindOf := by
        have := Spec.kindsFrom_get a' 0 j
        simpa [hg] using this
      simp only [slotKind, Col.known, Col.ofKnown, KList.get_insert_other _ _ _ _ hne, hget]
      exact Spec.mem_kindOf y (sorted_getN a' hsa j y hg)
    · subst hl
      simp only [slotKind, Col.known, Col.ofKnown, KList.get_insert_same]
      exact hx
  · intro k K' hg hl
    rw [length_append_single] at hl
    simp only [Col.known, Col.ofKnown, KList.get_insert] at hg
    split at hg
    · rename_i hk; subst hk; simp [Key.ofIdx, Key.idx] at hl; omega
    · have := Spec.kindsFrom_get_idx a' 0 k K' hg
      omega

theorem getN_append : (a b : VList) → (j : Nat) → (y : Value) → (a.append b).getN j = some y →
    (∃ j', a.getN j' = some y) ∨ (∃ j', b.getN j' = some y)
  | .nil, b, j, y, h => Or.inr ⟨j, by simpa [VList.append] using h⟩
  | .cons v vs, b, 0, y, h => Or.inl ⟨0, by simpa [VList.append, VList.getN] using h⟩
  | .cons v vs, b, j + 1, y, h => by
    simp only [VList.append, VList.getN] at h
    rcases getN_append vs b j y h with ⟨j', hj⟩ | ⟨j', hj⟩
    · exact Or.inl ⟨j' + 1, by simpa [VList.getN] using hj⟩
    · exact Or.inr ⟨j', hj⟩

theorem appendV_ok {v w r : Value} (h : appendV v w = .ok r) :
    ∃ a b, v = .arr a ∧ w = .arr b ∧ r = .arr (a.append b) := by
  cases v <;> cases w <;> simp only [appendV] at h <;> try (cases h)
  exact ⟨_, _, rfl, rfl, rfl⟩

/-- hypotheses of `append_dyn_sound`: `value`'s array kind has no known index and no exact length;
    both collections satisfy the C19 union hypotheses. -/
def appendDynOk (k0 k1 : Kind) : Bool :=
  let c := arrayCol k0
  let d := arrayCol k1
  c.known.isEmpty && c.exactLength.isNone && c.SortedK && !c.hasNonAnyInf && d.SortedK &&
    !d.hasNonAnyInf && ofKindOk (c.unknownKind.union d.reducedKind)

theorem good_reducedKind {c : Col} (hs : c.SortedK = true) (hi : c.hasNonAnyInf = false) :
    Good c.reducedKind := by
  have hU := good_withoutUndefined (good_unknownKind hs hi)
  cases c with
  | mk known u =>
    obtain ⟨_, hks, _⟩ := col_sortedK hs
    obtain ⟨hki, _⟩ := col_infAny hi
    cases known with
    | nil => exact good_union good_never hU
    | cons k v rest =>
      simp only [KList.SortedK, Bool.and_eq_true] at hks
      simp only [KList.hasNonAnyInf, Bool.or_eq_false_iff] at hki
      exact good_union (unionAll_good rest v ⟨hks.1, hki.1⟩ hks.2 hki.2) hU

/-- **`append(value, items)` when `value`'s array kind has no known index (`.p`, `any`): the
    union of all element kinds of `items` is merged into the unknown element kind.** (`append` onto
    an array of exactly known length shifts the known indices of `items`: not covered.) -/
theorem append_dyn_sound (E : Env) (as : ASlots) (vs : Slots) (td : TD) (c : Call .append as vs td)
    (hk : appendDynOk (akind as 0) (akind as 1) = true) : SoundAt E .append as vs td := by
  intro r hr
  rw [decl_kind c.decl]
  simp only [model] at hr
  obtain ⟨v, w, rfl, hr⟩ := bin_ok hr
  obtain ⟨a, b, rfl, rfl, rfl⟩ := appendV_ok hr
  refine ⟨memR_of_mem ?_, by mask_tac⟩
  have hm := head_mem c
  have hmb := tail_mem c
  simp only [appendDynOk, Bool.and_eq_true, Bool.not_eq_true'] at hk
  obtain ⟨⟨⟨⟨⟨⟨hkn, hex⟩, hs⟩, hi⟩, hds⟩, hdi⟩, hok⟩ := hk
  have hm' := hm
  rw [mem_arr_iff] at hm'
  obtain ⟨col, hcol, _, _⟩ := hm'
  have hmb' := hmb
  rw [mem_arr_iff] at hmb'
  obtain ⟨dol, hdol, hb1, _⟩ := hmb'
  have hac : arrayCol (akind as 0) = col := by rw [arrayCol, hcol]
  have hbc : arrayCol (akind as 1) = dol := by rw [arrayCol, hdol]
  rw [hac] at hkn hex hs hi hok
  rw [hbc] at hds hdi hok
  have hknil : col.known = .nil := by
    cases hkk : col.known with
    | nil => rfl
    | cons _ _ _ => simp [hkk, KList.isEmpty] at hkn
  have hexn : col.exactLength = none := by
    cases he : col.exactLength with
    | none => rfl
    | some _ => simp [he] at hex
  have hU : Good col.unknownKind := good_unknownKind hs hi
  have hR : Good dol.reducedKind := good_reducedKind hds hdi
  simp only [declaredFn, hac, hbc, appendCol, hexn, Col.setUnknown, hknil]
  apply mem_arr_unknownOnly _ _ hok
  intro j y hj
  rcases getN_append a b j y hj with ⟨j', hg⟩ | ⟨j', hg⟩
  · have he := mem_elem_of_noKnown hm hcol hknil hg
    apply mem_union_l hU hR
    simp only [Col.unknownKind, mem_unknown_toKind]; exact he
  · exact mem_union_r hU hR (mem_reducedKind hds hdi (hb1 j' y hg))

/-! ### the claim for all modelled functions at once -/

/-- **finding classes of clauses (a)/(k)**, decidable on the argument kinds of the call:
    * `pop`: the array kind has a known index that must be present (`type_def` = argument kind);
    * `slice`: an argument that is exactly an array with known indices (same reason);
    * `compact`, `flatten`: an argument that may be an array but is not exactly one (`.p`);
    * `values`, `push`: outside the hypotheses of C19's union theorem (`valuesOk`, `pushDynOk`;
      they hold for `any`, for literals and for every kind without `json` unknowns); `push` onto a
      literal array is covered without condition;
    * `append`: `value` with known indices / exactly known length (the known indices of `items` are
      shifted: not covered), or outside the union hypotheses (`appendDynOk`);
    * `merge`: no theorem — its type_def is `Kind::merge(overwrite)`, whose soundness is C19's with
      C19's own finding classes, and it ignores `deep` (`W.witness_merge_deep`). For `merge` the claim
      rests on the sweep oracle only. -/
def isLitArray : ASlots → Bool
  | [some (.lit (.arr _)), some _] => true
  | _ => false


def soundClass (F : Fn) (as : ASlots) : Bool :=
  let k0 := akind as 0
  match F with
  | .pop => !(arrayCol k0).knownOptional
  | .slice => !(k0.isBytes || !k0.isArray || (arrayCol k0).known.isEmpty)
  | .compact | .flatten => !(k0.isArray || !k0.hasArr)
  | .values => !valuesOk k0
  | .push => !(isLitArray as || pushDynOk k0 (akind as 1))
  | .append => !appendDynOk k0 (akind as 1)
  | .merge => true
  | _ => false

/-- **C03 (a)+(k), what holds: for every modelled function, every call the compiler accepts and all
    argument values the argument expressions can evaluate to, a returned value belongs to the
    TypeDef the compiler computed for the call and to the function's documented return kinds —
    outside the classes of `soundClass`.** -/
theorem sound_partial (E : Env) (F : Fn) (as : ASlots) (vs : Slots) (td : TD) (c : Call F as vs td)
    (h : soundClass F as = false) : SoundAt E F as vs td := by
  cases F
  case pop =>
    exact pop_sound_partial E as vs td c (by simpa [soundClass] using h)
  case slice =>
    refine slice_sound_partial E as vs td c ?_
    simp only [soundClass, Bool.not_eq_false', Bool.or_eq_true, Bool.not_eq_true'] at h
    rcases h with (h | h) | h
    · exact Or.inl h
    · exact Or.inr (Or.inl h)
    · refine Or.inr (Or.inr ?_)
      cases hk : (arrayCol (akind as 0)).known with
      | nil => rfl
      | cons _ _ _ => simp [hk, KList.isEmpty] at h
  case mod => exact mod_sound E as vs td c
  case compact =>
    refine compact_flatten_sound_partial E .compact (Or.inl rfl) as vs td c ?_
    simp only [soundClass, Bool.not_eq_false', Bool.or_eq_true, Bool.not_eq_true'] at h
    exact h
  case flatten =>
    refine compact_flatten_sound_partial E .flatten (Or.inr rfl) as vs td c ?_
    simp only [soundClass, Bool.not_eq_false', Bool.or_eq_true, Bool.not_eq_true'] at h
    exact h
  case push =>
    simp only [soundClass, Bool.not_eq_false', Bool.or_eq_true] at h
    rcases h with h | h
    · unfold isLitArray at h
      split at h
      · exact push_lit_sound E _ _ vs td c
      · cases h
    · exact push_dyn_sound E as vs td c h
  case append => exact append_dyn_sound E as vs td c (by simpa [soundClass] using h)
  case values => exact values_sound_partial E as vs td c (by simpa [soundClass] using h)
  case merge => simp [soundClass] at h
  case array => exact array_sound E as vs td c
  case object => exact object_sound E as vs td c
  case split => exact split_sound E as vs td c
  case keys => exact keys_sound E as vs td c
  case abs => exact num_sound E .abs (by simp) as vs td c
  case floor => exact num_sound E .floor (by simp) as vs td c
  case ceil => exact num_sound E .ceil (by simp) as vs td c
  case round => exact num_sound E .round (by simp) as vs td c
  case unique => exact anyColl_sound E .unique (by simp) as vs td c
  case toEntries => exact anyColl_sound E .toEntries (by simp) as vs td c
  case fromEntries => exact anyColl_sound E .fromEntries (by simp) as vs td c
  case unflatten => exact anyColl_sound E .unflatten (by simp) as vs td c
  all_goals exact prim_sound E _ _ rfl as vs td c

end C03
