/-
  C27 — Digest and checksum functions match the reference algorithms.

  LEVEL: `other`. The statement "the Rust crates md-5/sha1/sha2/sha3/hmac/crc/xxhash-rust/seahash,
  as called by vrl, compute the published functions" is not a theorem about a model of vrl; it is
  established by the `c27.*` correspondence (differential run of the real stdlib functions against
  the executable Lean specifications `VrlModel/Hash/*.lean`, sampling). What IS proved here:

  (i)   the Lean specifications reproduce the published test vectors of RFC 1321, FIPS 180-4,
        FIPS 202, RFC 2202/4231, the CRC catalogue (all 112 rows), xxHash and SeaHash, and the
        tables the standards define by a procedure are the generated ones
        — `VrlProofs/Props/C27Vectors.lean` (kernel evaluation);
  (ii)  glue, for ALL inputs: the variant-name dispatch of the vrl functions is total on the
        documented names, maps every name to the intended algorithm, has the documented defaults,
        fails exactly on the other names; the result encodings (lower-case hex, decimal text,
        `u64 as i64`) have the documented length/range and are injective; digest lengths, padding
        lengths, word bounds;
  (iii) the hmac model is the RFC 2104 definition instantiated with the very hash functions that
        `sha1`/`sha2` use (so every hmac variant is covered once the hash is).

  Model: VrlModel/Hash/Vrl.lean (dispatch + encoding), VrlModel/Hash/{MD5,SHA,SHA3,HMAC,CRC,XXH,
  XXH3,SeaHash}.lean (reference specifications).
-/
import VrlProofs.Lemmas.C27
import VrlProofs.Props.C27Vectors

namespace C27
open Hash Hash.Vrl

/-! ## (ii-a) variant dispatch -/

theorem lookupFn_none_iff {α : Type} (tbl : List (String × α)) (n : String) :
    lookupFn tbl n = none ↔ n ∉ tbl.map (·.1) := by
  induction tbl with
  | nil => simp [lookupFn]
  | cons x xs ih =>
    simp only [lookupFn, List.find?_cons] at ih ⊢
    by_cases h : x.1 = n
    · simp [h]
    · have h' : (x.1 == n) = false := by simpa using h
      simp only [h', List.map_cons, List.mem_cons]
      rw [ih]
      constructor
      · intro hn hmem; rcases hmem with hm | hm
        · exact h hm.symm
        · exact hn hm
      · intro hn hmem; exact hn (Or.inr hmem)

/-- `sha2`: every documented variant name selects the FIPS 180-4 function of that name; the
    default is SHA-512/256; any other name is rejected (compile-time enum). -/
theorem sha2_dispatch (b : Bytes) :
    sha2 (some "SHA-224") b = .ok (hexValue (SHA.sha224 b)) ∧
    sha2 (some "SHA-256") b = .ok (hexValue (SHA.sha256 b)) ∧
    sha2 (some "SHA-384") b = .ok (hexValue (SHA.sha384 b)) ∧
    sha2 (some "SHA-512") b = .ok (hexValue (SHA.sha512 b)) ∧
    sha2 (some "SHA-512/224") b = .ok (hexValue (SHA.sha512_224 b)) ∧
    sha2 (some "SHA-512/256") b = .ok (hexValue (SHA.sha512_256 b)) ∧
    sha2 none b = .ok (hexValue (SHA.sha512_256 b)) :=
  ⟨rfl, rfl, rfl, rfl, rfl, rfl, rfl⟩

theorem sha2_unknown (n : String) (b : Bytes)
    (h : n ∉ ["SHA-224", "SHA-256", "SHA-384", "SHA-512", "SHA-512/224", "SHA-512/256"]) :
    sha2 (some n) b = .err := by
  have : lookupFn sha2Variants n = none := (lookupFn_none_iff _ _).2 h
  simp [sha2, this]

/-- `sha3`: names ↦ FIPS 202 functions, default SHA3-512. -/
theorem sha3_dispatch (b : Bytes) :
    sha3 (some "SHA3-224") b = .ok (hexValue (SHA3.sha3_224 b)) ∧
    sha3 (some "SHA3-256") b = .ok (hexValue (SHA3.sha3_256 b)) ∧
    sha3 (some "SHA3-384") b = .ok (hexValue (SHA3.sha3_384 b)) ∧
    sha3 (some "SHA3-512") b = .ok (hexValue (SHA3.sha3_512 b)) ∧
    sha3 none b = .ok (hexValue (SHA3.sha3_512 b)) :=
  ⟨rfl, rfl, rfl, rfl, rfl⟩

theorem sha3_unknown (n : String) (b : Bytes)
    (h : n ∉ ["SHA3-224", "SHA3-256", "SHA3-384", "SHA3-512"]) : sha3 (some n) b = .err := by
  have : lookupFn sha3Variants n = none := (lookupFn_none_iff _ _).2 h
  simp [sha3, this]

/-- `hmac`: names ↦ (block size, hash) pairs of RFC 2104 / FIPS 198-1 (B = 64 for SHA-1,
    SHA-224, SHA-256; B = 128 for SHA-384, SHA-512), default SHA-256; raw MAC bytes. -/
theorem hmac_dispatch (v k : Bytes) :
    hmac (some "SHA1") v k = .ok (.bytes (HMAC.hmac ⟨64, SHA.SHA1.digest⟩ k v)) ∧
    hmac (some "SHA-224") v k = .ok (.bytes (HMAC.hmac ⟨64, SHA.sha224⟩ k v)) ∧
    hmac (some "SHA-256") v k = .ok (.bytes (HMAC.hmac ⟨64, SHA.sha256⟩ k v)) ∧
    hmac (some "SHA-384") v k = .ok (.bytes (HMAC.hmac ⟨128, SHA.sha384⟩ k v)) ∧
    hmac (some "SHA-512") v k = .ok (.bytes (HMAC.hmac ⟨128, SHA.sha512⟩ k v)) ∧
    hmac none v k = .ok (.bytes (HMAC.hmac ⟨64, SHA.sha256⟩ k v)) :=
  ⟨rfl, rfl, rfl, rfl, rfl, rfl⟩

/-- the name is compared after upper-casing: only the upper-cased name matters. -/
theorem hmac_name_upper (n n' : String) (v k : Bytes) (h : asciiUpper n = asciiUpper n') :
    hmac (some n) v k = hmac (some n') v k := by
  simp [hmac, h]

theorem hmac_unknown (n : String) (v k : Bytes)
    (h : asciiUpper n ∉ ["SHA1", "SHA-224", "SHA-256", "SHA-384", "SHA-512"]) :
    hmac (some n) v k = .err := by
  have : lookupFn hmacAlgorithms (asciiUpper n) = none := (lookupFn_none_iff _ _).2 h
  simp [hmac, this]

/-- `xxhash`: names ↦ algorithm and result encoding, default XXH32, seed 0. -/
theorem xxhash_dispatch (b : Bytes) :
    xxhash (some "XXH32") b = .ok (.int (XXH.xxh32 0 b)) ∧
    xxhash (some "XXH64") b = .ok (.int (asI64 (XXH.xxh64 0 b))) ∧
    xxhash (some "XXH3-64") b = .ok (.int (asI64 (XXH3.xxh3_64 b))) ∧
    xxhash (some "XXH3-128") b = .ok (.bytes (decAscii (XXH3.xxh3_128 b))) ∧
    xxhash none b = .ok (.int (XXH.xxh32 0 b)) :=
  ⟨rfl, rfl, rfl, rfl, rfl⟩

theorem xxhash_unknown (n : String) (b : Bytes)
    (h : asciiUpper n ∉ ["XXH32", "XXH64", "XXH3-64", "XXH3-128"]) : xxhash (some n) b = .err := by
  have : lookupFn xxhashVariants (asciiUpper n) = none := (lookupFn_none_iff _ _).2 h
  simp [xxhash, this]

/-- `crc`: looking up the (already upper-case) name of any of the 112 rows finds exactly that
    row – names are pairwise distinct, no row shadows another. -/
theorem crc_lookup_rows : ∀ p ∈ CRC.table, CRC.lookup (asciiUpper p.name) = some p := by
  decide +kernel

/-- the name is compared after upper-casing: only the upper-cased name matters (so lower-case
    and mixed-case spellings select the same row). -/
theorem crc_name_upper (n n' : String) (b : Bytes) (h : asciiUpper n = asciiUpper n') :
    crc (some n) b = crc (some n') b := by
  simp [crc, h]

theorem xxhash_name_upper (n n' : String) (b : Bytes) (h : asciiUpper n = asciiUpper n') :
    xxhash (some n) b = xxhash (some n') b := by
  simp [xxhash, h]

theorem upper_examples :
    asciiUpper "crc_32_iscsi" = "CRC_32_ISCSI" ∧ asciiUpper "Sha-256" = "SHA-256" ∧
    asciiUpper "xxh3-128" = "XXH3-128" ∧ asciiUpper "SHA-512/256" = "SHA-512/256" := by
  decide +kernel

/-- every row name selects the Rocksoft model with that row's parameters; the result is the
    checksum in decimal; the default is CRC-32/ISO-HDLC (the zlib/PNG CRC-32). -/
theorem crc_dispatch (p : CRC.Params) (hp : p ∈ CRC.table) (b : Bytes) :
    crc (some p.name) b = .ok (.bytes (decAscii (CRC.crc p b))) := by
  simp [crc, crc_lookup_rows p hp]

theorem crc_default (b : Bytes) : crc none b = crc (some "CRC_32_ISO_HDLC") b := rfl

theorem crc_default_row :
    (CRC.lookup crcDefault).map (fun p => (p.width, p.poly, p.init, p.refin, p.refout, p.xorout))
      = some (32, 0x04c11db7, 0xffffffff, true, true, 0xffffffff) := by
  decide +kernel

theorem crc_unknown (n : String) (b : Bytes) (h : asciiUpper n ∉ CRC.table.map (·.name)) :
    crc (some n) b = .err := by
  have : CRC.lookup (asciiUpper n) = none := by
    unfold CRC.lookup
    rw [List.find?_eq_none]
    intro p hp hbeq
    exact h (List.mem_map.2 ⟨p, hp, by simpa using hbeq⟩)
  simp [crc, this]

/-- `md5`, `sha1`, `seahash` have no variants. -/
theorem plain_functions (b : Bytes) :
    md5 b = .ok (hexValue (MD5.digest b)) ∧ sha1 b = .ok (hexValue (SHA.SHA1.digest b)) ∧
    seahash b = .ok (.int (asI64 (SeaHash.hash b))) :=
  ⟨rfl, rfl, rfl⟩

/-! ## (ii-b) digest lengths (all inputs) -/

/-- the digest sizes of the standards, for every message. -/
theorem digest_lengths (m : Bytes) :
    (MD5.digest m).length = 16 ∧ (SHA.SHA1.digest m).length = 20 ∧
    (SHA.sha224 m).length = 28 ∧ (SHA.sha256 m).length = 32 ∧
    (SHA.sha384 m).length = 48 ∧ (SHA.sha512 m).length = 64 ∧
    (SHA.sha512_224 m).length = 28 ∧ (SHA.sha512_256 m).length = 32 ∧
    (SHA3.sha3_224 m).length = 28 ∧ (SHA3.sha3_256 m).length = 32 ∧
    (SHA3.sha3_384 m).length = 48 ∧ (SHA3.sha3_512 m).length = 64 := by
  refine ⟨md5_length m, sha1_length m, ?_, ?_, ?_, ?_, ?_, ?_,
    sha3_length 28 m, sha3_length 32 m, sha3_length 48 m, sha3_length 64 m⟩ <;>
  · simp only [SHA.sha224, SHA.sha256, SHA.sha384, SHA.sha512, SHA.sha512_224, SHA.sha512_256]
    rw [sha2_digest_length]; rfl

/-- an HMAC has the length of the underlying hash. -/
theorem hmac_length (h : HMAC.HashFn) (n : Nat) (hn : ∀ x, (h.hash x).length = n) (k m : Bytes) :
    (HMAC.hmac h k m).length = n := by
  simp [HMAC.hmac, hn]

/-- the padded message is a whole number of blocks (MD5 / SHA-1 / SHA-2: 64- or 128-byte blocks;
    SHA-3: `rate` bytes, and at least one byte of padding is always added). -/
theorem padding_lengths (m : Bytes) :
    (MD5.pad m).length % 64 = 0 ∧ (SHA.pad 64 8 m).length % 64 = 0 ∧
    (SHA.pad 128 16 m).length % 128 = 0 ∧
    (∀ rate, 2 ≤ rate → (SHA3.pad rate m).length % rate = 0 ∧ m.length < (SHA3.pad rate m).length) :=
  ⟨md5_pad_length m, sha_pad64_length m, sha_pad128_length m, fun r hr => sha3_pad_length r hr m⟩

/-! ## (ii-c) result encodings (all inputs) -/

/-- `hex::encode`: 2 characters per byte, lower-case hex digits only, injective. -/
theorem hex_encoding (a b : Bytes) (ha : ∀ x ∈ a, x < 256) (hb : ∀ x ∈ b, x < 256) :
    (hexAscii a).length = 2 * a.length ∧
    (∀ c ∈ hexChars a, c ∈ "0123456789abcdef".toList) ∧
    (hexAscii a = hexAscii b → a = b) := by
  refine ⟨hexAscii_length a, hexChars_lower a ha, fun h => hexChars_inj a b ha hb ?_⟩
  have hinj : ∀ l₁ l₂ : List Char, l₁.map Char.toNat = l₂.map Char.toNat → l₁ = l₂ := by
    intro l₁
    induction l₁ with
    | nil => intro l₂ h; cases l₂ <;> simp_all
    | cons c cs ih =>
      intro l₂ h
      cases l₂ with
      | nil => simp at h
      | cons d ds =>
        simp only [List.map_cons, List.cons.injEq] at h
        rw [Char.toNat_inj.1 h.1, ih ds h.2]
  exact hinj _ _ h

/-- the text results have the documented sizes: md5 32, sha1 40, sha2 56/64/96/128/56/64,
    sha3 56/64/96/128 characters. -/
theorem hex_result_lengths (m : Bytes) :
    (hexAscii (MD5.digest m)).length = 32 ∧ (hexAscii (SHA.SHA1.digest m)).length = 40 ∧
    (hexAscii (SHA.sha224 m)).length = 56 ∧ (hexAscii (SHA.sha256 m)).length = 64 ∧
    (hexAscii (SHA.sha384 m)).length = 96 ∧ (hexAscii (SHA.sha512 m)).length = 128 ∧
    (hexAscii (SHA.sha512_224 m)).length = 56 ∧ (hexAscii (SHA.sha512_256 m)).length = 64 ∧
    (hexAscii (SHA3.sha3_224 m)).length = 56 ∧ (hexAscii (SHA3.sha3_256 m)).length = 64 ∧
    (hexAscii (SHA3.sha3_384 m)).length = 96 ∧ (hexAscii (SHA3.sha3_512 m)).length = 128 := by
  have h := digest_lengths m
  simp only [hexAscii_length]
  omega

/-- `u64 as i64` is a bijection onto the i64 range that preserves the value modulo 2^64. -/
theorem i64_encoding (a b : Nat) (ha : a < 2 ^ 64) (hb : b < 2 ^ 64) :
    -(2 ^ 63 : Int) ≤ asI64 a ∧ asI64 a < 2 ^ 63 ∧ asI64 a % (2 ^ 64 : Int) = a ∧
    (asI64 a = asI64 b → a = b) :=
  ⟨(asI64_range a ha).1, (asI64_range a ha).2, asI64_mod a ha, asI64_inj a b ha hb⟩

/-- decimal text: reading it back gives the number; hence injective (below 10^64). -/
theorem decimal_encoding (a b : Nat) (ha : a < 10 ^ 64) (hb : b < 10 ^ 64) :
    decValue (decAscii a) = a ∧ (decAscii a = decAscii b → a = b) :=
  ⟨decValue_decAscii a ha, decAscii_inj a b ha hb⟩

/-- a CRC value fits its register width (so it fits the Rust type u8/u16/u32/u64/u128 that
    `crc.rs` instantiates for that width, and the decimal text is faithful). -/
theorem crc_lt (p : CRC.Params) (hp : p.poly < 2 ^ p.width) (hi : p.init < 2 ^ p.width)
    (hx : p.xorout < 2 ^ p.width) (m : Bytes) : CRC.crc p m < 2 ^ p.width := by
  unfold CRC.crc
  apply Nat.xor_lt_two_pow _ hx
  split
  · exact reflect_lt _ _
  · exact crc_reg_lt p hp m _ hi

theorem crc_decimal_faithful (p : CRC.Params) (hp : p ∈ CRC.table) (m : Bytes) :
    decValue (decAscii (CRC.crc p m)) = CRC.crc p m := by
  have hw := crc_rows_wellformed p hp
  have hlt := crc_lt p hw.2.2.1 hw.2.2.2.1 hw.2.2.2.2.1 m
  apply decValue_decAscii
  have h82 : (2 : Nat) ^ p.width ≤ 2 ^ 82 := Nat.pow_le_pow_right (by omega) hw.2.1
  have : (2 : Nat) ^ 82 < 10 ^ 64 := by decide
  omega

/-- XXH32 fits in 32 bits (so `i64::from(u32)` is the identity on it); XXH64, XXH3-64 and
    SeaHash fit in 64 bits (so `as i64` above applies); XXH3-128 fits in 128 bits (so its decimal
    text is faithful: 2^128 < 10^64). -/
theorem word_bounds (seed : Nat) (m : Bytes) :
    XXH.xxh32 seed m < 2 ^ 32 ∧ XXH.xxh64 seed m < 2 ^ 64 ∧ SeaHash.hash m < 2 ^ 64 ∧
    XXH3.xxh3_64 m < 2 ^ 64 ∧ XXH3.xxh3_128 m < 2 ^ 128 := by
  refine ⟨?_, ?_, ?_, xxh3_64_lt m, xxh3_128_lt m⟩
  · unfold XXH.xxh32 XXH.avalanche32
    exact xorshift_lt _ 16 32 (Nat.mod_lt _ (by decide))
  · unfold XXH.xxh64 XXH.avalanche64
    exact xorshift_lt _ 32 64 (Nat.mod_lt _ (by decide))
  · unfold SeaHash.hash SeaHash.hashSeeded SeaHash.diffuse
    exact Nat.mod_lt _ (by decide)

theorem xxh3_128_decimal_faithful (m : Bytes) :
    decValue (decAscii (XXH3.xxh3_128 m)) = XXH3.xxh3_128 m := by
  apply decValue_decAscii
  have := xxh3_128_lt m
  have : (2 : Nat) ^ 128 < 10 ^ 64 := by decide
  omega

/-! ## (iii) hmac = RFC 2104 instantiated with the modelled hash -/

/-- RFC 2104 §2, written out: `H(K XOR opad, H(K XOR ipad, text))` with `ipad` = the byte 0x36
    repeated B times, `opad` = the byte 0x5C repeated B times, and `K` = the key with zeros
    appended to B bytes ("applications that use keys longer than B bytes will first hash the key
    using H"). -/
def rfc2104 (H : Bytes → Bytes) (B : Nat) (key text : Bytes) : Bytes :=
  let k := if key.length > B then H key else key
  let k0 := k ++ List.replicate (B - k.length) 0
  let ipad := List.replicate B 0x36
  let opad := List.replicate B 0x5c
  H (List.zipWith (· ^^^ ·) k0 opad ++ H (List.zipWith (· ^^^ ·) k0 ipad ++ text))

theorem zipWith_xor_replicate (c : Nat) : ∀ (l : List Nat) (n : Nat), l.length = n →
    List.zipWith (· ^^^ ·) l (List.replicate n c) = l.map (· ^^^ c)
  | [], _, h => by simp
  | x :: l, n, h => by
    cases n with
    | zero => simp at h
    | succ n =>
      simp only [List.replicate_succ, List.zipWith_cons_cons, List.map_cons]
      rw [zipWith_xor_replicate c l n (by simpa using h)]

/-- the model's HMAC is the RFC 2104 text, for every hash whose output is not longer than its
    block (true of every standard hash). -/
theorem hmac_eq_rfc2104 (h : HMAC.HashFn) (n : Nat) (hn : ∀ x, (h.hash x).length = n)
    (hB : n ≤ h.blockBytes) (key text : Bytes) :
    HMAC.hmac h key text = rfc2104 h.hash h.blockBytes key text := by
  unfold HMAC.hmac rfc2104
  simp only
  split
  · rw [zipWith_xor_replicate 0x5c _ h.blockBytes (by simp [hn]; omega),
      zipWith_xor_replicate 0x36 _ h.blockBytes (by simp [hn]; omega)]
  · rw [zipWith_xor_replicate 0x5c _ h.blockBytes (by simp; omega),
      zipWith_xor_replicate 0x36 _ h.blockBytes (by simp; omega)]

/-- vrl's `hmac` with each algorithm name is RFC 2104 over the SAME hash function that
    `sha1(…)` / `sha2(…, variant: name)` return in hex – so the hmac variants are covered by the
    vectors and the correspondence of the hashes plus the RFC 2202/4231 vectors. -/
theorem hmac_is_rfc2104 (v k : Bytes) :
    hmac (some "SHA1") v k = .ok (.bytes (rfc2104 SHA.SHA1.digest 64 k v)) ∧
    sha1 v = .ok (hexValue (SHA.SHA1.digest v)) ∧
    hmac (some "SHA-224") v k = .ok (.bytes (rfc2104 SHA.sha224 64 k v)) ∧
    sha2 (some "SHA-224") v = .ok (hexValue (SHA.sha224 v)) ∧
    hmac (some "SHA-256") v k = .ok (.bytes (rfc2104 SHA.sha256 64 k v)) ∧
    sha2 (some "SHA-256") v = .ok (hexValue (SHA.sha256 v)) ∧
    hmac (some "SHA-384") v k = .ok (.bytes (rfc2104 SHA.sha384 128 k v)) ∧
    sha2 (some "SHA-384") v = .ok (hexValue (SHA.sha384 v)) ∧
    hmac (some "SHA-512") v k = .ok (.bytes (rfc2104 SHA.sha512 128 k v)) ∧
    sha2 (some "SHA-512") v = .ok (hexValue (SHA.sha512 v)) := by
  have d := fun m => digest_lengths m
  have e1 := hmac_eq_rfc2104 ⟨64, SHA.SHA1.digest⟩ 20 (fun x => (d x).2.1) (by decide) k v
  have e2 := hmac_eq_rfc2104 ⟨64, SHA.sha224⟩ 28 (fun x => (d x).2.2.1) (by decide) k v
  have e3 := hmac_eq_rfc2104 ⟨64, SHA.sha256⟩ 32 (fun x => (d x).2.2.2.1) (by decide) k v
  have e4 := hmac_eq_rfc2104 ⟨128, SHA.sha384⟩ 48 (fun x => (d x).2.2.2.2.1) (by decide) k v
  have e5 := hmac_eq_rfc2104 ⟨128, SHA.sha512⟩ 64 (fun x => (d x).2.2.2.2.2.1) (by decide) k v
  have hd := hmac_dispatch v k
  refine ⟨?_, rfl, ?_, rfl, ?_, rfl, ?_, rfl, ?_, rfl⟩
  · rw [hd.1, e1]
  · rw [hd.2.1, e2]
  · rw [hd.2.2.1, e3]
  · rw [hd.2.2.2.1, e4]
  · rw [hd.2.2.2.2.1, e5]

/-- consequences of the definition: trailing zero bytes of a short key do not matter, and a key
    longer than the block is equivalent to its hash. -/
theorem hmac_key_zero_extension (h : HMAC.HashFn) (key text : Bytes) (z : Nat)
    (hk : key.length + z ≤ h.blockBytes) :
    HMAC.hmac h (key ++ List.replicate z 0) text = HMAC.hmac h key text := by
  have e : ∀ (k : Bytes) (z' : Nat), k.length + z' ≤ h.blockBytes →
      (if k.length > h.blockBytes then h.hash k else k) = k := by
    intro k z' hk'
    split
    · omega
    · rfl
  unfold HMAC.hmac
  simp only
  rw [e key z hk, e (key ++ List.replicate z 0) 0 (by simp; omega)]
  have : (key ++ List.replicate z 0) ++
      List.replicate (h.blockBytes - (key ++ List.replicate z 0).length) 0
      = key ++ List.replicate (h.blockBytes - key.length) 0 := by
    rw [List.append_assoc, List.length_append, List.length_replicate, List.replicate_append_replicate]
    congr 2; omega
  rw [this]

theorem hmac_long_key (h : HMAC.HashFn) (key text : Bytes) (hk : h.blockBytes < key.length)
    (hh : (h.hash key).length ≤ h.blockBytes) :
    HMAC.hmac h key text = HMAC.hmac h (h.hash key) text := by
  unfold HMAC.hmac
  simp only
  rw [if_pos hk, if_neg (by omega)]

end C27
