/-
  C29 (float part) — round / ceil / floor with precision: `fun(num * 10^p) / 10^p`.

  1. Exact-arithmetic layer: with exact rationals the algorithm satisfies the statement
     (within 10^-p — round even within half of it —, ceil never below, floor never above).
  2. Float layer (`VrlModel/Round.lean`, binary64 bit patterns): the decision logic on non-finite
     and vanished intermediates, for ALL finite inputs:
       * `10^p = +∞`  (p ≥ 309)            ⇒ `∞/∞ = NaN` ⇒ the result is `0.0`        (`pow_overflow_zero`)
       * `10^p = 0`   (p ≤ −324)           ⇒ `0/0 = NaN`  ⇒ the result is `0.0`        (`pow_underflow_zero`)
       * `x·10^p` overflows, `10^p` finite ⇒ the result is `±∞`                       (`product_overflow_inf`)
     These are the classes `D_overflow_mult` / `D_underflow_mult`; the third class
     `D_product_rounding` (the product or `10^p` is inexact and the error survives the division) has
     witnesses in `Witness/C29float.lean`.  The rounding-error analysis of the remaining case
     (exact product, exact power) is not carried out: `spec_partial` states what it would have to
     deliver as explicit hypotheses on the two float operations.
-/
import VrlModel.Round
import VrlProofs.Lemmas.F64

namespace C29f
open F64 Round

/-! ### 1. exact arithmetic

  `x = a/b`, `10^p = s/t` (`s = 10^p, t = 1` for `p ≥ 0`; `s = 1, t = 10^-p` otherwise), all
  denominators positive.  `x·10^p = (a·s)/(b·t)`, the integer rounding `k` of it is computed with
  `Int` division, the result is `r = k / 10^p = k·t/s`.  Cleared of denominators:
      r ≤ x          ⇔  k·t·b ≤ a·s
      x − r < 10^-p  ⇔  a·s − k·t·b < t·b        (and symmetrically for ceil / round). -/

/-- `⌊n/d⌋·d ≤ n < ⌊n/d⌋·d + d`, with `d = b·t` written the way the statement needs it. -/
theorem floor_bounds (n : Int) (b t : Nat) (hb : 0 < b) (ht : 0 < t) :
    n / ((b * t : Nat) : Int) * t * b ≤ n ∧ n - n / ((b * t : Nat) : Int) * t * b < t * b := by
  have hd : (0 : Int) < ((b * t : Nat) : Int) := by
    have : 0 < b * t := Nat.mul_pos hb ht
    omega
  have h1 := Int.ediv_mul_le n (Int.ne_of_gt hd)
  have h2 := Int.lt_ediv_add_one_mul_self n hd
  rw [Int.add_mul, Int.one_mul] at h2
  have e3 : ((t : Int) * b) = ((b * t : Nat) : Int) := by rw [Int.natCast_mul, Int.mul_comm]
  rw [Int.mul_assoc, e3]
  generalize n / ((b * t : Nat) : Int) * ((b * t : Nat) : Int) = qd at *
  constructor <;> omega

theorem exact_floor (a : Int) (b s t : Nat) (hb : 0 < b) (ht : 0 < t) :
    (a * s) / ((b * t : Nat) : Int) * t * b ≤ a * s ∧
    a * s - (a * s) / ((b * t : Nat) : Int) * t * b < t * b :=
  floor_bounds (a * s) b t hb ht

theorem exact_ceil (a : Int) (b s t : Nat) (hb : 0 < b) (ht : 0 < t) :
    a * s ≤ -((-(a * s)) / ((b * t : Nat) : Int)) * t * b ∧
    -((-(a * s)) / ((b * t : Nat) : Int)) * t * b - a * s < t * b := by
  have h := floor_bounds (-(a * s)) b t hb ht
  rw [Int.neg_mul, Int.neg_mul]
  generalize -(a * (s : Int)) / ((b * t : Nat) : Int) * t * b = q at *
  constructor <;> omega

/-- round half away from zero of `n/d`: `sign(n) · ⌊(2|n| + d) / 2d⌋`. -/
def roundDiv (n : Int) (d : Nat) : Int :=
  if 0 ≤ n then (2 * n + d) / ((2 * d : Nat) : Int) else -((2 * (-n) + d) / ((2 * d : Nat) : Int))

/-- the rounded value is within half a unit: `|k·t/s − a/b| ≤ (t/s)/2`. -/
theorem exact_round (a : Int) (b s t : Nat) (hb : 0 < b) (ht : 0 < t) :
    2 * (roundDiv (a * s) (b * t) * t * b - a * s) ≤ t * b ∧
    2 * (a * s - roundDiv (a * s) (b * t) * t * b) ≤ t * b := by
  have hd : (0 : Int) < ((2 * (b * t) : Nat) : Int) := by
    have : 0 < b * t := Nat.mul_pos hb ht
    omega
  have e3 : ((t : Int) * b) = ((b * t : Nat) : Int) := by rw [Int.natCast_mul, Int.mul_comm]
  have e2 : ((2 * (b * t) : Nat) : Int) = 2 * ((b * t : Nat) : Int) := by omega
  rw [Int.mul_assoc, e3]
  unfold roundDiv
  generalize a * (s : Int) = n at *
  split
  · have h1 := Int.ediv_mul_le (2 * n + ((b * t : Nat) : Int)) (Int.ne_of_gt hd)
    have h2 := Int.lt_ediv_add_one_mul_self (2 * n + ((b * t : Nat) : Int)) hd
    rw [Int.add_mul, Int.one_mul] at h2
    generalize (2 * n + ((b * t : Nat) : Int)) / ((2 * (b * t) : Nat) : Int) = q at *
    rw [e2] at h1 h2
    have : q * (2 * ((b * t : Nat) : Int)) = 2 * (q * ((b * t : Nat) : Int)) := by
      rw [Int.mul_comm 2, ← Int.mul_assoc, Int.mul_comm _ 2]
    rw [this] at h1 h2
    generalize q * ((b * t : Nat) : Int) = qd at *
    constructor <;> omega
  · have h1 := Int.ediv_mul_le (2 * -n + ((b * t : Nat) : Int)) (Int.ne_of_gt hd)
    have h2 := Int.lt_ediv_add_one_mul_self (2 * -n + ((b * t : Nat) : Int)) hd
    rw [Int.add_mul, Int.one_mul] at h2
    generalize (2 * -n + ((b * t : Nat) : Int)) / ((2 * (b * t) : Nat) : Int) = q at *
    rw [e2] at h1 h2
    have : q * (2 * ((b * t : Nat) : Int)) = 2 * (q * ((b * t : Nat) : Int)) := by
      rw [Int.mul_comm 2, ← Int.mul_assoc, Int.mul_comm _ 2]
    rw [this] at h1 h2
    rw [Int.neg_mul]
    generalize q * ((b * t : Nat) : Int) = qd at *
    constructor <;> omega

/-! ### 2. float layer: decision logic -/

theorem isInf_withSign (s : Bool) : isInf (withSign s infBits) = true := by
  cases s <;> decide

theorem isNaN_inf (s : Bool) : isNaN (withSign s infBits) = false := by
  cases s <;> decide

theorem finite_notNaN (x : Nat) (h : isFinite x = true) : isNaN x = false := by
  simp only [isFinite, isNaN, decide_eq_true_eq, decide_eq_false_iff_not] at *; omega

theorem finite_notInf (x : Nat) (h : isFinite x = true) : isInf x = false := by
  simp only [isFinite, isInf, decide_eq_true_eq, beq_eq_false_iff_ne] at *; omega

theorem rint_inf (m : Mode) (b : Nat) (h : isInf b = true) : rint m b = b := by
  simp [rint, h]

/-- `10^p = +∞`: every finite non-zero input gives `∞/∞ = NaN`, which `from_f64_or_zero` turns into
    `0.0` (`round(1.5e300, 400) = 0`). -/
theorem pow_overflow_zero (mode : Mode) (x : Nat) (hx : isFinite x = true) (h0 : isZero x = false) :
    roundToPrecision infBits mode x = none ∧ orZero (roundToPrecision infBits mode x) = 0 := by
  have hm : mul x infBits = some (withSign (signBit x != signBit infBits) infBits) := by
    have h1 : isInf infBits = true := by decide
    have h2 : isNaN infBits = false := by decide
    have h3 : isZero infBits = false := by decide
    simp [mul, finite_notNaN x hx, h1, h2, h3, h0]
  have : roundToPrecision infBits mode x = none := by
    simp only [roundToPrecision, hm, rint_inf _ _ (isInf_withSign _)]
    have h1 : isInf infBits = true := by decide
    have h2 : isNaN infBits = false := by decide
    simp [div, isNaN_inf, isInf_withSign, h1, h2]
  exact ⟨this, by rw [this]; rfl⟩

theorem mul_zero_right (x : Nat) (hx : isFinite x = true) :
    mul x 0 = some (withSign (signBit x) 0) := by
  have h1 : isInf 0 = false := by decide
  have h2 : isNaN 0 = false := by decide
  have h3 : mant 0 = 0 := by decide
  have h4 : signBit 0 = false := by decide
  simp [mul, finite_notNaN x hx, finite_notInf x hx, h1, h2, h3, h4, roundMag]

/-- `10^p = 0`: every finite input gives `0/0 = NaN`, i.e. `0.0` (`ceil(123.0, -400) = 0`). -/
theorem pow_underflow_zero (mode : Mode) (x : Nat) (hx : isFinite x = true) :
    roundToPrecision 0 mode x = none ∧ orZero (roundToPrecision 0 mode x) = 0 := by
  have : roundToPrecision 0 mode x = none := by
    simp only [roundToPrecision, mul_zero_right x hx]
    cases signBit x <;> cases mode <;> decide +kernel
  exact ⟨this, by rw [this]; rfl⟩

/-- the product overflows although `10^p` is finite: the result is `±∞` (`round(1e300, 10) = inf`). -/
theorem product_overflow_inf (mode : Mode) (x m p : Nat) (hm : isFinite m = true)
    (hp : mul x m = some p) (hinf : isInf p = true) :
    ∃ r, roundToPrecision m mode x = some r ∧ isInf r = true ∧ orZero (some r) = r := by
  have hpn : isNaN p = false := isInf_notNaN p hinf
  refine ⟨withSign (signBit p != signBit m) infBits, ?_, isInf_withSign _, ?_⟩
  · simp [roundToPrecision, hp, rint_inf _ _ hinf, div, hpn, finite_notNaN m hm, hinf, finite_notInf m hm]
  · simp [orZero, isNaN_inf]

/-! ### finding classes -/

/-- the classes are decided from the input, the precision and the multiplier alone, and
    `classify = none` means: multiplier and product normal (or input zero), `10^p` and the product exact. -/
theorem classify_none_iff (x : Nat) (p : Int) (m10 : Nat) :
    classify x p m10 = .none ↔
      (isInf m10 = false ∧ (∃ r, mul x m10 = some r ∧ isInf r = false)) ∧
      (isNormal m10 = true ∧ (isZero x = true ∨ ∃ r, mul x m10 = some r ∧ isNormal r = true)) ∧
      pow10Exact p = true ∧ mulExact x m10 = true := by
  unfold classify
  cases hmul : mul x m10 with
  | none => simp
  | some r =>
    by_cases h1 : isInf m10 = true <;> by_cases h2 : isInf r = true <;> by_cases h3 : isNormal m10 = true <;>
      by_cases h4 : isZero x = true <;> by_cases h5 : isNormal r = true <;>
      by_cases h6 : pow10Exact p = true <;> by_cases h7 : mulExact x m10 = true <;> simp_all

/-- What the missing rounding-error analysis has to deliver.  `prod`, `k`, `r` are the three
    intermediate doubles of one call; the hypotheses are decidable facts about single float
    operations (each a comparison of two bit patterns / an evaluation of `within`):
    the rounded quotient stays on the right side of the input and within the tolerance.
    Under them — and nothing else — the statement's clauses hold for the value the function returns. -/
theorem spec_partial (x : Nat) (p : Int) (m10 : Nat) (o : Obs)
    (hr : roundToPrecision m10 .round x = some o.round)
    (hc : roundToPrecision m10 .ceil x = some o.ceil)
    (hf : roundToPrecision m10 .floor x = some o.floor)
    (fin : isFinite o.round = true ∧ isFinite o.ceil = true ∧ isFinite o.floor = true)
    (near : within x o.round p = true ∧ within x o.ceil p = true ∧ within x o.floor p = true)
    (side : le x o.ceil = true ∧ le o.floor x = true) :
    spec x p ⟨orZero (roundToPrecision m10 .round x), orZero (roundToPrecision m10 .ceil x),
      orZero (roundToPrecision m10 .floor x)⟩ = true := by
  have nn : ∀ b, isFinite b = true → orZero (some b) = b := by
    intro b hb; simp [orZero, finite_notNaN b hb]
  rw [hr, hc, hf, nn _ fin.1, nn _ fin.2.1, nn _ fin.2.2]
  simp [spec, fin, near, side]

/-! ### to_float / parse_float convert consistently -/

/-- on strings `to_float` *is* `parse_float` (same `Conversion::Float`), whatever the parser does. -/
theorem to_float_parse_float_agree (parse : List Nat → Option Nat) (b : List Nat) :
    toFloat parse (.bytes b) = parseFloat parse (.bytes b) := rfl

theorem orZero_notNaN (o : Option Nat) : isNaN (orZero o) = false := by
  cases o with
  | none => decide
  | some b =>
    simp only [orZero]
    split
    · decide
    · rename_i h; simpa using h

/-- neither function ever returns NaN (for a float argument: given it is not NaN, as `NotNan` guarantees). -/
theorem to_float_notNaN (parse : List Nat → Option Nat) (v : Value) (f : Nat)
    (hv : ∀ b, v = .float b → isNaN b = false) (h : toFloat parse v = .ok (.float f)) : isNaN f = false := by
  cases v with
  | float b => simp [toFloat] at h; subst h; exact hv b rfl
  | int i => simp [toFloat] at h; subst h; exact orZero_notNaN _
  | bool b => simp [toFloat] at h; subst h; cases b <;> decide
  | null => simp [toFloat] at h; subst h; decide
  | ts ns =>
    simp only [toFloat] at h
    split at h
    · simp at h; subst h; exact orZero_notNaN _
    · simp at h; subst h; exact orZero_notNaN _
  | bytes b =>
    simp only [toFloat, bytesToFloat] at h
    split at h
    · split at h
      · cases h
      · rename_i hn; simp at h; subst h; simpa using hn
    · cases h
  | regex _ => simp [toFloat] at h
  | arr _ => simp [toFloat] at h
  | obj _ => simp [toFloat] at h

/-- `to_float` of an integer is the correctly rounded double (`i as f64`), never replaced by `0.0`. -/
theorem to_float_int (parse : List Nat → Option Nat) (i : Int) :
    toFloat parse (.int i) = .ok (.float (ofInt i)) := by
  simp [toFloat, orZero, ofInt_notNaN]

/-- `to_float` is idempotent: its result is a float, and floats are returned as they are. -/
theorem to_float_idempotent (parse : List Nat → Option Nat) (v w : Value) (h : toFloat parse v = .ok w) :
    toFloat parse w = .ok w := by
  have : ∃ f, w = .float f := by
    cases v with
    | bytes b =>
      simp only [toFloat, bytesToFloat] at h
      split at h
      · split at h
        · cases h
        · simp at h; exact ⟨_, h.symm⟩
      · cases h
    | ts ns =>
      simp only [toFloat] at h
      split at h
      · simp at h; exact ⟨_, h.symm⟩
      · simp at h; exact ⟨_, h.symm⟩
    | float b => simp [toFloat] at h; exact ⟨_, h.symm⟩
    | int i => simp [toFloat] at h; exact ⟨_, h.symm⟩
    | bool b => simp [toFloat] at h; exact ⟨_, h.symm⟩
    | null => simp [toFloat] at h; exact ⟨_, h.symm⟩
    | regex _ => simp [toFloat] at h
    | arr _ => simp [toFloat] at h
    | obj _ => simp [toFloat] at h
  obtain ⟨f, rfl⟩ := this
  rfl

end C29f
