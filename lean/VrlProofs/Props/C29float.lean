import VrlModel.Round
namespace C29f
theorem placeholder : True := trivial
end C29f
