/-
  C28 — witnesses of the known findings (concrete inputs on which the faithful model violates the
  law; each is replayed on the real implementation by the check) and non-vacuity examples.
-/
import VrlProofs.Props.C28

namespace C28
open Str Coll

/-- `Ⱥ` (U+023A, 2 bytes) ↔ `ⱥ` (U+2C65, 3 bytes): the std tables restricted to these chars. -/
def strokeMap : CaseMap :=
  CaseMap.ofTable [⟨0x23A, [0x23A], [0x2C65], .cased⟩, ⟨0x2C65, [0x23A], [0x2C65], .cased⟩]

/-- `affix:D_starts_with_raw_bytes`. `starts_with` compares raw bytes, `ends_with`/`contains` the
    lossily decoded strings: for the one-char string `\xff` (decoded: U+FFFD) and the substring
    `"\u{fffd}"` the latter two say `true`, `starts_with` says `false`. -/
theorem witness_starts_with_raw :
    startsWith CaseMap.ascii (.bytes [0xFF]) (.bytes [0xEF, 0xBF, 0xBD]) none = .ok (.bool false) ∧
    endsWith CaseMap.ascii (.bytes [0xFF]) (.bytes [0xEF, 0xBF, 0xBD]) none = .ok (.bool true) ∧
    contains CaseMap.ascii (.bytes [0xFF]) (.bytes [0xEF, 0xBF, 0xBD]) none = .ok (.bool true) ∧
    specStartsWith (decodeLossy [0xFF]) (decodeLossy [0xEF, 0xBF, 0xBD]) false = false := by decide

/-- `affix_ci:D_starts_with_charwise` (repaired in 2b95bd7), byte-length pre-check:
    `starts_with("Ⱥ", "ⱥ", case_sensitive: false)` was `false` because `"ⱥ"` has more bytes than
    `"Ⱥ"`; it is now `true`, like `ends_with` (both lower-case to `"ⱥ"`), and the law holds. -/
theorem fixed_starts_with_ci_length :
    startsWith strokeMap (.bytes [0xC8, 0xBA]) (.bytes [0xE2, 0xB1, 0xA5]) (some (.bool false)) = .ok (.bool true) ∧
    endsWith strokeMap (.bytes [0xC8, 0xBA]) (.bytes [0xE2, 0xB1, 0xA5]) (some (.bool false)) = .ok (.bool true) ∧
    specStartsWith (downcaseCp strokeMap (decodeLossy [0xC8, 0xBA]))
      (downcaseCp strokeMap (decodeLossy [0xE2, 0xB1, 0xA5])) true = true := by decide

/-- `affix_ci:D_starts_with_charwise` (repaired in 2b95bd7), zip truncation:
    `starts_with("ⱥ", "Ⱥx", case_sensitive: false)` was `true` (the zipped iterators stopped after
    the one char of `value`); it is now `false`: `"ⱥ"` does not start with `"ⱥx"`. -/
theorem fixed_starts_with_ci_zip :
    startsWith strokeMap (.bytes [0xE2, 0xB1, 0xA5]) (.bytes [0xC8, 0xBA, 0x78]) (some (.bool false)) = .ok (.bool false) ∧
    specStartsWith (downcaseCp strokeMap (decodeLossy [0xE2, 0xB1, 0xA5]))
      (downcaseCp strokeMap (decodeLossy [0xC8, 0xBA, 0x78])) false = true := by decide

/-- `affix_ci:D_starts_with_invalid_utf8`. The char iterator of case-insensitive `starts_with`
    rejects every invalid byte, `ends_with`/`contains` compare the lossily decoded strings:
    `starts_with("\xff", "\xff", case_sensitive: false)` is `false` although the case-sensitive
    call and the two other functions say `true`. -/
theorem witness_starts_with_ci_invalid :
    startsWith CaseMap.ascii (.bytes [0xFF]) (.bytes [0xFF]) (some (.bool false)) = .ok (.bool false) ∧
    startsWith CaseMap.ascii (.bytes [0xFF]) (.bytes [0xFF]) none = .ok (.bool true) ∧
    endsWith CaseMap.ascii (.bytes [0xFF]) (.bytes [0xFF]) (some (.bool false)) = .ok (.bool true) ∧
    contains CaseMap.ascii (.bytes [0xFF]) (.bytes [0xFF]) (some (.bool false)) = .ok (.bool true) ∧
    specStartsWith (downcaseCp CaseMap.ascii (decodeLossy [0xFF]))
      (downcaseCp CaseMap.ascii (decodeLossy [0xFF])) false = false := by decide

/-- `Α`/`Σ` with the observed classes (`α`, `σ`, `ς` are fixed points: not in the table). -/
def sigmaMap : CaseMap :=
  (CaseMap.ofTable [⟨0x391, [0x391], [0x3B1], .cased⟩, ⟨0x3A3, [0x3A3], [0x3C3], .cased⟩]).withAscii

/-- `affix_ci:D_starts_with_final_sigma`. `starts_with` lower-cases char by char (`Σ` ↦ `σ`),
    `ends_with`/`contains` lower-case each string as a whole (Final_Sigma: word-final `Σ` ↦ `ς`),
    so the three disagree in both directions: `"ΑΣ"` vs `"ας"`: `starts_with` `false`, the others
    `true`; `"ΑΣΑ"` vs `"ΑΣ"`: `starts_with` `true`, `contains` `false` (although it is `true`
    case-sensitively).  Both inputs are valid UTF-8 with single-char lower-casings. -/
theorem witness_starts_with_ci_sigma :
    startsWith sigmaMap (.bytes [0xCE, 0x91, 0xCE, 0xA3]) (.bytes [0xCE, 0xB1, 0xCF, 0x82]) (some (.bool false)) = .ok (.bool false) ∧
    endsWith sigmaMap (.bytes [0xCE, 0x91, 0xCE, 0xA3]) (.bytes [0xCE, 0xB1, 0xCF, 0x82]) (some (.bool false)) = .ok (.bool true) ∧
    contains sigmaMap (.bytes [0xCE, 0x91, 0xCE, 0xA3]) (.bytes [0xCE, 0xB1, 0xCF, 0x82]) (some (.bool false)) = .ok (.bool true) ∧
    startsWith sigmaMap (.bytes [0xCE, 0x91, 0xCE, 0xA3, 0xCE, 0x91]) (.bytes [0xCE, 0x91, 0xCE, 0xA3]) (some (.bool false)) = .ok (.bool true) ∧
    contains sigmaMap (.bytes [0xCE, 0x91, 0xCE, 0xA3, 0xCE, 0x91]) (.bytes [0xCE, 0x91, 0xCE, 0xA3]) (some (.bool false)) = .ok (.bool false) ∧
    contains sigmaMap (.bytes [0xCE, 0x91, 0xCE, 0xA3, 0xCE, 0x91]) (.bytes [0xCE, 0x91, 0xCE, 0xA3]) none = .ok (.bool true) ∧
    specStartsWith (downcaseCp sigmaMap (decodeLossy [0xCE, 0x91, 0xCE, 0xA3]))
      (downcaseCp sigmaMap (decodeLossy [0xCE, 0xB1, 0xCF, 0x82])) false = false ∧
    specStartsWith (downcaseCp sigmaMap (decodeLossy [0xCE, 0x91, 0xCE, 0xA3, 0xCE, 0x91]))
      (downcaseCp sigmaMap (decodeLossy [0xCE, 0x91, 0xCE, 0xA3])) true = false ∧
    singleLower sigmaMap (decodeLossy [0xCE, 0x91, 0xCE, 0xA3, 0xCE, 0x91]) = true := by decide

/-- `İ` (U+0130) is the one char whose lower-case form has two chars: `i̇` = U+0069 U+0307. -/
def dotMap : CaseMap := (CaseMap.ofTable [⟨0x130, [0x130], [0x69, 0x307], .cased⟩]).withAscii

/-- `affix_ci:D_starts_with_lower_expansion`. One char is compared with one char, so a char whose
    lower-case expansion has several chars only matches chars with that same expansion:
    `starts_with("i̇", "İ", case_sensitive: false)` is `false` although `downcase("İ") = "i̇"` is the
    value itself (`ends_with`/`contains`: `true`).  No `Σ`, valid UTF-8: by
    `starts_with_ci_sound_partial` the deviation is always a missed match. -/
theorem witness_starts_with_ci_expansion :
    startsWith dotMap (.bytes [0x69, 0xCC, 0x87]) (.bytes [0xC4, 0xB0]) (some (.bool false)) = .ok (.bool false) ∧
    endsWith dotMap (.bytes [0x69, 0xCC, 0x87]) (.bytes [0xC4, 0xB0]) (some (.bool false)) = .ok (.bool true) ∧
    contains dotMap (.bytes [0x69, 0xCC, 0x87]) (.bytes [0xC4, 0xB0]) (some (.bool false)) = .ok (.bool true) ∧
    downcase dotMap [0xC4, 0xB0] = [0x69, 0xCC, 0x87] ∧
    specStartsWith (downcaseCp dotMap (decodeLossy [0x69, 0xCC, 0x87]))
      (downcaseCp dotMap (decodeLossy [0xC4, 0xB0])) false = false ∧
    noSigma (decodeLossy [0x69, 0xCC, 0x87]) = true ∧ singleLower dotMap (decodeLossy [0xC4, 0xB0]) = false := by decide

/-- `affix_ci:D_starts_with_panic` (repaired): case-insensitive `starts_with` on a substring that
    is not UTF-8 (a lone continuation byte, a truncated multi-byte sequence) used to panic; it is
    now simply `false`. -/
theorem witness_starts_with_ci_panic :
    startsWith CaseMap.ascii (.bytes [0x41]) (.bytes [0x80]) (some (.bool false)) = .ok (.bool false) ∧
    startsWith CaseMap.ascii (.bytes [0x41, 0x42]) (.bytes [0xE2, 0x82]) (some (.bool false)) = .ok (.bool false) := by decide

/-- the casing laws are not vacuous beyond ASCII either: the observed table of `Ⱥ`/`ⱥ`. -/
example : upcaseCp strokeMap (strokeMap.toUpper 0x2C65) = strokeMap.toUpper 0x2C65 := by decide

/-- non-vacuity of `starts_with_spec_partial`: valid UTF-8 inputs exist (`"é"`, `"é"`). -/
example : isValid [0xC3, 0xA9] = true := by decide

/-- non-vacuity of `starts_with_ci_spec_partial` / `starts_with_ci_sound_partial`: the hypotheses
    hold for `"Ⱥb"` / `"ⱥB"` under the observed table of `Ⱥ`/`ⱥ` (ASCII from the model), and the
    conclusion is the non-trivial `true`. -/
example : AsciiLower strokeMap.withAscii := asciiLower_withAscii _
example :
    isValid [0xC8, 0xBA, 0x62] = true ∧ isValid [0xE2, 0xB1, 0xA5, 0x42] = true ∧
    simpleLower strokeMap.withAscii (decodeLossy [0xC8, 0xBA, 0x62]) = true ∧
    simpleLower strokeMap.withAscii (decodeLossy [0xE2, 0xB1, 0xA5, 0x42]) = true ∧
    startsWith strokeMap.withAscii (.bytes [0xC8, 0xBA, 0x62]) (.bytes [0xE2, 0xB1, 0xA5, 0x42]) (some (.bool false)) =
      .ok (.bool true) := by decide

/-- non-vacuity of `merge_spec` / `keys_values_length_spec`: a sorted object. -/
example : (VMap.cons [0x61] (.int 1) (.cons [0x62] (.obj (.cons [0x63] .null .nil)) .nil)).Sorted = true := by decide

/-- final sigma: `downcase("ΑΣ") = "ας"`, `downcase("ΑΣΑ") = "ασα"` with the observed classes. -/
example :
    let cm := CaseMap.ofTable [⟨0x391, [0x391], [0x3B1], .cased⟩, ⟨0x3A3, [0x3A3], [0x3C3], .cased⟩]
    downcaseCp cm [0x391, 0x3A3] = [0x3B1, 0x3C2] ∧ downcaseCp cm [0x391, 0x3A3, 0x391] = [0x3B1, 0x3C3, 0x3B1] := by
  decide

end C28
