import VrlModel.C28
namespace C28
end C28
