/-
  C28 — witnesses of the known findings (concrete inputs on which the faithful model violates the
  law; each is replayed on the real implementation by the check) and non-vacuity examples.
-/
import VrlProofs.Props.C28

namespace C28
open Str Coll

/-- `Ⱥ` (U+023A, 2 bytes) ↔ `ⱥ` (U+2C65, 3 bytes): the std tables restricted to these chars. -/
def strokeMap : CaseMap :=
  CaseMap.ofTable [⟨0x23A, [0x23A], [0x2C65], .cased⟩, ⟨0x2C65, [0x23A], [0x2C65], .cased⟩]

/-- `affix:D_starts_with_raw_bytes`. `starts_with` compares raw bytes, `ends_with`/`contains` the
    lossily decoded strings: for the one-char string `\xff` (decoded: U+FFFD) and the substring
    `"\u{fffd}"` the latter two say `true`, `starts_with` says `false`. -/
theorem witness_starts_with_raw :
    startsWith CaseMap.ascii (.bytes [0xFF]) (.bytes [0xEF, 0xBF, 0xBD]) none = .ok (.bool false) ∧
    endsWith CaseMap.ascii (.bytes [0xFF]) (.bytes [0xEF, 0xBF, 0xBD]) none = .ok (.bool true) ∧
    contains CaseMap.ascii (.bytes [0xFF]) (.bytes [0xEF, 0xBF, 0xBD]) none = .ok (.bool true) ∧
    specStartsWith (decodeLossy [0xFF]) (decodeLossy [0xEF, 0xBF, 0xBD]) false = false := by decide

/-- `affix_ci:D_starts_with_charwise` (byte-length pre-check): `starts_with("Ⱥ", "ⱥ",
    case_sensitive: false)` is `false` because `"ⱥ"` has more bytes than `"Ⱥ"`, although both
    lower-case to `"ⱥ"` (and `ends_with`/`contains` say `true`). -/
theorem witness_starts_with_ci_length :
    startsWith strokeMap (.bytes [0xC8, 0xBA]) (.bytes [0xE2, 0xB1, 0xA5]) (some (.bool false)) = .ok (.bool false) ∧
    endsWith strokeMap (.bytes [0xC8, 0xBA]) (.bytes [0xE2, 0xB1, 0xA5]) (some (.bool false)) = .ok (.bool true) ∧
    downcase strokeMap [0xC8, 0xBA] = downcase strokeMap [0xE2, 0xB1, 0xA5] := by decide

/-- `affix_ci:D_starts_with_charwise` (zip truncation): `starts_with("ⱥ", "Ⱥx", case_sensitive:
    false)` is `true`: the char iterators are zipped, so the comparison stops after the one char of
    `value`; `"ⱥ"` does not start with `"ⱥx"`. -/
theorem witness_starts_with_ci_zip :
    startsWith strokeMap (.bytes [0xE2, 0xB1, 0xA5]) (.bytes [0xC8, 0xBA, 0x78]) (some (.bool false)) = .ok (.bool true) ∧
    specStartsWith (downcaseCp strokeMap (decodeLossy [0xE2, 0xB1, 0xA5]))
      (downcaseCp strokeMap (decodeLossy [0xC8, 0xBA, 0x78])) true = false := by decide

/-- `affix_ci:D_starts_with_panic` (repaired): case-insensitive `starts_with` on a substring that
    is not UTF-8 (a lone continuation byte, a truncated multi-byte sequence) used to panic; it is
    now simply `false`. -/
theorem witness_starts_with_ci_panic :
    startsWith CaseMap.ascii (.bytes [0x41]) (.bytes [0x80]) (some (.bool false)) = .ok (.bool false) ∧
    startsWith CaseMap.ascii (.bytes [0x41, 0x42]) (.bytes [0xE2, 0x82]) (some (.bool false)) = .ok (.bool false) := by decide

/-- the casing laws are not vacuous beyond ASCII either: the observed table of `Ⱥ`/`ⱥ`. -/
example : upcaseCp strokeMap (strokeMap.toUpper 0x2C65) = strokeMap.toUpper 0x2C65 := by decide

/-- non-vacuity of `starts_with_spec_partial`: valid UTF-8 inputs exist (`"é"`, `"é"`). -/
example : isValid [0xC3, 0xA9] = true := by decide

/-- non-vacuity of `merge_spec` / `keys_values_length_spec`: a sorted object. -/
example : (VMap.cons [0x61] (.int 1) (.cons [0x62] (.obj (.cons [0x63] .null .nil)) .nil)).Sorted = true := by decide

/-- final sigma: `downcase("ΑΣ") = "ας"`, `downcase("ΑΣΑ") = "ασα"` with the observed classes. -/
example :
    let cm := CaseMap.ofTable [⟨0x391, [0x391], [0x3B1], .cased⟩, ⟨0x3A3, [0x3A3], [0x3C3], .cased⟩]
    downcaseCp cm [0x391, 0x3A3] = [0x3B1, 0x3C2] ∧ downcaseCp cm [0x391, 0x3A3, 0x391] = [0x3B1, 0x3C3, 0x3B1] := by
  decide

end C28
