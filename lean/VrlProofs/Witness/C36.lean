/-
  C36 — non-vacuity examples (no finding class: the behavioural check found no function outside
  `tzReaders` that depends on the configured zone, after the list was completed with
  `parse_linux_authorization`, which the check itself had reported).
-/
import VrlProofs.Props.C36

namespace C36
open Lang TzModel

/-- `length("a")` — a modelled program -/
def progLength : Exprs :=
  .cons (.call "length" 0 0 (.cons none (.lit (.bytes [97])) .nil) false [] .nil) .nil

/-- `parse_timestamp("…", "%F %T")` — calls a reader -/
def progParseTimestamp : Exprs :=
  .cons (.call "parse_timestamp" 0 0
    (.cons none (.lit (.bytes [50])) (.cons none (.lit (.bytes [37, 70])) .nil)) false [] .nil) .nil

/-- the hypothesis of `inModel_tzFree` is satisfiable … -/
theorem progLength_inModel : inModel progLength = true := by
  simp [inModel, progLength, callsEs, callsE, callsA, fnParams]

/-- … and its conclusion is not vacuous: a reader call is outside the fragment -/
theorem progParseTimestamp_not_tzFree : tzFree progParseTimestamp = false := by
  simp [tzFree, progParseTimestamp, callsEs, callsE, callsA, isTzReader, tzReaderNames, tzReaders]

/-- and the model refuses to evaluate it (`oom`) instead of ignoring the zone silently -/
theorem progParseTimestamp_oom (s : St) : ∃ s', (callFn "parse_timestamp" [] none s) = (.oom, s') :=
  ⟨s, reader_call_oom "parse_timestamp" (by simp [isTzReader, tzReaderNames, tzReaders]) [] none s⟩

/-- every listed reader except `get_timezone_name` documents when the zone is not consulted -/
theorem readers_documented :
    (tzReaders.filter (fun r => r.notConsultedWhen.isEmpty)).map (·.name) = ["get_timezone_name"] := by
  simp [tzReaders]

/-- `parse_timestamp` glue, non-vacuity: a zone-less format really uses the effective zone -/
example : Cnv.formatHasZone ['%', 'F', ' ', '%', 'T'] = false := by decide
example : Cnv.formatHasZone ['%', 'F', ' ', '%', 'T', ' ', '%', 'z'] = true := by decide

end C36
