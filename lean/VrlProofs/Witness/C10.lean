/-
  C10 — witnesses and non-vacuity examples.
  The full statement "integer equality is exact / exactly one of < == >" is FALSE of the pinned code
  (and of its model): `eq_lossy` compares two integers after `as f64`.  Finding class `D_eq_lossy`
  (VrlModel/C10.lean), replayed on the implementation by `o.c10` (corpus/C10/known.case).
-/
import VrlProofs.Props.C10

namespace C10
open Arith

/-- `9007199254740993 == 9007199254740992` is `true` while `>` is `true` as well:
    the pair is in the class, `==` is not exact, trichotomy fails. -/
theorem int_eq_lossy_witness :
    D_eq_lossy 9007199254740993 9007199254740992 = true ∧
    (observe (.int 9007199254740993) (.int 9007199254740992)).eq = some true ∧
    (observe (.int 9007199254740993) (.int 9007199254740992)).gt = some true ∧
    consistent (observe (.int 9007199254740993) (.int 9007199254740992)) = false ∧
    (observe (.int 9007199254740993) (.int 9007199254740992)).eq
      ≠ some (decide ((9007199254740993 : Int) = 9007199254740992)) := by
  decide

/-- the same pair under the candidate fix: exact and consistent. -/
theorem int_eq_fixed_witness :
    (observeFixed (.int 9007199254740993) (.int 9007199254740992)).eq = some false ∧
    consistent (observeFixed (.int 9007199254740993) (.int 9007199254740992)) = true := by
  decide

/-- the class is also inhabited at the edge of `i64`: `i64::MAX == i64::MAX - 1`. -/
theorem int_eq_lossy_witness_max :
    D_eq_lossy 9223372036854775807 9223372036854775806 = true ∧
    (observe (.int 9223372036854775807) (.int 9223372036854775806)).eq = some true := by
  decide

/-- quirk recorded with the model: inside containers integers ARE compared exactly
    (`[9007199254740993] == [9007199254740992]` is `false`), and `[1] == [1.0]` is `false`
    although `1 == 1.0` is `true`. -/
theorem container_int_exact_witness :
    eqLossy (.arr (.cons (.int 9007199254740993) .nil)) (.arr (.cons (.int 9007199254740992) .nil)) = false ∧
    eqLossy (.arr (.cons (.int 1) .nil)) (.arr (.cons (.float 4607182418800017408) .nil)) = false ∧
    eqLossy (.int 1) (.float 4607182418800017408) = true := by
  decide

/-! non-vacuity of the hypotheses used in Props/C10.lean -/

example : D_eq_lossy 5 7 = false ∧ D_eq_lossy (-9223372036854775808) 9223372036854775807 = false := by decide
example : floatOK 0 ∧ floatOK 9223372036854775808 ∧ floatOK 9218868437227405312 ∧ floatOK 1 := by decide
/-- `[0.0, {"k": -0.0}]` satisfies `floatsOK` and is a container -/
example : floatsOK (.arr (.cons (.float 0) (.cons (.obj (.cons [107] (.float 9223372036854775808) .nil)) .nil))) = true ∧
    isContainer (.arr .nil) = true := by decide
example : comparable (.int 1) (.float 0) = true ∧ comparable (.bytes [97]) (.bytes []) = true := by decide
/-- `[0.0] == [-0.0]` is structurally equal, `[1] == [2]` is not -/
example : structEq (.arr (.cons (.float 0) .nil)) (.arr (.cons (.float 9223372036854775808) .nil)) = true ∧
    structEq (.arr (.cons (.int 1) .nil)) (.arr (.cons (.int 2) .nil)) = false := by decide

end C10
