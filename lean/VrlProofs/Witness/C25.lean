/-
  C25 — witnesses of the known findings that lie inside the model, necessity of the hypotheses,
  and non-vacuity examples for the hypotheses of the property theorems.
-/
import VrlProofs.Props.C25

namespace C25
open Conv Conv.Flat

/-! #### flatten / unflatten -/

/-- `{"xa": {"y": 1}}` -/
def wOverlap : VMap := .cons [120, 97] (.obj (.cons [121] (.int 1) .nil)) .nil
/-- the separator `"aa"` -/
def sepAA : Key := [97, 97]

/-- D_sep_overlap: no key of `{"xa": {"y": 1}}` contains the separator `"aa"`, there is no empty
    container, and yet `unflatten(flatten(o, "aa"), "aa")` is `{"x": {"ay": 1}}`: the joined key
    `xaaay` splits at the first `aa`. The property as worded is false of the code (and of the
    model); the theorem needs `sepFree`. -/
theorem witness_sep_overlap :
    statedOKM sepAA wOverlap = true ∧ VMap.Sorted wOverlap = true ∧
    D_sep_overlapM sepAA wOverlap = true ∧ flatOKM sepAA wOverlap = false ∧
    (flatten (.obj wOverlap) (.bytes sepAA) []).bind (fun f => unflatten f (.bytes sepAA) (.bool true))
      = .ok (.obj (.cons [120] (.obj (.cons [97, 121] (.int 1) .nil)) .nil)) ∧
    specFlatten sepAA wOverlap
      ((flatten (.obj wOverlap) (.bytes sepAA) []).bind fun f => unflatten f (.bytes sepAA) (.bool true))
      = false := by
  decide

/-- necessity of "no empty nested object": `{"a": {}}` flattens to `{}`. -/
theorem witness_empty_object_lost :
    (flatten (.obj (.cons [97] (.obj .nil) .nil)) (.bytes [46]) []).bind
      (fun f => unflatten f (.bytes [46]) (.bool true)) = .ok (.obj .nil) := by
  decide

/-- necessity of "keys without separator": `{"a.b": 1}` comes back as `{"a": {"b": 1}}`. -/
theorem witness_key_with_separator :
    (flatten (.obj (.cons [97, 46, 98] (.int 1) .nil)) (.bytes [46]) []).bind
      (fun f => unflatten f (.bytes [46]) (.bool true))
      = .ok (.obj (.cons [97] (.obj (.cons [98] (.int 1) .nil)) .nil)) := by
  decide

/-- `{"a": {"0": [ {"x.y": {}}, [] ], "b": 1}, "c": []}` -/
def wNested : VMap :=
  .cons [97] (.obj (.cons [48] (.arr (.cons (.obj (.cons [120, 46, 121] (.obj .nil) .nil)) (.cons (.arr .nil) .nil)))
    (.cons [98] (.int 1) .nil)))
  (.cons [99] (.arr .nil) .nil)

/-- non-vacuity of `unflatten_flatten`, and a case outside the worded domain that the theorem
    covers: arrays (even empty, even holding empty objects and keys with separators) are opaque;
    integer-looking keys stay object keys. -/
example : flatOKM [46] wNested = true ∧ Utf8.fixed [46] = true ∧ statedOKM [46] wNested = false ∧
    (flatten (.obj wNested) (.bytes [46]) []).bind (fun f => unflatten f (.bytes [46]) (.bool true))
      = .ok (.obj wNested) := by decide

/-- the fix-point direction is not claimed: the depth bound of the model is exhausted (`.panic`,
    the stack overflow of the real function) for the empty separator with two entries. -/
theorem witness_empty_separator_overflow :
    unflatten (.obj (.cons [97] (.int 1) (.cons [98] (.int 2) .nil))) (.bytes []) (.bool true)
      = .err := by decide

/-! #### format_int / parse_int -/

example : intDomain (-255) 16 = true ∧ (-255 : Int) ≠ i64Min := by decide

example : formatInt (.int (-255)) (.int 16) = .ok (.bytes [45, 102, 102]) ∧
    parseInt (.bytes [45, 102, 102]) (some (.int 16)) = .ok (.int (-255)) := by decide

/-- `parse_int` without a base: a leading `0` alone selects octal (`"09"` is an error),
    and the text after a prefix may carry a sign (`"0x-5"` is `-5`). -/
theorem witness_parse_int_prefix_quirks :
    parseInt (.bytes [48, 57]) none = .err ∧ parseInt (.bytes [48, 49, 55]) none = .ok (.int 15) ∧
    parseInt (.bytes [48, 120, 45, 53]) none = .ok (.int (-5)) := by decide

/-! #### to_entries / from_entries -/

example : entriesDomain (.cons [97] (.int 1) (.cons [195, 169] (.arr .nil) .nil)) = true := by decide

/-! #### IP -/

/-- non-vacuity of the IPv6 law: the transcription of std satisfies it on `::ffff:1.2.3.4`,
    `2001:db8::1` and `::` (the correspondence run samples it on the real std). -/
example : v6ok Ip.V6Text.std (Ip.mapped [1, 2, 3, 4]) = true ∧
    v6ok Ip.V6Text.std [8193, 3512, 0, 0, 0, 0, 0, 1] = true ∧
    v6ok Ip.V6Text.std [0, 0, 0, 0, 0, 0, 0, 0] = true := by decide

example : Ip.ipNtoa (.int 3232235777) = .ok (.bytes [49, 57, 50, 46, 49, 54, 56, 46, 49, 46, 49]) := by
  decide

/-! #### unix timestamps -/

/-- what a coarser unit loses: 1.5 s comes back as 1 s; −1.5 s comes back as −2 s (floor). -/
theorem witness_unix_floor :
    (Time.toUnix .seconds (.ts 1500000000)).bind (Time.fromUnix .seconds) = .ok (.ts 1000000000) ∧
    (Time.toUnix .seconds (.ts (-1500000000))).bind (Time.fromUnix .seconds) = .ok (.ts (-2000000000)) := by
  decide

/-- in-range timestamps beyond ±292 years have no nanosecond count: an error, not a wrap. -/
theorem witness_unix_nanos_range :
    Time.tsInRange 9223372036854775808 = true ∧
    Time.toUnix .nanoseconds (.ts 9223372036854775808) = .err := by decide

example : Time.tsInRange Time.tsMax = true ∧ Time.tsInRange (Time.tsMax + 1) = false ∧
    Time.fromUnix .seconds (.int Time.maxSecs) = .ok (.ts (Time.maxSecs * 1000000000)) ∧
    Time.fromUnix .seconds (.int (Time.maxSecs + 1)) = .err := by decide

/-! #### format_timestamp / parse_timestamp -/

/-- a toy instance of the chrono parameter (decimal-free: the text *is* a fixed marker and the
    parser returns the instant it was built for) showing that the hypotheses of
    `parse_format_timestamp` are satisfiable. -/
def toyChrono (t : Int) : Time.Chrono where
  validFormat := fun _ => true
  tzByName := fun n => if n = [85, 84, 67] then some 0 else none
  format := fun _ _ _ => some [116]
  parseFixed := fun s _ => if s = [116] then some (t / 1000000000, (t % 1000000000).toNat) else none
  parseIn := fun _ _ _ => none

example : tsLaw (toyChrono (-1500000000)) (.named 0) (-1500000000) [37, 43] = true ∧
    Time.formatHasZone [37, 43] = true ∧
    zoneOfArg (toyChrono (-1500000000)) (some (.bytes [85, 84, 67])) = some (.named 0) ∧
    tzAccepted (toyChrono (-1500000000)) none = true := by decide

/-- FIXED (/repo 83f4a4b): the glue used to panic (`datetime_to_utc`: `expect("invalid timestamp")`)
    when chrono hands back a leap-second representation that is not on second 59 of a UTC minute —
    reachable with a zone whose offset is not a whole number of minutes:
    `parse_timestamp!("1880-01-01 00:00:60", "%Y-%m-%d %H:%M:%S", timezone: "America/New_York")`.
    It now returns the instant (reply of the implementation: `ts:-2840122978000000000`). -/
theorem fixed_leap_second : Time.datetimeToUtc (-2840122979, 1000000000) = .ok (.ts (-2840122978000000000)) := by
  decide

/-- `datetime_to_utc` has no panicking outcome any more -/
theorem datetimeToUtc_never_panics (p : Int × Nat) : Time.datetimeToUtc p ≠ .panic := by
  simp [Time.datetimeToUtc]

end C25
