/-
  C27 — non-vacuity of the hypotheses used by the property theorems, and concrete instances that
  exercise the dispatch/encoding glue end to end inside the kernel. (C27 has no known findings, so
  there are no counterexample witnesses.)
-/
import VrlProofs.Props.C27

namespace C27
open Hash Hash.Vrl

/-- the hypotheses of `hmac_eq_rfc2104` hold for the five hash functions vrl offers
    (digest length `n` for every input, `n ≤ B`). -/
theorem hmac_hypotheses_hold :
    (∀ x, (SHA.SHA1.digest x).length = 20) ∧ (∀ x, (SHA.sha224 x).length = 28) ∧
    (∀ x, (SHA.sha256 x).length = 32) ∧ (∀ x, (SHA.sha384 x).length = 48) ∧
    (∀ x, (SHA.sha512 x).length = 64) ∧ 20 ≤ 64 ∧ 28 ≤ 64 ∧ 32 ≤ 64 ∧ 48 ≤ 128 ∧ 64 ≤ 128 :=
  ⟨fun x => (digest_lengths x).2.1, fun x => (digest_lengths x).2.2.1,
   fun x => (digest_lengths x).2.2.2.1, fun x => (digest_lengths x).2.2.2.2.1,
   fun x => (digest_lengths x).2.2.2.2.2.1, by decide, by decide, by decide, by decide, by decide⟩

/-- the hypotheses of `crc_lt` (parameters fit the width) hold for every row of the table – this
    is `crc_rows_wellformed`; and the table is not empty (112 rows). -/
theorem crc_table_size : CRC.table.length = 112 := by decide +kernel

/-- the byte-range hypothesis of `hex_encoding` holds for every digest (shown for MD5; all
    digests are built by `toLE`/`toBE`, whose elements are `< 256`: `toLE_lt`, `toBE_lt`). -/
theorem md5_digest_bytes (m : Bytes) : ∀ x ∈ MD5.digest m, x < 256 := by
  intro x hx
  simp only [MD5.digest, List.mem_append] at hx
  rcases hx with ((h | h) | h) | h <;> exact toLE_lt 4 _ x h

/-- `hmac_key_zero_extension` / `hmac_long_key`: their hypotheses are satisfiable
    (`"key"` with 3 zero bytes under B = 64; a 131-byte key with SHA-256, whose digest has 32 ≤ 64
    bytes). -/
example : (toBE 3 0x6b6579).length + 3 ≤ (⟨64, SHA.sha256⟩ : HMAC.HashFn).blockBytes := by
  decide +kernel
example : (⟨64, SHA.sha256⟩ : HMAC.HashFn).blockBytes < (List.replicate 131 0xaa).length ∧
    ((⟨64, SHA.sha256⟩ : HMAC.HashFn).hash (List.replicate 131 0xaa)).length ≤ 64 :=
  ⟨by decide +kernel, by rw [show (⟨64, SHA.sha256⟩ : HMAC.HashFn).hash = SHA.sha256 from rfl,
    (digest_lengths _).2.2.2.1]; decide⟩

def resBytes : Res → Option Bytes
  | .ok (.bytes b) => some b
  | _ => none

def resInt : Res → Option Int
  | .ok (.int i) => some i
  | _ => none

/-- the vrl documentation examples, end to end through dispatch and encoding, in the kernel:
    `md5("foo")` = "acbd18db4cc2f85cedef654fccc4a4d8", `crc("foo")` = "2356372769",
    `crc("foo", algorithm: "CRC_32_CKSUM")` = "4271552933", `seahash("bar")` (a negative result),
    `xxhash("foo", "XXH3-64")` (negative). -/
theorem vrl_doc_examples :
    resBytes (md5 (toBE 3 0x666f6f))
      = some (toBE 32 0x6163626431386462346363326638356365646566363534666363633461346438) ∧
    resBytes (crc none (toBE 3 0x666f6f)) = some (toBE 10 0x32333536333732373639) ∧
    resBytes (crc (some "CRC_32_CKSUM") (toBE 3 0x666f6f)) = some (toBE 10 0x34323731353532393333) ∧
    resInt (seahash (toBE 3 0x626172)) = some (-2796170501982571315) ∧
    resInt (xxhash (some "XXH3-64") (toBE 3 0x666f6f)) = some (-6093828362558603894) := by
  decide +kernel

end C27
