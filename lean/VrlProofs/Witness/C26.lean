/-
  C26 — witnesses: one concrete value per finding class on which the round trip through the two
  case tables is *not* `dropDefaults` (so the hypothesis `Shaped` of the `_partial` theorems cannot
  be dropped), non-vacuity examples, and what exactly a `float` field loses.
  Every witness is replayed on the real `encode_proto` / `parse_proto` by corpus/C26/known.case.
-/
import VrlProofs.Props.C26

namespace C26
open Proto

/-- no float parsing / printing needed by the witnesses -/
def noPrims : Prims := ⟨fun _ => none, fun _ => none, fun _ => [], fun _ => []⟩

/-- enum `E { A = 0; B = 1; }` -/
def enumE : EnumDesc := ⟨[([65], 0), ([66], 1)], 0⟩

/-- proto3 message `W { double d = 1; float f = 2; string s = 3; int32 i = 4; E e = 5;
    map<int32, string> m = 6; repeated int64 r = 7; uint64 u = 8; W n = 9; optional int32 o = 10; }` -/
def msgW : MsgDesc :=
  ⟨[⟨[100], 1, .scalar .double, .singular⟩, ⟨[102], 2, .scalar .float, .singular⟩,
    ⟨[115], 3, .scalar .string, .singular⟩, ⟨[105], 4, .scalar .int32, .singular⟩,
    ⟨[101], 5, .enum 0, .singular⟩, ⟨[109], 6, .scalar .string, .map .int32⟩,
    ⟨[114], 7, .scalar .int64, .repeated⟩, ⟨[117], 8, .scalar .uint64, .singular⟩,
    ⟨[110], 9, .message 0, .optional⟩, ⟨[111], 10, .scalar .int32, .optional⟩], false⟩

def poolW : Pool := ⟨[msgW], [enumE]⟩

/-- `proto_to_value(encode_message(v))` -/
def tablesRT (v : Value) : Option Value := (fromValue noPrims true poolW 0 v).bind (toValueMsg poolW 0)

/-- the same through the wire normalisation -/
def wireRT (v : Value) : Option Value :=
  (fromValue noPrims true poolW 0 v).bind fun fs => toValueMsg poolW 0 (normFields poolW true msgW.fields fs)

def obj1 (k : Nat) (x : Value) : Value := .obj (.cons [k] x .nil)

theorem poolW_ok : poolW.Ok = true := by decide

/-- 0.1 in a `float` field comes back as 0.100000001490116… -/
theorem witness_f32 :
    defectMsg poolW 0 (obj1 102 (.float 0x3fb999999999999a)) = some .f32 ∧
    tablesRT (obj1 102 (.float 0x3fb999999999999a)) = some (obj1 102 (.float 0x3fb99999a0000000)) := by
  decide

/-- `-0.0` in a double field without presence is taken for the default and not sent -/
theorem witness_negzero :
    defectMsg poolW 0 (obj1 100 (.float 0x8000000000000000)) = some .negZero ∧
    tablesRT (obj1 100 (.float 0x8000000000000000)) = some (.obj .nil) ∧
    dropDefaultsMsg poolW 0 (obj1 100 (.float 0x8000000000000000)) = obj1 100 (.float 0x8000000000000000) := by
  decide

/-- bytes that are not UTF-8 in a `string` field come back with U+FFFD -/
theorem witness_utf8 :
    defectMsg poolW 0 (obj1 115 (.bytes [255])) = some .utf8 ∧
    tablesRT (obj1 115 (.bytes [255])) = some (obj1 115 (.bytes [239, 191, 189])) := by
  decide

/-- no range check: 2^32+1 in an `int32` field is accepted and comes back as 1 -/
theorem witness_range :
    defectMsg poolW 0 (obj1 105 (.int 4294967297)) = some .range ∧
    tablesRT (obj1 105 (.int 4294967297)) = some (obj1 105 (.int 1)) := by
  decide

/-- enum names are matched ignoring ASCII case and come back canonical -/
theorem witness_enum_name :
    defectMsg poolW 0 (obj1 101 (.bytes [98])) = some .enumName ∧
    tablesRT (obj1 101 (.bytes [98])) = some (obj1 101 (.bytes [66])) := by
  decide

/-- an integer is accepted for an enum field whatever its value; an unknown number makes
    `parse_proto` fail on the payload `encode_proto` produced -/
theorem witness_enum_number :
    defectMsg poolW 0 (obj1 101 (.int 7)) = some .kind ∧
    (fromValue noPrims true poolW 0 (obj1 101 (.int 7))).isSome = true ∧
    tablesRT (obj1 101 (.int 7)) = none := by
  decide

/-- map keys are parsed as numbers: `"01"` comes back as `"1"` -/
theorem witness_map_key :
    defectMsg poolW 0 (obj1 109 (.obj (.cons [48, 49] (.bytes [120]) .nil))) = some .mapKey ∧
    tablesRT (obj1 109 (.obj (.cons [48, 49] (.bytes [120]) .nil))) =
      some (obj1 109 (.obj (.cons [49] (.bytes [120]) .nil))) := by
  decide

/-- lossy string coercion (by design, `allow_lossy_string_coercion`): the integer 5 in a `string`
    field comes back as the text "5" -/
theorem witness_kind :
    defectMsg poolW 0 (obj1 115 (.int 5)) = some .kind ∧
    tablesRT (obj1 115 (.int 5)) = some (obj1 115 (.bytes [53])) := by
  decide

/-- a single value is accepted for a repeated field; on the wire it is one element -/
theorem witness_bare_repeated :
    defectMsg poolW 0 (obj1 114 (.int 5)) = some .kind ∧
    wireRT (obj1 114 (.int 5)) = some (obj1 114 (.arr (.cons (.int 5) .nil))) := by
  decide

/-- `null` is treated as absent -/
theorem witness_null :
    defectMsg poolW 0 (obj1 105 .null) = some .nullField ∧ tablesRT (obj1 105 .null) = some (.obj .nil) := by
  decide

/-- keys that are not fields of the message are ignored silently -/
theorem witness_unknown_field :
    defectMsg poolW 0 (obj1 122 (.int 1)) = some .unknownField ∧
    tablesRT (obj1 122 (.int 1)) = some (.obj .nil) := by
  decide

/-- parse direction: a `uint64` above `i64::MAX` is read as a negative integer -/
theorem witness_u64_parse :
    toValue poolW none (.u64 18446744073709551615) = some (.int (-1)) := by
  decide

/-! ### non-vacuity -/

/-- every field at its default, plus an explicit-presence field at zero and an empty nested message -/
def allDefaults : Value :=
  .obj (.cons [101] (.bytes [65]) (.cons [105] (.int 0) (.cons [109] (.obj .nil) (.cons [110] (.obj .nil)
    (.cons [111] (.int 0) (.cons [114] (.arr .nil) (.cons [115] (.bytes []) .nil)))))))

/-- exactly the defaults are dropped: the optional field and the empty nested message stay -/
example : Shaped poolW 0 allDefaults = true ∧ allDefaults.Sorted = true ∧
    dropDefaultsMsg poolW 0 allDefaults = .obj (.cons [110] (.obj .nil) (.cons [111] (.int 0) .nil)) ∧
    tablesRT allDefaults = some (dropDefaultsMsg poolW 0 allDefaults) := by
  decide

/-- a shaped value with a nested message, a map, a repeated field, an enum, floats and a string -/
def sample : Value :=
  .obj (.cons [100] (.float 0x3ff8000000000000) (.cons [101] (.bytes [66]) (.cons [102] (.float 0x3fb99999a0000000)
    (.cons [109] (.obj (.cons [45, 55] (.bytes [120]) (.cons [49] (.bytes []) .nil)))
    (.cons [110] (obj1 117 (.int 9223372036854775807)) (.cons [114] (.arr (.cons (.int 0) (.cons (.int (-1)) .nil)))
    (.cons [115] (.bytes [195, 169]) .nil)))))))

example : Shaped poolW 0 sample = true ∧ sample.Sorted = true ∧ tablesRT sample = some sample ∧
    wireRT sample = some sample := by
  decide

/-- a codec satisfying the law exists (the payload is the normalised message itself) -/
def trivialCodec (pool : Pool) : WireCodec pool where
  Wire := PFields
  encode r fs :=
    match pool.msg r with
    | some md => normFields pool true md.fields fs
    | none => fs
  decode _ w := some w
  law r fs md h := by simp [h]

example : (encodeProto noPrims poolW (trivialCodec poolW) 0 sample).bind (parseProto poolW (trivialCodec poolW) 0) =
    some sample := by
  decide

end C26
