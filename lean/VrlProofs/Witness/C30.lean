/-
  C30 — witnesses: the unrestricted round-trip property is false of the code (and of its model).
  One query per finding class; every one is replayed on the real implementation by `o.c30`
  (corpus/C30/known.case).  `F` is the reference float library (`FloatLib.ref`).
  `fails q d` = the parser accepts `q`, the tree it builds has defect `d`, and printing that tree and
  parsing the text again does *not* give the tree back.
-/
import VrlProofs.Props.C30

namespace C30
open Search

def Fr : FloatLib := FloatLib.ref

/-- the round trip of the accepted query `q` fails, and `d` is the defect of its tree -/
def fails (q : Str) (d : Defect) : Bool :=
  match parse Fr q with
  | .ok t => decide (rootDefect Fr t = some d) && decide (parse Fr (t.toLucene Fr) ≠ .ok t)
  | _ => false

/-- the printed form of the hand-built tree `t` does not parse back to `t`, and `d` is its defect -/
def failsTree (t : QNode) (d : Defect) : Bool :=
  decide (rootDefect Fr t = some d) && decide (parse Fr (t.toLucene Fr) ≠ .ok t)

/-- D_space_in_term: `f:a\ b` prints as `f:a b` (`lucene_escape` does not escape the space) -/
theorem witness_space_in_term : fails "f:a\\ b".toList .spaceInTerm = true := by decide +kernel

/-- D_space_in_term, multi-term default: `a b c:d` prints as `a b AND c:d`, re-split into three clauses -/
theorem witness_multiterm_resplit : fails "a b c:d".toList .spaceInTerm = true := by decide +kernel

/-- D_attr_unescaped: `_missing_:"a b"` prints as `_missing_:a b` -/
theorem witness_attr_unescaped : fails "_missing_:\"a b\"".toList .attrUnescaped = true := by decide +kernel

/-- D_attr_reserved: `\_exists_:a` is a term on the attribute `_exists_`; printed `_exists_:a` it is an
    existence test -/
theorem witness_attr_reserved : fails "\\_exists_:a".toList .attrReserved = true := by decide +kernel

/-- D_wildcard_raw: `f:a\:b*c` prints the wildcard raw as `f:a:b*c`, which is rejected -/
theorem witness_wildcard_raw : fails "f:a\\:b*c".toList .wildcardRaw = true := by decide +kernel

/-- D_wildcard_reparsed: `_default_:a?b` prints as `a?b`, read as the term `a` and the wildcard `?b` -/
theorem witness_wildcard_reparsed : fails "_default_:a?b".toList .wildcardReparsed = true := by decide +kernel

/-- D_keyword_prefix: `\ANDROID` prints as `ANDROID`, which is not a `TERM` (it starts with `AND`) -/
theorem witness_keyword_prefix : fails "\\ANDROID".toList .keywordPrefix = true := by decide +kernel

/-- D_number_text: `f:>1.0` prints as `f:>1` (an integer) -/
theorem witness_number_text : fails "f:>1.0".toList .numberText = true := by decide +kernel

/-- D_cmp_string_numeric: `f:>\5x` has the string operand `5x`; printed `f:>5x` it is `>5` and `x` -/
theorem witness_cmp_string_numeric : fails "f:>\\5x".toList .cmpStringNumeric = true := by decide +kernel

/-- D_range_string: a range bound that keeps its quotes prints escaped and loses them on re-parse -/
theorem witness_range_string : fails "f:[\"\\\"a\\\"\" TO c]".toList .rangeString = true := by decide +kernel

/-- D_empty_string: `_exists_:""` prints as `_exists_:` -/
theorem witness_empty_string : fails "_exists_:\"\"".toList .emptyString = true := by decide +kernel

/-- D_none_nested: `a (-*:*)` prints as `a AND -*:*`, read as `a AND NOT *:*` -/
theorem witness_none_nested : fails "a (-*:*)".toList .noneNested = true := by decide +kernel

/-- D_not_not_in_and: `-(-a) b` prints as `NOT NOT a AND b` -/
theorem witness_not_not_in_and : fails "-(-a) b".toList .notNotInAnd = true := by decide +kernel

/-- D_blank_query: `(\u{a0})` is a term made of a no-break space (not WHITESPACE for the grammar, white
    space for `str::trim`); printed alone it is a blank query, i.e. `MatchAllDocs` -/
theorem witness_blank_query : fails ['(', '\u00a0', ')'] .blankQuery = true := by decide +kernel

/-- D_space_in_term, ideographic space: since /repo 083e896 U+3000 cannot appear unescaped in a term;
    `a\\u{3000}b` (escaped) is accepted, `lucene_escape` prints the U+3000 raw, and the text is rejected -/
theorem witness_ideographic_space : fails ['a', '\\', '\u3000', 'b'] .spaceInTerm = true := by decide +kernel

/-- shapes only a hand-built tree can have -/
theorem witness_cmp_unbounded :
    failsTree (.leaf (.comparison ['f'] .gt .unbounded)) .cmpUnbounded = true := by decide +kernel
theorem witness_not_all : failsTree (.neg (.leaf .matchAll)) .notAll = true := by decide +kernel
theorem witness_small_boolean :
    failsTree (.bool .and (.cons (.leaf (.term ['f'] ['a'])) .nil)) .smallBoolean = true := by decide +kernel

/-! ### repaired in /repo -/

/-- the accepted query `q` parses to `t`, `t` is in normal form and comes back from its printed text -/
def roundTripsTo (q : Str) (t : QNode) : Bool :=
  decide (parse Fr q = .ok t) && NFRoot Fr t && decide (parse Fr (t.toLucene Fr) = .ok t)

/-- fixed (21ebbb7): a range with brackets of two kinds used to panic in `visit_clause`; it now parses
    to a range whose bounds are inclusive / exclusive independently, is in normal form and round-trips -/
theorem fixed_range_mixed :
    roundTripsTo "f:[1 TO 2}".toList (.leaf (.range ['f'] (.int 1) true (.int 2) false)) = true ∧
    roundTripsTo "f:{a TO *]".toList (.leaf (.range ['f'] (.str ['a']) false .unbounded true)) = true := by
  decide +kernel

/-- fixed (083e896): the text "UNICODE3000" is an ordinary part of a term -/
theorem fixed_unicode3000 :
    roundTripsTo "a\\UNICODE3000".toList (.leaf (.term defaultField "aUNICODE3000".toList)) = true ∧
    roundTripsTo "UNICODE3000x".toList (.leaf (.term defaultField "UNICODE3000x".toList)) = true := by
  decide +kernel

/-- … and U+3000 cannot start a term any more (it is still not WHITESPACE: the query is rejected) -/
theorem fixed_ideographic_start : parse Fr ['\u3000', 'a'] = .err := by decide +kernel

/-- non-vacuity of `roundtrip_partial`: a query with a tag term, an escaped term, a phrase, a prefix,
    a wildcard, a float comparison, a range, negation, `AND`/`OR` nesting — accepted, in normal form,
    and round-tripping (by the theorem and by evaluation). -/
example :
    let q := "service:web AND (@a.b:x\\:y OR NOT \"foo bar\") AND k:p* AND w:a*b? AND @n:>=1.5 AND @m:[1 TO *]".toList
    (match parse Fr q with
     | .ok t => NFRoot Fr t && decide (parse Fr (t.toLucene Fr) = .ok t)
     | _ => false) = true := by decide +kernel

end C30
