/-
  C32 — witnesses of the finding classes and non-vacuity examples of the theorems' hypotheses.
-/
import VrlProofs.Props.C32

namespace C32
open Grok Rx

/-- primitives that decline everything: enough wherever no float literal / case mapping occurs. -/
def P0 : Prims := ⟨fun _ => none, fun _ => none, fun _ => none⟩

/-! ### finding `capture:D_name_order` -/

/-- with twelve captures the `BTreeMap` order of the generated names is not the rule order:
    `grok10` and `grok11` come before `grok2`. -/
theorem witness_name_order :
    (patternNames [] ((List.range 12).map grokName)).map Prod.fst
      = [0, 1, 10, 11, 2, 3, 4, 5, 6, 7, 8, 9].map grokName := by decide

/-- … and on the whole model (reference engine): twelve captures `%{d:x}` of one character each on
    `0123456789ab` collect `x = [0, 1, a, b, 2, …, 9]`, whereas the Spec (`expected`, rule order)
    is `[0, 1, 2, …, 9, a, b]`. -/
def rule12 : Str :=
  cs!"%{d:x}%{d:x}%{d:x}%{d:x}%{d:x}%{d:x}%{d:x}%{d:x}%{d:x}%{d:x}%{d:x}%{d:x}"
def aliasesD : List (Str × Str) := [(cs!"d", cs!"[0-9a-z]")]

def bytesOfChar (c : Char) : Value := .bytes [c.toNat]
def arrOf (cs : Str) : VList := cs.foldr (fun c acc => .cons (bytesOfChar c) acc) .nil

set_option maxRecDepth 100000 in
theorem witness_name_order_model :
    (match compileRule P0 Rx.refEngine [] aliasesD rule12 with
     | .ok r => applyRule P0 Rx.refEngine r cs!"0123456789ab"
     | _ => .oom)
      = .ok (.matched (.obj (.cons [120] (.arr (arrOf cs!"01ab23456789")) .nil)) 0) := by
  decide +kernel

/-! ### finding `anchor:D_unguarded_alt` -/

/-- the rule `a|b` matches `ax`: the alternation splits `\A` from `\z`. -/
theorem witness_unguarded_alt :
    (match compileRule P0 Rx.refEngine [] [] cs!"a|b" with
     | .ok r => applyRule P0 Rx.refEngine r cs!"ax"
     | _ => .oom) = .ok (.matched (.obj .nil) 0)
    ∧ D_unguarded_alt [] [.text cs!"a|b"] = true := by
  decide

/-- the same through an alias used without a destination: `x%{ab}y` with `ab = a|b` matches `xa`,
    whereas the grouped ("corresponding") expression `\A(?:x(?:a|b)y)\z` does not. -/
theorem witness_unguarded_alt_alias :
    (match compileRule P0 Rx.refEngine [] [(cs!"ab", cs!"a|b")] cs!"x%{ab}y" with
     | .ok r => applyRule P0 Rx.refEngine r cs!"xa"
     | _ => .oom) = .ok (.matched (.obj .nil) 0)
    ∧ (match Rx.parse (groupedSource [(cs!"ab", cs!"a|b")] [.text cs!"x", .ph cs!"ab" none, .text cs!"y"]) with
       | .ok re => (Rx.search re cs!"xa").isSome
       | .error _ => true) = false := by
  decide

/-! ### fixed finding `filter:D_scale_nan_panic` (now `FailedToApplyFilter`) -/

/-- `scale` fails (it used to panic) whenever the captured text parses to NaN. -/
theorem fixed_scale_nan (P : Prims) (s : Str) (x k : Nat) (hp : P.parseF64 s = some (some x))
    (hx : F64.isNaN x = true) : applyFilter P (.str s) (.scale k) = .failed := by
  simp only [applyFilter, hp, hx, ↓reduceIte, scaleBy]

/-- … and whenever the product is NaN: `inf` scaled by 0. -/
theorem fixed_scale_inf_zero (P : Prims) (s : Str)
    (hp : P.parseF64 s = some (some F64.infBits)) : applyFilter P (.str s) (.scale 0) = .failed := by
  have : F64.isNaN F64.infBits = false := by decide
  simp only [applyFilter, hp, this]
  decide

/-- no filter of the model panics any more. -/
theorem scaleBy_no_panic (k : Nat) (x : Option Nat) : scaleBy k x ≠ .panic := by
  simp only [scaleBy]
  cases x <;> cases ((F64.mul k f64_1000).bind fun y => F64.div y f64_1000) <;> simp
  split <;> simp

theorem applyFilter_no_panic (P : Prims) (v : SV) (f : Filter) : applyFilter P v f ≠ .panic := by
  unfold applyFilter
  repeat' split
  all_goals first | exact scaleBy_no_panic _ _ | simp

/-! ### fixed finding `compile:D_nullif_noargs_panic` (now `InvalidFunctionArguments`) -/

theorem fixed_nullif_noargs :
    ruleSource P0 [(cs!"d", cs!"[a-z]+")] cs!"%{d:x:nullIf()}" = .err .invalidArgs := by decide

/-! ### non-vacuity -/

/-- a flat rule in concrete syntax, its reading, and the source `flat_rule_source` gives. -/
def aliasesDW : List (Str × Str) := [(cs!"d", cs!"[0-9]+"), (cs!"w", cs!"[a-z]+")]
def ruleDW : Str := cs!"a\\.%{d:n:integer}-%{w}=%{w:s}"

example : ReadsAs P0 aliasesDW ruleDW
    [.text cs!"a\\.", .cap cs!"[0-9]+" [cs!"n"] [.integer], .text cs!"-", .ref cs!"[a-z]+", .text cs!"=",
     .cap cs!"[a-z]+" [cs!"s"] [], .text []] := by
  have hseg : seg ruleDW = [.text cs!"a\\.", .ph cs!"%{d:n:integer}", .text cs!"-", .ph cs!"%{w}",
      .text cs!"=", .ph cs!"%{w:s}", .text []] := by decide
  unfold ReadsAs
  rw [hseg]
  refine .cons (.text _) (.cons (.capF (fn := ⟨cs!"d", none⟩) (f := ⟨cs!"integer", none⟩) ?_ ?_ ?_ ?_)
    (.cons (.text _) (.cons (.ref (fn := ⟨cs!"w", none⟩) ?_ ?_ ?_) (.cons (.text _)
    (.cons (.cap (fn := ⟨cs!"w", none⟩) ?_ ?_ ?_) (.cons (.text _) .nil))))))
  all_goals first | rfl | decide

example : ruleSource P0 aliasesDW ruleDW
    = .ok (cs!"(?m)\\Aa\\.(?<grok0>[0-9]+)-[a-z]+=(?<grok1>[a-z]+)\\z",
           [(0, ⟨[cs!"n"], [.integer]⟩), (1, ⟨[cs!"s"], []⟩)]) := by decide

/-- the hypotheses of `flat_rule_captures` hold together on this rule for the reference engine (group
    names in order, numbered fields), and the match result is the Spec's object. -/
example : (match compileRule P0 Rx.refEngine [] aliasesDW ruleDW with
     | .ok r => (r.names, r.fields.length, applyRule P0 Rx.refEngine r cs!"a.12-xy=z")
     | _ => ([], 0, .oom))
    = (patternNames [] ((List.range 2).map grokName), 2,
       .ok (.matched (.obj (.cons [110] (.int 12) (.cons [115] (.bytes [122]) .nil))) 0)) := by
  decide +kernel

/-- a cyclic definition set: rejected, and the reported alias is the first of the walk. -/
example : ruleSource P0 [(cs!"a", cs!"%{b}"), (cs!"b", cs!"x%{c}"), (cs!"c", cs!"%{b}")] cs!"%{a}"
    = .err (.circular cs!"a") := by decide

example : cycleReachable P0 [(cs!"a", cs!"%{b}"), (cs!"b", cs!"x%{c}"), (cs!"c", cs!"%{b}")] cs!"%{a}" = true := by
  decide

/-- an acyclic (shared, diamond-shaped) definition set is accepted. -/
example : ruleSource P0 [(cs!"a", cs!"%{b}%{c}"), (cs!"b", cs!"%{c}"), (cs!"c", cs!"z")] cs!"%{a}-%{c}"
    = .ok (cs!"(?m)\\Azz-z\\z", []) := by decide

/-- the literal theorem on a text made of metacharacters only. -/
example : ∃ r, compileRule P0 Rx.refEngine [] [] (esc cs!".*+?()[]{}^$|\\/") = .ok r ∧
    applyRule P0 Rx.refEngine r cs!".*+?()[]{}^$|\\/" = .ok (.matched (.obj .nil) 0) := by
  have := literal_rule_ref P0 [] [] cs!".*+?()[]{}^$|\\/" cs!".*+?()[]{}^$|\\/"
  simpa using this

/-- hypotheses of `captures_in_rule_order_partial` / `flat_rule_captures` hold for the fields of a flat rule. -/
example : Numbered (specFrom 0 [.cap cs!"[0-9]+" [cs!"n"] [.integer], .text cs!"-", .cap cs!"x" [cs!"m"] []]).2 :=
  specFrom_numbered _

end C32
