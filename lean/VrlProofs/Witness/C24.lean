/-
  C24 — witnesses: the full round-trip statements are false of the modelled (= pinned) code.
  Every witness is a closed term evaluated by the kernel (`decide`); each is replayed on the real
  implementation by the `o.c24.*` oracle cases of corpus/C24/known.case.
  Also: non-vacuity examples for the hypotheses of the partial theorems.
-/
import VrlProofs.Props.C24

namespace C24
open KV

/-! ## key-value: one witness per finding class (default delimiters `=` / space unless stated) -/

/-- `kv:D_backslash` — `{"k": "a\b"}` is written `k=a\\b` and read back as `a\\b`. -/
theorem witness_backslash :
    encodeKV ['='] [' '] [(['k'], ['a', '\\', 'b'])] = ['k', '=', 'a', '\\', '\\', 'b'] ∧
    parseKV (defaultCfg ['='] [' ']) (encodeKV ['='] [' '] [(['k'], ['a', '\\', 'b'])])
      = .ok [(['k'], .str ['a', '\\', '\\', 'b'])] ∧
    objectClass ['='] [' '] [(['k'], ['a', '\\', 'b'])] = some .backslash := by decide

/-- `kv:D_newline` — a newline is written as backslash, backslash, `n` inside quotes and read back
    as the two characters backslash, `n`. -/
theorem witness_newline :
    encodeKV ['='] [' '] [(['k'], ['a', '\n', 'b'])]
      = ['k', '=', '"', 'a', '\\', '\\', 'n', 'b', '"'] ∧
    parseKV (defaultCfg ['='] [' ']) (encodeKV ['='] [' '] [(['k'], ['a', '\n', 'b'])])
      = .ok [(['k'], .str ['a', '\\', 'n', 'b'])] ∧
    objectClass ['='] [' '] [(['k'], ['a', '\n', 'b'])] = some .newline := by decide

/-- `kv:D_leading_quote` — the value `'a'` is written verbatim and read as the single-quoted `a`. -/
theorem witness_leading_quote :
    parseKV (defaultCfg ['='] [' ']) (encodeKV ['='] [' '] [(['k'], ['\'', 'a', '\''])])
      = .ok [(['k'], .str ['a'])] ∧
    objectClass ['='] [' '] [(['k'], ['\'', 'a', '\''])] = some .leadingQuote := by decide

/-- `kv:D_leading_quote`, on keys: `{"'a": "b'"}` is written `'a=b'` and read as the standalone key
    `a=b`. -/
theorem witness_leading_quote_key :
    parseKV (defaultCfg ['='] [' ']) (encodeKV ['='] [' '] [(['\'', 'a'], ['b', '\''])])
      = .ok [(['a', '=', 'b'], .tru)] := by decide

/-- `kv:D_field_delim` — with `:` / `,` the value `a,b` is not quoted; the text `k:a,b` is read as
    `k = a` and a standalone key `b`. -/
theorem witness_field_delim :
    parseKV (defaultCfg [':'] [',']) (encodeKV [':'] [','] [(['k'], ['a', ',', 'b'])])
      = .ok [(['b'], .tru), (['k'], .str ['a'])] ∧
    objectClass [':'] [','] [(['k'], ['a', ',', 'b'])] = some .fieldDelim := by decide

/-- `kv:D_key_delim` — with `:` / `,` the key `a:b` is not quoted; `a:b:v` is read as `a = b:v`. -/
theorem witness_key_delim :
    parseKV (defaultCfg [':'] [',']) (encodeKV [':'] [','] [(['a', ':', 'b'], ['v'])])
      = .ok [(['a'], .str ['b', ':', 'v'])] ∧
    objectClass [':'] [','] [(['a', ':', 'b'], ['v'])] = some .keyDelim := by decide

/-- `kv:D_empty_object` — `{}` is written as the empty string, which `parse_key_value` rejects. -/
theorem witness_empty_object :
    encodeKV ['='] [' '] [] = [] ∧
    parseKV (defaultCfg ['='] [' ']) (encodeKV ['='] [' '] []) = .err ∧
    objectClass ['='] [' '] [] = some .emptyObject := by decide

/-- `kv:D_delimiters` — with a space as key-value delimiter (default lenient whitespace) `k v` is
    read as the standalone key `k`. -/
theorem witness_space_delimiter :
    parseKV (defaultCfg [' '] [',']) (encodeKV [' '] [','] [(['k'], ['v'])]) = .ok [(['k'], .tru)] ∧
    objectClass [' '] [','] [(['k'], ['v'])] = some .delimiters := by decide

/-- the logfmt pair shows the same behaviour (it is the `=` / space instance). -/
theorem witness_logfmt_backslash :
    parseLogfmt (encodeLogfmt [(['k'], ['a', '\\', 'b'])])
      = .ok [(['k'], .str ['a', '\\', '\\', 'b'])] := by decide

theorem witness_logfmt_newline :
    parseLogfmt (encodeLogfmt [(['k'], ['a', '\n', 'b'])])
      = .ok [(['k'], .str ['a', '\\', 'n', 'b'])] := by decide

/-- the full key-value statement is false. -/
theorem kv_roundtrip_false : ¬ KvRoundTrip := by
  intro h
  have := h '=' ' ' [(['k'], ['a', '\\', 'b'])] (by decide) ⟨by decide, by decide⟩
  rw [witness_backslash.2.1] at this
  exact absurd this (by decide)

/-- the full logfmt statement is false. -/
theorem logfmt_roundtrip_false : ¬ LogfmtRoundTrip := by
  intro h
  have := h [(['k'], ['a', '\\', 'b'])] ⟨by decide, by decide⟩
  rw [witness_logfmt_backslash] at this
  exact absurd this (by decide)

/-! ## CSV -/

/-- `csv:D_bom` — a first field starting with U+FEFF (bytes EF BB BF) is written unquoted and the
    reader strips the byte-order mark. -/
theorem witness_csv_bom :
    Csv.encodeCsv 44 [[0xEF, 0xBB, 0xBF, 97], [98]] = [0xEF, 0xBB, 0xBF, 97, 44, 98] ∧
    Csv.parseCsv 44 (Csv.encodeCsv 44 [[0xEF, 0xBB, 0xBF, 97], [98]]) = [[97], [98]] ∧
    Csv.listClass 44 [[0xEF, 0xBB, 0xBF, 97], [98]] = some .bom := by decide

/-- `csv:D_delimiter` — with the quote character as delimiter, `["", "x"]` is written `"x` and read
    back as the single field `x`. -/
theorem witness_csv_delimiter :
    Csv.encodeCsv 34 [[], [120]] = [34, 120] ∧
    Csv.parseCsv 34 (Csv.encodeCsv 34 [[], [120]]) = [[120]] ∧
    Csv.listClass 34 [[], [120]] = some .delimiter := by decide

/-- the full CSV statement is false. -/
theorem csv_roundtrip_false : ¬ CsvRoundTrip := by
  intro h
  have := h [[0xEF, 0xBB, 0xBF, 97], [98]]
  rw [witness_csv_bom.2.1] at this
  exact absurd this (by decide)

/-! ## Non-vacuity of the partial theorems -/

/-- an object with a quoted value (space, `"`, `=`, backslash inside quotes), an unquoted value with
    unicode and an inner single quote, and a quoted key satisfies every hypothesis of
    `kv_roundtrip_partial` / `logfmt_roundtrip_partial`. -/
example :
    let o : List (List Char × List Char) :=
      [(['a', ' ', 'b'], ['x', ' ', '"', 'y', '"', ' ', '=', ' ', '\\', 'z']),
       (['k'], ['v', 'é', '\'', '日'])]
    delimOK '=' = true ∧ keysSorted o = true ∧ safeObject '=' ' ' o = true ∧
    parseLogfmt (encodeLogfmt o) = .ok (expected o) := by decide

example : delimOK ':' = true ∧ safeObject ':' ',' [(['k'], ['a', '=', ':', 'b'])] = true := by
  decide

/-- lists with quotes, delimiters, line breaks and empty fields satisfy the hypotheses of
    `csv_roundtrip_partial`. -/
example :
    let l : List (List Nat) := [[], [97, 44, 34, 98], [13, 10], [0xEF, 0xBB, 0xBF]]
    Csv.delimOK 44 = true ∧ Csv.startsWithBom (Csv.encodeCsv 44 l) = false ∧
    Csv.parseCsv 44 (Csv.encodeCsv 44 l) = l := by decide

end C24
