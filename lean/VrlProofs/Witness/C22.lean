/-
  C22 — witnesses and non-vacuity examples.

  * The unrestricted percent round trip is false of the code (and of its model) for the six
    WHATWG-style sets that leave `%` unescaped: `"%ba"` is encoded to itself and decoded to the
    byte 0xBA, which `decode_utf8_lossy` turns into U+FFFD. Replayed on the implementation by the
    check (`o.c22 pct <SET> 256261`), class `percent:D_percent_literal`.
  * Non-vacuity: the hypotheses of the property theorems are met by concrete inputs, and the
    primitive structures (whose fields carry the assumed laws) are inhabited, so no theorem is
    vacuous because of contradictory laws.
-/
import VrlProofs.Props.C22

namespace C22
open Codec

/-- "%ba" -/
def pctBa : Bytes := [37, 98, 97]

/-- the six sets of `encode_percent` that do not escape `%`. -/
def leavesPercent : List Percent.AsciiSet := [.controls, .fragment, .query, .special, .path, .userinfo]

theorem leavesPercent_iff (set : Percent.AsciiSet) :
    set ∈ leavesPercent ↔ set.escapes Percent.pct = false := by
  cases set <;> decide

/-- D_percent_literal: `decode_percent(encode_percent("%ba", set))` is `"\u{FFFD}"`, not `"%ba"`. -/
theorem witness_percent_literal :
    Utf8.lossy pctBa = pctBa ∧ D_percent_literal .path pctBa = true ∧
    percent .path pctBa = .ok [0xEF, 0xBF, 0xBD] ∧ ¬ RoundTrip pctBa (percent .path pctBa) := by
  decide

/-- the same for every set that leaves `%` alone; the three other sets round-trip it. -/
theorem witness_percent_literal_all_sets :
    (∀ set ∈ leavesPercent, D_percent_literal set pctBa = true ∧ ¬ RoundTrip pctBa (percent set pctBa)) ∧
    (∀ set ∈ Percent.AsciiSet.all, set ∉ leavesPercent → RoundTrip pctBa (percent set pctBa)) := by
  decide

/-- the class is exactly the failure set (restating `percent_roundtrip_iff`). -/
theorem percent_class_exact (set : Percent.AsciiSet) (s : Bytes) (hs : Utf8.lossy s = s) :
    ¬ RoundTrip s (percent set s) ↔ D_percent_literal set s = true := by
  rw [percent_roundtrip_iff set s hs]
  simp [D_percent_literal]

/-! ### non-vacuity -/

example : ∀ x ∈ ([0, 15, 16, 255] : Bytes), x < 256 := by decide
example : RoundTrip [0, 15, 16, 255] (base16 [0, 15, 16, 255]) := base16_roundtrip _ (by decide)
example : RoundTrip [0, 15, 16, 255] (base64 [0, 15, 16, 255] false urlSafeName) :=
  base64_roundtrip _ (by decide) _ _ (Or.inr rfl)
-- model outputs on a known vector: "Ma" -> "TWE=" / "TWE"
example : Base64.encode [77, 97] true standardName = some [84, 87, 69, 61] := by decide
example : Base64.decode [84, 87, 69, 61, 61, 61] standardName = .ok [77, 97] := by decide
-- the all-padding quirk of the decoder glue: "" decodes, "=" does not
example : Base64.decode [] standardName = .ok [] ∧ Base64.decode [61] standardName = .badInput := by decide
-- a text with a literal `%` that is not followed by two hex digits is outside the class
example : Utf8.lossy [97, 37, 122, 122] = [97, 37, 122, 122] ∧ D_percent_literal .path [97, 37, 122, 122] = false := by
  decide
-- well-formed UTF-8 in the sense of Table 3-7: "é%" (C3 A9 25)
example : Utf8.Valid [0xC3, 0xA9, 37] :=
  .two _ _ _ (by decide) (by decide) (by decide) (by decide) (.ascii _ _ (by decide) .nil)

/-- identity "compression": the assumed laws are satisfiable. -/
def idGzip : Gzip.Prim where
  compress _ b := .ok b
  decompress c := some c
  rt _ b _ := ⟨b, rfl, rfl⟩

def idZlib : Zlib.Prim where
  compress _ b := .ok b
  decompress c := some c
  rt _ b _ := ⟨b, rfl, rfl⟩

def idZstd : Zstd.Prim where
  encodeAll _ b := .ok b
  decodeAll c := some c
  rt _ b _ _ := ⟨b, rfl, rfl⟩

def idSnappy : Snappy.Prim where
  compress b := some b
  decompress c := some c
  rt b _ := ⟨b, rfl, rfl⟩

/-- a toy lz4: the block is `0 :: bytes` (so it never starts with 0x04). -/
def toyLz4 : Lz4.Prim where
  compress b := 0 :: b
  compressPrepend b := Lz4.le32 b.length ++ 0 :: b
  decompress c n := if c.tail.length ≤ n then .ok c.tail else .err
  decompressPrepended c := .ok (c.drop 5)
  frameDecode _ _ := .err
  rtBlock b n h _ := by simp [h]
  rtPrepend b _ := by simp [Lz4.le32]
  prependShape _ _ := rfl
  blockNoMagic _ := by simp [Lz4.magic, List.isPrefixOf]

def idCharset : Charset.Prim where
  Enc := Unit
  forLabel _ := some ()
  encode _ t := t
  decode _ t := t
  representable _ _ := True
  rt _ _ _ _ := rfl

/-- a toy idna: ASCII domains are valid and map to themselves; raw punycode always fails. -/
def toyPuny : Punycode.Prim where
  toAscii d := if Punycode.isAscii d then some d else none
  toUnicode a := (a, true)
  punyEnc _ := none
  punyDec _ := none
  lower l := l
  validDomain d := Punycode.isAscii d = true
  rtIdna d h := ⟨d, by simp [h], h, rfl⟩
  asciiFixed d a h ha _ := by simp [h] at ha; exact ha.symm
  rtPuny _ _ h := by cases h

example : RoundTrip [1, 2, 3] (andThen (Gzip.encode idGzip [1, 2, 3] 6) (Gzip.decode idGzip)) :=
  gzip_roundtrip idGzip _ 6 (by decide)
-- 2^32 + 9 is level 9 after the `as u32` cast
example : RoundTrip [1] (andThen (Zlib.encode idZlib [1] 4294967305) (Zlib.decode idZlib)) :=
  zlib_roundtrip idZlib _ _ (by decide)
example : RoundTrip [1] (andThen (Zstd.encode idZstd [1] (-5)) (Zstd.decode idZstd)) :=
  zstd_roundtrip idZstd _ _
example : RoundTrip [1] (andThen (Snappy.encode idSnappy [1]) (Snappy.decode idSnappy)) :=
  snappy_roundtrip idSnappy _ (by decide)
example : RoundTrip [1, 2] (Lz4.decode toyLz4 (Lz4.encode toyLz4 [1, 2] false) 2 false) :=
  lz4_roundtrip_block toyLz4 _ 2 (by decide) (by decide) (by decide)
example : RoundTrip [1, 2] (Lz4.decode toyLz4 (Lz4.encode toyLz4 [1, 2] true) (-1) true) :=
  lz4_roundtrip_prepended_partial toyLz4 _ _ (by decide) (by decide)
-- the excluded class is inhabited: a byte string of 0x184D2204 bytes
example : (List.replicate Lz4.magicAsSize 0).length = Lz4.magicAsSize ∧
    D_lz4_size_is_magic Lz4.magicAsSize = true := ⟨List.length_replicate, by decide⟩
example : RoundTrip [104, 105] (andThen (Charset.encodeCharset idCharset [104, 105] [108])
    (fun x => Charset.decodeCharset idCharset x [108])) :=
  charset_roundtrip idCharset _ _ () rfl (by decide) trivial
-- "a.b"
example : RoundTrip [97, 46, 98] (andThen (Punycode.encode toyPuny [97, 46, 98] true)
    (fun e => Punycode.decode toyPuny e true)) :=
  punycode_roundtrip_validate toyPuny _ (by decide) (by show Punycode.isAscii _ = true; decide)
example : ∀ l ∈ Punycode.splitDot [97, 46, 98], PunyLabelOK toyPuny l := by
  intro l hl
  have : l = [97] ∨ l = [98] := by simpa [Punycode.splitDot, Punycode.dot] using hl
  rcases this with rfl | rfl <;> refine ⟨rfl, by decide, ?_⟩ <;> intro h <;> simp [Punycode.isAscii] at h

end C22
