/-
  C35 — witnesses of the finding classes and non-vacuity examples.

  * `fixed_leap_offset…` (FIXED finding `nopanic:D_leap_offset`, repaired by 83f4a4b): with the instant
    chrono really returns for "1900-01-01 23:59:60" in America/St_Johns (UTC offset −3:30:52: second
    field :51 after the shift, nanosecond field 10⁹) `datetime_to_utc` used to panic
    (`Utc.timestamp_opt` refuses the pair: `leap_instant_refused`); it now returns the pair, observed as
    `ts:-2208889748000000000`. Replayed on the implementation by corpus/C35/fixed.case.
  * `witness_literal_percent` (class `rt:D_literal_percent`): `timestamp|%F %T %%z` is classified
    zone-explicit — the configured zone is dropped — although `%%z` is a literal `%z`, not a specifier.
  * `witness_zone_abbrev` (class `rt:D_zone_abbrev`): `timestamp|%F %T %Z` likewise, although chrono
    cannot read an offset from `%Z`; `DateTime::parse_from_str` then fails on every text (observed by
    `o.c35`; that part is chrono's behaviour, outside the model).
-/
import VrlProofs.Props.C35

namespace C35
open Cnv

/-! ### fixed finding `nopanic:D_leap_offset` (83f4a4b: `datetime_to_utc` = `with_timezone(&Utc)`) -/

/-- chrono as observed on the implementation for the text "1900-01-01 23:59:60" / format "%F %T":
    parsing succeeds; resolving in America/St_Johns gives (−2208889749 s, 10⁹ ns). -/
def chronoLeap : Chrono Unit where
  parse := fun _ _ => some ()
  resolveLocal := fun _ => some (-2208902401, 1000000000)
  resolveNamed := fun _ _ => some (-2208889749, 1000000000)
  parseFromStr := fun _ _ => none
  parseRfc3339 := fun _ => none
  parseRfc2822 := fun _ => none

def ftNone : FloatText where
  parseF := fun _ => none
  showF := fun _ => []

theorem leap_instant_in_class : D_leap_offset (-2208889749, 1000000000) = true := by decide

/-- what failed: `Utc.timestamp_opt(-2208889749, 10⁹)` is not `Single` (second :51 with a leap-second
    nanosecond field), and the old `datetime_to_utc` `.expect`ed it -/
theorem leap_instant_refused : timestampOptOk (-2208889749) 1000000000 = false := by decide

/-- the old witness input (`witness_leap_panic`: `convert … = .panic`) now converts: the reply of the
    implementation on the replay is `ok ts:-2208889748000000000` -/
theorem fixed_leap_offset :
    convert ftNone chronoLeap (.timestampFmt ['%', 'F', ' ', '%', 'T'] (.named "America/St_Johns")) [] =
      .ok (.ts (-2208889748000000000)) := by decide

/-- and so does the automatic conversion on the same instant (first zone-less format) -/
theorem fixed_leap_offset_auto :
    convert ftNone chronoLeap (.timestamp (.named "America/St_Johns")) [] =
      .ok (.ts (-2208889748000000000)) := by decide

/-- the whole class: every instant in `D_leap_offset` is refused by `Utc.timestamp_opt` (so the old
    code panicked on it), and `datetime_to_utc` now returns it unchanged -/
theorem fixed_leap_offset_class (i : Inst) (h : D_leap_offset i = true) :
    timestampOptOk i.1 i.2 = false ∧ datetimeToUtc i = .ok i := by
  refine ⟨?_, rfl⟩
  simp only [D_leap_offset, Bool.and_eq_true, decide_eq_true_eq, Bool.not_eq_true'] at h
  have h1 : ¬ (i.2 < 1000000000) := by omega
  simp [timestampOptOk, h1, h.2]

/-- the value it returns is the nanosecond count of the following second; its RFC 3339 text
    ("1900-01-02T03:30:52Z" on the implementation) read back by chrono as (−2208889748, 0) converts to
    the same value: non-vacuity of `convert_auto_rfc3339_leap` -/
def chronoRfcNext : Chrono Unit where
  parse := fun _ _ => none
  resolveLocal := fun _ => none
  resolveNamed := fun _ _ => none
  parseFromStr := fun _ _ => none
  parseRfc3339 := fun _ => some (-2208889749 + 1, 0)
  parseRfc2822 := fun _ => none

theorem fixed_leap_offset_roundtrip :
    convert ftNone chronoRfcNext (.timestamp .local) [51, 58, 51] = .ok (.ts (-2208889748000000000)) ∧
    convert ftNone chronoLeap (.timestampFmt ['%', 'F', ' ', '%', 'T'] (.named "America/St_Johns")) [] =
      convert ftNone chronoRfcNext (.timestamp .local) [51, 58, 51] := by
  have h := convert_auto_rfc3339_leap ftNone chronoRfcNext .local [51, 58, 51] (-2208889749) 0
    (by intro f _; rfl) (by decide) rfl
  have e : instNs (-2208889749, 1000000000 + 0) = -2208889748000000000 := by decide
  rw [e] at h
  exact ⟨h, by rw [h]; exact fixed_leap_offset⟩

/-- an ordinary chrono, for comparison: nothing changed outside the class -/
def chronoPlain : Chrono Unit where
  parse := fun _ _ => some ()
  resolveLocal := fun _ => some (981173106, 0)
  resolveNamed := fun _ _ => some (981169506, 500000000)
  parseFromStr := fun _ _ => some (981173106, 0)
  parseRfc3339 := fun _ => some (981173106, 0)
  parseRfc2822 := fun _ => none

example : convert ftNone chronoPlain (.timestampFmt ['%', 'F'] (.named "Europe/Paris")) [] =
    .ok (.ts 981169506500000000) := by decide
example : noPanic (convert ftNone chronoLeap (.timestamp .local) []) = true := by decide

/-! ### `format_has_zone` false positives -/

def fmtLiteral : List Char := ['%', 'F', ' ', '%', 'T', ' ', '%', '%', 'z']
def fmtAbbrev : List Char := ['%', 'F', ' ', '%', 'T', ' ', '%', 'Z']

/-- `%%z` is a literal: no offset specifier, yet classified zone-explicit (for every zone,
    which is then discarded) -/
theorem witness_literal_percent (tz : Tz) :
    Conversion.parse (nTimestamp ++ '|' :: fmtLiteral) tz = some (.timestampTzFmt fmtLiteral) ∧
    hasOffsetSpec fmtLiteral = false ∧ hasZoneNameSpec fmtLiteral = false ∧
    rtClass (.timestampTzFmt fmtLiteral) = .literalPercent := by
  refine ⟨?_, by decide, by decide, by decide⟩
  rw [parse_timestamp_format]
  have h1 : trim fmtLiteral = fmtLiteral := by decide
  have h2 : formatHasZone fmtLiteral = true := by decide
  simp [Conversion.ofTimestampFmt, h1, h2]

/-- `%Z` is not an offset specifier chrono can read back, yet classified zone-explicit -/
theorem witness_zone_abbrev (tz : Tz) :
    Conversion.parse (nTimestamp ++ '|' :: fmtAbbrev) tz = some (.timestampTzFmt fmtAbbrev) ∧
    hasOffsetSpec fmtAbbrev = false ∧ rtClass (.timestampTzFmt fmtAbbrev) = .zoneAbbrev := by
  refine ⟨?_, by decide, by decide⟩
  rw [parse_timestamp_format]
  have h1 : trim fmtAbbrev = fmtAbbrev := by decide
  have h2 : formatHasZone fmtAbbrev = true := by decide
  simp [Conversion.ofTimestampFmt, h1, h2]

/-- the converse of `hasOffsetSpec_imp_formatHasZone` is false -/
theorem formatHasZone_not_imp_hasOffsetSpec :
    ∃ f, formatHasZone f = true ∧ hasOffsetSpec f = false := ⟨fmtLiteral, by decide, by decide⟩

/-- outside the classes the two scans agree on the real specifiers: examples of class `none` -/
example : rtClass (.timestampTzFmt ['%', 'F', ' ', '%', 'T', ' ', '%', 'z']) = .none := by decide
example : rtClass (.timestampTzFmt ['%', '+']) = .none := by decide
example : rtClass (.timestampTzFmt ['%', 'T', '%', ':', 'z']) = .none := by decide
example : rtClass (.timestampTzFmt ['%', 'T', '%', '#', 'z']) = .none := by decide

/-! ### non-vacuity of the laws used as hypotheses -/

/-- a `FloatText` satisfying `FloatLaw` (unary notation) -/
def ftUnary : FloatText where
  parseF := fun s => some s.length
  showF := fun x => List.replicate x 0

example : FloatLaw ftUnary := by
  intro x _ _
  simp [ftUnary]

/-- the hypotheses of `convert_auto_rfc3339` are satisfiable -/
def chronoRfc : Chrono Unit where
  parse := fun _ _ => none
  resolveLocal := fun _ => none
  resolveNamed := fun _ _ => none
  parseFromStr := fun _ _ => none
  parseRfc3339 := fun _ => some (981173106, 0)
  parseRfc2822 := fun _ => none

example : convert ftNone chronoRfc (.timestamp .local) [50, 58, 51] = .ok (.ts 981173106000000000) :=
  convert_auto_rfc3339 ftNone chronoRfc .local [50, 58, 51] (981173106, 0) (by intro f _; rfl) (by decide) rfl
/-- integers: edge values and malformed texts -/
example : parseI64 (showI64 i64Min) = some i64Min := parseI64_showI64 _ (by decide) (by decide)
example : parseI64 (showI64 i64Max) = some i64Max := parseI64_showI64 _ (by decide) (by decide)
example : parseI64 [57, 50, 50, 51, 51, 55, 50, 48, 51, 54, 56, 53, 52, 55, 55, 53, 56, 48, 56] = none := by decide
example : parseI64 [] = none ∧ parseI64 [43] = none ∧ parseI64 [45] = none ∧ parseI64 [43, 45, 49] = none ∧
    parseI64 [32, 49] = none ∧ parseI64 [43, 48, 55] = some 7 ∧ parseI64 [45, 48] = some 0 := by decide

/-- booleans: samples of the general theorems -/
example : parseBool [84, 114, 85, 101] = some true := by decide          -- "TrUe"
example : parseBool [78, 79] = some false := by decide                    -- "NO"
example : parseBool [45, 55] = some true ∧ parseBool [43, 48] = some false := by decide
example : parseBool [111, 110] = none := by decide                        -- "on"

end C35
