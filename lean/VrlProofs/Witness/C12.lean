/-
  Witnesses for C12: type states in which a recorded constant is not the run-time value.
  (`C12.constant_value` itself needs no side condition; what fails on the unchanged code is the
  preservation of "recorded constants are right" by evaluation.)
-/
import VrlProofs.Witness.C01

namespace C12.W
open Lang Spec C01.W

set_option maxRecDepth 100000 in
/-- fixed (`D_del_typing` / `D_const_after_del`; 6af54e3): after `x = {"a": 5}; del(x.a)` the compiler
    still knew `x.a = 5` while at run time `x.a` is `null`; `DelFn::type_info` now drops the constant
    of the variable (and the program passes every side condition of `constants_preserved_partial`) -/
theorem fixed_const_after_del :
    constOf (.qvar "x" [.field [97]]) (typeSeq delVarPrefix T0 {}).2 = none ∧
    (eval (.qvar "x" [.field [97]]) (evalSeq delVarPrefix (st delVarEv)).2).1 = .ok .null ∧
    safeSeq delVarPrefix T0 = true := by
  decide

set_option maxRecDepth 100000 in
/-- `D_const_signed_zero`: `Details::merge` keeps the constant of the branch state when both are
    `==`: `x = 0.0; if .a == 1 { x = -0.0 }` records `-0.0`; with `.a ≠ 1` the value is `0.0` -/
theorem witness_signed_zero :
    constOf (.var "x") (typeSeq signedZeroPrefix T0 {}).2 = some (.float 9223372036854775808) ∧
    (eval (.var "x") (evalSeq signedZeroPrefix (st signedZeroEv)).2).1 = .ok (.float 0) := by
  decide

/-! ### non-vacuity of `C12.constant_value` -/

set_option maxRecDepth 100000 in
/-- after `x = 5` the compiler knows the constant of `10 / x` … -/
example : constOf (.op .div (.lit (.int 10)) (.var "x"))
    (typeInfo (.asg (.internal "x" []) (.lit (.int 5))) T0).2 = some (.float 4611686018427387904) := by decide

end C12.W
