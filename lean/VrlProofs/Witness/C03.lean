/-
  C03 – witnesses: concrete calls of modelled functions on which the unchanged code violates a
  clause, inside the model (each is also a replay case of the oracle `o.c03.fn` in
  corpus/C03/known.case, i.e. re-observed on the real implementation by every check), and
  non-vacuity examples for the `_partial` theorems.
-/
import VrlProofs.Props.C03Err
import VrlProofs.Props.C03Union

namespace C03.W
open C03 Spec

/-- a call on which clause (a) fails: accepted by the compiler with TypeDef `td`, the argument
    values are admissible, the function returns `v`, and `v ∉ᵣ td.kind`. -/
def RefutesType (E : Env) (F : Fn) (as : ASlots) (vs : Slots) : Prop :=
  ∃ td v, LitsSorted as = true ∧ declared F as = some td ∧ Admits as vs = true ∧
    model E F vs = .ok v ∧ memR v td.kind = false

/-- a call on which clause (b) fails: typed infallible, yet the function returns an error. -/
def RefutesInfallible (E : Env) (F : Fn) (as : ASlots) (vs : Slots) : Prop :=
  ∃ td, LitsSorted as = true ∧ declared F as = some td ∧ td.fallible = false ∧
    Admits as vs = true ∧ model E F vs = .err

theorem not_sound_of {E : Env} {F : Fn} {as : ASlots} {vs : Slots} (h : RefutesType E F as vs) :
    ¬ Sound E F := by
  intro hs
  obtain ⟨td, v, hl, hd, ha, hm, hn⟩ := h
  have := (hs as vs td ⟨hl, hd, ha⟩ v hm).1
  rw [hn] at this; cases this

theorem not_infallible_of {E : Env} {F : Fn} {as : ASlots} {vs : Slots}
    (h : RefutesInfallible E F as vs) : ¬ Infallible E F := by
  intro hs
  obtain ⟨td, hl, hd, hf, ha, hm⟩ := h
  exact hs as vs td ⟨hl, hd, ha⟩ hf hm

/-! ### values used below -/

def i (n : Int) : Value := .int n
def arrOf (l : List Value) : Value := .arr (Coll.ofList l)
def kA : Key := [97]     -- "a"
def kX : Key := [120]    -- "x"
def kY : Key := [121]    -- "y"
def objA (v : Value) : Value := .obj (.cons kA v .nil)

/-! ### clause (a): the value is outside the declared kind -/

/-- `pop([1])` is `[]`, declared `[integer]` (index 0 must be present): `result_type:pop`. -/
theorem witness_pop (E : Env) : RefutesType E .pop [some (.lit (arrOf [i 1]))] [some (arrOf [i 1])] :=
  ⟨_, _, rfl, rfl, by decide, rfl, by decide⟩

/-- `slice([[1], [2]], 1)` is `[[2]]`, declared `[[integer], [integer]]` (index 1 must be present):
    `result_type:slice`. -/
theorem witness_slice (E : Env) :
    RefutesType E .slice [some (.lit (arrOf [arrOf [i 1], arrOf [i 2]])), some (.lit (i 1)), none]
      [some (arrOf [arrOf [i 1], arrOf [i 2]]), some (i 1), none] :=
  ⟨_, _, rfl, rfl, by decide, rfl, by decide⟩

/-- FIXED (/repo cbab0ba; was `witness_mod`, class `result_type:mod`): `mod(0.1, 1)` is the
    float `0.1`; the declared kind used to be `integer` (constant integer modulus), it is now the
    kind of the dividend, `float`, and the value belongs to it. The general statement is
    `C03.mod_sound`. -/
theorem fixed_mod (E : Env) :
    ∃ td v, declared .mod [some (.lit (.float 0x3fb999999999999a)), some (.lit (i 1))] = some td ∧
      td.kind = Kind.float ∧ td.fallible = false ∧
      model E .mod [some (.float 0x3fb999999999999a), some (i 1)] = .ok v ∧ memR v td.kind = true :=
  ⟨_, .float 0x3fb999999999999a, rfl, rfl, rfl,
    (by show ofArith (Arith.tryRem (.float 0x3fb999999999999a) (.int 1)) = _; decide), by decide⟩

/-- `compact(.p)` with `.p = []` is `[]`, declared `object` (the argument is not *exactly* an
    array): `result_type:compact`. -/
theorem witness_compact (E : Env) :
    RefutesType E .compact [some (.dyn Kind.any), none, none, none, none, none, none]
      [some (arrOf []), none, none, none, none, none, none] :=
  ⟨_, _, rfl, rfl, by decide, rfl, by decide⟩

/-- `flatten(.p)` with `.p = []`: `result_type:flatten`. -/
theorem witness_flatten (E : Env) :
    RefutesType E .flatten [some (.dyn Kind.any), none, none] [some (arrOf []), none, none] :=
  ⟨_, _, rfl, rfl, by decide, rfl, by decide⟩

/-- `merge({"a": {"x": 1}}, {"a": {"y": 2}}, deep: true)` is `{"a": {"x": 1, "y": 2}}`, declared
    `{"a": {"y": integer}}` (`merge_overwrite` ignores `deep`; TODO in merge.rs, upstream #13597):
    `result_type:merge`. -/
theorem witness_merge_deep (E : Env) :
    RefutesType E .merge
      [some (.lit (objA (.obj (.cons kX (i 1) .nil)))), some (.lit (objA (.obj (.cons kY (i 2) .nil)))),
       some (.lit (.bool true))]
      [some (objA (.obj (.cons kX (i 1) .nil))), some (objA (.obj (.cons kY (i 2) .nil))),
       some (.bool true)] :=
  ⟨_, _, rfl, rfl, by decide, rfl, by decide⟩

/-! ### clause (b): typed infallible, returns an error -/

/-- `from_entries([1])`: `infallible_err:from_entries`. -/
theorem witness_from_entries (E : Env) :
    RefutesInfallible E .fromEntries [some (.lit (arrOf [i 1]))] [some (arrOf [i 1])] :=
  ⟨_, rfl, rfl, rfl, by decide, rfl⟩

/-- `unflatten({"a": 1}, separator: "")`: `infallible_err:unflatten`. -/
theorem witness_unflatten (E : Env) :
    RefutesInfallible E .unflatten [some (.lit (objA (i 1))), some (.lit (.bytes [])), none]
      [some (objA (i 1)), some (.bytes []), none] :=
  ⟨_, rfl, rfl, rfl, by decide, rfl⟩

/-- `encode_base64(".", charset: "")`: `infallible_err:encode_base64`. -/
theorem witness_encode_base64 (E : Env) :
    RefutesInfallible E .encodeBase64 [some (.lit (.bytes [46])), none, some (.lit (.bytes []))]
      [some (.bytes [46]), none, some (.bytes [])] :=
  ⟨_, rfl, rfl, rfl, by decide, rfl⟩

/-- FIXED (/repo 3677b5b; was `witness_to_float`, class `infallible_err:to_float`):
    `to_float(t'9999-12-31T23:59:59Z')` — the nanoseconds do not fit an `i64`
    (`timestamp_nanos_opt()` is `None`), the call is typed infallible and used to return an
    `OutOfRange` error; it now converts seconds and fraction separately: `253402300799.0`. The general
    statement is `infallible_partial` (no `to_float` class any more). -/
theorem fixed_to_float (E : Env) :
    ∃ td, declared .toFloat [some (.lit (.ts 253402300799000000000))] = some td ∧ td.fallible = false ∧
      model E .toFloat [some (.ts 253402300799000000000)] = .ok (.float 0x424d7ffa20bf8000) :=
  ⟨_, rfl, rfl, by
    simp only [model, un]
    rw [show Round.toFloat E.parseF (.ts 253402300799000000000)
      = Round.toFloat (fun _ => none) (.ts 253402300799000000000) from rfl]
    decide +kernel⟩

/-- `to_float` of a timestamp never errors, whatever the instant. -/
theorem to_float_ts_total (E : Env) (ns : Int) : ∃ f, model E .toFloat [some (.ts ns)] = .ok (.float f) := by
  simp only [model, un, Round.toFloat]
  split <;> exact ⟨_, rfl⟩

/-- `mod(x, 2.0)` with `x : float` at run time `+∞` (`inf % 2.0` is NaN → `NanFloat` error); the
    constant normal modulus makes the call infallible, the guard only looks at a CONSTANT dividend:
    `infallible_err:mod`. -/
theorem witness_mod_inf (E : Env) :
    RefutesInfallible E .mod [some (.dyn Kind.float), some (.lit (.float 0x4000000000000000))]
      [some (.float 0x7ff0000000000000), some (.float 0x4000000000000000)] :=
  ⟨_, rfl, rfl, rfl, by decide,
    (by show ofArith (Arith.tryRem (.float 0x7ff0000000000000) (.float 0x4000000000000000)) = _; decide)⟩

/-- the full-strength statements are false for the unchanged code -/
theorem sound_fails (E : Env) :
    ¬ Sound E .pop ∧ ¬ Sound E .slice ∧ ¬ Sound E .compact ∧ ¬ Sound E .flatten ∧
    ¬ Sound E .merge :=
  ⟨not_sound_of (witness_pop E), not_sound_of (witness_slice E),
   not_sound_of (witness_compact E), not_sound_of (witness_flatten E),
   not_sound_of (witness_merge_deep E)⟩

theorem infallible_fails (E : Env) :
    ¬ Infallible E .fromEntries ∧ ¬ Infallible E .unflatten ∧ ¬ Infallible E .encodeBase64 ∧
    ¬ Infallible E .mod :=
  ⟨not_infallible_of (witness_from_entries E), not_infallible_of (witness_unflatten E),
   not_infallible_of (witness_encode_base64 E), not_infallible_of (witness_mod_inf E)⟩

/-! ### non-vacuity: calls that satisfy the hypotheses of the `_partial` theorems and return a value -/

/-- the hypotheses of `sound_partial` hold for this call and the function returns a value -/
def Covered (E : Env) (F : Fn) (as : ASlots) (vs : Slots) : Prop :=
  ∃ td v, Call F as vs td ∧ soundClass F as = false ∧ model E F vs = .ok v

/-- the hypotheses of `infallible_partial` hold for this call, which is typed infallible -/
def CoveredInfallible (F : Fn) (as : ASlots) (vs : Slots) : Prop :=
  ∃ td, Call F as vs td ∧ errClass F vs = false ∧ td.fallible = false

/-- `pop(.p)` with `.p = [1, 2]` -/
example (E : Env) : Covered E .pop [some (.dyn Kind.any)] [some (arrOf [i 1, i 2])] :=
  ⟨_, _, ⟨rfl, rfl, by decide⟩, by decide, rfl⟩

/-- `slice(.p, 1)` with `.p = [1, "a"]`, and `slice("abc", 1)` -/
example (E : Env) : Covered E .slice [some (.dyn Kind.any), some (.lit (i 1)), none]
    [some (arrOf [i 1, .bytes [97]]), some (i 1), none] :=
  ⟨_, _, ⟨rfl, rfl, by decide⟩, by decide, rfl⟩
example (E : Env) : Covered E .slice [some (.lit (.bytes [97, 98, 99])), some (.lit (i 1)), none]
    [some (.bytes [97, 98, 99]), some (i 1), none] :=
  ⟨_, _, ⟨rfl, rfl, by decide⟩, by decide, rfl⟩

/-- `mod(5, 3)` (constant integer modulus, integer dividend) and `mod(.p, .q)` -/
example (E : Env) : Covered E .mod [some (.lit (i 5)), some (.lit (i 3))] [some (i 5), some (i 3)] :=
  ⟨_, _, ⟨rfl, rfl, by decide⟩, by decide, rfl⟩
example (E : Env) : Covered E .mod [some (.dyn Kind.any), some (.dyn Kind.any)] [some (i 5), some (i 3)] :=
  ⟨_, _, ⟨rfl, rfl, by decide⟩, by decide, rfl⟩

/-- `compact([null, 1])` (exactly an array) and `flatten({"a": {"x": 1}})` (exactly an object) -/
example (E : Env) : Covered E .compact [some (.lit (arrOf [.null, i 1])), none, none, none, none, none, none]
    [some (arrOf [.null, i 1]), none, none, none, none, none, none] :=
  ⟨_, _, ⟨rfl, rfl, by decide⟩, by decide, rfl⟩
example (E : Env) : Covered E .flatten [some (.lit (objA (.obj (.cons kX (i 1) .nil)))), none, none]
    [some (objA (.obj (.cons kX (i 1) .nil))), none, none] :=
  ⟨_, _, ⟨rfl, rfl, by decide⟩, by decide, rfl⟩

/-- `values({"a": 1, "b": "x"})`, `values(.p)`, `push([1], "a")`, `push(.p, .q)` -/
example (E : Env) : Covered E .values
    [some (.lit (.obj (.cons kA (i 1) (.cons [98] (.bytes [120]) .nil))))]
    [some (.obj (.cons kA (i 1) (.cons [98] (.bytes [120]) .nil)))] :=
  ⟨_, _, ⟨rfl, rfl, by decide⟩, by decide, rfl⟩
example (E : Env) : Covered E .values [some (.dyn Kind.any)] [some (objA (i 1))] :=
  ⟨_, _, ⟨rfl, rfl, by decide⟩, by decide, rfl⟩
example (E : Env) : Covered E .push [some (.lit (arrOf [i 1])), some (.lit (.bytes [97]))]
    [some (arrOf [i 1]), some (.bytes [97])] :=
  ⟨_, _, ⟨rfl, rfl, by decide⟩, by decide, rfl⟩
example (E : Env) : Covered E .push [some (.dyn Kind.any), some (.dyn Kind.any)]
    [some (arrOf [i 1]), some .null] :=
  ⟨_, _, ⟨rfl, rfl, by decide⟩, by decide, rfl⟩

/-- `append(.p, [1, "a"])` -/
example (E : Env) : Covered E .append [some (.dyn Kind.any), some (.lit (arrOf [i 1, .bytes [97]]))]
    [some (arrOf [.null]), some (arrOf [i 1, .bytes [97]])] :=
  ⟨_, _, ⟨rfl, rfl, by decide⟩, by decide, rfl⟩

/-- a function outside every class: `array([1, "a"])`, `keys({"a": 1})`, `split("a,b", ",")` -/
example (E : Env) : Covered E .array [some (.lit (arrOf [i 1, .bytes [97]]))] [some (arrOf [i 1, .bytes [97]])] :=
  ⟨_, _, ⟨rfl, rfl, by decide⟩, by decide, rfl⟩
example (E : Env) : Covered E .keys [some (.lit (objA (i 1)))] [some (objA (i 1))] :=
  ⟨_, _, ⟨rfl, rfl, by decide⟩, by decide, rfl⟩
example (E : Env) : Covered E .split [some (.lit (.bytes [97, 44, 98])), some (.lit (.bytes [44])), none]
    [some (.bytes [97, 44, 98]), some (.bytes [44]), none] :=
  ⟨_, _, ⟨rfl, rfl, by decide⟩, by decide, rfl⟩

/-- clause (b): `from_entries([{"key": "a", "value": 1}])`, `unflatten({"a": 1})`,
    `encode_base64(".")`, `to_float(t'1970-01-01T00:00:00Z')`, `mod(5, 3)`, `mod(1.5, 2.0)`,
    `upcase("a")`, `string("a")` -/
example : CoveredInfallible .fromEntries
    [some (.lit (arrOf [.obj (.cons Conv.kKey (.bytes [97]) (.cons Conv.kValue (i 1) .nil))]))]
    [some (arrOf [.obj (.cons Conv.kKey (.bytes [97]) (.cons Conv.kValue (i 1) .nil))])] :=
  ⟨_, ⟨by decide, rfl, by decide⟩, by decide, rfl⟩
example : CoveredInfallible .unflatten [some (.lit (objA (i 1))), none, none] [some (objA (i 1)), none, none] :=
  ⟨_, ⟨rfl, rfl, by decide⟩, by decide, rfl⟩
example : CoveredInfallible .encodeBase64 [some (.lit (.bytes [46])), none, none] [some (.bytes [46]), none, none] :=
  ⟨_, ⟨rfl, rfl, by decide⟩, by decide, rfl⟩
example : CoveredInfallible .toFloat [some (.lit (.ts 0))] [some (.ts 0)] :=
  ⟨_, ⟨rfl, rfl, by decide⟩, by decide, rfl⟩
example : CoveredInfallible .toFloat [some (.lit (.ts 253402300799000000000))]
    [some (.ts 253402300799000000000)] :=
  ⟨_, ⟨rfl, rfl, by decide⟩, by decide, rfl⟩
/-- `mod(0.1, 3)`: constant integer modulus, float dividend (covered since the fix) -/
example (E : Env) : Covered E .mod [some (.lit (.float 0x3fb999999999999a)), some (.lit (i 3))]
    [some (.float 0x3fb999999999999a), some (i 3)] :=
  ⟨_, .float 0x3fb999999999999a, ⟨rfl, rfl, by decide⟩, by decide,
    (by show ofArith (Arith.tryRem (.float 0x3fb999999999999a) (.int 3)) = _; decide)⟩
example : CoveredInfallible .mod [some (.lit (i 5)), some (.lit (i 3))] [some (i 5), some (i 3)] :=
  ⟨_, ⟨rfl, rfl, by decide⟩, by decide, rfl⟩
example : CoveredInfallible .mod [some (.lit (.float 0x3ff8000000000000)), some (.lit (.float 0x4000000000000000))]
    [some (.float 0x3ff8000000000000), some (.float 0x4000000000000000)] :=
  ⟨_, ⟨rfl, rfl, by decide⟩, by decide, rfl⟩
example : CoveredInfallible .upcase [some (.lit (.bytes [97]))] [some (.bytes [97])] :=
  ⟨_, ⟨rfl, rfl, by decide⟩, by decide, rfl⟩
example : CoveredInfallible .string [some (.lit (.bytes [97]))] [some (.bytes [97])] :=
  ⟨_, ⟨rfl, rfl, by decide⟩, by decide, rfl⟩

end C03.W
