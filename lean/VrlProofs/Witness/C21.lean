/-
  C21 — witnesses of the two known findings, finding-class predicates, non-vacuity of the
  hypotheses of the `_partial` theorems.
-/
import VrlProofs.Props.C21

namespace C21
open Json

/-! ### finding classes (decidable) -/

/-- `depth:D_json_recursion_limit`: the value nests 128 containers or more; `serde_json`'s
    `remaining_depth` (128) refuses to read back what it printed. -/
def D_json_recursion_limit (v : Value) : Bool := decide (127 < depth v)

/-- `float:D_json_float_2ulp`: a double read back more than one unit in the last place away. -/
def D_json_float_2ulp (x y : Nat) : Bool := decide (1 < ulpDist x y)

/-- `n` arrays around `v` -/
def nestArr : Nat → Value → Value
  | 0, v => v
  | n + 1, v => .arr (.cons (nestArr n v) .nil)

/-- primitives with `serde_json`'s default number conversion (`serdeParseF`) and the one float
    text needed below (`zmij` prints 0xb3afb674d263f401 as `-9.867437071726851e-60`). -/
def text0 : List Nat :=
  [45, 57, 46, 56, 54, 55, 52, 51, 55, 48, 55, 49, 55, 50, 54, 56, 53, 49, 101, 45, 54, 48]

def x0 : Nat := 0xb3afb674d263f401

def serdePrims : Prims where
  showF := fun b => if b = x0 then text0 else []
  parseF := serdeParseF
  showTs := fun _ => []

/-! ### recursion limit -/

theorem witness_depth_class : jsonRepr (nestArr 128 .null) = true ∧
    D_json_recursion_limit (nestArr 128 .null) = true ∧ D_json_recursion_limit (nestArr 127 .null) = false := by
  decide +kernel

/-- 128 nested arrays are printed but not read back, with either `lossy` setting and through serde … -/
theorem witness_depth :
    parseJson serdePrims true (encodeJson serdePrims false (nestArr 128 .null)) = none ∧
    parseJson serdePrims false (encodeJson serdePrims false (nestArr 128 .null)) = none ∧
    deFromSlice serdePrims (serToString serdePrims false (nestArr 128 .null)) = none := by
  decide +kernel

/-- … while 127 are (the bound of the `_partial` theorems is sharp). -/
theorem witness_depth_sharp :
    parseJson serdePrims true (encodeJson serdePrims false (nestArr 127 .null)) = some (nestArr 127 .null) := by
  decide +kernel

theorem rep_snoc (a : Nat) : (n : Nat) → List.replicate n a ++ [a] = a :: List.replicate n a
  | 0 => rfl
  | n + 1 => by rw [List.replicate_succ, List.cons_append, rep_snoc a n]

/-- compact text of nested arrays: `n` opening brackets, the leaf, `n` closing brackets -/
theorem pv_nestArr (P : Prims) (leaf : Value) : (n lvl : Nat) →
    pv P false lvl (nestArr n leaf) = List.replicate n 91 ++ (pv P false (lvl + n) leaf ++ List.replicate n 93)
  | 0, lvl => by simp [nestArr]
  | n + 1, lvl => by
    rw [nestArr, pv, pl0, pl, pv_nestArr P leaf n (lvl + 1)]
    simp [nl, List.replicate_succ, rep_snoc, Nat.add_assoc, Nat.add_comm 1 n]

theorem nest128_text (P : Prims) :
    serToString P false (nestArr 128 .null)
      = List.replicate 128 91 ++ (pv P false 128 .null ++ List.replicate 128 93) := by
  unfold serToString
  rw [pv_nestArr P .null 128 0]

/-- the same for every choice of float primitives: the full-strength statement is false of the model -/
theorem witness_depth_all (P : Prims) : deFromSlice P (serToString P false (nestArr 128 .null)) = none := by
  rw [nest128_text]; exact deep_rejected P _

theorem not_serde_roundtrip (P : Prims) : ¬ SerdeRoundtrip P := by
  intro h
  obtain ⟨w, hw, _⟩ := h false (nestArr 128 .null) witness_depth_class.1
  rw [witness_depth_all] at hw
  cases hw

theorem not_roundtrip (P : Prims) : ¬ Roundtrip P := by
  intro h
  obtain ⟨w, hw, _⟩ := h false false (nestArr 128 .null) witness_depth_class.1
  have ht := nest128_text P
  unfold serToString at ht
  simp only [parseJson, encodeJson, serToString, Bool.false_eq_true, ↓reduceIte] at hw
  rw [ht, List.replicate_succ, List.cons_append, stripBomBytes_start 91 _ (by decide)] at hw
  have hd := deep_rejected P (pv P false 128 .null ++ List.replicate 128 93)
  rw [List.replicate_succ, List.cons_append] at hd
  rw [hd] at hw
  cases hw

/-! ### 2-ulp float -/

/-- the text is a well-formed float token, `serde_json`'s default conversion accepts it, and the
    result is two units in the last place away from the double that was printed -/
theorem witness_float_2ulp :
    floatTextCheck text0 = true ∧ serdeParseF text0 = some 0xb3afb674d263f403 ∧
    ulpDist x0 0xb3afb674d263f403 = 2 ∧ D_json_float_2ulp x0 (readBack serdePrims x0) = true := by
  decide +kernel

/-- so the 1-ulp law fails for any primitives that print `x0` as `zmij` does and convert as
    `serde_json` does -/
theorem not_floatLaw_1ulp (P : Prims) (hs : P.showF x0 = text0) (hp : P.parseF = serdeParseF) :
    ¬ FloatLawUlp 1 P := by
  intro h
  have h2 := (h x0 (by decide) (by decide)).2
  have hrb : readBack P x0 = 0xb3afb674d263f403 := by
    simp [readBack, hs, hp, witness_float_2ulp.2.1]
  rw [hrb, witness_float_2ulp.2.2.1] at h2
  omega

/-- the oracle of the check classifies the two observations as the listed classes -/
theorem oracle_classes :
    roundTripClass (nestArr 128 .null) none = some "depth:D_json_recursion_limit" ∧
    roundTripClass (.float x0) (some (.float 0xb3afb674d263f403)) = some "float:D_json_float_2ulp" ∧
    roundTripClass (.float x0) (some (.float 0xb3afb674d263f402)) = none := by
  decide +kernel

/-! ### non-vacuity: the hypotheses of the `_partial` theorems are satisfiable -/

/-- toy primitives satisfying the exact law: a double is printed as its bit pattern followed by
    `.0`, and read back from the integer digits -/
def toyPrims : Prims where
  showF := fun b => ({ neg := false, int := showNat b, frac := some [48], exp := none } : NumTok).render
  parseF := fun text =>
    match lexNum text with
    | some (t, []) => some (digitsVal t.int)
    | _ => none
  showTs := fun _ => []

theorem toy_exact : FloatLawExact toyPrims := by
  intro x _ _
  let t : NumTok := { neg := false, int := showNat x, frac := some [48], exp := none }
  have hw : t.wf = true := by simp [t, NumTok.wf, wfInt_showNat, wfFrac, wfExp, allDigits, isDigit]
  have hl : lexNum t.render = some (t, []) := by
    have := lexNum_render t [] hw rfl
    rwa [List.append_nil] at this
  have hp : toyPrims.parseF t.render = some x := by
    simp only [toyPrims, hl]
    simp [t, digitsVal_showNat]
  exact ⟨⟨t, hw, by simp [t, NumTok.isFloat], rfl, by rw [hp]; rfl⟩, hp⟩

theorem toy_ulp : FloatLawUlp 1 toyPrims := by
  intro x h1 h2
  obtain ⟨ht, hp⟩ := toy_exact x h1 h2
  refine ⟨ht, ?_⟩
  simp [readBack, hp, ulpDist]

/-- a nested value with floats, escapes, non-ASCII keys that meets every hypothesis -/
def sample : Value :=
  .obj (.cons [34, 97] (.arr (.cons (.float 0x3ff8000000000000) (.cons (.int (-9223372036854775808))
      (.cons (.bytes [10, 195, 169, 240, 159, 152, 128]) .nil))))
    (.cons [195, 169] (.obj (.cons [] (.float x0) .nil)) .nil))

example : jsonRepr sample = true ∧ depth sample ≤ 127 ∧ floatFree sample = false := by decide

example : ∀ pretty lossy, parseJson toyPrims lossy (encodeJson toyPrims pretty sample) = some sample :=
  fun pretty lossy => roundtrip_precise_partial toyPrims toy_exact pretty lossy sample (by decide) (by decide)

/-! ### a quirk outside the property: `max_depth` turns large integers into strings -/

/-- `parse_json("18446744073709551615")` is the float 1.8446744073709552e19, but with `max_depth`
    (path through `serde_json::Value`) it is the *string* "18446744073709551615". -/
theorem quirk_max_depth_u64 :
    parseJson serdePrims true (showNat 18446744073709551615) = some (.float 0x43f0000000000000) ∧
    parseJsonDepth serdePrims true 1 (showNat 18446744073709551615) = some (.bytes (showNat 18446744073709551615)) := by
  decide +kernel

end C21
