/-
  C31 — witnesses: the leaf shape on which `match_datadog_query` deviates from the reference
  semantics (re-observed on the real implementation by `o.c31 leaf`), the repaired tag comparison
  (/repo d99b562), and non-vacuity examples.
-/
import VrlProofs.Props.C31

namespace C31
open Search Search.Spec

/-- `{"tags": ["a:5"]}` -/
def wEvent : Value := .obj (.cons (utf8 "tags".toList) (.arr (.cons (.bytes (utf8 "a:5".toList)) .nil)) .nil)

/-- `b:>1` -/
def wTagCompare : QNode := .leaf (.comparison ['b'] .gt (.int 1))

/-- fixed (d99b562): `b:>1` no longer holds on an event whose only tag is `a:5` — the comparison used
    to look at the value of every `key:value` element of `tags`; it now compares only the values of
    the tag `b`, as the reference semantics says (`C31.comparison_spec` for all queries and events) … -/
theorem fixed_tag_compare :
    matchQuery Env.ref wTagCompare wEvent = .ok false ∧
    Spec.run Env.ref wTagCompare wEvent = .ok false := by
  decide

/-- … and still holds when the tag is there: `a:>1` on `{"tags": ["a:5"]}`, also as a range -/
theorem fixed_tag_compare_present :
    matchQuery Env.ref (.leaf (.comparison ['a'] .gt (.int 1))) wEvent = .ok true ∧
    matchQuery Env.ref (.leaf (.range ['a'] (.int 1) true (.int 9) false)) wEvent = .ok true ∧
    matchQuery Env.ref (.leaf (.range ['b'] (.int 1) true (.int 9) false)) wEvent = .ok false := by
  decide

/-- `_exists_:tags` -/
def wExistsTags : QNode := .leaf (.exists_ "tags".toList)

/-- D_exists_tags_never: `_exists_:tags` is false on an event that has `tags` — the closure compares
    each element with the whole array (`v.iter().any(|v| v == value)`). -/
theorem witness_exists_tags :
    devExistsTags wExistsTags = true ∧
    matchQuery Env.ref wExistsTags wEvent = .ok false ∧
    Spec.run Env.ref wExistsTags wEvent = .ok true := by
  decide

/-- `_missing_:tags` is therefore always true -/
theorem witness_missing_tags :
    matchQuery Env.ref (.leaf (.missing "tags".toList)) wEvent = .ok true ∧
    Spec.run Env.ref (.leaf (.missing "tags".toList)) wEvent = .ok false := by
  decide

/-- non-vacuity of `matches_spec_partial`: a query with a tag term, an attribute comparison, a
    negated existence test and an `OR`, free of deviating leaves, that holds on an event. -/
example :
    let q : QNode := .bool .and (.cons (.leaf (.term ['a'] ['5']))
      (.cons (.bool .or (.cons (.leaf (.comparison "@n".toList .gte (.int 3)))
                        (.cons (.neg (.leaf (.exists_ "@x".toList))) .nil))) .nil))
    let e : Value := .obj (.cons (utf8 ['n']) (.int 7) (.cons (utf8 "tags".toList) (.arr (.cons (.bytes (utf8 "a:5".toList)) .nil)) .nil))
    noDev q = true ∧ matchQuery Env.ref q e = .ok true := by
  decide

/-- non-vacuity of the range theorems: `@n:[3 TO 9]` on `{"n": 7}` -/
example :
    matchQuery Env.ref (.leaf (.range "@n".toList (.int 3) true (.int 9) true)) (.obj (.cons (utf8 ['n']) (.int 7) .nil))
      = .ok true ∧ normalizeFields "@n".toList = [.attr ".n".toList] := by
  decide

/-- the reference engine satisfies the engine law (trivially: it is the reference) -/
example : EngineLaw Env.ref := ⟨fun _ _ => rfl, fun _ _ => rfl⟩

end C31
