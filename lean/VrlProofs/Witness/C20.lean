/-
  C20 — witnesses: where the unrestricted statements are false of the code (and of its model),
  each re-observed on the implementation by the check (oracle ops `o.c20`, `o.c20.seg`,
  `o.c20.agree`), and non-vacuity examples for the hypotheses of the property theorems.
-/
import VrlProofs.Props.C20

namespace C20
open PathText PathVrl

/-- D_root_value_path: `OwnedValuePath::root()` renders to the empty string, which
    `parse_value_path` rejects (pinned by the unit test `owned_path_serialize`: `(".", Some(""))`,
    `("", None)`). -/
theorem witness_root_value_path :
    rtClass .value [] = .rootValuePath ∧ renderKind .value [] = some [] ∧
    roundTripHolds .value [] (parseKind .value []) = false := by
  decide

/-- D_root_metadata: `OwnedTargetPath::metadata_root()` renders to `%`, which `parse_target_path`
    rejects (`get_target_prefix` strips the `%`, the JIT parser rejects the empty rest). -/
theorem witness_root_metadata :
    rtClass (.target .metadata) [] = .rootMetadata ∧
    renderKind (.target .metadata) [] = some ['%'] ∧
    roundTripHolds (.target .metadata) [] (parseKind (.target .metadata) ['%']) = false := by
  decide

/-- the event root is *not* a finding: `.` parses back to the event root. -/
theorem event_root_roundtrips :
    renderKind (.target .event) [] = some ['.'] ∧
    roundTripHolds (.target .event) [] (parseKind (.target .event) ['.']) = true := by
  decide

/-- the field `a"b` (bytes 61 22 62). -/
def segQuote : Seg := .field [97, 34, 98]

/-- D_segment_display_unescaped: `Display for OwnedSegment` of the field `a"b` is `"a"b"` (quoted,
    not escaped), which does not parse. -/
theorem witness_segment_display :
    segUnescaped segQuote = true ∧
    renderSegment segQuote = some ['"', 'a', '"', 'b', '"'] ∧
    segRoundTripHolds segQuote (ofPResult (parseValuePath ['"', 'a', '"', 'b', '"'])) = false := by
  decide

/-- the model reproduces the overflow panic of `value * 10 + new_digit` (jit.rs:201, overflow
    checks on): `[99999999999999999999]`. (The panic itself is property C04's finding.) -/
theorem witness_index_overflow_panics :
    parseValuePath ("[99999999999999999999]".toList) = .panic := by
  decide

/-- `[-]` parses as index 0 (the `NegativeIndex` state accepts `]` before any digit). -/
theorem witness_bare_minus_is_zero : parseValuePath ['[', '-', ']'] = .ok [.index 0] := by
  decide

/-- the VRL source text `."{{a}}"`. -/
def tplText : List Char := ['.', '"', '{', '{', 'a', '}', '}', '"']

/-- D_template_field: in VRL source the quoted field `"{{a}}"` goes through the template-string
    machinery (`StringLiteralToken::template` + `Display for TemplateString`) and denotes the field
    `{{ a }}` (blanks inserted), while `parse_target_path` reads the same text as the field `{{a}}`. -/
theorem witness_template_field :
    hasTemplate tplText = true ∧
    vrlPath tplText = .path ⟨.event, [mkField "{{ a }}".toList]⟩ ∧
    parseTargetPath tplText = .ok ⟨.event, [mkField "{{a}}".toList]⟩ ∧
    agreeHolds (vrlPath tplText) (parseTargetPath tplText) = false := by
  decide

/-- an unterminated template section is dropped: `."a{{b"` denotes the field `a` in VRL source and
    the field `a{{b` for the string parser. -/
theorem witness_template_unterminated :
    let t := ".\"a{{b\"".toList
    vrlPath t = .path ⟨.event, [mkField ['a']]⟩ ∧
    parseTargetPath t = .ok ⟨.event, [mkField "a{{b".toList]⟩ := by
  decide

/-- `\\}}` is rewritten to `}}` by `template()` even when the backslash is itself the second half of
    an escaped backslash: `."\\\\}}"` denotes `}}` in VRL source and `\\}}` for the string parser. -/
theorem witness_template_close_escape :
    let t := ['.', '"', '\\', '\\', '}', '}', '"']
    hasTemplate t = true ∧
    vrlPath t = .path ⟨.event, [mkField ['}', '}']]⟩ ∧
    parseTargetPath t = .ok ⟨.event, [mkField ['\\', '}', '}']]⟩ := by
  decide

/-- non-vacuity of `agree_partial`: a text with two quoted fields, escapes and a negative index
    that both sides accept and that has no template marker. -/
example : let t := ".a.\"b \\\"c\\\\\"[-1]".toList
    hasTemplate t = false ∧
    vrlPath t = .path ⟨.event, [mkField ['a'], mkField "b \"c\\".toList, .index (-1)]⟩ ∧
    parseTargetPath t = .ok ⟨.event, [mkField ['a'], mkField "b \"c\\".toList, .index (-1)]⟩ := by
  decide

/-- non-vacuity of `roundtrip_partial`: a three-segment path with a field that needs quoting and
    escaping and a negative index satisfies the hypotheses, for each kind. -/
example : let p : CPath := [.field ['a'], .field ['b', '"', ' ', '\\'], .index (-1)]
    p.inRange = true ∧ rtClass .value p.toPath = .none ∧
    rtClass (.target .event) p.toPath = .none ∧ rtClass (.target .metadata) p.toPath = .none := by
  decide

/-- non-vacuity of `roundtrip_segment_partial`. -/
example : (CSeg.field ['a', ' ', 'b']).inRange = true ∧
    segUnescaped (CSeg.field ['a', ' ', 'b']).toSeg = false := by decide

/-- the two classes are exactly the complement of the hypothesis of `roundtrip_partial`. -/
theorem rtClass_none_iff (k : Kind) (p : Path) :
    rtClass k p = .none ↔ ¬ ((k = .value ∨ k = .target .metadata) ∧ p = []) := by
  cases k with
  | value => cases p <;> simp [rtClass]
  | target pfx => cases pfx <;> cases p <;> simp [rtClass]

end C20
