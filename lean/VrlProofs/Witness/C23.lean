/-
  C23 — witnesses and non-vacuity.

  * `toyPrims` / `toyIpPrims` satisfy the hypotheses `Prims.Lawful`, `Prims.EncTotal`,
    `IpPrims.Lawful` of the C23 theorems, so those theorems are not vacuous.
  * One witness per finding class: the round trip (or "never panics") fails inside the model exactly
    where the `_partial` theorems stop. The same inputs are replayed on the implementation
    (corpus/C23/known.case, KNOWN_FINDINGS.jsonl).
-/
import VrlProofs.Props.C23

namespace C23
open Crypt

/-! ## The hypotheses are satisfiable -/

theorem toyPrims_lawful : toyPrims.Lawful where
  cfb_rt := by intros; rfl
  cfb_len := by intros; rfl
  keystream_rt := by
    intro a k iv p c _ _ _ h
    simp only [toyPrims, Option.some.injEq] at h ⊢
    exact h.symm
  keystream_len := by
    intro a k iv p c _ _ _ h
    simp only [toyPrims, Option.some.injEq] at h
    rw [h]
  cbc_rt := by intros; rfl
  cbc_len := by intros; rfl
  aead_rt := by
    intro a k iv p c _ _ _ h
    simp only [toyPrims, Option.some.injEq] at h
    subst h
    have hl : (p ++ List.replicate 16 0).length - 16 = p.length := by simp
    simp only [toyPrims, hl, List.drop_left, List.take_left]
    simp
  aead_len := by
    intro a k iv p c _ _ _ h
    simp only [toyPrims, Option.some.injEq] at h
    subst h
    simp

theorem toyPrims_encTotal : toyPrims.EncTotal where
  keystream_some := by intros; simp [toyPrims]
  aead_some := by intros; simp [toyPrims]

theorem toyIpPrims_lawful : toyIpPrims.Lawful where
  parse_show := by
    intro ip hw
    cases ip <;> simp_all [toyIpPrims, toyParseIp, toyShowIp, Ip.WF]
  aes_rt := by intros; simp [toyIpPrims]
  aes_len := by intro k b _ hb; simpa [toyIpPrims] using hb
  pfx_rt := by
    intro k v b _ hb hv
    cases v with
    | false => simp [toyIpPrims]
    | true =>
      have h12 : (b.take 12).length = 12 := by simp [hb]
      simp only [toyIpPrims, if_true]
      rw [List.drop_left' h12, List.reverse_reverse, ← (isV4Form_iff b).mp (hv rfl),
        List.take_append_drop]
  pfx_len := by
    intro k v b _ hb
    cases v <;> simp [toyIpPrims, hb]
  pfx_keep4 := by
    intro k b _ hb hv
    have h12 : (b.take 12).length = 12 := by simp [hb]
    rw [isV4Form_iff] at hv ⊢
    simp only [toyIpPrims, if_true]
    rw [List.take_left' h12, hv]

/-- non-vacuity of `roundtrip`: a concrete algorithm name, key, IV and plaintext meet its hypotheses. -/
example : ∃ c, encrypt toyPrims
      [65,69,83,45,49,50,56,45,67,66,67,45,73,83,79,55,56,49,54]   -- "AES-128-CBC-ISO7816"
      (List.replicate 16 7) (List.replicate 16 9) [1, 2, 3] = .ok c ∧
    c.length = 16 ∧
    decrypt toyPrims [65,69,83,45,49,50,56,45,67,66,67,45,73,83,79,55,56,49,54]
      (List.replicate 16 7) (List.replicate 16 9) c = .ok [1, 2, 3] :=
  roundtrip toyPrims toyPrims_lawful toyPrims_encTotal _ _ _ _ (.cbc .k128 .iso7816) (by decide)
    (by decide) (by decide)

/-- non-vacuity of `ip_roundtrip_partial`: 2001:db8::1 in pfx mode with a key of distinct halves. -/
example : ∃ c, encryptIp toyIpPrims (54 :: [32,1,13,184,0,0,0,0,0,0,0,0,0,0,0,1])
      (List.replicate 16 1 ++ List.replicate 16 2) [112, 102, 120] = .ok c ∧
    decryptIp toyIpPrims c (List.replicate 16 1 ++ List.replicate 16 2) [112, 102, 120]
      = .ok (toyShowIp (.v6 [32,1,13,184,0,0,0,0,0,0,0,0,0,0,0,1])) :=
  ip_roundtrip_partial toyIpPrims toyIpPrims_lawful _ _ _ (.v6 [32,1,13,184,0,0,0,0,0,0,0,0,0,0,0,1]) .pfx
    (by decide) (by simp [Ip.WF]) (by decide) (by decide) (by decide) (by decide) (by decide)

/-! ## The driver's upper-casing instance on the listed names -/

/-- ASCII lower-casing (only used to state the next theorem). -/
def asciiLower (n : Bytes) : Bytes := n.map fun b => if 65 ≤ b ∧ b ≤ 90 then b + 32 else b

/-- `upperModel` (the executable stand-in for `from_utf8_lossy + to_uppercase`) leaves every listed
    name unchanged and maps its lower-case spelling to it: names are matched case-insensitively. -/
theorem upperModel_names :
    ∀ n ∈ encryptArms.flatMap (·.1), upperModel n = n ∧ upperModel (asciiLower n) = n := by
  decide

/-- `aes-128-ſıv` (long s, dotless i) is accepted as AES-128-SIV; the Kelvin sign is not a `K`. -/
theorem upperModel_unicode :
    algOfEncrypt (upperModel [97,101,115,45,49,50,56,45,0xC5,0xBF,0xC4,0xB1,118]) = some .siv128 ∧
    algOfEncrypt (upperModel [65,69,83,45,49,50,56,45,67,66,67,45,80,0xE2,0x84,0xAA,67,83,55]) = none := by
  decide

/-! ## `D_aead_reject` (repaired): a ciphertext the AEAD rejects is now the error "Invalid input" -/

/-- concrete: `decrypt!("", "aes-128-siv", <32-byte key>, <16-byte iv>)` is an error, no longer a panic. -/
theorem witness_aead_reject :
    decryptFn toyPrims [97,101,115,45,49,50,56,45,115,105,118] (List.replicate 32 0) (List.replicate 16 0) []
      = .err .invalidInput := by
  decide

/-! ## `D_v4mapped`: an IPv4-mapped IPv6 address comes back as the IPv4 address -/

/-- for every lawful choice of primitives, in AES-128 mode `::ffff:a.b.c.d` decrypts to `a.b.c.d`. -/
theorem v4mapped_returns_v4 (P : IpPrims) (hL : P.Lawful) (t k o : Bytes)
    (hp : P.parseIp t = some (.v6 (v4Prefix ++ o))) (ho : o.length = 4) (hk : k.length = 16) :
    ∃ c, encryptIp P t k [97, 101, 115, 49, 50, 56] = .ok c ∧
      decryptIp P c k [97, 101, 115, 49, 50, 56] = .ok (P.showIp (.v4 o)) := by
  have hw : (Ip.v6 (v4Prefix ++ o)).WF := by simp [Ip.WF, ho, v4Prefix_length]
  have hbl : (P.aesEnc k (ipToBytes (.v6 (v4Prefix ++ o)))).length = 16 :=
    hL.aes_len k _ hk (ipToBytes_length _ hw)
  refine ⟨P.showIp (ipcryptEnc P k (.v6 (v4Prefix ++ o))), by simp [encryptIp, hp, modeOf, hk], ?_⟩
  rw [decryptIp_flat]
  unfold decryptIpFlat
  rw [show P.parseIp (P.showIp (ipcryptEnc P k (.v6 (v4Prefix ++ o)))) = some (ipcryptEnc P k (.v6 (v4Prefix ++ o)))
    from hL.parse_show _ (bytesToIp_WF _ hbl)]
  have hdec : ipcryptDec P k (ipcryptEnc P k (.v6 (v4Prefix ++ o))) = .v4 o := by
    unfold ipcryptDec ipcryptEnc
    rw [ipToBytes_bytesToIp, hL.aes_rt k _ hk (ipToBytes_length _ hw),
      bytesToIp_ipToBytes_mapped _ (isV4Form_v4 o), List.drop_left' v4Prefix_length]
  simp [modeOf, hk, hdec]

/-- concrete (`::ffff:1.2.3.4`, both modes): the round trip returns a different address. -/
theorem witness_v4mapped :
    D_v4mapped (.v6 (v4Prefix ++ [1, 2, 3, 4])) = true ∧
    (∀ c, encryptIp toyIpPrims (toyShowIp (.v6 (v4Prefix ++ [1, 2, 3, 4]))) (List.replicate 16 1)
        [97, 101, 115, 49, 50, 56] = .ok c →
      decryptIp toyIpPrims c (List.replicate 16 1) [97, 101, 115, 49, 50, 56]
        = .ok (toyShowIp (.v4 [1, 2, 3, 4]))) ∧
    (∀ c, encryptIp toyIpPrims (toyShowIp (.v6 (v4Prefix ++ [1, 2, 3, 4])))
        (List.replicate 16 1 ++ List.replicate 16 2) [112, 102, 120] = .ok c →
      decryptIp toyIpPrims c (List.replicate 16 1 ++ List.replicate 16 2) [112, 102, 120]
        = .ok (toyShowIp (.v4 [1, 2, 3, 4]))) := by
  refine ⟨by decide, ?_, ?_⟩ <;> intro c hc
  · have : c = toyShowIp (ipcryptEnc toyIpPrims (List.replicate 16 1) (.v6 (v4Prefix ++ [1, 2, 3, 4]))) := by
      have h' : encryptIp toyIpPrims (toyShowIp (.v6 (v4Prefix ++ [1, 2, 3, 4]))) (List.replicate 16 1)
          [97, 101, 115, 49, 50, 56] = .ok (toyShowIp (ipcryptEnc toyIpPrims (List.replicate 16 1)
            (.v6 (v4Prefix ++ [1, 2, 3, 4])))) := by decide
      rw [h'] at hc; injection hc with hc; exact hc.symm
    subst this; decide
  · have : c = toyShowIp (pfxIpEnc toyIpPrims (List.replicate 16 1 ++ List.replicate 16 2)
        (.v6 (v4Prefix ++ [1, 2, 3, 4]))) := by
      have h' : encryptIp toyIpPrims (toyShowIp (.v6 (v4Prefix ++ [1, 2, 3, 4])))
          (List.replicate 16 1 ++ List.replicate 16 2) [112, 102, 120]
          = .ok (toyShowIp (pfxIpEnc toyIpPrims (List.replicate 16 1 ++ List.replicate 16 2)
            (.v6 (v4Prefix ++ [1, 2, 3, 4])))) := by decide
      rw [h'] at hc; injection hc with hc; exact hc.symm
    subst this; decide

/-! ## `D_pfx_equal_halves`: `IpcryptPfx::new` asserts that the key halves differ -/

/-- for every choice of primitives: a parsable address and a 32-byte key whose halves are equal
    are rejected by `encrypt_ip` (and `decrypt_ip`) in pfx mode with an error (repaired: it used
    to reach the assertion in `IpcryptPfx::new` and panic). -/
theorem pfx_equal_halves_panics (P : IpPrims) (t k : Bytes) (ip : Ip)
    (hp : P.parseIp t = some ip) (hk : k.length = 32) (hh : k.take 16 = k.drop 16) :
    encryptIp P t k [112, 102, 120] = .err .pfxHalves ∧ decryptIp P t k [112, 102, 120] = .err .pfxHalves := by
  have hpn : pfxKeyPanics k = true := by simp [pfxKeyPanics, hh]
  have he : encryptIp P t k [112, 102, 120] = .err .pfxHalves := by
    simp [encryptIp, hp, modeOf, hk, hpn]
  exact ⟨he, ((ip_checks_agree P t k _).1 _).mp he⟩

theorem witness_pfx_equal_halves :
    D_pfx_equal_halves .pfx (List.replicate 32 7) = true ∧
    encryptIp toyIpPrims (toyShowIp (.v4 [1, 2, 3, 4])) (List.replicate 32 7) [112, 102, 120] = .err .pfxHalves := by
  decide

/-! ## `D_pfx_v4form`: a pfx ciphertext in `::ffff:0:0/96` is printed, and then decrypted, as IPv4 -/

/-- the IPv6 address `403:201:ffff::` under the toy cipher (which reverses the bytes): the
    ciphertext is `::ffff:1.2.3.4`, printed as `1.2.3.4`, and `decrypt_ip` of that is the IPv4
    address `4.3.2.1`, not the input. The round-trip laws of the primitives all hold. -/
theorem witness_pfx_v4form :
    let ip : Ip := .v6 [4, 3, 2, 1, 255, 255, 0, 0, 0, 0, 0, 0, 0, 0, 0, 0]
    let key := List.replicate 16 1 ++ List.replicate 16 2
    D_v4mapped ip = false ∧ D_pfx_equal_halves .pfx key = false ∧
    D_pfx_v4form .pfx ip (pfxIpEnc toyIpPrims key ip) = true ∧
    encryptIp toyIpPrims (toyShowIp ip) key [112, 102, 120] = .ok (toyShowIp (.v4 [1, 2, 3, 4])) ∧
    decryptIp toyIpPrims (toyShowIp (.v4 [1, 2, 3, 4])) key [112, 102, 120]
      = .ok (toyShowIp (.v4 [4, 3, 2, 1])) := by
  decide

/-- hence the full-strength statement (no side conditions) is false of the model even for lawful
    primitives. -/
theorem ip_roundtrip_full_false :
    ¬ (∀ (P : IpPrims), P.Lawful → ∀ (t k m : Bytes) (ip : Ip) (md : Mode),
        P.parseIp t = some ip → ip.WF → modeOf m = some md → k.length = md.keyLen →
        ∃ c, encryptIp P t k m = .ok c ∧ decryptIp P c k m = .ok (P.showIp ip)) := by
  intro h
  obtain ⟨c, hc, hd⟩ := h toyIpPrims toyIpPrims_lawful
    (toyShowIp (.v6 [4, 3, 2, 1, 255, 255, 0, 0, 0, 0, 0, 0, 0, 0, 0, 0]))
    (List.replicate 16 1 ++ List.replicate 16 2) [112, 102, 120]
    (.v6 [4, 3, 2, 1, 255, 255, 0, 0, 0, 0, 0, 0, 0, 0, 0, 0]) .pfx (by decide) (by simp [Ip.WF]) (by decide)
    (by decide)
  have hw := witness_pfx_v4form
  simp only at hw
  rw [hw.2.2.2.1] at hc
  injection hc with hc
  subst hc
  rw [hw.2.2.2.2] at hd
  exact absurd hd (by decide)

end C23
