/-
  Witnesses for the C19 finding classes: on each concrete input (the replay lines of
  corpus/C19/known.case, which the check re-runs on the implementation) the value belongs to the
  kind, the law fails on the MODEL, and the input lies in the stated class. All by kernel `decide`.
  Generated from corpus/C19/known.case with bin/wire2lean.
-/
import VrlModel.C19

namespace C19.W
open Spec

/-! `o.c19.at  ⇥  [ t ]  ⇥  K - C { #0 K o _ _ #1 K u _ _ } E K u _ _ _  ⇥  #-1` -/
def at_minlen_counts_optional_v : Value :=
  (.arr (.cons (.bool true) .nil))
def at_minlen_counts_optional_K : Kind :=
  (Kind.mk {} (.some (.mk (.cons [0] (Kind.mk { boolean := true } .none .none) (.cons [1] (Kind.mk { undefined := true } .none .none) .nil)) (.exact (Kind.mk { undefined := true } .none .none)))) .none)
def at_minlen_counts_optional_p : Path :=
  [.index (-1)]
theorem witness_at_minlen_counts_optional :
    mem at_minlen_counts_optional_v at_minlen_counts_optional_K = true ∧ atLawM at_minlen_counts_optional_v at_minlen_counts_optional_K at_minlen_counts_optional_p = false ∧
    atClass at_minlen_counts_optional_K at_minlen_counts_optional_p = .minlen_counts_optional := by decide

/-! `o.c19.insert  ⇥  [ ]  ⇥  K - C { #0 K u _ _ } E K u _ _ _  ⇥  #1  ⇥  n  ⇥  K n _ _` -/
def insert_minlen_counts_optional_v : Value :=
  (.arr .nil)
def insert_minlen_counts_optional_K : Kind :=
  (Kind.mk {} (.some (.mk (.cons [0] (Kind.mk { undefined := true } .none .none) .nil) (.exact (Kind.mk { undefined := true } .none .none)))) .none)
def insert_minlen_counts_optional_p : Path :=
  [.index (1)]
def insert_minlen_counts_optional_x : Value :=
  .null
def insert_minlen_counts_optional_X : Kind :=
  (Kind.mk { null := true } .none .none)
theorem witness_insert_minlen_counts_optional :
    mem insert_minlen_counts_optional_v insert_minlen_counts_optional_K = true ∧ mem insert_minlen_counts_optional_x insert_minlen_counts_optional_X = true ∧
    insertLawM insert_minlen_counts_optional_v insert_minlen_counts_optional_K insert_minlen_counts_optional_p insert_minlen_counts_optional_x insert_minlen_counts_optional_X = false ∧
    insertClass insert_minlen_counts_optional_K insert_minlen_counts_optional_p insert_minlen_counts_optional_X = .minlen_counts_optional := by decide

/-! `o.c19.insert  ⇥  [ f ]  ⇥  K - C { #0 K o _ _ } E K u _ _ _  ⇥  #-2  ⇥  re:612b  ⇥  K r _ _` -/
def insert_neg_exact_noshift_v : Value :=
  (.arr (.cons (.bool false) .nil))
def insert_neg_exact_noshift_K : Kind :=
  (Kind.mk {} (.some (.mk (.cons [0] (Kind.mk { boolean := true } .none .none) .nil) (.exact (Kind.mk { undefined := true } .none .none)))) .none)
def insert_neg_exact_noshift_p : Path :=
  [.index (-2)]
def insert_neg_exact_noshift_x : Value :=
  (.regex [97, 43])
def insert_neg_exact_noshift_X : Kind :=
  (Kind.mk { regex := true } .none .none)
theorem witness_insert_neg_exact_noshift :
    mem insert_neg_exact_noshift_v insert_neg_exact_noshift_K = true ∧ mem insert_neg_exact_noshift_x insert_neg_exact_noshift_X = true ∧
    insertLawM insert_neg_exact_noshift_v insert_neg_exact_noshift_K insert_neg_exact_noshift_p insert_neg_exact_noshift_x insert_neg_exact_noshift_X = false ∧
    insertClass insert_neg_exact_noshift_K insert_neg_exact_noshift_p insert_neg_exact_noshift_X = .neg_insert_exact_noshift := by decide

/-! `o.c19.insert  ⇥  i:2  ⇥  K i _ C { k:61 K f _ _ } E K u _ _  ⇥  .62  ⇥  n  ⇥  K n _ _` -/
def insert_union_alt_v : Value :=
  (.int (2))
def insert_union_alt_K : Kind :=
  (Kind.mk { integer := true } .none (.some (.mk (.cons [97] (Kind.mk { float := true } .none .none) .nil) (.exact (Kind.mk { undefined := true } .none .none)))))
def insert_union_alt_p : Path :=
  [.field [98]]
def insert_union_alt_x : Value :=
  .null
def insert_union_alt_X : Kind :=
  (Kind.mk { null := true } .none .none)
theorem witness_insert_union_alt :
    mem insert_union_alt_v insert_union_alt_K = true ∧ mem insert_union_alt_x insert_union_alt_X = true ∧
    insertLawM insert_union_alt_v insert_union_alt_K insert_union_alt_p insert_union_alt_x insert_union_alt_X = false ∧
    insertClass insert_union_alt_K insert_union_alt_p insert_union_alt_X = .insert_union_alt := by decide

/-! `o.c19.remove  ⇥  [ i:5 ]  ⇥  K - C { #0 K i _ _ } E K i _ _ _  ⇥  #-3  ⇥  0` -/
def remove_neg_underflow_v : Value :=
  (.arr (.cons (.int (5)) .nil))
def remove_neg_underflow_K : Kind :=
  (Kind.mk {} (.some (.mk (.cons [0] (Kind.mk { integer := true } .none .none) .nil) (.exact (Kind.mk { integer := true } .none .none)))) .none)
def remove_neg_underflow_p : Path :=
  [.index (-3)]
/-- fixed (`D_remove_neg_underflow`; e3023e2): `x + 1 - negative_index` underflowed (a panic while
    typing); with the saturating subtraction the removal succeeds and the law holds -/
theorem fixed_remove_neg_underflow :
    mem remove_neg_underflow_v remove_neg_underflow_K = true ∧ Kind.Outcome.isPanic (remove_neg_underflow_K.remove remove_neg_underflow_p false) = false ∧
    removeLawM remove_neg_underflow_v remove_neg_underflow_K remove_neg_underflow_p false = true ∧
    panicClassRemove remove_neg_underflow_K remove_neg_underflow_p false = .none := by decide

/-! `o.c19.remove  ⇥  [ i:1 b:73 t ]  ⇥  K - C { #0 K i _ _ #1 K b _ _ #2 K o _ _ } E K u _ _ _  ⇥  #0  ⇥  0` -/
def remove_shift_v : Value :=
  (.arr (.cons (.int (1)) (.cons (.bytes [115]) (.cons (.bool true) .nil))))
def remove_shift_K : Kind :=
  (Kind.mk {} (.some (.mk (.cons [0] (Kind.mk { integer := true } .none .none) (.cons [1] (Kind.mk { bytes := true } .none .none) (.cons [2] (Kind.mk { boolean := true } .none .none) .nil))) (.exact (Kind.mk { undefined := true } .none .none)))) .none)
def remove_shift_p : Path :=
  [.index (0)]
/-- fixed (`D_remove_shift`; ff94317): the loop of `remove_shift` never advanced, so of
    `[integer, bytes, boolean]` minus index 0 only one element moved (`{0: bytes, 2: boolean}`); now
    every later known element moves and `["s", true]` belongs to the kind left behind -/
theorem fixed_remove_shift :
    mem remove_shift_v remove_shift_K = true ∧ removeLawM remove_shift_v remove_shift_K remove_shift_p false = true ∧
    removeClass remove_shift_K remove_shift_p false = .none := by decide

/-! `o.c19.remove  ⇥  [ re:612b ]  ⇥  K - C { #0 K r _ _ #1 K fu _ _ } E K bn _ _ _  ⇥  #-1  ⇥  0` -/
def remove_minlen_counts_optional_v : Value :=
  (.arr (.cons (.regex [97, 43]) .nil))
def remove_minlen_counts_optional_K : Kind :=
  (Kind.mk {} (.some (.mk (.cons [0] (Kind.mk { regex := true } .none .none) (.cons [1] (Kind.mk { float := true, undefined := true } .none .none) .nil)) (.exact (Kind.mk { bytes := true, null := true } .none .none)))) .none)
def remove_minlen_counts_optional_p : Path :=
  [.index (-1)]
theorem witness_remove_minlen_counts_optional :
    mem remove_minlen_counts_optional_v remove_minlen_counts_optional_K = true ∧ removeLawM remove_minlen_counts_optional_v remove_minlen_counts_optional_K remove_minlen_counts_optional_p false = false ∧
    removeClass remove_minlen_counts_optional_K remove_minlen_counts_optional_p false = .minlen_counts_optional := by decide

/-! `o.c19.remove  ⇥  { k:61 { k:63 d:bff4000000000000 k:c3a9 i:-3 } }  ⇥  K - _ C { } E K - _ C { k:c3a9 K i _ _ } E K f _ _  ⇥  .61 .c3a9  ⇥  1` -/
def remove_through_unknown_v : Value :=
  (.obj (.cons [97] (.obj (.cons [99] (.float 0xbff4000000000000) (.cons [195, 169] (.int (-3)) .nil))) .nil))
def remove_through_unknown_K : Kind :=
  (Kind.mk {} .none (.some (.mk .nil (.exact (Kind.mk {} .none (.some (.mk (.cons [195, 169] (Kind.mk { integer := true } .none .none) .nil) (.exact (Kind.mk { float := true } .none .none)))))))))
def remove_through_unknown_p : Path :=
  [.field [97], .field [195, 169]]
theorem witness_remove_through_unknown :
    mem remove_through_unknown_v remove_through_unknown_K = true ∧ removeLawM remove_through_unknown_v remove_through_unknown_K remove_through_unknown_p true = false ∧
    removeClass remove_through_unknown_K remove_through_unknown_p true = .remove_through_unknown := by decide

/-! `o.c19.remove  ⇥  { k:63 b:73 }  ⇥  K - _ C { k:63 K b _ C { k:62 K b _ _ } E K u _ _ } E K u _ _  ⇥  .63 .62  ⇥  1` -/
def remove_compact_union_alt_v : Value :=
  (.obj (.cons [99] (.bytes [115]) .nil))
def remove_compact_union_alt_K : Kind :=
  (Kind.mk {} .none (.some (.mk (.cons [99] (Kind.mk { bytes := true } .none (.some (.mk (.cons [98] (Kind.mk { bytes := true } .none .none) .nil) (.exact (Kind.mk { undefined := true } .none .none))))) .nil) (.exact (Kind.mk { undefined := true } .none .none)))))
def remove_compact_union_alt_p : Path :=
  [.field [99], .field [98]]
theorem witness_remove_compact_union_alt :
    mem remove_compact_union_alt_v remove_compact_union_alt_K = true ∧ removeLawM remove_compact_union_alt_v remove_compact_union_alt_K remove_compact_union_alt_p true = false ∧
    removeClass remove_compact_union_alt_K remove_compact_union_alt_p true = .compact_union_alt := by decide

/-! `o.c19.remove  ⇥  { k:61 { k:63 re:612b } }  ⇥  K - _ C { k:61 K - _ C { k:62 K ou _ _ k:63 K r _ _ } E K u _ _ } E K u _ _  ⇥  .61 .63  ⇥  1` -/
def remove_compact_optional_known_v : Value :=
  (.obj (.cons [97] (.obj (.cons [99] (.regex [97, 43]) .nil)) .nil))
def remove_compact_optional_known_K : Kind :=
  (Kind.mk {} .none (.some (.mk (.cons [97] (Kind.mk {} .none (.some (.mk (.cons [98] (Kind.mk { boolean := true, undefined := true } .none .none) (.cons [99] (Kind.mk { regex := true } .none .none) .nil)) (.exact (Kind.mk { undefined := true } .none .none))))) .nil) (.exact (Kind.mk { undefined := true } .none .none)))))
def remove_compact_optional_known_p : Path :=
  [.field [97], .field [99]]
theorem witness_remove_compact_optional_known :
    mem remove_compact_optional_known_v remove_compact_optional_known_K = true ∧ removeLawM remove_compact_optional_known_v remove_compact_optional_known_K remove_compact_optional_known_p true = false ∧
    removeClass remove_compact_optional_known_K remove_compact_optional_known_p true = .compact_optional_known := by decide

/-! `o.c19.remove  ⇥  [ i:0 n n i:3 ]  ⇥  K - C { #0 K i _ _ #3 K i _ _ } E K n _ _ _  ⇥  #-2  ⇥  0` -/
def remove_neg_gap_v : Value :=
  (.arr (.cons (.int (0)) (.cons .null (.cons .null (.cons (.int (3)) .nil)))))
def remove_neg_gap_K : Kind :=
  (Kind.mk {} (.some (.mk (.cons [0] (Kind.mk { integer := true } .none .none) (.cons [3] (Kind.mk { integer := true } .none .none) .nil)) (.exact (Kind.mk { null := true } .none .none)))) .none)
def remove_neg_gap_p : Path :=
  [.index (-2)]
theorem witness_remove_neg_gap :
    mem remove_neg_gap_v remove_neg_gap_K = true ∧ removeLawM remove_neg_gap_v remove_neg_gap_K remove_neg_gap_p false = false ∧
    removeClass remove_neg_gap_K remove_neg_gap_p false = .remove_neg_gap := by decide

/-! `o.c19.union  ⇥  [ ts:0 ]  ⇥  K - C { } E K t _ _ _  ⇥  K bifon C { } I bifonAO C { } I bifonAO` -/
def union_inf_over_exact_v : Value :=
  (.arr (.cons (.ts (0)) .nil))
def union_inf_over_exact_A : Kind :=
  (Kind.mk {} (.some (.mk .nil (.exact (Kind.mk { timestamp := true } .none .none)))) .none)
def union_inf_over_exact_B : Kind :=
  (Kind.mk { bytes := true, integer := true, float := true, boolean := true, null := true } (.some (.mk .nil (.infinite { bytes := true, integer := true, float := true, boolean := true, null := true, array := true, object := true }))) (.some (.mk .nil (.infinite { bytes := true, integer := true, float := true, boolean := true, null := true, array := true, object := true }))))
theorem witness_union_inf_over_exact :
    mem union_inf_over_exact_v union_inf_over_exact_A = true ∧ unionLawM union_inf_over_exact_v union_inf_over_exact_A union_inf_over_exact_B = false ∧
    unionClass union_inf_over_exact_A union_inf_over_exact_B = .inf_over_exact := by decide

/-! `o.c19.merge  ⇥  { k:61 b:73 }  ⇥  K - _ C { k:61 K b _ _ } E K u _ _  ⇥  { }  ⇥  K - _ C { k:61 K iu _ _ } E K u _ _` -/
def merge_overwrite_maybe_absent_a : Value :=
  (.obj (.cons [97] (.bytes [115]) .nil))
def merge_overwrite_maybe_absent_A : Kind :=
  (Kind.mk {} .none (.some (.mk (.cons [97] (Kind.mk { bytes := true } .none .none) .nil) (.exact (Kind.mk { undefined := true } .none .none)))))
def merge_overwrite_maybe_absent_b : Value :=
  (.obj .nil)
def merge_overwrite_maybe_absent_B : Kind :=
  (Kind.mk {} .none (.some (.mk (.cons [97] (Kind.mk { integer := true, undefined := true } .none .none) .nil) (.exact (Kind.mk { undefined := true } .none .none)))))
theorem witness_merge_overwrite_maybe_absent :
    mem merge_overwrite_maybe_absent_a merge_overwrite_maybe_absent_A = true ∧ mem merge_overwrite_maybe_absent_b merge_overwrite_maybe_absent_B = true ∧
    mergeLawM merge_overwrite_maybe_absent_a merge_overwrite_maybe_absent_A merge_overwrite_maybe_absent_b merge_overwrite_maybe_absent_B = false ∧
    mergeClass merge_overwrite_maybe_absent_A merge_overwrite_maybe_absent_B = .merge_overwrite_maybe_absent := by decide

/-! `o.c19.merge  ⇥  { }  ⇥  K - _ C { } E K - _ C { k:61 K f _ _ } E K u _ _  ⇥  { k:63 { } }  ⇥  K - _ C { } E K - _ C { } E K u _ _` -/
def merge_unknown_overwrite_a : Value :=
  (.obj .nil)
def merge_unknown_overwrite_A : Kind :=
  (Kind.mk {} .none (.some (.mk .nil (.exact (Kind.mk {} .none (.some (.mk (.cons [97] (Kind.mk { float := true } .none .none) .nil) (.exact (Kind.mk { undefined := true } .none .none)))))))))
def merge_unknown_overwrite_b : Value :=
  (.obj (.cons [99] (.obj .nil) .nil))
def merge_unknown_overwrite_B : Kind :=
  (Kind.mk {} .none (.some (.mk .nil (.exact (Kind.mk {} .none (.some (.mk .nil (.exact (Kind.mk { undefined := true } .none .none)))))))))
theorem witness_merge_unknown_overwrite :
    mem merge_unknown_overwrite_a merge_unknown_overwrite_A = true ∧ mem merge_unknown_overwrite_b merge_unknown_overwrite_B = true ∧
    mergeLawM merge_unknown_overwrite_a merge_unknown_overwrite_A merge_unknown_overwrite_b merge_unknown_overwrite_B = false ∧
    mergeClass merge_unknown_overwrite_A merge_unknown_overwrite_B = .merge_unknown_overwrite := by decide

/-! `o.c19.merge  ⇥  { }  ⇥  K - _ C { } I bifonAO  ⇥  { k:61 re:612b }  ⇥  K - _ C { } E K r _ _` -/
def merge_inf_over_exact_a : Value :=
  (.obj .nil)
def merge_inf_over_exact_A : Kind :=
  (Kind.mk {} .none (.some (.mk .nil (.infinite { bytes := true, integer := true, float := true, boolean := true, null := true, array := true, object := true }))))
def merge_inf_over_exact_b : Value :=
  (.obj (.cons [97] (.regex [97, 43]) .nil))
def merge_inf_over_exact_B : Kind :=
  (Kind.mk {} .none (.some (.mk .nil (.exact (Kind.mk { regex := true } .none .none)))))
theorem witness_merge_inf_over_exact :
    mem merge_inf_over_exact_a merge_inf_over_exact_A = true ∧ mem merge_inf_over_exact_b merge_inf_over_exact_B = true ∧
    mergeLawM merge_inf_over_exact_a merge_inf_over_exact_A merge_inf_over_exact_b merge_inf_over_exact_B = false ∧
    mergeClass merge_inf_over_exact_A merge_inf_over_exact_B = .inf_over_exact := by decide

/-! `o.c19.memsup  ⇥  { }  ⇥  K bifon C { } I bifonAO C { } I bifonAO` -/
def memsup_inf_vs_exact_v : Value :=
  (.obj .nil)
def memsup_inf_vs_exact_K : Kind :=
  (Kind.mk { bytes := true, integer := true, float := true, boolean := true, null := true } (.some (.mk .nil (.infinite { bytes := true, integer := true, float := true, boolean := true, null := true, array := true, object := true }))) (.some (.mk .nil (.infinite { bytes := true, integer := true, float := true, boolean := true, null := true, array := true, object := true }))))
theorem witness_memsup_inf_vs_exact :
    mem memsup_inf_vs_exact_v memsup_inf_vs_exact_K = true ∧ memsup_inf_vs_exact_K.isSuperset memsup_inf_vs_exact_v.kindOf = false ∧
    memsupClass memsup_inf_vs_exact_K false = .superset_inf_vs_exact := by decide

/-! `o.c19.canon  ⇥  { }  ⇥  K - _ C { k:61 K bifotrnu C { } I bifotrnAO C { } I bifotrnAO } E K bifotrn C { } I bifonAO C { } I bifonAO` -/
def canon_exact_to_infinite_K : Kind :=
  (Kind.mk {} .none (.some (.mk (.cons [97] (Kind.mk { bytes := true, integer := true, float := true, boolean := true, timestamp := true, regex := true, null := true, undefined := true } (.some (.mk .nil (.infinite { bytes := true, integer := true, float := true, boolean := true, timestamp := true, regex := true, null := true, array := true, object := true }))) (.some (.mk .nil (.infinite { bytes := true, integer := true, float := true, boolean := true, timestamp := true, regex := true, null := true, array := true, object := true })))) .nil) (.exact (Kind.mk { bytes := true, integer := true, float := true, boolean := true, timestamp := true, regex := true, null := true } (.some (.mk .nil (.infinite { bytes := true, integer := true, float := true, boolean := true, null := true, array := true, object := true }))) (.some (.mk .nil (.infinite { bytes := true, integer := true, float := true, boolean := true, null := true, array := true, object := true }))))))))
theorem witness_canon_exact_to_infinite :
    canon_exact_to_infinite_K.canonicalize.eq canon_exact_to_infinite_K = false ∧ canonClass canon_exact_to_infinite_K = .canon_exact_to_infinite := by decide

/-! model-only witness (an `Exact(never)` unknown cannot be built through the public constructors):
    `Unknown::is_superset` accepts `Exact(k)` ⊇ `Infinite` as soon as `k.is_any()`, which holds for `never`. -/
def superset_exact_isAny_A : Kind :=
  Kind.ofObject (.mk .nil (.exact Kind.never))
def superset_exact_isAny_v : Value := .obj (.cons [97] (.int 1) .nil)
theorem witness_superset_exact_isAny :
    superset_exact_isAny_A.isSuperset Kind.anyObject = true ∧
    mem superset_exact_isAny_v Kind.anyObject = true ∧
    mem superset_exact_isAny_v superset_exact_isAny_A = false ∧
    superset_exact_isAny_A.anyUnknown Unknown.exactIsAny = true := by decide

/-! `o.c19.canon  ⇥  [ [ re:612b ] ]  ⇥  K - C { } E K bifon C { } I bifotrnAO C { } I bifonAO _`:
    `canonicalize` loses a member. -/
def canon_loses_K : Kind :=
  (Kind.mk {} (.some (.mk .nil (.exact (Kind.mk { bytes := true, integer := true, float := true, boolean := true, null := true } (.some (.mk .nil (.infinite { bytes := true, integer := true, float := true, boolean := true, timestamp := true, regex := true, null := true, array := true, object := true }))) (.some (.mk .nil (.infinite { bytes := true, integer := true, float := true, boolean := true, null := true, array := true, object := true }))))))) .none)
def canon_loses_v : Value :=
  (.arr (.cons (.arr (.cons (.regex [97, 43]) .nil)) .nil))
theorem witness_canon_loses_member :
    mem canon_loses_v canon_loses_K = true ∧ canonLawM canon_loses_v canon_loses_K = false ∧
    canonClass canon_loses_K = .canon_exact_to_infinite := by decide

/-! `D_inf_over_exact` reached through `at_path`, `insert` and `remove` (they union kinds with
    `merge_keep` / `Collection::merge`), and `canonicalize` adding a member. -/
def infx_K : Kind :=
  (Kind.mk {} (.some (.mk (.cons [0] (Kind.mk {} (.some (.mk .nil (.exact (Kind.mk { timestamp := true } .none .none)))) .none) .nil) (.infinite { bytes := true, integer := true, float := true, boolean := true, null := true, array := true, object := true }))) .none)
def infx_v : Value :=
  (.arr (.cons (.arr (.cons (.ts (0)) .nil)) .nil))
theorem witness_at_inf_over_exact :
    mem infx_v infx_K = true ∧ atLawM infx_v infx_K [.index (-1)] = false ∧
    atClass infx_K [.index (-1)] = .inf_over_exact := by decide
theorem witness_insert_inf_over_exact :
    mem infx_v infx_K = true ∧
    insertLawM infx_v infx_K [.index (-2)] (.int 1) Kind.integer = false ∧
    insertClass infx_K [.index (-2)] Kind.integer = .inf_over_exact := by decide
def infx_K3 : Kind :=
  (Kind.mk {} (.some (.mk (.cons [0] (Kind.mk { integer := true } .none .none) (.cons [1] (Kind.mk {} (.some (.mk .nil (.exact (Kind.mk { timestamp := true } .none .none)))) .none) .nil)) (.infinite { bytes := true, integer := true, float := true, boolean := true, null := true, array := true, object := true }))) .none)
def infx_v3 : Value :=
  (.arr (.cons (.int (5)) (.cons (.arr (.cons (.ts (0)) .nil)) (.cons (.bytes [120]) .nil))))
theorem witness_remove_inf_over_exact :
    mem infx_v3 infx_K3 = true ∧ removeLawM infx_v3 infx_K3 [.index (-1)] false = false ∧
    removeClass infx_K3 [.index (-1)] false = .inf_over_exact := by decide
def canon_adds_K : Kind :=
  (Kind.mk {} (.some (.mk .nil (.exact (Kind.mk { bytes := true, integer := true, float := true, boolean := true, timestamp := true, regex := true, null := true } (.some (.mk .nil (.exact (Kind.mk { integer := true } .none .none)))) (.some (.mk .nil (.infinite { bytes := true, integer := true, float := true, boolean := true, timestamp := true, regex := true, null := true, array := true, object := true }))))))) .none)
def canon_adds_v : Value :=
  (.arr (.cons (.arr (.cons (.bytes [115]) .nil)) .nil))
theorem witness_canon_adds_member :
    mem canon_adds_v canon_adds_K = false ∧ mem canon_adds_v canon_adds_K.canonicalize = true ∧
    canonClass canon_adds_K = .canon_exact_to_infinite := by decide

/-! ### non-vacuity of the hypotheses of the `_partial` theorems (concrete, non-trivial states) -/

def nv_K : Kind :=
  (Kind.mk {} .none (.some (.mk (.cons [97] (Kind.mk { integer := true } (.some (.mk (.cons [0] (Kind.mk { bytes := true } .none .none) .nil) (.exact (Kind.mk { float := true } .none .none)))) .none) (.cons [98] (Kind.mk { bytes := true, undefined := true } .none .none) .nil)) (.infinite { bytes := true, integer := true, float := true, boolean := true, timestamp := true, regex := true, null := true, array := true, object := true }))))
def nv_v : Value :=
  (.obj (.cons [97] (.arr (.cons (.bytes [115]) (.cons (.float 0x3ff0000000000000) .nil))) (.cons [99] (.bool true) .nil)))
def nv_B : Kind :=
  (Kind.mk { null := true } (.some (.mk (.cons [0] (Kind.mk { integer := true } .none .none) .nil) (.exact (Kind.mk { bytes := true } .none .none)))) .none)

/-- `at_sound_class`, `insert_sound_partial`: a nested member, a key-sorted kind, paths through a known
    field, an unknown field and a negative index into an array of unknown length. -/
example : nv_v.Sorted = true ∧ mem nv_v nv_K = true ∧ nv_K.SortedK = true ∧
    atClass nv_K [.field [97], .index (-1)] = .none ∧ atClass nv_K [.field [99]] = .none ∧
    Spec.nonNegPath [.field [97], .index 3] = true ∧
    anyOnInsertPath optionalIdx nv_K [.field [97], .index 3] = false := by decide

/-- `union_sound_partial`, `superset_sound_partial`, `mem_iff_superset_partial`. -/
example : nv_K.SortedK = true ∧ nv_B.SortedK = true ∧ unionClass nv_K nv_B = .none ∧
    nv_K.hasNonAnyInf = false ∧ nv_K.WF = true ∧ nv_K.anyUnknown Unknown.exactIsAny = false ∧
    nv_K.isSuperset nv_v.kindOf = true := by decide

/-- `insert_sound_partial` needs the kind met at each segment not to be a union with that segment's
    collection state and a required known entry: `nv_K` at `.a` is `integer or [bytes, …float]`, so
    `.a[3]` is in `D_insert_union_alt`; `.c.d[2]` (through the unknown `any` fields) is not. -/
example : anyOnInsertPath unionAltReq nv_K [.field [97], .index 3] = true ∧
    anyOnInsertPath unionAltReq nv_K [.field [99], .field [100], .index 2] = false ∧
    anyOnInsertPath optionalIdx nv_K [.field [99], .field [100], .index 2] = false := by decide

/-- `merge_sound_partial`: `{a: bytes, *: integer} | {a: float, b: null}`. -/
def nv_mA : Kind :=
  (Kind.mk {} .none (.some (.mk (.cons [97] (Kind.mk { bytes := true } .none .none) .nil) (.exact (Kind.mk { integer := true } .none .none)))))
def nv_mB : Kind :=
  (Kind.mk {} .none (.some (.mk (.cons [97] (Kind.mk { float := true } .none .none) (.cons [98] (Kind.mk { null := true } .none .none) .nil)) (.exact (Kind.mk { undefined := true } .none .none)))))
example : nv_mA.SortedK = true ∧ nv_mB.SortedK = true ∧ mergeClass nv_mA nv_mB = .none ∧
    mem (.obj (.cons [97] (.bytes [120]) (.cons [122] (.int 1) .nil))) nv_mA = true ∧
    mem (.obj (.cons [97] (.float 0) (.cons [98] .null .nil))) nv_mB = true := by decide

end C19.W
