/-
  Witnesses for C02: programs the model (and the real compiler) types infallible that end in a
  run-time error which is not the NaN error. One per finding class of the type inference; and
  `fixed_…` theorems: the counterexamples of the repaired classes, now typed fallible.
-/
import VrlProofs.Witness.C01

namespace C02.W
open Lang Spec C01.W

/-- typed infallible, yet the run ends with a run-time error -/
def InfallibleButFails (prog : Exprs) (ev : Value) : Prop :=
  (typeSeq prog T0 {}).1.finish.fallible = false ∧ outcome prog ev = .err

instance (prog : Exprs) (ev : Value) : Decidable (InfallibleButFails prog ev) := by
  unfold InfallibleButFails; exact inferInstance

/-- typed fallible (the compiler rejects the program unless the error is handled), and it does fail -/
def FallibleAndFails (prog : Exprs) (ev : Value) : Prop :=
  (typeSeq prog T0 {}).1.finish.fallible = true ∧ outcome prog ev = .err

instance (prog : Exprs) (ev : Value) : Decidable (FallibleAndFails prog ev) := by
  unfold FallibleAndFails; exact inferInstance

set_option maxRecDepth 100000 in
/-- fixed (`D_del_typing`, variables; 6af54e3): `10 / x.a` after `del(x.a)`: the constant divisor is
    gone, and so is now the compiler's record of it: the division is typed fallible -/
theorem fixed_del_var : FallibleAndFails delVar delVarEv := by decide

set_option maxRecDepth 100000 in
/-- `D_del_typing` (remaining; C19 `D_minlen_counts_optional`): after `x = [1]; if .a == 1 { x[1] = 2 };
    del(x[-1])` with `.a ≠ 1` the variable is `[]`, still typed with a required integer at index 0;
    `x[0] + 1` is typed infallible and fails on `null + 1` -/
theorem witness_del_neg : InfallibleButFails delNegAdd delNegAddEv ∧ nanFreeSeq delNegAdd T0 = true := by
  decide

set_option maxRecDepth 100000 in
/-- fixed (`D_del_typing` through C19 `D_remove_shift`; ff94317): after `x = [1, "s", 2]; del(x[0])` the
    variable is `["s", 2]`; it was typed `{0: bytes, 2: integer}` and `x[2] + 1` infallible. Now `x[2]`
    is typed `undefined`, the addition fallible (the compiler rejects the program) -/
theorem fixed_del_shift : FallibleAndFails delShiftAdd delShiftAddEv := by decide

set_option maxRecDepth 100000 in
/-- `D_short_circuit_defines_var` (`(.a || (x = 1)); x + 1` with `.a = true`); no float arithmetic -/
theorem witness_short_var : InfallibleButFails shortVar shortVarEv ∧ nanFreeSeq shortVar T0 = true := by decide

set_option maxRecDepth 100000 in
/-- `D_err_partial_effects`: the lhs of `??` fails before its assignment ran -/
theorem witness_err_partial : InfallibleButFails errPartial errPartialEv := by decide

set_option maxRecDepth 100000 in
/-- `D_err_partial_effects`: the same through `ok, err =` -/
theorem witness_err_partial_iasg : InfallibleButFails errPartialIasg errPartialIasgEv := by decide

set_option maxRecDepth 100000 in
/-- fixed (`D_div_typing`; a408080): the assignment in the divisor was not applied to the type state;
    now `x` is an integer afterwards and `x + "t"` is typed fallible -/
theorem fixed_div_rhs : FallibleAndFails divRhs divRhsEv := by decide

set_option maxRecDepth 100000 in
/-- fixed (`D_div_typing`; a408080): `(1 / .n) / 2` was typed infallible; with `.n = 0` it fails with
    "divide by zero" (not the NaN error). The fallibility of the dividend is now kept. -/
theorem fixed_div_lhs :
    FallibleAndFails divLhs divLhsEv ∧ Arith.tryDiv (.int 1) (.int 0) = .err .divideByZero := by decide

set_option maxRecDepth 100000 in
/-- fixed (`D_short_circuit_const_lhs`; fcfb238): `true && .a` with `.a = 5` was typed infallible; the
    rhs is now `fallible_unless(null | boolean)` -/
theorem fixed_and_true : FallibleAndFails andTrue andTrueEv ∧ safeSeq andTrue T0 = true := by decide

set_option maxRecDepth 100000 in
/-- fixed (`D_short_circuit_const_lhs`; fcfb238): an always-`null` lhs dropped its own fallibility; it
    is now kept -/
theorem fixed_and_null : FallibleAndFails andNull andNullEv := by decide

set_option maxRecDepth 100000 in
/-- `D_ctor_poststate` (remaining): `Abort::new` checks the message in the state after it was compiled
    (`y` a string); `type_info` types it in the state before (`y` an integer, infallible): at run time the
    message is `1` and the `abort` raises an error instead -/
theorem witness_ctor_poststate : InfallibleButFails ctorAbort ctorAbortEv ∧ nanFreeSeq ctorAbort T0 = true := by
  decide

set_option maxRecDepth 100000 in
/-- fixed (`D_ctor_poststate` at `Predicate::new` / `Not::new` / `Op::new`; d43fc03): in
    `x = "s"; if { y = x; x = true; y } { 1 } else { 2 }` the predicate was checked as if `x` already were
    a boolean. The check is now made in the state `type_info` uses, where it fails: the tree is no longer
    a compiled program (the compiler rejects the source) -/
theorem fixed_ctor_poststate :
    InfallibleButFails ctorPost ctorPostEv ∧
    (typeSeq (.cons (.blk (.cons (.asg (.internal "y" []) (.var "x")) (.cons (.asg (.internal "x" []) (.lit (.bool true))) (.cons (.var "y") .nil)))) .nil)
      (typeInfo (.asg (.internal "x" []) (.lit (.bytes [115]))) T0).2 {}).1.finish.kind.isBoolean = false ∧
    Chk.structural ∈ checksSeq ctorPost T0 {} := by
  decide

set_option maxRecDepth 100000 in
/-- **the full-strength statement of C02 is false of the model**: a variable first assigned by the
    right operand of `||` (`D_short_circuit_defines_var`) -/
theorem not_full : ¬ C02.Full := by
  intro h
  have hi := h (.blk shortVar) T0 (by decide)
    (st shortVarEv) (conforms_st _ (by decide) (by decide)) (by decide) (by decide)
  revert hi
  decide

/-! ### non-vacuity -/

set_option maxRecDepth 100000 in
/-- the hypotheses of `C02.program_never_fails` are satisfiable: `x = 5; .r = 10 / x; .r` is safe and
    typed infallible (it has float arithmetic, so only the NaN-tolerant statement applies) … -/
example : safeSeq okDiv T0 = true ∧ (typeSeq okDiv T0 {}).1.finish.fallible = false ∧
    noAbortS okDiv = true := by decide

set_option maxRecDepth 100000 in
/-- … and the conditional program has no float arithmetic at all -/
example : safeSeq okIf T0 = true ∧ nanFreeSeq okIf T0 = true ∧ noAbortS okIf = true ∧
    (typeSeq okIf T0 {}).1.finish.fallible = false := by decide

end C02.W
