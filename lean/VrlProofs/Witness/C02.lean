/-
  Witnesses for C02: programs the model (and the real compiler) types infallible that end in a
  run-time error which is not the NaN error. One per finding class of the type inference.
-/
import VrlProofs.Witness.C01

namespace C02.W
open Lang Spec C01.W

/-- typed infallible, yet the run ends with a run-time error -/
def InfallibleButFails (prog : Exprs) (ev : Value) : Prop :=
  (typeSeq prog T0 {}).1.finish.fallible = false ∧ outcome prog ev = .err

instance (prog : Exprs) (ev : Value) : Decidable (InfallibleButFails prog ev) := by
  unfold InfallibleButFails; exact inferInstance

set_option maxRecDepth 100000 in
/-- `D_del_typing` (`10 / x.a` after `del(x.a)`: the constant divisor is gone) -/
theorem witness_del_var : InfallibleButFails delVar delVarEv := by decide

set_option maxRecDepth 100000 in
/-- `D_short_circuit_defines_var` (`(.a || (x = 1)); x + 1` with `.a = true`); no float arithmetic -/
theorem witness_short_var : InfallibleButFails shortVar shortVarEv ∧ nanFreeSeq shortVar T0 = true := by decide

set_option maxRecDepth 100000 in
/-- `D_err_partial_effects`: the lhs of `??` fails before its assignment ran -/
theorem witness_err_partial : InfallibleButFails errPartial errPartialEv := by decide

set_option maxRecDepth 100000 in
/-- `D_err_partial_effects`: the same through `ok, err =` -/
theorem witness_err_partial_iasg : InfallibleButFails errPartialIasg errPartialIasgEv := by decide

set_option maxRecDepth 100000 in
/-- `D_div_typing`: the assignment in the divisor is not applied to the type state -/
theorem witness_div_rhs : InfallibleButFails divRhs divRhsEv := by decide

set_option maxRecDepth 100000 in
/-- `D_div_typing`: `(1 / .n) / 2` is typed infallible; with `.n = 0` it fails with "divide by zero"
    (not the NaN error) -/
theorem witness_div_lhs :
    InfallibleButFails divLhs divLhsEv ∧ Arith.tryDiv (.int 1) (.int 0) = .err .divideByZero := by decide

set_option maxRecDepth 100000 in
/-- `D_short_circuit_const_lhs`: `true && .a` with `.a = 5`; no arithmetic at all -/
theorem witness_and_true : InfallibleButFails andTrue andTrueEv ∧ nanFreeSeq andTrue T0 = true := by decide

set_option maxRecDepth 100000 in
/-- `D_short_circuit_const_lhs`: an always-`null` lhs drops its own fallibility -/
theorem witness_and_null : InfallibleButFails andNull andNullEv := by decide

set_option maxRecDepth 100000 in
/-- `D_ctor_poststate`: `Predicate::new` checks the predicate's kind in the state after the predicate
    was compiled (`x` already boolean); `type_info` types it in the state before (`x` a string) -/
theorem witness_ctor_poststate : InfallibleButFails ctorPost ctorPostEv ∧ nanFreeSeq ctorPost T0 = true := by
  decide

set_option maxRecDepth 100000 in
/-- **the full-strength statement of C02 is false of the model**: `true && .a` -/
theorem not_full : ¬ C02.Full := by
  intro h
  have hi := h (.op .and (.lit (.bool true)) (.qext false [.field [97]])) T0 (by decide)
    (st andTrueEv) (conforms_st _ (by decide) (by decide)) (by decide) (by decide)
  revert hi
  decide

/-! ### non-vacuity -/

set_option maxRecDepth 100000 in
/-- the hypotheses of `C02.program_never_fails` are satisfiable: `x = 5; .r = 10 / x; .r` is safe and
    typed infallible (it has float arithmetic, so only the NaN-tolerant statement applies) … -/
example : safeSeq okDiv T0 = true ∧ (typeSeq okDiv T0 {}).1.finish.fallible = false ∧
    noAbortS okDiv = true := by decide

set_option maxRecDepth 100000 in
/-- … and the conditional program has no float arithmetic at all -/
example : safeSeq okIf T0 = true ∧ nanFreeSeq okIf T0 = true ∧ noAbortS okIf = true ∧
    (typeSeq okIf T0 {}).1.finish.fallible = false := by decide

end C02.W
