/-
  C11 — witnesses and non-vacuity examples.
  The clause "`string * n` repeats the string max(n, 0) times" is FALSE of the pinned code for the
  operand pairs of class `D_capacity` (result larger than isize::MAX bytes): `[u8]::repeat` panics
  with "capacity overflow" instead of failing.  Replayed on the implementation by `o.c11`
  (corpus/C11/known.case).  Sizes below that bound but above the available memory abort the process
  (allocation failure) and are outside the model.
-/
import VrlProofs.Props.C11

namespace C11
open Arith

/-- `"ab" * 9223372036854775807` : in the class, the Spec demands a string, the code panics. -/
theorem repeat_capacity_witness :
    D_capacityV (.bytes [97, 98]) (.int 9223372036854775807) = true ∧
    model .mul (.bytes [97, 98]) (.int 9223372036854775807) = .panic ∧
    model .mul (.int 9223372036854775807) (.bytes [97, 98]) = .panic ∧
    expected .mul (.bytes [97, 98]) (.int 9223372036854775807)
      = some (.ok (.bytes (replicateBytes [97, 98] 9223372036854775807))) := by
  refine ⟨by decide, by decide, by decide, rfl⟩

/-- wrapping at the edges of `i64`: `MAX + 1 = MIN`, `MIN - 1 = MAX`, `MIN * -1 = MIN`,
    `3037000500 * 3037000500` wraps to a negative number. -/
theorem wrap_witness :
    tryAdd (.int 9223372036854775807) (.int 1) = .ok (.int (-9223372036854775808)) ∧
    trySub (.int (-9223372036854775808)) (.int 1) = .ok (.int 9223372036854775807) ∧
    tryMul (.int (-9223372036854775808)) (.int (-1)) = .ok (.int (-9223372036854775808)) ∧
    tryMul (.int 3037000500) (.int 3037000500) = .ok (.int (-9223372036709301616)) := by
  decide

/-- float patterns used below -/
def fInf : Nat := 9218868437227405312        -- +∞   0x7FF0000000000000
def fNegInf : Nat := 18442240474082181120    -- −∞   0xFFF0000000000000
def fNegZero : Nat := 9223372036854775808    -- −0.0 0x8000000000000000
def fOne : Nat := 4607182418800017408        -- 1.0  0x3FF0000000000000

/-- the NaN-producing operand pairs fail with NanFloat; division by either zero with DivideByZero. -/
theorem nan_witness :
    tryAdd (.float fInf) (.float fNegInf) = .err .nanFloat ∧
    trySub (.float fInf) (.float fInf) = .err .nanFloat ∧
    tryMul (.int 0) (.float fInf) = .err .nanFloat ∧
    tryDiv (.float fInf) (.float fNegInf) = .err .nanFloat ∧
    tryRem (.float fInf) (.float fOne) = .err .nanFloat ∧
    tryDiv (.int 1) (.int 0) = .err .divideByZero ∧
    tryDiv (.float fOne) (.float fNegZero) = .err .divideByZero ∧
    tryRem (.int 1) (.float 0) = .err .divideByZero := by
  decide

/-- `0.1 + 0.2 = 0.30000000000000004` (0x3FD3333333333334), `1 / 3 = 0x3FD5555555555555`,
    `5.5 mod -2.0 = 1.5`, `-5 mod 2 = -1`, `7 / 2 = 3.5`. -/
theorem float_witness :
    tryAdd (.float 4591870180066957722) (.float 4596373779694328218) = .ok (.float 4599075939470750516) ∧
    tryDiv (.int 1) (.int 3) = .ok (.float 4599676419421066581) ∧
    tryRem (.float 4617878467915022336) (.float 13835058055282163712) = .ok (.float 4609434218613702656) ∧
    tryRem (.int (-5)) (.int 2) = .ok (.int (-1)) ∧
    tryDiv (.int 7) (.int 2) = .ok (.float 4615063718147915776) := by
  decide

/-! non-vacuity of the hypotheses used in Props/C11.lean -/

example : scalarOK (.int 9223372036854775807) = true ∧ scalarOK (.float fNegInf) = true ∧
    scalarOK (.bytes [1, 2]) = true := by decide
example : D_capacityV (.bytes [97, 98]) (.int 3) = false ∧ D_capacity [] 9223372036854775807 = false ∧
    D_capacity [97] (-5) = false := by decide
example : expected .mul (.bytes [97, 98]) (.int 3) = some (.ok (.bytes [97, 98, 97, 98, 97, 98])) := by decide
example : inI64 (-9223372036854775808) = true ∧ inI64 9223372036854775808 = false := by decide
example : C10.floatsOK (.float fNegZero) = true ∧ numZero (.float fNegZero) = true ∧ numZero (.int 0) = true := by
  decide

end C11
