/-
  C33 — witnesses: the full statement `ProducersSpec` is false of the code (and of its model) in
  its `verify_overwritable` and `Assignment::new` clauses; each witness is replayed on the real
  compiler by the check (`o.c33`, corpus/C33/known.case). The lexer clause was false too
  (classes D_lexer_char_span, D_eof_span) until /repo 45c5794 and 694e815: the former witnesses
  are now `fixed_…` theorems stating the repaired behaviour on the same inputs (replayed from
  corpus/C33/fixed.case). Finding classes (decidable predicates on the model's inputs) and
  non-vacuity examples for the hypotheses of the `_partial` theorems.
-/
import VrlProofs.Props.C33

namespace C33
open Spans

/-! ## finding classes -/

/-- D_display_mismatch: the source text in front of the target's end is NOT the canonical
    spelling (dot + `Display` text) of the popped segments: escapes (`."é\n\n"`), template strings
    (`."{{x}}"` is displayed `"{{ x }}"`), quoted-but-valid fields, fields without a dot, spaced
    indices. Complement of the hypothesis of `overwritable_wf_partial`. -/
def D_display_mismatch (src : List Nat) (target : Span) (segs : List Seg) : Bool :=
  !canonAtB src target.start target.stop segs.reverse

/-- D_display_longer: the Display texts are even longer than the target text (template strings).
    Complement of the hypothesis of `overwritable_ordered_partial`. -/
def D_display_longer (target : Span) (segs : List Seg) : Bool :=
  !fitsB target.start target.stop segs.reverse

/-- D_nonascii_before_expr: the byte in front of the assigned expression is not ASCII
    (multi-byte white space after `=`). Complement of the hypothesis of `assignmentSpan_wf_partial`. -/
def D_nonascii_before_expr (src : List Nat) (expr : Span) : Bool :=
  match src[expr.start - 1]? with
  | some b => decide (128 ≤ b)
  | none => true

/-! ## verify_overwritable -/

/-- `.a."é\n\n"` (source spelling with two escapes, 11 bytes) -/
def srcSplit : List Nat := [46, 97, 46, 34, 195, 169, 92, 110, 92, 110, 34]
/-- the parsed path: `a`, then the field `é⏎⏎` (4 bytes, Display `"é⏎⏎"` = 6 bytes) -/
def segsSplit : List Seg := [.field [97], .field [195, 169, 10, 10]]

/-- E642 split_char: `.a = 1; .a."é\n\n" = 2` — the kind check fails with one segment left; the
    reported `segment_span` starts at byte 5, the second byte of `é`.
    (real compiler, with the target at offset 7: labels `12-18, 7-11`) -/
theorem witness_split_char :
    WF srcSplit ⟨0, 11⟩ ∧ D_display_mismatch srcSplit ⟨0, 11⟩ segsSplit = true ∧
    verifyOverwritable (fun k => k != 1) ⟨0, 11⟩ segsSplit = some (⟨5, 11⟩, ⟨0, 4⟩) ∧
    ¬ WF srcSplit ⟨5, 11⟩ ∧ clause srcSplit ⟨5, 11⟩ = some "split_char" := by
  decide

/-- `x = 1⏎x."{{x}}" = 2` (19 bytes); the target `x."{{x}}"` is bytes 6‥15 -/
def srcRev : List Nat :=
  [120, 32, 61, 32, 49, 10, 120, 46, 34, 123, 123, 120, 125, 125, 34, 32, 61, 32, 50]
/-- the parser turns the template string into the field `{{ x }}` (7 bytes; Display 9 bytes,
    one more than the 8 bytes `."{{x}}"` it was written with) -/
def segsRev : List Seg := [.field [123, 123, 32, 120, 32, 125, 125]]

/-- E642 reversed: the reported `parent_span` is `(6, 5)`: start > end.
    (real compiler: labels `6-15, 6-5`) -/
theorem witness_reversed :
    WF srcRev ⟨6, 15⟩ ∧ D_display_longer ⟨6, 15⟩ segsRev = true ∧
    verifyOverwritable (fun k => k != 0) ⟨6, 15⟩ segsRev = some (⟨6, 15⟩, ⟨6, 5⟩) ∧
    ¬ WF srcRev ⟨6, 5⟩ ∧ clause srcRev ⟨6, 5⟩ = some "reversed" := by
  decide

theorem not_overwritableSpec : ¬ OverwritableSpec := by
  intro h
  have := h srcSplit (fun k => k != 1) ⟨0, 11⟩ segsSplit (⟨5, 11⟩, ⟨0, 4⟩) (by decide) (by decide)
  exact absurd this.1 (by decide)

/-! ## Assignment::new -/

/-- `_=␣1` with U+2003 EM SPACE (3 bytes) between `=` and the expression -/
def srcAssign : List Nat := [95, 61, 226, 128, 131, 49]

/-- E640 / E103 split_char: `assignment_span = (0, 5 − 1)` ends inside the EM SPACE.
    (real compiler: `_=\u{2003}1` → labels `5-6, 0-1, 0-4`) -/
theorem witness_assignment_split_char :
    WF srcAssign ⟨0, 1⟩ ∧ WF srcAssign ⟨5, 6⟩ ∧ D_nonascii_before_expr srcAssign ⟨5, 6⟩ = true ∧
    assignmentSpan ⟨0, 1⟩ ⟨5, 6⟩ = .ok ⟨0, 4⟩ ∧ ¬ WF srcAssign ⟨0, 4⟩ ∧
    clause srcAssign ⟨0, 4⟩ = some "split_char" := by
  decide

theorem not_assignmentSpec : ¬ AssignmentSpec := by
  intro h
  have := h srcAssign ⟨0, 1⟩ ⟨5, 6⟩ ⟨0, 4⟩ (by decide) (by decide) (by decide) (by decide) (by decide)
  exact absurd this (by decide)

/-! ## lexer (repaired: no finding class left in the modelled scanners) -/

/-- `"\们` : an invalid escape whose character is 3 bytes long -/
def srcEsc : List Nat := [34, 92, 228, 187, 172]

/-- fixed by /repo 45c5794 (was D_lexer_char_span, E209 split_char, label `(2, 3)` ending inside
    `们`): the label is now `(2, 2 + len_utf8('们')) = (2, 5)`, well-formed. -/
theorem fixed_lexer_char_span :
    lexFirst srcEsc = some (.error (.escapeChar 2 (some 20204))) ∧
    (LexErr.escapeChar 2 (some 20204)).label = ⟨2, 5⟩ ∧
    WF srcEsc (LexErr.escapeChar 2 (some 20204)).label ∧
    clause srcEsc (LexErr.escapeChar 2 (some 20204)).label = none := by
  decide

/-- `[ "` : a string opened inside a delimited region of a query, at the end of input -/
def srcEof : List Nat := [91, 32, 34]

/-- fixed by /repo 694e815 (was D_eof_span, E207 past_end, label `(3, 4)` in a 3-byte source):
    the nested lexer's "unterminated string" is reported at the opening quote, `(2, 3)`. -/
theorem fixed_eof_span :
    lexFirst srcEof = some (.error (.stringLiteral 2)) ∧
    WF srcEof (LexErr.stringLiteral 2).label ∧
    clause srcEof (LexErr.stringLiteral 2).label = none := by
  decide

/-- `[ "é` : same producer, the byte after the quote starts a 2-byte character -/
def srcNested : List Nat := [91, 32, 34, 195, 169]

/-- fixed by /repo 694e815 (was E207 split_char, label `(3, 4)` ending inside `é`): `(2, 3)`. -/
theorem fixed_nested_split_char :
    lexFirst srcNested = some (.error (.stringLiteral 2)) ∧
    WF srcNested (LexErr.stringLiteral 2).label ∧
    clause srcNested (LexErr.stringLiteral 2).label = none := by
  decide

/-- `[ "\们` : both repairs at once — a multi-byte invalid escape found by the nested lexer is
    shifted by `pos + 1` and covers the whole character: `(4, 7)`. -/
theorem fixed_nested_escape :
    lexFirst [91, 32, 34, 92, 228, 187, 172] = some (.error (.escapeChar 4 (some 20204))) ∧
    WF [91, 32, 34, 92, 228, 187, 172] (LexErr.escapeChar 4 (some 20204)).label := by
  decide

theorem not_producersSpec : ¬ ProducersSpec := fun h => not_overwritableSpec h.1

/-! ## non-vacuity of the `_partial` theorems -/

/-- `.a = 1; .a."b c"[10].d = 2`-style target in canonical spelling: `x."b c"[10].d` -/
def srcCanon : List Nat := [59, 120, 46, 34, 98, 32, 99, 34, 91, 49, 48, 93, 46, 100, 32, 61]
def segsCanon : List Seg := [.field [98, 32, 99], .index 10, .field [100]]

example : WF srcCanon ⟨1, 14⟩ ∧ canonAtB srcCanon 1 14 segsCanon.reverse = true ∧
    fitsB 1 14 segsCanon.reverse = true ∧
    verifyOverwritable (fun k => k != 2) ⟨1, 14⟩ segsCanon = some (⟨13, 14⟩, ⟨1, 12⟩) ∧
    verifyOverwritable (fun k => k != 0) ⟨1, 14⟩ segsCanon = some (⟨3, 8⟩, ⟨1, 2⟩) := by
  decide

/-- a spelling with escapes is longer than the Display text: `fits_of_spelling` applies to
    `.a."é\n\n"` (spelled 9 and 2 bytes, from the back) although `canonAtB` does not hold. -/
example : (∀ p ∈ [(Seg.field [195, 169, 10, 10], 9), (Seg.field [97], 2)],
      displayLen p.1 + dotLen p.1 ≤ p.2) ∧
    0 + ([(Seg.field [195, 169, 10, 10], 9), (Seg.field [97], 2)].map Prod.snd).sum ≤ 11 := by
  decide

/-- `x = 1` : target `x` (0,1), expression at 4, the byte before it is a space -/
example : WF [120, 32, 61, 32, 49] ⟨0, 1⟩ ∧ ([120, 32, 61, 32, 49] : List Nat)[4 - 1]? = some 32 ∧
    assignmentSpan ⟨0, 1⟩ ⟨4, 5⟩ = .ok ⟨0, 3⟩ ∧ WF [120, 32, 61, 32, 49] ⟨0, 3⟩ := by
  decide

/-- `"a\q` : an ASCII source with a lexer error, label `(3, 4)` well-formed -/
example : (∀ b ∈ [34, 97, 92, 113], b < 128) ∧
    lexStringAt0 [34, 97, 92, 113] = .error (.escapeChar 3 (some 113)) ∧
    WF [34, 97, 92, 113] (LexErr.escapeChar 3 (some 113)).label := by
  decide

/-- `"é\q` : a non-ASCII UTF-8 source with a lexer error (hypotheses of `lex_string_wf_utf8`) -/
example : wfUtf8 [34, 195, 169, 92, 113] = true ∧
    lexStringAt0 [34, 195, 169, 92, 113] = .error (.escapeChar 4 (some 113)) ∧
    WF [34, 195, 169, 92, 113] (LexErr.escapeChar 4 (some 113)).label := by
  decide

/-- `[ "\q` : the nested lexer reports an ASCII escape error: label `(4, 5)` is WF
    (hypotheses of `lex_nested_wf`) -/
example : lexFirst [91, 32, 34, 92, 113] = some (.error (.escapeChar 4 (some 113))) ∧
    ([91, 32, 34, 92, 113] : List Nat)[2]? = some 34 ∧
    wfUtf8 (([91, 32, 34, 92, 113] : List Nat).drop 3) = true ∧
    WF [91, 32, 34, 92, 113] (LexErr.escapeChar 4 (some 113)).label := by
  decide

/-- `wfUtf8` accepts real UTF-8 (1- to 4-byte characters) and rejects overlong / truncated /
    stray-continuation input -/
example : wfUtf8 [97, 195, 169, 228, 187, 172, 240, 159, 152, 128] = true ∧
    wfUtf8 [192, 128] = false ∧ wfUtf8 [224, 128, 128] = false ∧ wfUtf8 [195] = false ∧
    wfUtf8 [169] = false := by
  decide

/-- `s'ab` : unterminated raw string -/
example : lexFirst [115, 39, 97, 98] = some (.error (.literal 0)) := by decide

end C33
