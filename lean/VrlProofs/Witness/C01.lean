/-
  Witnesses for C01 / C02 / C12: concrete compiled programs (the trees the real compiler dumps for the
  sources quoted in the doc comments; each is also a replay case in corpus/C01|C02|C12/known.case,
  where the check re-observes the failure on the real implementation) on which the full-strength
  statements fail in the model, one per finding class of the type inference; `fixed_…` theorems for
  the classes repaired in the implementation (the old counterexample, now inside the reported types
  or typed fallible; replays in corpus/…/fixed.case); and non-vacuity examples for the hypotheses of
  the `_partial` theorems. All by kernel `decide`.
-/
import VrlProofs.Props.C01
import VrlProofs.Props.C02
import VrlProofs.Props.C12

namespace C01.W
open Lang Spec

/-- `Kind::object(Collection::any())`: the default external environment -/
def anyObj : Kind := Kind.ofObject Col.any
def T0 : TState := { target := anyObj, metadata := anyObj }

/-- a fresh run-time state on event `ev` (one error text available for `ok, err =`) -/
def st (ev : Value) : St :=
  { vars := [], event := ev, metadata := .obj .nil, faults := [], ops := 0, log := [], errs := [[101]] }

theorem conforms_st (ev : Value) (h1 : mem ev anyObj = true) (h2 : ev.Sorted = true) : Conforms (st ev) T0 :=
  ⟨rfl, (by intro n d h; simp [T0, TState.getVar, Locals.get] at h), h1, h2,
    (by show mem (.obj .nil) anyObj = true; decide), (by show (Value.obj .nil).Sorted = true; decide),
    (by intro n v h; simp [st, St.getVar] at h)⟩

/-- D_del_typing on a variable (fixed, 6af54e3): `del(x.a)` left type and constant of `x`
```
x = {"a": 5}
del(x.a)
10 / x.a
``` -/
def delVar : Exprs :=
  (.cons (.asg (.internal "x" []) (.obj (.cons [97] (.lit (.int 5)) .nil))) (.cons (.delVar "x" [.field [97]] false .noop) (.cons (.op .div (.lit (.int 10)) (.qvar "x" [.field [97]])) .nil)))

def delVarEv : Value := (.obj .nil)

/-- D_del_typing on a variable (fixed, 6af54e3): the value of `x` after `del(x.a)`
```
x = {"a": 5}
del(x.a)
x
``` -/
def delVarValue : Exprs :=
  (.cons (.asg (.internal "x" []) (.obj (.cons [97] (.lit (.int 5)) .nil))) (.cons (.delVar "x" [.field [97]] false .noop) (.cons (.var "x") .nil)))

def delVarValueEv : Value := (.obj .nil)

/-- D_del_typing through C19 `D_remove_shift` (fixed, ff94317)
```
x = [1, "s", true]
del(x[0])
x
``` -/
def delShift : Exprs :=
  (.cons (.asg (.internal "x" []) (.arr (.cons (.lit (.int 1)) (.cons (.lit (.bytes [115])) (.cons (.lit (.bool true)) .nil))))) (.cons (.delVar "x" [.index 0] false .noop) (.cons (.var "x") .nil)))

def delShiftEv : Value := (.obj .nil)

/-- D_del_typing through C19 `D_remove_shift` (fixed, ff94317): an element the shifted kind misplaced
```
x = [1, "s", 2]
del(x[0])
x[2] + 1
``` -/
def delShiftAdd : Exprs :=
  (.cons (.asg (.internal "x" []) (.arr (.cons (.lit (.int 1)) (.cons (.lit (.bytes [115])) (.cons (.lit (.int 2)) .nil))))) (.cons (.delVar "x" [.index 0] false .noop) (.cons (.op .add (.qvar "x" [.index 2]) (.lit (.int 1))) .nil)))

def delShiftAddEv : Value := (.obj .nil)

/-- D_del_typing (what is left of it: `Kind::remove` outside the proved paths, here C19
    `D_minlen_counts_optional`: a negative index resolved against a length that counts an optional element)
```
x = [1]
if .a == 1 { x[1] = 2 }
del(x[-1])
x
``` -/
def delNeg : Exprs :=
  (.cons (.asg (.internal "x" []) (.arr (.cons (.lit (.int 1)) .nil))) (.cons (.ifte (.cons (.op .eq (.qext false [.field [97]]) (.lit (.int 1))) .nil) (.cons (.asg (.internal "x" [.index 1]) (.lit (.int 2))) .nil) false .nil) (.cons (.delVar "x" [.index (-1)] false .noop) (.cons (.var "x") .nil))))

def delNegEv : Value := (.obj .nil)

/-- D_del_typing: the element the kind still requires
```
x = [1]
if .a == 1 { x[1] = 2 }
del(x[-1])
x[0] + 1
``` -/
def delNegAdd : Exprs :=
  (.cons (.asg (.internal "x" []) (.arr (.cons (.lit (.int 1)) .nil))) (.cons (.ifte (.cons (.op .eq (.qext false [.field [97]]) (.lit (.int 1))) .nil) (.cons (.asg (.internal "x" [.index 1]) (.lit (.int 2))) .nil) false .nil) (.cons (.delVar "x" [.index (-1)] false .noop) (.cons (.op .add (.qvar "x" [.index 0]) (.lit (.int 1))) .nil))))

def delNegAddEv : Value := (.obj .nil)

/-- D_ctor_poststate (what is left of it: `Abort::new` / `Return::new` / function arguments still check
    in the state after the operand was compiled)
```
x = 1
abort { y = x; x = "s"; y }
``` -/
def ctorAbort : Exprs :=
  (.cons (.asg (.internal "x" []) (.lit (.int 1))) (.cons (.abort true (.blk (.cons (.asg (.internal "y" []) (.var "x")) (.cons (.asg (.internal "x" []) (.lit (.bytes [115]))) (.cons (.var "y") .nil))))) .nil))

def ctorAbortEv : Value := (.obj .nil)

/-- D_short_circuit_defines_var
```
(.a || (x = 1))
x + 1
``` -/
def shortVar : Exprs :=
  (.cons (.grp (.op .or (.qext false [.field [97]]) (.grp (.asg (.internal "x" []) (.lit (.int 1)))))) (.cons (.op .add (.var "x") (.lit (.int 1))) .nil))

def shortVarEv : Value := (.obj (.cons [97] (.bool true) .nil))

/-- D_err_partial_effects (`??`)
```
x = 1
({ 1 / .n; x = "s"; 2 } ?? 0)
x + "t"
``` -/
def errPartial : Exprs :=
  (.cons (.asg (.internal "x" []) (.lit (.int 1))) (.cons (.grp (.op .err (.blk (.cons (.op .div (.lit (.int 1)) (.qext false [.field [110]])) (.cons (.asg (.internal "x" []) (.lit (.bytes [115]))) (.cons (.lit (.int 2)) .nil)))) (.lit (.int 0)))) (.cons (.op .add (.var "x") (.lit (.bytes [116]))) .nil)))

def errPartialEv : Value := (.obj (.cons [110] (.int 0) .nil))

/-- D_err_partial_effects (`ok, err =`)
```
x = 1
ok, err = { 1 / .n; x = "s"; 2 }
x + "t"
``` -/
def errPartialIasg : Exprs :=
  (.cons (.asg (.internal "x" []) (.lit (.int 1))) (.cons (.iasg (.internal "ok" []) (.internal "err" []) (.blk (.cons (.op .div (.lit (.int 1)) (.qext false [.field [110]])) (.cons (.asg (.internal "x" []) (.lit (.bytes [115]))) (.cons (.lit (.int 2)) .nil)))) (.int 0)) (.cons (.op .add (.var "x") (.lit (.bytes [116]))) .nil)))

def errPartialIasgEv : Value := (.obj (.cons [110] (.int 0) .nil))

/-- D_div_typing (fixed, a408080): the state changes of the divisor are not applied
```
x = "s"
(5 / (x = 2) ?? 0)
x + "t"
``` -/
def divRhs : Exprs :=
  (.cons (.asg (.internal "x" []) (.lit (.bytes [115]))) (.cons (.grp (.op .err (.op .div (.lit (.int 5)) (.grp (.asg (.internal "x" []) (.lit (.int 2))))) (.lit (.int 0)))) (.cons (.op .add (.var "x") (.lit (.bytes [116]))) .nil)))

def divRhsEv : Value := (.obj .nil)

/-- D_div_typing (fixed, a408080): the fallibility of the dividend is dropped
```
((1 / .n) / 2)
``` -/
def divLhs : Exprs :=
  (.cons (.grp (.op .div (.grp (.op .div (.lit (.int 1)) (.qext false [.field [110]]))) (.lit (.int 2)))) .nil)

def divLhsEv : Value := (.obj (.cons [110] (.int 0) .nil))

/-- D_div_typing (fixed, a408080): the `returns` of the dividend are dropped
```
({ if .a == 1 { return "x" }; 2 } / 2)
``` -/
def divReturns : Exprs :=
  (.cons (.grp (.op .div (.blk (.cons (.ifte (.cons (.op .eq (.qext false [.field [97]]) (.lit (.int 1))) .nil) (.cons (.ret (.lit (.bytes [120]))) .nil) false .nil) (.cons (.lit (.int 2)) .nil))) (.lit (.int 2)))) .nil)

def divReturnsEv : Value := (.obj (.cons [97] (.int 1) .nil))

/-- D_short_circuit_const_lhs (fixed, fcfb238): `true && e` was not `fallible_unless(null|boolean)`
```
true && .a
``` -/
def andTrue : Exprs :=
  (.cons (.op .and (.lit (.bool true)) (.qext false [.field [97]])) .nil)

def andTrueEv : Value := (.obj (.cons [97] (.int 5) .nil))

/-- D_short_circuit_const_lhs (fixed, fcfb238): an always-false lhs dropped its fallibility
```
({ 1 / .n; null } && true)
``` -/
def andNull : Exprs :=
  (.cons (.grp (.op .and (.blk (.cons (.op .div (.lit (.int 1)) (.qext false [.field [110]])) (.cons (.lit .null) .nil))) (.lit (.bool true)))) .nil)

def andNullEv : Value := (.obj (.cons [110] (.int 0) .nil))

/-- D_scope_leak
```
{ x = {"b": 1} }
x.a = 2
x
``` -/
def scopeLeak : Exprs :=
  (.cons (.blk (.cons (.asg (.internal "x" []) (.obj (.cons [98] (.lit (.int 1)) .nil))) .nil)) (.cons (.asg (.internal "x" [.field [97]]) (.lit (.int 2))) (.cons (.var "x") .nil)))

def scopeLeakEv : Value := (.obj .nil)

/-- D_return_drops_returns (fixed, 7b68306)
```
return { if .a == 1 { return 1 }; "s" }
``` -/
def retDrops : Exprs :=
  (.cons (.ret (.blk (.cons (.ifte (.cons (.op .eq (.qext false [.field [97]]) (.lit (.int 1))) .nil) (.cons (.ret (.lit (.int 1))) .nil) false .nil) (.cons (.lit (.bytes [115])) .nil)))) .nil)

def retDropsEv : Value := (.obj (.cons [97] (.int 1) .nil))

/-- D_const_signed_zero
```
x = 0.0
if .a == 1 { x = -0.0 }
x
``` -/
def signedZero : Exprs :=
  (.cons (.asg (.internal "x" []) (.lit (.float 0))) (.cons (.ifte (.cons (.op .eq (.qext false [.field [97]]) (.lit (.int 1))) .nil) (.cons (.asg (.internal "x" []) (.lit (.float 9223372036854775808))) .nil) false .nil) (.cons (.var "x") .nil)))

def signedZeroEv : Value := (.obj (.cons [97] (.int 2) .nil))

/-- D_return_skips_effects
```
if .a == 1 { return 1 }
.b = 2
.b
``` -/
def retSkips : Exprs :=
  (.cons (.ifte (.cons (.op .eq (.qext false [.field [97]]) (.lit (.int 1))) .nil) (.cons (.ret (.lit (.int 1))) .nil) false .nil) (.cons (.asg (.external false [.field [98]]) (.lit (.int 2))) (.cons (.qext false [.field [98]]) .nil)))

def retSkipsEv : Value := (.obj (.cons [97] (.int 1) .nil))

/-- D_negative_index_kind
```
x = [1, 2]
x[-3] = "s"
x
``` -/
def negIndex : Exprs :=
  (.cons (.asg (.internal "x" []) (.arr (.cons (.lit (.int 1)) (.cons (.lit (.int 2)) .nil)))) (.cons (.asg (.internal "x" [.index (-3)]) (.lit (.bytes [115]))) (.cons (.var "x") .nil)))

def negIndexEv : Value := (.obj .nil)

/-- a program inside the theorem (non-vacuity)
```
x = 5
.r = 10 / x
.r
``` -/
def okDiv : Exprs :=
  (.cons (.asg (.internal "x" []) (.lit (.int 5))) (.cons (.asg (.external false [.field [114]]) (.op .div (.lit (.int 10)) (.var "x"))) (.cons (.qext false [.field [114]]) .nil)))

def okDivEv : Value := (.obj .nil)

/-- a program inside the theorem (non-vacuity)
```
x = 1
if .a == 1 { x = "s" } else { .b = [x, .c] }
[x, .b]
``` -/
def okIf : Exprs :=
  (.cons (.asg (.internal "x" []) (.lit (.int 1))) (.cons (.ifte (.cons (.op .eq (.qext false [.field [97]]) (.lit (.int 1))) .nil) (.cons (.asg (.internal "x" []) (.lit (.bytes [115]))) .nil) true (.cons (.asg (.external false [.field [98]]) (.arr (.cons (.var "x") (.cons (.qext false [.field [99]]) .nil)))) .nil)) (.cons (.arr (.cons (.var "x") (.cons (.qext false [.field [98]]) .nil))) .nil)))

def okIfEv : Value := (.obj (.cons [97] (.int 1) .nil))

/-- ```
x = {"a": 5}
del(x.a)
``` -/
def delVarPrefix : Exprs :=
  (.cons (.asg (.internal "x" []) (.obj (.cons [97] (.lit (.int 5)) .nil))) (.cons (.delVar "x" [.field [97]] false .noop) .nil))

/-- ```
x = 0.0
if .a == 1 { x = -0.0 }
``` -/
def signedZeroPrefix : Exprs :=
  (.cons (.asg (.internal "x" []) (.lit (.float 0))) (.cons (.ifte (.cons (.op .eq (.qext false [.field [97]]) (.lit (.int 1))) .nil) (.cons (.asg (.internal "x" []) (.lit (.float 9223372036854775808))) .nil) false .nil) .nil))

/-- D_ctor_poststate (fixed, d43fc03): the predicate was checked in the state after it was compiled
```
x = "s"
if { y = x; x = true; y } { 1 } else { 2 }
``` -/
def ctorPost : Exprs :=
  (.cons (.asg (.internal "x" []) (.lit (.bytes [115]))) (.cons (.ifte (.cons (.blk (.cons (.asg (.internal "y" []) (.var "x")) (.cons (.asg (.internal "x" []) (.lit (.bool true))) (.cons (.var "y") .nil)))) .nil) (.cons (.lit (.int 1)) .nil) true (.cons (.lit (.int 2)) .nil)) .nil))

def ctorPostEv : Value := (.obj .nil)

/-! ### C01 -/

/-- the result of the program on the event, and its reported kinds -/
def outcome (prog : Exprs) (ev : Value) : Res := (evalSeq prog (st ev)).1
def resultKind (prog : Exprs) : Kind := (typeSeq prog T0 {}).1.finish.kind
def returnsKind (prog : Exprs) : Kind := (typeSeq prog T0 {}).1.finish.returns

set_option maxRecDepth 100000 in
/-- fixed (`D_del_typing`, variables; 6af54e3): after `del(x.a)` the variable holds `{}`; it was typed
    `{a: integer}`, `DelFn::type_info` now removes the path from the variable's type -/
theorem fixed_del_value :
    outcome delVarValue delVarValueEv = .ok (.obj .nil) ∧ memR (.obj .nil) (resultKind delVarValue) = true ∧
    safeSeq delVarValue T0 = true := by
  decide

set_option maxRecDepth 100000 in
/-- `D_del_typing` (remaining): with `.a ≠ 1`, `del(x[-1])` on `[1]` leaves `[]`; the type of `x` is
    `{0: integer, 1: integer or undefined}`, `Kind::remove` resolves `-1` against a length that counts the
    optional element (C19 `D_minlen_counts_optional`) and keeps requiring index 0. The side condition
    `delPathOk` excludes it. -/
theorem witness_del_value :
    outcome delNeg delNegEv = .ok (.arr .nil) ∧ memR (.arr .nil) (resultKind delNeg) = false ∧
    safeSeq delNeg T0 = false := by
  decide

set_option maxRecDepth 100000 in
/-- fixed (`D_del_typing` through C19 `D_remove_shift`; ff94317): `del(x[0])` on `[1, "s", true]` leaves
    `["s", true]`; `remove_shift` moved only one element (`{0: bytes, 2: boolean}`), now every later one -/
theorem fixed_del_shift :
    outcome delShift delShiftEv = .ok (.arr (.cons (.bytes [115]) (.cons (.bool true) .nil))) ∧
    memR (.arr (.cons (.bytes [115]) (.cons (.bool true) .nil))) (resultKind delShift) = true := by
  decide

set_option maxRecDepth 100000 in
/-- `D_scope_leak`: a block-scoped variable stays alive at run time; a later path assignment types
    the variable as new -/
theorem witness_scope_leak :
    outcome scopeLeak scopeLeakEv = .ok (.obj (.cons [97] (.int 2) (.cons [98] (.int 1) .nil))) ∧
    memR (.obj (.cons [97] (.int 2) (.cons [98] (.int 1) .nil))) (resultKind scopeLeak) = false := by
  decide

set_option maxRecDepth 100000 in
/-- `D_negative_index_kind`: `x[-3] = "s"` on a two-element array (C19 `D_neg_insert_exact_noshift`) -/
theorem witness_neg_index :
    outcome negIndex negIndexEv = .ok (.arr (.cons (.bytes [115]) (.cons (.int 1) (.cons (.int 2) .nil)))) ∧
    memR (.arr (.cons (.bytes [115]) (.cons (.int 1) (.cons (.int 2) .nil)))) (resultKind negIndex) = false := by
  decide

set_option maxRecDepth 100000 in
/-- fixed (`D_div_typing`; a408080): `/` dropped what its dividend may `return`; it now unions the
    type definitions of both operands -/
theorem fixed_div_returns :
    outcome divReturns divReturnsEv = .ret (.bytes [120]) ∧ memR (.bytes [120]) (returnsKind divReturns) = true ∧
    safeSeq divReturns T0 = true := by
  decide

set_option maxRecDepth 100000 in
/-- fixed (`D_return_drops_returns`; 7b68306): `return e` reported the kind of `e` only; it now also
    reports what `e` itself may `return` -/
theorem fixed_return_drops :
    outcome retDrops retDropsEv = .ret (.int 1) ∧ memR (.int 1) (returnsKind retDrops) = true ∧
    safeSeq retDrops T0 = true := by
  decide

set_option maxRecDepth 100000 in
/-- `D_return_skips_effects`: the final type state assumes the whole program ran; after an early
    `return` the event is not in the reported final target kind -/
theorem witness_return_skips :
    outcome retSkips retSkipsEv = .ret (.int 1) ∧
    mem (evalSeq retSkips (st retSkipsEv)).2.event (typeSeq retSkips T0 {}).2.target = false := by
  decide

/-- refuting `TypeSound` from a computed outcome -/
theorem refute_typeSound (e : Expr) (T : TState) (s : St) (v : Value) (hc : Conforms s T)
    (he : (eval e s).1 = .ok v) (hm : memR v (typeInfo e T).1.kind = false) : ¬ C01.TypeSound e T := by
  intro h
  have := h s hc
  cases hq : eval e s with
  | mk r s' =>
    rw [hq] at this he
    simp only at he
    subst he
    simp only at this
    rw [hm] at this
    cases this.1

set_option maxRecDepth 100000 in
/-- **the full-strength statement of C01 is false of the model** (hence, by the correspondence, of
    the code): the block-scope leak, a call-free program -/
theorem not_full : ¬ C01.Full := by
  intro h
  have hs := h (.blk scopeLeak) T0 (by decide)
  exact refute_typeSound (.blk scopeLeak) T0 (st scopeLeakEv)
    (.obj (.cons [97] (.int 2) (.cons [98] (.int 1) .nil))) (conforms_st _ (by decide) (by decide))
    (by decide) (by decide) hs

/-! ### non-vacuity of the hypotheses of the `_partial` theorems -/

set_option maxRecDepth 100000 in
/-- `x = 5; .r = 10 / x; .r` passes every side condition … -/
example : safeSeq okDiv T0 = true := by decide

set_option maxRecDepth 100000 in
/-- … and so does a conditional that reassigns a variable and the event -/
example : safeSeq okIf T0 = true := by decide

set_option maxRecDepth 100000 in
example : outcome okIf okIfEv = .ok (.arr (.cons (.bytes [115]) (.cons .null .nil))) := by decide

/-- a run-time state that inhabits the initial type state -/
example : Conforms (st okIfEv) T0 := conforms_st _ (by decide) (by decide)

end C01.W
