import VrlModel.Round
namespace C29f
end C29f
