/-
  C29 (float part) — witnesses of the known findings on concrete bit patterns, evaluated by the
  kernel (`decide +kernel`: the soft-float uses `Nat.log2`/`Nat.pow`, which the kernel computes with
  its built-in bignum arithmetic), and non-vacuity examples.
  The multiplier is the value `10f64.powf(p as f64)` has on the implementation (libm is a parameter
  of the model; the correspondence run passes the same bits):
      powf(400) = +∞ = 0x7ff0000000000000      powf(-400) = 0
      powf(10)  = 1e10 = 0x4202a05f20000000    powf(9) = 1e9 = 0x41cdcd6500000000
-/
import VrlProofs.Props.C29float

namespace C29f
open F64 Round

def x_1_5e300 : Nat := 0x7e41eb2d66005835
def x_1e300 : Nat := 0x7e37e43c8800759c
def x_123 : Nat := 0x405ec00000000000
def e10Bits : Nat := 0x4202a05f20000000
/-- −6630686.7451171875 -/
def x_ceil : Nat := 0xc1594b47afb00000
/-- −7799889.7041015625 -/
def x_floor : Nat := 0xc15dc1146d100000

def run (m10 : Nat) (x : Nat) : Obs :=
  ⟨orZero (roundToPrecision m10 .round x), orZero (roundToPrecision m10 .ceil x),
   orZero (roundToPrecision m10 .floor x)⟩

/-- `round:D_overflow_mult` — `round(1.5e300, 400) = 0.0` (`∞/∞ → NaN → 0`). -/
theorem witness_overflow_zero :
    roundFn .round (fun _ => infBits) (.float x_1_5e300) (some (.int 400)) = .ok (.float 0) ∧
    spec x_1_5e300 400 (run infBits x_1_5e300) = false ∧
    classify x_1_5e300 400 infBits = .overflowMult := by decide +kernel

/-- `round:D_overflow_mult` — `round(1e300, 10) = +∞` for a finite input. -/
theorem witness_overflow_inf :
    roundFn .round (fun _ => e10Bits) (.float x_1e300) (some (.int 10)) = .ok (.float infBits) ∧
    spec x_1e300 10 (run e10Bits x_1e300) = false ∧
    classify x_1e300 10 e10Bits = .overflowMult := by decide +kernel

/-- `round:D_underflow_mult` — `ceil(123.0, -400) = 0.0 < 123.0`. -/
theorem witness_underflow :
    roundFn .ceil (fun _ => 0) (.float x_123) (some (.int (-400))) = .ok (.float 0) ∧
    le x_123 0 = false ∧
    spec x_123 (-400) (run 0 x_123) = false ∧
    classify x_123 (-400) 0 = .underflowMult := by decide +kernel

/-- `round:D_product_rounding` — `ceil(-6630686.7451171875, 9)` is one ulp *below* its input:
    `x·1e9 ≈ −6.6e15 ≥ 2^52` is rounded to an integer by the multiplication already. -/
theorem witness_ceil_below :
    roundFn .ceil (fun _ => e9Bits) (.float x_ceil) (some (.int 9)) = .ok (.float 0xc1594b47afb00001) ∧
    le x_ceil 0xc1594b47afb00001 = false ∧
    spec x_ceil 9 (run e9Bits x_ceil) = false ∧
    classify x_ceil 9 e9Bits = .productRounding := by decide +kernel

/-- `round:D_product_rounding` — `floor(-7799889.7041015625, 9)` is one ulp *above* its input. -/
theorem witness_floor_above :
    roundFn .floor (fun _ => e9Bits) (.float x_floor) (some (.int 9)) = .ok (.float 0xc15dc1146d0fffff) ∧
    le 0xc15dc1146d0fffff x_floor = false ∧
    spec x_floor 9 (run e9Bits x_floor) = false ∧
    classify x_floor 9 e9Bits = .productRounding := by decide +kernel

/-- the statement is satisfiable and `spec_partial` is not vacuous: `x = 1234.5678`, `precision = 2`
    (`round = 1234.57`, `ceil = 1234.57`, `floor = 1234.56`), class `none` needs an exact product, so
    take `x = 2.5`, `precision = 0`: `round = 3`, `ceil = 3`, `floor = 2`. -/
example : spec 0x4004000000000000 0 (run oneBits 0x4004000000000000) = true ∧
    classify 0x4004000000000000 0 oneBits = .none ∧
    run oneBits 0x4004000000000000 = ⟨0x4008000000000000, 0x4008000000000000, 0x4000000000000000⟩ := by
  decide +kernel

example : spec 0x40934a456d5cfaad 2 (run 0x4059000000000000 0x40934a456d5cfaad) = true := by decide +kernel

/-- `round` is half away from zero, the sign of zero survives: `round(-0.4) = -0.0`, `round(-2.5) = -3`. -/
example : rint .round 0xbfd999999999999a = 0x8000000000000000 ∧ rint .round 0xc004000000000000 = 0xc008000000000000 := by
  decide +kernel

/-- exact layer, instance: `x = 1234.5678 = 6172839/5000`, `p = 2` (`s = 100`, `t = 1`):
    `floor(x·100) = 123456`, `ceil = 123457`, `round = 123457`. -/
example : (6172839 * 100 : Int) / ((5000 * 1 : Nat) : Int) = 123456 ∧ roundDiv (6172839 * 100) (5000 * 1) = 123457 := by
  decide

end C29f
