/-
  C18 — witnesses: the unrestricted frame law is false of the code (and of its model), in three
  classes, each replayed on the implementation by the check (`o.c18`); non-vacuity examples for the
  hypotheses of the property theorems.
-/
import VrlProofs.Props.C18

namespace C18
open Value

def kA : List Nat := [97]
def kB : List Nat := [98]

/-- `{"a": {"b": 1}}` -/
def wObj : Value := .obj (.cons kA (.obj (.cons kB (.int 1) .nil)) .nil)

/-- D_coerce: `.a[0] = 9` on `{"a":{"b":1}}` destroys `.a.b`. -/
theorem witness_coerce :
    diverge [.field kA, .index 0] [.field kA, .field kB] = true ∧
    frameClass (some wObj) [.field kA, .index 0] = .coerce ∧
    (insertOpt (some wObj) [.field kA, .index 0] (.int 9)).get [.field kA, .field kB]
      ≠ wObj.get [.field kA, .field kB] := by
  decide

/-- D_pad: `[2] = 9` on `null` creates `[null, null, 9]`: `[0]` now reads `null`. -/
theorem witness_pad :
    diverge [.index 2] [.index 0] = true ∧ frameClass (some .null) [.index 2] = .pad ∧
    (insertOpt (some .null) [.index 2] (.int 9)).get [.index 0] ≠ Value.null.get [.index 0] := by
  decide

/-- D_shift: `[-3] = 9` on `[1]` prepends two elements: `[-2]` changes from absent to `null`. -/
theorem witness_shift :
    let v := Value.arr (.cons (.int 1) .nil)
    diverge [.index (-3)] [.index (-2)] = true ∧ frameClass (some v) [.index (-3)] = .shift ∧
    (insertOpt (some v) [.index (-3)] (.int 9)).get [.index (-2)] ≠ v.get [.index (-2)] := by
  decide

/-- non-vacuity of `frame_partial`: a nested value and diverging paths satisfying its hypotheses. -/
example : diverge [.field kA, .field kB] [.field kA, .field [99]] = true ∧
    frameOK (some wObj) [.field kA, .field kB] = true ∧ Value.Sorted wObj = true := by decide

/-- non-vacuity of `get_insert` / `insert_sorted`: a non-panicking insert exists. -/
example : ∃ v' prev, wObj.insert [.field kA, .index (-2)] (.int 7) = .ok (v', prev) := ⟨_, _, rfl⟩

/-- `frameClass` is `none` exactly when `frameOK` holds (the classes are the complement of the
    hypothesis of `frame_partial`). -/
theorem frameClass_none_iff (p : Path) : ∀ c, frameClass c p = .none ↔ frameOK c p = true := by
  induction p with
  | nil => intro c; simp [frameClass, frameOK]
  | cons s rest ih =>
    intro c
    cases s with
    | field f =>
      cases c with
      | none => simp [frameClass, frameOK, ih]
      | some cv => cases cv <;> simp [frameClass, frameOK, ih]
    | index i =>
      cases c with
      | none =>
        simp only [frameClass, frameOK]
        by_cases h : idxOK 0 i = true
        · simp [h, ih]
        · simp [h]; split <;> simp
      | some cv =>
        cases cv with
        | arr a =>
          simp only [frameClass, frameOK]
          by_cases h : idxOK a.length i = true
          · simp [h, ih]
          · simp [h]; split <;> simp
        | obj m => simp [frameClass, frameOK]
        | _ =>
          simp only [frameClass, frameOK]
          by_cases h : idxOK 0 i = true
          · simp [h, ih]
          · simp [h]; split <;> simp

end C18
