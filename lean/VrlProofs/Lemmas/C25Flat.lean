/-
  Helper lemmas for C25 (flatten / unflatten), part 3: the shape of what `flatten` yields for an
  object in the domain `flatOKM`, and one level of `do_unflatten_entries` on (a permutation of) it.
-/
import VrlProofs.Lemmas.C25Split
import VrlProofs.Lemmas.C25Map

namespace Conv.Flat
open C25

/-- prefix an entry's key with `p` and the separator -/
def pfx (sep p : Key) (e : Key × Value) : Key × Value := (p ++ sep ++ e.1, e.2)

/-- what `flatten` (no `except`) yields for the object `m` -/
abbrev F (sep : Key) (m : VMap) : Entries := flattenMap sep [] none m

/-- … and for one field `k: v` of it -/
def fieldEntries (sep k : Key) : Value → Entries
  | .obj m' => (F sep m').map (pfx sep k)
  | v => [(k, v)]

mutual
  theorem flattenMap_some (sep p : Key) : (m : VMap) →
      flattenMap sep [] (some p) m = (flattenMap sep [] none m).map (pfx sep p)
    | .nil => rfl
    | .cons k v rest => by
      have hc : ([] : List Key).contains k = false := rfl
      simp only [flattenMap, newKey, List.map_append, hc]
      rw [flattenField_pfx sep p k v, flattenMap_some sep p rest]
  theorem flattenField_pfx (sep p k : Key) : (v : Value) →
      flattenField sep [] (p ++ sep ++ k) false v = (flattenField sep [] k false v).map (pfx sep p)
    | .obj m' => by
      simp only [flattenField, Bool.false_eq_true, ↓reduceIte]
      rw [flattenMap_some sep (p ++ sep ++ k) m', flattenMap_some sep k m']
      simp [List.map_map, pfx, Function.comp_def]
    | .null => rfl
    | .bool _ => rfl
    | .int _ => rfl
    | .float _ => rfl
    | .bytes _ => rfl
    | .ts _ => rfl
    | .regex _ => rfl
    | .arr _ => rfl
end

theorem flattenField_eq (sep k : Key) (v : Value) :
    flattenField sep [] k false v = fieldEntries sep k v := by
  cases v <;> simp [flattenField, fieldEntries, flattenMap_some]

theorem F_cons (sep k : Key) (v : Value) (rest : VMap) :
    F sep (.cons k v rest) = fieldEntries sep k v ++ F sep rest := by
  have hc : ([] : List Key).contains k = false := rfl
  simp only [F, flattenMap, newKey, hc]
  rw [← flattenField_eq]

def isObj : Value → Bool
  | .obj _ => true
  | _ => false

theorem fieldEntries_leaf (sep k : Key) (v : Value) (h : isObj v = false) :
    fieldEntries sep k v = [(k, v)] := by
  cases v <;> simp_all [fieldEntries, isObj]

mutual
  /-- leaves of a flattened object are never objects -/
  theorem F_leaf (sep : Key) : (m : VMap) → ∀ e ∈ F sep m, isObj e.2 = false
    | .nil => by intro e he; simp [F, flattenMap] at he
    | .cons k v rest => by
      intro e he
      rw [F_cons, List.mem_append] at he
      rcases he with he | he
      · exact fieldEntries_leaf' sep k v e he
      · exact F_leaf sep rest e he
  theorem fieldEntries_leaf' (sep k : Key) : (v : Value) → ∀ e ∈ fieldEntries sep k v, isObj e.2 = false
    | .obj m' => by
      intro e he
      simp only [fieldEntries, List.mem_map] at he
      obtain ⟨e', he', rfl⟩ := he
      exact F_leaf sep m' e' he'
    | .null => by intro e he; simp [fieldEntries] at he; subst he; rfl
    | .bool _ => by intro e he; simp [fieldEntries] at he; subst he; rfl
    | .int _ => by intro e he; simp [fieldEntries] at he; subst he; rfl
    | .float _ => by intro e he; simp [fieldEntries] at he; subst he; rfl
    | .bytes _ => by intro e he; simp [fieldEntries] at he; subst he; rfl
    | .ts _ => by intro e he; simp [fieldEntries] at he; subst he; rfl
    | .regex _ => by intro e he; simp [fieldEntries] at he; subst he; rfl
    | .arr _ => by intro e he; simp [fieldEntries] at he; subst he; rfl
end

mutual
  /-- a non-empty object of the domain flattens to at least one entry -/
  theorem F_ne_nil (sep : Key) : (m : VMap) → m.isEmpty = false → flatOKM sep m = true → F sep m ≠ []
    | .nil, h, _ => by simp [VMap.isEmpty] at h
    | .cons k v rest, _, hok => by
      simp only [flatOKM, Bool.and_eq_true] at hok
      rw [F_cons]
      intro h
      exact fieldEntries_ne_nil sep k v hok.1.1.2 (List.append_eq_nil_iff.mp h).1
  theorem fieldEntries_ne_nil (sep k : Key) : (v : Value) → flatOKV sep v = true →
      fieldEntries sep k v ≠ []
    | .obj m', hok => by
      simp only [flatOKV, Bool.and_eq_true, Bool.not_eq_true'] at hok
      simp only [fieldEntries, ne_eq, List.map_eq_nil_iff]
      exact F_ne_nil sep m' hok.1 hok.2
    | .null, _ => by simp [fieldEntries]
    | .bool _, _ => by simp [fieldEntries]
    | .int _, _ => by simp [fieldEntries]
    | .float _, _ => by simp [fieldEntries]
    | .bytes _, _ => by simp [fieldEntries]
    | .ts _, _ => by simp [fieldEntries]
    | .regex _, _ => by simp [fieldEntries]
    | .arr _, _ => by simp [fieldEntries]
end

/-- the triples `do_unflatten_entries` computes for the entries of one field -/
theorem triplesOf_field_leaf (sep k : Key) (v : Value) (hne : sep ≠ []) (hk : sepFree sep k = true)
    (hv : isObj v = false) : triplesOf sep (fieldEntries sep k v) = [(k, none, v)] := by
  rw [fieldEntries_leaf sep k v hv]
  simp [triplesOf, headRest_free sep k hne hk]

theorem triplesOf_field_obj (sep k : Key) (m' : VMap) (hk : sepFree sep k = true) :
    triplesOf sep (fieldEntries sep k (.obj m')) = (F sep m').map fun e => (k, some e.1, e.2) := by
  simp only [triplesOf, fieldEntries, List.map_map]
  apply List.map_congr_left
  intro e _
  simp only [pfx, Function.comp_apply]
  rw [headRest_join sep k e.1 hk]

theorem triplesOf_field_head (sep k : Key) (v : Value) (hne : sep ≠ []) (hk : sepFree sep k = true) :
    ∀ t ∈ triplesOf sep (fieldEntries sep k v), t.1 = k := by
  intro t ht
  by_cases hv : isObj v = true
  · cases v <;> simp [isObj] at hv
    rw [triplesOf_field_obj sep k _ hk] at ht
    obtain ⟨e, _, rfl⟩ := List.mem_map.mp ht
    rfl
  · rw [triplesOf_field_leaf sep k v hne hk (by simpa using hv)] at ht
    simp at ht
    rw [ht]

theorem triplesOf_append (sep : Key) (a b : Entries) :
    triplesOf sep (a ++ b) = triplesOf sep a ++ triplesOf sep b := by
  simp [triplesOf]

/-- the group of a head `h` among the triples of a flattened object: the triples of the field `h`
    (nothing if there is no such field). -/
theorem filter_head (sep : Key) (hne : sep ≠ []) : (m : VMap) → flatOKM sep m = true → (h : Key) →
    (triplesOf sep (F sep m)).filter (fun t => t.1 == h) =
      match m.get h with
      | some v => triplesOf sep (fieldEntries sep h v)
      | none => []
  | .nil, _, h => by simp [F, flattenMap, triplesOf, VMap.get]
  | .cons k v rest, hok, h => by
    simp only [flatOKM, Bool.and_eq_true] at hok
    obtain ⟨⟨⟨hk, _hv⟩, hgt⟩, hrest⟩ := hok
    rw [F_cons, triplesOf_append, List.filter_append, filter_head sep hne rest hrest h]
    have hhead := triplesOf_field_head sep k v hne hk
    by_cases hkh : k = h
    · subst hkh
      have h1 : (triplesOf sep (fieldEntries sep k v)).filter (fun t => t.1 == k)
          = triplesOf sep (fieldEntries sep k v) := by
        apply List.filter_eq_self.mpr
        intro t ht
        simp [hhead t ht]
      rw [h1, get_none_of_allGt rest k hgt]
      simp [VMap.get]
    · have h1 : (triplesOf sep (fieldEntries sep k v)).filter (fun t => t.1 == h) = [] := by
        apply List.filter_eq_nil_iff.mpr
        intro t ht
        simp [hhead t ht, hkh]
      rw [h1]
      simp [VMap.get, hkh]

/-- a field of an object of the domain is in the domain, and its key is `sepFree` -/
theorem get_flatOK (sep : Key) : (m : VMap) → (h : Key) → (v : Value) → flatOKM sep m = true →
    m.get h = some v → flatOKV sep v = true ∧ sepFree sep h = true
  | .nil, _, _, _, hg => by simp [VMap.get] at hg
  | .cons k w rest, h, v, hok, hg => by
    simp only [flatOKM, Bool.and_eq_true] at hok
    simp only [VMap.get] at hg
    split at hg
    · rename_i hkh
      cases hg
      subst hkh
      exact ⟨hok.1.1.2, hok.1.1.1⟩
    · exact get_flatOK sep rest h v hok.2 hg

/-- every head occurring among the triples is a field of the object, and vice versa -/
theorem head_mem_iff (sep : Key) (hne : sep ≠ []) (m : VMap) (hok : flatOKM sep m = true) (h : Key) :
    h ∈ (triplesOf sep (F sep m)).map (·.1) ↔ ∃ v, m.get h = some v := by
  have hf := filter_head sep hne m hok h
  constructor
  · intro hm
    obtain ⟨t, ht, hth⟩ := List.mem_map.mp hm
    have : t ∈ (triplesOf sep (F sep m)).filter (fun t => t.1 == h) := by
      simp [List.mem_filter, ht, hth]
    rw [hf] at this
    cases hg : m.get h with
    | none => simp [hg] at this
    | some v => exact ⟨v, rfl⟩
  · intro ⟨v, hv⟩
    rw [hv] at hf
    simp only at hf
    obtain ⟨hvok, _⟩ := get_flatOK sep m h v hok hv
    have hne' : triplesOf sep (fieldEntries sep h v) ≠ [] := by
      simp only [triplesOf, ne_eq, List.map_eq_nil_iff]
      exact fieldEntries_ne_nil sep h v hvok
    cases hts : triplesOf sep (fieldEntries sep h v) with
    | nil => exact absurd hts hne'
    | cons t ts =>
      have hmem : t ∈ (triplesOf sep (F sep m)).filter (fun t => t.1 == h) := by
        rw [hf, hts]; simp
      simp only [List.mem_filter, beq_iff_eq] at hmem
      exact List.mem_map.mpr ⟨t, hmem.1, hmem.2⟩

theorem head_of_mem_F (sep : Key) (hne : sep ≠ []) (m : VMap) (hok : flatOKM sep m = true)
    (e : Key × Value) (he : e ∈ F sep m) : ∃ v, m.get (headRest sep e.1).1 = some v := by
  apply (head_mem_iff sep hne m hok _).mp
  simp only [triplesOf, List.map_map, List.mem_map, Function.comp_apply]
  exact ⟨e, he, rfl⟩

theorem head_of_mem_field (sep k : Key) (v : Value) (hne : sep ≠ []) (hk : sepFree sep k = true)
    (e : Key × Value) (he : e ∈ fieldEntries sep k v) : (headRest sep e.1).1 = k := by
  apply triplesOf_field_head sep k v hne hk ((headRest sep e.1).1, (headRest sep e.1).2, e.2)
  simp only [triplesOf, List.mem_map]
  exact ⟨e, he, rfl⟩

mutual
  /-- the flattened keys of an object of the domain are pairwise distinct -/
  theorem F_nodup (sep : Key) (hne : sep ≠ []) : (m : VMap) → flatOKM sep m = true →
      ((F sep m).map (·.1)).Nodup
    | .nil, _ => by simp [F, flattenMap]
    | .cons k v rest, hok => by
      have hok' := hok
      simp only [flatOKM, Bool.and_eq_true] at hok
      obtain ⟨⟨⟨hk, hv⟩, hgt⟩, hrest⟩ := hok
      rw [F_cons, List.map_append, List.nodup_append]
      refine ⟨field_nodup sep hne k v hv, F_nodup sep hne rest hrest, ?_⟩
      intro a ha b hb hab
      obtain ⟨e1, he1, rfl⟩ := List.mem_map.mp ha
      obtain ⟨e2, he2, hb2⟩ := List.mem_map.mp hb
      have h1 := head_of_mem_field sep k v hne hk e1 he1
      obtain ⟨w, hw⟩ := head_of_mem_F sep hne rest hrest e2 he2
      rw [hb2, ← hab, h1, get_none_of_allGt rest k hgt] at hw
      cases hw
  theorem field_nodup (sep : Key) (hne : sep ≠ []) (k : Key) : (v : Value) → flatOKV sep v = true →
      ((fieldEntries sep k v).map (·.1)).Nodup
    | .obj m', hok => by
      simp only [flatOKV, Bool.and_eq_true] at hok
      have ih := F_nodup sep hne m' hok.2
      simp only [fieldEntries, List.map_map]
      have : ((fun (x : Key × Value) => x.1) ∘ pfx sep k) = (fun a => k ++ sep ++ a) ∘ (fun x => x.1) := by
        funext e; simp [pfx]
      rw [this, ← List.map_map]
      simp only [List.Nodup, List.pairwise_map] at ih ⊢
      apply ih.imp
      intro a b hab heq
      simp only [List.append_assoc, List.append_cancel_left_eq] at heq
      exact hab heq
    | .null, _ => by simp [fieldEntries]
    | .bool _, _ => by simp [fieldEntries]
    | .int _, _ => by simp [fieldEntries]
    | .float _, _ => by simp [fieldEntries]
    | .bytes _, _ => by simp [fieldEntries]
    | .ts _, _ => by simp [fieldEntries]
    | .regex _, _ => by simp [fieldEntries]
    | .arr _, _ => by simp [fieldEntries]
end

theorem nestSingle_cons (k : Key) (ks : List Key) (v : Value) :
    nestSingle (k :: ks) v = .obj (.cons k (nestSingle ks v) .nil) := rfl

mutual
  /-- `do_unflatten_entry` (split at every separator, nest) rebuilds an object that flattened to
      a single entry. -/
  theorem chain_map (sep : Key) (hne : sep ≠ []) : (m' : VMap) → flatOKM sep m' = true →
      ∀ e, F sep m' = [e] → nestSingle (splitAll sep e.1) e.2 = .obj m'
    | .nil, _, e, h => by simp [F, flattenMap] at h
    | .cons k v rest, hok, e, h => by
      simp only [flatOKM, Bool.and_eq_true] at hok
      obtain ⟨⟨⟨hk, hv⟩, _hgt⟩, hrest⟩ := hok
      rw [F_cons] at h
      have hfe := fieldEntries_ne_nil sep k v hv
      cases hf : fieldEntries sep k v with
      | nil => exact absurd hf hfe
      | cons x xs =>
        rw [hf] at h
        simp only [List.cons_append, List.cons.injEq, List.append_eq_nil_iff] at h
        obtain ⟨hx, hxs, hFrest⟩ := h
        subst hx; subst hxs
        have hrnil : rest = .nil := by
          cases rest with
          | nil => rfl
          | cons k2 v2 r2 => exact absurd hFrest (F_ne_nil sep _ rfl hrest)
        subst hrnil
        exact chain_field sep hne k v hk hv x hf
  theorem chain_field (sep : Key) (hne : sep ≠ []) (k : Key) : (v : Value) → sepFree sep k = true →
      flatOKV sep v = true → ∀ e, fieldEntries sep k v = [e] →
      nestSingle (splitAll sep e.1) e.2 = .obj (.cons k v .nil)
    | .obj m'', hk, hok, e, h => by
      simp only [flatOKV, Bool.and_eq_true] at hok
      simp only [fieldEntries] at h
      cases hF : F sep m'' with
      | nil => simp [hF] at h
      | cons e2 es2 =>
        rw [hF] at h
        simp only [List.map_cons, List.cons.injEq, List.map_eq_nil_iff] at h
        obtain ⟨he, hes⟩ := h
        subst hes
        have ih := chain_map sep hne m'' hok.2 e2 hF
        rw [← he]
        simp only [pfx]
        rw [splitAll_of_split sep _ k e2.1 hne (splitOnce_join sep k e2.1 hk), nestSingle_cons, ih]
    | .null, hk, _, e, h => by
      simp only [fieldEntries, List.cons.injEq, and_true] at h; subst h
      simp [splitAll_of_none sep k hne (splitOnce_free sep k hne hk), nestSingle]
    | .bool _, hk, _, e, h => by
      simp only [fieldEntries, List.cons.injEq, and_true] at h; subst h
      simp [splitAll_of_none sep k hne (splitOnce_free sep k hne hk), nestSingle]
    | .int _, hk, _, e, h => by
      simp only [fieldEntries, List.cons.injEq, and_true] at h; subst h
      simp [splitAll_of_none sep k hne (splitOnce_free sep k hne hk), nestSingle]
    | .float _, hk, _, e, h => by
      simp only [fieldEntries, List.cons.injEq, and_true] at h; subst h
      simp [splitAll_of_none sep k hne (splitOnce_free sep k hne hk), nestSingle]
    | .bytes _, hk, _, e, h => by
      simp only [fieldEntries, List.cons.injEq, and_true] at h; subst h
      simp [splitAll_of_none sep k hne (splitOnce_free sep k hne hk), nestSingle]
    | .ts _, hk, _, e, h => by
      simp only [fieldEntries, List.cons.injEq, and_true] at h; subst h
      simp [splitAll_of_none sep k hne (splitOnce_free sep k hne hk), nestSingle]
    | .regex _, hk, _, e, h => by
      simp only [fieldEntries, List.cons.injEq, and_true] at h; subst h
      simp [splitAll_of_none sep k hne (splitOnce_free sep k hne hk), nestSingle]
    | .arr _, hk, _, e, h => by
      simp only [fieldEntries, List.cons.injEq, and_true] at h; subst h
      simp [splitAll_of_none sep k hne (splitOnce_free sep k hne hk), nestSingle]
end

theorem field_sub_F (sep : Key) : (m : VMap) → (h : Key) → (v : Value) → m.get h = some v →
    ∀ e ∈ fieldEntries sep h v, e ∈ F sep m
  | .nil, _, _, hg => by simp [VMap.get] at hg
  | .cons k w rest, h, v, hg => by
    intro e he
    rw [F_cons, List.mem_append]
    simp only [VMap.get] at hg
    split at hg
    · rename_i hkh
      cases hg; subst hkh
      exact Or.inl he
    · exact Or.inr (field_sub_F sep rest h v hg e he)

theorem ksorted_of_flatOKM (sep : Key) : (m : VMap) → flatOKM sep m = true → ksorted m = true
  | .nil, _ => rfl
  | .cons k v rest, hok => by
    simp only [flatOKM, Bool.and_eq_true] at hok
    simp only [ksorted, Bool.and_eq_true]
    exact ⟨hok.1.2, ksorted_of_flatOKM sep rest hok.2⟩

theorem mem_dedup : (l : List Key) → (a : Key) → (a ∈ dedup l ↔ a ∈ l)
  | [], _ => by simp [dedup]
  | b :: l, a => by
    simp only [dedup]
    split
    · rename_i hc
      rw [mem_dedup l a]
      simp only [List.contains_iff_mem] at hc
      constructor
      · intro h; exact List.mem_cons_of_mem _ h
      · intro h
        rcases List.mem_cons.mp h with h | h
        · subst h; exact hc
        · exact h
    · simp only [List.mem_cons, mem_dedup l a]

theorem nodup_dedup : (l : List Key) → (dedup l).Nodup
  | [] => by simp [dedup]
  | b :: l => by
    simp only [dedup]
    split
    · exact nodup_dedup l
    · rename_i hc
      simp only [List.contains_iff_mem] at hc
      simp only [List.nodup_cons]
      exact ⟨fun h => hc ((mem_dedup l b).mp h), nodup_dedup l⟩

theorem mapM_some {α β : Type} (f : α → Option β) (g : α → β) : (l : List α) →
    (∀ x ∈ l, f x = some (g x)) → l.mapM f = some (l.map g)
  | [], _ => rfl
  | a :: l, h => by
    have h1 := h a (by simp)
    have h2 := mapM_some f g l (fun x hx => h x (by simp [hx]))
    simp [List.mapM_cons, h1, h2]

theorem leafWith_leaf (recur : Entries → Option VMap) (r : Bool) (v : Value) (hv : isObj v = false) :
    leafWith recur r v = some v := by
  cases r <;> cases v <;> simp_all [leafWith, isObj]

end Conv.Flat
