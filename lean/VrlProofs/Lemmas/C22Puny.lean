import VrlModel.Codec.Param
