/-
  Lemmas about the punycode glue model (split/join on '.', "xn--" detection) used by C22.
-/
import VrlModel.Codec.Param
import VrlProofs.Lemmas.C22Utf8

namespace Codec.Punycode

theorem splitDot_ne_nil : ∀ s : Bytes, splitDot s ≠ []
  | [] => by simp [splitDot]
  | b :: rest => by
    unfold splitDot
    split
    · simp
    · have := splitDot_ne_nil rest
      split <;> simp

theorem joinDot_cons_cons (p q : Bytes) (ps : List Bytes) :
    joinDot (p :: q :: ps) = p ++ dot :: joinDot (q :: ps) := rfl

theorem joinDot_cons_of_ne_nil (p : Bytes) (ps : List Bytes) (h : ps ≠ []) :
    joinDot (p :: ps) = p ++ dot :: joinDot ps := by
  cases ps with
  | nil => exact absurd rfl h
  | cons q qs => rfl

/-- `split('.')` then `join(".")` is the identity. -/
theorem joinDot_splitDot : ∀ s : Bytes, joinDot (splitDot s) = s
  | [] => rfl
  | b :: rest => by
    have ih := joinDot_splitDot rest
    have hne := splitDot_ne_nil rest
    unfold splitDot
    split
    · rename_i hb
      rw [joinDot_cons_of_ne_nil _ _ hne, ih, hb]
      rfl
    · cases hsp : splitDot rest with
      | nil => exact absurd hsp hne
      | cons p ps =>
        rw [hsp] at ih
        simp only
        cases ps with
        | nil =>
          simp only [joinDot] at ih ⊢
          rw [ih]
        | cons q qs =>
          rw [joinDot_cons_cons] at ih ⊢
          rw [List.cons_append, ih]

/-- labels produced by `split('.')` contain no dot. -/
theorem splitDot_no_dot : ∀ (s : Bytes), ∀ l ∈ splitDot s, dot ∉ l
  | [] => by simp [splitDot]
  | b :: rest => by
    have ih := splitDot_no_dot rest
    have hne := splitDot_ne_nil rest
    unfold splitDot
    split
    · intro l hl
      simp only [List.mem_cons] at hl
      rcases hl with hl | hl
      · subst hl; simp
      · exact ih l hl
    · rename_i hb
      cases hsp : splitDot rest with
      | nil => exact absurd hsp hne
      | cons p ps =>
        rw [hsp] at ih
        intro l hl
        simp only [List.mem_cons] at hl
        rcases hl with hl | hl
        · subst hl
          have := ih p (by simp)
          simp only [List.mem_cons, not_or]
          exact ⟨fun h => hb h.symm, this⟩
        · exact ih l (by simp [hl])

theorem splitDot_append_dot (p : Bytes) (hp : dot ∉ p) (rest : Bytes) :
    splitDot (p ++ dot :: rest) = p :: splitDot rest := by
  induction p with
  | nil => simp [splitDot]
  | cons a t ih =>
    have ha : a ≠ dot := fun h => hp (by simp [h])
    have ht : dot ∉ t := fun h => hp (by simp [h])
    rw [List.cons_append, splitDot, if_neg ha, ih ht]

theorem splitDot_of_no_dot (p : Bytes) (hp : dot ∉ p) : splitDot p = [p] := by
  induction p with
  | nil => rfl
  | cons a t ih =>
    have ha : a ≠ dot := fun h => hp (by simp [h])
    have ht : dot ∉ t := fun h => hp (by simp [h])
    rw [splitDot, if_neg ha, ih ht]

/-- `join(".")` then `split('.')` is the identity on non-empty lists of dot-free labels. -/
theorem splitDot_joinDot : ∀ (ls : List Bytes), ls ≠ [] → (∀ l ∈ ls, dot ∉ l) →
    splitDot (joinDot ls) = ls
  | [], h, _ => absurd rfl h
  | [p], _, h => by
    simp only [joinDot]
    exact splitDot_of_no_dot p (h p (by simp))
  | p :: q :: ps, _, h => by
    rw [joinDot_cons_cons, splitDot_append_dot p (h p (by simp))]
    rw [splitDot_joinDot (q :: ps) (by simp) (fun l hl => h l (by simp [hl]))]

theorem hasPrefixAnywhere_cons (b : Nat) (rest : Bytes) :
    hasPrefixAnywhere (b :: rest) = (prefix_.isPrefixOf (b :: rest) || hasPrefixAnywhere rest) := rfl

theorem hasPrefixAnywhere_of_isPrefix (l : Bytes) (h : prefix_.isPrefixOf l = true) :
    hasPrefixAnywhere l = true := by
  cases l with
  | nil => simp [prefix_] at h
  | cons b rest => rw [hasPrefixAnywhere_cons, h]; rfl

theorem hasPrefixAnywhere_append_left (x y : Bytes) (h : hasPrefixAnywhere y = true) :
    hasPrefixAnywhere (x ++ y) = true := by
  induction x with
  | nil => exact h
  | cons a t ih => rw [List.cons_append, hasPrefixAnywhere_cons, ih]; simp

theorem isPrefixOf_append_right (p l post : Bytes) (h : p.isPrefixOf l = true) :
    p.isPrefixOf (l ++ post) = true := by
  rw [List.isPrefixOf_iff_prefix] at h ⊢
  exact List.IsPrefix.trans h (List.prefix_append l post)

/-- if a joined domain contains no "xn--", no label starts with it. -/
theorem no_prefix_of_join : ∀ (ls : List Bytes), hasPrefixAnywhere (joinDot ls) = false →
    ∀ l ∈ ls, prefix_.isPrefixOf l = false
  | [], _ => by simp
  | [p], h => by
    intro l hl
    simp only [List.mem_singleton] at hl
    subst hl
    simp only [joinDot] at h
    cases hp : prefix_.isPrefixOf l with
    | false => rfl
    | true => rw [hasPrefixAnywhere_of_isPrefix l hp] at h; cases h
  | p :: q :: ps, h => by
    rw [joinDot_cons_cons] at h
    intro l hl
    simp only [List.mem_cons] at hl
    rcases hl with hl | hl
    · subst hl
      cases hp : prefix_.isPrefixOf l with
      | false => rfl
      | true =>
        rw [hasPrefixAnywhere_of_isPrefix _ (isPrefixOf_append_right _ _ _ hp)] at h
        cases h
    · have h' : hasPrefixAnywhere (joinDot (q :: ps)) = false := by
        cases hh : hasPrefixAnywhere (joinDot (q :: ps)) with
        | false => rfl
        | true =>
          have := hasPrefixAnywhere_append_left (p ++ [dot]) _ hh
          rw [List.append_assoc] at this
          simp only [List.cons_append, List.nil_append] at this
          rw [this] at h
          cases h
      exact no_prefix_of_join (q :: ps) h' l (by simpa using hl)

theorem isAscii_iff (l : Bytes) : isAscii l = true ↔ ∀ x ∈ l, x < 128 := by
  simp [isAscii]

theorem isAscii_joinDot : ∀ (ls : List Bytes), (∀ l ∈ ls, isAscii l = true) → isAscii (joinDot ls) = true
  | [], _ => rfl
  | [p], h => h p (by simp)
  | p :: q :: ps, h => by
    rw [joinDot_cons_cons]
    have hp := h p (by simp)
    have ih := isAscii_joinDot (q :: ps) (fun l hl => h l (by simp [hl]))
    simp only [isAscii, List.all_append, List.all_cons, Bool.and_eq_true] at hp ih ⊢
    exact ⟨hp, by decide, ih⟩

theorem isAscii_prefix : isAscii prefix_ = true := by decide
theorem dot_not_in_prefix : dot ∉ prefix_ := by decide

theorem prefix_isPrefixOf_append (e : Bytes) : prefix_.isPrefixOf (prefix_ ++ e) = true := by
  simp [prefix_, List.isPrefixOf]

theorem drop_prefix_append (e : Bytes) : (prefix_ ++ e).drop 4 = e := by
  simp [prefix_]

theorem map_id_of_mem {α : Type} (f : α → α) : ∀ (l : List α), (∀ x ∈ l, f x = x) → l.map f = l
  | [], _ => rfl
  | a :: t, h => by
    rw [List.map_cons, h a (by simp), map_id_of_mem f t (fun x hx => h x (by simp [hx]))]

end Codec.Punycode
