/-
  Lemmas about the base16 / base64 models used by C22.
-/
import VrlModel.Codec.Base16
import VrlModel.Codec.Base64
import VrlProofs.Lemmas.C22Utf8

namespace Codec

theorem hexVal_hexLower : ∀ n, n < 16 → hexVal (hexLower n) = some n := by decide
theorem hexVal_hexUpper : ∀ n, n < 16 → hexVal (hexUpper n) = some n := by decide
theorem hexLower_ascii : ∀ n, n < 16 → hexLower n < 128 := by decide
theorem hexUpper_ascii : ∀ n, n < 16 → hexUpper n < 128 := by decide

namespace Base16

theorem enc_ascii : ∀ (b : List Nat), (∀ x ∈ b, x < 256) → ∀ y ∈ enc b, y < 128
  | [], _ => by simp [enc]
  | x :: rest, h => by
    have hx : x < 256 := h x (by simp)
    intro y hy
    simp only [enc, List.mem_cons] at hy
    rcases hy with hy | hy | hy
    · subst hy; exact hexLower_ascii _ (by omega)
    · subst hy; exact hexLower_ascii _ (by omega)
    · exact enc_ascii rest (fun z hz => h z (by simp [hz])) y hy

theorem dec_enc : ∀ (b : List Nat), (∀ x ∈ b, x < 256) → dec (enc b) = some b
  | [], _ => rfl
  | x :: rest, h => by
    have hx : x < 256 := h x (by simp)
    have ih := dec_enc rest (fun z hz => h z (by simp [hz]))
    simp only [enc, dec, hexVal_hexLower (x / 16) (by omega), hexVal_hexLower (x % 16) (by omega), ih]
    congr 2
    omega

/-- the same digits in upper case (what other base16 encoders produce). -/
def encUpper : List Nat → List Nat
  | [] => []
  | b :: rest => hexUpper (b / 16) :: hexUpper (b % 16) :: encUpper rest

theorem encUpper_ascii : ∀ (b : List Nat), (∀ x ∈ b, x < 256) → ∀ y ∈ encUpper b, y < 128
  | [], _ => by simp [encUpper]
  | x :: rest, h => by
    have hx : x < 256 := h x (by simp)
    intro y hy
    simp only [encUpper, List.mem_cons] at hy
    rcases hy with hy | hy | hy
    · subst hy; exact hexUpper_ascii _ (by omega)
    · subst hy; exact hexUpper_ascii _ (by omega)
    · exact encUpper_ascii rest (fun z hz => h z (by simp [hz])) y hy

theorem dec_encUpper : ∀ (b : List Nat), (∀ x ∈ b, x < 256) → dec (encUpper b) = some b
  | [], _ => rfl
  | x :: rest, h => by
    have hx : x < 256 := h x (by simp)
    have ih := dec_encUpper rest (fun z hz => h z (by simp [hz]))
    simp only [encUpper, dec, hexVal_hexUpper (x / 16) (by omega), hexVal_hexUpper (x % 16) (by omega), ih]
    congr 2
    omega

end Base16

namespace Base64

theorem val_sym (cs : Charset) : ∀ i, i < 64 → val cs (sym cs i) = some i := by
  cases cs <;> decide

theorem sym_ne_pad (cs : Charset) : ∀ i, i < 64 → (sym cs i == padByte) = false := by
  cases cs <;> decide

/-- number of `=` the padded engine appends. -/
def padLen (n : Nat) : Nat := (3 - n % 3) % 3

theorem enc_pad (cs : Charset) : ∀ (b : List Nat),
    enc cs true b = enc cs false b ++ List.replicate (padLen b.length) padByte
  | [] => rfl
  | [_] => rfl
  | [_, _] => rfl
  | a :: b :: c :: rest => by
    have ih := enc_pad cs rest
    have hl : padLen (a :: b :: c :: rest).length = padLen rest.length := by
      simp only [List.length_cons, padLen]; omega
    simp only [enc, ih, hl, List.cons_append]

theorem enc_no_pad (cs : Charset) : ∀ (b : List Nat), (∀ x ∈ b, x < 256) →
    ∀ y ∈ enc cs false b, (y == padByte) = false
  | [], _ => by simp [enc]
  | [a], h => by
    have ha : a < 256 := h a (by simp)
    intro y hy
    simp only [enc, List.mem_cons, Bool.false_eq_true, ↓reduceIte, List.not_mem_nil, or_false] at hy
    rcases hy with hy | hy <;> subst hy <;> exact sym_ne_pad cs _ (by omega)
  | [a, b], h => by
    have ha : a < 256 := h a (by simp)
    have hb : b < 256 := h b (by simp)
    intro y hy
    simp only [enc, List.mem_cons, Bool.false_eq_true, ↓reduceIte, List.not_mem_nil, or_false] at hy
    rcases hy with hy | hy | hy <;> subst hy <;> exact sym_ne_pad cs _ (by omega)
  | a :: b :: c :: rest, h => by
    have ha : a < 256 := h a (by simp)
    have hb : b < 256 := h b (by simp)
    have hc : c < 256 := h c (by simp)
    have ih := enc_no_pad cs rest (fun z hz => h z (by simp [hz]))
    intro y hy
    simp only [enc, List.mem_cons] at hy
    rcases hy with hy | hy | hy | hy | hy
    · subst hy; exact sym_ne_pad cs _ (by omega)
    · subst hy; exact sym_ne_pad cs _ (by omega)
    · subst hy; exact sym_ne_pad cs _ (by omega)
    · subst hy; exact sym_ne_pad cs _ (by omega)
    · exact ih y hy

theorem enc_nil_iff (cs : Charset) (pad : Bool) (b : List Nat) : enc cs pad b = [] ↔ b = [] := by
  match b with
  | [] => simp [enc]
  | [_] => simp [enc]
  | [_, _] => simp [enc]
  | _ :: _ :: _ :: _ => simp [enc]

/-- stripping trailing `=` from `y ++ ===` gives back `y` when `y` has no `=` and is not empty
    (or nothing was appended). -/
theorem stripPad_append (y : List Nat) (k : Nat) (hy : ∀ x ∈ y, (x == padByte) = false)
    (hne : y ≠ [] ∨ k = 0) : stripPad (y ++ List.replicate k padByte) = y := by
  unfold stripPad
  cases y with
  | nil =>
    have : k = 0 := by simpa using hne
    subst this
    simp
  | cons a t =>
    have ha : (a == padByte) = false := hy a (by simp)
    have hall : ((a :: t) ++ List.replicate k padByte).all (· == padByte) = false := by
      simp [ha]
    rw [hall]
    simp only [Bool.false_eq_true, ↓reduceIte, List.reverse_append, List.reverse_replicate]
    have hdrop : ∀ (k : Nat) (l : List Nat),
        (List.replicate k padByte ++ l).dropWhile (· == padByte) = l.dropWhile (· == padByte) := by
      intro k
      induction k with
      | zero => intro l; rfl
      | succ n ih => intro l; simp [List.replicate_succ, ih]
    rw [hdrop]
    have hrev : (a :: t).reverse.dropWhile (· == padByte) = (a :: t).reverse := by
      cases hr : (a :: t).reverse with
      | nil => rfl
      | cons z zs =>
        have hz : z ∈ a :: t := by
          have : z ∈ (a :: t).reverse := by rw [hr]; simp
          exact List.mem_reverse.mp this
        simp [hy z hz]
    rw [hrev, List.reverse_reverse]

theorem stripPad_enc (cs : Charset) (pad : Bool) (b : List Nat) (h : ∀ x ∈ b, x < 256) :
    stripPad (enc cs pad b) = enc cs false b := by
  have hno := enc_no_pad cs b h
  cases pad with
  | false =>
    have := stripPad_append (enc cs false b) 0 hno (Or.inr rfl)
    simpa using this
  | true =>
    rw [enc_pad]
    apply stripPad_append _ _ hno
    by_cases hb : b = []
    · subst hb; right; rfl
    · left; intro he; exact hb ((enc_nil_iff cs false b).mp he)

theorem dec_enc (cs : Charset) : ∀ (b : List Nat), (∀ x ∈ b, x < 256) →
    dec cs (enc cs false b) = some b
  | [], _ => rfl
  | [a], h => by
    have ha : a < 256 := h a (by simp)
    simp only [enc, Bool.false_eq_true, ↓reduceIte, dec,
      val_sym cs (a / 4) (by omega), val_sym cs (a % 4 * 16) (by omega)]
    rw [if_pos (by omega)]
    congr 2
    omega
  | [a, b], h => by
    have ha : a < 256 := h a (by simp)
    have hb : b < 256 := h b (by simp)
    simp only [enc, Bool.false_eq_true, ↓reduceIte, dec,
      val_sym cs (a / 4) (by omega), val_sym cs (a % 4 * 16 + b / 16) (by omega),
      val_sym cs (b % 16 * 4) (by omega)]
    rw [if_pos (by omega)]
    congr 2
    · omega
    · congr 1; omega
  | a :: b :: c :: rest, h => by
    have ha : a < 256 := h a (by simp)
    have hb : b < 256 := h b (by simp)
    have hc : c < 256 := h c (by simp)
    have ih := dec_enc cs rest (fun z hz => h z (by simp [hz]))
    simp only [enc, dec,
      val_sym cs (a / 4) (by omega), val_sym cs (a % 4 * 16 + b / 16) (by omega),
      val_sym cs (b % 16 * 4 + c / 64) (by omega), val_sym cs (c % 64) (by omega), ih]
    congr 2
    · omega
    · congr 1
      · omega
      · congr 1; omega

end Base64
end Codec
