/-
  Helper lemmas for C25 (IP address text), part 2: std's IPv4 parser accepts canonical text only
  (no leading zeros, octets ≤ 255), so what it accepts is what `Display` prints.
-/
import VrlProofs.Lemmas.C25Ip

namespace Conv

/-- if the lossy conversion of `s` is ASCII, it is `s` (replacements are not ASCII) -/
theorem lossyF_ascii_out : ∀ (fuel : Nat) (s : List Nat), s.length ≤ fuel →
    (∀ c ∈ Utf8.lossyF fuel s, c < 128) → Utf8.lossyF fuel s = s := by
  intro fuel
  induction fuel with
  | zero => intro s h _; cases s <;> simp_all [Utf8.lossyF]
  | succ fuel ih =>
    intro s h ha
    cases s with
    | nil => simp [Utf8.lossyF]
    | cons b t =>
      by_cases hb : b < 128
      · simp only [Utf8.lossyF, hb, ↓reduceIte] at ha ⊢
        rw [ih t (by simpa using h) (fun c hc => ha c (by simp [hc]))]
      · -- every branch for a non-ASCII lead byte emits a byte ≥ 128 first
        exfalso
        have hhead : ∃ c ∈ Utf8.lossyF (fuel + 1) (b :: t), 128 ≤ c := by
          simp only [Utf8.lossyF, hb, ↓reduceIte, Utf8.repl]
          split
          · split
            · split
              · exact ⟨b, by simp, by omega⟩
              · exact ⟨239, by simp, by omega⟩
            · exact ⟨239, by simp, by omega⟩
          · split
            · split
              · split
                · split
                  · split
                    · exact ⟨b, by simp, by omega⟩
                    · exact ⟨239, by simp, by omega⟩
                  · exact ⟨239, by simp, by omega⟩
                · exact ⟨239, by simp, by omega⟩
              · exact ⟨239, by simp, by omega⟩
            · split
              · split
                · split
                  · split
                    · split
                      · split
                        · split
                          · exact ⟨b, by simp, by omega⟩
                          · exact ⟨239, by simp, by omega⟩
                        · exact ⟨239, by simp, by omega⟩
                      · exact ⟨239, by simp, by omega⟩
                    · exact ⟨239, by simp, by omega⟩
                  · exact ⟨239, by simp, by omega⟩
                · exact ⟨239, by simp, by omega⟩
              · exact ⟨239, by simp, by omega⟩
        obtain ⟨c, hc, hge⟩ := hhead
        have := ha c hc
        omega

theorem lossy_ascii_out (s : List Nat) (h : ∀ c ∈ Utf8.lossy s, c < 128) : Utf8.lossy s = s :=
  lossyF_ascii_out s.length s (Nat.le_refl _) h

namespace Ip

theorem digitVal_lt10 (c d : Nat) (h : digitVal c = some d) (hd : d < 10) : c = 48 + d := by
  unfold digitVal at h
  split at h
  · cases h; omega
  · split at h
    · cases h; omega
    · split at h
      · cases h; omega
      · cases h

theorem takeDigits_spec : ∀ (s ds rest : List Nat), takeDigits 10 s = (ds, rest) →
    s = ds.map (48 + ·) ++ rest ∧ ∀ d ∈ ds, d < 10 := by
  intro s
  induction s with
  | nil => intro ds rest h; simp [takeDigits] at h; obtain ⟨rfl, rfl⟩ := h; simp
  | cons c cs ih =>
    intro ds rest h
    simp only [takeDigits] at h
    cases hv : digitVal c with
    | none => simp [hv] at h; obtain ⟨rfl, rfl⟩ := h; simp
    | some d =>
      simp only [hv] at h
      by_cases hd : d < 10
      · simp only [hd, ↓reduceIte, Prod.mk.injEq] at h
        obtain ⟨rfl, rfl⟩ := h
        obtain ⟨h1, h2⟩ := ih (takeDigits 10 cs).1 (takeDigits 10 cs).2 rfl
        refine ⟨?_, ?_⟩
        · simp only [List.map_cons, List.cons_append, List.cons.injEq]
          exact ⟨digitVal_lt10 c d hv hd, h1⟩
        · intro x hx
          rcases List.mem_cons.mp hx with hx | hx
          · omega
          · exact h2 x hx
      · simp [hd] at h; obtain ⟨rfl, rfl⟩ := h; simp

/-- `read_number(10, 3 digits, no zero prefix)` into a `u8` accepts exactly the canonical text -/
theorem readOctet_inv (s rest : List Nat) (a : Nat) (h : readOctet s = some (a, rest)) :
    s = showOctet a ++ rest ∧ a < 256 := by
  unfold readOctet readNumber at h
  cases htd : takeDigits 10 s with
  | mk ds rest' =>
  obtain ⟨hs, hds⟩ := takeDigits_spec s ds rest' htd
  simp only [htd] at h
  split at h
  · cases h
  · split at h
    · cases h
    · split at h
      · cases h
      · split at h
        · rename_i hn0 hn3 hz hval
          simp only [Option.some.injEq, Prod.mk.injEq] at h
          obtain ⟨ha, hr⟩ := h
          subst hr
          refine ⟨?_, by omega⟩
          rw [hs]
          congr 1
          -- the digits are the canonical digits of their value
          match ds, hds, hn0, hn3, hz, ha, hs with
          | [], _, hn0, _, _, _, _ => simp at hn0
          | [d1], hds, _, _, _, ha, _ =>
            have := hds d1 (by simp)
            simp only [digitsNat, List.foldl_cons, List.foldl_nil] at ha
            simp only [showOctet, ← ha]
            simp [this]
          | [d1, d2], hds, _, _, hz, ha, hs =>
            have h1 := hds d1 (by simp)
            have h2 := hds d2 (by simp)
            simp only [digitsNat, List.foldl_cons, List.foldl_nil] at ha
            have hd1 : d1 ≠ 0 := by
              intro h0
              subst h0
              simp [hs] at hz
            have h10 : ¬ a < 10 := by omega
            have h100 : a < 100 := by omega
            simp only [showOctet, h10, h100, ↓reduceIte, List.map_cons, List.map_nil]
            have e1 : a / 10 = d1 := by omega
            have e2 : a % 10 = d2 := by omega
            rw [e1, e2]
          | [d1, d2, d3], hds, _, _, hz, ha, hs =>
            have h1 := hds d1 (by simp)
            have h2 := hds d2 (by simp)
            have h3 := hds d3 (by simp)
            simp only [digitsNat, List.foldl_cons, List.foldl_nil] at ha
            have hd1 : d1 ≠ 0 := by
              intro h0
              subst h0
              simp [hs] at hz
            have h10 : ¬ a < 10 := by omega
            have h100 : ¬ a < 100 := by omega
            simp only [showOctet, h10, h100, ↓reduceIte, List.map_cons, List.map_nil]
            have e1 : a / 100 = d1 := by omega
            have e2 : a / 10 % 10 = d2 := by omega
            have e3 : a % 10 = d3 := by omega
            rw [e1, e2, e3]
          | _ :: _ :: _ :: _ :: _, _, _, hn3, _, _, _ => simp at hn3
        · cases h

theorem expect_inv (c : Nat) (s rest : List Nat) (h : expect c s = some rest) : s = c :: rest := by
  cases s with
  | nil => simp [expect] at h
  | cons d t =>
    simp only [expect] at h
    split at h
    · rename_i hd; cases h; rw [hd]
    · cases h

/-- `read_ipv4_addr` accepts exactly what `Display` prints -/
theorem readV4_inv (s rest o : List Nat) (h : readV4 s = some (o, rest)) :
    ∃ a b c d, o = [a, b, c, d] ∧ a < 256 ∧ b < 256 ∧ c < 256 ∧ d < 256 ∧
      s = showV4 [a, b, c, d] ++ rest := by
  unfold readV4 at h
  simp only [Option.bind_eq_bind] at h
  cases h1 : readOctet s with
  | none => simp [h1] at h
  | some p1 =>
    obtain ⟨a, s1⟩ := p1
    simp only [h1, Option.bind_some] at h
    cases e1 : expect 46 s1 with
    | none => simp [e1] at h
    | some s2 =>
      simp only [e1, Option.bind_some] at h
      cases h2 : readOctet s2 with
      | none => simp [h2] at h
      | some p2 =>
        obtain ⟨b, s3⟩ := p2
        simp only [h2, Option.bind_some] at h
        cases e2 : expect 46 s3 with
        | none => simp [e2] at h
        | some s4 =>
          simp only [e2, Option.bind_some] at h
          cases h3 : readOctet s4 with
          | none => simp [h3] at h
          | some p3 =>
            obtain ⟨c, s5⟩ := p3
            simp only [h3, Option.bind_some] at h
            cases e3 : expect 46 s5 with
            | none => simp [e3] at h
            | some s6 =>
              simp only [e3, Option.bind_some] at h
              cases h4 : readOctet s6 with
              | none => simp [h4] at h
              | some p4 =>
                obtain ⟨d, s7⟩ := p4
                simp only [h4, Option.bind_some, Option.pure_def, Option.some.injEq,
                  Prod.mk.injEq] at h
                obtain ⟨ho, hr⟩ := h
                subst hr
                obtain ⟨i1, la⟩ := readOctet_inv s s1 a h1
                obtain ⟨i2, lb⟩ := readOctet_inv s2 s3 b h2
                obtain ⟨i3, lc⟩ := readOctet_inv s4 s5 c h3
                obtain ⟨i4, ld⟩ := readOctet_inv s6 s7 d h4
                refine ⟨a, b, c, d, ho.symm, la, lb, lc, ld, ?_⟩
                rw [i1, expect_inv 46 s1 s2 e1, i2, expect_inv 46 s3 s4 e2, i3,
                  expect_inv 46 s5 s6 e3, i4]
                simp [showV4]

theorem parseV4_inv (s o : List Nat) (h : parseV4 s = some o) :
    ∃ a b c d, o = [a, b, c, d] ∧ a < 256 ∧ b < 256 ∧ c < 256 ∧ d < 256 ∧ s = showV4 [a, b, c, d] := by
  unfold parseV4 at h
  split at h
  · cases h
  · split at h
    · rename_i o' hr
      cases h
      obtain ⟨a, b, c, d, h1, h2, h3, h4, h5, h6⟩ := readV4_inv s [] o hr
      exact ⟨a, b, c, d, h1, h2, h3, h4, h5, by simpa using h6⟩
    · cases h

theorem octets_u32 (a b c d : Nat) (ha : a < 256) (hb : b < 256) (hc : c < 256) (hd : d < 256) :
    octetsOfU32 (u32OfOctets [a, b, c, d]) = [a, b, c, d] ∧ u32OfOctets [a, b, c, d] < 4294967296 := by
  simp only [octetsOfU32, u32OfOctets]
  refine ⟨?_, by omega⟩
  have e1 : (((a * 256 + b) * 256 + c) * 256 + d) / 16777216 % 256 = a := by omega
  have e2 : (((a * 256 + b) * 256 + c) * 256 + d) / 65536 % 256 = b := by omega
  have e3 : (((a * 256 + b) * 256 + c) * 256 + d) / 256 % 256 = c := by omega
  have e4 : (((a * 256 + b) * 256 + c) * 256 + d) % 256 = d := by omega
  rw [e1, e2, e3, e4]

end Ip
end Conv
