import VrlProofs.Lemmas.KindUnion

/-! Soundness of `Kind::is_superset`: `A.is_superset(B)` implies that every member of `B` is a member
    of `A` – for `A` without an `Exact(k)` unknown with `k.is_any()` (`Unknown::is_superset` treats such an
    `Exact(k)` as a superset of every `Infinite`, although `is_any` only looks at the top-level states
    of `k`; such an unknown only arises from merging `Exact` unknowns, `Unknown::from` never builds it). -/

theorem KList.anyUnknown_get (P : Unknown → Bool) : (m : KList) → (q : Key) → (K : Kind) →
    m.anyUnknown P = false → m.get q = some K → K.anyUnknown P = false
  | .nil, _, _, _, h => by simp [KList.get] at h
  | .cons k v m, q, K, hs, h => by
    simp only [KList.anyUnknown, Bool.or_eq_false_iff] at hs
    simp only [KList.get] at h
    split at h
    · cases h; exact hs.1
    · exact KList.anyUnknown_get P m q K hs.2 h

theorem Kind.anyUnknown_setPrim (P : Unknown → Bool) (p p' : Prim) (a o : OCol) :
    (Kind.mk p a o).anyUnknown P = (Kind.mk p' a o).anyUnknown P := by
  simp [Kind.anyUnknown]

theorem Kind.anyUnknown_ofInf (P : Unknown → Bool) (i : Inf) (h : P (.infinite i) = false) :
    (Kind.ofInf i).anyUnknown P = false := by
  simp only [Kind.ofInf, Kind.anyUnknown]
  cases i.array <;> cases i.object <;>
    simp [OCol.anyUnknown, Col.anyUnknown, KList.anyUnknown, Unknown.anyUnknown, h]

theorem Unknown.anyUnknown_toKind (P : Unknown → Bool) (u : Unknown) (h : u.anyUnknown P = false) :
    u.toKind.anyUnknown P = false := by
  cases u with
  | exact k =>
    simp only [Unknown.anyUnknown, Bool.or_eq_false_iff] at h
    cases k with
    | mk p a o =>
      simpa [Unknown.toKind, Unknown.toExistingKind, Kind.withoutUndefined, Kind.orUndefined,
        Kind.anyUnknown] using h.2
  | infinite i =>
    simp only [Unknown.anyUnknown] at h
    have := Kind.anyUnknown_ofInf P i h
    cases hk : Kind.ofInf i with
    | mk p a o =>
      rw [hk] at this
      simpa [Unknown.toKind, Unknown.toExistingKind, hk, Kind.withoutUndefined, Kind.orUndefined,
        Kind.anyUnknown] using this

namespace Spec

/-! ### `Infinite::is_superset` is sound -/

mutual
  theorem mem_infKind_mono (l r : Inf) (h : l.isSuperset r = true) :
      (v : Value) → mem v (infKind r) = true → mem v (infKind l) = true
    | .null, hv => by
      simp only [Inf.isSuperset, Bool.and_eq_true, Bool.or_eq_true, Bool.not_eq_true'] at h
      simp only [mem, infKind, Kind.prim] at hv ⊢; simp_all
    | .bool _, hv => by
      simp only [Inf.isSuperset, Bool.and_eq_true, Bool.or_eq_true, Bool.not_eq_true'] at h
      simp only [mem, infKind, Kind.prim] at hv ⊢; simp_all
    | .int _, hv => by
      simp only [Inf.isSuperset, Bool.and_eq_true, Bool.or_eq_true, Bool.not_eq_true'] at h
      simp only [mem, infKind, Kind.prim] at hv ⊢; simp_all
    | .float _, hv => by
      simp only [Inf.isSuperset, Bool.and_eq_true, Bool.or_eq_true, Bool.not_eq_true'] at h
      simp only [mem, infKind, Kind.prim] at hv ⊢; simp_all
    | .bytes _, hv => by
      simp only [Inf.isSuperset, Bool.and_eq_true, Bool.or_eq_true, Bool.not_eq_true'] at h
      simp only [mem, infKind, Kind.prim] at hv ⊢; simp_all
    | .ts _, hv => by
      simp only [Inf.isSuperset, Bool.and_eq_true, Bool.or_eq_true, Bool.not_eq_true'] at h
      simp only [mem, infKind, Kind.prim] at hv ⊢; simp_all
    | .regex _, hv => by
      simp only [Inf.isSuperset, Bool.and_eq_true, Bool.or_eq_true, Bool.not_eq_true'] at h
      simp only [mem, infKind, Kind.prim] at hv ⊢; simp_all
    | .arr xs, hv => by
      have h' := h
      simp only [Inf.isSuperset, Bool.and_eq_true, Bool.or_eq_true, Bool.not_eq_true'] at h'
      rw [infKind, mem_arr_mk] at hv ⊢
      cases hr : r.array with
      | false => simp [hr] at hv
      | true =>
        have hl : l.array = true := by simp_all
        simp only [hr, hl, if_true, Bool.and_eq_true] at hv ⊢
        exact ⟨memList_infKind_mono l r h xs 0 hv.1, by simp [absentIdxOk, Col.known, KList.keys]⟩
    | .obj m, hv => by
      have h' := h
      simp only [Inf.isSuperset, Bool.and_eq_true, Bool.or_eq_true, Bool.not_eq_true'] at h'
      rw [infKind, mem_obj_mk] at hv ⊢
      cases hr : r.object with
      | false => simp [hr] at hv
      | true =>
        have hl : l.object = true := by simp_all
        simp only [hr, hl, if_true, Bool.and_eq_true] at hv ⊢
        exact ⟨memMap_infKind_mono l r h m hv.1, by simp [absentKeysOk, Col.known, KList.keys]⟩
  theorem memList_infKind_mono (l r : Inf) (h : l.isSuperset r = true) :
      (xs : VList) → (i : Nat) → memList xs i (.mk .nil (.infinite r)) = true →
        memList xs i (.mk .nil (.infinite l)) = true
    | .nil, _, _ => rfl
    | .cons x xs, i, hm => by
      simp only [memList, Bool.and_eq_true] at hm ⊢
      refine ⟨?_, memList_infKind_mono l r h xs (i + 1) hm.2⟩
      have h1 := hm.1
      simp only [slotKind, Col.known, KList.get, Col.unknown, unknownElemKind] at h1 ⊢
      exact mem_infKind_mono l r h x h1
  theorem memMap_infKind_mono (l r : Inf) (h : l.isSuperset r = true) :
      (m : VMap) → memMap m (.mk .nil (.infinite r)) = true →
        memMap m (.mk .nil (.infinite l)) = true
    | .nil, _ => rfl
    | .cons k x m, hm => by
      simp only [memMap, Bool.and_eq_true] at hm ⊢
      refine ⟨?_, memMap_infKind_mono l r h m hm.2⟩
      have h1 := hm.1
      simp only [slotKind, Col.known, KList.get, Col.unknown, unknownElemKind] at h1 ⊢
      exact mem_infKind_mono l r h x h1
end

/-- what the collection-level lemma needs from the kind-level `is_superset`. -/
structure SupSound (sup : Kind → Kind → Bool) : Prop where
  mem : ∀ x y w, x.anyUnknown Unknown.exactIsAny = false → sup x y = true → mem w y = true → mem w x = true
  undef : ∀ x y, sup x y = true → y.prim.undefined = true → x.prim.undefined = true

theorem unknown_superset_sound (sup : Kind → Kind → Bool) (hs : SupSound sup) (u1 u2 : Unknown)
    (h1 : u1.anyUnknown Unknown.exactIsAny = false) (h : Unknown.isSupersetWith sup u1 u2 = true) (x : Value)
    (hx : mem x (unknownElemKind u2) = true) : mem x (unknownElemKind u1) = true := by
  cases u1 with
  | infinite i =>
    cases u2 with
    | exact r =>
      simp only [Unknown.isSupersetWith] at h
      simp only [unknownElemKind] at hx ⊢
      split at h
      · rename_i hi; rw [inf_eq_any_of_isAny i hi]; exact mem_infAny x
      · exact hs.mem (Kind.ofInf i) r x (Kind.anyUnknown_ofInf _ i rfl) h hx
    | infinite r =>
      simp only [Unknown.isSupersetWith] at h
      simp only [unknownElemKind] at hx ⊢
      split at h
      · rename_i hi; rw [inf_eq_any_of_isAny i hi]; exact mem_infAny x
      · exact mem_infKind_mono i r h x hx
  | exact l =>
    simp only [Unknown.anyUnknown, Bool.or_eq_false_iff, Unknown.exactIsAny] at h1
    cases u2 with
    | exact r =>
      simp only [Unknown.isSupersetWith] at h
      simp only [unknownElemKind] at hx ⊢
      have hl : l.withoutUndefined.anyUnknown Unknown.exactIsAny = false := by
        cases l; simpa [Kind.withoutUndefined, Kind.anyUnknown] using h1.2
      have := hs.mem _ _ x hl h (by rw [mem_withoutUndefined]; exact hx)
      rwa [mem_withoutUndefined] at this
    | infinite r =>
      simp only [Unknown.isSupersetWith] at h
      rw [h] at h1
      simp at h1

theorem col_noExactAny {k : KList} {u : Unknown}
    (h : (Col.mk k u).anyUnknown Unknown.exactIsAny = false) :
    k.anyUnknown Unknown.exactIsAny = false ∧ u.anyUnknown Unknown.exactIsAny = false := by
  simpa [Col.anyUnknown] using h

/-- slot-wise soundness of `Collection::is_superset`. -/
theorem col_superset_sound (sup : Kind → Kind → Bool) (hs : SupSound sup) (c1 c2 : Col)
    (h1 : c1.anyUnknown Unknown.exactIsAny = false) (h : Col.isSupersetWith sup c1 c2 = true) :
    (∀ k x, mem x (slotKind c2 k) = true → mem x (slotKind c1 k) = true) ∧
    (∀ k K1, c1.known.get k = some K1 →
      (∀ K2, c2.known.get k = some K2 → K2.prim.undefined = true) → K1.prim.undefined = true) := by
  cases c1 with
  | mk k1 u1 =>
  cases c2 with
  | mk k2 u2 =>
  obtain ⟨hk1, hu1⟩ := col_noExactAny h1
  simp only [Col.isSupersetWith, Col.known, Col.unknown, Col.unknownKind, Bool.and_eq_true] at h
  obtain ⟨⟨hu, hother⟩, hself⟩ := h
  constructor
  · intro k x hx
    rw [slotKind_mk] at hx ⊢
    cases h2 : k2.get k with
    | some kk2 =>
      rw [h2] at hx
      have := KList.all_of_get _ k2 hother k kk2 h2
      cases hk : k1.get k with
      | some kk1 =>
        simp only [hk] at this ⊢
        exact hs.mem kk1 kk2 x (KList.anyUnknown_get _ k1 k kk1 hk1 hk) this hx
      | none =>
        simp only [hk] at this ⊢
        have := hs.mem _ kk2 x (Unknown.anyUnknown_toKind _ u1 hu1) this hx
        rwa [mem_unknown_toKind] at this
    | none =>
      rw [h2] at hx
      cases hk : k1.get k with
      | some kk1 =>
        have := KList.all_of_get _ k1 hself k kk1 hk
        simp only [KList.contains, h2, Option.isSome_none, Bool.false_or] at this
        have hx' : mem x u2.toKind = true := by rw [mem_unknown_toKind]; exact hx
        exact hs.mem kk1 _ x (KList.anyUnknown_get _ k1 k kk1 hk1 hk) this hx'
      | none =>
        exact unknown_superset_sound sup hs u1 u2 hu1 hu x hx
  · intro k K1 hk habs
    have hk' : k1.get k = some K1 := hk
    have habs' : ∀ K2, k2.get k = some K2 → K2.prim.undefined = true := habs
    cases h2 : k2.get k with
    | some kk2 =>
      have := KList.all_of_get _ k2 hother k kk2 h2
      simp only [hk'] at this
      exact hs.undef K1 kk2 this (habs' kk2 h2)
    | none =>
      have := KList.all_of_get _ k1 hself k K1 hk'
      simp only [KList.contains, h2, Option.isSome_none, Bool.false_or] at this
      exact hs.undef K1 _ this (toKind_undefined u2)

theorem kind_noExactAny {p : Prim} {a o : OCol}
    (h : (Kind.mk p a o).anyUnknown Unknown.exactIsAny = false) :
    a.anyUnknown Unknown.exactIsAny = false ∧ o.anyUnknown Unknown.exactIsAny = false := by
  simpa [Kind.anyUnknown] using h

theorem prim_sup (p1 p2 : Prim) (h : p1.sup p2 = true) :
    (p2.bytes = true → p1.bytes = true) ∧ (p2.integer = true → p1.integer = true) ∧
    (p2.float = true → p1.float = true) ∧ (p2.boolean = true → p1.boolean = true) ∧
    (p2.timestamp = true → p1.timestamp = true) ∧ (p2.regex = true → p1.regex = true) ∧
    (p2.null = true → p1.null = true) ∧ (p2.undefined = true → p1.undefined = true) := by
  simp only [Prim.sup, Bool.and_eq_true, Bool.or_eq_true, Bool.not_eq_true'] at h
  refine ⟨?_, ?_, ?_, ?_, ?_, ?_, ?_, ?_⟩ <;> intro hp <;> simp_all

/-- **`is_superset` (any fuel) is sound for membership.** -/
theorem isSupersetF_sound : (n : Nat) → SupSound (Kind.isSupersetF n)
  | 0 => ⟨fun _ _ _ _ h => by simp [Kind.isSupersetF] at h, fun _ _ h => by simp [Kind.isSupersetF] at h⟩
  | n + 1 => by
    have ih := isSupersetF_sound n
    constructor
    · intro x y w hx h hw
      cases x with
      | mk p1 a1 o1 =>
      cases y with
      | mk p2 a2 o2 =>
      obtain ⟨ha1, ho1⟩ := kind_noExactAny hx
      simp only [Kind.isSupersetF, Bool.and_eq_true] at h
      obtain ⟨⟨hp, ha⟩, ho⟩ := h
      have hp := prim_sup p1 p2 hp
      cases w with
      | arr xs =>
        rw [mem_arr_mk] at hw ⊢
        cases a2 with
        | none => simp at hw
        | some c2 =>
          cases a1 with
          | none => simp [OCol.isSupersetWith] at ha
          | some c1 =>
            simp only [OCol.isSupersetWith] at ha
            obtain ⟨hslot, habs⟩ := col_superset_sound _ ih c1 c2 ha1 ha
            simp only [Bool.and_eq_true] at hw ⊢
            refine ⟨memList_mono _ _ hslot xs 0 hw.1, ?_⟩
            have hw2 := hw.2
            rw [absentIdxOk_iff] at hw2 ⊢
            intro k K1 hk hl
            exact habs k K1 hk (fun K2 hK2 => hw2 k K2 hK2 hl)
      | obj m =>
        rw [mem_obj_mk] at hw ⊢
        cases o2 with
        | none => simp at hw
        | some c2 =>
          cases o1 with
          | none => simp [OCol.isSupersetWith] at ho
          | some c1 =>
            simp only [OCol.isSupersetWith] at ho
            obtain ⟨hslot, habs⟩ := col_superset_sound _ ih c1 c2 ho1 ho
            simp only [Bool.and_eq_true] at hw ⊢
            refine ⟨memMap_mono _ _ hslot m hw.1, ?_⟩
            have hw2 := hw.2
            rw [absentKeysOk_iff] at hw2 ⊢
            intro k K1 hk hl
            exact habs k K1 hk (fun K2 hK2 => hw2 k K2 hK2 hl)
      | null => simp only [mem, Kind.prim] at hw ⊢; exact hp.2.2.2.2.2.2.1 hw
      | bool _ => simp only [mem, Kind.prim] at hw ⊢; exact hp.2.2.2.1 hw
      | int _ => simp only [mem, Kind.prim] at hw ⊢; exact hp.2.1 hw
      | float _ => simp only [mem, Kind.prim] at hw ⊢; exact hp.2.2.1 hw
      | bytes _ => simp only [mem, Kind.prim] at hw ⊢; exact hp.1 hw
      | ts _ => simp only [mem, Kind.prim] at hw ⊢; exact hp.2.2.2.2.1 hw
      | regex _ => simp only [mem, Kind.prim] at hw ⊢; exact hp.2.2.2.2.2.1 hw
    · intro x y h hu
      cases x; cases y
      simp only [Kind.isSupersetF, Bool.and_eq_true, Kind.prim] at h hu ⊢
      exact (prim_sup _ _ h.1.1).2.2.2.2.2.2.2 hu

end Spec
