/-
  C03: type_defs built with `Kind::union` (`values`: `reduced_kind`; `push`: `set_unknown(unknown ∪ item)`
  and `known.insert(exact_len, item)`), on top of C19's union soundness (`Spec.mergeKeepF_sound`).
  The C19 hypotheses are kept: known maps key-sorted (`SortedK`) and no `Infinite` unknown other
  than `any` (`hasNonAnyInf = false`): `Good`.
-/
import VrlProofs.Lemmas.C03Coll

namespace C03
open Spec

/-- the hypotheses under which `Kind::union` is sound (C19 `union_sound_partial`) -/
def Good (k : Kind) : Prop := k.SortedK = true ∧ k.hasNonAnyInf = false

theorem good_union {a b : Kind} (ha : Good a) (hb : Good b) : Good (a.union b) :=
  ⟨Spec.mergeKeepF_sortedK _ a b false ha.1 hb.1, Spec.mergeKeepF_infAny _ a b false ha.2 hb.2⟩

theorem mem_union_l {x : Value} {a b : Kind} (ha : Good a) (hb : Good b) (h : mem x a = true) :
    mem x (a.union b) = true :=
  C19.mem_union_left x a b ha.1 hb.1 ha.2 hb.2 h

theorem mem_union_r {x : Value} {a b : Kind} (ha : Good a) (hb : Good b) (h : mem x b = true) :
    mem x (a.union b) = true :=
  C19.mem_union_right x a b ha.1 hb.1 ha.2 hb.2 h

theorem good_never : Good Kind.never := ⟨by decide, by decide⟩

theorem good_withoutUndefined {k : Kind} (h : Good k) : Good k.withoutUndefined := by
  cases k with
  | mk p a o =>
    exact ⟨by rw [Kind.withoutUndefined, Kind.sortedK_setPrim _ p]; exact h.1,
           by rw [Kind.withoutUndefined, Kind.infAny_setPrim _ p]; exact h.2⟩

/-! ### the fold of `reduced_kind` -/

def unionAll (acc : Kind) (m : KList) : Kind := m.foldl (fun acc _ k => acc.union k) acc

theorem unionAll_good : (m : KList) → (acc : Kind) → Good acc → m.SortedK = true →
    m.hasNonAnyInf = false → Good (unionAll acc m)
  | .nil, acc, ha, _, _ => ha
  | .cons k v rest, acc, ha, hs, hi => by
    simp only [KList.SortedK, Bool.and_eq_true] at hs
    simp only [KList.hasNonAnyInf, Bool.or_eq_false_iff] at hi
    exact unionAll_good rest (acc.union v) (good_union ha ⟨hs.1, hi.1⟩) hs.2 hi.2

theorem mem_unionAll_acc {x : Value} : (m : KList) → (acc : Kind) → Good acc → m.SortedK = true →
    m.hasNonAnyInf = false → mem x acc = true → mem x (unionAll acc m) = true
  | .nil, _, _, _, _, h => h
  | .cons k v rest, acc, ha, hs, hi, h => by
    simp only [KList.SortedK, Bool.and_eq_true] at hs
    simp only [KList.hasNonAnyInf, Bool.or_eq_false_iff] at hi
    exact mem_unionAll_acc rest (acc.union v) (good_union ha ⟨hs.1, hi.1⟩) hs.2 hi.2
      (mem_union_l ha ⟨hs.1, hi.1⟩ h)

theorem mem_unionAll_get {x : Value} : (m : KList) → (acc : Kind) → Good acc → m.SortedK = true →
    m.hasNonAnyInf = false → (q : Key) → (K : Kind) → m.get q = some K → mem x K = true →
    mem x (unionAll acc m) = true
  | .nil, _, _, _, _, _, _, hg, _ => by simp [KList.get] at hg
  | .cons k v rest, acc, ha, hs, hi, q, K, hg, h => by
    simp only [KList.SortedK, Bool.and_eq_true] at hs
    simp only [KList.hasNonAnyInf, Bool.or_eq_false_iff] at hi
    have hgv : Good (acc.union v) := good_union ha ⟨hs.1, hi.1⟩
    simp only [KList.get] at hg
    split at hg
    · cases hg
      exact mem_unionAll_acc rest _ hgv hs.2 hi.2 (mem_union_r ha ⟨hs.1, hi.1⟩ h)
    · exact mem_unionAll_get rest _ hgv hs.2 hi.2 q K hg h

/-- the kind of everything a collection may hold -/
theorem good_unknownKind {c : Col} (hs : c.SortedK = true) (hi : c.hasNonAnyInf = false) :
    Good c.unknownKind := by
  cases c with
  | mk k u =>
    exact ⟨Unknown.sortedK_toKind u (col_sortedK hs).2.2, Unknown.infAny_toKind u (col_infAny hi).2⟩

/-- **`Collection::reduced_kind` contains every element of every member** (for `Good` collections). -/
theorem mem_reducedKind {c : Col} (hs : c.SortedK = true) (hi : c.hasNonAnyInf = false)
    {x : Value} {q : Key} (h : mem x (slotKind c q) = true) : mem x c.reducedKind = true := by
  have hU := good_withoutUndefined (good_unknownKind hs hi)
  cases c with
  | mk known u =>
    obtain ⟨_, hks, _⟩ := col_sortedK hs
    obtain ⟨hki, _⟩ := col_infAny hi
    have hunk : mem x (unknownElemKind u) = true → mem x (Col.mk known u).unknownKind.withoutUndefined = true := by
      intro hx
      rw [mem_withoutUndefined]
      simp only [Col.unknownKind, Col.unknown, mem_unknown_toKind]; exact hx
    cases known with
    | nil =>
      simp only [slotKind, Col.known, KList.get, Col.unknown] at h
      simp only [Col.reducedKind, Col.known]
      exact mem_union_r good_never hU (hunk h)
    | cons k v rest =>
      simp only [KList.SortedK, Bool.and_eq_true] at hks
      simp only [KList.hasNonAnyInf, Bool.or_eq_false_iff] at hki
      have hv : Good v := ⟨hks.1, hki.1⟩
      have hbase : Good (unionAll v rest) := unionAll_good rest v hv hks.2 hki.2
      simp only [Col.reducedKind, Col.known]
      change mem x ((unionAll v rest).union _) = true
      simp only [slotKind, Col.known, KList.get, Col.unknown] at h
      split at h
      · rename_i K hg
        split at hg
        · cases hg
          exact mem_union_l hbase hU (mem_unionAll_acc rest v hv hks.2 hki.2 h)
        · exact mem_union_l hbase hU (mem_unionAll_get rest v hv hks.2 hki.2 q K hg h)
      · exact mem_union_r hbase hU (hunk h)

/-! ### `Unknown::from(kind)` keeps the members, unless it turns the kind into `json` -/

/-- `Unknown::from(&k)` answers `json` for a kind that only *looks* like json at the top level
    (C19 class `hasExactToInf`); excluded. -/
def ofKindOk (k : Kind) : Bool := k.isAny || !k.isJson

theorem mem_ofKind {x : Value} {k : Kind} (hk : ofKindOk k = true) (h : mem x k = true) :
    mem x (unknownElemKind (Unknown.ofKind k)) = true := by
  unfold Unknown.ofKind
  split
  · exact Spec.mem_infAny x
  · rename_i hna
    split
    · rename_i hj
      simp [ofKindOk, hna, hj] at hk
    · exact h

/-- membership in `array(Collection::empty().with_unknown(k))` / `c.set_unknown(k)` for a
    collection without known indices -/
theorem mem_arr_unknownOnly (ys : VList) (k : Kind) (hk : ofKindOk k = true)
    (h : ∀ j x, ys.getN j = some x → mem x k = true) :
    mem (.arr ys) (Kind.ofArray (.mk .nil (Unknown.ofKind k))) = true := by
  apply mem_arr_of_noKnown ys _ (.mk .nil (Unknown.ofKind k)) rfl rfl
  intro j x hj
  exact mem_ofKind hk (h j x hj)

/-! ### lists -/

theorem getN_valuesL : (m : VMap) → (j : Nat) → (x : Value) →
    (Coll.ofList (Coll.valuesL m)).getN j = some x → ∀ c, memMap m c = true →
    ∃ q, mem x (slotKind c q) = true
  | .nil, _, _, h, _, _ => by simp [Coll.valuesL, Coll.ofList, VList.getN] at h
  | .cons k v m, 0, x, h, c, hm => by
    simp only [Coll.valuesL, Coll.ofList, VList.getN, Option.some.injEq] at h
    subst h
    simp only [memMap, Bool.and_eq_true] at hm
    exact ⟨k, hm.1⟩
  | .cons k v m, j + 1, x, h, c, hm => by
    simp only [Coll.valuesL, Coll.ofList, VList.getN] at h
    simp only [memMap, Bool.and_eq_true] at hm
    exact getN_valuesL m j x h c hm.2

theorem getN_append_single : (a : VList) → (x : Value) → (j : Nat) → (y : Value) →
    (a.append (.cons x .nil)).getN j = some y →
    (j < a.length ∧ a.getN j = some y) ∨ (j = a.length ∧ y = x)
  | .nil, x, 0, y, h => by
    simp only [VList.append, VList.getN, Option.some.injEq] at h
    exact Or.inr ⟨rfl, h.symm⟩
  | .nil, x, j + 1, y, h => by simp [VList.append, VList.getN] at h
  | .cons v vs, x, 0, y, h => by
    simp only [VList.append, VList.getN] at h
    exact Or.inl ⟨by simp [VList.length], by simpa [VList.getN] using h⟩
  | .cons v vs, x, j + 1, y, h => by
    simp only [VList.append, VList.getN] at h
    rcases getN_append_single vs x j y h with ⟨hl, hg⟩ | ⟨hl, hy⟩
    · exact Or.inl ⟨by simp [VList.length]; omega, by simpa [VList.getN] using hg⟩
    · exact Or.inr ⟨by simp [VList.length]; omega, hy⟩

theorem length_append_single : (a : VList) → (x : Value) →
    (a.append (.cons x .nil)).length = a.length + 1
  | .nil, _ => rfl
  | .cons v vs, x => by simp [VList.append, VList.length, length_append_single vs x]

/-! ### the kind of a literal array -/

theorem kindOf_defined (x : Value) : x.kindOf.containsAnyDefined = true := by
  cases x <;> rfl

/-- the step of `largest_known_index` -/
def lkiStep (acc : Option Nat) (k : Key) (v : Kind) : Option Nat :=
  if v.containsAnyDefined then
    (match acc with
     | Option.none => some k.idx
     | some m => some (max m k.idx))
  else acc

theorem largestKnownIndex_eq (c : Col) : c.largestKnownIndex = c.known.foldl lkiStep none := rfl

theorem largest_kindsFrom : (xs : VList) → (i : Nat) → (acc : Option Nat) →
    (∀ m, acc = some m → m ≤ i) →
    (VList.kindsFrom xs i).foldl lkiStep acc = (if xs.length = 0 then acc else some (i + xs.length - 1))
  | .nil, i, acc, _ => by simp [VList.kindsFrom, KList.foldl, VList.length]
  | .cons x xs, i, acc, h => by
    have hstep : lkiStep acc (Key.ofIdx i) x.kindOf = some i := by
      cases acc with
      | none => simp [lkiStep, kindOf_defined, Key.ofIdx, Key.idx]
      | some m =>
        have := h m rfl
        simp [lkiStep, kindOf_defined, Key.ofIdx, Key.idx, Nat.max_eq_right this]
    simp only [VList.kindsFrom, KList.foldl, hstep]
    rw [largest_kindsFrom xs (i + 1) (some i) (by intro m hm; cases hm; omega)]
    simp only [VList.length]
    split
    · rename_i h0; simp [h0]
    · rename_i h0
      have : ¬ (xs.length + 1 = 0) := by omega
      simp only [this, if_false]
      congr 1; omega

theorem exactLength_lit (a : VList) :
    (Col.ofKnown (VList.kindsFrom a 0)).exactLength = some a.length := by
  have hu : (Col.ofKnown (VList.kindsFrom a 0)).unknownKind.containsAnyDefined = false := by
    show (Unknown.ofKind Kind.undefined).toKind.containsAnyDefined = false
    decide
  unfold Col.exactLength
  rw [hu]
  simp only [Bool.false_eq_true, if_false, Col.minLength, largestKnownIndex_eq, Col.ofKnown, Col.known]
  rw [largest_kindsFrom a 0 none (by intro m h; cases h)]
  cases a with
  | nil => rfl
  | cons x xs => simp [VList.length]

theorem sorted_getN : (a : VList) → a.Sorted = true → (j : Nat) → (y : Value) → a.getN j = some y →
    y.Sorted = true
  | .nil, _, _, _, h => by simp [VList.getN] at h
  | .cons x xs, hs, 0, y, h => by
    simp only [VList.Sorted, Bool.and_eq_true] at hs
    simp only [VList.getN, Option.some.injEq] at h; subst h; exact hs.1
  | .cons x xs, hs, j + 1, y, h => by
    simp only [VList.Sorted, Bool.and_eq_true] at hs
    exact sorted_getN xs hs.2 j y (by simpa [VList.getN] using h)

end C03
