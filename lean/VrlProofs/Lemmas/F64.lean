import VrlModel.F64

/-! Facts about the soft-float used by the C10/C11 theorems. -/
namespace F64

theorem mag_lt (b : Nat) : mag b < p63 := by
  unfold mag p63; omega

theorem mag_withSign (s : Bool) (m : Nat) (h : m < p63) : mag (withSign s m) = m := by
  unfold mag withSign p63 at *; cases s <;> simp <;> omega

theorem signBit_withSign (s : Bool) (m : Nat) (h : m < p63) : signBit (withSign s m) = s := by
  unfold signBit withSign p63 at *
  cases s
  · have : m / 9223372036854775808 % 2 = 0 := by omega
    simp [this]
  · have : (9223372036854775808 + m) / 9223372036854775808 % 2 = 1 := by omega
    simp only [if_true, this, beq_self_eq_true]

theorem withSign_lt (s : Bool) (m : Nat) (h : m < p63) : withSign s m < p64 := by
  unfold withSign p63 p64 at *; cases s <;> simp <;> omega

theorem isNaN_withSign (s : Bool) (m : Nat) (h : m ≤ infBits) : isNaN (withSign s m) = false := by
  have hm : m < p63 := by unfold infBits at h; unfold p63; omega
  simp [isNaN, mag_withSign s m hm]; omega

theorem clampInf_le (b : Nat) : clampInf b ≤ infBits := by
  unfold clampInf; split <;> omega

theorem roundMag_le (m : Nat) (e : Int) : roundMag m e ≤ infBits := by
  unfold roundMag
  split
  · unfold infBits; omega
  · exact clampInf_le _

theorem roundMag_lt_p63 (m : Nat) (e : Int) : roundMag m e < p63 := by
  have := roundMag_le m e
  unfold infBits at this; unfold p63; omega

/-- every pattern below 2^64 is its sign bit plus its magnitude -/
theorem bits_eq (b : Nat) (h : b < p64) : b = (if signBit b then p63 else 0) + mag b := by
  unfold signBit mag p63 p64 at *
  by_cases hs : b / 9223372036854775808 % 2 = 1
  · simp [hs]; omega
  · have : ¬ ((b / 9223372036854775808 % 2 == 1) = true) := by simpa using hs
    simp [this]; omega

/-! ### order -/

theorem lt_iff_key (a b : Nat) (ha : isNaN a = false) (hb : isNaN b = false) :
    lt a b = decide (key a < key b) := by simp [lt, ha, hb]

theorem le_iff_key (a b : Nat) (ha : isNaN a = false) (hb : isNaN b = false) :
    le a b = decide (key a ≤ key b) := by simp [le, ha, hb]

theorem eq_iff_key (a b : Nat) (ha : isNaN a = false) (hb : isNaN b = false) :
    eq a b = decide (key a = key b) := by simp [eq, ha, hb]

/-- IEEE equality of two non-NaN patterns: the same pattern, or two zeros. -/
theorem eq_true_iff (a b : Nat) (ha : isNaN a = false) (hb : isNaN b = false)
    (hal : a < p64) (hbl : b < p64) :
    eq a b = true ↔ (a = b ∨ (isZero a = true ∧ isZero b = true)) := by
  rw [eq_iff_key a b ha hb]
  have ea := bits_eq a hal
  have eb := bits_eq b hbl
  have ma := mag_lt a
  have mb := mag_lt b
  rw [decide_eq_true_eq]
  simp only [key, isZero, beq_iff_eq]
  unfold p63 at *
  constructor
  · intro h
    cases hsa : signBit a <;> cases hsb : signBit b <;> simp [hsa, hsb] at h ea eb <;> omega
  · rintro (h | ⟨h1, h2⟩)
    · subst h; rfl
    · simp [h1, h2]

end F64

namespace F64

/-! ### `i64 → f64` is exact (hence injective) up to 2^53 -/

/-- an integer below 2^53 is stored exactly: its significand shifted left by `k` into [2^52, 2^53). -/
theorem roundMag_small (m : Nat) (h0 : 0 < m) (h : m < p53) :
    ∃ k c : Nat, k ≤ 52 ∧ c = m * 2 ^ k ∧ p52 ≤ c ∧ c < p53 ∧ roundMag m 0 = (1074 - k) * p52 + c := by
  have hm : m ≠ 0 := by omega
  have hL : Nat.log2 m < 53 := (Nat.log2_lt hm).2 (by unfold p53 at h; omega)
  have lo : 2 ^ Nat.log2 m ≤ m := Nat.log2_self_le hm
  have hi : m < 2 ^ (Nat.log2 m + 1) := Nat.lt_log2_self
  refine ⟨52 - Nat.log2 m, m * 2 ^ (52 - Nat.log2 m), by omega, rfl, ?_, ?_, ?_⟩
  · have : 2 ^ Nat.log2 m * 2 ^ (52 - Nat.log2 m) = p52 := by
      rw [← Nat.pow_add]; have : Nat.log2 m + (52 - Nat.log2 m) = 52 := by omega
      rw [this]; rfl
    rw [← this]; exact Nat.mul_le_mul_right _ lo
  · have : 2 ^ (Nat.log2 m + 1) * 2 ^ (52 - Nat.log2 m) = p53 := by
      rw [← Nat.pow_add]; have : Nat.log2 m + 1 + (52 - Nat.log2 m) = 53 := by omega
      rw [this]; rfl
    rw [← this]; exact Nat.mul_lt_mul_of_pos_right hi (Nat.pow_pos (by decide))
  · have hc1 : p52 ≤ m * 2 ^ (52 - Nat.log2 m) := by
      have : 2 ^ Nat.log2 m * 2 ^ (52 - Nat.log2 m) = p52 := by
        rw [← Nat.pow_add]; have : Nat.log2 m + (52 - Nat.log2 m) = 52 := by omega
        rw [this]; rfl
      rw [← this]; exact Nat.mul_le_mul_right _ lo
    have hc2 : m * 2 ^ (52 - Nat.log2 m) < p53 := by
      have : 2 ^ (Nat.log2 m + 1) * 2 ^ (52 - Nat.log2 m) = p53 := by
        rw [← Nat.pow_add]; have : Nat.log2 m + 1 + (52 - Nat.log2 m) = 53 := by omega
        rw [this]; rfl
      rw [← this]; exact Nat.mul_lt_mul_of_pos_right hi (Nat.pow_pos (by decide))
    have hlp : lastPlace m 0 = (Nat.log2 m : Int) - 52 := by
      unfold lastPlace; omega
    unfold roundMag
    rw [if_neg hm, hlp]
    have hsh : (Nat.log2 m : Int) - 52 - 0 ≤ 0 := by omega
    unfold roundQ
    rw [if_pos hsh]
    have e1 : (-((Nat.log2 m : Int) - 52 - 0)).toNat = 52 - Nat.log2 m := by omega
    have e2 : ((Nat.log2 m : Int) - 52 + 1074).toNat = 1074 - (52 - Nat.log2 m) := by omega
    rw [e1, e2]
    generalize m * 2 ^ (52 - Nat.log2 m) = c at hc1 hc2 ⊢
    unfold clampInf infBits
    unfold p52 p53 at *
    rw [if_neg (by omega)]

theorem roundMag_p53 : roundMag p53 0 = 1076 * p52 := by decide +kernel

theorem roundMag_zero (e : Int) : roundMag 0 e = 0 := by simp [roundMag]

/-- `roundMag · 0` is injective on `[0, 2^53]`. -/
theorem roundMag_inj (m n : Nat) (hm : m ≤ p53) (hn : n ≤ p53) (h : roundMag m 0 = roundMag n 0) :
    m = n := by
  have key : ∀ m : Nat, m ≤ p53 →
      (m = 0 ∧ roundMag m 0 = 0) ∨ (m = p53 ∧ roundMag m 0 = 1076 * p52) ∨
      (∃ k c : Nat, k ≤ 52 ∧ c = m * 2 ^ k ∧ p52 ≤ c ∧ c < p53 ∧ roundMag m 0 = (1074 - k) * p52 + c) := by
    intro m hm
    by_cases h0 : m = 0
    · left; subst h0; exact ⟨rfl, roundMag_zero 0⟩
    · by_cases h1 : m = p53
      · right; left; subst h1; exact ⟨rfl, roundMag_p53⟩
      · right; right; exact roundMag_small m (by omega) (by omega)
  rcases key m hm with ⟨m0, rm⟩ | ⟨m0, rm⟩ | ⟨k, c, hk, hc, c1, c2, rm⟩ <;>
  rcases key n hn with ⟨n0, rn⟩ | ⟨n0, rn⟩ | ⟨k', c', hk', hc', c1', c2', rn⟩ <;>
  rw [rm, rn] at h <;> unfold p52 p53 at *
  · omega
  · omega
  · omega
  · omega
  · omega
  · omega
  · omega
  · omega
  · have hkk : k = k' := by omega
    have hcc : c = c' := by omega
    subst hkk
    rw [hc, hc'] at hcc
    exact Nat.eq_of_mul_eq_mul_right (Nat.pow_pos (by decide)) hcc

theorem ofInt_lt (i : Int) : ofInt i < p64 := withSign_lt _ _ (roundMag_lt_p63 _ _)

theorem ofInt_notNaN (i : Int) : isNaN (ofInt i) = false := isNaN_withSign _ _ (roundMag_le _ _)

/-- integers of magnitude at most 2^53 are distinguished by their `f64` images. -/
theorem ofInt_eq_iff (a b : Int) (ha : a.natAbs ≤ p53) (hb : b.natAbs ≤ p53) :
    eq (ofInt a) (ofInt b) = true ↔ a = b := by
  rw [eq_true_iff _ _ (ofInt_notNaN a) (ofInt_notNaN b) (ofInt_lt a) (ofInt_lt b)]
  constructor
  · rintro (h | ⟨h1, h2⟩)
    · have hs := congrArg signBit h
      have hm := congrArg mag h
      unfold ofInt at hs hm
      rw [signBit_withSign _ _ (roundMag_lt_p63 _ _), signBit_withSign _ _ (roundMag_lt_p63 _ _)] at hs
      rw [mag_withSign _ _ (roundMag_lt_p63 _ _), mag_withSign _ _ (roundMag_lt_p63 _ _)] at hm
      have := roundMag_inj _ _ ha hb hm
      have hs' : (a < 0) ↔ (b < 0) := by simpa using hs
      omega
    · unfold isZero ofInt at h1 h2
      rw [mag_withSign _ _ (roundMag_lt_p63 _ _)] at h1 h2
      have z : roundMag 0 0 = 0 := roundMag_zero 0
      have e1 : a.natAbs = 0 := roundMag_inj _ _ ha (by unfold p53; omega) (by rw [z]; simpa using h1)
      have e2 : b.natAbs = 0 := roundMag_inj _ _ hb (by unfold p53; omega) (by rw [z]; simpa using h2)
      omega
  · intro h; left; rw [h]

theorem eq_self (a : Nat) (h : isNaN a = false) : eq a a = true := by simp [eq, h]

end F64

namespace F64

/-! ### every `i64` converts to a finite float, zero only for 0 -/

theorem roundMag_big (m : Nat) (h0 : p53 ≤ m) (h : m < p64) :
    p52 ≤ roundMag m 0 ∧ roundMag m 0 < infBits := by
  have hm : m ≠ 0 := by unfold p53 at h0; omega
  have hL1 : 53 ≤ Nat.log2 m := by
    false_or_by_contra
    have : Nat.log2 m < 53 := by omega
    have := (Nat.log2_lt hm).1 this
    unfold p53 at h0; omega
  have hL2 : Nat.log2 m < 64 := (Nat.log2_lt hm).2 (by unfold p64 at h; omega)
  have lo : 2 ^ Nat.log2 m ≤ m := Nat.log2_self_le hm
  have hi : m < 2 ^ (Nat.log2 m + 1) := Nat.lt_log2_self
  have hlp : lastPlace m 0 = (Nat.log2 m : Int) - 52 := by unfold lastPlace; omega
  -- the truncated significand lies in [2^52, 2^53)
  have hs : (Nat.log2 m - 52) + 52 = Nat.log2 m := by omega
  have q1 : p52 ≤ m / 2 ^ (Nat.log2 m - 52) := by
    rw [Nat.le_div_iff_mul_le (Nat.pow_pos (by decide))]
    have : p52 * 2 ^ (Nat.log2 m - 52) = 2 ^ Nat.log2 m := by
      have : p52 = 2 ^ 52 := by decide
      rw [this, ← Nat.pow_add, Nat.add_comm, hs]
    rw [this]; exact lo
  have q2 : m / 2 ^ (Nat.log2 m - 52) < p53 := by
    rw [Nat.div_lt_iff_lt_mul (Nat.pow_pos (by decide))]
    have : p53 * 2 ^ (Nat.log2 m - 52) = 2 ^ (Nat.log2 m + 1) := by
      have : p53 = 2 ^ 53 := by decide
      rw [this, ← Nat.pow_add]; congr 1; omega
    rw [this]; exact hi
  unfold roundMag
  rw [if_neg hm, hlp]
  have hsh : ¬ ((Nat.log2 m : Int) - 52 - 0 ≤ 0) := by omega
  unfold roundQ
  rw [if_neg hsh]
  have e1 : ((Nat.log2 m : Int) - 52 - 0).toNat = Nat.log2 m - 52 := by omega
  have e2 : ((Nat.log2 m : Int) - 52 + 1074).toNat = Nat.log2 m + 1022 := by omega
  simp only [e1, e2]
  generalize m / 2 ^ (Nat.log2 m - 52) = q at q1 q2 ⊢
  generalize m % 2 ^ (Nat.log2 m - 52) = r
  generalize 2 ^ (Nat.log2 m - 52 - 1) = hh
  unfold clampInf infBits
  unfold p52 p53 at *
  split <;> split <;> omega

/-- magnitude of `i as f64` for an `i64`: finite, and zero only for `i = 0`. -/
theorem roundMag_i64 (m : Nat) (h : m < p64) :
    roundMag m 0 < infBits ∧ (roundMag m 0 = 0 ↔ m = 0) := by
  by_cases h0 : m = 0
  · subst h0; rw [roundMag_zero]; unfold infBits; simp
  · by_cases h1 : m < p53
    · obtain ⟨k, c, hk, _, c1, c2, rm⟩ := roundMag_small m (by omega) h1
      rw [rm]; unfold infBits; unfold p52 p53 at *; omega
    · have := roundMag_big m (by omega) h
      unfold p52 at this; omega

theorem ofInt_finite (i : Int) (h : i.natAbs < p64) : isFinite (ofInt i) = true := by
  unfold isFinite ofInt
  rw [mag_withSign _ _ (roundMag_lt_p63 _ _)]
  simpa using (roundMag_i64 _ h).1

theorem ofInt_isInf (i : Int) (h : i.natAbs < p64) : isInf (ofInt i) = false := by
  unfold isInf ofInt
  rw [mag_withSign _ _ (roundMag_lt_p63 _ _)]
  have := (roundMag_i64 _ h).1
  simp; omega

theorem ofInt_isZero (i : Int) (h : i.natAbs < p64) : isZero (ofInt i) = decide (i = 0) := by
  unfold isZero ofInt
  rw [mag_withSign _ _ (roundMag_lt_p63 _ _)]
  have := (roundMag_i64 _ h).2
  by_cases hi : i = 0
  · subst hi; simp [roundMag_zero]
  · have : ¬ roundMag i.natAbs 0 = 0 := by rw [this]; omega
    simp [hi, this]

/-! ### when the operations are NaN (IEEE "invalid operation") -/

theorem isInf_notNaN (a : Nat) (h : isInf a = true) : isNaN a = false := by
  unfold isInf at h; unfold isNaN; simp at h ⊢; omega

theorem add_none_iff (a b : Nat) (ha : isNaN a = false) (hb : isNaN b = false) :
    add a b = none ↔ (isInf a = true ∧ isInf b = true ∧ signBit a ≠ signBit b) := by
  unfold add
  simp only [ha, hb, Bool.or_self, Bool.false_eq_true, if_false]
  cases h1 : isInf a <;> cases h2 : isInf b <;> simp

theorem mul_none_iff (a b : Nat) (ha : isNaN a = false) (hb : isNaN b = false) :
    mul a b = none ↔ ((isInf a = true ∧ isZero b = true) ∨ (isZero a = true ∧ isInf b = true)) := by
  have z1 : isInf a = true → isZero a = false := by
    unfold isInf isZero infBits; simp; omega
  have z2 : isInf b = true → isZero b = false := by
    unfold isInf isZero infBits; simp; omega
  unfold mul
  simp only [ha, hb, Bool.or_self, Bool.false_eq_true, if_false]
  cases h1 : isInf a <;> cases h2 : isInf b <;> cases h3 : isZero a <;> cases h4 : isZero b <;>
    simp_all

theorem div_none_iff (a b : Nat) (ha : isNaN a = false) (hb : isNaN b = false) :
    div a b = none ↔ ((isInf a = true ∧ isInf b = true) ∨ (isZero a = true ∧ isZero b = true)) := by
  have z1 : isInf a = true → isZero a = false := by
    unfold isInf isZero infBits; simp; omega
  have z2 : isInf b = true → isZero b = false := by
    unfold isInf isZero infBits; simp; omega
  unfold div
  simp only [ha, hb, Bool.or_self, Bool.false_eq_true, if_false]
  cases h1 : isInf a <;> cases h2 : isInf b <;> cases h3 : isZero a <;> cases h4 : isZero b <;>
    simp_all

theorem rem_none_iff (a b : Nat) (ha : isNaN a = false) (hb : isNaN b = false) :
    rem a b = none ↔ (isInf a = true ∨ isZero b = true) := by
  unfold rem
  simp only [ha, hb, Bool.or_self, Bool.false_eq_true, if_false]
  cases h1 : isInf a <;> cases h2 : isZero b <;> cases h3 : isInf b <;> simp

/-! ### results are never NaN patterns -/

theorem add_notNaN (a b r : Nat) (h : add a b = some r) : isNaN r = false := by
  unfold add at h
  split at h
  · cases h
  · split at h
    · split at h
      · cases h
      · cases h; exact isNaN_withSign _ _ (Nat.le_refl _)
    · split at h
      · cases h; exact isNaN_withSign _ _ (Nat.le_refl _)
      · cases h
        unfold roundSigned
        split
        · exact isNaN_withSign _ _ (by unfold infBits; omega)
        · exact isNaN_withSign _ _ (roundMag_le _ _)

theorem sub_notNaN (a b r : Nat) (h : sub a b = some r) : isNaN r = false := by
  unfold sub at h
  split at h
  · cases h
  · exact add_notNaN _ _ _ h

theorem mul_notNaN (a b r : Nat) (h : mul a b = some r) : isNaN r = false := by
  unfold mul at h
  split at h
  · cases h
  · simp only [] at h
    split at h
    · split at h
      · cases h
      · cases h; exact isNaN_withSign _ _ (Nat.le_refl _)
    · cases h; exact isNaN_withSign _ _ (roundMag_le _ _)

theorem div_notNaN (a b r : Nat) (h : div a b = some r) : isNaN r = false := by
  unfold div at h
  split at h
  · cases h
  · simp only [] at h
    split at h
    · split at h
      · cases h
      · cases h; exact isNaN_withSign _ _ (Nat.le_refl _)
    · split at h
      · cases h; exact isNaN_withSign _ _ (by unfold infBits; omega)
      · split at h
        · split at h
          · cases h
          · cases h; exact isNaN_withSign _ _ (Nat.le_refl _)
        · cases h; exact isNaN_withSign _ _ (roundMag_le _ _)

theorem rem_notNaN (a b r : Nat) (h : rem a b = some r) : isNaN r = false := by
  unfold rem at h
  split at h
  · cases h
  · rename_i hn
    split at h
    · cases h
    · split at h
      · cases h; simp at hn; exact hn.1
      · cases h; exact isNaN_withSign _ _ (roundMag_le _ _)

/-- `fmod`: the result carries the sign of the dividend. -/
theorem rem_sign (a b r : Nat) (h : rem a b = some r) : signBit r = signBit a := by
  unfold rem at h
  split at h
  · cases h
  · split at h
    · cases h
    · split at h
      · cases h; rfl
      · cases h; exact signBit_withSign _ _ (roundMag_lt_p63 _ _)

end F64
