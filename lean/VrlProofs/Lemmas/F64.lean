import VrlModel.F64

/-! Facts about the soft-float used by the C10/C11 theorems. -/
namespace F64

theorem mag_lt (b : Nat) : mag b < p63 := by
  unfold mag p63; omega

theorem mag_withSign (s : Bool) (m : Nat) (h : m < p63) : mag (withSign s m) = m := by
  unfold mag withSign p63 at *; cases s <;> simp <;> omega

theorem signBit_withSign (s : Bool) (m : Nat) (h : m < p63) : signBit (withSign s m) = s := by
  unfold signBit withSign p63 at *
  cases s
  · have : m / 9223372036854775808 % 2 = 0 := by omega
    simp [this]
  · have : (9223372036854775808 + m) / 9223372036854775808 % 2 = 1 := by omega
    simp only [if_true, this, beq_self_eq_true]

theorem withSign_lt (s : Bool) (m : Nat) (h : m < p63) : withSign s m < p64 := by
  unfold withSign p63 p64 at *; cases s <;> simp <;> omega

theorem isNaN_withSign (s : Bool) (m : Nat) (h : m ≤ infBits) : isNaN (withSign s m) = false := by
  have hm : m < p63 := by unfold infBits at h; unfold p63; omega
  simp [isNaN, mag_withSign s m hm]; omega

theorem clampInf_le (b : Nat) : clampInf b ≤ infBits := by
  unfold clampInf; split <;> omega

theorem roundMag_le (m : Nat) (e : Int) : roundMag m e ≤ infBits := by
  unfold roundMag
  split
  · unfold infBits; omega
  · exact clampInf_le _

theorem roundMag_lt_p63 (m : Nat) (e : Int) : roundMag m e < p63 := by
  have := roundMag_le m e
  unfold infBits at this; unfold p63; omega

/-- every pattern below 2^64 is its sign bit plus its magnitude -/
theorem bits_eq (b : Nat) (h : b < p64) : b = (if signBit b then p63 else 0) + mag b := by
  unfold signBit mag p63 p64 at *
  by_cases hs : b / 9223372036854775808 % 2 = 1
  · simp [hs]; omega
  · have : ¬ ((b / 9223372036854775808 % 2 == 1) = true) := by simpa using hs
    simp [this]; omega

/-! ### order -/

theorem lt_iff_key (a b : Nat) (ha : isNaN a = false) (hb : isNaN b = false) :
    lt a b = decide (key a < key b) := by simp [lt, ha, hb]

theorem le_iff_key (a b : Nat) (ha : isNaN a = false) (hb : isNaN b = false) :
    le a b = decide (key a ≤ key b) := by simp [le, ha, hb]

theorem eq_iff_key (a b : Nat) (ha : isNaN a = false) (hb : isNaN b = false) :
    eq a b = decide (key a = key b) := by simp [eq, ha, hb]

/-- IEEE equality of two non-NaN patterns: the same pattern, or two zeros. -/
theorem eq_true_iff (a b : Nat) (ha : isNaN a = false) (hb : isNaN b = false)
    (hal : a < p64) (hbl : b < p64) :
    eq a b = true ↔ (a = b ∨ (isZero a = true ∧ isZero b = true)) := by
  rw [eq_iff_key a b ha hb]
  have ea := bits_eq a hal
  have eb := bits_eq b hbl
  have ma := mag_lt a
  have mb := mag_lt b
  rw [decide_eq_true_eq]
  simp only [key, isZero, beq_iff_eq]
  unfold p63 at *
  constructor
  · intro h
    cases hsa : signBit a <;> cases hsb : signBit b <;> simp [hsa, hsb] at h ea eb <;> omega
  · rintro (h | ⟨h1, h2⟩)
    · subst h; rfl
    · simp [h1, h2]

end F64
