import VrlProofs.Lemmas.KindPres

/-! `canonicalize` and `PartialEq for Kind` respect membership, for key-sorted kinds without an
    `Exact` unknown that `Unknown::canonicalize` turns into an `Infinite` one
    (`Kind.hasExactToInf`; otherwise finding `D_canon_exact_to_infinite`). -/

namespace KList

theorem allGt_filter (f : Key → Kind → Bool) : (m : KList) → (a : Key) → allGt a m = true →
    allGt a (filter f m) = true
  | .nil, _, _ => rfl
  | .cons k v m, a, h => by
    simp only [allGt, Bool.and_eq_true] at h
    simp only [filter]
    split
    · simp [allGt, h.1, allGt_filter f m a h.2]
    · exact allGt_filter f m a h.2

theorem sortedKeys_filter (f : Key → Kind → Bool) : (m : KList) → m.SortedKeys = true →
    (filter f m).SortedKeys = true
  | .nil, _ => rfl
  | .cons k v m, h => by
    simp only [SortedKeys, Bool.and_eq_true] at h
    simp only [filter]
    split
    · simp [SortedKeys, allGt_filter f m k h.1, sortedKeys_filter f m h.2]
    · exact sortedKeys_filter f m h.2

theorem allV_filter (P : Kind → Bool) (f : Key → Kind → Bool) : (m : KList) → allV P m = true →
    allV P (filter f m) = true
  | .nil, _ => rfl
  | .cons k v m, h => by
    simp only [allV, Bool.and_eq_true] at h
    simp only [filter]
    split
    · simp [allV, h.1, allV_filter P f m h.2]
    · exact allV_filter P f m h.2

theorem get_filter (f : Key → Kind → Bool) : (m : KList) → (q : Key) → m.SortedKeys = true →
    (filter f m).get q = (match m.get q with
      | some v => if f q v then some v else none
      | none => none)
  | .nil, _, _ => rfl
  | .cons k v m, q, h => by
    simp only [SortedKeys, Bool.and_eq_true] at h
    by_cases hk : k = q
    · subst hk
      simp only [filter, get, if_true]
      split
      · simp [get]
      · rw [get_filter f m k h.2, get_none_of_allGt m k h.1]
    · simp only [filter, get, hk, if_false]
      split
      · simp only [get, hk, if_false]; exact get_filter f m q h.2
      · exact get_filter f m q h.2

/-- positional equality of known maps, seen through lookups. -/
theorem eqWith_get (eq : Kind → Kind → Bool) : (m1 m2 : KList) → eqWith eq m1 m2 = true → (q : Key) →
    (m1.get q = none ∧ m2.get q = none) ∨
    ∃ v1 v2, m1.get q = some v1 ∧ m2.get q = some v2 ∧ eq v1 v2 = true
  | .nil, .nil, _, _ => Or.inl ⟨rfl, rfl⟩
  | .nil, .cons _ _ _, h, _ => by simp [eqWith] at h
  | .cons _ _ _, .nil, h, _ => by simp [eqWith] at h
  | .cons k v m, .cons k' v' m', h, q => by
    simp only [eqWith, Bool.and_eq_true, decide_eq_true_eq] at h
    obtain ⟨⟨hk, hv⟩, hm⟩ := h
    subst hk
    by_cases hq : k = q
    · exact Or.inr ⟨v, v', by simp [get, hq], by simp [get, hq], hv⟩
    · simp only [get, hq, if_false]
      exact eqWith_get eq m m' hm q

end KList

theorem KList.noE2I_eq_allV : (m : KList) → (!m.hasExactToInf) = KList.allV (fun k => !k.hasExactToInf) m
  | .nil => rfl
  | .cons _ v m => by
    have := KList.noE2I_eq_allV m
    simp only [KList.hasExactToInf, KList.allV, Bool.not_or, this]

namespace Spec

/-- key-sorted and free of `Exact` unknowns that canonicalise to `Infinite`. -/
def Nice (K : Kind) : Prop := K.hasExactToInf = false ∧ K.SortedK = true

theorem nice_parts {p : Prim} {a o : OCol} (h : Nice (.mk p a o)) :
    (∀ k u, a = .some (.mk k u) → k.hasExactToInf = false ∧ u.hasExactToInf = false ∧
      k.SortedKeys = true ∧ k.SortedK = true ∧ u.SortedK = true) ∧
    (∀ k u, o = .some (.mk k u) → k.hasExactToInf = false ∧ u.hasExactToInf = false ∧
      k.SortedKeys = true ∧ k.SortedK = true ∧ u.SortedK = true) := by
  obtain ⟨he, hs⟩ := h
  simp only [Kind.hasExactToInf, Bool.or_eq_false_iff] at he
  obtain ⟨sa, so⟩ := kind_sortedK hs
  constructor
  · intro k u ha; subst ha
    have := he.1
    simp only [OCol.hasExactToInf, Col.hasExactToInf, Bool.or_eq_false_iff] at this
    obtain ⟨s1, s2, s3⟩ := col_sortedK sa
    exact ⟨this.1, this.2, s1, s2, s3⟩
  · intro k u ho; subst ho
    have := he.2
    simp only [OCol.hasExactToInf, Col.hasExactToInf, Bool.or_eq_false_iff] at this
    obtain ⟨s1, s2, s3⟩ := col_sortedK so
    exact ⟨this.1, this.2, s1, s2, s3⟩

theorem nice_get (k : KList) (q : Key) (K : Kind) (he : k.hasExactToInf = false)
    (hs : k.SortedK = true) (hg : k.get q = some K) : Nice K := by
  refine ⟨?_, KList.sortedK_get k q K hs hg⟩
  have h1 : KList.allV (fun k => !k.hasExactToInf) k = true := by
    rw [← KList.noE2I_eq_allV]; simp [he]
  have := KList.allV_get _ k q K h1 hg
  simpa using this

theorem nice_toKind (u : Unknown) (he : u.hasExactToInf = false) (hs : u.SortedK = true) :
    Nice u.toKind := by
  refine ⟨?_, Unknown.sortedK_toKind u hs⟩
  cases u with
  | exact k =>
    simp only [Unknown.hasExactToInf, Bool.or_eq_false_iff] at he
    cases k with
    | mk p a o =>
      simpa [Unknown.toKind, Unknown.toExistingKind, Kind.withoutUndefined, Kind.orUndefined,
        Kind.hasExactToInf] using he.2
  | infinite i =>
    simp only [Unknown.toKind, Unknown.toExistingKind, Kind.ofInf, Kind.withoutUndefined,
      Kind.orUndefined, Kind.hasExactToInf]
    cases i.array <;> cases i.object <;>
      simp [OCol.hasExactToInf, Col.hasExactToInf, KList.hasExactToInf, Unknown.hasExactToInf]

/-- what the collection-level lemmas need from the kind equality. -/
structure EqSound (eq : Kind → Kind → Bool) : Prop where
  mem : ∀ a b, Nice a → Nice b → eq a b = true → ∀ x, mem x a = mem x b
  undef : ∀ a b, eq a b = true → a.prim.undefined = b.prim.undefined

theorem orUndefined_idem (k : Kind) : k.withoutUndefined.orUndefined.orUndefined = k.orUndefined := by
  cases k; rfl

theorem ofInf_orU_isAny (i : Inf) : (Kind.ofInf i).orUndefined.isAny = i.isAny := by
  cases i with
  | mk b n f o t r nl a ob =>
    cases a <;> cases ob <;> cases b <;> cases n <;> cases f <;> cases o <;> cases t <;> cases r <;>
      cases nl <;> rfl

theorem ofInf_orU_isJson (i : Inf) : (Kind.ofInf i).orUndefined.isJson = i.isJson := by
  cases i with
  | mk b n f o t r nl a ob =>
    cases a <;> cases ob <;> cases b <;> cases n <;> cases f <;> cases o <;> cases t <;> cases r <;>
      cases nl <;> rfl

theorem inf_eq_json_of_isJson (i : Inf) (h : i.isJson = true) : i = Inf.json := by
  cases i
  simp only [Inf.isJson, Bool.and_eq_true, Bool.not_eq_true'] at h
  simp_all [Inf.json]

/-- `Unknown::canonicalize` keeps the element kind (for unknowns that do not change variant). -/
theorem unknown_canon_mem (u : Unknown) (he : u.hasExactToInf = false) (x : Value) :
    mem x (unknownElemKind u.canonicalize) = mem x (unknownElemKind u) := by
  cases u with
  | exact e =>
    simp only [Unknown.hasExactToInf, Bool.or_eq_false_iff] at he
    have hc : (Unknown.exact e).canonicalize = .exact e.orUndefined := by
      simp only [Unknown.canonicalize, Unknown.toKind, Unknown.toExistingKind, orUndefined_idem,
        Unknown.ofKind, he.1.1, he.1.2, Bool.false_eq_true, if_false]
    rw [hc]
    simp [unknownElemKind, mem_orUndefined]
  | infinite i =>
    have hk : (Unknown.infinite i).toKind.orUndefined = (Kind.ofInf i).orUndefined := by
      simp only [Unknown.toKind, Unknown.toExistingKind]
      exact orUndefined_idem _
    simp only [Unknown.canonicalize, hk, Unknown.ofKind, ofInf_orU_isAny, ofInf_orU_isJson]
    by_cases h1 : i.isAny = true
    · rw [if_pos h1, Unknown.any, inf_eq_any_of_isAny i h1]
    · rw [if_neg h1]
      by_cases h2 : i.isJson = true
      · rw [if_pos h2, Unknown.json, inf_eq_json_of_isJson i h2]
      · rw [if_neg h2]
        simp only [unknownElemKind, mem_orUndefined]
        rfl

theorem unknown_canon_nice (u : Unknown) (he : u.hasExactToInf = false) (hs : u.SortedK = true) :
    u.canonicalize.hasExactToInf = false ∧ u.canonicalize.SortedK = true := by
  cases u with
  | exact e =>
    simp only [Unknown.hasExactToInf, Bool.or_eq_false_iff] at he
    have hc : (Unknown.exact e).canonicalize = .exact e.orUndefined := by
      simp only [Unknown.canonicalize, Unknown.toKind, Unknown.toExistingKind, orUndefined_idem,
        Unknown.ofKind, he.1.1, he.1.2, Bool.false_eq_true, if_false]
    rw [hc]
    cases e with
    | mk p a o =>
      have h1 : (Kind.mk p a o).orUndefined.orUndefined = (Kind.mk p a o).orUndefined := rfl
      simp only [Unknown.hasExactToInf, h1, he.1.1, he.1.2, Bool.false_or, Unknown.SortedK]
      exact ⟨by simpa [Kind.orUndefined, Kind.hasExactToInf] using he.2,
        by simpa [Kind.orUndefined, Kind.SortedK, Unknown.SortedK] using hs⟩
  | infinite i =>
    have hk : (Unknown.infinite i).toKind.orUndefined = (Kind.ofInf i).orUndefined := by
      simp only [Unknown.toKind, Unknown.toExistingKind]
      exact orUndefined_idem _
    simp only [Unknown.canonicalize, hk, Unknown.ofKind, ofInf_orU_isAny, ofInf_orU_isJson]
    by_cases h1 : i.isAny = true
    · simp [h1, Unknown.any, Unknown.hasExactToInf, Unknown.SortedK]
    · simp only [h1, Bool.false_eq_true, if_false]
      by_cases h2 : i.isJson = true
      · simp [h2, Unknown.json, Unknown.hasExactToInf, Unknown.SortedK]
      · simp only [h2, Bool.false_eq_true, if_false]
        have ha : (Kind.ofInf i).orUndefined.orUndefined = (Kind.ofInf i).orUndefined := by
          cases (Kind.ofInf i); rfl
        have hn := nice_toKind (.infinite i) rfl rfl
        have hn' : Nice (Kind.ofInf i).orUndefined := by
          have : (Unknown.infinite i).toKind = (Kind.ofInf i).withoutUndefined.orUndefined := rfl
          rw [this] at hn
          cases hki : Kind.ofInf i with
          | mk p a o =>
            rw [hki] at hn
            exact ⟨by simpa [Kind.withoutUndefined, Kind.orUndefined, Kind.hasExactToInf] using hn.1,
              by simpa [Kind.withoutUndefined, Kind.orUndefined, Kind.SortedK] using hn.2⟩
        simp only [Unknown.hasExactToInf, ha, ofInf_orU_isAny, ofInf_orU_isJson, h1, h2,
          Bool.false_or, Unknown.SortedK]
        exact ⟨hn'.1, hn'.2⟩

/-- `Collection::canonicalize` keeps every slot and every absence condition. -/
theorem col_canon_sound (eq : Kind → Kind → Bool) (hq : EqSound eq) (k : KList) (u : Unknown)
    (he : k.hasExactToInf = false) (hu : u.hasExactToInf = false) (sk : k.SortedKeys = true)
    (sK : k.SortedK = true) (su : u.SortedK = true) :
    (∀ key x, mem x (slotKind (Col.canonicalizeWith eq (.mk k u)) key) = mem x (slotKind (.mk k u) key)) ∧
    (∀ key K', (Col.canonicalizeWith eq (.mk k u)).known.get key = some K' → k.get key = some K') ∧
    (∀ key K', k.get key = some K' → (Col.canonicalizeWith eq (.mk k u)).known.get key = none →
      K'.prim.undefined = true) := by
  have hcan : Col.canonicalizeWith eq (.mk k u) =
      .mk (k.filter (fun _ kk => !eq kk u.toKind)) u.canonicalize := rfl
  rw [hcan]
  have hgf := fun q => KList.get_filter (fun _ kk => !eq kk u.toKind) k q sk
  have hnu := nice_toKind u hu su
  refine ⟨?_, ?_, ?_⟩
  · intro key x
    rw [slotKind_mk, slotKind_mk, hgf key]
    cases hk : k.get key with
    | none => exact unknown_canon_mem u hu x
    | some kk =>
      simp only
      by_cases hd : eq kk u.toKind = true
      · simp only [hd, Bool.not_true, Bool.false_eq_true, if_false]
        rw [unknown_canon_mem u hu x, ← mem_unknown_toKind]
        exact (hq.mem kk u.toKind (nice_get k key kk he sK hk) hnu hd x).symm
      · simp [hd]
  · intro key K' hk
    simp only [Col.known] at hk
    rw [hgf key] at hk
    cases hk2 : k.get key with
    | none => rw [hk2] at hk; cases hk
    | some kk =>
      rw [hk2] at hk
      simp only at hk
      split at hk
      · exact hk
      · cases hk
  · intro key K' hk hn
    simp only [Col.known] at hn
    rw [hgf key, hk] at hn
    simp only at hn
    by_cases hd : eq K' u.toKind = true
    · rw [hq.undef K' u.toKind hd]; exact toKind_undefined u
    · simp [hd] at hn

end Spec

namespace Spec

theorem memList_congr (c c' : Col) (h : ∀ k x, mem x (slotKind c k) = mem x (slotKind c' k)) :
    (xs : VList) → (i : Nat) → memList xs i c = memList xs i c'
  | .nil, _ => rfl
  | .cons x xs, i => by simp only [memList, h, memList_congr c c' h xs (i + 1)]

theorem memMap_congr (c c' : Col) (h : ∀ k x, mem x (slotKind c k) = mem x (slotKind c' k)) :
    (m : VMap) → memMap m c = memMap m c'
  | .nil => rfl
  | .cons k x m => by simp only [memMap, h, memMap_congr c c' h m]

theorem bool_eq_of_iff {a b : Bool} (h : a = true ↔ b = true) : a = b := by
  cases a <;> cases b <;> simp_all

/-- membership in a kind whose collections are canonicalised. -/
theorem kind_canon_mem (eq : Kind → Kind → Bool) (hq : EqSound eq) (K : Kind) (hK : Nice K)
    (x : Value) : mem x (K.canonicalizeWith eq) = mem x K := by
  cases K with
  | mk p a o =>
    obtain ⟨hA, hO⟩ := nice_parts hK
    simp only [Kind.canonicalizeWith]
    cases x with
    | arr xs =>
      rw [mem_arr_mk, mem_arr_mk]
      cases a with
      | none => rfl
      | some c =>
        cases c with
        | mk k u =>
          obtain ⟨he, hu, sk, sK, su⟩ := hA k u rfl
          obtain ⟨h1, h2, h3⟩ := col_canon_sound eq hq k u he hu sk sK su
          simp only [OCol.canonicalizeWith]
          rw [memList_congr _ _ h1 xs 0]
          congr 1
          apply bool_eq_of_iff
          rw [absentIdxOk_iff, absentIdxOk_iff]
          constructor
          · intro h key K' hk hl
            cases hc : (Col.canonicalizeWith eq (.mk k u)).known.get key with
            | some K'' =>
              have := h2 key K'' hc
              simp only [Col.known] at hk
              rw [hk] at this; cases this
              exact h key K' hc hl
            | none => exact h3 key K' hk hc
          · intro h key K' hk hl
            exact h key K' (h2 key K' hk) hl
    | obj m =>
      rw [mem_obj_mk, mem_obj_mk]
      cases o with
      | none => rfl
      | some c =>
        cases c with
        | mk k u =>
          obtain ⟨he, hu, sk, sK, su⟩ := hO k u rfl
          obtain ⟨h1, h2, h3⟩ := col_canon_sound eq hq k u he hu sk sK su
          simp only [OCol.canonicalizeWith]
          rw [memMap_congr _ _ h1 m]
          congr 1
          apply bool_eq_of_iff
          rw [absentKeysOk_iff, absentKeysOk_iff]
          constructor
          · intro h key K' hk hl
            cases hc : (Col.canonicalizeWith eq (.mk k u)).known.get key with
            | some K'' =>
              have := h2 key K'' hc
              simp only [Col.known] at hk
              rw [hk] at this; cases this
              exact h key K' hc hl
            | none => exact h3 key K' hk hc
          · intro h key K' hk hl
            exact h key K' (h2 key K' hk) hl
    | null => rfl
    | bool _ => rfl
    | int _ => rfl
    | float _ => rfl
    | bytes _ => rfl
    | ts _ => rfl
    | regex _ => rfl

/-- canonicalised collections stay `Nice`. -/
theorem kind_canon_nice (eq : Kind → Kind → Bool) (K : Kind) (hK : Nice K) :
    Nice (K.canonicalizeWith eq) := by
  cases K with
  | mk p a o =>
    obtain ⟨hA, hO⟩ := nice_parts hK
    have hcol : ∀ k u, k.hasExactToInf = false → u.hasExactToInf = false → k.SortedKeys = true →
        k.SortedK = true → u.SortedK = true →
        (Col.canonicalizeWith eq (.mk k u)).hasExactToInf = false ∧
        (Col.canonicalizeWith eq (.mk k u)).SortedK = true := by
      intro k u he hu sk sK su
      have hcan : Col.canonicalizeWith eq (.mk k u) =
          .mk (k.filter (fun _ kk => !eq kk u.toKind)) u.canonicalize := rfl
      rw [hcan]
      obtain ⟨hu1, hu2⟩ := unknown_canon_nice u hu su
      have h1 : (k.filter (fun _ kk => !eq kk u.toKind)).hasExactToInf = false := by
        have ha : KList.allV (fun k => !k.hasExactToInf) k = true := by
          rw [← KList.noE2I_eq_allV]; simp [he]
        have := KList.allV_filter _ (fun _ kk => !eq kk u.toKind) k ha
        rw [← KList.noE2I_eq_allV] at this
        simpa using this
      have h2 : (k.filter (fun _ kk => !eq kk u.toKind)).SortedK = true := by
        rw [KList.sortedK_eq_allV] at sK ⊢
        exact KList.allV_filter _ _ k sK
      simp only [Col.hasExactToInf, Col.SortedK, h1, hu1, h2, hu2,
        KList.sortedKeys_filter _ k sk, Bool.or_self, Bool.and_self, and_self]
    simp only [Kind.canonicalizeWith]
    constructor
    · simp only [Kind.hasExactToInf, Bool.or_eq_false_iff]
      constructor
      · cases a with
        | none => rfl
        | some c =>
          cases c with
          | mk k u =>
            obtain ⟨he, hu, sk, sK, su⟩ := hA k u rfl
            exact (hcol k u he hu sk sK su).1
      · cases o with
        | none => rfl
        | some c =>
          cases c with
          | mk k u =>
            obtain ⟨he, hu, sk, sK, su⟩ := hO k u rfl
            exact (hcol k u he hu sk sK su).1
    · simp only [Kind.SortedK, Bool.and_eq_true]
      constructor
      · cases a with
        | none => rfl
        | some c =>
          cases c with
          | mk k u =>
            obtain ⟨he, hu, sk, sK, su⟩ := hA k u rfl
            exact (hcol k u he hu sk sK su).2
      · cases o with
        | none => rfl
        | some c =>
          cases c with
          | mk k u =>
            obtain ⟨he, hu, sk, sK, su⟩ := hO k u rfl
            exact (hcol k u he hu sk sK su).2

/-- two collections that are equal up to `eq` have the same members. -/
theorem col_eq_sound (eq : Kind → Kind → Bool) (hq : EqSound eq) (k1 k2 : KList) (u1 u2 : Unknown)
    (h1 : k1.hasExactToInf = false ∧ u1.hasExactToInf = false ∧ k1.SortedK = true ∧ u1.SortedK = true)
    (h2 : k2.hasExactToInf = false ∧ u2.hasExactToInf = false ∧ k2.SortedK = true ∧ u2.SortedK = true)
    (h : Col.eqWith eq (.mk k1 u1) (.mk k2 u2) = true) :
    (∀ key x, mem x (slotKind (.mk k1 u1) key) = mem x (slotKind (.mk k2 u2) key)) ∧
    (∀ key, (k1.get key = none ↔ k2.get key = none) ∧
      ∀ K1 K2, k1.get key = some K1 → k2.get key = some K2 → K1.prim.undefined = K2.prim.undefined) := by
  simp only [Col.eqWith, Col.known, Col.unknown, Bool.and_eq_true] at h
  obtain ⟨hk, hu⟩ := h
  have hg := KList.eqWith_get eq k1 k2 hk
  have hunk : ∀ x, mem x (unknownElemKind u1) = mem x (unknownElemKind u2) := by
    intro x
    cases u1 with
    | exact e1 =>
      cases u2 with
      | exact e2 =>
        simp only [Unknown.eqWith] at hu
        simp only [Unknown.hasExactToInf, Bool.or_eq_false_iff, Unknown.SortedK] at h1 h2
        exact hq.mem e1 e2 ⟨h1.2.1.2, h1.2.2.2⟩ ⟨h2.2.1.2, h2.2.2.2⟩ hu x
      | infinite i2 => simp [Unknown.eqWith] at hu
    | infinite i1 =>
      cases u2 with
      | exact e2 => simp [Unknown.eqWith] at hu
      | infinite i2 =>
        simp only [Unknown.eqWith, decide_eq_true_eq] at hu
        subst hu; rfl
  constructor
  · intro key x
    rw [slotKind_mk, slotKind_mk]
    rcases hg key with ⟨g1, g2⟩ | ⟨v1, v2, g1, g2, he⟩
    · rw [g1, g2]; exact hunk x
    · rw [g1, g2]
      exact hq.mem v1 v2 (nice_get k1 key v1 h1.1 h1.2.2.1 g1) (nice_get k2 key v2 h2.1 h2.2.2.1 g2) he x
  · intro key
    rcases hg key with ⟨g1, g2⟩ | ⟨v1, v2, g1, g2, he⟩
    · refine ⟨by simp [g1, g2], ?_⟩
      intro K1 K2 hk1; rw [g1] at hk1; cases hk1
    · refine ⟨by simp [g1, g2], ?_⟩
      intro K1 K2 hk1 hk2
      rw [g1] at hk1; rw [g2] at hk2; cases hk1; cases hk2
      exact hq.undef v1 v2 he

/-- kinds with equal primitive states and collections equal up to `eq` have the same members. -/
theorem kind_eq_sound (eq : Kind → Kind → Bool) (hq : EqSound eq) (p : Prim) (a1 o1 a2 o2 : OCol)
    (n1 : Nice (.mk p a1 o1)) (n2 : Nice (.mk p a2 o2))
    (ha : OCol.eqWith eq a1 a2 = true) (ho : OCol.eqWith eq o1 o2 = true) (x : Value) :
    mem x (.mk p a1 o1) = mem x (.mk p a2 o2) := by
  obtain ⟨hA1, hO1⟩ := nice_parts n1
  obtain ⟨hA2, hO2⟩ := nice_parts n2
  cases x with
  | arr xs =>
    rw [mem_arr_mk, mem_arr_mk]
    cases a1 with
    | none => cases a2 with
      | none => rfl
      | some _ => simp [OCol.eqWith] at ha
    | some c1 =>
      cases a2 with
      | none => simp [OCol.eqWith] at ha
      | some c2 =>
        cases c1 with
        | mk k1 u1 =>
        cases c2 with
        | mk k2 u2 =>
          obtain ⟨e1, eu1, _, s1, su1⟩ := hA1 k1 u1 rfl
          obtain ⟨e2, eu2, _, s2, su2⟩ := hA2 k2 u2 rfl
          simp only [OCol.eqWith] at ha
          obtain ⟨hs, hk⟩ := col_eq_sound eq hq k1 k2 u1 u2 ⟨e1, eu1, s1, su1⟩ ⟨e2, eu2, s2, su2⟩ ha
          simp only
          rw [memList_congr _ _ hs xs 0]
          congr 1
          apply bool_eq_of_iff
          rw [absentIdxOk_iff, absentIdxOk_iff]
          simp only [Col.known]
          constructor
          · intro h key K2 hk2 hl
            cases hk1 : k1.get key with
            | none => rw [(hk key).1.mp hk1] at hk2; cases hk2
            | some K1 => rw [← (hk key).2 K1 K2 hk1 hk2]; exact h key K1 hk1 hl
          · intro h key K1 hk1 hl
            cases hk2 : k2.get key with
            | none => rw [(hk key).1.mpr hk2] at hk1; cases hk1
            | some K2 => rw [(hk key).2 K1 K2 hk1 hk2]; exact h key K2 hk2 hl
  | obj m =>
    rw [mem_obj_mk, mem_obj_mk]
    cases o1 with
    | none => cases o2 with
      | none => rfl
      | some _ => simp [OCol.eqWith] at ho
    | some c1 =>
      cases o2 with
      | none => simp [OCol.eqWith] at ho
      | some c2 =>
        cases c1 with
        | mk k1 u1 =>
        cases c2 with
        | mk k2 u2 =>
          obtain ⟨e1, eu1, _, s1, su1⟩ := hO1 k1 u1 rfl
          obtain ⟨e2, eu2, _, s2, su2⟩ := hO2 k2 u2 rfl
          simp only [OCol.eqWith] at ho
          obtain ⟨hs, hk⟩ := col_eq_sound eq hq k1 k2 u1 u2 ⟨e1, eu1, s1, su1⟩ ⟨e2, eu2, s2, su2⟩ ho
          simp only
          rw [memMap_congr _ _ hs m]
          congr 1
          apply bool_eq_of_iff
          rw [absentKeysOk_iff, absentKeysOk_iff]
          simp only [Col.known]
          constructor
          · intro h key K2 hk2 hl
            cases hk1 : k1.get key with
            | none => rw [(hk key).1.mp hk1] at hk2; cases hk2
            | some K1 => rw [← (hk key).2 K1 K2 hk1 hk2]; exact h key K1 hk1 hl
          · intro h key K1 hk1 hl
            cases hk2 : k2.get key with
            | none => rw [(hk key).1.mpr hk2] at hk1; cases hk1
            | some K2 => rw [(hk key).2 K1 K2 hk1 hk2]; exact h key K2 hk2 hl
  | null => rfl
  | bool _ => rfl
  | int _ => rfl
  | float _ => rfl
  | bytes _ => rfl
  | ts _ => rfl
  | regex _ => rfl

/-- **`PartialEq for Kind` (any fuel) relates kinds with the same members.** -/
theorem eqF_sound : (n : Nat) → EqSound (Kind.eqF n)
  | 0 => ⟨fun _ _ _ _ h => by simp [Kind.eqF] at h, fun _ _ h => by simp [Kind.eqF] at h⟩
  | n + 1 => by
    have ih := eqF_sound n
    constructor
    · intro a b na nb h x
      simp only [Kind.eqF, Bool.and_eq_true, decide_eq_true_eq] at h
      obtain ⟨⟨hp, ha⟩, ho⟩ := h
      rw [← kind_canon_mem _ ih a na x, ← kind_canon_mem _ ih b nb x]
      have na' := kind_canon_nice (Kind.eqF n) a na
      have nb' := kind_canon_nice (Kind.eqF n) b nb
      cases hca : a.canonicalizeWith (Kind.eqF n) with
      | mk p1 a1 o1 =>
      cases hcb : b.canonicalizeWith (Kind.eqF n) with
      | mk p2 a2 o2 =>
        rw [hca] at hp ha ho na'
        rw [hcb] at hp ha ho nb'
        simp only [Kind.prim, Kind.arr, Kind.obj] at hp ha ho
        subst hp
        exact kind_eq_sound _ ih p1 a1 o1 a2 o2 na' nb' ha ho x
    · intro a b h
      simp only [Kind.eqF, Bool.and_eq_true, decide_eq_true_eq] at h
      have hp := h.1.1
      cases a; cases b
      simp only [Kind.canonicalizeWith, Kind.prim] at hp ⊢
      rw [hp]

end Spec
