/-
  Lemmas for C23: the block paddings of `VrlModel.Crypt` are reversible, by arithmetic on lengths.
-/
import VrlModel.Crypt

namespace Crypt

/-! ### shape of `pad` -/

theorem padBytes_length (s : Pad) (fill : Filler) (pos : Nat) (h : pos < 16) :
    (padBytes s fill pos).length = 16 - pos := by
  cases s <;> simp [padBytes] <;> omega

/-- `pad` appends the padding bytes of the tail position to the message. -/
theorem pad_eq (s : Pad) (fill : Filler) (msg : Bytes) :
    pad s fill msg = msg ++ padBytes s fill (msg.length % 16) := by
  have hlen : (msg.drop (msg.length / 16 * 16)).length = msg.length % 16 := by
    simp [List.length_drop]; omega
  simp only [pad, hlen]
  rw [← List.append_assoc, List.take_append_drop]

theorem pad_length (s : Pad) (fill : Filler) (msg : Bytes) :
    (pad s fill msg).length = (msg.length / 16 + 1) * 16 := by
  have h : msg.length % 16 < 16 := Nat.mod_lt _ (by decide)
  rw [pad_eq, List.length_append, padBytes_length s fill _ h]
  omega

/-! ### `raw_unpad` on a block `tail ++ padBytes` -/

theorem getD_append_right' (l r : Bytes) (i d : Nat) (h : l.length ≤ i) :
    (l ++ r).getD i d = r.getD (i - l.length) d := by
  simp [List.getD, List.getElem?_append_right h]

theorem any_ne_replicate (k v : Nat) : (List.replicate k v).any (fun x => x != v) = false := by
  induction k with
  | zero => rfl
  | succ k ih => simp [List.replicate_succ, ih]

theorem iso7816Scan_zeros (k : Nat) (rest : Bytes) :
    iso7816Scan (List.replicate k 0 ++ 0x80 :: rest) = some rest.length := by
  induction k with
  | zero => simp [iso7816Scan]
  | succ k ih => simp [List.replicate_succ, iso7816Scan, ih]

/-- every scheme recovers the tail length from `tail ++ padBytes s fill tail.length`. -/
theorem rawUnpad_padded (s : Pad) (fill : Filler) (tail : Bytes) (h : tail.length < 16) :
    rawUnpad s (tail ++ padBytes s fill tail.length) = some tail.length := by
  have hn : 16 - tail.length - 1 + 1 = 16 - tail.length := by omega
  cases s with
  | pkcs7 =>
    have hlast : (tail ++ List.replicate (16 - tail.length) (16 - tail.length)).getD 15 0
        = 16 - tail.length := by
      rw [getD_append_right' _ _ _ _ (by omega)]
      have hlt : 15 - tail.length < 16 - tail.length := by omega
      simp [List.getD, hlt]
    simp only [rawUnpad, pkcs7Unpad, padBytes, List.length_append, List.length_replicate]
    have e1 : tail.length + (16 - tail.length) - 1 = 15 := by omega
    rw [e1, hlast]
    have e2 : tail.length + (16 - tail.length) - (16 - tail.length) = tail.length := by omega
    rw [e2, List.drop_left]
    rw [if_neg (by omega)]
    simp [List.take_replicate]
  | iso10126 =>
    have hlast : (tail ++ ((List.range (16 - tail.length - 1)).map (fill (16 - tail.length))
        ++ [16 - tail.length])).getD 15 0 = 16 - tail.length := by
      rw [getD_append_right' _ _ _ _ (by omega), getD_append_right' _ _ _ _ (by simp; omega)]
      have : 15 - tail.length - ((List.range (16 - tail.length - 1)).map (fill (16 - tail.length))).length = 0 := by
        simp; omega
      rw [this]; rfl
    simp only [rawUnpad, pkcs7Unpad, padBytes, List.length_append, List.length_map,
      List.length_range, List.length_singleton]
    have e1 : tail.length + (16 - tail.length - 1 + 1) - 1 = 15 := by omega
    rw [e1, hlast]
    rw [if_neg (by omega)]
    simp; omega
  | ansix923 =>
    have hlast : (tail ++ (List.replicate (16 - tail.length - 1) 0 ++ [16 - tail.length])).getD 15 0
        = 16 - tail.length := by
      rw [getD_append_right' _ _ _ _ (by omega), getD_append_right' _ _ _ _ (by simp; omega)]
      have : 15 - tail.length - (List.replicate (16 - tail.length - 1) 0).length = 0 := by
        simp; omega
      rw [this]; rfl
    simp only [rawUnpad, ansiUnpad, padBytes, List.length_append, List.length_replicate,
      List.length_singleton]
    have e1 : tail.length + (16 - tail.length - 1 + 1) - 1 = 15 := by omega
    rw [e1, hlast]
    have e2 : tail.length + (16 - tail.length - 1 + 1) - (16 - tail.length) = tail.length := by omega
    rw [e2, List.drop_left]
    rw [if_neg (by omega)]
    have e3 : 15 - tail.length = 16 - tail.length - 1 := by omega
    rw [e3, List.take_left' (by simp)]
    simp
  | iso7816 =>
    simp only [rawUnpad, padBytes]
    rw [List.reverse_append, List.reverse_cons, List.reverse_replicate, List.append_assoc]
    simp only [List.singleton_append]
    rw [iso7816Scan_zeros]
    simp

/-! ### `unpad_blocks ∘ pad = id` -/

/-- **Padding round trip**: for every scheme, every ISO 10126 filler and every message (hence every
    message length and every residue modulo the block size), unpadding the padded message returns
    the message. -/
theorem unpadBlocks_pad (s : Pad) (fill : Filler) (msg : Bytes) :
    unpadBlocks s (pad s fill msg) = some msg := by
  have hpos : msg.length % 16 < 16 := Nat.mod_lt _ (by decide)
  have hlen := pad_length s fill msg
  have hpb := padBytes_length s fill _ hpos
  -- the last block is `tail ++ padding`
  have hfull : (pad s fill msg).length - 16 = msg.length / 16 * 16 := by rw [hlen]; omega
  have hle : msg.length / 16 * 16 ≤ msg.length := by omega
  have htl : (msg.drop (msg.length / 16 * 16)).length = msg.length % 16 := by
    simp [List.length_drop]; omega
  have hlast : (pad s fill msg).drop ((pad s fill msg).length - 16)
      = msg.drop (msg.length / 16 * 16)
        ++ padBytes s fill (msg.drop (msg.length / 16 * 16)).length := by
    rw [hfull, pad_eq, List.drop_append_of_le_length hle, htl]
  have hraw := rawUnpad_padded s fill (msg.drop (msg.length / 16 * 16)) (by rw [htl]; exact hpos)
  unfold unpadBlocks
  rw [if_neg (by rw [hlen]; omega)]
  simp only [hlast, hraw]
  rw [hfull, htl, pad_eq]
  have : msg.length / 16 * 16 + msg.length % 16 = msg.length := by omega
  rw [this, List.take_left']
  rfl

/-! ### name tables -/

theorem lookupArms_isSome (t : List Arm) (n : Bytes) :
    (lookupArms t n).isSome = true ↔ n ∈ t.flatMap (·.1) := by
  induction t with
  | nil => simp [lookupArms]
  | cons arm rest ih =>
    obtain ⟨pats, a⟩ := arm
    simp only [lookupArms, List.flatMap_cons, List.mem_append]
    by_cases h : pats.contains n = true
    · simp [List.contains_iff_mem.mp h]
    · have h' : ¬ n ∈ pats := fun hm => h (List.contains_iff_mem.mpr hm)
      simp [h', ih]

theorem encryptArms_eq_decryptArms : encryptArms = decryptArms := rfl

theorem validNames_sub : ∀ x ∈ validNames, x ∈ encryptArms.flatMap (·.1) := by decide
theorem validNames_sup : ∀ x ∈ encryptArms.flatMap (·.1), x ∈ validNames := by decide

/-! ### sizes and outcomes -/

theorem checkSizes_none_iff (a : Alg) (key iv : Bytes) :
    checkSizes a key iv = none ↔ key.length = keyLen a ∧ iv.length = ivLen a := by
  unfold checkSizes
  by_cases hk : key.length = keyLen a <;> by_cases hi : iv.length = ivLen a <;> simp [hk, hi]

theorem orPanic_eq_ok {ε : Type} (o : Option Bytes) (c : Bytes) :
    (orPanic o : Res ε) = .ok c ↔ o = some c := by
  cases o <;> simp [orPanic]

theorem orPanic_eq_panic {ε : Type} (o : Option Bytes) :
    (orPanic o : Res ε) = .panic ↔ o = none := by
  cases o <;> simp [orPanic]

theorem orInvalid_eq_ok (o : Option Bytes) (c : Bytes) : orInvalid o = .ok c ↔ o = some c := by
  cases o <;> simp [orInvalid]

theorem orInvalid_ne_panic (o : Option Bytes) : orInvalid o ≠ .panic := by
  cases o <;> simp [orInvalid]

theorem orInvalid_eq_err (o : Option Bytes) (e : Err) : orInvalid o = .err e ↔ o = none ∧ e = .invalidInput := by
  cases o <;> simp [orInvalid, eq_comm]

theorem orPanic_ne_err {ε : Type} (o : Option Bytes) (e : ε) : (orPanic o : Res ε) ≠ .err e := by
  cases o <;> simp [orPanic]

/-! ### addresses -/

/-- well-formed address: 4 resp. 16 octets. -/
def Ip.WF : Ip → Prop
  | .v4 o => o.length = 4
  | .v6 o => o.length = 16

theorem v4Prefix_length : v4Prefix.length = 12 := rfl

theorem ipToBytes_length (ip : Ip) (h : ip.WF) : (ipToBytes ip).length = 16 := by
  cases ip <;> simp_all [ipToBytes, Ip.WF, v4Prefix_length]

theorem isV4Form_iff (b : Bytes) : isV4Form b = true ↔ b.take 12 = v4Prefix := by
  simp [isV4Form]

theorem isV4Form_v4 (o : Bytes) : isV4Form (v4Prefix ++ o) = true := by
  rw [isV4Form_iff, List.take_left' v4Prefix_length]

theorem bytesToIp_isV4 (b : Bytes) : (bytesToIp b).isV4 = isV4Form b := by
  unfold bytesToIp
  cases h : isV4Form b <;> simp [Ip.isV4]

theorem bytesToIp_WF (b : Bytes) (h : b.length = 16) : (bytesToIp b).WF := by
  unfold bytesToIp
  cases hv : isV4Form b <;> simp [Ip.WF, h]

/-- every 16-byte block survives `bytes_to_ip` followed by `ip_to_bytes` … -/
theorem ipToBytes_bytesToIp (b : Bytes) : ipToBytes (bytesToIp b) = b := by
  unfold bytesToIp
  cases hv : isV4Form b with
  | false => simp [ipToBytes]
  | true =>
    simp only [if_true, ipToBytes]
    rw [← (isV4Form_iff b).mp hv, List.take_append_drop]

/-- … but an address survives `ip_to_bytes` followed by `bytes_to_ip` only if it is not an
    IPv4-mapped IPv6 address. -/
theorem bytesToIp_ipToBytes (ip : Ip) (h : D_v4mapped ip = false) : bytesToIp (ipToBytes ip) = ip := by
  cases ip with
  | v4 o =>
    simp only [ipToBytes, bytesToIp, isV4Form_v4, if_true]
    rw [List.drop_left' v4Prefix_length]
  | v6 o =>
    simp only [D_v4mapped] at h
    simp [ipToBytes, bytesToIp, h]

theorem bytesToIp_ipToBytes_mapped (o : Bytes) (h : isV4Form o = true) :
    bytesToIp (ipToBytes (.v6 o)) = .v4 (o.drop 12) := by
  simp [ipToBytes, bytesToIp, h]

end Crypt
