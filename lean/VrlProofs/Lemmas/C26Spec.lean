/-
  C26, sanity of the specification: `dropDefaults` yields a normal form — the result is still
  shaped and sorted, and dropping defaults again changes nothing.
-/
import VrlProofs.Lemmas.C26

namespace Proto

/-- what `dropDefaults` preserves for the value `x` of field `f` -/
def DDOK (pool : Pool) (f : Field) (x : Value) : Prop :=
  defect pool f (dropDefaults pool f x) = none ∧
  dropDefaults pool f (dropDefaults pool f x) = dropDefaults pool f x ∧
  isDefaultValue pool f (dropDefaults pool f x) = isDefaultValue pool f x ∧
  (dropDefaults pool f x).Sorted = true

theorem ddOK_leaf (pool : Pool) (f : Field) (x : Value) (hl : isLeaf x = true)
    (hd : defect pool f x = none) : DDOK pool f x := by
  have hdd : dropDefaults pool f x = x := by
    obtain ⟨nm, num, k, c⟩ := f
    cases x <;> first | (simp [isLeaf] at hl; done) | (cases c <;> cases k <;> simp [dropDefaults])
  have hs : x.Sorted = true := by cases x <;> first | (simp [isLeaf] at hl; done) | rfl
  unfold DDOK
  rw [hdd]
  exact ⟨hd, hdd, rfl, hs⟩

theorem allGt_ddEntries' (pool : Pool) (vk : Kind) (m : VMap) (k : List Nat) (h : VMap.allGt k m = true) :
    VMap.allGt k (ddEntries pool vk m) = true := allGt_ddEntries pool vk m k h

mutual
  theorem dd_field (pool : Pool) : (f : Field) → (x : Value) → x.Sorted = true →
      defect pool f x = none → DDOK pool f x
    | f, .null, _, hd => by simp [defect] at hd
    | f, .bool b, _, hd => ddOK_leaf pool f (.bool b) rfl hd
    | f, .int i, _, hd => ddOK_leaf pool f (.int i) rfl hd
    | f, .float b, _, hd => ddOK_leaf pool f (.float b) rfl hd
    | f, .bytes b, _, hd => ddOK_leaf pool f (.bytes b) rfl hd
    | f, .ts t, _, hd => ddOK_leaf pool f (.ts t) rfl hd
    | f, .regex r, _, hd => ddOK_leaf pool f (.regex r) rfl hd
    | ⟨nm, num, k, c⟩, .arr a, hs, hd => by
      cases c with
      | repeated =>
        simp only [defect] at hd
        simp only [Value.Sorted] at hs
        obtain ⟨h1, h2, h3, h4⟩ := dd_list pool k a hs hd
        refine ⟨by simp [dropDefaults, defect, h1], by simp [dropDefaults, h2], ?_, by simp [dropDefaults, Value.Sorted, h4]⟩
        cases a <;> simp [dropDefaults, ddList, isDefaultValue]
      | singular => simp [defect] at hd
      | optional => simp [defect] at hd
      | map ks => simp [defect] at hd
    | ⟨nm, num, k, c⟩, .obj m, hs, hd => by
      simp only [Value.Sorted] at hs
      cases c with
      | map ks =>
        simp only [defect] at hd
        obtain ⟨h1, h2, h4⟩ := dd_entries pool ks k m hs hd
        refine ⟨by simp [dropDefaults, defect, h1], by simp [dropDefaults, h2], ?_, by simp [dropDefaults, Value.Sorted, h4]⟩
        cases m <;> simp [dropDefaults, ddEntries, isDefaultValue]
      | repeated => simp [defect] at hd
      | singular =>
        cases k with
        | message r =>
          simp only [defect] at hd
          cases hmd : pool.msg r with
          | none => simp [hmd] at hd
          | some md =>
            simp only [hmd] at hd
            obtain ⟨h1, h2, h4⟩ := dd_map pool md.fields m hs hd
            exact ⟨by simp [dropDefaults, defect, hmd, h1], by simp [dropDefaults, hmd, h2],
              by simp [dropDefaults, hmd, isDefaultValue], by simp [dropDefaults, hmd, Value.Sorted, h4]⟩
        | enum e => simp [defect] at hd
        | scalar s =>
          simp [defect] at hd
          cases s <;> simp [defectScalar, Scalar.carrier] at hd
      | optional =>
        cases k with
        | message r =>
          simp only [defect] at hd
          cases hmd : pool.msg r with
          | none => simp [hmd] at hd
          | some md =>
            simp only [hmd] at hd
            obtain ⟨h1, h2, h4⟩ := dd_map pool md.fields m hs hd
            exact ⟨by simp [dropDefaults, defect, hmd, h1], by simp [dropDefaults, hmd, h2],
              by simp [dropDefaults, hmd, isDefaultValue], by simp [dropDefaults, hmd, Value.Sorted, h4]⟩
        | enum e => simp [defect] at hd
        | scalar s =>
          simp [defect] at hd
          cases s <;> simp [defectScalar, Scalar.carrier] at hd
  theorem dd_list (pool : Pool) : (k : Kind) → (a : VList) → a.Sorted = true → defectList pool k a = none →
      defectList pool k (ddList pool k a) = none ∧ ddList pool k (ddList pool k a) = ddList pool k a ∧
      (ddList pool k a).isEmpty = a.isEmpty ∧ (ddList pool k a).Sorted = true
    | k, .nil, _, _ => ⟨rfl, rfl, rfl, rfl⟩
    | k, .cons x xs, hs, hd => by
      simp only [VList.Sorted, Bool.and_eq_true] at hs
      simp only [defectList] at hd
      cases hdx : defect pool (Field.plain k) x with
      | some d => simp [hdx] at hd
      | none =>
        simp only [hdx] at hd
        obtain ⟨h1, h2, _, h4⟩ := dd_field pool (Field.plain k) x hs.1 hdx
        obtain ⟨g1, g2, _, g4⟩ := dd_list pool k xs hs.2 hd
        exact ⟨by simp [ddList, defectList, h1, g1], by simp [ddList, h2, g2], rfl,
          by simp [ddList, VList.Sorted, h4, g4]⟩
  theorem dd_entries (pool : Pool) : (ks : Scalar) → (vk : Kind) → (m : VMap) → m.Sorted = true →
      defectEntries pool ks vk m = none →
      defectEntries pool ks vk (ddEntries pool vk m) = none ∧
      ddEntries pool vk (ddEntries pool vk m) = ddEntries pool vk m ∧ (ddEntries pool vk m).Sorted = true
    | ks, vk, .nil, _, _ => ⟨rfl, rfl, rfl⟩
    | ks, vk, .cons k x rest, hs, hd => by
      simp only [VMap.Sorted, Bool.and_eq_true] at hs
      simp only [defectEntries] at hd
      split at hd
      · rename_i hcan
        cases hdx : defect pool (Field.plain vk) x with
        | some d => simp [hdx] at hd
        | none =>
          simp only [hdx] at hd
          obtain ⟨h1, h2, _, h4⟩ := dd_field pool (Field.plain vk) x hs.1.1 hdx
          obtain ⟨g1, g2, g4⟩ := dd_entries pool ks vk rest hs.2 hd
          exact ⟨by simp [ddEntries, defectEntries, hcan, h1, g1], by simp [ddEntries, h2, g2],
            by simp [ddEntries, VMap.Sorted, h4, g4, allGt_ddEntries pool vk rest k hs.1.2]⟩
      · cases hd
  theorem dd_map (pool : Pool) : (fields : List Field) → (m : VMap) → m.Sorted = true →
      defectMap pool fields m = none →
      defectMap pool fields (ddMap pool fields m) = none ∧
      ddMap pool fields (ddMap pool fields m) = ddMap pool fields m ∧ (ddMap pool fields m).Sorted = true
    | fields, .nil, _, _ => ⟨rfl, rfl, rfl⟩
    | fields, .cons k x rest, hs, hd => by
      simp only [VMap.Sorted, Bool.and_eq_true] at hs
      simp only [defectMap] at hd
      cases hfk : findField fields k with
      | none => simp [hfk] at hd
      | some f =>
        simp only [hfk] at hd
        cases hdx : defect pool f x with
        | some d => simp [hdx] at hd
        | none =>
          simp only [hdx] at hd
          obtain ⟨h1, h2, h3, h4⟩ := dd_field pool f x hs.1.1 hdx
          obtain ⟨g1, g2, g4⟩ := dd_map pool fields rest hs.2 hd
          cases hdv : isDefaultValue pool f x with
          | true => simp [ddMap, hfk, hdv, g1, g2, g4]
          | false =>
            have h3' : isDefaultValue pool f (dropDefaults pool f x) = false := by rw [h3, hdv]
            exact ⟨by simp [ddMap, hfk, hdv, defectMap, h1, g1],
              by simp [ddMap, hfk, hdv, h3', h2, g2],
              by simp [ddMap, hfk, hdv, VMap.Sorted, h4, g4, allGt_ddMap pool fields rest k hs.1.2]⟩
end

end Proto
