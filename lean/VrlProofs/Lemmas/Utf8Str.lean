import VrlModel.Str.Utf8

/-! UTF-8 round trip: lossy decoding inverts encoding on scalar values, and only yields scalars. -/
namespace Str

theorem decodeGo_cons (st : Option Pend) (b : Nat) (rest : List Nat) :
    decodeGo st (b :: rest) = (step st b).1 ++ decodeGo (step st b).2 rest := by
  cases st <;> rfl

theorem step_none (b : Nat) : step none b = start b := rfl

theorem start_ascii (b : Nat) (h : b < 0x80) : start b = ([b], none) := by simp [start, h]

theorem start_2 (b : Nat) (h : 0xC2 ≤ b ∧ b ≤ 0xDF) : start b = ([], some ⟨1, b - 0xC0, 0x80, 0xBF⟩) := by
  have : ¬ b < 0x80 := by omega
  simp [start, this, h]

theorem start_E0 : start 0xE0 = ([], some ⟨2, 0, 0xA0, 0xBF⟩) := by decide
theorem start_ED : start 0xED = ([], some ⟨2, 13, 0x80, 0x9F⟩) := by decide

theorem start_3 (b : Nat) (h : 0xE1 ≤ b ∧ b ≤ 0xEF) (h' : b ≠ 0xED) :
    start b = ([], some ⟨2, b - 0xE0, 0x80, 0xBF⟩) := by
  have h1 : ¬ b < 0x80 := by omega
  have h2 : ¬ (0xC2 ≤ b ∧ b ≤ 0xDF) := by omega
  have h3 : b ≠ 0xE0 := by omega
  simp [start, h1, h2, h3, h', h]

theorem start_F0 : start 0xF0 = ([], some ⟨3, 0, 0x90, 0xBF⟩) := by decide
theorem start_F4 : start 0xF4 = ([], some ⟨3, 4, 0x80, 0x8F⟩) := by decide

theorem start_4 (b : Nat) (h : 0xF1 ≤ b ∧ b ≤ 0xF3) : start b = ([], some ⟨3, b - 0xF0, 0x80, 0xBF⟩) := by
  have h1 : ¬ b < 0x80 := by omega
  have h2 : ¬ (0xC2 ≤ b ∧ b ≤ 0xDF) := by omega
  have h3 : b ≠ 0xE0 := by omega
  have h4 : b ≠ 0xED := by omega
  have h5 : ¬ (0xE1 ≤ b ∧ b ≤ 0xEF) := by omega
  have h6 : b ≠ 0xF0 := by omega
  simp [start, h1, h2, h3, h4, h5, h6, h]

theorem step_cont (p : Pend) (b : Nat) (h : p.lo ≤ b ∧ b ≤ p.hi) (hn : 2 ≤ p.need) :
    step (some p) b = ([], some ⟨p.need - 1, p.acc * 64 + (b - 0x80), 0x80, 0xBF⟩) := by
  have : ¬ p.need ≤ 1 := by omega
  simp [step, h, this]

theorem step_last (p : Pend) (b : Nat) (h : p.lo ≤ b ∧ b ≤ p.hi) (hn : p.need ≤ 1) :
    step (some p) b = ([p.acc * 64 + (b - 0x80)], none) := by
  simp [step, h, hn]

/-- decoding the encoding of one scalar value gives it back and returns to the ground state. -/
theorem decodeGo_encodeCp (c : Nat) (h : isScalar c = true) (rest : List Nat) :
    decodeGo none (encodeCp c ++ rest) = c :: decodeGo none rest := by
  simp only [isScalar, Bool.or_eq_true, Bool.and_eq_true, decide_eq_true_eq] at h
  unfold encodeCp
  split
  · -- 1 byte
    rename_i h1
    simp [decodeGo_cons, step_none, start_ascii c h1]
  · split
    · -- 2 bytes
      have h2 : 0xC2 ≤ 0xC0 + c / 64 ∧ 0xC0 + c / 64 ≤ 0xDF := by omega
      simp only [List.cons_append, List.nil_append, decodeGo_cons, step_none, start_2 _ h2]
      rw [step_last _ _ (by simp; omega) (by simp)]
      simp
      omega
    · split
      · -- 3 bytes
        by_cases h0 : c / 4096 = 0
        · simp only [List.cons_append, List.nil_append, decodeGo_cons, step_none, h0, Nat.add_zero, start_E0]
          rw [step_cont _ _ (by simp; omega) (by simp)]
          simp only []
          rw [step_last _ _ (by simp; omega) (by simp)]
          simp
          omega
        · by_cases h13 : c / 4096 = 13
          · have : 0xE0 + c / 4096 = 0xED := by omega
            simp only [List.cons_append, List.nil_append, decodeGo_cons, step_none, this, start_ED]
            rw [step_cont _ _ (by simp; omega) (by simp)]
            simp only []
            rw [step_last _ _ (by simp; omega) (by simp)]
            simp
            omega
          · have h3 : 0xE1 ≤ 0xE0 + c / 4096 ∧ 0xE0 + c / 4096 ≤ 0xEF := by omega
            simp only [List.cons_append, List.nil_append, decodeGo_cons, step_none, start_3 _ h3 (by omega)]
            rw [step_cont _ _ (by simp; omega) (by simp)]
            simp only []
            rw [step_last _ _ (by simp; omega) (by simp)]
            simp
            omega
      · -- 4 bytes
        by_cases h0 : c / 262144 = 0
        · simp only [List.cons_append, List.nil_append, decodeGo_cons, step_none, h0, Nat.add_zero, start_F0]
          rw [step_cont _ _ (by simp; omega) (by simp)]
          simp only []
          rw [step_cont _ _ (by simp; omega) (by simp)]
          simp only []
          rw [step_last _ _ (by simp; omega) (by simp)]
          simp
          omega
        · by_cases h4 : c / 262144 = 4
          · have : 0xF0 + c / 262144 = 0xF4 := by omega
            simp only [List.cons_append, List.nil_append, decodeGo_cons, step_none, this, start_F4]
            rw [step_cont _ _ (by simp; omega) (by simp)]
            simp only []
            rw [step_cont _ _ (by simp; omega) (by simp)]
            simp only []
            rw [step_last _ _ (by simp; omega) (by simp)]
            simp
            omega
          · have h3 : 0xF1 ≤ 0xF0 + c / 262144 ∧ 0xF0 + c / 262144 ≤ 0xF3 := by omega
            simp only [List.cons_append, List.nil_append, decodeGo_cons, step_none, start_4 _ h3]
            rw [step_cont _ _ (by simp; omega) (by simp)]
            simp only []
            rw [step_cont _ _ (by simp; omega) (by simp)]
            simp only []
            rw [step_last _ _ (by simp; omega) (by simp)]
            simp
            omega

end Str

namespace Str

theorem decode_encode : (cs : List Nat) → (∀ c ∈ cs, isScalar c = true) → decodeLossy (encode cs) = cs
  | [], _ => rfl
  | c :: cs, h => by
    have hc := h c (by simp)
    have ih := decode_encode cs (fun d hd => h d (by simp [hd]))
    unfold decodeLossy at *
    rw [encode, decodeGo_encodeCp c hc, ih]

/-- invariant of a pending sequence: whatever acceptable bytes follow, the decoded value is a scalar. -/
def PendOK (p : Pend) : Prop :=
  0x80 ≤ p.lo ∧ p.hi ≤ 0xBF ∧
  ((p.need = 1 ∧ 2 ≤ p.acc ∧ p.acc < 0x4400 ∧ ¬ (0x360 ≤ p.acc ∧ p.acc < 0x380)) ∨
   (p.need = 2 ∧ 2 ≤ p.acc * 64 + (p.lo - 0x80) ∧ p.acc * 64 + (p.hi - 0x80) < 0x4400 ∧
      (p.acc * 64 + (p.hi - 0x80) < 0x360 ∨ 0x380 ≤ p.acc * 64 + (p.lo - 0x80))) ∨
   (p.need = 3 ∧ 0x10 ≤ p.acc * 64 + (p.lo - 0x80) ∧ p.acc * 64 + (p.hi - 0x80) < 0x110))

def StOK : Option Pend → Prop
  | none => True
  | some p => PendOK p

theorem isScalar_iff (c : Nat) : isScalar c = true ↔ (c < 0xD800 ∨ (0xDFFF < c ∧ c < 0x110000)) := by
  simp [isScalar]

theorem start_ok (b : Nat) : (∀ c ∈ (start b).1, isScalar c = true) ∧ StOK (start b).2 := by
  by_cases h1 : b < 0x80
  · rw [start_ascii b h1]; simp [StOK, isScalar_iff]; omega
  by_cases h2 : 0xC2 ≤ b ∧ b ≤ 0xDF
  · rw [start_2 b h2]; simp [StOK, PendOK]; omega
  by_cases h3 : b = 0xE0
  · subst h3; rw [start_E0]; simp [StOK, PendOK]
  by_cases h4 : b = 0xED
  · subst h4; rw [start_ED]; simp [StOK, PendOK]
  by_cases h5 : 0xE1 ≤ b ∧ b ≤ 0xEF
  · rw [start_3 b h5 h4]; simp [StOK, PendOK]; omega
  by_cases h6 : b = 0xF0
  · subst h6; rw [start_F0]; simp [StOK, PendOK]
  by_cases h7 : 0xF1 ≤ b ∧ b ≤ 0xF3
  · rw [start_4 b h7]; simp [StOK, PendOK]; omega
  by_cases h8 : b = 0xF4
  · subst h8; rw [start_F4]; simp [StOK, PendOK]
  · have : start b = ([0xFFFD], none) := by simp [start, h1, h2, h3, h4, h5, h6, h7, h8]
    rw [this]; simp [StOK, isScalar]

theorem step_ok (st : Option Pend) (b : Nat) (h : StOK st) :
    (∀ c ∈ (step st b).1, isScalar c = true) ∧ StOK (step st b).2 := by
  cases st with
  | none => exact start_ok b
  | some p =>
    have hp : PendOK p := h
    obtain ⟨hlo, hhi, hcase⟩ := hp
    by_cases hb : p.lo ≤ b ∧ b ≤ p.hi
    · by_cases hn : p.need ≤ 1
      · rw [step_last p b hb hn]
        simp only [List.mem_singleton, forall_eq, StOK, and_true, isScalar_iff]
        omega
      · rw [step_cont p b hb (by omega)]
        simp only [List.not_mem_nil, false_imp_iff, implies_true, StOK, true_and, PendOK]
        omega
    · have : step (some p) b = (0xFFFD :: (start b).1, (start b).2) := by simp [step, hb]
      rw [this]
      have := start_ok b
      refine ⟨?_, this.2⟩
      intro c hc
      simp only [List.mem_cons] at hc
      rcases hc with rfl | hc
      · decide
      · exact this.1 c hc

theorem decodeGo_scalar : (bs : List Nat) → (st : Option Pend) → StOK st →
    ∀ c ∈ decodeGo st bs, isScalar c = true
  | [], none, _ => by simp [decodeGo]
  | [], some _, _ => by simp [decodeGo, isScalar]
  | b :: rest, st, h => by
    rw [decodeGo_cons]
    intro c hc
    have hs := step_ok st b h
    rcases List.mem_append.mp hc with hc | hc
    · exact hs.1 c hc
    · exact decodeGo_scalar rest _ hs.2 c hc

theorem decode_scalar (bs : List Nat) : ∀ c ∈ decodeLossy bs, isScalar c = true :=
  decodeGo_scalar bs none trivial

/-- `from_utf8_lossy` of a `String` is the identity. -/
theorem decode_lossy (bs : List Nat) : decodeLossy (lossy bs) = decodeLossy bs :=
  decode_encode _ (decode_scalar bs)

theorem lossy_idem (bs : List Nat) : lossy (lossy bs) = lossy bs := by
  show encode (decodeLossy (lossy bs)) = lossy bs
  rw [decode_lossy]; rfl

theorem lossy_encode (cs : List Nat) (h : ∀ c ∈ cs, isScalar c = true) : lossy (encode cs) = encode cs := by
  unfold lossy; rw [decode_encode cs h]

theorem encode_append : (a b : List Nat) → encode (a ++ b) = encode a ++ encode b
  | [], _ => rfl
  | c :: a, b => by simp [encode, encode_append a b]

end Str
