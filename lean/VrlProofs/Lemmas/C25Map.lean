/-
  Helper lemmas for C25 (flatten / unflatten), part 2: sorted association lists as finite maps —
  key-sortedness, extensionality through `get`, `collect::<BTreeMap>` (`ofList`) and iteration
  (`toList`).
-/
import VrlModel.C25
import VrlProofs.Lemmas.Value

namespace Conv.Flat

/-- keys strictly increasing at the top level (values are not inspected) -/
def ksorted : VMap → Bool
  | .nil => true
  | .cons k _ m => VMap.allGt k m && ksorted m

theorem get_none_of_allGt : (m : VMap) → (k : Key) → VMap.allGt k m = true → m.get k = none
  | .nil, _, _ => rfl
  | .cons l v m, k, h => by
    simp only [VMap.allGt, Bool.and_eq_true] at h
    have hne : l ≠ k := fun e => Key.lt_ne k l h.1 e.symm
    simp [VMap.get, hne, get_none_of_allGt m k h.2]

theorem ksorted_insert : (m : VMap) → (q : Key) → (x : Value) → ksorted m = true →
    ksorted (m.insert q x) = true
  | .nil, q, x, _ => by simp [VMap.insert, ksorted, VMap.allGt]
  | .cons k v m, q, x, hs => by
    simp only [ksorted, Bool.and_eq_true] at hs
    simp only [VMap.insert]
    split
    · rename_i hlt
      simp only [ksorted, VMap.allGt, Bool.and_eq_true]
      exact ⟨⟨hlt, VMap.allGt_trans m q k hlt hs.1⟩, hs.1, hs.2⟩
    · split
      · simp only [ksorted, Bool.and_eq_true]
        exact ⟨hs.1, hs.2⟩
      · rename_i hnlt hne
        have hkq : Key.lt k q = true := by
          rcases Key.lt_total k q with h | h | h
          · exact h
          · exact absurd h hne
          · simp [h] at hnlt
        simp only [ksorted, Bool.and_eq_true]
        exact ⟨VMap.allGt_insert m k q x hkq hs.1, ksorted_insert m q x hs.2⟩

/-- two key-sorted maps with the same `get` are equal -/
theorem ext_ksorted : (a b : VMap) → ksorted a = true → ksorted b = true →
    (∀ k, a.get k = b.get k) → a = b
  | .nil, .nil, _, _, _ => rfl
  | .nil, .cons l w b, _, _, h => by
    have := h l
    simp [VMap.get] at this
  | .cons k v a, .nil, _, _, h => by
    have := h k
    simp [VMap.get] at this
  | .cons k v a, .cons l w b, ha, hb, h => by
    simp only [ksorted, Bool.and_eq_true] at ha hb
    have hka : a.get k = none := get_none_of_allGt a k ha.1
    have hlb : b.get l = none := get_none_of_allGt b l hb.1
    rcases Key.lt_total k l with hkl | hkl | hkl
    · -- k < l: k is absent from the right map
      have hk := h k
      have hne : l ≠ k := fun e => Key.lt_ne k l hkl e.symm
      have : b.get k = none :=
        get_none_of_allGt b k (VMap.allGt_trans b k l hkl hb.1)
      simp [VMap.get, hne, this] at hk
    · subst hkl
      have hk := h k
      simp only [VMap.get, ↓reduceIte, Option.some.injEq] at hk
      subst hk
      have hrest : ∀ q, a.get q = b.get q := by
        intro q
        by_cases hq : k = q
        · subst hq; rw [hka, hlb]
        · have := h q
          simpa [VMap.get, hq] using this
      rw [ext_ksorted a b ha.2 hb.2 hrest]
    · have hl := h l
      have hne : k ≠ l := fun e => Key.lt_ne l k hkl e.symm
      have : a.get l = none :=
        get_none_of_allGt a l (VMap.allGt_trans a l k hkl ha.1)
      simp [VMap.get, hne, this] at hl

theorem foldl_insert_ksorted (es : Entries) : ∀ (acc : VMap), ksorted acc = true →
    ksorted (es.foldl (fun acc e => acc.insert e.1 e.2) acc) = true := by
  induction es with
  | nil => intro acc h; exact h
  | cons e es ih => intro acc h; exact ih _ (ksorted_insert acc e.1 e.2 h)

theorem ksorted_ofList (es : Entries) : ksorted (ofList es) = true :=
  foldl_insert_ksorted es .nil rfl

theorem get_foldl_notin (es : Entries) : ∀ (acc : VMap) (k : Key), k ∉ es.map (·.1) →
    (es.foldl (fun acc e => acc.insert e.1 e.2) acc).get k = acc.get k := by
  induction es with
  | nil => intro acc k _; rfl
  | cons e es ih =>
    intro acc k hk
    simp only [List.map_cons, List.mem_cons, not_or] at hk
    simp only [List.foldl_cons]
    rw [ih _ k hk.2, VMap.get_insert_other acc e.1 k e.2 (fun h => hk.1 h.symm)]

theorem get_foldl_in (es : Entries) : ∀ (acc : VMap) (k : Key) (v : Value),
    (es.map (·.1)).Nodup → (k, v) ∈ es →
    (es.foldl (fun acc e => acc.insert e.1 e.2) acc).get k = some v := by
  induction es with
  | nil => intro acc k v _ h; simp at h
  | cons e es ih =>
    intro acc k v hnd hin
    simp only [List.map_cons, List.nodup_cons] at hnd
    simp only [List.foldl_cons]
    rcases List.mem_cons.mp hin with h | h
    · subst h
      rw [get_foldl_notin es _ _ hnd.1, VMap.get_insert_same]
    · exact ih _ k v hnd.2 h

theorem get_ofList_in (es : Entries) (k : Key) (v : Value) (hnd : (es.map (·.1)).Nodup)
    (hin : (k, v) ∈ es) : (ofList es).get k = some v := get_foldl_in es .nil k v hnd hin

theorem get_ofList_notin (es : Entries) (k : Key) (hk : k ∉ es.map (·.1)) :
    (ofList es).get k = none := get_foldl_notin es .nil k hk

theorem mem_toList_of_get : (m : VMap) → (k : Key) → (v : Value) → m.get k = some v →
    (k, v) ∈ toList m
  | .nil, _, _, h => by simp [VMap.get] at h
  | .cons l w m, k, v, h => by
    simp only [VMap.get] at h
    simp only [toList, List.mem_cons, Prod.mk.injEq]
    split at h
    · rename_i hl; cases h; exact Or.inl ⟨hl.symm, rfl⟩
    · exact Or.inr (mem_toList_of_get m k v h)

theorem get_of_mem_toList : (m : VMap) → (k : Key) → (v : Value) → ksorted m = true →
    (k, v) ∈ toList m → m.get k = some v
  | .nil, _, _, _, h => by simp [toList] at h
  | .cons l w m, k, v, hs, h => by
    simp only [ksorted, Bool.and_eq_true] at hs
    simp only [toList, List.mem_cons, Prod.mk.injEq] at h
    rcases h with ⟨h1, h2⟩ | h
    · subst h1; subst h2; simp [VMap.get]
    · have ih := get_of_mem_toList m k v hs.2 h
      have hne : l ≠ k := by
        intro e
        subst e
        rw [get_none_of_allGt m l hs.1] at ih
        cases ih
      simp [VMap.get, hne, ih]

theorem keys_toList_nodup : (m : VMap) → ksorted m = true → ((toList m).map (·.1)).Nodup
  | .nil, _ => by simp [toList]
  | .cons l w m, hs => by
    simp only [ksorted, Bool.and_eq_true] at hs
    simp only [toList, List.map_cons, List.nodup_cons]
    refine ⟨?_, keys_toList_nodup m hs.2⟩
    intro hmem
    obtain ⟨e, he, hk⟩ := List.mem_map.mp hmem
    have := get_of_mem_toList m e.1 e.2 hs.2 he
    rw [hk, get_none_of_allGt m l hs.1] at this
    cases this

/-- iterating the map collected from `es` (distinct keys) yields `es` up to order -/
theorem toList_ofList_perm (es : Entries) (hnd : (es.map (·.1)).Nodup) :
    (toList (ofList es)).Perm es := by
  have hs := ksorted_ofList es
  have hnd1 := keys_toList_nodup (ofList es) hs
  have nd_of_keys : ∀ (l : Entries), (l.map (·.1)).Nodup → l.Nodup := by
    intro l h
    exact List.Pairwise.of_map (·.1) (fun a b (hab : a.1 ≠ b.1) (e : a = b) => hab (by rw [e])) h
  apply (List.perm_ext_iff_of_nodup (nd_of_keys _ hnd1) (nd_of_keys _ hnd)).mpr
  intro e
  constructor
  · intro he
    have hg := get_of_mem_toList (ofList es) e.1 e.2 hs he
    by_cases hk : e.1 ∈ es.map (·.1)
    · obtain ⟨e', he', hk'⟩ := List.mem_map.mp hk
      have := get_ofList_in es e'.1 e'.2 hnd he'
      rw [hk', hg] at this
      have hv : e.2 = e'.2 := by injection this
      have : e = e' := Prod.ext hk'.symm hv
      rw [this]; exact he'
    · rw [get_ofList_notin es e.1 hk] at hg
      cases hg
  · intro he
    exact mem_toList_of_get _ _ _ (get_ofList_in es e.1 e.2 hnd he)

end Conv.Flat
