/-
  The parser of `VrlModel.Json` reads back what the printer writes: `parse_pv` and its companions,
  by structural recursion over the mutual `Value`/`VList`/`VMap`, for both printer modes, any
  indentation level, any continuation `rest`, and any float primitives satisfying `FloatTextOK` on
  the floats of the value.
-/
import VrlProofs.Lemmas.Value
import VrlProofs.Lemmas.JsonNum
import VrlProofs.Lemmas.JsonStr

namespace VMap

/-! ### `fromRaw` on sorted keys -/

def app : VMap → VMap → VMap
  | .nil, n => n
  | .cons k v m, n => .cons k v (app m n)

/-- every key of the map is below `k` -/
def allLt (k : List Nat) : VMap → Bool
  | .nil => true
  | .cons l _ m => Key.lt l k && allLt k m

/-- every key of the second map is above every key of `acc` -/
def allBelow (acc : VMap) : VMap → Bool
  | .nil => true
  | .cons k _ m => allLt k acc && allBelow acc m

/-- keys strictly increasing (top level only) -/
def keysSorted : VMap → Bool
  | .nil => true
  | .cons k _ m => allGt k m && keysSorted m

theorem app_nil : (m : VMap) → app m .nil = m
  | .nil => rfl
  | .cons k v m => by simp [app, app_nil m]

theorem app_assoc : (a b c : VMap) → app (app a b) c = app a (app b c)
  | .nil, _, _ => rfl
  | .cons k v a, b, c => by simp [app, app_assoc a b c]

theorem insert_end : (acc : VMap) → (k : List Nat) → (v : Value) → allLt k acc = true →
    acc.insert k v = app acc (.cons k v .nil)
  | .nil, _, _, _ => rfl
  | .cons l w acc, k, v, h => by
    simp only [allLt, Bool.and_eq_true] at h
    have h1 : Key.lt k l = false := Key.lt_asymm l k h.1
    have h2 : l ≠ k := Key.lt_ne l k h.1
    simp [VMap.insert, h1, h2, app, insert_end acc k v h.2]

theorem allLt_app : (k : List Nat) → (a b : VMap) → allLt k (app a b) = (allLt k a && allLt k b)
  | _, .nil, _ => by simp [app, allLt]
  | k, .cons l w a, b => by simp [app, allLt, allLt_app k a b, Bool.and_assoc]

theorem allBelow_step : (acc : VMap) → (k : List Nat) → (v : Value) → (m : VMap) →
    allBelow acc m = true → allGt k m = true → allBelow (app acc (.cons k v .nil)) m = true
  | _, _, _, .nil, _, _ => rfl
  | acc, k, v, .cons l w m, hb, hg => by
    simp only [allBelow, Bool.and_eq_true] at hb
    simp only [allGt, Bool.and_eq_true] at hg
    simp only [allBelow, allLt_app, allLt, Bool.and_eq_true, Bool.and_true]
    exact ⟨⟨hb.1, hg.1⟩, allBelow_step acc k v m hb.2 hg.2⟩

theorem fromRawAux_sorted : (m : VMap) → (acc : VMap) → allBelow acc m = true → keysSorted m = true →
    fromRawAux acc m = app acc m
  | .nil, acc, _, _ => by simp [fromRawAux, app_nil]
  | .cons k v m, acc, hb, hs => by
    simp only [allBelow, Bool.and_eq_true] at hb
    simp only [keysSorted, Bool.and_eq_true] at hs
    rw [fromRawAux, insert_end acc k v hb.1,
      fromRawAux_sorted m _ (allBelow_step acc k v m hb.2 hs.1) hs.2, app_assoc]
    rfl

theorem allBelow_nil : (m : VMap) → allBelow .nil m = true
  | .nil => rfl
  | .cons k v m => by simp [allBelow, allLt, allBelow_nil m]

/-- inserting strictly increasing keys in order rebuilds the same object -/
theorem fromRaw_sorted (m : VMap) (h : keysSorted m = true) : fromRaw m = m := by
  unfold fromRaw
  rw [fromRawAux_sorted m .nil (allBelow_nil m) h]
  rfl

end VMap

namespace Json

theorem allGt_mapFloatsM (g : Nat → Nat) (k : List Nat) : (m : VMap) →
    VMap.allGt k (mapFloatsM g m) = VMap.allGt k m
  | .nil => rfl
  | .cons l x m => by simp [mapFloatsM, VMap.allGt, allGt_mapFloatsM g k m]

theorem keysSorted_mapFloatsM (g : Nat → Nat) : (m : VMap) → jsonReprM m = true →
    VMap.keysSorted (mapFloatsM g m) = true
  | .nil, _ => rfl
  | .cons k x m, h => by
    simp only [jsonReprM, Bool.and_eq_true] at h
    simp [mapFloatsM, VMap.keysSorted, allGt_mapFloatsM, h.1.2, keysSorted_mapFloatsM g m h.2]

/-! ### whitespace -/

theorem skipWs_spaces : (n : Nat) → (X : List Nat) → skipWs (List.replicate n 32 ++ X) = skipWs X
  | 0, _ => rfl
  | n + 1, X => by
    simp only [List.replicate_succ, List.cons_append, skipWs]
    simp [isWs, skipWs_spaces n X]

theorem skipWs_nl (pretty : Bool) (lvl : Nat) (X : List Nat) : skipWs (nl pretty lvl ++ X) = skipWs X := by
  cases pretty
  · rfl
  · simp only [nl, ↓reduceIte, List.cons_append, skipWs]
    simp [isWs, skipWs_spaces]

/-- bytes a JSON value can start with -/
def valueStart (c : Nat) : Bool :=
  c == 110 || c == 116 || c == 102 || c == 45 || c == 34 || c == 91 || c == 123 || isDigit c

theorem valueStart_cases (c : Nat) (h : valueStart c = true) :
    c = 110 ∨ c = 116 ∨ c = 102 ∨ c = 45 ∨ c = 34 ∨ c = 91 ∨ c = 123 ∨ (48 ≤ c ∧ c ≤ 57) := by
  simp only [valueStart, isDigit, Bool.or_eq_true, Bool.and_eq_true, beq_iff_eq, decide_eq_true_eq] at h
  omega

theorem valueStart_notWs (c : Nat) (h : valueStart c = true) : isWs c = false := by
  have := valueStart_cases c h
  simp only [isWs, Bool.or_eq_false_iff, beq_eq_false_iff_ne, ne_eq]
  omega

theorem skipWs_start (c : Nat) (r : List Nat) (h : valueStart c = true) : skipWs (c :: r) = c :: r := by
  simp [skipWs, valueStart_notWs c h]

theorem render_head (t : NumTok) (hw : t.wf = true) :
    ∃ c r, t.render = c :: r ∧ (c = 45 ∨ isDigit c = true) := by
  obtain ⟨neg, int, frac, exp⟩ := t
  simp only [NumTok.wf, Bool.and_eq_true] at hw
  obtain ⟨c, r, hint, hc⟩ := wfInt_head int hw.1.1
  subst hint
  cases neg
  · exact ⟨c, _, by simp [NumTok.render, signText]; rfl, Or.inr hc⟩
  · exact ⟨45, _, by simp [NumTok.render, signText]; rfl, Or.inl rfl⟩

theorem valueStart_num (c : Nat) (h : c = 45 ∨ isDigit c = true) : valueStart c = true := by
  rcases h with h | h
  · subst h; decide
  · simp [valueStart, h]

/-- the printed text of a representable value is not empty and starts like a JSON value -/
theorem pv_head (P : Prims) (pretty : Bool) (lvl : Nat) (v : Value) (hr : jsonRepr v = true)
    (hf : AllFloats (FloatTextOK P) v) : ∃ c r, pv P pretty lvl v = c :: r ∧ valueStart c = true := by
  cases v with
  | null => exact ⟨110, _, by rw [pv], by decide⟩
  | bool b => cases b
              · exact ⟨102, _, by rw [pv], by decide⟩
              · exact ⟨116, _, by rw [pv], by decide⟩
  | int i =>
    obtain ⟨c, r, h, hc⟩ := render_head (intTok i) (intTok_wf i)
    exact ⟨c, r, by rw [pv]; exact h, valueStart_num c hc⟩
  | float b =>
    simp only [jsonRepr, Bool.and_eq_true] at hr
    simp only [AllFloats] at hf
    obtain ⟨t, hw, _, hshow, _⟩ := hf
    obtain ⟨c, r, h, hc⟩ := render_head t hw
    exact ⟨c, r, by rw [pv, showFloat, if_pos hr.2, hshow]; exact h, valueStart_num c hc⟩
  | bytes b => exact ⟨34, _, by rw [pv, quote], by decide⟩
  | ts t => simp [jsonRepr] at hr
  | regex r => simp [jsonRepr] at hr
  | arr xs => exact ⟨91, _, by rw [pv], by decide⟩
  | obj m => exact ⟨123, _, by rw [pv], by decide⟩

/-! ### dispatch lemmas: one step of the parser on a known first byte -/

section dispatch
variable (pf : List Nat → Option Nat) (jv : Bool)

theorem parseValue_null (f d : Nat) (rest : List Nat) :
    parseValue pf jv (f + 1) d (110 :: 117 :: 108 :: 108 :: rest) = some (Value.null, rest) := by
  rw [parseValue]; simp [skipWs, isWs, stripPrefix]

theorem parseValue_true (f d : Nat) (rest : List Nat) :
    parseValue pf jv (f + 1) d (116 :: 114 :: 117 :: 101 :: rest) = some (Value.bool true, rest) := by
  rw [parseValue]; simp [skipWs, isWs, stripPrefix]

theorem parseValue_false (f d : Nat) (rest : List Nat) :
    parseValue pf jv (f + 1) d (102 :: 97 :: 108 :: 115 :: 101 :: rest) = some (Value.bool false, rest) := by
  rw [parseValue]; simp [skipWs, isWs, stripPrefix]

theorem parseValue_num (f d : Nat) (s r' : List Nat) (t : NumTok) (n : Num)
    (hc : ∃ c r, s = c :: r ∧ (c = 45 ∨ isDigit c = true))
    (hl : lexNum s = some (t, r')) (hn : numOfTok pf t = some n) :
    parseValue pf jv (f + 1) d s = some (numToValue jv n, r') := by
  obtain ⟨c, r, rfl, hc⟩ := hc
  have hws := valueStart_notWs c (valueStart_num c hc)
  have hne : c ≠ 110 ∧ c ≠ 116 ∧ c ≠ 102 := by
    rcases hc with h | h
    · subst h; decide
    · simp only [isDigit, Bool.and_eq_true, decide_eq_true_eq] at h; omega
  rw [parseValue]
  simp only [skipWs, hws, Bool.false_eq_true, ↓reduceIte, hne.1, hne.2.1, hne.2.2, hc, hl, hn, Option.map_some]

theorem parseValue_str (f d : Nat) (r r' b : List Nat) (hp : parseStr r = some (b, r')) :
    parseValue pf jv (f + 1) d (34 :: r) = some (Value.bytes b, r') := by
  rw [parseValue]; simp [skipWs, isWs, isDigit, hp]

theorem parseValue_arr (f d : Nat) (r r' : List Nat) (xs : VList) (hd : ¬ d ≤ 1)
    (he : parseElems pf jv f (d - 1) r true = some (xs, r')) :
    parseValue pf jv (f + 1) d (91 :: r) = some (Value.arr xs, r') := by
  rw [parseValue]; simp [skipWs, isWs, isDigit, hd, he]

theorem parseValue_obj (f d : Nat) (r r' : List Nat) (m : VMap) (hd : ¬ d ≤ 1)
    (he : parseMembers pf jv f (d - 1) r true = some (m, r')) :
    parseValue pf jv (f + 1) d (123 :: r) = some (Value.obj (VMap.fromRaw m), r') := by
  rw [parseValue]; simp [skipWs, isWs, isDigit, hd, he]

theorem parseValue_space : (f d : Nat) → (X : List Nat) →
    parseValue pf jv f d (32 :: X) = parseValue pf jv f d X
  | 0, _, _ => by rw [parseValue, parseValue]
  | f + 1, d, X => by rw [parseValue, parseValue]; simp [skipWs, isWs]

theorem parseElems_close (f d : Nat) (s rest : List Nat) (first : Bool) (hs : skipWs s = 93 :: rest) :
    parseElems pf jv (f + 1) d s first = some (VList.nil, rest) := by
  rw [parseElems, hs]; simp

theorem parseElems_first (f d : Nat) (s s0 s1 s2 : List Nat) (v : Value) (vs : VList)
    (hs : skipWs s = s0) (hc : ∃ c r, s0 = c :: r ∧ valueStart c = true)
    (hv : parseValue pf jv f d s0 = some (v, s1)) (hvs : parseElems pf jv f d s1 false = some (vs, s2)) :
    parseElems pf jv (f + 1) d s true = some (VList.cons v vs, s2) := by
  obtain ⟨c, r, rfl, hc⟩ := hc
  have hne : c ≠ 93 := by have := valueStart_cases c hc; omega
  rw [parseElems, hs]; simp [hne, elemStart, hv, hvs]

theorem parseElems_next (f d : Nat) (s r0 s0 s1 s2 : List Nat) (v : Value) (vs : VList)
    (hs : skipWs s = 44 :: r0) (hs2 : skipWs r0 = s0) (hc : ∃ c r, s0 = c :: r ∧ valueStart c = true)
    (hv : parseValue pf jv f d s0 = some (v, s1)) (hvs : parseElems pf jv f d s1 false = some (vs, s2)) :
    parseElems pf jv (f + 1) d s false = some (VList.cons v vs, s2) := by
  obtain ⟨c, r, rfl, hc⟩ := hc
  have hne : c ≠ 93 := by have := valueStart_cases c hc; omega
  rw [parseElems, hs]; simp [hne, elemStart, hs2, hv, hvs]

theorem parseMembers_close (f d : Nat) (s rest : List Nat) (first : Bool) (hs : skipWs s = 125 :: rest) :
    parseMembers pf jv (f + 1) d s first = some (VMap.nil, rest) := by
  rw [parseMembers, hs]; simp

/-- a member whose key text is `escape k ++ '"'` and whose value starts after `:` -/
theorem parseMembers_member (f d : Nat) (s s0 T s3 s4 : List Nat) (k : List Nat) (first : Bool)
    (v : Value) (m : VMap) (hk : validUtf8 k = true)
    (hstart : (first = true ∧ skipWs s = 34 :: s0) ∨
              (first = false ∧ ∃ r0, skipWs s = 44 :: r0 ∧ skipWs r0 = 34 :: s0))
    (hs0 : s0 = escape k ++ 34 :: 58 :: T)
    (hv : parseValue pf jv f d T = some (v, s3)) (hm : parseMembers pf jv f d s3 false = some (m, s4)) :
    parseMembers pf jv (f + 1) d s first = some (VMap.cons k v m, s4) := by
  have hp : parseStr s0 = some (k, 58 :: T) := by rw [hs0]; exact parseStr_escape k _ hk
  rcases hstart with ⟨hf, hs⟩ | ⟨hf, r0, hs, hs2⟩
  · subst hf
    rw [parseMembers, hs]; simp [keyStart, hp, skipWs, isWs, hv, hm]
  · subst hf
    rw [parseMembers, hs]; simp [keyStart, hs2, hp, skipWs, isWs, hv, hm]

end dispatch

theorem colon_eq (pretty : Bool) : colon pretty = 58 :: (if pretty then [32] else []) := by
  cases pretty <;> rfl

theorem parseValue_colonTail (pf : List Nat → Option Nat) (jv : Bool) (pretty : Bool) (f d : Nat) (X : List Nat) :
    parseValue pf jv f d ((if pretty then [32] else []) ++ X) = parseValue pf jv f d X := by
  cases pretty
  · rfl
  · simp [parseValue_space]

/-- what follows an element / a member in the printer's output -/
theorem sepStart_pl (P : Prims) (pretty : Bool) (lvl : Nat) (xs : VList) (rest : List Nat) :
    sepStart (pl P pretty lvl xs ++ rest) = true := by
  cases xs with
  | nil => rw [pl]; cases pretty <;> simp [nl, sepStart]
  | cons x xs => rw [pl]; simp [sepStart]

theorem sepStart_pm (P : Prims) (pretty : Bool) (lvl : Nat) (m : VMap) (rest : List Nat) :
    sepStart (pm P pretty lvl m ++ rest) = true := by
  cases m with
  | nil => rw [pm]; cases pretty <;> simp [nl, sepStart]
  | cons k x m => rw [pm]; simp [sepStart]

theorem readBack_of (P : Prims) (b : Nat) (t : NumTok) (y : Nat) (hshow : P.showF b = t.render)
    (hy : P.parseF t.render = some y) : readBack P b = y := by
  simp [readBack, hshow, hy]

/-! ### the round trip -/

mutual
  theorem parse_pv (P : Prims) (jv : Bool) (pretty : Bool) : (v : Value) → (lvl f d : Nat) → (rest : List Nat) →
      jsonRepr v = true → AllFloats (FloatTextOK P) v → depth v < d → sepStart rest = true →
      2 * (pv P pretty lvl v ++ rest).length + 1 ≤ f →
      parseValue P.parseF jv f d (pv P pretty lvl v ++ rest) = some (mapFloats (readBack P) v, rest)
    | .null, lvl, f, d, rest, _, _, _, _, hfuel => by
      obtain ⟨f', rfl⟩ : ∃ f', f = f' + 1 := ⟨f - 1, by omega⟩
      rw [pv, mapFloats]; exact parseValue_null _ _ _ _ _
    | .bool true, lvl, f, d, rest, _, _, _, _, hfuel => by
      obtain ⟨f', rfl⟩ : ∃ f', f = f' + 1 := ⟨f - 1, by omega⟩
      rw [pv, mapFloats]; exact parseValue_true _ _ _ _ _
    | .bool false, lvl, f, d, rest, _, _, _, _, hfuel => by
      obtain ⟨f', rfl⟩ : ∃ f', f = f' + 1 := ⟨f - 1, by omega⟩
      rw [pv, mapFloats]; exact parseValue_false _ _ _ _ _
    | .int i, lvl, f, d, rest, hr, _, _, hsep, hfuel => by
      obtain ⟨f', rfl⟩ : ∃ f', f = f' + 1 := ⟨f - 1, by omega⟩
      simp only [jsonRepr] at hr
      obtain ⟨c, r, hcr, hc⟩ := render_head (intTok i) (intTok_wf i)
      rw [pv, mapFloats, showInt]
      exact parseValue_num _ _ _ _ _ _ _ (Num.int i) ⟨c, r ++ rest, by rw [hcr]; rfl, hc⟩
        (lexNum_render (intTok i) rest (intTok_wf i) hsep) (numOfTok_intTok _ i hr)
    | .float b, lvl, f, d, rest, hr, hf, _, hsep, hfuel => by
      obtain ⟨f', rfl⟩ : ∃ f', f = f' + 1 := ⟨f - 1, by omega⟩
      simp only [jsonRepr, Bool.and_eq_true] at hr
      simp only [AllFloats] at hf
      obtain ⟨t, hw, hfl, hshow, hsome⟩ := hf
      obtain ⟨y, hy⟩ := Option.isSome_iff_exists.mp hsome
      obtain ⟨c, r, hcr, hc⟩ := render_head t hw
      rw [pv, mapFloats, showFloat, if_pos hr.2, hshow, readBack_of P b t y hshow hy]
      exact parseValue_num _ _ _ _ _ _ _ (Num.flt y) ⟨c, r ++ rest, by rw [hcr]; rfl, hc⟩
        (lexNum_render t rest hw hsep) (by simp [numOfTok, hfl, hy])
    | .bytes b, lvl, f, d, rest, hr, _, _, _, hfuel => by
      obtain ⟨f', rfl⟩ : ∃ f', f = f' + 1 := ⟨f - 1, by omega⟩
      simp only [jsonRepr] at hr
      rw [pv, mapFloats, utf8Lossy_valid b hr, quote]
      simp only [List.cons_append, List.append_assoc, List.nil_append]
      exact parseValue_str _ _ _ _ _ _ _ (parseStr_escape b rest hr)
    | .ts _, _, _, _, _, hr, _, _, _, _ => by simp [jsonRepr] at hr
    | .regex _, _, _, _, _, hr, _, _, _, _ => by simp [jsonRepr] at hr
    | .arr xs, lvl, f, d, rest, hr, hf, hd, _, hfuel => by
      obtain ⟨f', rfl⟩ : ∃ f', f = f' + 1 := ⟨f - 1, by omega⟩
      simp only [jsonRepr] at hr
      simp only [AllFloats] at hf
      simp only [depth] at hd
      rw [pv] at hfuel ⊢
      rw [List.cons_append] at hfuel ⊢
      simp only [List.length_cons] at hfuel
      rw [mapFloats]
      exact parseValue_arr _ _ _ _ _ _ _ (by omega)
        (parse_pl0 P jv pretty xs lvl f' (d - 1) rest hr hf (by omega) (by omega))
    | .obj m, lvl, f, d, rest, hr, hf, hd, _, hfuel => by
      obtain ⟨f', rfl⟩ : ∃ f', f = f' + 1 := ⟨f - 1, by omega⟩
      simp only [jsonRepr] at hr
      simp only [AllFloats] at hf
      simp only [depth] at hd
      rw [pv] at hfuel ⊢
      rw [List.cons_append] at hfuel ⊢
      simp only [List.length_cons] at hfuel
      rw [mapFloats, ← VMap.fromRaw_sorted _ (keysSorted_mapFloatsM (readBack P) m hr)]
      exact parseValue_obj _ _ _ _ _ _ _ (by omega)
        (parse_pm0 P jv pretty m lvl f' (d - 1) rest hr hf (by omega) (by omega))
  theorem parse_pl0 (P : Prims) (jv : Bool) (pretty : Bool) : (xs : VList) → (lvl f d : Nat) → (rest : List Nat) →
      jsonReprL xs = true → AllFloatsL (FloatTextOK P) xs → depthL xs < d →
      2 * (pl0 P pretty lvl xs ++ rest).length + 2 ≤ f →
      parseElems P.parseF jv f d (pl0 P pretty lvl xs ++ rest) true = some (mapFloatsL (readBack P) xs, rest)
    | .nil, lvl, f, d, rest, _, _, _, hfuel => by
      obtain ⟨f', rfl⟩ : ∃ f', f = f' + 1 := ⟨f - 1, by omega⟩
      rw [pl0, mapFloatsL]
      exact parseElems_close _ _ _ _ _ rest _ (by simp [skipWs, isWs])
    | .cons x xs, lvl, f, d, rest, hr, hf, hd, hfuel => by
      obtain ⟨f', rfl⟩ : ∃ f', f = f' + 1 := ⟨f - 1, by omega⟩
      simp only [jsonReprL, Bool.and_eq_true] at hr
      simp only [AllFloatsL] at hf
      simp only [depthL] at hd
      obtain ⟨c, r, hcr, hc⟩ := pv_head P pretty (lvl + 1) x hr.1 hf.1
      rw [pl0] at hfuel ⊢
      simp only [List.append_assoc, List.length_append] at hfuel ⊢
      have hlen : 1 ≤ (pv P pretty (lvl + 1) x).length := by rw [hcr]; simp
      have hstart : ∃ c' r', pv P pretty (lvl + 1) x ++ (pl P pretty lvl xs ++ rest) = c' :: r' ∧
          valueStart c' = true := ⟨c, r ++ (pl P pretty lvl xs ++ rest), by rw [hcr]; rfl, hc⟩
      have hs : skipWs (nl pretty (lvl + 1) ++ (pv P pretty (lvl + 1) x ++ (pl P pretty lvl xs ++ rest)))
          = pv P pretty (lvl + 1) x ++ (pl P pretty lvl xs ++ rest) := by
        rw [skipWs_nl, hcr, List.cons_append, skipWs_start c _ hc]
      rw [mapFloatsL]
      exact parseElems_first _ _ _ _ _ _ _ _ _ _ hs hstart
        (parse_pv P jv pretty x (lvl + 1) f' d _ hr.1 hf.1 (by omega) (sepStart_pl P pretty lvl xs rest)
          (by simp only [List.length_append]; omega))
        (parse_pl P jv pretty xs lvl f' d rest hr.2 hf.2 (by omega)
          (by simp only [List.length_append]; omega))
  theorem parse_pl (P : Prims) (jv : Bool) (pretty : Bool) : (xs : VList) → (lvl f d : Nat) → (rest : List Nat) →
      jsonReprL xs = true → AllFloatsL (FloatTextOK P) xs → depthL xs < d →
      2 * (pl P pretty lvl xs ++ rest).length + 2 ≤ f →
      parseElems P.parseF jv f d (pl P pretty lvl xs ++ rest) false = some (mapFloatsL (readBack P) xs, rest)
    | .nil, lvl, f, d, rest, _, _, _, hfuel => by
      obtain ⟨f', rfl⟩ : ∃ f', f = f' + 1 := ⟨f - 1, by omega⟩
      rw [pl, mapFloatsL]
      exact parseElems_close _ _ _ _ _ rest _ (by
        rw [List.append_assoc, skipWs_nl]; simp [skipWs, isWs])
    | .cons x xs, lvl, f, d, rest, hr, hf, hd, hfuel => by
      obtain ⟨f', rfl⟩ : ∃ f', f = f' + 1 := ⟨f - 1, by omega⟩
      simp only [jsonReprL, Bool.and_eq_true] at hr
      simp only [AllFloatsL] at hf
      simp only [depthL] at hd
      obtain ⟨c, r, hcr, hc⟩ := pv_head P pretty (lvl + 1) x hr.1 hf.1
      rw [pl] at hfuel ⊢
      simp only [List.cons_append, List.append_assoc, List.length_append, List.length_cons] at hfuel ⊢
      have hlen : 1 ≤ (pv P pretty (lvl + 1) x).length := by rw [hcr]; simp
      have hstart : ∃ c' r', pv P pretty (lvl + 1) x ++ (pl P pretty lvl xs ++ rest) = c' :: r' ∧
          valueStart c' = true := ⟨c, r ++ (pl P pretty lvl xs ++ rest), by rw [hcr]; rfl, hc⟩
      have hs : skipWs (44 :: (nl pretty (lvl + 1) ++ (pv P pretty (lvl + 1) x ++ (pl P pretty lvl xs ++ rest))))
          = 44 :: (nl pretty (lvl + 1) ++ (pv P pretty (lvl + 1) x ++ (pl P pretty lvl xs ++ rest))) := by
        simp [skipWs, isWs]
      have hs2 : skipWs (nl pretty (lvl + 1) ++ (pv P pretty (lvl + 1) x ++ (pl P pretty lvl xs ++ rest)))
          = pv P pretty (lvl + 1) x ++ (pl P pretty lvl xs ++ rest) := by
        rw [skipWs_nl, hcr, List.cons_append, skipWs_start c _ hc]
      rw [mapFloatsL]
      exact parseElems_next _ _ _ _ _ _ _ _ _ _ _ hs hs2 hstart
        (parse_pv P jv pretty x (lvl + 1) f' d _ hr.1 hf.1 (by omega) (sepStart_pl P pretty lvl xs rest)
          (by simp only [List.length_append]; omega))
        (parse_pl P jv pretty xs lvl f' d rest hr.2 hf.2 (by omega)
          (by simp only [List.length_append]; omega))
  theorem parse_pm0 (P : Prims) (jv : Bool) (pretty : Bool) : (m : VMap) → (lvl f d : Nat) → (rest : List Nat) →
      jsonReprM m = true → AllFloatsM (FloatTextOK P) m → depthM m < d →
      2 * (pm0 P pretty lvl m ++ rest).length + 2 ≤ f →
      parseMembers P.parseF jv f d (pm0 P pretty lvl m ++ rest) true = some (mapFloatsM (readBack P) m, rest)
    | .nil, lvl, f, d, rest, _, _, _, hfuel => by
      obtain ⟨f', rfl⟩ : ∃ f', f = f' + 1 := ⟨f - 1, by omega⟩
      rw [pm0, mapFloatsM]
      exact parseMembers_close _ _ _ _ _ rest _ (by simp [skipWs, isWs])
    | .cons k x m, lvl, f, d, rest, hr, hf, hd, hfuel => by
      obtain ⟨f', rfl⟩ : ∃ f', f = f' + 1 := ⟨f - 1, by omega⟩
      simp only [jsonReprM, Bool.and_eq_true] at hr
      simp only [AllFloatsM] at hf
      simp only [depthM] at hd
      obtain ⟨c, r, hcr, hc⟩ := pv_head P pretty (lvl + 1) x hr.1.1.2 hf.1
      have hlen : 1 ≤ (pv P pretty (lvl + 1) x).length := by rw [hcr]; simp
      rw [pm0, colon_eq, quote] at hfuel ⊢
      simp only [List.cons_append, List.append_assoc, List.nil_append, List.length_append,
        List.length_cons] at hfuel ⊢
      rw [mapFloatsM]
      exact parseMembers_member P.parseF jv f' d _ _
        ((if pretty then [32] else []) ++ (pv P pretty (lvl + 1) x ++ (pm P pretty lvl m ++ rest))) _ _ k true
        _ _ hr.1.1.1 (Or.inl ⟨rfl, by rw [skipWs_nl]; simp [skipWs, isWs]⟩) rfl
        (by
          rw [parseValue_colonTail]
          exact parse_pv P jv pretty x (lvl + 1) f' d _ hr.1.1.2 hf.1 (by omega) (sepStart_pm P pretty lvl m rest)
            (by simp only [List.length_append]; omega))
        (parse_pm P jv pretty m lvl f' d rest hr.2 hf.2 (by omega)
          (by simp only [List.length_append]; omega))
  theorem parse_pm (P : Prims) (jv : Bool) (pretty : Bool) : (m : VMap) → (lvl f d : Nat) → (rest : List Nat) →
      jsonReprM m = true → AllFloatsM (FloatTextOK P) m → depthM m < d →
      2 * (pm P pretty lvl m ++ rest).length + 2 ≤ f →
      parseMembers P.parseF jv f d (pm P pretty lvl m ++ rest) false = some (mapFloatsM (readBack P) m, rest)
    | .nil, lvl, f, d, rest, _, _, _, hfuel => by
      obtain ⟨f', rfl⟩ : ∃ f', f = f' + 1 := ⟨f - 1, by omega⟩
      rw [pm, mapFloatsM]
      exact parseMembers_close _ _ _ _ _ rest _ (by
        rw [List.append_assoc, skipWs_nl]; simp [skipWs, isWs])
    | .cons k x m, lvl, f, d, rest, hr, hf, hd, hfuel => by
      obtain ⟨f', rfl⟩ : ∃ f', f = f' + 1 := ⟨f - 1, by omega⟩
      simp only [jsonReprM, Bool.and_eq_true] at hr
      simp only [AllFloatsM] at hf
      simp only [depthM] at hd
      obtain ⟨c, r, hcr, hc⟩ := pv_head P pretty (lvl + 1) x hr.1.1.2 hf.1
      have hlen : 1 ≤ (pv P pretty (lvl + 1) x).length := by rw [hcr]; simp
      rw [pm, colon_eq, quote] at hfuel ⊢
      simp only [List.cons_append, List.append_assoc, List.nil_append, List.length_append,
        List.length_cons] at hfuel ⊢
      rw [mapFloatsM]
      let T := (if pretty then [32] else []) ++ (pv P pretty (lvl + 1) x ++ (pm P pretty lvl m ++ rest))
      have hs : skipWs (44 :: (nl pretty (lvl + 1) ++ 34 :: (escape k ++ 34 :: 58 :: T)))
          = 44 :: (nl pretty (lvl + 1) ++ 34 :: (escape k ++ 34 :: 58 :: T)) := by simp [skipWs, isWs]
      have hs2 : skipWs (nl pretty (lvl + 1) ++ 34 :: (escape k ++ 34 :: 58 :: T))
          = 34 :: (escape k ++ 34 :: 58 :: T) := by rw [skipWs_nl]; simp [skipWs, isWs]
      exact parseMembers_member P.parseF jv f' d _ (escape k ++ 34 :: 58 :: T) T _ _ k false
        _ _ hr.1.1.1 (Or.inr ⟨rfl, _, hs, hs2⟩) rfl
        (by
          rw [parseValue_colonTail]
          exact parse_pv P jv pretty x (lvl + 1) f' d _ hr.1.1.2 hf.1 (by omega) (sepStart_pm P pretty lvl m rest)
            (by simp only [List.length_append]; omega))
        (parse_pm P jv pretty m lvl f' d rest hr.2 hf.2 (by omega)
          (by simp only [List.length_append]; omega))
end

end Json
