import VrlProofs.Lemmas.KindMem
import VrlModel.C19

/-! Soundness of `Kind::at_path` / `Kind::get` for field segments and non-negative indices. -/

namespace Kind

theorem isExact_false_of_obj (K : Kind) (h1 : K.hasObj = true)
    (h2 : K.prim.isEmpty = false ∨ K.hasArr = true) : K.isExact = false := by
  cases K with
  | mk p a o =>
    cases o with
    | none => simp [hasObj] at h1
    | some c =>
      simp only [isExact, isBytes, isInteger, isFloat, isBoolean, isTimestamp, isRegex, isNull,
        isUndefined, isArray, isObject, isNever, onlyPrim, hasObj, hasArr, prim] at *
      rcases h2 with h2 | h2
      · cases a <;> simp [h2]
      · cases a <;> simp at h2 ⊢

theorem isExact_false_of_arr (K : Kind) (h1 : K.hasArr = true)
    (h2 : K.prim.isEmpty = false ∨ K.hasObj = true) : K.isExact = false := by
  cases K with
  | mk p a o =>
    cases a with
    | none => simp [hasArr] at h1
    | some c =>
      simp only [isExact, isBytes, isInteger, isFloat, isBoolean, isTimestamp, isRegex, isNull,
        isUndefined, isArray, isObject, isNever, onlyPrim, hasObj, hasArr, prim] at *
      rcases h2 with h2 | h2
      · cases o <;> simp [h2]
      · cases o <;> simp at h2 ⊢

theorem prim_isEmpty_false_of_undefined (p : Prim) (h : p.undefined = true) : p.isEmpty = false := by
  simp [Prim.isEmpty, h]

theorem hasObj_of_object {K : Kind} {c : Col} (h : K.object = some c) : K.hasObj = true := by
  cases K with
  | mk p a o => cases o <;> simp [object] at h ⊢ <;> rfl

theorem hasArr_of_array {K : Kind} {c : Col} (h : K.array = some c) : K.hasArr = true := by
  cases K with
  | mk p a o => cases a <;> simp [array] at h ⊢ <;> rfl

theorem object_none_of_hasObj_false {K : Kind} (h : K.hasObj = false) : K.object = none := by
  cases K with
  | mk p a o => cases o <;> simp [hasObj] at h ⊢ <;> rfl

theorem undefined_getSeg_undefined : (s : Seg) → Kind.undefined.getSeg s = Kind.undefined
  | .field _ => rfl
  | .index _ => rfl

theorem atPath_undefined : (p : Path) → Kind.undefined.atPath p = Kind.undefined
  | [] => rfl
  | s :: rest => by
    simp only [atPath, undefined_getSeg_undefined]
    rw [show Kind.undefined.isNever = false from rfl]
    simpa using atPath_undefined rest

theorem orUndefined_prim_undefined (k : Kind) : k.orUndefined.prim.undefined = true := by
  cases k; rfl

end Kind

namespace Spec

theorem not_never_of_mem : (v : Value) → (K : Kind) → mem v K = true → K.isNever = false
  | v, .mk p a o, h => by
    cases a <;> cases o <;> simp only [Kind.isNever] <;> try rfl
    cases v <;> simp [mem, Kind.prim, Kind.hasArr, Kind.hasObj] at h <;> simp [Prim.isEmpty, h]

theorem prim_nonempty_of_mem_scalar (v : Value) (K : Kind) (h : mem v K = true)
    (ha : ∀ xs, v ≠ .arr xs) (ho : ∀ m, v ≠ .obj m) : K.prim.isEmpty = false := by
  cases v with
  | arr xs => exact absurd rfl (ha xs)
  | obj m => exact absurd rfl (ho m)
  | _ => simp [mem] at h; simp [Prim.isEmpty, h]

/-- sortedness of an optional value. -/
def optSorted : Option Value → Bool
  | some v => v.Sorted
  | none => true

/-- what a segment reads from an optional value (one step of `crud::get`). -/
def child : Option Value → Seg → Option Value
  | some (.obj m), .field f => m.get f
  | some (.arr a), .index i => a.getIdx i
  | _, _ => none

theorem getOpt_none : (p : Path) → Value.getOpt none p = none
  | [] => rfl
  | _ :: _ => by simp [Value.getOpt]

theorem getOpt_cons (c : Option Value) (s : Seg) (rest : Path) :
    Value.getOpt c (s :: rest) = Value.getOpt (child c s) rest := by
  cases c with
  | none => simp [child, getOpt_none]
  | some v =>
    cases v <;> cases s <;> simp [child, getOpt_none, Value.getOpt]

theorem child_sorted (c : Option Value) (s : Seg) (h : optSorted c = true) :
    optSorted (child c s) = true := by
  cases c with
  | none => rfl
  | some v =>
    cases v <;> cases s <;> try rfl
    case arr.index a i =>
      simp only [child, optSorted, Value.Sorted] at *
      cases hg : a.getIdx i with
      | none => rfl
      | some x => exact VList.sorted_getIdx a i x h hg
    case obj.field m f =>
      simp only [child, optSorted, Value.Sorted] at *
      cases hg : m.get f with
      | none => rfl
      | some x => exact VMap.sorted_get m f x h hg

theorem memOpt_not_never (c : Option Value) (K : Kind) (h : memOpt c K = true) : K.isNever = false := by
  cases c with
  | some v => exact not_never_of_mem v K h
  | none =>
    cases K with
    | mk p a o =>
      cases a <;> cases o <;> simp only [Kind.isNever] <;> try rfl
      simp only [memOpt, Kind.prim] at h
      exact Kind.prim_isEmpty_false_of_undefined p h

theorem getN_none_length : (a : VList) → (n : Nat) → a.getN n = none → a.length ≤ n
  | .nil, _, _ => by simp [VList.length]
  | .cons _ _, 0, h => by simp [VList.getN] at h
  | .cons _ xs, n + 1, h => by
    simp only [VList.getN] at h
    have := getN_none_length xs n h
    simp only [VList.length]; omega

/-- field lookup of a kind is sound. -/
theorem getField_sound (c : Option Value) (K : Kind) (f : Key) (hs : optSorted c = true)
    (h : memOpt c K = true) : memOpt (child c (.field f)) (K.getField f) = true := by
  unfold Kind.getField
  cases hobj : K.object with
  | none =>
    -- the kind has no object state: the value is not an object, the read is absent
    cases c with
    | none => simp [child, memOpt, Kind.undefined, Kind.prim]
    | some v =>
      cases v <;> try (simp [child, memOpt, Kind.undefined, Kind.prim])
      case obj m =>
        exfalso
        cases K with
        | mk p a o => cases o <;> simp [Kind.object] at hobj; simp [memOpt, mem, Kind.hasObj] at h
  | some col =>
    have hO := Kind.hasObj_of_object hobj
    simp only
    cases c with
    | none =>
      -- absent location: `K` admits undefined and has an object state, so it is not exact
      simp only [memOpt] at h
      have hne := Kind.isExact_false_of_obj K hO (Or.inl (Kind.prim_isEmpty_false_of_undefined _ h))
      simp [child, memOpt, hne, Kind.orUndefined_prim_undefined]
    | some v =>
      simp only [memOpt] at h
      by_cases hv : ∃ m, v = .obj m
      · obtain ⟨m, rfl⟩ := hv
        simp only [optSorted, Value.Sorted] at hs
        obtain ⟨col', hc, hmem, habs⟩ := (mem_obj_iff m K (VMap.sortedKeys_of_sorted m hs)).mp h
        rw [hobj] at hc; cases hc
        simp only [child]
        cases hg : m.get f with
        | some x =>
          have hx := hmem f x hg
          simp only [memOpt]
          cases hk : col.known.get f with
          | some k =>
            simp only [slotKind, hk] at hx
            split <;> simp [mem_orUndefined, hx]
          | none =>
            simp only [slotKind, hk] at hx
            have : mem x col.unknownKind = true := by
              rw [Col.unknownKind, mem_unknown_toKind]; exact hx
            split <;> simp [mem_orUndefined, this]
        | none =>
          simp only [memOpt]
          cases hk : col.known.get f with
          | some k =>
            have := habs f k hk hg
            split <;> simp [Kind.orUndefined_prim_undefined, this]
          | none =>
            have := toKind_undefined col.unknown
            split <;> simp [Kind.orUndefined_prim_undefined, Col.unknownKind, this]
      · -- a non-object member of a kind with an object state: the kind is not exact
        have hne : K.isExact = false := by
          apply Kind.isExact_false_of_obj K hO
          cases v with
          | obj m => exact absurd ⟨m, rfl⟩ hv
          | arr xs =>
            right
            cases K with
            | mk p a o => cases a <;> simp [mem, Kind.hasArr] at h ⊢
          | _ => left; exact prim_nonempty_of_mem_scalar _ K h (by intro xs; simp) (by intro m; simp)
        have hch : child (some v) (.field f) = none := by
          cases v <;> simp [child] at hv ⊢
        simp [hch, memOpt, hne, Kind.orUndefined_prim_undefined]

end Spec

namespace Spec

/-- what index `j ≥ 0` reads from an optional value. -/
def childN : Option Value → Nat → Option Value
  | some (.arr a), j => a.getN j
  | _, _ => none

/-- non-negative index lookup of a kind is sound. -/
theorem getIndexPos_sound (c : Option Value) (K : Kind) (col : Col) (j : Nat)
    (hK : K.array = some col) (h : memOpt c K = true) :
    memOpt (childN c j) (K.getIndexPos col j) = true := by
  unfold Kind.getIndexPos
  have hA := Kind.hasArr_of_array hK
  simp only
  cases c with
  | none =>
    simp only [memOpt] at h
    have hne := Kind.isExact_false_of_arr K hA (Or.inl (Kind.prim_isEmpty_false_of_undefined _ h))
    simp [childN, memOpt, hne, Kind.orUndefined_prim_undefined]
  | some v =>
    simp only [memOpt] at h
    by_cases hv : ∃ a, v = .arr a
    · obtain ⟨a, rfl⟩ := hv
      obtain ⟨col', hc, hmem, habs⟩ := (mem_arr_iff a K).mp h
      rw [hK] at hc; cases hc
      simp only [childN]
      cases hg : a.getN j with
      | some x =>
        have hx := hmem j x hg
        simp only [memOpt]
        cases hk : col.known.get (Key.ofIdx j) with
        | some k =>
          simp only [slotKind, hk] at hx
          split <;> simp [mem_orUndefined, hx]
        | none =>
          simp only [slotKind, hk] at hx
          have : mem x col.unknownKind = true := by
            rw [Col.unknownKind, mem_unknown_toKind]; exact hx
          split <;> simp [mem_orUndefined, this]
      | none =>
        simp only [memOpt]
        have hlen := getN_none_length a j hg
        cases hk : col.known.get (Key.ofIdx j) with
        | some k =>
          have := habs (Key.ofIdx j) k hk (by simpa [Key.ofIdx, Key.idx] using hlen)
          split <;> simp [Kind.orUndefined_prim_undefined, this]
        | none =>
          have := toKind_undefined col.unknown
          split <;> simp [Kind.orUndefined_prim_undefined, Col.unknownKind, this]
    · have hne : K.isExact = false := by
        apply Kind.isExact_false_of_arr K hA
        cases v with
        | arr a => exact absurd ⟨a, rfl⟩ hv
        | obj m =>
          right
          cases K with
          | mk p a o => cases o <;> simp [mem, Kind.hasObj] at h ⊢
        | _ => left; exact prim_nonempty_of_mem_scalar _ K h (by intro xs; simp) (by intro m; simp)
      have hch : childN (some v) j = none := by
        cases v <;> simp [childN] at hv ⊢
      simp [hch, memOpt, hne, Kind.orUndefined_prim_undefined]

theorem child_index_nonneg (c : Option Value) (i : Int) (hi : 0 ≤ i) :
    child c (.index i) = childN c i.toNat := by
  cases c with
  | none => rfl
  | some v =>
    cases v <;> try rfl
    case arr a =>
      simp [child, childN, VList.getIdx, VList.arrayIndex, hi]

/-- a kind without an array state reads `undefined` at an index; so does the value. -/
theorem getIndex_noArray (c : Option Value) (K : Kind) (i : Int) (hK : K.array = none)
    (h : memOpt c K = true) : memOpt (child c (.index i)) (K.getIndex i) = true := by
  unfold Kind.getIndex
  rw [hK]
  cases c with
  | none => simp [child, memOpt, Kind.undefined, Kind.prim]
  | some v =>
    cases v <;> try (simp [child, memOpt, Kind.undefined, Kind.prim])
    case arr a =>
      exfalso
      cases K with
      | mk p a' o => cases a' <;> simp [Kind.array] at hK; simp [memOpt, mem, Kind.hasArr] at h

theorem getIndex_sound_nonneg (c : Option Value) (K : Kind) (i : Int) (hi : 0 ≤ i)
    (h : memOpt c K = true) : memOpt (child c (.index i)) (K.getIndex i) = true := by
  cases hK : K.array with
  | none => exact getIndex_noArray c K i hK h
  | some col =>
    have : K.getIndex i = K.getIndexPos col i.toNat := by
      unfold Kind.getIndex
      rw [hK]
      simp [Int.not_lt.mpr hi]
    rw [this, child_index_nonneg c i hi]
    exact getIndexPos_sound c K col i.toNat hK h

end Spec

/-! ### negative index into an array of exactly known length -/

namespace KList

/-- the accumulator function of `largestKey`. -/
def maxStep (acc : Option Nat) (k : Key) (_ : Kind) : Option Nat :=
  match acc with
  | none => some k.idx
  | some m => some (max m k.idx)

theorem foldl_maxStep_ge : (m : KList) → (acc : Option Nat) →
    (∀ a, acc = some a → ∃ r, m.foldl maxStep acc = some r ∧ a ≤ r) ∧
    (∀ k, k ∈ m.keys → ∃ r, m.foldl maxStep acc = some r ∧ k.idx ≤ r)
  | .nil, acc => by
    constructor
    · intro a h; exact ⟨a, by simp [foldl, h], Nat.le_refl _⟩
    · intro k h; simp [keys] at h
  | .cons k v m, acc => by
    have ih := foldl_maxStep_ge m (maxStep acc k v)
    constructor
    · intro a h
      subst h
      obtain ⟨r, hr, hle⟩ := ih.1 (max a k.idx) (by simp [maxStep])
      exact ⟨r, by simpa [foldl] using hr, by omega⟩
    · intro q hq
      simp only [keys, List.mem_cons] at hq
      rcases hq with rfl | hq
      · cases acc with
        | none =>
          obtain ⟨r, hr, hle⟩ := ih.1 q.idx (by simp [maxStep])
          exact ⟨r, by simpa [foldl] using hr, hle⟩
        | some a =>
          obtain ⟨r, hr, hle⟩ := ih.1 (max a q.idx) (by simp [maxStep])
          exact ⟨r, by simpa [foldl] using hr, by omega⟩
      · obtain ⟨r, hr, hle⟩ := ih.2 q hq
        exact ⟨r, by simpa [foldl] using hr, hle⟩

theorem foldl_maxStep_attained : (m : KList) → (acc : Option Nat) → (r : Nat) →
    m.foldl maxStep acc = some r → acc = some r ∨ ∃ k, k ∈ m.keys ∧ k.idx = r
  | .nil, acc, r, h => by simp [foldl] at h; exact Or.inl h
  | .cons k v m, acc, r, h => by
    simp only [foldl] at h
    rcases foldl_maxStep_attained m _ r h with h1 | ⟨q, hq, hr⟩
    · cases acc with
      | none =>
        simp [maxStep] at h1
        exact Or.inr ⟨k, by simp [keys], h1⟩
      | some a =>
        simp only [maxStep, Option.some.injEq] at h1
        by_cases hak : a ≤ k.idx
        · exact Or.inr ⟨k, by simp [keys], by omega⟩
        · exact Or.inl (by congr; omega)
    · exact Or.inr ⟨q, by simp [keys, hq], hr⟩

end KList

namespace Spec

theorem largestKey_eq (c : Col) : c.largestKey = c.known.foldl KList.maxStep none := rfl

theorem mem_false_of_isUndefined (x : Value) (K : Kind) (h : K.isUndefined = true) : mem x K = false := by
  cases K with
  | mk p a o =>
    simp only [Kind.isUndefined, Kind.onlyPrim, Kind.prim, Prim.isEmpty, Kind.hasArr, Kind.hasObj,
      Bool.and_eq_true, Bool.not_eq_true', Bool.or_eq_false_iff] at h
    cases a <;> cases o <;> simp at h
    cases x <;> simp [mem, Kind.prim, Kind.hasArr, Kind.hasObj, h]

theorem getN_some_of_lt : (a : VList) → (n : Nat) → n < a.length → ∃ x, a.getN n = some x
  | .nil, _, h => by simp [VList.length] at h
  | .cons x _, 0, _ => ⟨x, rfl⟩
  | .cons _ xs, n + 1, h => by
    simp only [VList.length] at h
    exact getN_some_of_lt xs n (by omega)

/-- the length of a member of an array kind with no unknown elements and no optional known index
    is the length the kind computes (`largest key + 1`). -/
theorem length_eq_keyLength (a : VList) (K : Kind) (col : Col) (hK : K.array = some col)
    (h : mem (.arr a) K = true)
    (hopt : col.known.any (fun _ v => v.prim.undefined) = false)
    (hunk : col.unknownKind.containsAnyDefined = false) :
    a.length = col.keyLength := by
  obtain ⟨col', hc, hmem, habs⟩ := (mem_arr_iff a K).mp h
  rw [hK] at hc; cases hc
  have hkeys : ∀ k, k ∈ col.known.keys → k.idx < a.length := by
    intro k hk
    have hs := KList.get_isSome_of_mem_keys col.known k hk
    cases hg : col.known.get k with
    | none => simp [hg] at hs
    | some K' =>
      by_cases hl : k.idx < a.length
      · exact hl
      · have h1 := habs k K' hg (Nat.not_lt.mp hl)
        have h2 := KList.any_false _ col.known hopt k K' hg
        simp [h1] at h2
  have hub := KList.foldl_maxStep_ge col.known none
  unfold Col.keyLength
  rw [largestKey_eq]
  cases hl : a.length with
  | zero =>
    cases hf : col.known.foldl KList.maxStep none with
    | none => rfl
    | some r =>
      exfalso
      rcases KList.foldl_maxStep_attained col.known none r hf with h1 | ⟨k, hk, _⟩
      · cases h1
      · have := hkeys k hk; omega
  | succ n =>
    obtain ⟨x, hx⟩ := getN_some_of_lt a n (by omega)
    have hxm := hmem n x hx
    have hknown : (col.known.get (Key.ofIdx n)).isSome = true := by
      cases hg : col.known.get (Key.ofIdx n) with
      | some _ => rfl
      | none =>
        exfalso
        simp only [slotKind, hg] at hxm
        have hu : col.unknownKind.isUndefined = true := by
          simpa [Kind.containsAnyDefined] using hunk
        have := mem_false_of_isUndefined x col.unknownKind hu
        rw [Col.unknownKind, mem_unknown_toKind] at this
        rw [this] at hxm; cases hxm
    have hin : Key.ofIdx n ∈ col.known.keys := (KList.contains_iff _ _).mp hknown
    obtain ⟨r, hr, hle⟩ := hub.2 _ hin
    rw [hr]
    simp only [Key.ofIdx, Key.idx] at hle
    rcases KList.foldl_maxStep_attained col.known none r hr with h1 | ⟨k, hk, hkr⟩
    · cases h1
    · have := hkeys k hk
      simp only
      omega

theorem child_index_neg_arr (a : VList) (i : Int) (hi : i < 0) :
    child (some (.arr a)) (.index i) =
      if 0 ≤ (a.length : Int) + i then a.getN ((a.length : Int) + i).toNat else none := by
  simp only [child, VList.getIdx, VList.arrayIndex, Int.not_le.mpr hi, ge_iff_le, if_false]
  by_cases h0 : 0 ≤ (a.length : Int) + i <;> simp [h0]

theorem getIndex_neg_exact (K : Kind) (col : Col) (i : Int) (hi : i < 0) (hK : K.array = some col)
    (hunk : col.unknownKind.containsAnyDefined = false) :
    K.getIndex i =
      if col.keyLength ≥ (-i).toNat then K.getIndexPos col ((i + (col.keyLength : Int)).toNat)
      else Kind.undefined := by
  unfold Kind.getIndex
  rw [hK]
  simp only [hi, if_true, hunk, Bool.false_eq_true, if_false]

/-- negative index into an array kind of exactly known length without optional known indices. -/
theorem getIndex_sound_negExact (c : Option Value) (K : Kind) (col : Col) (i : Int) (hi : i < 0)
    (hK : K.array = some col) (h : memOpt c K = true)
    (hopt : col.known.any (fun _ v => v.prim.undefined) = false)
    (hunk : col.unknownKind.containsAnyDefined = false) :
    memOpt (child c (.index i)) (K.getIndex i) = true := by
  rw [getIndex_neg_exact K col i hi hK hunk]
  by_cases hv : ∃ a, c = some (.arr a)
  · obtain ⟨a, rfl⟩ := hv
    simp only [memOpt] at h
    have hlen := length_eq_keyLength a K col hK h hopt hunk
    rw [← hlen, child_index_neg_arr a i hi]
    by_cases hge : a.length ≥ (-i).toNat
    · have h0 : 0 ≤ (a.length : Int) + i := by omega
      rw [if_pos hge, if_pos h0, show (i + (a.length : Int)) = (a.length : Int) + i by omega]
      exact getIndexPos_sound (some (.arr a)) K col _ hK h
    · have h0 : ¬ 0 ≤ (a.length : Int) + i := by omega
      rw [if_neg hge, if_neg h0]
      simp [memOpt, Kind.undefined, Kind.prim]
  · have hch : child c (.index i) = none := by
      cases c with
      | none => rfl
      | some v => cases v <;> simp [child] at hv ⊢
    have hcn : ∀ j, childN c j = none := by
      intro j
      cases c with
      | none => rfl
      | some v => cases v <;> simp [childN] at hv ⊢
    rw [hch]
    split
    · have := getIndexPos_sound c K col ((i + (col.keyLength : Int)).toNat) hK h
      rwa [hcn] at this
    · simp [memOpt, Kind.undefined, Kind.prim]

/-- `Kind::at_path` is sound along every path that does not meet (i) an array kind with a known index
    that may be absent (`D_minlen_counts_optional`) or (ii) at a negative index, an array kind of
    unknown length (that case goes through `merge_keep`, see `at_sound_negUnknown_partial`). -/
theorem atPath_sound : (p : Path) → (c : Option Value) → (K : Kind) → optSorted c = true →
    memOpt c K = true → C19.anyOnPath C19.optionalIdx K p = false →
    C19.anyOnPath C19.negUnknown K p = false →
    memOpt (Value.getOpt c p) (K.atPath p) = true
  | [], c, K, _, h, _, _ => by simpa [Value.getOpt, Kind.atPath] using h
  | s :: rest, c, K, hs, h, h1, h2 => by
    simp only [C19.anyOnPath, Bool.or_eq_false_iff] at h1 h2
    rw [getOpt_cons, Kind.atPath, memOpt_not_never c K h]
    simp only [Bool.false_eq_true, if_false]
    refine atPath_sound rest (child c s) (K.getSeg s) (child_sorted c s hs) ?_ h1.2 h2.2
    cases s with
    | field f => exact getField_sound c K f hs h
    | index i =>
      simp only [Kind.getSeg]
      by_cases hi : 0 ≤ i
      · exact getIndex_sound_nonneg c K i hi h
      · have hi' : i < 0 := by omega
        cases hK : K.array with
        | none => exact getIndex_noArray c K i hK h
        | some col =>
          have ho := h1.1
          have hn := h2.1
          simp only [C19.optionalIdx, hK] at ho
          simp only [C19.negUnknown, hK, hi', decide_true, Bool.true_and] at hn
          exact getIndex_sound_negExact c K col i hi' hK h ho hn

end Spec

namespace Spec

theorem mem_orNull_of_mem (w : Value) (k : Kind) (h : mem w k = true) : mem w k.orNull = true := by
  cases k with
  | mk p a o =>
    cases w <;> simp [mem, Kind.orNull, Kind.prim, Kind.hasArr, Kind.hasObj, arrayD, objectD,
      Kind.array, Kind.object] at h ⊢ <;> try exact h
    all_goals (cases a <;> cases o <;> simp_all [Kind.hasArr, Kind.hasObj, Kind.array, Kind.object])

/-- `upgrade_undefined` of a location kind contains what a read yields at run time
    (`null` for an absent location). -/
theorem mem_upgradeUndefined (g : Option Value) (A : Kind) (h : memOpt g A = true) :
    mem (g.getD .null) A.upgradeUndefined = true := by
  have hn := memOpt_not_never g A h
  unfold Kind.upgradeUndefined
  rw [hn]
  simp only [Bool.false_eq_true, if_false]
  cases g with
  | some w =>
    simp only [memOpt, Option.getD_some] at h ⊢
    split
    · exact mem_orNull_of_mem w _ (by rw [mem_withoutUndefined]; exact h)
    · exact h
  | none =>
    simp only [memOpt] at h
    simp only [Option.getD_none, Kind.containsUndefined, h, Bool.true_or, if_true]
    cases A with
    | mk p a o => simp [mem, Kind.orNull, Kind.withoutUndefined, Kind.prim]

end Spec
