import VrlModel.C28
import VrlProofs.Lemmas.C28Str

/-! Lemmas for case-insensitive `starts_with` (C28): on valid UTF-8 the hand-written char iterator
    yields the chars of the string, so the function is the char-wise comparison `ciPrefix`; how
    `ciPrefix` relates to "lower-case both strings, then compare". -/
namespace Str
open C28

/-- `char::to_lowercase` on ASCII is `to_ascii_lowercase` (the `eq_ignore_ascii_case` shortcut of
    starts_with.rs is the general rule there).  Holds for every `CaseMap.withAscii _`. -/
def AsciiLower (cm : CaseMap) : Prop := ∀ c, c < 128 → cm.toLower c = [asciiLower c]

theorem asciiLower_ascii : AsciiLower CaseMap.ascii := fun _ _ => rfl

theorem asciiLower_withAscii (t : CaseMap) : AsciiLower t.withAscii := by
  intro c hc
  simp [CaseMap.withAscii, hc, CaseMap.ascii]

/-! ### `Chars::next` on the encoding of a scalar value -/

theorem decodeLossy_encodeCp (c : Nat) (h : isScalar c = true) : decodeLossy (encodeCp c) = [c] := by
  have := decodeGo_encodeCp c h []
  simpa [decodeLossy, decodeGo] using this

theorem charsNext_encodeCp (c : Nat) (h : isScalar c = true) (tail : List Nat) :
    charsNext (encodeCp c ++ tail) = some (.ok c, tail) := by
  have hd := decodeLossy_encodeCp c h
  rw [isScalar_iff] at h
  by_cases h1 : c < 0x80
  · have e : encodeCp c = [c] := by simp [encodeCp, h1]
    have hw : utf8Width c = 1 := by
      have : c ≤ 0x7F := by omega
      simp [utf8Width, this]
    simp [e, charsNext, hw]
  by_cases h2 : c < 0x800
  · have e : encodeCp c = [0xC0 + c / 64, 0x80 + c % 64] := by simp [encodeCp, h1, h2]
    have hw : utf8Width (0xC0 + c / 64) = 2 := by
      have a1 : ¬ 0xC0 + c / 64 ≤ 0x7F := by omega
      have a2 : 0xC2 ≤ 0xC0 + c / 64 ∧ 0xC0 + c / 64 ≤ 0xDF := by omega
      simp [utf8Width, a1, a2]
    rw [e] at hd ⊢
    simp [charsNext, hw, hd]
  by_cases h3 : c < 0x10000
  · have e : encodeCp c = [0xE0 + c / 4096, 0x80 + c / 64 % 64, 0x80 + c % 64] := by
      simp [encodeCp, h1, h2, h3]
    have hw : utf8Width (0xE0 + c / 4096) = 3 := by
      have a1 : ¬ 0xE0 + c / 4096 ≤ 0x7F := by omega
      have a2 : ¬ (0xC2 ≤ 0xE0 + c / 4096 ∧ 0xE0 + c / 4096 ≤ 0xDF) := by omega
      have a3 : 0xE0 ≤ 0xE0 + c / 4096 ∧ 0xE0 + c / 4096 ≤ 0xEF := by omega
      simp [utf8Width, a1, a2, a3]
    rw [e] at hd ⊢
    simp [charsNext, hw, hd]
  · have e : encodeCp c = [0xF0 + c / 262144, 0x80 + c / 4096 % 64, 0x80 + c / 64 % 64, 0x80 + c % 64] := by
      simp [encodeCp, h1, h2, h3]
    have hw : utf8Width (0xF0 + c / 262144) = 4 := by
      have a1 : ¬ 0xF0 + c / 262144 ≤ 0x7F := by omega
      have a2 : ¬ (0xC2 ≤ 0xF0 + c / 262144 ∧ 0xF0 + c / 262144 ≤ 0xDF) := by omega
      have a3 : ¬ (0xE0 ≤ 0xF0 + c / 262144 ∧ 0xF0 + c / 262144 ≤ 0xEF) := by omega
      have a4 : 0xF0 ≤ 0xF0 + c / 262144 ∧ 0xF0 + c / 262144 ≤ 0xF4 := by omega
      simp [utf8Width, a1, a2, a3, a4]
    rw [e] at hd ⊢
    simp [charsNext, hw, hd]

theorem encodeCp_length_pos (c : Nat) : 1 ≤ (encodeCp c).length := by
  unfold encodeCp; repeat' split
  all_goals simp

theorem length_le_encode : (cs : List Nat) → cs.length ≤ (encode cs).length
  | [] => by simp [encode]
  | c :: cs => by
    have := encodeCp_length_pos c
    have := length_le_encode cs
    simp only [encode, List.length_append, List.length_cons]
    omega

/-! ### the iterator loop is the char-wise comparison -/

theorem ciEq_eq_foldEq (cm : CaseMap) (h : AsciiLower cm) (a b : Nat) : ciEq cm a b = foldEq cm a b := by
  unfold ciEq foldEq
  split
  · rename_i hab
    rw [h a hab.1, h b hab.2, Bool.eq_iff_iff]
    simp
  · rfl

theorem ciAll_encode (cm : CaseMap) (h : AsciiLower cm) : (cs cv : List Nat) → (fuel : Nat) →
    (∀ c ∈ cs, isScalar c = true) → (∀ c ∈ cv, isScalar c = true) → cs.length < fuel →
    ciAll cm fuel (encode cs) (encode cv) = ciPrefix cm cs cv
  | _, _, 0, _, _, hf => by omega
  | [], _, _ + 1, _, _, _ => by simp [ciAll, encode, charsNext, ciPrefix]
  | a :: cs, [], _ + 1, hs, _, _ => by
    simp only [ciAll, encode, charsNext_encodeCp a (hs a (by simp))]
    simp [charsNext, ciPrefix]
  | a :: cs, b :: cv, fuel + 1, hs, hv, hf => by
    have ih := ciAll_encode cm h cs cv fuel (fun c hc => hs c (by simp [hc]))
      (fun c hc => hv c (by simp [hc])) (by simp at hf; omega)
    simp only [ciAll, encode, charsNext_encodeCp a (hs a (by simp)),
      charsNext_encodeCp b (hv b (by simp)), ih, ciPrefix, ciEq_eq_foldEq cm h]

/-! ### char-wise comparison vs. lower-casing both strings -/

theorem noSigma_cons (c : Nat) (s : List Nat) : noSigma (c :: s) = true ↔ c ≠ capSigma ∧ noSigma s = true := by
  simp only [noSigma, List.contains_cons, Bool.not_eq_true', Bool.or_eq_false_iff, beq_eq_false_iff_ne, ne_eq]
  constructor
  · rintro ⟨h1, h2⟩; exact ⟨fun e => h1 e.symm, h2⟩
  · rintro ⟨h1, h2⟩; exact ⟨fun e => h1 e.symm, h2⟩

/-- without `Σ` `str::to_lowercase` is `char::to_lowercase` char by char. -/
theorem downcaseGo_noSigma (cm : CaseMap) : (s before : List Nat) → noSigma s = true →
    downcaseGo cm before s = s.flatMap cm.toLower
  | [], _, _ => rfl
  | c :: s, before, h => by
    obtain ⟨hc, hs⟩ := (noSigma_cons c s).mp h
    simp [downcaseGo, hc, downcaseGo_noSigma cm s (c :: before) hs]

theorem downcaseCp_noSigma (cm : CaseMap) (s : List Nat) (h : noSigma s = true) :
    downcaseCp cm s = s.flatMap cm.toLower := downcaseGo_noSigma cm s [] h

/-- a char-wise match is a match of the lower-cased strings … -/
theorem ciPrefix_sound (cm : CaseMap) : (cs cv : List Nat) → ciPrefix cm cs cv = true →
    cs.flatMap cm.toLower <+: cv.flatMap cm.toLower
  | [], _, _ => by simp
  | _ :: _, [], h => by simp [ciPrefix] at h
  | a :: cs, b :: cv, h => by
    simp only [ciPrefix, foldEq, Bool.and_eq_true, beq_iff_eq] at h
    have ih := ciPrefix_sound cm cs cv h.2
    simp only [List.flatMap_cons, h.1]
    exact (List.prefix_append_right_inj _).mpr ih

/-- … and conversely when every char lower-cases to a single char. -/
theorem ciPrefix_complete (cm : CaseMap) : (cs cv : List Nat) →
    singleLower cm cs = true → singleLower cm cv = true →
    cs.flatMap cm.toLower <+: cv.flatMap cm.toLower → ciPrefix cm cs cv = true
  | [], _, _, _, _ => rfl
  | a :: cs, [], hs, _, hp => by
    simp only [singleLower, List.all_cons, Bool.and_eq_true, beq_iff_eq] at hs
    have : (cm.toLower a).length = 0 := by
      have := hp.length_le
      simp at this
      simp [this.1]
    omega
  | a :: cs, b :: cv, hs, hv, hp => by
    simp only [singleLower, List.all_cons, Bool.and_eq_true, beq_iff_eq] at hs hv
    obtain ⟨x, hx⟩ := List.length_eq_one_iff.mp hs.1
    obtain ⟨y, hy⟩ := List.length_eq_one_iff.mp hv.1
    simp only [List.flatMap_cons, hx, hy, List.singleton_append, List.cons_prefix_cons] at hp
    have ih := ciPrefix_complete cm cs cv hs.2 hv.2 hp.2
    simp [ciPrefix, foldEq, hx, hy, hp.1, ih]

end Str
