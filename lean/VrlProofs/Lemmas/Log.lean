import VrlModel.Lang.Eval
import VrlModel.Lang.Info

/-! Invariant machinery for C16: every entry of the target access log is covered by the reported
    query / assignment lists. The log is only ever extended by `St.tick`. -/

namespace Lang

abbrev PL := List (Bool × Path)

/-- reads and removals are covered by the queries, inserts by the assignments -/
def accIn (Q A : PL) (a : Access) : Prop :=
  if a.kind = 1 then (a.isMeta, a.path) ∈ A else (a.isMeta, a.path) ∈ Q

def LogOK (Q A : PL) (s : St) : Prop := ∀ a ∈ s.log, accIn Q A a

/-- a state transformer that keeps the log covered -/
def TOK (Q A : PL) (t : Thunk) : Prop := ∀ s, LogOK Q A s → LogOK Q A (t s).2

@[simp] theorem log_setVar (s : St) (n : String) (v : Value) : (s.setVar n v).log = s.log := rfl
@[simp] theorem log_delVar (s : St) (n : String) : (s.delVar n).log = s.log := rfl

theorem logOK_of_log_eq {Q A : PL} {s t : St} (h : t.log = s.log) (hs : LogOK Q A s) : LogOK Q A t := by
  unfold LogOK; rw [h]; exact hs

theorem logOK_tick {Q A : PL} (s : St) (k : Nat) (m : Bool) (p : Path) (hs : LogOK Q A s)
    (ha : ∀ rej, accIn Q A ⟨k, m, p, rej⟩) : LogOK Q A (s.tick k m p).2 := by
  intro a hmem
  simp only [St.tick, List.mem_cons] at hmem
  rcases hmem with rfl | h
  · exact ha _
  · exact hs a h

theorem logOK_targetGet {Q A : PL} (s : St) (m : Bool) (p : Path) (hs : LogOK Q A s)
    (hq : (m, p) ∈ Q) : LogOK Q A (s.targetGet m p).2 := by
  have h := logOK_tick (Q := Q) (A := A) s 0 m p hs (by intro rej; simp [accIn, hq])
  unfold St.targetGet
  cases ht : s.tick 0 m p with | mk rej s' => rw [ht] at h; simp only; split <;> exact h

theorem logOK_targetRemove {Q A : PL} (s : St) (m : Bool) (p : Path) (c : Bool) (hs : LogOK Q A s)
    (hq : (m, p) ∈ Q) : LogOK Q A (s.targetRemove m p c).2 := by
  have h := logOK_tick (Q := Q) (A := A) s 2 m p hs (by intro rej; simp [accIn, hq])
  unfold St.targetRemove
  cases ht : s.tick 2 m p with | mk rej s' =>
    rw [ht] at h; simp only
    split
    · exact h
    · split <;> exact logOK_of_log_eq rfl h

theorem logOK_targetInsert {Q A : PL} (s s' : St) (m : Bool) (p : Path) (v : Value) (hs : LogOK Q A s)
    (ha : (m, p) ∈ A) (hi : s.targetInsert m p v = some s') : LogOK Q A s' := by
  have h := logOK_tick (Q := Q) (A := A) s 1 m p hs (by intro rej; simp [accIn, ha])
  unfold St.targetInsert at hi
  cases ht : s.tick 1 m p with | mk rej s1 =>
    rw [ht] at h hi; simp only at hi
    split at hi
    · cases hi; exact h
    · split at hi
      · cases hi
      · cases hi; split <;> exact logOK_of_log_eq rfl h

theorem logOK_tgtInsert {Q A : PL} (t : Tgt) (v : Value) (s s' : St) (hs : LogOK Q A s)
    (ha : ∀ x ∈ tgtAssign t, x ∈ A) (hi : t.insert v s = some s') : LogOK Q A s' := by
  cases t with
  | noop => simp [Tgt.insert] at hi; subst hi; exact hs
  | internal n p =>
    simp only [Tgt.insert] at hi
    split at hi
    · cases hi; exact logOK_of_log_eq rfl hs
    · split at hi
      · split at hi
        · cases hi
        · cases hi; exact logOK_of_log_eq rfl hs
      · split at hi
        · cases hi
        · cases hi; exact logOK_of_log_eq rfl hs
  | external m p =>
    exact logOK_targetInsert s s' m p v hs (ha _ (by simp [tgtAssign])) hi

@[simp] theorem log_cInsert (s : St) (i : Option String) (v : Value) : (cInsert s i v).2.log = s.log := by
  cases i <;> rfl

@[simp] theorem log_cCleanup (s : St) (i : Option String) (o : Option Value) : (cCleanup s i o).log = s.log := by
  cases i <;> cases o <;> rfl

theorem tok_runBody {Q A : PL} (body : Thunk) (hb : TOK Q A body) : TOK Q A (runBody body) := by
  intro s hs
  have := hb s hs
  unfold runBody
  cases h : body s with | mk r s1 => rw [h] at this; cases r <;> exact this

theorem logOK_runKeyValue {Q A : PL} (vars : List String) (body : Thunk) (hb : TOK Q A body)
    (k : List Nat) (v : Value) (s : St) (hs : LogOK Q A s) :
    LogOK Q A (runKeyValue vars body k v s).2 := by
  unfold runKeyValue
  simp only
  apply logOK_of_log_eq (s := (runBody body (cInsert (cInsert s (cIdent vars 0) (.bytes k)).2 (cIdent vars 1) v).2).2)
  · simp
  · exact tok_runBody body hb _ (logOK_of_log_eq (by simp) hs)

theorem logOK_runIndexValue {Q A : PL} (vars : List String) (body : Thunk) (hb : TOK Q A body)
    (i : Nat) (v : Value) (s : St) (hs : LogOK Q A s) :
    LogOK Q A (runIndexValue vars body i v s).2 := by
  unfold runIndexValue
  simp only
  apply logOK_of_log_eq (s := (runBody body (cInsert (cInsert s (cIdent vars 0) (.int i)).2 (cIdent vars 1) v).2).2)
  · simp
  · exact tok_runBody body hb _ (logOK_of_log_eq (by simp) hs)

theorem logOK_mapKey {Q A : PL} (vars : List String) (body : Thunk) (hb : TOK Q A body)
    (k : List Nat) (s : St) (hs : LogOK Q A s) : LogOK Q A (mapKey vars body k s).2 := by
  unfold mapKey
  simp only
  have h := tok_runBody body hb (cInsert s (cIdent vars 0) (.bytes k)).2 (logOK_of_log_eq (by simp) hs)
  split <;> exact logOK_of_log_eq (by simp) h

theorem logOK_mapValue {Q A : PL} (vars : List String) (body : Thunk) (hb : TOK Q A body)
    (v : Value) (s : St) (hs : LogOK Q A s) : LogOK Q A (mapValue vars body v s).2 := by
  unfold mapValue
  simp only
  have h := tok_runBody body hb (cInsert s (cIdent vars 0) v).2 (logOK_of_log_eq (by simp) hs)
  exact logOK_of_log_eq (by simp) h

end Lang
