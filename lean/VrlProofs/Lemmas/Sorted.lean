import VrlProofs.Lemmas.Value

/-! Preservation of the object invariant (`Sorted`: keys strictly increasing, recursively). -/

namespace VMap

theorem sorted_get : (m : VMap) → (q : List Nat) → (v : Value) → m.Sorted = true → m.get q = some v →
    v.Sorted = true
  | .nil, _, _, _, h => by simp [VMap.get] at h
  | .cons k w m, q, v, hs, h => by
    simp only [VMap.Sorted, Bool.and_eq_true] at hs
    simp only [VMap.get] at h
    split at h
    · cases h; exact hs.1.1
    · exact sorted_get m q v hs.2 h

theorem sorted_insert : (m : VMap) → (q : List Nat) → (x : Value) → m.Sorted = true → x.Sorted = true →
    (m.insert q x).Sorted = true
  | .nil, q, x, _, hx => by simp [VMap.insert, VMap.Sorted, hx, allGt]
  | .cons k v m, q, x, hs, hx => by
    simp only [VMap.Sorted, Bool.and_eq_true] at hs
    simp only [VMap.insert]
    split
    · rename_i hlt
      simp only [VMap.Sorted, allGt, Bool.and_eq_true]
      exact ⟨⟨hx, hlt, allGt_trans m q k hlt hs.1.2⟩, ⟨hs.1.1, hs.1.2⟩, hs.2⟩
    · split
      · simp only [VMap.Sorted, Bool.and_eq_true]
        exact ⟨⟨hx, hs.1.2⟩, hs.2⟩
      · rename_i hnlt hne
        have hkq : Key.lt k q = true := by
          rcases Key.lt_total k q with h | h | h
          · exact h
          · exact absurd h hne
          · simp [h] at hnlt
        simp only [VMap.Sorted, Bool.and_eq_true]
        exact ⟨⟨hs.1.1, allGt_insert m k q x hkq hs.1.2⟩, sorted_insert m q x hs.2 hx⟩

theorem sorted_remove : (m : VMap) → (q : List Nat) → m.Sorted = true → (m.remove q).Sorted = true
  | .nil, _, _ => rfl
  | .cons k v m, q, hs => by
    simp only [VMap.Sorted, Bool.and_eq_true] at hs
    simp only [VMap.remove]
    split
    · exact hs.2
    · simp only [VMap.Sorted, Bool.and_eq_true]
      exact ⟨⟨hs.1.1, allGt_remove m k q hs.1.2⟩, sorted_remove m q hs.2⟩

/-! keys are unique in a sorted object: a removed key is gone -/

theorem get_none_of_allGt : (m : VMap) → (q : List Nat) → allGt q m = true → m.get q = none
  | .nil, _, _ => rfl
  | .cons k v m, q, h => by
    simp only [allGt, Bool.and_eq_true] at h
    have hne : k ≠ q := fun e => Key.lt_ne q k h.1 e.symm
    simp only [VMap.get, hne, if_false]
    exact get_none_of_allGt m q h.2

theorem get_remove_same : (m : VMap) → (q : List Nat) → m.Sorted = true → (m.remove q).get q = none
  | .nil, _, _ => rfl
  | .cons k v m, q, hs => by
    simp only [VMap.Sorted, Bool.and_eq_true] at hs
    by_cases e : k = q
    · subst e
      simp only [VMap.remove, if_true]
      exact get_none_of_allGt m k hs.1.2
    · simp only [VMap.remove, e, if_false, VMap.get]
      exact get_remove_same m q hs.2

end VMap

namespace VList

theorem sorted_getN : (a : VList) → (n : Nat) → (v : Value) → a.Sorted = true → a.getN n = some v →
    v.Sorted = true
  | .nil, _, _, _, h => by simp [getN] at h
  | .cons w _, 0, v, hs, h => by
    simp only [VList.Sorted, Bool.and_eq_true] at hs
    simp only [getN] at h; cases h; exact hs.1
  | .cons _ ws, n + 1, v, hs, h => by
    simp only [VList.Sorted, Bool.and_eq_true] at hs
    exact sorted_getN ws n v hs.2 h

theorem sorted_getIdx (a : VList) (i : Int) (v : Value) (hs : a.Sorted = true)
    (h : a.getIdx i = some v) : v.Sorted = true := by
  unfold getIdx at h
  split at h
  · exact sorted_getN a _ v hs h
  · cases h

theorem sorted_setN : (a : VList) → (n : Nat) → (x : Value) → a.Sorted = true → x.Sorted = true →
    (a.setN n x).Sorted = true
  | .nil, _, _, _, _ => rfl
  | .cons _ ws, 0, x, hs, hx => by
    simp only [VList.Sorted, Bool.and_eq_true] at hs
    simp [setN, VList.Sorted, hx, hs.2]
  | .cons w ws, n + 1, x, hs, hx => by
    simp only [VList.Sorted, Bool.and_eq_true] at hs
    simp [setN, VList.Sorted, hs.1, sorted_setN ws n x hs.2 hx]

theorem sorted_removeN : (a : VList) → (n : Nat) → a.Sorted = true → (a.removeN n).Sorted = true
  | .nil, _, _ => rfl
  | .cons _ ws, 0, hs => by
    simp only [VList.Sorted, Bool.and_eq_true] at hs
    exact hs.2
  | .cons w ws, n + 1, hs => by
    simp only [VList.Sorted, Bool.and_eq_true] at hs
    simp [removeN, VList.Sorted, hs.1, sorted_removeN ws n hs.2]

theorem sorted_append : (a b : VList) → a.Sorted = true → b.Sorted = true → (a.append b).Sorted = true
  | .nil, _, _, hb => hb
  | .cons w ws, b, hs, hb => by
    simp only [VList.Sorted, Bool.and_eq_true] at hs
    simp [append, VList.Sorted, hs.1, sorted_append ws b hs.2 hb]

theorem sorted_nulls : (n : Nat) → (nulls n).Sorted = true
  | 0 => rfl
  | n + 1 => by simp [nulls, VList.Sorted, Value.Sorted, sorted_nulls n]

theorem sorted_insertIdx (a : VList) (i : Int) (x : Value) (hs : a.Sorted = true)
    (hx : x.Sorted = true) : (a.insertIdx i x).Sorted = true := by
  unfold insertIdx
  split
  · split
    · exact sorted_append _ _ (sorted_append _ _ hs (sorted_nulls _)) (by simp [VList.Sorted, hx])
    · exact sorted_setN a _ x hs hx
  · simp only []
    split
    · simp only [VList.Sorted, Bool.and_eq_true]
      exact ⟨hx, sorted_append _ _ (sorted_nulls _) hs⟩
    · exact sorted_setN a _ x hs hx

end VList
